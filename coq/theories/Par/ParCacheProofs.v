(* Proofs about the par.Cache model (ParCache.v), part 2: f runs at most once per key (exactly once
   when somebody asked), Do returns f's value and only after f completed, also for Do calls nested
   in f; Get never blocks and returns nil or that value (nil only before the computation finished);
   the two plain accesses to e.result never race; no deadlock and termination when the
   dependency relation between keys is acyclic.  For every set of programs and every schedule. *)
From Coq Require Import List Arith Bool Lia.
From GI Require Import Gen.ParConsts Par.ParWork Par.ParLib Par.ParCache Par.ParCacheBase.
Import ListNotations.

Ltac isdsimp := rewrite ?isd_set_present, ?isd_set_locked, ?isd_set_result, ?isd_inc_fbegins, ?isd_inc_fends, ?isd_set_done, ?isd_add_orph in *.
Ltac csimp :=
  rewrite ?fr_goto, ?fr_ret, ?fr_push, ?fr_mk, ?fr_dead, ?orphans_fr in *;
  cbn [tpc goto ret push dead thrs ents plain holds is_call is_inf is_wr is_st b2n
       present done locked result fbegins fends orph set_present set_done set_locked set_result inc_fbegins inc_fends add_orph] in *.

Section Proofs.
Variable fval : nat -> option nat.
Variable deps : nat -> list nat.
Variable crash : nat -> bool.
Variable progs : list (list call).

Notation cstep := (cstep fval deps crash).
Notation crun := (crun fval deps crash).
Notation init := (cinit progs).
Notation creachable := (creachable fval deps crash progs).
Notation stepC := (stepC fval deps crash).

(* ---- group B: values, nesting discipline *)
Definition deps_done (e : nat -> entry) (k : nat) : Prop := forall d, In d (deps k) -> isd (e d) = true.

Definition pc_ok (e : nat -> entry) (p : cpc) : Prop :=
  match p with
  | DInF k j => forall m d, m < j -> nth_error (deps k) m = Some d -> isd (e d) = true
  | DWrite k v => v = fval k /\ deps_done e k
  | DStore k => deps_done e k
  | DUnlock k | DRead k | GRead k => isd (e k) = true
  | _ => True
  end.
Definition ret_ok (e : nat -> entry) (cv : call * option nat) : Prop :=
  match cv with
  | (CDo k, v) => v = fval k /\ isd (e k) = true
  | (CGet k, v) => v = None \/ (v = fval k /\ isd (e k) = true)
  end.
Definition nret_ok (e : nat -> entry) (kv : nat * option nat) : Prop :=
  snd kv = fval (fst kv) /\ isd (e (fst kv)) = true.
(* a suspended frame (k, j): the nested calls before the current one (index j-1) have completed *)
Definition frame_ok (e : nat -> entry) (f : nat * nat) : Prop :=
  forall m d, S m < snd f -> nth_error (deps (fst f)) m = Some d -> isd (e d) = true.
(* the call chain: the running Do(cur) is the nested call the top frame is waiting for, and so on down *)
Fixpoint chain_ok (cur : nat) (st : list (nat * nat)) : Prop :=
  match st with
  | [] => True
  | (k, j) :: r => (exists j0, j = S j0 /\ nth_error (deps k) j0 = Some cur) /\ chain_ok k r
  end.
Definition dokey (p : cpc) : option nat :=
  match p with
  | DLoad k | DLoadOrStore k | DLoad1 k | DLock k | DLoad2 k | DCall k | DInF k _ | DWrite k _ | DStore k
  | DUnlock k | DRead k => Some k
  | _ => None
  end.
Definition thr_chain (th : thr) : Prop :=
  match dokey (tpc th) with Some c => chain_ok c (stack th) | None => stack th = [] end.

Record thr_ok (e : nat -> entry) (th : thr) : Prop := {
  t_pc : pc_ok e (tpc th);
  t_rets : Forall (ret_ok e) (rets th);
  t_nrets : Forall (nret_ok e) (nrets th);
  t_frames : Forall (frame_ok e) (stack th);
  t_chain : thr_chain th
}.

Record InvB (s : cstate) : Prop := {
  b_res : forall k, (0 < C (is_st k) (thrs s) \/ isd (ents s k) = true) -> result (ents s k) = fval k;
  b_deps : forall k, isd (ents s k) = true -> deps_done (ents s) k;
  b_thr : Forall (thr_ok (ents s)) (thrs s)
}.

Definition mono (e e' : nat -> entry) : Prop := forall k, isd (e k) = true -> isd (e' k) = true.

Lemma ret_ok_mono e e' cv : mono e e' -> ret_ok e cv -> ret_ok e' cv.
Proof. intros H; destruct cv as [[k|k] v]; simpl; intuition. Qed.
Lemma nret_ok_mono e e' kv : mono e e' -> nret_ok e kv -> nret_ok e' kv.
Proof. intros H [H1 H2]; split; auto. Qed.
Lemma frame_ok_mono e e' f : mono e e' -> frame_ok e f -> frame_ok e' f.
Proof. intros H Hf m d Hm Hd; eauto. Qed.
Lemma deps_done_mono e e' k : mono e e' -> deps_done e k -> deps_done e' k.
Proof. intros H Hd d Hin; auto. Qed.
Lemma pc_ok_mono e e' p : mono e e' -> pc_ok e p -> pc_ok e' p.
Proof.
  intros H; destruct p; simpl; auto.
  - intros Hp m d Hm Hd; eauto.
  - intros [? ?]; split; auto; eapply deps_done_mono; eauto.
  - apply deps_done_mono; auto.
Qed.

Lemma thr_ok_mono e e' th : mono e e' -> thr_ok e th -> thr_ok e' th.
Proof.
  intros H [H1 H2 H3 H4 H5]; constructor; auto.
  - eapply pc_ok_mono; eauto.
  - eapply Forall_impl; [|exact H2]; intros; eapply ret_ok_mono; eauto.
  - eapply Forall_impl; [|exact H3]; intros; eapply nret_ok_mono; eauto.
  - eapply Forall_impl; [|exact H4]; intros; eapply frame_ok_mono; eauto.
Qed.

Lemma init_InvB : InvB init.
Proof.
  constructor.
  - intros k [H|H]; [|discriminate]. rewrite C_init in H; [lia|]. intros l; apply (start_cur_neutral l k).
  - intros k H; discriminate.
  - unfold cinit; cbn [thrs ents]. apply Forall_forall. intros th Hth. apply in_map_iff in Hth as (p & <- & _).
    constructor; simpl; auto; destruct p as [|[] r]; simpl; auto; try exact I; reflexivity.
Qed.

Lemma pc_ok_start e l : pc_ok e (fst (start l)).
Proof. destruct l as [|[] r]; exact I. Qed.

Lemma mono_refl e : mono e e. Proof. intros k H; exact H. Qed.
Lemma mono_upd e k0 x : (isd (e k0) = true -> isd x = true) -> mono e (upd k0 x e).
Proof. intros H k Hk. unfold upd. destruct (Nat.eqb_spec k0 k) as [->|]; auto. Qed.

(* a thread that only moves its pc inside the same call *)
Lemma thr_ok_goto e e' th p : mono e e' -> thr_ok e th -> pc_ok e' p -> dokey p = dokey (tpc th) ->
  thr_ok e' (goto th p).
Proof.
  intros Hm Hok Hp Hk. destruct (thr_ok_mono _ _ _ Hm Hok) as [H1 H2 H3 H4 H5].
  constructor; auto. unfold thr_chain in *. cbn [goto tpc stack]. rewrite Hk. exact H5.
Qed.

(* a top-level call returns *)
Lemma thr_ok_ret e th c v : thr_ok e th -> stack th = [] -> ret_ok e (c, v) -> thr_ok e (ret th c v).
Proof.
  intros [H1 H2 H3 H4 H5] Hs Hr. constructor; cbn [ret tpc rets nrets stack]; auto.
  - apply pc_ok_start.
  - unfold thr_chain. cbn [ret tpc stack]. rewrite Hs. destruct (dokey (fst (start (rest th)))); simpl; auto.
Qed.

Lemma step_mono s t th s' : InvA s -> nth_error (thrs s) t = Some th -> stepC s t th s' -> mono (ents s) (ents s').
Proof.
  intros HA Hn HS; destruct HS; cbn [ents]; try apply mono_refl; try (apply mono_upd; isdsimp; auto; fail).
  intros k' Hk'. isdsimp. exact Hk'.
Qed.

Lemma step_InvB s t th s' : InvA s -> InvB s -> nth_error (thrs s) t = Some th -> stepC s t th s' -> InvB s'.
Proof.
  intros HA [Hres Hdeps Hthr] Hnth HS.
  pose proof (step_mono _ _ _ _ HA Hnth HS) as Hm.
  pose proof (Forall_nth_error _ _ _ _ Hthr Hnth) as Hok.
  assert (Hothers : forall th', thr_ok (ents s') th' -> Forall (thr_ok (ents s')) (set_nth t th' (thrs s))).
  { intros th' H'. apply Forall_set_nth; auto. eapply Forall_impl; [|exact Hthr]. intros; eapply thr_ok_mono; eauto. }
  assert (Hst : forall k th', C (is_st k) (set_nth t th' (thrs s)) + b2n (is_st k (tpc th)) = C (is_st k) (thrs s) + b2n (is_st k (tpc th'))).
  { intros k th'. apply C_set_nth; auto. }
  (* b_res and b_deps when neither the set of DStore threads, nor done, nor result change *)
  assert (Hkeep : forall th' e', (forall k, is_st k (tpc th') = is_st k (tpc th)) ->
            (forall k, isd (e' k) = isd (ents s k)) -> (forall k, result (e' k) = result (ents s k)) ->
            thr_ok e' th' -> mono (ents s) e' ->
            InvB (mkC (set_nth t th' (thrs s)) e' (plain s')) ).
  { intros th' e' Hc Hi Hr Hok' Hm'. constructor; cbn [thrs ents].
    - intros k H. rewrite Hr. apply Hres. specialize (Hst k th'). rewrite Hc in Hst. rewrite Hi in H.
      destruct H; [left; lia|right; auto].
    - intros k H d Hd. rewrite Hi in *. specialize (Hdeps k H d Hd). congruence.
    - apply Forall_set_nth; auto. eapply Forall_impl; [|exact Hthr]. intros; eapply thr_ok_mono; eauto. }
  destruct Hok as [Hpc Hrets Hnrets Hframes Hchain].
  assert (Hok : thr_ok (ents s) th) by (constructor; auto).
  destruct HS as [k0 Hp E|k0 Hp E|k0 Hp|k0 Hp E|k0 Hp E|k0 Hp E|k0 Hp E|k0 Hp E|k0 Hp|k0 j0 Hp E Ec|k0 v Hp|k0 Hp|k0 Hp|k0 Hp E0
                 |k0 Hp E|k0 Hp E|k0 Hp E|k0 Hp E|k0 Hp|k0 j0 d0 Hp E|k0 k1 j1 st1 Hp E|k0 j0 Hp E Ec];
    cbn [ents plain thrs] in *; rewrite Hp in Hpc; cbn [pc_ok] in Hpc.
  - apply Hkeep; auto; [intros; rewrite Hp; reflexivity|]. apply (thr_ok_goto (ents s)); auto; try (rewrite Hp; reflexivity); try exact I.
  - apply Hkeep; auto; [intros; rewrite Hp; reflexivity|]. apply (thr_ok_goto (ents s)); auto; try (rewrite Hp; reflexivity); try exact I.
  - apply Hkeep; auto; try (intros k; unfold upd; destruct (Nat.eqb_spec k0 k) as [->|]; reflexivity);
      [intros; rewrite Hp; reflexivity|]. apply (thr_ok_goto (ents s)); auto; try (rewrite Hp; reflexivity); try exact I.
  - apply Hkeep; auto; [intros; rewrite Hp; reflexivity|]. apply (thr_ok_goto (ents s)); auto; try (rewrite Hp; reflexivity); try exact E.
  - apply Hkeep; auto; [intros; rewrite Hp; reflexivity|]. apply (thr_ok_goto (ents s)); auto; try (rewrite Hp; reflexivity); try exact I.
  - apply Hkeep; auto; try (intros k; unfold upd; destruct (Nat.eqb_spec k0 k) as [->|]; reflexivity);
      [intros; rewrite Hp; reflexivity|]. apply (thr_ok_goto (ents s)); auto; try (rewrite Hp; reflexivity); try exact I.
  - apply Hkeep; auto; [intros; rewrite Hp; reflexivity|]. apply (thr_ok_goto (ents s)); auto; try (rewrite Hp; reflexivity); try exact E.
  - apply Hkeep; auto; [intros; rewrite Hp; reflexivity|]. apply (thr_ok_goto (ents s)); auto; try (rewrite Hp; reflexivity); try exact I.
  - (* call f *)
    apply Hkeep; auto; try (intros k; unfold upd; destruct (Nat.eqb_spec k0 k) as [->|]; reflexivity);
      [intros; rewrite Hp; reflexivity|]. apply (thr_ok_goto (ents s)); auto; try (rewrite Hp; reflexivity).
    simpl. intros m d Hlt; lia.
  - (* f returns *)
    apply Hkeep; auto; try (intros k; unfold upd; destruct (Nat.eqb_spec k0 k) as [->|]; reflexivity);
      [intros; rewrite Hp; reflexivity|]. apply (thr_ok_goto (ents s)); auto; try (rewrite Hp; reflexivity).
    simpl. split; auto. intros d Hd. apply In_nth_error in Hd as [m Hmd].
    assert (isd (ents s d) = true).
    { apply (Hpc m); auto. apply nth_error_None in E. apply nth_error_lt in Hmd. lia. }
    apply Hm; auto.
  - (* plain write *)
    destruct Hpc as [-> Hdd].
    constructor; cbn [thrs ents].
    + intros k H. unfold upd. destruct (Nat.eqb_spec k0 k) as [->|Hne]; [reflexivity|].
      apply Hres. specialize (Hst k (goto th (DStore k0))). rewrite Hp in Hst. simpl in Hst.
      apply Nat.eqb_neq in Hne. rewrite Hne in Hst. unfold upd in H. rewrite Hne in H. simpl in Hst.
      destruct H; [left; lia|right; auto].
    + intros k H. eapply deps_done_mono; [exact Hm|]. apply Hdeps.
      unfold upd in H. destruct (Nat.eqb_spec k0 k) as [->|]; isdsimp; auto.
    + apply Hothers. apply (thr_ok_goto (ents s)); auto; try (rewrite Hp; reflexivity). simpl. eapply deps_done_mono; eauto.
  - (* store done *)
    constructor; cbn [thrs ents].
    + intros k H. unfold upd. destruct (Nat.eqb_spec k0 k) as [->|Hne]; cbn [result set_done].
      * apply Hres. left. pose proof (C_ge1 (is_st k) _ _ _ Hnth) as Hge. rewrite Hp in Hge. simpl in Hge.
        rewrite Nat.eqb_refl in Hge. specialize (Hge eq_refl). lia.
      * apply Hres. specialize (Hst k (goto th (DUnlock k0))). rewrite Hp in Hst. simpl in Hst.
        apply Nat.eqb_neq in Hne. rewrite Hne in Hst. unfold upd in H. rewrite Hne in H. simpl in Hst.
        destruct H; [left; lia|right; auto].
    + intros k H. eapply deps_done_mono; [exact Hm|].
      unfold upd in H. destruct (Nat.eqb_spec k0 k) as [->|]; isdsimp; auto.
    + apply Hothers. apply (thr_ok_goto (ents s)); auto; try (rewrite Hp; reflexivity). simpl. unfold upd. rewrite Nat.eqb_refl. isdsimp. reflexivity.
  - (* unlock *)
    apply Hkeep; auto; try (intros k; unfold upd; destruct (Nat.eqb_spec k0 k) as [->|]; reflexivity);
      [intros; rewrite Hp; reflexivity|]. apply (thr_ok_goto (ents s)); auto; try (rewrite Hp; reflexivity).
    simpl. unfold upd. rewrite Nat.eqb_refl. isdsimp. exact Hpc.
  - (* Do returns to the program *)
    apply Hkeep; auto; [intros k; rewrite Hp; simpl; apply start_st|].
    apply thr_ok_ret; auto. simpl. split; auto.
  - apply Hkeep; auto; [intros; rewrite Hp; reflexivity|]. apply (thr_ok_goto (ents s)); auto; try (rewrite Hp; reflexivity); try exact I.
  - apply Hkeep; auto; [intros k; rewrite Hp; simpl; apply start_st|].
    apply thr_ok_ret; auto; [|simpl; auto]. unfold thr_chain in Hchain. rewrite Hp in Hchain. exact Hchain.
  - apply Hkeep; auto; [intros; rewrite Hp; reflexivity|]. apply (thr_ok_goto (ents s)); auto; try (rewrite Hp; reflexivity); try exact E.
  - apply Hkeep; auto; [intros k; rewrite Hp; simpl; apply start_st|].
    apply thr_ok_ret; auto; [|simpl; auto]. unfold thr_chain in Hchain. rewrite Hp in Hchain. exact Hchain.
  - apply Hkeep; auto; [intros k; rewrite Hp; simpl; apply start_st|].
    apply thr_ok_ret; auto; [|simpl; auto]. unfold thr_chain in Hchain. rewrite Hp in Hchain. exact Hchain.
  - (* f starts a nested Do *)
    apply Hkeep; auto; [intros; rewrite Hp; reflexivity|].
    constructor; cbn [push tpc rets nrets stack]; auto; [exact I| |].
    + constructor; auto. intros m d Hlt Hd. simpl in *. apply (Hpc m); auto. lia.
    + unfold thr_chain in *. rewrite Hp in Hchain. simpl in *. split; eauto.
  - (* a nested Do returns into f *)
    unfold thr_chain in Hchain. rewrite Hp, E in Hchain. simpl in Hchain. destruct Hchain as [(j2 & -> & Hj2) Hch].
    rewrite E in Hframes. inversion Hframes as [|f fs Hf Hfs]; subst.
    apply Hkeep; auto; [intros; rewrite Hp; reflexivity|].
    constructor; cbn [tpc rets nrets stack]; auto.
    + simpl. intros m d Hlt Hd. destruct (Nat.eq_dec m j2) as [->|Hne].
      * rewrite Hj2 in Hd. inversion Hd; subst. exact Hpc.
      * apply (Hf m d); simpl; auto; lia.
    + constructor; auto. split; simpl; auto.
  - (* f fails: the goroutine is gone; no done flag and no result changes *)
    apply Hkeep; auto; [intros; rewrite Hp; reflexivity|].
    destruct (thr_ok_mono _ _ _ Hm Hok) as [H1 H2 H3 H4 H5].
    constructor; cbn [dead tpc rets nrets stack]; auto; try exact I. reflexivity.
Qed.

(* ---- group C: the history of plain accesses *)
Record InvP (s : cstate) : Prop := {
  p_acc : forall k, (exists t w, In (t, k, w) (plain s)) -> 0 < C (is_st k) (thrs s) \/ isd (ents s k) = true;
  p_wr : forall k, (0 < C (is_st k) (thrs s) \/ isd (ents s k) = true) -> exists t', In (t', k, true) (plain s);
  p_wf : wf_plain (plain s)
}.

Lemma init_InvP : InvP init.
Proof.
  constructor.
  - intros k (t & w & H). exact (match H with end).
  - intros k [H|H]; [|discriminate]. rewrite C_init in H; [lia|]. intros l; apply (start_cur_neutral l k).
  - exact I.
Qed.

Lemma step_InvP s t th s' : InvA s -> InvB s -> InvP s -> nth_error (thrs s) t = Some th -> stepC s t th s' -> InvP s'.
Proof.
  intros HA HB [Hacc Hwr Hwf] Hnth HS.
  pose proof (Forall_nth_error _ _ _ _ (b_thr _ HB) Hnth) as [Hpc Hrets].
  assert (Hgen : forall th' e' pl',
            (forall k, C (is_st k) (set_nth t th' (thrs s)) = C (is_st k) (thrs s)) ->
            (forall k, isd (e' k) = isd (ents s k)) ->
            pl' = plain s ->
            InvP (mkC (set_nth t th' (thrs s)) e' pl')).
  { intros th' e' pl' Hc Hi ->. constructor; cbn [thrs ents plain]; auto.
    - intros k H. rewrite Hc, Hi. auto.
    - intros k H. rewrite Hc, Hi in H. auto. }
  assert (Hst : forall k th', C (is_st k) (set_nth t th' (thrs s)) + b2n (is_st k (tpc th)) = C (is_st k) (thrs s) + b2n (is_st k (tpc th'))).
  { intros k th'. apply C_set_nth; auto. }
  assert (Hread : forall k0 th', tpc th = DRead k0 \/ tpc th = GRead k0 -> is_st k0 (tpc th') = false ->
            (forall k, is_st k (tpc th') = false) ->
            InvP (mkC (set_nth t th' (thrs s)) (ents s) ((t, k0, false) :: plain s))).
  { intros k0 th' Hp Hf Hall.
    assert (Hd : isd (ents s k0) = true) by (destruct Hp as [Hp|Hp]; rewrite Hp in Hpc; exact Hpc).
    assert (Hc : forall k, C (is_st k) (set_nth t th' (thrs s)) = C (is_st k) (thrs s)).
    { intros k. specialize (Hst k th'). rewrite Hall in Hst. destruct Hp as [Hp|Hp]; rewrite Hp in Hst; simpl in Hst; lia. }
    constructor; cbn [thrs ents plain].
    - intros k (t' & w & [Heq|Hin]).
      + inversion Heq; subst. right; auto.
      + rewrite Hc. apply Hacc. eauto.
    - intros k H. rewrite Hc in H. destruct (Hwr k H) as (t' & Ht'). exists t'. right; auto.
    - simpl. split; [apply Hwr; right; auto|auto]. }
  destruct HS as [k0 Hp E|k0 Hp E|k0 Hp|k0 Hp E|k0 Hp E|k0 Hp E|k0 Hp E|k0 Hp E|k0 Hp|k0 j0 Hp E Ec|k0 v Hp|k0 Hp|k0 Hp|k0 Hp E0
                 |k0 Hp E|k0 Hp E|k0 Hp E|k0 Hp E|k0 Hp|k0 j0 d0 Hp E|k0 k1 j1 st1 Hp E|k0 j0 Hp E Ec];
    try (apply Hgen;
            [ intros k; specialize (Hst k); match goal with |- context [set_nth t ?th' _] => specialize (Hst th') end;
              pose proof (start_cur_neutral (rest th) k) as (_ & _ & _ & _ & Hs5);
              rewrite Hp in Hst; csimp; rewrite ?Hs5 in Hst; csimp; lia
            | intros k; try unfold upd; try (destruct (Nat.eqb_spec k0 k) as [->|?]); isdsimp; auto
            | reflexivity ]; fail).
  - (* the plain write *)
    pose proof (a_lock _ HA k0) as Hl. pose proof (C_sum_le k0 (thrs s)) as Hsum.
    pose proof (C_ge1 (is_wr k0) _ _ _ Hnth) as Hge. rewrite Hp in Hge. simpl in Hge. rewrite Nat.eqb_refl in Hge.
    specialize (Hge eq_refl).
    assert (Hnone : ~ (0 < C (is_st k0) (thrs s) \/ isd (ents s k0) = true)).
    { intros [H|H].
      - destruct (locked (ents s k0)); simpl in Hl; lia.
      - pose proof (a_nof _ HA k0 H). lia. }
    constructor; cbn [thrs ents plain].
    + intros k (t' & w & [Heq|Hin]).
      * inversion Heq; subst. left. specialize (Hst k (goto th (DStore k))). rewrite Hp in Hst. simpl in Hst.
        rewrite Nat.eqb_refl in Hst. simpl in Hst. lia.
      * specialize (Hst k (goto th (DStore k0))). rewrite Hp in Hst. simpl in Hst.
        destruct (Hacc k) as [H|H]; eauto.
        -- left. lia.
        -- right. unfold upd. destruct (Nat.eqb_spec k0 k) as [->|?]; isdsimp; auto.
    + intros k H. destruct (Nat.eq_dec k0 k) as [->|Hne]; [exists t; left; auto|].
      specialize (Hst k (goto th (DStore k0))). rewrite Hp in Hst. simpl in Hst.
      apply Nat.eqb_neq in Hne. rewrite Hne in Hst. simpl in Hst.
      destruct (Hwr k) as (t' & Ht').
      { destruct H as [H|H]; [left; lia|right]. unfold upd in H. rewrite Hne in H. auto. }
      exists t'. right; auto.
    + simpl. split; auto. intros t' w' Hin. apply Hnone. apply Hacc. eauto.
  - (* store: st-1, done becomes true *)
    constructor; cbn [thrs ents plain]; auto.
    + intros k H. specialize (Hst k (goto th (DUnlock k0))). rewrite Hp in Hst. simpl in Hst.
      unfold upd. destruct (Nat.eqb_spec k0 k) as [->|Hne]; isdsimp; auto.
      destruct (Hacc k H); auto. left. simpl in Hst. lia.
    + intros k H. apply Hwr. specialize (Hst k (goto th (DUnlock k0))). rewrite Hp in Hst. simpl in Hst.
      unfold upd in H. destruct (Nat.eqb_spec k0 k) as [->|Hne]; isdsimp.
      * left. simpl in Hst. lia.
      * simpl in Hst. destruct H; [left; lia|right; auto].
  - apply Hread with (k0 := k0); auto; intros; apply (start_cur_neutral (rest th)).
  - apply Hread with (k0 := k0); auto; intros; apply (start_cur_neutral (rest th)).
  - apply Hread with (k0 := k0); auto.
Qed.

(* ---- group D: each thread executes its program, call by call *)
Definition cur (p : cpc) : list call :=
  match p with
  | Idle => []
  | DLoad k | DLoadOrStore k | DLoad1 k | DLock k | DLoad2 k | DCall k | DInF k _ | DWrite k _ | DStore k
  | DUnlock k | DRead k => [CDo k]
  | GLoad k | GLoad1 k | GRead k => [CGet k]
  end.
(* the top-level call in progress: that of the bottom frame when f has nested calls running *)
Fixpoint bottom (st : list (nat * nat)) : option nat :=
  match st with
  | [] => None
  | (k, _) :: r => match bottom r with Some k' => Some k' | None => Some k end
  end.
Definition curtop (th : thr) : list call :=
  match bottom (stack th) with Some k => [CDo k] | None => cur (tpc th) end.
Definition calls_of (th : thr) : list call := rev (map fst (rets th)) ++ curtop th ++ rest th.

Lemma start_cur l : cur (fst (start l)) ++ snd (start l) = l.
Proof. destruct l as [|[] r]; reflexivity. Qed.

Lemma bottom_nil st : bottom st = None -> st = [].
Proof. destruct st as [|[k j] r]; auto. simpl. destruct (bottom r); discriminate. Qed.

Lemma step_calls s t th s' : (forall k, crash k = false) -> thr_chain th -> nth_error (thrs s) t = Some th -> stepC s t th s' ->
  map calls_of (thrs s') = map calls_of (thrs s).
Proof.
  intros Hnc Hch Hnth HS.
  assert (Hsame : forall th', calls_of th' = calls_of th -> map calls_of (set_nth t th' (thrs s)) = map calls_of (thrs s)).
  { intros th' He. rewrite map_set_nth, He. apply set_nth_same. rewrite nth_error_map, Hnth. reflexivity. }
  assert (Hgoto : forall p, cur p = cur (tpc th) -> calls_of (goto th p) = calls_of th).
  { intros p Hc. unfold calls_of, curtop; cbn [goto tpc stack rest rets]. rewrite Hc. reflexivity. }
  assert (Hret : forall c v, stack th = [] -> cur (tpc th) = [c] -> calls_of (ret th c v) = calls_of th).
  { intros c v Hs Hc. unfold calls_of, curtop; cbn [ret tpc stack rest rets map rev fst]. rewrite Hs, Hc. simpl.
    rewrite <- !app_assoc. cbn [app]. rewrite start_cur. reflexivity. }
  assert (Hget : in_get (tpc th) = true -> stack th = []).
  { intros Hg. unfold thr_chain in Hch. destruct (tpc th); simpl in *; auto; discriminate. }
  destruct HS; cbn [thrs]; apply Hsame;
    try (apply Hgoto; rewrite H; reflexivity);
    try (apply Hret; [auto; apply Hget; rewrite H; reflexivity|rewrite H; reflexivity]).
  - (* push *)
    unfold calls_of, curtop; cbn [push tpc stack rest rets bottom]. rewrite H. cbn [cur].
    destruct (bottom (stack th)); reflexivity.
  - (* pop *)
    unfold calls_of, curtop; cbn [tpc stack rest rets]. rewrite H0. cbn [bottom cur].
    destruct (bottom st); reflexivity.
  - (* no f fails here *) rewrite Hnc in H1; discriminate.
Qed.

Lemma init_calls : map calls_of (thrs init) = progs.
Proof.
  unfold cinit; cbn [thrs]. rewrite map_map. rewrite <- (map_id progs) at 2. apply map_ext.
  intros p. unfold calls_of; simpl. apply start_cur.
Qed.

(* ---- group Q: entries that are in use have been stored in the map *)
Definition past_store (k : nat) (p : cpc) : bool :=
  match p with
  | DLoad1 k' | DLock k' | DLoad2 k' | DCall k' | DInF k' _ | DWrite k' _ | DStore k' | DUnlock k' | DRead k'
  | GLoad1 k' | GRead k' => Nat.eqb k' k
  | _ => false
  end.
Definition thr_present (e : nat -> entry) (th : thr) : Prop :=
  (forall k, past_store k (tpc th) = true -> present (e k) = true) /\
  Forall (fun f : nat * nat => present (e (fst f)) = true) (stack th).
Record InvQ (s : cstate) : Prop := {
  q_thr : Forall (thr_present (ents s)) (thrs s);
  q_done : forall k, isd (ents s k) = true -> present (ents s k) = true
}.

Lemma init_InvQ : InvQ init.
Proof.
  constructor.
  - unfold cinit; cbn [thrs ents]. apply Forall_forall. intros th Hth. apply in_map_iff in Hth as (p & <- & _).
    split; simpl; auto. intros k. destruct p as [|[] r]; simpl; discriminate.
  - intros k H; discriminate.
Qed.

Lemma past_store_start l k : past_store k (fst (start l)) = false.
Proof. destruct l as [|[] r]; reflexivity. Qed.

Lemma step_InvQ s t th s' : InvQ s -> nth_error (thrs s) t = Some th -> stepC s t th s' -> InvQ s'.
Proof.
  intros [Hthr Hdone] Hnth HS.
  assert (Hmono : forall k, present (ents s k) = true -> present (ents s' k) = true).
  { destruct HS; cbn [ents]; auto; intros k' Hk'; unfold upd; destruct (Nat.eqb_spec k k') as [->|]; simpl; auto. }
  pose proof (Forall_nth_error _ _ _ _ Hthr Hnth) as [Hpc Hfr].
  assert (Hold : forall th', thr_present (ents s') th' -> Forall (thr_present (ents s')) (set_nth t th' (thrs s))).
  { intros th' H'. apply Forall_set_nth; auto. eapply Forall_impl; [|exact Hthr].
    intros x [H1 H2]; split; [intros k Hk; auto|]. eapply Forall_impl; [|exact H2]. simpl; auto. }
  assert (Hfr' : Forall (fun f : nat * nat => present (ents s' (fst f)) = true) (stack th)).
  { eapply Forall_impl; [|exact Hfr]. simpl; auto. }
  assert (Hd : (forall k, isd (ents s' k) = isd (ents s k)) -> forall k, isd (ents s' k) = true -> present (ents s' k) = true).
  { intros Hi k Hk. rewrite Hi in Hk. auto. }
  destruct HS as [k0 Hp E|k0 Hp E|k0 Hp|k0 Hp E|k0 Hp E|k0 Hp E|k0 Hp E|k0 Hp E|k0 Hp|k0 j0 Hp E Ec|k0 v Hp|k0 Hp|k0 Hp|k0 Hp E0
                 |k0 Hp E|k0 Hp E|k0 Hp E|k0 Hp E|k0 Hp|k0 j0 d0 Hp E|k0 k1 j1 st1 Hp E|k0 j0 Hp E Ec];
    cbn [ents thrs plain] in *; rewrite Hp in Hpc; constructor; cbn [ents thrs];
    try (apply Hd; intros k; try unfold upd; try (destruct (Nat.eqb_spec k0 k) as [->|]); reflexivity);
    try (apply Hold; split; cbn [goto ret push tpc stack]; auto;
         intros k Hk; simpl in Hk; rewrite ?past_store_start in Hk; try discriminate;
         apply Nat.eqb_eq in Hk; subst k; try (unfold upd; rewrite Nat.eqb_refl; simpl); auto;
         try (apply Hmono); try (apply Hpc; simpl; apply Nat.eqb_refl); fail).
  - (* store *)
    intros k Hk. unfold upd in *. destruct (Nat.eqb_spec k0 k) as [->|]; simpl; auto.
    apply Hpc. simpl. apply Nat.eqb_refl.
  - (* push *)
    apply Hold; split; cbn [push tpc stack].
    + intros k Hk; simpl in Hk; discriminate.
    + constructor; auto. simpl. apply Hpc. simpl. apply Nat.eqb_refl.
  - (* pop *)
    rewrite E in Hfr'. inversion Hfr' as [|f fs Hf Hfs]; subst.
    apply Hold; split; cbn [tpc stack]; auto.
    intros k Hk; simpl in Hk. apply Nat.eqb_eq in Hk; subst k. exact Hf.
  - (* f fails: the thread is gone *)
    apply Hold; split; cbn [dead tpc stack]; auto. intros k Hk; simpl in Hk; discriminate.
Qed.

(* ---- all invariants on reachable states *)
Lemma creachable_InvQ s : creachable s -> InvQ s.
Proof.
  induction 1 as [|s t s' Hr IH Hs]; [apply init_InvQ|].
  apply cstep_inv in Hs as (th & Hnth & HS). eapply step_InvQ; eauto.
Qed.

Lemma creachable_inv s : creachable s ->
  InvA s /\ InvB s /\ InvP s /\ ((forall k, crash k = false) -> map calls_of (thrs s) = progs).
Proof.
  induction 1 as [|s t s' Hr (HA & HB & HP & HD) Hs].
  - split; [|split; [|split]]; [apply init_InvA|apply init_InvB|apply init_InvP|intros _; apply init_calls].
  - apply cstep_inv in Hs as (th & Hnth & HS).
    split; [|split; [|split]]; [eapply step_InvA|eapply step_InvB|eapply step_InvP|]; eauto.
    intros Hnc.
    rewrite (step_calls _ _ _ _ Hnc (t_chain _ _ (Forall_nth_error _ _ _ _ (b_thr _ HB) Hnth)) Hnth HS); auto.
Qed.

(* when no f fails, no entry is orphaned *)
Lemma creachable_orph0 s : (forall k, crash k = false) -> creachable s -> forall k, orph (ents s k) = 0.
Proof.
  intros Hnc. induction 1 as [|s t s' Hr IH Hs]; [reflexivity|].
  apply cstep_inv in Hs as (th & Hnth & HS). intros k'. specialize (IH k').
  destruct HS; cbn [ents]; auto; try (unfold upd; destruct (Nat.eqb_spec k k') as [->|]; cbn; auto; fail).
  match goal with H : crash _ = true |- _ => rewrite Hnc in H; discriminate end.
Qed.

(* ---- group E: a finished thread has no calls left *)
Definition idle_ok (th : thr) : Prop := tpc th = Idle -> rest th = [].

Lemma start_idle l : fst (start l) = Idle -> snd (start l) = [].
Proof. destruct l as [|[] r]; simpl; auto; discriminate. Qed.

Lemma creachable_idle s : creachable s -> Forall idle_ok (thrs s).
Proof.
  induction 1 as [|s t s' Hr IH Hs].
  - unfold cinit; cbn [thrs]. apply Forall_forall. intros th Hth. apply in_map_iff in Hth as (p & <- & _).
    unfold idle_ok; simpl. apply start_idle.
  - apply cstep_inv in Hs as (th & Hnth & HS).
    destruct HS; cbn [thrs]; apply Forall_set_nth; auto; unfold idle_ok; cbn [goto ret dead tpc rest];
      try discriminate; try (intros _; reflexivity); apply start_idle.
Qed.

(* ---- property theorems *)

(* f_k is called at most once, and returns at most as often as it was called *)
Theorem f_once_per_key s k : creachable s ->
  fbegins (ents s k) <= 1 /\ fends (ents s k) <= fbegins (ents s k).
Proof.
  intros Hr. destruct (creachable_inv s Hr) as (HA & _).
  pose proof (a_lock _ HA k) as Hl. pose proof (a_nof _ HA k) as Hn.
  pose proof (a_fb _ HA k) as Hfb. pose proof (a_fe _ HA k) as Hfe.
  pose proof (C_sum_le k (thrs s)) as Hsum.
  destruct (isd (ents s k)); [specialize (Hn eq_refl)|]; destruct (locked (ents s k)); simpl in *; lia.
Qed.

Lemma done_f_complete s k : InvA s -> isd (ents s k) = true -> fbegins (ents s k) = 1 /\ fends (ents s k) = 1.
Proof.
  intros HA Hd. pose proof (a_nof _ HA k Hd) as Hn.
  pose proof (a_fb _ HA k) as Hfb. pose proof (a_fe _ HA k) as Hfe. rewrite Hd in *. simpl in *. lia.
Qed.

(* every finished Do(k) returned the value of the one call of f_k, and that call had completed *)
Theorem do_returns_f_value s t th k v : creachable s -> nth_error (thrs s) t = Some th ->
  In (CDo k, v) (rets th) ->
  v = fval k /\ fbegins (ents s k) = 1 /\ fends (ents s k) = 1 /\ result (ents s k) = fval k.
Proof.
  intros Hr Hn Hin. destruct (creachable_inv s Hr) as (HA & HB & _).
  pose proof (Forall_nth_error _ _ _ _ (b_thr _ HB) Hn) as [_ Hrets].
  rewrite Forall_forall in Hrets. destruct (Hrets _ Hin) as [Hv Hd].
  destruct (done_f_complete s k HA Hd). repeat split; auto. apply (b_res _ HB). auto.
Qed.

(* the same for the Do calls made from inside f (nested on other keys) *)
Theorem nested_do_returns_f_value s t th k v : creachable s -> nth_error (thrs s) t = Some th ->
  In (k, v) (nrets th) ->
  v = fval k /\ fbegins (ents s k) = 1 /\ fends (ents s k) = 1 /\ result (ents s k) = fval k.
Proof.
  intros Hr Hn Hin. destruct (creachable_inv s Hr) as (HA & HB & _).
  pose proof (t_nrets _ _ (Forall_nth_error _ _ _ _ (b_thr _ HB) Hn)) as Hrets.
  rewrite Forall_forall in Hrets. destruct (Hrets _ Hin) as [Hv Hd]. simpl in *.
  destruct (done_f_complete s k HA Hd). repeat split; auto. apply (b_res _ HB). auto.
Qed.

(* a published result was computed after all the nested computations it depends on were published *)
Theorem done_implies_deps_done s k d : creachable s -> isd (ents s k) = true -> In d (deps k) ->
  isd (ents s d) = true /\ fends (ents s d) = 1 /\ result (ents s d) = fval d.
Proof.
  intros Hr Hk Hd. destruct (creachable_inv s Hr) as (HA & HB & _).
  pose proof (b_deps _ HB k Hk d Hd) as Hdd. destruct (done_f_complete s d HA Hdd).
  repeat split; auto. apply (b_res _ HB). auto.
Qed.

(* a Do(k) that is about to return (only the plain read of e.result is left) returns after f_k completed *)
Theorem do_after_f s t th k : creachable s -> nth_error (thrs s) t = Some th -> tpc th = DRead k ->
  fends (ents s k) = 1 /\ result (ents s k) = fval k /\ C (is_inf k) (thrs s) = 0.
Proof.
  intros Hr Hn Hp. destruct (creachable_inv s Hr) as (HA & HB & _).
  pose proof (Forall_nth_error _ _ _ _ (b_thr _ HB) Hn) as [Hpc _]. rewrite Hp in Hpc. simpl in Hpc.
  destruct (done_f_complete s k HA Hpc). pose proof (a_nof _ HA k Hpc).
  repeat split; auto; [apply (b_res _ HB); auto|lia].
Qed.

(* every finished Get(k) returned nil or the value of the completed call of f_k *)
Theorem get_nil_or_value s t th k v : creachable s -> nth_error (thrs s) t = Some th ->
  In (CGet k, v) (rets th) ->
  v = None \/ (v = fval k /\ fends (ents s k) = 1).
Proof.
  intros Hr Hn Hin. destruct (creachable_inv s Hr) as (HA & HB & _).
  pose proof (Forall_nth_error _ _ _ _ (b_thr _ HB) Hn) as [_ Hrets].
  rewrite Forall_forall in Hrets. destruct (Hrets _ Hin) as [Hv|[Hv Hd]]; auto.
  right. split; auto. apply (done_f_complete s k HA Hd).
Qed.

(* Get has no blocking step: in ANY state a thread inside Get can take its next step *)
Theorem get_nonblocking s t th : nth_error (thrs s) t = Some th -> in_get (tpc th) = true ->
  exists s', cstep s t = Some s'.
Proof.
  intros Hn Hg. unfold ParCache.cstep. rewrite Hn. destruct (tpc th); try discriminate.
  - destruct (present (ents s k)); eauto.
  - destruct (isd (ents s k)); eauto.
  - eauto.
Qed.

(* once computed, always computed *)
Theorem done_stable s t s' k : creachable s -> cstep s t = Some s' -> isd (ents s k) = true -> isd (ents s' k) = true.
Proof.
  intros Hr Hs Hk. destruct (creachable_inv s Hr) as (HA & _).
  apply cstep_inv in Hs as (th & Hnth & HS). exact (step_mono _ _ _ _ HA Hnth HS k Hk).
Qed.

(* nil from Get means "not computed yet": once e.done is set for k (in particular after any Do(k) has
   returned), every step of a Get(k) goes straight on -- Load hits, the done test succeeds, the plain
   read returns f's value -- whatever the other threads do in between (done_stable) *)
Theorem get_after_done s t th k : creachable s -> isd (ents s k) = true -> nth_error (thrs s) t = Some th ->
  (tpc th = GLoad k -> cstep s t = Some (mkC (set_nth t (goto th (GLoad1 k)) (thrs s)) (ents s) (plain s))) /\
  (tpc th = GLoad1 k -> cstep s t = Some (mkC (set_nth t (goto th (GRead k)) (thrs s)) (ents s) (plain s))) /\
  (tpc th = GRead k ->
     cstep s t = Some (mkC (set_nth t (ret th (CGet k) (fval k)) (thrs s)) (ents s) ((t, k, false) :: plain s))).
Proof.
  intros Hr Hk Hn. destruct (creachable_inv s Hr) as (HA & HB & _). pose proof (creachable_InvQ s Hr) as HQ.
  unfold ParCache.cstep. rewrite Hn. repeat split; intros Hp; rewrite Hp.
  - rewrite (q_done _ HQ k Hk). reflexivity.
  - rewrite Hk. reflexivity.
  - rewrite (b_res _ HB k (or_intror Hk)). reflexivity.
Qed.

(* no data race on e.result: a pending plain write is never concurrent with another thread's
   pending plain access to the same entry; and the history of plain accesses is well-formed
   (per key: one write, before all reads) *)
Theorem race_free s : creachable s ->
  (forall a b tha thb k, a <> b -> nth_error (thrs s) a = Some tha -> nth_error (thrs s) b = Some thb ->
     plain_write k (tpc tha) = true -> plain_write k (tpc thb) = false /\ plain_read k (tpc thb) = false) /\
  wf_plain (plain s).
Proof.
  intros Hr. destruct (creachable_inv s Hr) as (HA & HB & HP & _). split; [|apply HP].
  intros a b tha thb k Hab Ha Hb Hw.
  pose proof (a_lock _ HA k) as Hl. pose proof (C_sum_le k (thrs s)) as Hsum.
  assert (Hwa : is_wr k (tpc tha) = true) by (destruct (tpc tha); simpl in *; auto).
  pose proof (C_ge1 (is_wr k) _ _ _ Ha Hwa) as Hge.
  assert (Hnd : isd (ents s k) = false).
  { destruct (isd (ents s k)) eqn:E; auto. pose proof (a_nof _ HA k E). lia. }
  split.
  - destruct (plain_write k (tpc thb)) eqn:Ewb; auto.
    assert (Hwb : is_wr k (tpc thb) = true) by (destruct (tpc thb); simpl in *; auto).
    pose proof (C_ge2 (is_wr k) _ _ _ _ _ Hab Ha Hb Hwa Hwb).
    destruct (locked (ents s k)); simpl in Hl; lia.
  - destruct (plain_read k (tpc thb)) eqn:Erb; auto.
    pose proof (Forall_nth_error _ _ _ _ (b_thr _ HB) Hb) as [Hpc _].
    destruct (tpc thb); simpl in *; try discriminate; apply Nat.eqb_eq in Erb; subst; congruence.
Qed.

(* when every thread has finished its program: f_k ran exactly once for every key some Do asked for *)
Theorem f_exactly_once_at_end s : (forall k, crash k = false) -> creachable s -> all_idle s = true ->
  forall p k, In p progs -> In (CDo k) p ->
  fbegins (ents s k) = 1 /\ fends (ents s k) = 1 /\ result (ents s k) = fval k.
Proof.
  intros Hnc Hr Hidle p k Hp Hk.
  destruct (creachable_inv s Hr) as (HA & HB & _ & HD). specialize (HD Hnc).
  pose proof (creachable_idle s Hr) as HE.
  rewrite <- HD in Hp. apply in_map_iff in Hp as (th & <- & Hth).
  unfold all_idle in Hidle. rewrite forallb_forall in Hidle. specialize (Hidle _ Hth).
  unfold is_idle in Hidle. destruct (tpc th) eqn:Ep; try discriminate.
  rewrite Forall_forall in HE. pose proof (HE _ Hth Ep) as Hrest.
  assert (Hst : stack th = []).
  { pose proof (t_chain _ _ (proj1 (Forall_forall _ _) (b_thr _ HB) _ Hth)) as Hc.
    unfold thr_chain in Hc. rewrite Ep in Hc. exact Hc. }
  unfold calls_of, curtop in Hk. rewrite Hst, Ep, Hrest in Hk. simpl in Hk. rewrite app_nil_r in Hk.
  apply in_rev in Hk. apply in_map_iff in Hk as ([c v] & Hc & Hin). simpl in Hc; subst c.
  apply In_nth_error in Hth as [t Ht].
  destruct (do_returns_f_value s t th k v Hr Ht Hin) as (_ & ? & ? & ?). auto.
Qed.

Lemma crun_cons t sch s : crun (t :: sch) s = match cstep s t with Some s' => crun sch s' | None => None end.
Proof. reflexivity. Qed.

Lemma crun_reachable sch : forall s s', creachable s -> crun sch s = Some s' -> creachable s'.
Proof.
  induction sch as [|t sch IH]; intros s s' Hr H; [|rewrite crun_cons in H].
  - inversion H; subst; auto.
  - destruct (cstep s t) as [s1|] eqn:E; [|discriminate]. eapply IH; [|exact H]. eapply creach_step; eauto.
Qed.

(* ---- the key space: entries are per key, and they are never removed *)

(* the key an operation in progress works on *)
Definition pckey (p : cpc) : option nat :=
  match p with
  | GLoad k | GLoad1 k | GRead k => Some k
  | _ => dokey p
  end.

Lemma add_orph_0 e : add_orph 0 e = e.
Proof. destruct e; reflexivity. Qed.

(* a step of a thread touches only the entry of the key its current operation is about (and, when f fails, the
   entries whose mutex the dying thread holds: those of its suspended frames): the entry of EVERY OTHER key --
   there is no bound on their number -- is left exactly as it was *)
Theorem distinct_keys_independent s t th s' k : nth_error (thrs s) t = Some th -> cstep s t = Some s' ->
  pckey (tpc th) <> Some k -> (forall j, ~ In (k, j) (stack th)) -> ents s' k = ents s k.
Proof.
  intros Hn Hs Hk Hst. apply cstep_inv in Hs as (th' & Hn' & HS). rewrite Hn in Hn'. inversion Hn'; subst th'; clear Hn'.
  destruct HS as [k0 Hp E|k0 Hp E|k0 Hp|k0 Hp E|k0 Hp E|k0 Hp E|k0 Hp E|k0 Hp E|k0 Hp|k0 j0 Hp E Ec|k0 v Hp|k0 Hp|k0 Hp|k0 Hp E0
                 |k0 Hp E|k0 Hp E|k0 Hp E|k0 Hp E|k0 Hp|k0 j0 d0 Hp E|k0 k1 j1 st1 Hp E|k0 j0 Hp E Ec];
    cbn [ents]; try reflexivity; rewrite Hp in Hk; simpl in Hk;
    try (unfold upd; destruct (Nat.eqb_spec k0 k) as [->|]; [exfalso; apply Hk; reflexivity|reflexivity]).
  unfold orphans. destruct (Nat.eqb_spec k0 k) as [->|Hne]; [exfalso; apply Hk; reflexivity|].
  assert (Hz : length (filter (fun f : nat * nat => Nat.eqb (fst f) k) (stack th)) = 0).
  { destruct (filter (fun f : nat * nat => Nat.eqb (fst f) k) (stack th)) as [|[a b] r] eqn:Ef; [reflexivity|].
    assert (Hin : In (a, b) (filter (fun f : nat * nat => Nat.eqb (fst f) k) (stack th))) by (rewrite Ef; left; reflexivity).
    apply filter_In in Hin as [Hin Heq]. simpl in Heq. apply Nat.eqb_eq in Heq; subst a. destruct (Hst b Hin). }
  rewrite Hz. apply add_orph_0.
Qed.

(* once a key has an entry it keeps it, and once its result is published both the flag and the result stay as
   they are, whatever happens to any number of other keys afterwards: nothing is ever evicted or recomputed *)
Theorem entries_never_removed s t s' k : creachable s -> cstep s t = Some s' ->
  (present (ents s k) = true -> present (ents s' k) = true) /\
  (isd (ents s k) = true -> isd (ents s' k) = true /\ result (ents s' k) = result (ents s k) /\
                           fbegins (ents s' k) = 1 /\ fends (ents s' k) = 1).
Proof.
  intros Hr Hs.
  assert (Hr' : creachable s') by (eapply creach_step; eauto).
  destruct (creachable_inv s Hr) as (HA & HB & _). destruct (creachable_inv s' Hr') as (HA' & HB' & _).
  split.
  - apply cstep_inv in Hs as (th & Hnth & HS).
    destruct HS; cbn [ents]; auto; intros Hk'; try (unfold upd; destruct (Nat.eqb_spec k0 k) as [->|]; simpl; auto);
      try exact Hk'.
  - intros Hd.
    assert (Hd' : isd (ents s' k) = true).
    { apply cstep_inv in Hs as (th & Hnth & HS). exact (step_mono _ _ _ _ HA Hnth HS k Hd). }
    destruct (done_f_complete s' k HA' Hd'). repeat split; auto.
    rewrite (b_res _ HB' k (or_intror Hd')), (b_res _ HB k (or_intror Hd)). reflexivity.
Qed.

(* ---- an invocation of f that does not return (panic / runtime.Goexit) *)

(* the entry of a key whose f failed: f_k began once and never ended, the mutex is held by nobody who is still
   running, the result is not published, and no thread is inside or about to call f_k *)
Theorem crashed_entry s k : creachable s -> 0 < orph (ents s k) ->
  orph (ents s k) = 1 /\ fbegins (ents s k) = 1 /\ fends (ents s k) = 0 /\ locked (ents s k) = true /\
  isd (ents s k) = false /\ C (holds k) (thrs s) = 0 /\ F k (thrs s) = 0 /\ C (is_call k) (thrs s) = 0.
Proof.
  intros Hr Ho. destruct (creachable_inv s Hr) as (HA & _).
  pose proof (a_lock _ HA k) as Hl. pose proof (a_nof _ HA k) as Hn.
  pose proof (a_fb _ HA k) as Hfb. pose proof (a_fe _ HA k) as Hfe.
  pose proof (C_sum_le k (thrs s)) as Hsum.
  destruct (isd (ents s k)); [specialize (Hn eq_refl); lia|].
  destruct (locked (ents s k)); simpl in *; repeat split; lia.
Qed.

Lemma orph_monotone s t s' k : cstep s t = Some s' -> orph (ents s k) <= orph (ents s' k).
Proof.
  intros Hs. apply cstep_inv in Hs as (th & Hnth & HS).
  destruct HS; cbn [ents]; auto; try (unfold upd; destruct (Nat.eqb_spec k0 k) as [->|]; simpl; auto; fail).
  cbn [orph add_orph]. lia.
Qed.

Lemma crun_orph sch : forall s s' k, crun sch s = Some s' -> orph (ents s k) <= orph (ents s' k).
Proof.
  induction sch as [|t sch IH]; intros s s' k H; [inversion H; subst; auto|]. rewrite crun_cons in H.
  destruct (cstep s t) as [s1|] eqn:E; [|discriminate].
  pose proof (orph_monotone _ _ _ k E). specialize (IH _ _ k H). lia.
Qed.

(* f is invoked AT MOST ONCE per key also when that invocation does not return: from a state in which f_k has
   failed, whatever any threads do for however long, f_k is never invoked again (fbegins stays 1), never completes
   and the key is never published *)
Theorem f_crash_never_reinvoked s k : creachable s -> 0 < orph (ents s k) ->
  forall sch s', crun sch s = Some s' ->
  fbegins (ents s' k) = 1 /\ fends (ents s' k) = 0 /\ isd (ents s' k) = false /\ locked (ents s' k) = true /\
  C (is_call k) (thrs s') = 0.
Proof.
  intros Hr Ho sch s' Hrun.
  pose proof (crun_reachable _ _ _ Hr Hrun) as Hr'. pose proof (crun_orph _ _ _ k Hrun) as Hle.
  destruct (crashed_entry s' k Hr') as (_ & H1 & H2 & H3 & H4 & _ & _ & H5); [lia|]. auto.
Qed.

(* what the callers see: a Do for that key that reaches the entry mutex blocks (for ever, by the theorem above),
   a Get goes through and returns nil *)
Theorem crashed_do_blocks_get_nil s t th k : creachable s -> 0 < orph (ents s k) -> nth_error (thrs s) t = Some th ->
  (tpc th = DLock k -> cstep s t = None) /\
  (tpc th = GLoad1 k -> cstep s t = Some (mkC (set_nth t (ret th (CGet k) None) (thrs s)) (ents s) (plain s))).
Proof.
  intros Hr Ho Hn. destruct (crashed_entry s k Hr Ho) as (_ & _ & _ & Hl & Hd & _).
  unfold ParCache.cstep. rewrite Hn. split; intros Hp; rewrite Hp; [rewrite Hl|rewrite Hd]; reflexivity.
Qed.

(* ---- progress and termination *)
Lemma step_some s t th : nth_error (thrs s) t = Some th -> tpc th <> Idle ->
  (forall k, tpc th = DLock k -> locked (ents s k) = false) -> exists s', cstep s t = Some s'.
Proof.
  intros Hn Hi Hl. unfold ParCache.cstep. rewrite Hn.
  destruct (tpc th) eqn:Ep; try congruence; eauto;
    try (rewrite (Hl k eq_refl); eauto; fail);
    try (destruct (nth_error (deps k) j); [|destruct (crash k)]; eauto; fail);
    try (destruct (present (ents s k)); eauto; fail);
    try (destruct (isd (ents s k)); eauto; fail).
Qed.

Lemma forallb_false {A} (f : A -> bool) l : forallb f l = false -> exists x, In x l /\ f x = false.
Proof.
  induction l as [|a l IH]; simpl; [discriminate|].
  destruct (f a) eqn:E; simpl; intros H.
  - destruct (IH H) as (x & Hx & Hf). exists x; auto.
  - exists a; auto.
Qed.

(* ---- progress and termination need the dependency relation between keys to be acyclic:
   a level function that strictly decreases along [deps] *)
Section Acyclic.
Variable L : nat -> nat.
Hypothesis L_dec : forall k d, In d (deps k) -> L d < L k.

Lemma chain_levels cur st : chain_ok cur st -> Forall (fun f : nat * nat => L cur < L (fst f)) st.
Proof.
  revert cur; induction st as [|[k j] r IH]; intros cur H; [constructor|].
  destruct H as [(j0 & -> & Hn) Hr]. apply nth_error_In in Hn. pose proof (L_dec _ _ Hn) as Hlt.
  constructor; [exact Hlt|]. eapply Forall_impl; [|apply (IH k Hr)]. simpl; intros; lia.
Qed.

Lemma fr_frame k th : 0 < fr k th -> exists j, In (k, j) (stack th).
Proof.
  intros H. unfold fr in H. apply cntg_exists in H as (i & [k' j] & Hi & Hk). simpl in Hk.
  apply Nat.eqb_eq in Hk; subst. exists j. eapply nth_error_In; eauto.
Qed.

(* a thread waiting for e.mu of k: the holder is running, or itself waits for a key of lower level *)
Lemma blocked_progress s : InvA s -> InvB s -> (forall k, orph (ents s k) = 0) -> forall m t th k, nth_error (thrs s) t = Some th ->
  tpc th = DLock k -> L k <= m -> exists t' s', cstep s t' = Some s'.
Proof.
  intros HA HB Ho. induction m as [|m IH]; intros t th k Ht Hp Hl.
  all: destruct (locked (ents s k)) eqn:El;
    [|exists t; apply (step_some s t th Ht); rewrite Hp; [congruence|]; intros k' Hk'; inversion Hk'; subst; auto].
  all: pose proof (a_lock _ HA k) as Hlk; rewrite El, Ho in Hlk; simpl in Hlk.
  all: destruct (C (holds k) (thrs s)) eqn:Eh;
    [|destruct (cntg_exists (fun th => holds k (tpc th)) (thrs s)) as (t2 & th2 & Ht2 & Hh); [unfold C in Eh; lia|];
      exists t2; apply (step_some s t2 th2 Ht2); destruct (tpc th2); simpl in Hh; congruence].
  all: destruct (F_exists k (thrs s)) as (t2 & th2 & Ht2 & Hf); [lia|].
  all: apply fr_frame in Hf as (j & Hj).
  all: pose proof (t_chain _ _ (Forall_nth_error _ _ _ _ (b_thr _ HB) Ht2)) as Hc; unfold thr_chain in Hc.
  all: destruct (dokey (tpc th2)) as [c|] eqn:Ek; [|rewrite Hc in Hj; destruct Hj].
  all: pose proof (chain_levels _ _ Hc) as Hlv; rewrite Forall_forall in Hlv; specialize (Hlv _ Hj); simpl in Hlv.
  - lia.
  - destruct (tpc th2) eqn:Ep2; simpl in Ek; try discriminate; inversion Ek; subst;
      try (exists t2; apply (step_some s t2 th2 Ht2); rewrite Ep2; congruence).
    apply (IH t2 th2 c Ht2 Ep2). lia.
Qed.

(* no deadlock (when every f returns): unless every thread has finished its program, some thread has a step *)
Theorem cache_no_deadlock : (forall k, crash k = false) -> forall s, creachable s ->
  all_idle s = true \/ exists t s', cstep s t = Some s'.
Proof.
  intros Hnc s Hr. destruct (creachable_inv s Hr) as (HA & HB & _).
  pose proof (creachable_orph0 s Hnc Hr) as Ho.
  destruct (all_idle s) eqn:Ei; auto. right.
  apply forallb_false in Ei as (th & Hth & Hni). apply In_nth_error in Hth as [t Ht].
  assert (Hnot : tpc th <> Idle) by (unfold is_idle in Hni; destruct (tpc th); congruence).
  destruct (tpc th) eqn:Ep; try (exists t; apply (step_some s t th Ht); rewrite Ep; congruence).
  eapply blocked_progress; eauto.
Qed.

(* the cost of one Do(k), nested calls included: defined by recursion on the level *)
Fixpoint cost (fuel : nat) (k : nat) : nat :=
  match fuel with
  | 0 => 13
  | S f => 13 + list_sum (map (fun d => S (cost f d)) (deps k))
  end.
Definition kcL (k : nat) : nat := cost (L k) k.

Lemma cost_stable f : forall f' k, L k <= f -> L k <= f' -> cost f k = cost f' k.
Proof.
  induction f as [|f IH]; intros f' k H1 H2.
  - assert (Hd : deps k = []) by (destruct (deps k) as [|d r] eqn:E; auto; pose proof (L_dec k d); rewrite E in *; simpl in *; lia).
    destruct f'; cbn [cost]; rewrite ?Hd; reflexivity.
  - destruct f' as [|f'].
    + assert (Hd : deps k = []) by (destruct (deps k) as [|d r] eqn:E; auto; pose proof (L_dec k d); rewrite E in *; simpl in *; lia).
      cbn [cost]; rewrite Hd; reflexivity.
    + cbn [cost]. f_equal. f_equal. apply map_ext_in. intros d Hd. f_equal. pose proof (L_dec _ _ Hd). apply IH; lia.
Qed.

Lemma kcL_ok k : 13 + nested deps kcL k 0 <= kcL k.
Proof.
  unfold nested, kcL. simpl skipn. destruct (L k) as [|f] eqn:E.
  - assert (Hd : deps k = []) by (destruct (deps k) as [|d r] eqn:E'; auto; pose proof (L_dec k d); rewrite E' in *; simpl in *; lia).
    rewrite Hd. cbn [cost map list_sum fold_right]. lia.
  - cbn [cost]. apply Nat.add_le_mono_l. apply Nat.eq_le_incl. f_equal. apply map_ext_in. intros d Hd. f_equal.
    pose proof (L_dec _ _ Hd). apply cost_stable; lia.
Qed.
End Acyclic.

(* ---- the measure decreases, for any cost function that dominates its own recursive equation *)
Section Measure.
Variable kc : nat -> nat.
Hypothesis kc_ok : forall k, 13 + nested deps kc k 0 <= kc k.

Notation psi := (psi deps kc).
Notation tweight := (tweight deps kc).
Notation rank := (rank deps kc).
Notation nested := (nested deps kc).

Lemma list_sum_cons' a l : list_sum (a :: l) = a + list_sum l.
Proof. reflexivity. Qed.

Lemma nested_step k j d : nth_error (deps k) j = Some d -> nested k j = S (kc d) + nested k (S j).
Proof.
  unfold ParCache.nested. intros H.
  assert (Hs : skipn j (deps k) = d :: skipn (S j) (deps k)).
  { revert j H. generalize (deps k). induction l as [|a l IH]; intros [|j] H; simpl in *; try discriminate.
    - inversion H; reflexivity.
    - apply IH; auto. }
  rewrite Hs. reflexivity.
Qed.

Lemma rank_start_lt l : forall c r, l = c :: r -> rank (fst (start l)) < call_cost kc c.
Proof.
  intros c r ->. destruct c as [k|k]; simpl; [pose proof (kc_ok k); lia|lia].
Qed.

Lemma tweight_ret th c v : 2 <= rank (tpc th) -> tweight (ret th c v) < tweight th.
Proof.
  unfold ParCache.tweight, ret; cbn [tpc stack rest]. intros H.
  destruct (rest th) as [|c0 r] eqn:E.
  - simpl. lia.
  - pose proof (rank_start_lt (c0 :: r) c0 r eq_refl) as Hlt.
    assert (Hsnd : snd (start (c0 :: r)) = r) by (destruct c0; reflexivity).
    rewrite Hsnd. cbn [map]. rewrite !list_sum_cons'.
    generalize dependent (rank (fst (start (c0 :: r)))). intros a Hlt. lia.
Qed.

(* every step consumes the measure: no schedule is infinite (f_k is assumed to return once its
   nested calls have returned: its return step is always enabled) *)
Theorem psi_decreases s t s' : cstep s t = Some s' -> psi s' < psi s.
Proof.
  intros Hs. apply cstep_inv in Hs as (th & Hn & HS). unfold ParCache.psi.
  assert (Hgen : forall th', tweight th' < tweight th ->
            list_sum (map tweight (set_nth t th' (thrs s))) < list_sum (map tweight (thrs s))).
  { intros th' Hlt. pose proof (sum_set_nth tweight t th' th _ Hn). lia. }
  destruct HS as [k0 Hp E|k0 Hp E|k0 Hp|k0 Hp E|k0 Hp E|k0 Hp E|k0 Hp E|k0 Hp E|k0 Hp|k0 j0 Hp E Ec|k0 v Hp|k0 Hp|k0 Hp|k0 Hp E0
                 |k0 Hp E|k0 Hp E|k0 Hp E|k0 Hp E|k0 Hp|k0 j0 d0 Hp E|k0 k1 j1 st1 Hp E|k0 j0 Hp E Ec];
    cbn [thrs]; apply Hgen;
    try (apply tweight_ret; rewrite Hp; simpl; lia);
    unfold ParCache.tweight; cbn [goto push dead tpc stack rest]; rewrite Hp; cbn [ParCache.rank].
  all: try lia.
  - (* nested call *)
    rewrite (nested_step _ _ _ E). cbn [map]. rewrite list_sum_cons'. change (frame_cost deps kc (k0, S j0)) with (6 + nested k0 (S j0)). pose proof (kc_ok d0). lia.
  - (* nested return *)
    rewrite E. cbn [map]. rewrite list_sum_cons'. change (frame_cost deps kc (k1, j1)) with (6 + nested k1 j1). lia.
  - (* f fails: nothing is left of the thread *)
    cbn [map list_sum fold_right]. lia.
Qed.

Theorem cache_terminates sch : forall s s', crun sch s = Some s' -> length sch + psi s' <= psi s.
Proof.
  induction sch as [|t sch IH]; intros s s' H; [|rewrite crun_cons in H].
  - inversion H; subst; simpl; lia.
  - destruct (cstep s t) as [s1|] eqn:E; [|discriminate].
    pose proof (psi_decreases _ _ _ E). specialize (IH _ _ H). simpl. lia.
Qed.
End Measure.

Corollary cache_terminates_acyclic L : (forall k d, In d (deps k) -> L d < L k) ->
  forall sch s s', crun sch s = Some s' -> length sch + psi deps (kcL L) s' <= psi deps (kcL L) s.
Proof. intros HL. apply cache_terminates. apply kcL_ok; auto. Qed.

(* every Do terminates when the dependencies are acyclic: from any reachable state some continuation
   of at most psi(s) steps ends with all programs finished *)
Theorem cache_can_finish L : (forall k d, In d (deps k) -> L d < L k) -> (forall k, crash k = false) ->
  forall s, creachable s ->
  exists sch s', crun sch s = Some s' /\ all_idle s' = true /\ length sch <= psi deps (kcL L) s.
Proof.
  intros HL Hnc s. remember (psi deps (kcL L) s) as m eqn:Em. revert s Em.
  induction m as [m IH] using lt_wf_ind. intros s Em Hr.
  destruct (cache_no_deadlock L HL Hnc s Hr) as [Hd|(t & s1 & Hs)].
  - exists [], s; simpl; repeat split; auto; lia.
  - pose proof (psi_decreases (kcL L) (kcL_ok L HL) _ _ _ Hs) as Hlt.
    destruct (IH (psi deps (kcL L) s1)) with (s := s1) as (sch & s' & Hrun & Hd & Hlen); auto; [lia|eapply creach_step; eauto|].
    exists (t :: sch), s'. rewrite crun_cons, Hs. repeat split; auto. simpl; lia.
Qed.

End Proofs.

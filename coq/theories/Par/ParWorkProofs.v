(* Proofs about the par.Work model (ParWork.v): safety invariants over all reachable states,
   deadlock-freedom, and termination by an explicit potential.  All statements are for every
   n >= work_do_min_n, every children function, every list of initial items and every schedule. *)
From Coq Require Import List Arith Bool Lia Permutation.
From GI Require Import Gen.ParConsts Par.ParWork Par.ParLib.
Import ListNotations.

(* ---- cnt is cntg at type pc *)
Definition cnt_set_nth : forall f k x a l, nth_error l k = Some a ->
  cnt f (set_nth k x l) + b2n (f a) = cnt f l + b2n (f x) := @cntg_set_nth pc.
Definition cnt_le_length : forall f l, cnt f l <= length l := @cntg_le_length pc.
Definition cnt_exists : forall f l, 0 < cnt f l -> exists t a, nth_error l t = Some a /\ f a = true := @cntg_exists pc.
Definition cnt_lt_exists : forall f l, cnt f l < length l -> exists t a, nth_error l t = Some a /\ f a = false := @cntg_lt_exists pc.
Definition cnt_zero : forall f l t a, cnt f l = 0 -> nth_error l t = Some a -> f a = false := @cntg_zero pc.
Definition cnt_ge1 : forall f l t a, nth_error l t = Some a -> f a = true -> 1 <= cnt f l := @cntg_ge1 pc.
Definition cnt_lt_length : forall f l t a, nth_error l t = Some a -> f a = false -> cnt f l < length l := @cntg_lt_length pc.
Definition cnt_le : forall f g l, (forall a, f a = true -> g a = true) -> cnt f l <= cnt g l := @cntg_le pc.
Definition cnt_repeat : forall f a k, cnt f (repeat a k) = k * b2n (f a) := @cntg_repeat pc.
Definition cnt_cons : forall f a l, cnt f (a :: l) = b2n (f a) + cnt f l := @cntg_cons pc.

Lemma cnt_partition l :
  cnt is_top l + cnt is_parked l + cnt is_woken l + cnt is_run l + cnt is_done l = length l.
Proof. induction l as [|p l IH]; [reflexivity|]; rewrite !cnt_cons; destruct p; simpl; lia. Qed.

Lemma cnt_wake_top l : cnt is_top (map wake l) = cnt is_top l.
Proof. induction l as [|p l IH]; [reflexivity|]; simpl map; rewrite !cnt_cons, IH; destruct p; reflexivity. Qed.
Lemma cnt_wake_done l : cnt is_done (map wake l) = cnt is_done l.
Proof. induction l as [|p l IH]; [reflexivity|]; simpl map; rewrite !cnt_cons, IH; destruct p; reflexivity. Qed.
Lemma cnt_wake_run l : cnt is_run (map wake l) = cnt is_run l.
Proof. induction l as [|p l IH]; [reflexivity|]; simpl map; rewrite !cnt_cons, IH; destruct p; reflexivity. Qed.
Lemma cnt_wake_run_of i l : cnt (is_run_of i) (map wake l) = cnt (is_run_of i) l.
Proof. induction l as [|p l IH]; [reflexivity|]; simpl map; rewrite !cnt_cons, IH; destruct p; reflexivity. Qed.
Lemma cnt_wake_parked l : cnt is_parked (map wake l) = 0.
Proof. induction l as [|p l IH]; [reflexivity|]; simpl map; rewrite !cnt_cons, IH; destruct p; reflexivity. Qed.
Lemma cnt_wake_woken l : cnt is_woken (map wake l) = cnt is_woken l + cnt is_parked l.
Proof. induction l as [|p l IH]; [reflexivity|]; simpl map; rewrite !cnt_cons, IH; destruct p; simpl; lia. Qed.
Lemma cnt_run_of_le i l : cnt (is_run_of i) l <= cnt is_run l.
Proof. apply cnt_le; intros [] H; simpl in *; auto; discriminate. Qed.

Lemma occ_occn i l : occ i l = occn i l. Proof. reflexivity. Qed.

(* ---- Add before Do *)
Lemma add_all_occ l : forall td ad td' ad', add_all l td ad = (td', ad') ->
  forall i, occn i ad' + occn i td = occn i td' + occn i ad.
Proof.
  induction l as [|x l IH]; intros td ad td' ad' H i; simpl in H.
  - inversion H; subst; lia.
  - destruct (mem x ad) eqn:E.
    + eapply IH; eauto.
    + specialize (IH _ _ _ _ H i). rewrite occn_app, occn_cons, occn_cons, occn_nil in IH. lia.
Qed.

Lemma add_all_nodup l : forall td ad td' ad', add_all l td ad = (td', ad') ->
  (forall i, occn i ad <= 1) -> forall i, occn i ad' <= 1.
Proof.
  induction l as [|x l IH]; intros td ad td' ad' H Hnd i; simpl in H.
  - inversion H; subst; auto.
  - destruct (mem x ad) eqn:E.
    + eapply IH; eauto.
    + eapply IH; eauto. intros i'; rewrite occn_cons.
      apply mem_false in E. destruct (Nat.eqb_spec x i'); simpl; [subst|apply Hnd].
      rewrite occn_In in E. lia.
Qed.

Lemma add_all_in l : forall td ad td' ad', add_all l td ad = (td', ad') ->
  forall i, In i ad' <-> In i l \/ In i ad.
Proof.
  induction l as [|x l IH]; intros td ad td' ad' H i; simpl in H.
  - inversion H; subst; simpl; tauto.
  - destruct (mem x ad) eqn:E.
    + rewrite (IH _ _ _ _ H i). apply mem_In in E. simpl. split; [tauto|]. intros [[->|?]|?]; auto.
    + rewrite (IH _ _ _ _ H i). simpl. tauto.
Qed.

(* Do(n, f) with n >= work_do_min_n starts work_do_spawned n goroutines running runner() and runs
   runner() itself: n runner threads in all, which is what the model's [n] stands for *)
Lemma runner_count n : work_do_min_n <= n -> work_do_spawned n + work_do_inline_runners = n /\ work_running_is_n = true.
Proof. unfold work_do_min_n, work_do_spawned, work_do_inline_runners, work_running_is_n. lia. Qed.

(* Add signals one waiting runner for every item it queues (regenerated from the source: the only Signal in Add
   is `if w.waiting > 0 { w.wait.Signal() }`, executed for each new item): the model's add_step does exactly this *)
Lemma add_signal_guard : work_add_signals_when_waiting = true.
Proof. reflexivity. Qed.

Section Proofs.
Variable n : nat.
Variable children : item -> list item.
Variable inits : list item.
Hypothesis n_ok : work_do_min_n <= n.

Notation step := (step n children).
Notation run := (run n children).
Notation init := (init_state n inits).

Inductive reachable : state -> Prop :=
| reach_init : reachable init
| reach_step s t c s' : reachable s -> step s (t, c) = Some s' -> reachable s'.

(* items that must be processed: the closure of the initial items under [children] *)
Inductive reach : item -> Prop :=
| reach_base i : In i inits -> reach i
| reach_child i c : reach i -> In c (children i) -> reach c.

(* ---- the step function, case by case *)
Definition entry (s : state) (t : thread) (p : pc) (w0 : nat) : Prop :=
  nth_error (pcs s) t = Some p /\ ((p = Top /\ w0 = waiting s) \/ (p = Woken /\ waiting s = S w0)).

Inductive stepR (s : state) (t : thread) : state -> Prop :=
| SPick p w0 c : entry s t p w0 -> todo s <> [] -> c < length (todo s) ->
    stepR s t (mkState (set_nth t (Run (nth c (todo s) 0) 0) (pcs s)) (swap_remove c (todo s)) (added s) w0
                       (nth c (todo s) 0 :: started s) (finished s))
| SPark p w0 : entry s t p w0 -> todo s = [] -> S w0 <> n ->
    stepR s t (mkState (set_nth t Parked (pcs s)) [] (added s) (S w0) (started s) (finished s))
| SFinish p w0 : entry s t p w0 -> todo s = [] -> S w0 = n ->
    stepR s t (mkState (set_nth t Done (map wake (pcs s))) [] (added s) (S w0) (started s) (finished s))
| SAddDup i j ch : nth_error (pcs s) t = Some (Run i j) -> nth_error (children i) j = Some ch -> In ch (added s) ->
    stepR s t (mkState (set_nth t (Run i (S j)) (pcs s)) (todo s) (added s) (waiting s) (started s) (finished s))
| SAddNew i j ch : nth_error (pcs s) t = Some (Run i j) -> nth_error (children i) j = Some ch -> ~ In ch (added s) ->
    (waiting s = 0 \/ cnt is_parked (pcs s) = 0) ->
    stepR s t (mkState (set_nth t (Run i (S j)) (pcs s)) (todo s ++ [ch]) (ch :: added s) (waiting s) (started s) (finished s))
| SAddWake i j ch k : nth_error (pcs s) t = Some (Run i j) -> nth_error (children i) j = Some ch -> ~ In ch (added s) ->
    0 < waiting s -> nth_error (set_nth t (Run i (S j)) (pcs s)) k = Some Parked ->
    stepR s t (mkState (set_nth k Woken (set_nth t (Run i (S j)) (pcs s))) (todo s ++ [ch]) (ch :: added s) (waiting s)
                       (started s) (finished s))
| SRet i j : nth_error (pcs s) t = Some (Run i j) -> nth_error (children i) j = None ->
    stepR s t (mkState (set_nth t Top (pcs s)) (todo s) (added s) (waiting s) (started s) (i :: finished s)).

Lemma existsb_false_cnt (f : pc -> bool) l : existsb f l = false -> cnt f l = 0.
Proof.
  induction l as [|a l IH]; [reflexivity|]. simpl. rewrite cnt_cons.
  destruct (f a); simpl; [discriminate|auto].
Qed.

Lemma wait_or_pick_R s t c p w0 s' : entry s t p w0 -> wait_or_pick n t c s w0 = Some s' -> stepR s t s'.
Proof.
  intros He H; unfold wait_or_pick in H.
  destruct (todo s) as [|x r] eqn:Et.
  - destruct (Nat.eqb_spec (S w0) n) as [e|e]; inversion H; subst; clear H.
    + eapply SFinish; eauto.
    + eapply SPark; eauto.
  - rewrite <- Et in H. destruct (Nat.ltb_spec c (length (todo s))) as [e|e]; [|discriminate].
    injection H as <-. eapply SPick; eauto. rewrite Et; discriminate.
Qed.

Lemma step_R s t c s' : step s (t, c) = Some s' -> stepR s t s'.
Proof.
  unfold ParWork.step. destruct (nth_error (pcs s) t) as [p|] eqn:Ep; [|discriminate].
  destruct p; try discriminate.
  - apply wait_or_pick_R with (p := Top); split; auto.
  - destruct (waiting s) as [|w0] eqn:Ew; [discriminate|].
    apply wait_or_pick_R with (p := Woken); split; auto.
  - destruct (nth_error (children i) j) as [ch|] eqn:Ec.
    + unfold add_step. destruct (mem ch (added s)) eqn:Em.
      * intros H; inversion H; subst; clear H. apply mem_In in Em. eapply SAddDup; eauto.
      * apply mem_false in Em.
        destruct (Nat.ltb_spec 0 (waiting s)) as [ew|ew].
        -- unfold signal. destruct (existsb is_parked (set_nth t (Run i (S j)) (pcs s))) eqn:Ex.
           ++ destruct (nth_error (set_nth t (Run i (S j)) (pcs s)) c) as [[]|] eqn:Ek; try discriminate.
              intros H; inversion H; subst; clear H. eapply SAddWake; eauto.
           ++ intros H; inversion H; subst; clear H. eapply SAddNew; eauto. right.
              apply existsb_false_cnt in Ex. pose proof (cnt_set_nth is_parked _ (Run i (S j)) _ _ Ep) as Hc.
              simpl in Hc. lia.
        -- intros H; inversion H; subst; clear H. eapply SAddNew; eauto. left; lia.
    + intros H; inversion H; subst; clear H. eapply SRet; eauto.
Qed.

(* ---- the counting invariant *)
Record InvC (s : state) : Prop := {
  inv_len : length (pcs s) = n;
  inv_wait : waiting s = cnt is_parked (pcs s) + cnt is_woken (pcs s) + cnt is_done (pcs s);
  inv_place : forall i, occn i (added s) = occn i (todo s) + cnt (is_run_of i) (pcs s) + occn i (finished s);
  inv_nodup : forall i, occn i (added s) <= 1;
  inv_started : forall i, occn i (started s) = cnt (is_run_of i) (pcs s) + occn i (finished s);
  inv_phase1 : cnt is_done (pcs s) = 0 -> waiting s < n;
  inv_phase2 : 0 < cnt is_done (pcs s) ->
     todo s = [] /\ cnt is_top (pcs s) = 0 /\ cnt is_parked (pcs s) = 0 /\ cnt is_run (pcs s) = 0
}.

Ltac bsimp := cbn [b2n is_top is_parked is_woken is_done is_run is_run_of wake pcs todo added waiting started finished] in *.

Ltac cnts x H :=
  pose proof (cnt_set_nth is_top _ x _ _ H);
  pose proof (cnt_set_nth is_parked _ x _ _ H);
  pose proof (cnt_set_nth is_woken _ x _ _ H);
  pose proof (cnt_set_nth is_done _ x _ _ H);
  pose proof (cnt_set_nth is_run _ x _ _ H).

Lemma init_InvC : InvC init.
Proof.
  unfold init_state. destruct (add_all inits [] []) as [td ad] eqn:E.
  pose proof (add_all_occ _ _ _ _ _ E) as Hocc.
  pose proof (add_all_nodup _ _ _ _ _ E) as Hnd.
  assert (Hn : 1 <= n) by exact n_ok.
  constructor; cbn [pcs todo added waiting started finished]; rewrite ?cnt_repeat;
    cbn [b2n is_top is_parked is_woken is_done is_run is_run_of]; rewrite ?Nat.mul_0_r, ?Nat.mul_1_r.
  - apply repeat_length.
  - reflexivity.
  - intros i; specialize (Hocc i); rewrite cnt_repeat, !occn_nil in *; simpl; lia.
  - intros i; apply Hnd; intros; rewrite occn_nil; lia.
  - intros i; rewrite cnt_repeat, occn_nil; simpl; lia.
  - lia.
  - lia.
Qed.

Lemma nth_wake l t p : nth_error l t = Some p -> nth_error (map wake l) t = Some (wake p).
Proof. intros H; rewrite nth_error_map, H; reflexivity. Qed.

Lemma step_InvC s t s' : InvC s -> stepR s t s' -> InvC s'.
Proof.
  intros [Hlen Hw Hpl Hnd Hst Hp1 Hp2] HR.
  pose proof (cnt_partition (pcs s)) as Hpart.
  destruct HR as [p w0 c [Hn He] Htd Hc | p w0 [Hn He] Htd Hne | p w0 [Hn He] Htd Heq
                 | i j ch Hn Hch Hin | i j ch Hn Hch Hin Hnp | i j ch k Hn Hch Hin Hwpos Hk | i j Hn Hch].
  - (* pick *)
    set (it := nth c (todo s) 0) in *.
    pose proof (swap_remove_perm c (todo s) Hc) as Hperm. fold it in Hperm.
    cnts (Run it 0) Hn.
    assert (Hd0 : cnt is_done (pcs s) = 0).
    { destruct (cnt is_done (pcs s)) eqn:Ed; auto. destruct Hp2 as (Ht & Htop & _); [lia|].
      congruence. }
    constructor; bsimp; rewrite ?set_nth_length; auto.
    + destruct He as [[-> ->]|[-> E]]; bsimp; lia.
    + intros i. pose proof (cnt_set_nth (is_run_of i) _ (Run it 0) _ _ Hn) as Hr.
      specialize (Hpl i). rewrite (occn_perm i _ _ Hperm), occn_cons in Hpl. bsimp.
      destruct He as [[-> ->]|[-> E]]; bsimp; lia.
    + intros i. pose proof (cnt_set_nth (is_run_of i) _ (Run it 0) _ _ Hn) as Hr.
      rewrite occn_cons. specialize (Hst i). destruct He as [[-> ->]|[-> E]]; bsimp; lia.
    + intros _. specialize (Hp1 Hd0). destruct He as [[-> ->]|[-> E]]; lia.
    + intros Hd. destruct He as [[-> ->]|[-> E]]; bsimp; lia.
  - (* park *)
    cnts Parked Hn.
    assert (Hd0 : cnt is_done (pcs s) = 0).
    { destruct (cnt is_done (pcs s)) eqn:Ed; auto. destruct Hp2 as (Ht & Htop & Hpk & Hrn); [lia|].
      destruct He as [[-> ->]|[-> E]]; bsimp; lia. }
    constructor; bsimp; rewrite ?set_nth_length; auto.
    + destruct He as [[-> ->]|[-> E]]; bsimp; lia.
    + intros i. pose proof (cnt_set_nth (is_run_of i) _ Parked _ _ Hn) as Hr.
      specialize (Hpl i). rewrite Htd in Hpl. destruct He as [[-> ->]|[-> E]]; bsimp; lia.
    + intros i. pose proof (cnt_set_nth (is_run_of i) _ Parked _ _ Hn) as Hr.
      specialize (Hst i). destruct He as [[-> ->]|[-> E]]; bsimp; lia.
    + intros _. specialize (Hp1 Hd0). destruct He as [[-> ->]|[-> E]]; lia.
    + intros Hd. destruct He as [[-> ->]|[-> E]]; bsimp; lia.
  - (* last one in: broadcast and return *)
    pose proof (nth_wake _ _ _ Hn) as Hn'.
    cnts Done Hn'.
    rewrite cnt_wake_top, cnt_wake_parked, cnt_wake_woken, cnt_wake_done, cnt_wake_run in *.
    constructor; bsimp; rewrite ?set_nth_length, ?map_length; auto.
    + destruct He as [[-> ->]|[-> E]]; bsimp; lia.
    + intros i. pose proof (cnt_set_nth (is_run_of i) _ Done _ _ Hn') as Hr. rewrite cnt_wake_run_of in Hr.
      specialize (Hpl i). rewrite Htd in Hpl. destruct He as [[-> ->]|[-> E]]; bsimp; lia.
    + intros i. pose proof (cnt_set_nth (is_run_of i) _ Done _ _ Hn') as Hr. rewrite cnt_wake_run_of in Hr.
      specialize (Hst i). destruct He as [[-> ->]|[-> E]]; bsimp; lia.
    + intros Hd. destruct He as [[-> ->]|[-> E]]; bsimp; lia.
    + intros _. split; auto.
      destruct (cnt is_done (pcs s)) eqn:Ed.
      * specialize (Hp1 eq_refl). destruct He as [[-> ->]|[-> E]]; bsimp; lia.
      * destruct Hp2 as (_ & Htop & Hpk & Hrn); [lia|]. destruct He as [[-> ->]|[-> E]]; bsimp; lia.
  - (* Add of an item already in the set *)
    cnts (Run i (S j)) Hn.
    constructor; bsimp; rewrite ?set_nth_length.
    + auto.
    + lia.
    + intros i'. pose proof (cnt_set_nth (is_run_of i') _ (Run i (S j)) _ _ Hn) as Hr. specialize (Hpl i'). bsimp. lia.
    + auto.
    + intros i'. pose proof (cnt_set_nth (is_run_of i') _ (Run i (S j)) _ _ Hn) as Hr. specialize (Hst i'). bsimp. lia.
    + intros Hd. apply Hp1; lia.
    + intros Hd. destruct Hp2 as (? & ? & ? & ?); [lia|]. repeat split; auto; lia.
  - (* Add of a new item, nobody to wake *)
    cnts (Run i (S j)) Hn.
    assert (Hd0 : cnt is_done (pcs s) = 0).
    { destruct (cnt is_done (pcs s)) eqn:Ed; auto. destruct Hp2 as (Ht & Htop & Hpk & Hrn); [lia|].
      pose proof (cnt_ge1 is_run _ _ _ Hn eq_refl). lia. }
    rewrite occn_In in Hin.
    constructor; bsimp; rewrite ?set_nth_length.
    + auto.
    + lia.
    + intros i'. pose proof (cnt_set_nth (is_run_of i') _ (Run i (S j)) _ _ Hn) as Hr. specialize (Hpl i').
      rewrite occn_cons, occn_app, occn_cons, occn_nil. bsimp. lia.
    + intros i'. rewrite occn_cons. specialize (Hnd i'). destruct (Nat.eqb_spec ch i'); simpl; [subst; lia|lia].
    + intros i'. pose proof (cnt_set_nth (is_run_of i') _ (Run i (S j)) _ _ Hn) as Hr. specialize (Hst i'). bsimp. lia.
    + intros Hd. apply Hp1; lia.
    + intros Hd. lia.
  - (* Add of a new item, Signal wakes thread k *)
    cnts (Run i (S j)) Hn.
    pose proof (cnt_set_nth is_top _ Woken _ _ Hk);
    pose proof (cnt_set_nth is_parked _ Woken _ _ Hk);
    pose proof (cnt_set_nth is_woken _ Woken _ _ Hk);
    pose proof (cnt_set_nth is_done _ Woken _ _ Hk);
    pose proof (cnt_set_nth is_run _ Woken _ _ Hk).
    assert (Hd0 : cnt is_done (pcs s) = 0).
    { destruct (cnt is_done (pcs s)) eqn:Ed; auto. destruct Hp2 as (Ht & Htop & Hpk & Hrn); [lia|].
      pose proof (cnt_ge1 is_run _ _ _ Hn eq_refl). lia. }
    rewrite occn_In in Hin.
    constructor; bsimp; rewrite ?set_nth_length.
    + auto.
    + lia.
    + intros i'. pose proof (cnt_set_nth (is_run_of i') _ (Run i (S j)) _ _ Hn) as Hr.
      pose proof (cnt_set_nth (is_run_of i') _ Woken _ _ Hk) as Hr'. specialize (Hpl i').
      rewrite occn_cons, occn_app, occn_cons, occn_nil. bsimp. lia.
    + intros i'. rewrite occn_cons. specialize (Hnd i'). destruct (Nat.eqb_spec ch i'); simpl; [subst; lia|lia].
    + intros i'. pose proof (cnt_set_nth (is_run_of i') _ (Run i (S j)) _ _ Hn) as Hr.
      pose proof (cnt_set_nth (is_run_of i') _ Woken _ _ Hk) as Hr'. specialize (Hst i'). bsimp. lia.
    + intros Hd. specialize (Hp1 Hd0). lia.
    + intros Hd. lia.
  - (* f returns *)
    cnts Top Hn.
    assert (Hd0 : cnt is_done (pcs s) = 0).
    { destruct (cnt is_done (pcs s)) eqn:Ed; auto. destruct Hp2 as (Ht & Htop & Hpk & Hrn); [lia|].
      pose proof (cnt_ge1 is_run _ _ _ Hn eq_refl). lia. }
    constructor; bsimp; rewrite ?set_nth_length.
    + auto.
    + lia.
    + intros i'. pose proof (cnt_set_nth (is_run_of i') _ Top _ _ Hn) as Hr. specialize (Hpl i').
      rewrite occn_cons. bsimp. lia.
    + auto.
    + intros i'. pose proof (cnt_set_nth (is_run_of i') _ Top _ _ Hn) as Hr. specialize (Hst i').
      rewrite occn_cons. bsimp. lia.
    + intros Hd. apply Hp1; lia.
    + intros Hd. lia.
Qed.

Lemma reachable_InvC s : reachable s -> InvC s.
Proof.
  induction 1 as [|s t c s' Hr IH Hs]; [apply init_InvC|].
  eapply step_InvC; eauto. eapply step_R; eauto.
Qed.

(* ---- closure invariant: what has been added is reachable, and nothing reachable is forgotten *)
Definition run_closed (ad : list item) (p : pc) : Prop :=
  match p with
  | Run i j => j <= length (children i) /\ forall m c, m < j -> nth_error (children i) m = Some c -> In c ad
  | _ => True
  end.

Record InvR (s : state) : Prop := {
  inv_inits : forall i, In i inits -> In i (added s);
  inv_fin_closed : forall i c, In i (finished s) -> In c (children i) -> In c (added s);
  inv_run_closed : Forall (run_closed (added s)) (pcs s);
  inv_reach : forall i, In i (added s) -> reach i
}.

Lemma run_closed_mono ad ad' p : incl ad ad' -> run_closed ad p -> run_closed ad' p.
Proof. intros Hi; destruct p; simpl; auto. intros [H1 H2]; split; auto. intros; apply Hi; eauto. Qed.

Lemma init_InvR : InvR init.
Proof.
  unfold init_state. destruct (add_all inits [] []) as [td ad] eqn:E.
  pose proof (add_all_in _ _ _ _ _ E) as Hin.
  constructor; simpl.
  - intros i Hi; apply Hin; auto.
  - intros i c [].
  - apply Forall_forall; intros p Hp; apply repeat_spec in Hp; subst; exact I.
  - intros i Hi; apply Hin in Hi; destruct Hi as [Hi|[]]; apply reach_base; auto.
Qed.

Lemma run_item_added s t i j : InvC s -> nth_error (pcs s) t = Some (Run i j) -> In i (added s).
Proof.
  intros HC Hn. apply occn_In. rewrite (inv_place _ HC i).
  assert (is_run_of i (Run i j) = true) by (simpl; apply Nat.eqb_refl).
  pose proof (cnt_ge1 (is_run_of i) _ _ _ Hn H). lia.
Qed.

Lemma step_InvR s t s' : InvC s -> InvR s -> stepR s t s' -> InvR s'.
Proof.
  intros HC [Hi Hf Hr Hre] HR.
  destruct HR as [p w0 c [Hn He] Htd Hc | p w0 [Hn He] Htd Hne | p w0 [Hn He] Htd Heq
                 | i j ch Hn Hch Hin | i j ch Hn Hch Hin Hnp | i j ch k Hn Hch Hin Hwpos Hk | i j Hn Hch];
    constructor; cbn [pcs todo added waiting started finished].
  - auto.
  - auto.
  - apply Forall_set_nth; auto. simpl; split; [lia|]. intros; lia.
  - auto.
  - auto.
  - auto.
  - apply Forall_set_nth; simpl; auto.
  - auto.
  - auto.
  - auto.
  - apply Forall_set_nth; simpl; auto. apply Forall_forall; intros p' Hp'.
    apply in_map_iff in Hp' as (q & <- & Hq). rewrite Forall_forall in Hr. specialize (Hr _ Hq).
    destruct q; simpl in *; auto.
  - auto.
  - (* dup *) auto.
  - auto.
  - pose proof (Forall_nth_error _ _ _ _ Hr Hn) as [Hj Hall].
    apply Forall_set_nth; auto. simpl. split.
    + apply nth_error_lt in Hch; lia.
    + intros m c Hm Hc. destruct (Nat.eq_dec m j) as [->|]; [congruence|]. apply (Hall m); auto; lia.
  - auto.
  - (* new *) intros i' Hi'; right; auto.
  - intros i' c Hi' Hc; right; eauto.
  - pose proof (Forall_nth_error _ _ _ _ Hr Hn) as [Hj Hall].
    apply Forall_set_nth.
    + eapply Forall_impl; [|exact Hr]. intros p; apply run_closed_mono. intros x; simpl; auto.
    + simpl. split; [apply nth_error_lt in Hch; lia|].
      intros m c Hm Hc. destruct (Nat.eq_dec m j) as [->|]; [left; congruence|]. right; apply (Hall m); auto; lia.
  - intros i' [<-|Hi']; auto. eapply reach_child; [apply Hre; eapply run_item_added; eauto|].
    eapply nth_error_In; eauto.
  - intros i' Hi'; right; auto.
  - intros i' c Hi' Hc; right; eauto.
  - pose proof (Forall_nth_error _ _ _ _ Hr Hn) as [Hj Hall].
    apply Forall_set_nth; [apply Forall_set_nth|]; simpl; auto.
    + eapply Forall_impl; [|exact Hr]. intros p; apply run_closed_mono. intros x; simpl; auto.
    + split; [apply nth_error_lt in Hch; lia|].
      intros m c Hm Hc. destruct (Nat.eq_dec m j) as [->|]; [left; congruence|]. right; apply (Hall m); auto; lia.
  - intros i' [<-|Hi']; auto. eapply reach_child; [apply Hre; eapply run_item_added; eauto|].
    eapply nth_error_In; eauto.
  - auto.
  - (* f returns: all its children have been added *)
    pose proof (Forall_nth_error _ _ _ _ Hr Hn) as [Hj Hall].
    intros i' c [<-|Hi'] Hc; eauto.
    apply In_nth_error in Hc as [m Hm]. apply (Hall m); auto.
    apply nth_error_None in Hch. apply nth_error_lt in Hm. lia.
  - apply Forall_set_nth; simpl; auto.
  - auto.
Qed.

Lemma reachable_Inv s : reachable s -> InvC s /\ InvR s.
Proof.
  induction 1 as [|s t c s' Hr [IHC IHR] Hs]; [split; [apply init_InvC|apply init_InvR]|].
  apply step_R in Hs. split; [eapply step_InvC|eapply step_InvR]; eauto.
Qed.

(* ---- no lost wake-up, per queued item: while a runner sleeps un-signalled, the queue is no longer than the
   number of runners on their way to it *)
Definition InvW (s : state) : Prop :=
  0 < cnt is_parked (pcs s) -> length (todo s) <= cnt is_top (pcs s) + cnt is_woken (pcs s).

Lemma init_InvW : InvW init.
Proof.
  unfold InvW, init_state. destruct (add_all inits [] []) as [td ad]. cbn [pcs todo].
  rewrite cnt_repeat. simpl. lia.
Qed.

Lemma step_InvW s t s' : InvC s -> InvW s -> stepR s t s' -> InvW s'.
Proof.
  intros HC HW HR. unfold InvW in *.
  pose proof (inv_wait _ HC) as Hw.
  destruct HR as [p w0 c [Hn He] Htd Hc | p w0 [Hn He] Htd Hne | p w0 [Hn He] Htd Heq
                 | i j ch Hn Hch Hin | i j ch Hn Hch Hin Hnp | i j ch k Hn Hch Hin Hwpos Hk | i j Hn Hch]; bsimp.
  - (* pick: one item and one runner on its way fewer *)
    cnts (Run (nth c (todo s) 0) 0) Hn.
    pose proof (swap_remove_length c (todo s) Htd) as Hl.
    destruct He as [[-> ->]|[-> E]]; bsimp; lia.
  - simpl. lia.
  - (* broadcast: nobody stays parked *)
    pose proof (nth_wake _ _ _ Hn) as Hn'.
    pose proof (cnt_set_nth is_parked _ Done _ _ Hn') as Hp. rewrite cnt_wake_parked in Hp.
    simpl in Hp. lia.
  - cnts (Run i (S j)) Hn. bsimp. lia.
  - (* a new item and nobody to wake: nobody is parked *)
    cnts (Run i (S j)) Hn. bsimp. destruct Hnp as [Hz|Hz]; lia.
  - (* a new item, and Signal sends a parked runner on its way *)
    cnts (Run i (S j)) Hn.
    pose proof (cnt_set_nth is_top _ Woken _ _ Hk);
    pose proof (cnt_set_nth is_parked _ Woken _ _ Hk);
    pose proof (cnt_set_nth is_woken _ Woken _ _ Hk).
    bsimp. rewrite app_length. simpl. lia.
  - cnts Top Hn. bsimp. lia.
Qed.

Lemma reachable_InvW s : reachable s -> InvW s.
Proof.
  induction 1 as [|s t c s' Hr IH Hs]; [apply init_InvW|].
  eapply step_InvW; eauto; [apply reachable_Inv; auto|eapply step_R; eauto].
Qed.

(* ---- property theorems *)

(* every added item is in exactly one of todo / running / finished; f begins at most once
   per item; only items reachable from the initial ones are ever added *)
Theorem exactly_once_safety s : reachable s ->
  NoDup (added s) /\ NoDup (started s) /\ NoDup (finished s) /\
  (forall i, In i (added s) ->
     occ i (todo s) + cnt (is_run_of i) (pcs s) + occ i (finished s) = 1) /\
  (forall i, In i (todo s) \/ 0 < cnt (is_run_of i) (pcs s) \/ In i (started s) \/ In i (finished s) ->
     In i (added s) /\ reach i).
Proof.
  intros Hr. destruct (reachable_Inv s Hr) as [HC HR].
  destruct HC as [Hlen Hw Hpl Hnd Hst Hp1 Hp2].
  assert (Hs1 : forall i, occn i (started s) <= 1) by (intros i; specialize (Hpl i); specialize (Hnd i); specialize (Hst i); lia).
  assert (Hf1 : forall i, occn i (finished s) <= 1) by (intros i; specialize (Hpl i); specialize (Hnd i); lia).
  repeat split; try (apply occn_NoDup; assumption).
  - intros i Hi. apply occn_In in Hi. specialize (Hpl i); specialize (Hnd i). unfold occ, occn in *. lia.
  - rewrite !occn_In in *. specialize (Hpl i); specialize (Hst i). lia.
  - apply (inv_reach _ HR). rewrite !occn_In in *. specialize (Hpl i); specialize (Hst i). lia.
Qed.

Theorem at_most_n_running s : reachable s -> length (pcs s) = n /\ cnt is_run (pcs s) <= n.
Proof.
  intros Hr. destruct (reachable_Inv s Hr) as [HC _]. split; [apply HC|].
  rewrite <- (inv_len _ HC). apply cnt_le_length.
Qed.

Lemma reach_added_when_quiet s : InvC s -> InvR s -> todo s = [] -> cnt is_run (pcs s) = 0 ->
  forall i, reach i -> In i (finished s).
Proof.
  intros HC HR Htd Hrun.
  assert (Haf : forall i, In i (added s) -> In i (finished s)).
  { intros i Hi. rewrite occn_In in *. pose proof (inv_place _ HC i) as Hp. rewrite Htd, occn_nil in Hp.
    pose proof (cnt_run_of_le i (pcs s)). lia. }
  induction 1 as [i Hi|i c Hi IH Hc]; apply Haf.
  - apply (inv_inits _ HR); auto.
  - eapply (inv_fin_closed _ HR); eauto.
Qed.

(* when the runner of Do's own goroutine (thread 0) -- or any runner -- has returned, nothing is
   queued, no call of f is in progress, every item reachable from the initial items has been
   processed exactly once, and no thread is parked or will park again *)
Theorem do_returns_when_done s t : reachable s -> nth_error (pcs s) t = Some Done ->
  todo s = [] /\ cnt is_run (pcs s) = 0 /\ cnt is_parked (pcs s) = 0 /\ cnt is_top (pcs s) = 0 /\
  (forall i, reach i <-> In i (finished s)) /\ NoDup (finished s).
Proof.
  intros Hr Hn. destruct (reachable_Inv s Hr) as [HC HR].
  pose proof (cnt_ge1 is_done _ _ _ Hn eq_refl) as Hd.
  destruct (inv_phase2 _ HC) as (Htd & Htop & Hpk & Hrun); [lia|].
  repeat split; auto.
  - apply reach_added_when_quiet; auto.
  - intros Hi. apply (exactly_once_safety s Hr). auto.
  - apply (exactly_once_safety s Hr).
Qed.

(* threads that are not blocked have a step *)
Lemma wait_or_pick_some s t w0 : exists c s', wait_or_pick n t c s w0 = Some s'.
Proof.
  unfold wait_or_pick. destruct (todo s) as [|x r] eqn:Et.
  - exists 0. destruct (Nat.eqb (S w0) n); eauto.
  - exists 0. simpl. eauto.
Qed.

Lemma top_enabled s t : nth_error (pcs s) t = Some Top -> exists c s', step s (t, c) = Some s'.
Proof. intros Hn. unfold ParWork.step. rewrite Hn. apply wait_or_pick_some. Qed.

Lemma woken_enabled s t : nth_error (pcs s) t = Some Woken -> 0 < waiting s -> exists c s', step s (t, c) = Some s'.
Proof.
  intros Hn Hw. unfold ParWork.step. rewrite Hn. destruct (waiting s); [lia|]. apply wait_or_pick_some.
Qed.

Lemma run_enabled s t i j : nth_error (pcs s) t = Some (Run i j) -> exists c s', step s (t, c) = Some s'.
Proof.
  intros Hn. unfold ParWork.step. rewrite Hn.
  destruct (nth_error (children i) j) as [ch|] eqn:Ec; [|eauto].
  unfold add_step. destruct (mem ch (added s)); [eauto|].
  destruct (Nat.ltb 0 (waiting s)); [|eauto]. unfold signal.
  destruct (existsb is_parked (set_nth t (Run i (S j)) (pcs s))) eqn:Ex; [|exists 0; eauto].
  apply existsb_exists in Ex as (q & Hq & Hqp). apply In_nth_error in Hq as [k Hk].
  destruct q; try discriminate. exists k. rewrite Hk. eauto.
Qed.

(* Do itself is thread 0 *)
Corollary do_returns s : reachable s -> nth_error (pcs s) 0 = Some Done ->
  todo s = [] /\ cnt is_run (pcs s) = 0 /\ (forall i, reach i <-> In i (finished s)) /\ NoDup (finished s) /\
  (forall t p, nth_error (pcs s) t = Some p -> p = Woken \/ p = Done).
Proof.
  intros Hr H0. destruct (do_returns_when_done s 0 Hr H0) as (Htd & Hrun & Hpk & Htop & Hre & Hnd).
  repeat split; auto; try apply Hre.
  intros t p Hn. pose proof (cnt_zero _ _ _ _ Hrun Hn). pose proof (cnt_zero _ _ _ _ Hpk Hn).
  pose proof (cnt_zero _ _ _ _ Htop Hn). destruct p; simpl in *; auto; discriminate.
Qed.

(* no deadlock, no lost wake-up: unless every runner has returned, some thread has a step *)
Theorem no_deadlock s : reachable s ->
  all_done s = true \/ exists t c s', step s (t, c) = Some s'.
Proof.
  intros Hr. destruct (reachable_Inv s Hr) as [HC HR].
  destruct HC as [Hlen Hw Hpl Hnd Hst Hp1 Hp2].
  pose proof (cnt_partition (pcs s)) as Hpart.
  destruct (cnt is_done (pcs s)) eqn:Ed.
  - (* nobody has returned: somebody is not parked *)
    right. specialize (Hp1 eq_refl).
    destruct (cnt_lt_exists is_parked (pcs s)) as (t & p & Hn & Hp); [lia|].
    pose proof (cnt_zero is_done _ _ _ Ed Hn) as Hnd'.
    exists t. destruct p; try discriminate.
    + apply top_enabled; auto.
    + pose proof (cnt_ge1 is_woken _ _ _ Hn eq_refl) as Hge. apply woken_enabled; auto; lia.
    + eapply run_enabled; eauto.
  - (* somebody has returned: everybody else is Woken and can re-acquire the mutex and return *)
    destruct Hp2 as (Htd & Htop & Hpk & Hrun); [lia|].
    destruct (cnt is_woken (pcs s)) eqn:Ewk.
    + left. unfold all_done. apply forallb_forall. intros p Hp. apply In_nth_error in Hp as [t Hn].
      pose proof (cnt_zero _ _ _ _ Htop Hn). pose proof (cnt_zero _ _ _ _ Hpk Hn).
      pose proof (cnt_zero _ _ _ _ Hrun Hn). pose proof (cnt_zero _ _ _ _ Ewk Hn).
      destruct p; simpl in *; auto; discriminate.
    + right. destruct (cnt_exists is_woken (pcs s)) as (t & p & Hn & Hp); [lia|].
      destruct p; try discriminate.
      exists t. apply woken_enabled; auto. lia.
Qed.

(* a state without any step is the final state: every runner has returned *)
Corollary stuck_is_final s : reachable s -> (forall t c, step s (t, c) = None) -> all_done s = true.
Proof.
  intros Hr Hs. destruct (no_deadlock s Hr) as [H|(t & c & s' & H)]; auto. rewrite Hs in H; discriminate.
Qed.

(* no lost wake-up, stated on its own: while work is queued, some runner that is not blocked
   in Wait will look at it (it is at the loop head, or woken, or inside f) *)
Theorem no_lost_wakeup s : reachable s -> todo s <> [] ->
  cnt is_parked (pcs s) < n /\ exists t p, nth_error (pcs s) t = Some p /\ (is_top p || is_woken p || is_run p) = true.
Proof.
  intros Hr Htd. destruct (reachable_Inv s Hr) as [HC HR].
  destruct HC as [Hlen Hw Hpl Hnd Hst Hp1 Hp2].
  destruct (cnt is_done (pcs s)) eqn:Ed; [|destruct Hp2 as (? & _); [lia|contradiction]].
  specialize (Hp1 eq_refl). split; [lia|].
  destruct (cnt_lt_exists is_parked (pcs s)) as (t & p & Hn & Hp); [lia|].
  pose proof (cnt_zero is_done _ _ _ Ed Hn) as Hnd'.
  exists t, p. split; auto. destruct p; simpl in *; auto; discriminate.
Qed.

(* no lost wake-up, item by item: in every reachable state in which some runner sleeps in Wait without having
   been signalled, each queued item has a runner of its own on its way to the queue -- at the loop head, or signalled
   and about to re-acquire the mutex (runners inside f do not count: f may never return unless the queued items
   run, as with items that wait for each other).  In particular an Add of k new items while k runners sleep wakes k. *)
Theorem wakeup_per_item s : reachable s -> 0 < cnt is_parked (pcs s) ->
  length (todo s) <= cnt is_top (pcs s) + cnt is_woken (pcs s).
Proof. intros Hr. exact (reachable_InvW s Hr). Qed.

(* the executable form evaluated on the states of the real code *)
Theorem wakeup_ok_reachable s : reachable s -> wakeup_ok s = true.
Proof.
  intros Hr. pose proof (wakeup_per_item s Hr) as H. unfold wakeup_ok.
  destruct (Nat.eqb_spec (cnt is_parked (pcs s)) 0) as [e|e]; [reflexivity|].
  simpl. apply Nat.leb_le. apply H. lia.
Qed.

(* what "no lost wake-up, item by item" buys: WITHOUT any call of f returning or adding anything, the runners that
   are not inside f can take up queued items until the queue is empty or all n runners are inside f -- up to n items
   are in progress together, so calls of f that wait for their siblings to be running (with no more such items than
   runners) cannot hang Do.  The schedule consists of pick steps only: nothing is added, nothing finishes. *)
Theorem queued_items_get_runners s : reachable s ->
  exists sch s', run sch s = Some s' /\ (todo s' = [] \/ cnt is_run (pcs s') = n) /\
    added s' = added s /\ finished s' = finished s /\ length sch + length (todo s') = length (todo s) /\
    cnt is_run (pcs s') = cnt is_run (pcs s) + length sch.
Proof.
  remember (length (todo s)) as m eqn:Em. revert s Em.
  induction m as [|m IH]; intros s Em Hr.
  - exists [], s. simpl. repeat split; auto. left. destruct (todo s); [reflexivity|discriminate].
  - destruct (reachable_Inv s Hr) as [HC HR]. pose proof (reachable_InvW s Hr) as HW. unfold InvW in HW.
    destruct HC as [Hlen Hw Hpl Hnd Hst Hp1 Hp2].
    pose proof (cnt_partition (pcs s)) as Hpart.
    assert (Htd : todo s <> []) by (intros E; rewrite E in Em; discriminate).
    assert (Hd0 : cnt is_done (pcs s) = 0).
    { destruct (cnt is_done (pcs s)) eqn:Ed; auto. destruct Hp2 as (Ht & _); [lia|contradiction]. }
    destruct (Nat.eq_dec (cnt is_run (pcs s)) n) as [Hall|Hnot].
    { exists [], s. simpl. repeat split; auto. }
    assert (Hcoming : 0 < cnt is_top (pcs s) + cnt is_woken (pcs s)).
    { destruct (cnt is_parked (pcs s)) eqn:Epk; [lia|]. assert (0 < S n0) as Hp by lia. specialize (HW Hp). lia. }
    assert (Hstep : exists t s1, step s (t, 0) = Some s1 /\ todo s1 = swap_remove 0 (todo s) /\ added s1 = added s /\
              finished s1 = finished s /\ cnt is_run (pcs s1) = S (cnt is_run (pcs s))).
    { assert (Hpick : forall t p w0, nth_error (pcs s) t = Some p -> (p = Top \/ p = Woken) ->
                wait_or_pick n t 0 s w0 = Some (mkState (set_nth t (Run (nth 0 (todo s) 0) 0) (pcs s)) (swap_remove 0 (todo s)) (added s) w0
                                                         (nth 0 (todo s) 0 :: started s) (finished s))).
      { intros t p w0 Hn Hp. unfold wait_or_pick. destruct (todo s) as [|x r] eqn:Et; [contradiction|]. reflexivity. }
      destruct (cnt is_top (pcs s)) eqn:Etop.
      - destruct (cnt_exists is_woken (pcs s)) as (t & p & Hn & Hp); [lia|]. destruct p; try discriminate.
        exists t. unfold ParWork.step. rewrite Hn. destruct (waiting s) as [|w0] eqn:Ewt.
        + pose proof (cnt_ge1 is_woken _ _ _ Hn eq_refl). lia.
        + rewrite (Hpick t Woken w0 Hn (or_intror eq_refl)). eexists; split; [reflexivity|]. cbn [todo added finished pcs].
          repeat split; auto. pose proof (cnt_set_nth is_run _ (Run (nth 0 (todo s) 0) 0) _ _ Hn) as Hc. simpl in Hc. lia.
      - destruct (cnt_exists is_top (pcs s)) as (t & p & Hn & Hp); [lia|]. destruct p; try discriminate.
        exists t. unfold ParWork.step. rewrite Hn.
        rewrite (Hpick t Top (waiting s) Hn (or_introl eq_refl)). eexists; split; [reflexivity|]. cbn [todo added finished pcs].
        repeat split; auto. pose proof (cnt_set_nth is_run _ (Run (nth 0 (todo s) 0) 0) _ _ Hn) as Hc. simpl in Hc. lia. }
    destruct Hstep as (t & s1 & Hs1 & Ht1 & Ha1 & Hf1 & Hr1).
    pose proof (swap_remove_length 0 (todo s) Htd) as Hl.
    destruct (IH s1) as (sch & s' & Hrun & Hgoal & Ha & Hf & Hlen' & Hrn).
    { rewrite Ht1. lia. }
    { eapply reach_step; eauto. }
    exists ((t, 0) :: sch), s'. cbn [ParWork.run]. rewrite Hs1. repeat split; auto; try congruence.
    + simpl. lia.
    + simpl. lia.
Qed.

(* [enabled] (used by the runner to compare with the real scheduler's runnable set) is exact *)
Theorem enabled_spec s t : reachable s -> (enabled s t = true <-> exists c s', step s (t, c) = Some s').
Proof.
  intros Hr. destruct (reachable_Inv s Hr) as [HC HR]. unfold enabled. split.
  - destruct (nth_error (pcs s) t) as [p|] eqn:Hn; [|discriminate].
    destruct p; try discriminate; intros _.
    + apply top_enabled; auto.
    + pose proof (cnt_ge1 is_woken _ _ _ Hn eq_refl). pose proof (inv_wait _ HC).
      apply woken_enabled; auto; lia.
    + eapply run_enabled; eauto.
  - intros (c & s' & H). unfold ParWork.step in H.
    destruct (nth_error (pcs s) t) as [[]|]; auto; discriminate.
Qed.

(* ---- termination: the potential strictly decreases *)
Section Potential.
Variable U : list item.
Hypothesis U_nodup : NoDup U.
Hypothesis U_inits : forall i, In i inits -> In i U.
Hypothesis U_closed : forall i c, In i U -> In c (children i) -> In c U.

Notation phi := (phi n children U).
Notation pot := (pot n children).
Notation wgt := (wgt n children).
Notation unadded := (unadded n children U).

Lemma reach_in_U i : reach i -> In i U.
Proof. induction 1; eauto. Qed.

Lemma list_sum_cons a l : list_sum (a :: l) = a + list_sum l.
Proof. reflexivity. Qed.

Lemma mem_cons x c ad : mem x (c :: ad) = (Nat.eqb x c || mem x ad)%bool.
Proof. reflexivity. Qed.

Lemma unadded_notin c ad l : ~ In c l ->
  list_sum (map (fun u => if mem u (c :: ad) then 0 else wgt u + 2) l) =
  list_sum (map (fun u => if mem u ad then 0 else wgt u + 2) l).
Proof.
  induction l as [|u l IH]; intros H; [reflexivity|]. cbn [map]. rewrite !list_sum_cons.
  rewrite IH by (intros ?; apply H; right; auto). rewrite mem_cons.
  destruct (Nat.eqb_spec u c); [subst; exfalso; apply H; left; auto|]. reflexivity.
Qed.

Lemma unadded_in c ad l : NoDup l -> In c l -> mem c ad = false ->
  list_sum (map (fun u => if mem u (c :: ad) then 0 else wgt u + 2) l) + (wgt c + 2) =
  list_sum (map (fun u => if mem u ad then 0 else wgt u + 2) l).
Proof.
  induction 1 as [|u l Hu Hl IH]; intros Hin Hm; [destruct Hin|].
  cbn [map]. rewrite !list_sum_cons, mem_cons. destruct Hin as [->|Hin].
  - rewrite Nat.eqb_refl, Hm. cbn [orb]. rewrite unadded_notin by auto. lia.
  - destruct (Nat.eqb_spec u c); [subst; contradiction|]. cbn [orb]. specialize (IH Hin Hm). lia.
Qed.

Lemma sum_pot_wake' l : list_sum (map pot (map wake l)) = list_sum (map pot l) + cnt is_parked l.
Proof.
  induction l as [|p l IH]; [reflexivity|]. simpl map. simpl list_sum. rewrite cnt_cons, IH.
  destruct p; simpl; lia.
Qed.

Lemma pot_run_step i j : j < length (children i) -> pot (Run i (S j)) + K n = pot (Run i j).
Proof.
  intros H. unfold ParWork.pot.
  replace (length (children i) - j + 1) with (S (length (children i) - S j + 1)) by lia.
  simpl. lia.
Qed.

Lemma pot_top : pot Top = n + 2. Proof. reflexivity. Qed.
Lemma pot_woken : pot Woken = n + 1. Proof. reflexivity. Qed.
Lemma pot_parked : pot Parked = n. Proof. reflexivity. Qed.
Lemma pot_done : pot Done = 0. Proof. reflexivity. Qed.

Ltac potsimp H := rewrite ?pot_top, ?pot_woken, ?pot_parked, ?pot_done in H.

Theorem phi_decreases s t c s' : reachable s -> step s (t, c) = Some s' -> phi s' < phi s.
Proof.
  intros Hr Hs. destruct (reachable_Inv s Hr) as [HC HR]. apply step_R in Hs.
  pose proof (inv_len _ HC) as Hlen.
  unfold ParWork.phi.
  destruct Hs as [p w0 c' [Hn He] Htd Hc | p w0 [Hn He] Htd Hne | p w0 [Hn He] Htd Heq
                 | i j ch Hn Hch Hin | i j ch Hn Hch Hin Hnp | i j ch k Hn Hch Hin Hwpos Hk | i j Hn Hch]; bsimp.
  - pose proof (sum_set_nth pot _ (Run (nth c' (todo s) 0) 0) _ _ Hn) as Hs.
    pose proof (swap_remove_perm c' (todo s) Hc) as Hperm.
    apply (Permutation_map wgt) in Hperm. apply list_sum_perm in Hperm.
    cbn [map] in Hperm. rewrite list_sum_cons in Hperm.
    assert (Hpw : pot (Run (nth c' (todo s) 0) 0) = wgt (nth c' (todo s) 0)).
    { unfold ParWork.pot, ParWork.wgt. rewrite Nat.sub_0_r. reflexivity. }
    rewrite Hpw in Hs.
    destruct He as [[-> ->]|[-> E]]; potsimp Hs; lia.
  - pose proof (sum_set_nth pot _ Parked _ _ Hn) as Hs.
    rewrite Htd. cbn [map list_sum fold_right].
    destruct He as [[-> ->]|[-> E]]; potsimp Hs; lia.
  - pose proof (nth_wake _ _ _ Hn) as Hn'.
    pose proof (sum_set_nth pot _ Done _ _ Hn') as Hs. rewrite sum_pot_wake' in Hs.
    assert (cnt is_parked (pcs s) < length (pcs s)).
    { eapply cnt_lt_length; eauto. destruct He as [[-> ->]|[-> E]]; reflexivity. }
    rewrite Htd. cbn [map list_sum fold_right].
    destruct He as [[-> ->]|[-> E]]; cbn [wake] in Hs; potsimp Hs; lia.
  - pose proof (sum_set_nth pot _ (Run i (S j)) _ _ Hn) as Hs.
    pose proof (pot_run_step i j (nth_error_lt _ _ _ Hch)). unfold K in *. lia.
  - pose proof (sum_set_nth pot _ (Run i (S j)) _ _ Hn) as Hs.
    pose proof (pot_run_step i j (nth_error_lt _ _ _ Hch)).
    assert (HchU : In ch U).
    { apply reach_in_U. eapply reach_child; [apply (inv_reach _ HR); eapply run_item_added; eauto|].
      eapply nth_error_In; eauto. }
    apply mem_false in Hin.
    pose proof (unadded_in ch (added s) U U_nodup HchU Hin) as Hu. unfold ParWork.unadded.
    rewrite map_app, list_sum_app. cbn [map]. rewrite list_sum_cons. cbn [list_sum fold_right].
    unfold K in *. lia.
  - pose proof (sum_set_nth pot _ (Run i (S j)) _ _ Hn) as Hs.
    pose proof (sum_set_nth pot _ Woken _ _ Hk) as Hs'. potsimp Hs'.
    pose proof (pot_run_step i j (nth_error_lt _ _ _ Hch)).
    assert (HchU : In ch U).
    { apply reach_in_U. eapply reach_child; [apply (inv_reach _ HR); eapply run_item_added; eauto|].
      eapply nth_error_In; eauto. }
    apply mem_false in Hin.
    pose proof (unadded_in ch (added s) U U_nodup HchU Hin) as Hu. unfold ParWork.unadded.
    rewrite map_app, list_sum_app. cbn [map]. rewrite list_sum_cons. cbn [list_sum fold_right].
    unfold K in *. lia.
  - pose proof (sum_set_nth pot _ Top _ _ Hn) as Hs. potsimp Hs.
    apply nth_error_None in Hch.
    pose proof (Forall_nth_error _ _ _ _ (inv_run_closed _ HR) Hn) as [Hj _].
    assert (Hpk : pot (Run i j) = K n).
    { unfold ParWork.pot. replace (length (children i) - j + 1) with 1 by lia. lia. }
    rewrite Hpk in Hs. unfold K in *. lia.
Qed.

Lemma run_cons tc sch s : run (tc :: sch) s = match step s tc with Some s' => run sch s' | None => None end.
Proof. reflexivity. Qed.

Lemma run_reachable sch : forall s s', reachable s -> run sch s = Some s' -> reachable s'.
Proof.
  induction sch as [|[t c] sch IH]; intros s s' Hr H; [|rewrite run_cons in H].
  - inversion H; subst; auto.
  - destruct (step s (t, c)) as [s1|] eqn:E; [|discriminate].
    eapply IH; [|exact H]. eapply reach_step; eauto.
Qed.

(* every schedule is finite: at most phi(init) steps can be taken from the start *)
Theorem terminates sch : forall s s', reachable s -> run sch s = Some s' -> length sch + phi s' <= phi s.
Proof.
  induction sch as [|[t c] sch IH]; intros s s' Hr H; [|rewrite run_cons in H].
  - inversion H; subst; simpl; lia.
  - destruct (step s (t, c)) as [s1|] eqn:E; [|discriminate].
    pose proof (phi_decreases _ _ _ _ Hr E).
    specialize (IH s1 s' (reach_step _ _ _ _ Hr E) H). simpl. lia.
Qed.

(* ... and every schedule can be completed: from any reachable state some continuation ends
   with all runners (in particular Do) returned, after at most phi(s) further steps *)
Theorem can_finish s : reachable s ->
  exists sch s', run sch s = Some s' /\ all_done s' = true /\ length sch <= phi s.
Proof.
  remember (phi s) as m eqn:Em. revert s Em.
  induction m as [m IH] using lt_wf_ind. intros s Em Hr.
  destruct (no_deadlock s Hr) as [Hd|(t & c & s1 & Hs)].
  - exists [], s; simpl; repeat split; auto; lia.
  - pose proof (phi_decreases _ _ _ _ Hr Hs) as Hlt.
    destruct (IH (phi s1)) with (s := s1) as (sch & s' & Hrun & Hd & Hlen); auto; [lia|eapply reach_step; eauto|].
    exists ((t, c) :: sch), s'. rewrite run_cons, Hs. repeat split; auto. simpl; lia.
Qed.
End Potential.
End Proofs.

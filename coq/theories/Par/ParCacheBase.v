(* par.Cache model, part 1 of the proofs: counting lemmas, the step function case by case
   (stepC) and the counting invariant around the entry mutex and the done flag (InvA). *)
From Coq Require Import List Arith Bool Lia.
From GI Require Import Gen.ParConsts Par.ParWork Par.ParLib Par.ParCache.
Import ListNotations.

(* the two facts about the regenerated constants everything below rests on *)
Lemma done_zero_is_not_done : Nat.eqb 0 cache_done_test = true.
Proof. reflexivity. Qed.
Lemma done_value_is_done : Nat.eqb cache_done_value cache_done_test = false.
Proof. reflexivity. Qed.

(* Cache.Do has no defer statement (regenerated from the source): when f does not return, nothing releases e.mu and
   nothing sets e.done -- the model's crash transition *)
Lemma do_unlock_not_deferred : cache_do_deferred = 0.
Proof. reflexivity. Qed.

Definition is_call (k : nat) (p : cpc) : bool := match p with DCall k' => Nat.eqb k' k | _ => false end.
Definition is_inf (k : nat) (p : cpc) : bool := match p with DInF k' _ => Nat.eqb k' k | _ => false end.
Definition is_wr (k : nat) (p : cpc) : bool := match p with DWrite k' _ => Nat.eqb k' k | _ => false end.
Definition is_st (k : nat) (p : cpc) : bool := match p with DStore k' => Nat.eqb k' k | _ => false end.

(* number of threads whose pc satisfies g *)
Definition C (g : cpc -> bool) (l : list thr) : nat := cntg (fun th => g (tpc th)) l.

Lemma C_set_nth g t th th' l : nth_error l t = Some th ->
  C g (set_nth t th' l) + b2n (g (tpc th)) = C g l + b2n (g (tpc th')).
Proof. intros H; unfold C; apply (cntg_set_nth (fun th => g (tpc th)) t th' th l H). Qed.

Lemma C_cons g th l : C g (th :: l) = b2n (g (tpc th)) + C g l.
Proof. exact (cntg_cons (fun th => g (tpc th)) th l). Qed.

Lemma C_ge1 g l t th : nth_error l t = Some th -> g (tpc th) = true -> 1 <= C g l.
Proof. intros H Hg; unfold C; eapply (cntg_ge1 (fun th => g (tpc th))); eauto. Qed.

(* suspended frames of f_k in a thread / in all threads *)
Definition fr (k : nat) (th : thr) : nat := cntg (fun f : nat * nat => Nat.eqb (fst f) k) (stack th).
Definition F (k : nat) (l : list thr) : nat := list_sum (map (fr k) l).

Lemma F_set_nth k t th th' l : nth_error l t = Some th ->
  F k (set_nth t th' l) + fr k th = F k l + fr k th'.
Proof. intros H; unfold F; apply (sum_set_nth (fr k) t th' th l H). Qed.

Lemma F_exists k l : 0 < F k l -> exists t th, nth_error l t = Some th /\ 0 < fr k th.
Proof.
  unfold F. induction l as [|a l IH]; simpl; [lia|]. intros H.
  destruct (fr k a) eqn:E.
  - destruct IH as (t & th & Ht & Hf); [lia|]. exists (S t), th; auto.
  - exists 0, a; simpl; split; auto; lia.
Qed.

Lemma fr_goto k th p : fr k (goto th p) = fr k th. Proof. reflexivity. Qed.
Lemma fr_ret k th c v : fr k (ret th c v) = fr k th. Proof. reflexivity. Qed.
Lemma fr_push k th k0 j d : fr k (push th k0 j d) = b2n (Nat.eqb k0 k) + fr k th.
Proof. unfold fr, push; simpl stack. rewrite cntg_cons. reflexivity. Qed.
Lemma fr_stack k th k' j' st : stack th = (k', j') :: st ->
  fr k th = b2n (Nat.eqb k' k) + cntg (fun f : nat * nat => Nat.eqb (fst f) k) st.
Proof. intros H; unfold fr; rewrite H, cntg_cons; reflexivity. Qed.
Lemma fr_nil k th : stack th = [] -> fr k th = 0.
Proof. intros H; unfold fr; rewrite H; reflexivity. Qed.
Lemma fr_dead k th : fr k (dead th) = 0. Proof. reflexivity. Qed.
Lemma orphans_fr k0 th k : orphans k0 (stack th) k = b2n (Nat.eqb k0 k) + fr k th.
Proof. unfold orphans, fr, cntg. destruct (Nat.eqb k0 k); reflexivity. Qed.
Lemma fr_mk k p st r rs ns : fr k (mkThr p st r rs ns) = cntg (fun f : nat * nat => Nat.eqb (fst f) k) st.
Proof. reflexivity. Qed.

Lemma C_sum_le k l : C (is_call k) l + C (is_inf k) l + C (is_wr k) l + C (is_st k) l <= C (holds k) l.
Proof.
  induction l as [|th l IH]; [reflexivity|]. rewrite !C_cons.
  destruct (tpc th); simpl; try lia; destruct (Nat.eqb _ k); simpl; lia.
Qed.

Lemma C_ge2 g l : forall a b tha thb, a <> b -> nth_error l a = Some tha -> nth_error l b = Some thb ->
  g (tpc tha) = true -> g (tpc thb) = true -> 2 <= C g l.
Proof.
  induction l as [|x l IH]; intros [|a] [|b] tha thb Hab Ha Hb Hga Hgb; simpl in *; try congruence; rewrite !C_cons.
  - inversion Ha; subst. pose proof (C_ge1 g l b thb Hb Hgb). rewrite Hga. simpl. lia.
  - inversion Hb; subst. pose proof (C_ge1 g l a tha Ha Hga). rewrite Hgb. simpl. lia.
  - assert (a <> b) by congruence. specialize (IH a b tha thb H Ha Hb Hga Hgb). lia.
Qed.

Lemma start_cur_neutral l :
  forall k, holds k (fst (start l)) = false /\ is_call k (fst (start l)) = false /\ is_inf k (fst (start l)) = false
    /\ is_wr k (fst (start l)) = false /\ is_st k (fst (start l)) = false.
Proof. intros k; destruct l as [|[] r]; simpl; auto. Qed.

Lemma start_st l k : is_st k (fst (start l)) = false.
Proof. destruct l as [|[] r]; reflexivity. Qed.

Lemma isd_done0 e : done e = 0 -> isd e = false.
Proof. intros H; unfold isd; rewrite H, done_zero_is_not_done; reflexivity. Qed.
Lemma isd_donev e : done e = cache_done_value -> isd e = true.
Proof. intros H; unfold isd; rewrite H, done_value_is_done; reflexivity. Qed.

Lemma isd_set_present e : isd (set_present e) = isd e. Proof. reflexivity. Qed.
Lemma isd_set_locked b e : isd (set_locked b e) = isd e. Proof. reflexivity. Qed.
Lemma isd_set_result v e : isd (set_result v e) = isd e. Proof. reflexivity. Qed.
Lemma isd_inc_fbegins e : isd (inc_fbegins e) = isd e. Proof. reflexivity. Qed.
Lemma isd_inc_fends e : isd (inc_fends e) = isd e. Proof. reflexivity. Qed.
Lemma isd_set_done e : isd (set_done cache_done_value e) = true. Proof. apply isd_donev; reflexivity. Qed.
Lemma isd_add_orph n e : isd (add_orph n e) = isd e. Proof. reflexivity. Qed.

Ltac isdsimp := rewrite ?isd_set_present, ?isd_set_locked, ?isd_set_result, ?isd_inc_fbegins, ?isd_inc_fends, ?isd_set_done, ?isd_add_orph in *.

Section Base.
Variable fval : nat -> option nat.
Variable deps : nat -> list nat.
Variable crash : nat -> bool.
Variable progs : list (list call).

Notation cstep := (cstep fval deps crash).
Notation crun := (crun fval deps crash).
Notation init := (cinit progs).

Inductive creachable : cstate -> Prop :=
| creach_init : creachable init
| creach_step s t s' : creachable s -> cstep s t = Some s' -> creachable s'.

(* ---- the step function, case by case *)
Inductive stepC (s : cstate) (t : nat) (th : thr) : cstate -> Prop :=
| S_load_hit k : tpc th = DLoad k -> present (ents s k) = true ->
    stepC s t th (mkC (set_nth t (goto th (DLoad1 k)) (thrs s)) (ents s) (plain s))
| S_load_miss k : tpc th = DLoad k -> present (ents s k) = false ->
    stepC s t th (mkC (set_nth t (goto th (DLoadOrStore k)) (thrs s)) (ents s) (plain s))
| S_los k : tpc th = DLoadOrStore k ->
    stepC s t th (mkC (set_nth t (goto th (DLoad1 k)) (thrs s)) (upd k (set_present (ents s k)) (ents s)) (plain s))
| S_l1_done k : tpc th = DLoad1 k -> isd (ents s k) = true ->
    stepC s t th (mkC (set_nth t (goto th (DRead k)) (thrs s)) (ents s) (plain s))
| S_l1_not k : tpc th = DLoad1 k -> isd (ents s k) = false ->
    stepC s t th (mkC (set_nth t (goto th (DLock k)) (thrs s)) (ents s) (plain s))
| S_lock k : tpc th = DLock k -> locked (ents s k) = false ->
    stepC s t th (mkC (set_nth t (goto th (DLoad2 k)) (thrs s)) (upd k (set_locked true (ents s k)) (ents s)) (plain s))
| S_l2_done k : tpc th = DLoad2 k -> isd (ents s k) = true ->
    stepC s t th (mkC (set_nth t (goto th (DUnlock k)) (thrs s)) (ents s) (plain s))
| S_l2_not k : tpc th = DLoad2 k -> isd (ents s k) = false ->
    stepC s t th (mkC (set_nth t (goto th (DCall k)) (thrs s)) (ents s) (plain s))
| S_call k : tpc th = DCall k ->
    stepC s t th (mkC (set_nth t (goto th (DInF k 0)) (thrs s)) (upd k (inc_fbegins (ents s k)) (ents s)) (plain s))
| S_fret k j : tpc th = DInF k j -> nth_error (deps k) j = None -> crash k = false ->
    stepC s t th (mkC (set_nth t (goto th (DWrite k (fval k))) (thrs s)) (upd k (inc_fends (ents s k)) (ents s)) (plain s))
| S_write k v : tpc th = DWrite k v ->
    stepC s t th (mkC (set_nth t (goto th (DStore k)) (thrs s)) (upd k (set_result v (ents s k)) (ents s))
                      ((t, k, true) :: plain s))
| S_store k : tpc th = DStore k ->
    stepC s t th (mkC (set_nth t (goto th (DUnlock k)) (thrs s)) (upd k (set_done cache_done_value (ents s k)) (ents s)) (plain s))
| S_unlock k : tpc th = DUnlock k ->
    stepC s t th (mkC (set_nth t (goto th (DRead k)) (thrs s)) (upd k (set_locked false (ents s k)) (ents s)) (plain s))
| S_dread k : tpc th = DRead k -> stack th = [] ->
    stepC s t th (mkC (set_nth t (ret th (CDo k) (result (ents s k))) (thrs s)) (ents s) ((t, k, false) :: plain s))
| S_gload_hit k : tpc th = GLoad k -> present (ents s k) = true ->
    stepC s t th (mkC (set_nth t (goto th (GLoad1 k)) (thrs s)) (ents s) (plain s))
| S_gload_miss k : tpc th = GLoad k -> present (ents s k) = false ->
    stepC s t th (mkC (set_nth t (ret th (CGet k) None) (thrs s)) (ents s) (plain s))
| S_gl1_done k : tpc th = GLoad1 k -> isd (ents s k) = true ->
    stepC s t th (mkC (set_nth t (goto th (GRead k)) (thrs s)) (ents s) (plain s))
| S_gl1_not k : tpc th = GLoad1 k -> isd (ents s k) = false ->
    stepC s t th (mkC (set_nth t (ret th (CGet k) None) (thrs s)) (ents s) (plain s))
| S_gread k : tpc th = GRead k ->
    stepC s t th (mkC (set_nth t (ret th (CGet k) (result (ents s k))) (thrs s)) (ents s) ((t, k, false) :: plain s))
| S_nest k j d : tpc th = DInF k j -> nth_error (deps k) j = Some d ->
    stepC s t th (mkC (set_nth t (push th k (S j) d) (thrs s)) (ents s) (plain s))
| S_nret k k' j' st : tpc th = DRead k -> stack th = (k', j') :: st ->
    stepC s t th (mkC (set_nth t (mkThr (DInF k' j') st (rest th) (rets th) ((k, result (ents s k)) :: nrets th)) (thrs s))
                      (ents s) ((t, k, false) :: plain s))
| S_crash k j : tpc th = DInF k j -> nth_error (deps k) j = None -> crash k = true ->
    stepC s t th (mkC (set_nth t (dead th) (thrs s)) (fun k' => add_orph (orphans k (stack th) k') (ents s k')) (plain s)).

Lemma cstep_inv s t s' : cstep s t = Some s' -> exists th, nth_error (thrs s) t = Some th /\ stepC s t th s'.
Proof.
  unfold ParCache.cstep. destruct (nth_error (thrs s) t) as [th|] eqn:Hn; [|discriminate].
  intros H. exists th. split; auto.
  destruct (tpc th) eqn:Hp; try discriminate.
  - destruct (present (ents s k)) eqn:E; injection H as <-; [eapply S_load_hit|eapply S_load_miss]; eauto.
  - injection H as <-. eapply S_los; eauto.
  - destruct (isd (ents s k)) eqn:E; injection H as <-; [eapply S_l1_done|eapply S_l1_not]; eauto.
  - destruct (locked (ents s k)) eqn:E; [discriminate|]. injection H as <-. eapply S_lock; eauto.
  - destruct (isd (ents s k)) eqn:E; injection H as <-; [eapply S_l2_done|eapply S_l2_not]; eauto.
  - injection H as <-. eapply S_call; eauto.
  - destruct (nth_error (deps k) j) as [d|] eqn:E; [injection H as <-; eapply S_nest; eauto|].
    destruct (crash k) eqn:Ec; injection H as <-; [eapply S_crash|eapply S_fret]; eauto.
  - injection H as <-. eapply S_write; eauto.
  - injection H as <-. eapply S_store; eauto.
  - injection H as <-. eapply S_unlock; eauto.
  - unfold do_return in H. destruct (stack th) as [|[k' j'] st] eqn:E; injection H as <-; [eapply S_dread|eapply S_nret]; eauto.
  - destruct (present (ents s k)) eqn:E; injection H as <-; [eapply S_gload_hit|eapply S_gload_miss]; eauto.
  - destruct (isd (ents s k)) eqn:E; injection H as <-; [eapply S_gl1_done|eapply S_gl1_not]; eauto.
  - injection H as <-. eapply S_gread; eauto.
Qed.

(* ---- group A: counting invariant around the mutex and the done flag *)
Record InvA (s : cstate) : Prop := {
  a_lock : forall k, C (holds k) (thrs s) + F k (thrs s) + orph (ents s k) = b2n (locked (ents s k));
  a_done : forall k, done (ents s k) = 0 \/ done (ents s k) = cache_done_value;
  a_nof : forall k, isd (ents s k) = true ->
            C (is_call k) (thrs s) + C (is_inf k) (thrs s) + F k (thrs s) + C (is_wr k) (thrs s) + C (is_st k) (thrs s) + orph (ents s k) = 0;
  a_fb : forall k, fbegins (ents s k) = C (is_inf k) (thrs s) + F k (thrs s) + C (is_wr k) (thrs s) + C (is_st k) (thrs s) + b2n (isd (ents s k)) + orph (ents s k);
  a_fe : forall k, fends (ents s k) = C (is_wr k) (thrs s) + C (is_st k) (thrs s) + b2n (isd (ents s k))
}.

Lemma C_init g : (forall l, g (fst (start l)) = false) -> C g (thrs init) = 0.
Proof.
  intros H. unfold cinit; simpl. induction progs as [|p l IH]; [reflexivity|].
  simpl map. rewrite C_cons. simpl. rewrite H. simpl. exact IH.
Qed.

Lemma F_init k : F k (thrs init) = 0.
Proof. unfold cinit, F; cbn [thrs]. induction progs as [|p l IH]; [reflexivity|]. simpl. exact IH. Qed.

Lemma init_InvA : InvA init.
Proof.
  constructor; intros k; rewrite ?F_init; simpl; rewrite ?C_init; auto; try (intros l; apply (start_cur_neutral l k)).
Qed.

Ltac cfacts k t th' Hn :=
  pose proof (C_set_nth (holds k) t _ th' _ Hn);
  pose proof (C_set_nth (is_call k) t _ th' _ Hn);
  pose proof (C_set_nth (is_inf k) t _ th' _ Hn);
  pose proof (C_set_nth (is_wr k) t _ th' _ Hn);
  pose proof (C_set_nth (is_st k) t _ th' _ Hn);
  pose proof (F_set_nth k t _ th' _ Hn).

Ltac csimp :=
  rewrite ?fr_goto, ?fr_ret, ?fr_push, ?fr_mk, ?fr_dead, ?orphans_fr in *;
  cbn [tpc goto ret push dead thrs ents plain holds is_call is_inf is_wr is_st b2n
       present done locked result fbegins fends orph set_present set_done set_locked set_result inc_fbegins inc_fends add_orph] in *.

(* the tactic that closes the per-key goals of the counting invariant *)
Ltac key_case k0 k :=
  unfold upd; destruct (Nat.eqb_spec k0 k) as [->|Hne]; csimp;
  rewrite ?Nat.eqb_refl in *; csimp; isdsimp; csimp.

Lemma step_InvA s t th s' : InvA s -> nth_error (thrs s) t = Some th -> stepC s t th s' -> InvA s'.
Proof.
  intros [Hl Hd Hn Hfb Hfe] Hnth HS.
  destruct HS as [k0 Hp E|k0 Hp E|k0 Hp|k0 Hp E|k0 Hp E|k0 Hp E|k0 Hp E|k0 Hp E|k0 Hp|k0 j0 Hp E Ec|k0 v Hp|k0 Hp|k0 Hp|k0 Hp E0
                 |k0 Hp E|k0 Hp E|k0 Hp E|k0 Hp E|k0 Hp|k0 j0 d0 Hp E|k0 k1 j1 st1 Hp E|k0 j0 Hp E Ec];
    try (pose proof (fun k => fr_stack k th _ _ _ E) as Hfr);
    constructor; intros k; try specialize (Hfr k);
    match goal with |- context [set_nth t ?th' _] => cfacts k t th' Hnth end;
    pose proof (C_sum_le k (thrs s)) as Hsum;
    specialize (Hl k); specialize (Hd k); specialize (Hn k); specialize (Hfb k); specialize (Hfe k);
    pose proof (start_cur_neutral (rest th) k) as (Hs1 & Hs2 & Hs3 & Hs4 & Hs5);
    rewrite Hp in *; csimp; rewrite ?Hs1, ?Hs2, ?Hs3, ?Hs4, ?Hs5 in *; csimp;
    try (key_case k0 k;
         try match goal with |- _ \/ _ => solve [auto] end;
         try (intros Hisd; try rewrite Hisd in *);
         try (destruct (isd (ents s k)) eqn:Ei; csimp; try discriminate);
         try (destruct (locked (ents s k)) eqn:El; csimp; try discriminate);
         try specialize (Hn eq_refl);
         try lia; try (destruct (Nat.eqb k0 k); csimp; lia)).
Qed.

End Base.

(* List lemmas shared by the par.Work and par.Cache proofs: positional update, counting,
   sums, swap-remove. *)
From Coq Require Import List Arith Bool Lia Permutation.
From GI Require Import Par.ParWork.
Import ListNotations.

Definition b2n (b : bool) : nat := if b then 1 else 0.

(* ---- set_nth *)
Lemma set_nth_length {A} k (x : A) l : length (set_nth k x l) = length l.
Proof. revert k; induction l as [|a l IH]; intros [|k]; simpl; auto. Qed.

Lemma nth_error_set_nth_eq {A} k (x : A) l : k < length l -> nth_error (set_nth k x l) k = Some x.
Proof.
  revert k; induction l as [|a l IH]; intros [|k] H; simpl in *; try lia; auto.
  apply IH; lia.
Qed.

Lemma nth_error_set_nth_neq {A} k k' (x : A) l : k <> k' -> nth_error (set_nth k x l) k' = nth_error l k'.
Proof.
  revert k k'; induction l as [|a l IH]; intros [|k] [|k'] H; simpl; auto; try congruence.
Qed.

Lemma nth_error_lt {A} (l : list A) k a : nth_error l k = Some a -> k < length l.
Proof. intros H; apply nth_error_Some; congruence. Qed.

Lemma set_nth_same {A} k (a : A) l : nth_error l k = Some a -> set_nth k a l = l.
Proof.
  revert k; induction l as [|b l IH]; intros [|k] H; simpl in *; try congruence.
  f_equal; auto.
Qed.

Lemma map_set_nth {A B} (f : A -> B) k x l : map f (set_nth k x l) = set_nth k (f x) (map f l).
Proof. revert k; induction l as [|a l IH]; intros [|k]; simpl; auto. f_equal; auto. Qed.

Lemma Forall_set_nth {A} (P : A -> Prop) k x l : Forall P l -> P x -> Forall P (set_nth k x l).
Proof.
  intros H Hx; revert k; induction H as [|a l Ha Hl IH]; intros [|k]; simpl; auto.
Qed.

Lemma Forall_nth_error {A} (P : A -> Prop) l k a : Forall P l -> nth_error l k = Some a -> P a.
Proof. intros H Hn; rewrite Forall_forall in H; apply H; eapply nth_error_In; eauto. Qed.

(* ---- generic counting and summing over a list with one position updated *)
Definition cntg {A} (f : A -> bool) (l : list A) : nat := length (filter f l).

Lemma cntg_cons {A} (f : A -> bool) a l : cntg f (a :: l) = b2n (f a) + cntg f l.
Proof. unfold cntg; simpl; destruct (f a); reflexivity. Qed.

Lemma cntg_set_nth {A} (f : A -> bool) k x a l :
  nth_error l k = Some a -> cntg f (set_nth k x l) + b2n (f a) = cntg f l + b2n (f x).
Proof.
  revert k; induction l as [|b l IH]; intros [|k] H; simpl in *; try congruence.
  - inversion H; subst; rewrite !cntg_cons; lia.
  - rewrite !cntg_cons; specialize (IH _ H); lia.
Qed.

Lemma cntg_le_length {A} (f : A -> bool) l : cntg f l <= length l.
Proof. induction l as [|a l IH]; [auto|rewrite cntg_cons; simpl; destruct (f a); simpl; lia]. Qed.

Lemma cntg_exists {A} (f : A -> bool) l : 0 < cntg f l -> exists t a, nth_error l t = Some a /\ f a = true.
Proof.
  induction l as [|b l IH]; [unfold cntg; simpl; lia|].
  rewrite cntg_cons; destruct (f b) eqn:E; simpl; intros H.
  - exists 0, b; auto.
  - destruct (IH H) as (t & a & Ht & Ha); exists (S t), a; auto.
Qed.

Lemma cntg_lt_exists {A} (f : A -> bool) l : cntg f l < length l -> exists t a, nth_error l t = Some a /\ f a = false.
Proof.
  induction l as [|b l IH]; [simpl; lia|].
  rewrite cntg_cons; destruct (f b) eqn:E; simpl; intros H.
  - destruct IH as (t & a & Ht & Ha); [lia|]; exists (S t), a; auto.
  - exists 0, b; auto.
Qed.

Lemma cntg_zero {A} (f : A -> bool) l t a : cntg f l = 0 -> nth_error l t = Some a -> f a = false.
Proof.
  revert t; induction l as [|b l IH]; intros [|t]; simpl; try congruence; rewrite cntg_cons; intros H Hn.
  - inversion Hn; subst; destruct (f a); simpl in *; auto; lia.
  - apply (IH t); auto; lia.
Qed.

Lemma cntg_ge1 {A} (f : A -> bool) l t a : nth_error l t = Some a -> f a = true -> 1 <= cntg f l.
Proof.
  intros Hn Ha; destruct (cntg f l) eqn:E; [|lia].
  rewrite (cntg_zero f l t a E Hn) in Ha; discriminate.
Qed.

Lemma cntg_lt_length {A} (f : A -> bool) l t a : nth_error l t = Some a -> f a = false -> cntg f l < length l.
Proof.
  revert t; induction l as [|b l IH]; intros [|t]; simpl; try congruence; rewrite cntg_cons; intros Hn Ha.
  - inversion Hn; subst; rewrite Ha; simpl; pose proof (cntg_le_length f l); lia.
  - specialize (IH _ Hn Ha); destruct (f b); simpl; lia.
Qed.

Lemma cntg_ext {A} (f g : A -> bool) l : (forall a, f a = g a) -> cntg f l = cntg g l.
Proof. intros H; induction l as [|a l IH]; auto; rewrite !cntg_cons, H, IH; auto. Qed.

Lemma cntg_le {A} (f g : A -> bool) l : (forall a, f a = true -> g a = true) -> cntg f l <= cntg g l.
Proof.
  intros H; induction l as [|a l IH]; auto; rewrite !cntg_cons.
  specialize (H a); destruct (f a) eqn:Ef, (g a) eqn:Eg; simpl; try lia.
Qed.

Lemma cntg_repeat {A} (f : A -> bool) a k : cntg f (repeat a k) = k * b2n (f a).
Proof. induction k; simpl; auto. rewrite cntg_cons, IHk; lia. Qed.

Lemma sum_set_nth {A} (g : A -> nat) k x a l :
  nth_error l k = Some a -> list_sum (map g (set_nth k x l)) + g a = list_sum (map g l) + g x.
Proof.
  revert k; induction l as [|b l IH]; intros [|k] H; simpl in *; try congruence.
  - inversion H; subst; lia.
  - specialize (IH _ H); lia.
Qed.

Lemma list_sum_perm l l' : Permutation l l' -> list_sum l = list_sum l'.
Proof. induction 1; simpl; lia. Qed.

(* ---- occurrences *)
Definition occn (i : nat) (l : list nat) : nat := count_occ Nat.eq_dec l i.

Lemma occn_cons i x l : occn i (x :: l) = b2n (Nat.eqb x i) + occn i l.
Proof.
  unfold occn; simpl; destruct (Nat.eq_dec x i) as [e|e], (Nat.eqb_spec x i); simpl; try congruence; lia.
Qed.
Lemma occn_nil i : occn i [] = 0. Proof. reflexivity. Qed.
Lemma occn_app i l l' : occn i (l ++ l') = occn i l + occn i l'.
Proof. apply count_occ_app. Qed.
Lemma occn_In i l : In i l <-> 0 < occn i l.
Proof. unfold occn; rewrite (count_occ_In Nat.eq_dec); lia. Qed.
Lemma occn_perm i l l' : Permutation l l' -> occn i l = occn i l'.
Proof. induction 1; rewrite ?occn_cons; lia. Qed.
Lemma occn_NoDup l : (forall i, occn i l <= 1) -> NoDup l.
Proof. intros H; apply (NoDup_count_occ Nat.eq_dec); exact H. Qed.

Lemma mem_In x l : mem x l = true <-> In x l.
Proof.
  unfold mem; rewrite existsb_exists; split.
  - intros (y & Hy & E); apply Nat.eqb_eq in E; subst; auto.
  - intros H; exists x; split; auto; apply Nat.eqb_refl.
Qed.
Lemma mem_false x l : mem x l = false <-> ~ In x l.
Proof. rewrite <- mem_In; destruct (mem x l); split; congruence. Qed.

(* ---- swap-remove *)
Lemma perm_set_nth {A} k (x d : A) l : k < length l -> Permutation (x :: l) (nth k l d :: set_nth k x l).
Proof.
  revert k; induction l as [|a l IH]; intros [|k] H; simpl in *; try lia.
  - apply perm_swap.
  - eapply perm_trans; [apply perm_swap|].
    eapply perm_trans; [apply perm_skip, (IH k); lia|apply perm_swap].
Qed.

Lemma last_set_nth_last {A} k (d : A) l : last (set_nth k (last l d) l) d = last l d.
Proof.
  revert k; induction l as [|a l IH]; intros k; [reflexivity|].
  destruct l as [|b r].
  - destruct k; reflexivity.
  - destruct k as [|k].
    + reflexivity.
    + change (last (a :: b :: r) d) with (last (b :: r) d).
      change (set_nth (S k) (last (b :: r) d) (a :: b :: r)) with (a :: set_nth k (last (b :: r) d) (b :: r)).
      specialize (IH k).
      destruct (set_nth k (last (b :: r) d) (b :: r)) eqn:E.
      * apply (f_equal (@length A)) in E; rewrite set_nth_length in E; simpl in E; lia.
      * exact IH.
Qed.

Lemma swap_remove_perm k l : k < length l -> Permutation l (nth k l 0 :: swap_remove k l).
Proof.
  intros H; unfold swap_remove.
  set (x := last l 0); set (l' := set_nth k x l).
  assert (Hne : l' <> []).
  { intros E; apply (f_equal (@length nat)) in E; unfold l' in E; rewrite set_nth_length in E; simpl in E; lia. }
  pose proof (app_removelast_last 0 Hne) as E.
  assert (Hl : last l' 0 = x) by apply last_set_nth_last.
  rewrite Hl in E.
  apply (Permutation_cons_inv (a := x)).
  eapply perm_trans; [apply (perm_set_nth k x 0 l H)|].
  fold l'. rewrite E at 1.
  eapply perm_trans; [apply perm_skip; symmetry; apply Permutation_cons_append|apply perm_swap].
Qed.

Lemma swap_remove_length k l : l <> [] -> S (length (swap_remove k l)) = length l.
Proof.
  intros H; unfold swap_remove.
  assert (Hne : set_nth k (last l 0) l <> []).
  { intros E; apply (f_equal (@length nat)) in E; rewrite set_nth_length in E; destruct l; simpl in *; congruence. }
  pose proof (app_removelast_last 0 Hne) as E.
  apply (f_equal (@length nat)) in E; rewrite app_length in E; simpl in E.
  rewrite set_nth_length in E at 1. lia.
Qed.

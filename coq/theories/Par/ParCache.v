(* Executable model of par.Cache (/repo/par/work.go: Cache.Do, Cache.Get).  Definitions only.

   Goroutines run programs (lists of Do(k, f_k) / Get(k) calls).  Every synchronisation
   operation of the Go code is ONE step of the calling thread:

     Do(k):  DLoad         c.m.Load(key)
             DLoadOrStore  c.m.LoadOrStore(key, new(cacheEntry))       (only after a miss)
             DLoad1        atomic.LoadUint32(&e.done) == 0 ?           (outside the lock)
             DLock         e.mu.Lock()                                 (blocks while held)
             DLoad2        atomic.LoadUint32(&e.done) == 0 ?           (under the lock)
             DCall         f() is called            DInF   f() returns its value
             DWrite        e.result = v             (PLAIN write)
             DStore        atomic.StoreUint32(&e.done, 1)
             DUnlock       e.mu.Unlock()
             DRead         return e.result          (PLAIN read)
     Get(k): GLoad         c.m.Load(key)  (miss: return nil)
             GLoad1        atomic.LoadUint32(&e.done) == 0 ? return nil
             GRead         return e.result          (PLAIN read)

   sync.Map operations, atomics and the mutex are sequentially consistent (Go memory
   model); the two plain accesses are additionally recorded in [plain] (newest first) for
   the race-freedom statement.  The value stored by StoreUint32 and the constant e.done is
   compared with come from Gen.ParConsts (regenerated from the source).  The user function
   is data ([fval k] = None models an f that returns nil): f_k() calls Do(d, f_d) for every d in [deps k], in order (nested Do on OTHER
   keys, as goproxytest's zipCache -> archiveCache does; different Cache objects are just
   disjoint key sets), then returns [fval k]; calling it, each nested call and its return are
   separate steps, so other threads interleave with a running f.  A thread therefore has a
   stack of suspended frames (k, j): f_k waiting for its j-th nested Do to return, e.mu of k
   held.  An invocation of f need not return: [crash k] = true models an f_k that, after its nested calls, PANICS or
   calls runtime.Goexit instead of returning.  Do has no deferred Unlock, so the panic (recovered by whoever started
   the goroutine, at the very bottom) or the Goexit unwinds through Do with e.mu of k -- and of every suspended
   frame of the thread -- still held and e.done still 0: the goroutine is gone (its program is abandoned), the
   entries stay locked for ever.  The ghost field [orph] counts these orphaned lock holders per entry.
   Ghost fields: [fbegins]/[fends] per entry, [rets] per thread (values returned by
   the finished top-level calls, newest first), [nrets] (the same for nested calls). *)
From Coq Require Import List Arith Bool.
From GI Require Import Gen.ParConsts Par.ParWork.
Import ListNotations.

Notation key := nat (only parsing).
Notation value := nat (only parsing).

Inductive call := CDo (k : key) | CGet (k : key).

Inductive cpc :=
| Idle
| DLoad (k : key) | DLoadOrStore (k : key) | DLoad1 (k : key) | DLock (k : key) | DLoad2 (k : key)
| DCall (k : key) | DInF (k : key) (j : nat) | DWrite (k : key) (v : option value) | DStore (k : key)
| DUnlock (k : key) | DRead (k : key)
| GLoad (k : key) | GLoad1 (k : key) | GRead (k : key).

Record entry := mkEntry {
  present : bool;          (* key is in c.m *)
  done : nat;              (* e.done *)
  locked : bool;           (* e.mu *)
  result : option value;   (* e.result; None = nil *)
  fbegins : nat;           (* ghost: calls of f_k so far *)
  fends : nat;             (* ghost: returns of f_k so far *)
  orph : nat               (* ghost: invocations of f_k that ended WITHOUT returning while e.mu was held by their thread *)
}.
Definition entry0 : entry := mkEntry false 0 false None 0 0 0.

Record thr := mkThr {
  tpc : cpc;
  stack : list (key * nat);              (* suspended calls of f: (k, index of the next nested Do) *)
  rest : list call;
  rets : list (call * option value);
  nrets : list (key * option value)      (* ghost: results of the nested Do calls *)
}.

Record cstate := mkC {
  thrs : list thr;
  ents : key -> entry;
  plain : list (thread * key * bool)   (* plain accesses to e.result: (thread, key, is-write) *)
}.

Definition upd (k : key) (e : entry) (m : key -> entry) : key -> entry :=
  fun k' => if Nat.eqb k k' then e else m k'.

(* atomic.LoadUint32(&e.done) == cache_done_test is false, i.e. "already computed" *)
Definition isd (e : entry) : bool := negb (Nat.eqb (done e) cache_done_test).

Definition set_present (e : entry) := mkEntry true (done e) (locked e) (result e) (fbegins e) (fends e) (orph e).
Definition set_done (d : nat) (e : entry) := mkEntry (present e) d (locked e) (result e) (fbegins e) (fends e) (orph e).
Definition set_locked (b : bool) (e : entry) := mkEntry (present e) (done e) b (result e) (fbegins e) (fends e) (orph e).
Definition set_result (v : option value) (e : entry) := mkEntry (present e) (done e) (locked e) v (fbegins e) (fends e) (orph e).
Definition inc_fbegins (e : entry) := mkEntry (present e) (done e) (locked e) (result e) (S (fbegins e)) (fends e) (orph e).
Definition inc_fends (e : entry) := mkEntry (present e) (done e) (locked e) (result e) (fbegins e) (S (fends e)) (orph e).
Definition add_orph (n : nat) (e : entry) := mkEntry (present e) (done e) (locked e) (result e) (fbegins e) (fends e) (n + orph e).

(* the mutexes a thread holds when f_k0 fails at the top of the stack [st] of suspended frames: that of k0 and
   those of the frames; [orphans k0 st k] is how many of them are e.mu of k (0 or 1 in reachable states) *)
Definition orphans (k0 : key) (st : list (key * nat)) (k : key) : nat :=
  (if Nat.eqb k0 k then 1 else 0) + length (filter (fun f : key * nat => Nat.eqb (fst f) k) st).


(* the first pc of the next call of a program *)
Definition start (l : list call) : cpc * list call :=
  match l with
  | [] => (Idle, [])
  | CDo k :: r => (DLoad k, r)
  | CGet k :: r => (GLoad k, r)
  end.

(* the current call returns v *)
Definition ret (th : thr) (c : call) (v : option value) : thr :=
  mkThr (fst (start (rest th))) (stack th) (snd (start (rest th))) ((c, v) :: rets th) (nrets th).

(* the goroutine is gone: nothing left to run; what it returned so far stays on record *)
Definition dead (th : thr) : thr := mkThr Idle [] [] (rets th) (nrets th).

Definition goto (th : thr) (p : cpc) : thr := mkThr p (stack th) (rest th) (rets th) (nrets th).

(* f_k starts its nested Do(d): the frame (k, j') is suspended *)
Definition push (th : thr) (k : key) (j' : nat) (d : key) : thr :=
  mkThr (DLoad d) ((k, j') :: stack th) (rest th) (rets th) (nrets th).

(* Do(k) returns v: to the suspended f if there is one, else to the program *)
Definition do_return (th : thr) (k : key) (v : option value) : thr :=
  match stack th with
  | [] => ret th (CDo k) v
  | (k', j') :: st => mkThr (DInF k' j') st (rest th) (rets th) ((k, v) :: nrets th)
  end.

Section Cache.
Variable fval : key -> option value. (* what f_k() returns; None = the nil interface value *)
Variable deps : key -> list key.    (* the keys f_k() calls Do on, in order, before returning *)
Variable crash : key -> bool.       (* f_k() does not return: it panics / calls runtime.Goexit after its nested calls *)

(* one step of thread t; None = t has no step (not a thread, finished, or blocked in Lock) *)
Definition cstep (s : cstate) (t : thread) : option cstate :=
  match nth_error (thrs s) t with
  | None => None
  | Some th =>
      let e := ents s in
      let pcto p := Some (mkC (set_nth t (goto th p) (thrs s)) e (plain s)) in
      match tpc th with
      | Idle => None
      | DLoad k => pcto (if present (e k) then DLoad1 k else DLoadOrStore k)
      | DLoadOrStore k =>
          Some (mkC (set_nth t (goto th (DLoad1 k)) (thrs s)) (upd k (set_present (e k)) e) (plain s))
      | DLoad1 k => pcto (if isd (e k) then DRead k else DLock k)
      | DLock k =>
          if locked (e k) then None
          else Some (mkC (set_nth t (goto th (DLoad2 k)) (thrs s)) (upd k (set_locked true (e k)) e) (plain s))
      | DLoad2 k => pcto (if isd (e k) then DUnlock k else DCall k)
      | DCall k =>
          Some (mkC (set_nth t (goto th (DInF k 0)) (thrs s)) (upd k (inc_fbegins (e k)) e) (plain s))
      | DInF k j =>
          match nth_error (deps k) j with
          | Some d => Some (mkC (set_nth t (push th k (S j) d) (thrs s)) e (plain s))
          | None =>
              if crash k
              then Some (mkC (set_nth t (dead th) (thrs s)) (fun k' => add_orph (orphans k (stack th) k') (e k')) (plain s))
              else Some (mkC (set_nth t (goto th (DWrite k (fval k))) (thrs s)) (upd k (inc_fends (e k)) e) (plain s))
          end
      | DWrite k v =>
          Some (mkC (set_nth t (goto th (DStore k)) (thrs s)) (upd k (set_result v (e k)) e)
                    ((t, k, true) :: plain s))
      | DStore k =>
          Some (mkC (set_nth t (goto th (DUnlock k)) (thrs s)) (upd k (set_done cache_done_value (e k)) e) (plain s))
      | DUnlock k =>
          Some (mkC (set_nth t (goto th (DRead k)) (thrs s)) (upd k (set_locked false (e k)) e) (plain s))
      | DRead k =>
          Some (mkC (set_nth t (do_return th k (result (e k))) (thrs s)) e ((t, k, false) :: plain s))
      | GLoad k =>
          if present (e k) then pcto (GLoad1 k)
          else Some (mkC (set_nth t (ret th (CGet k) None) (thrs s)) e (plain s))
      | GLoad1 k =>
          if isd (e k) then pcto (GRead k)
          else Some (mkC (set_nth t (ret th (CGet k) None) (thrs s)) e (plain s))
      | GRead k =>
          Some (mkC (set_nth t (ret th (CGet k) (result (e k))) (thrs s)) e ((t, k, false) :: plain s))
      end
  end.

Definition cinit (progs : list (list call)) : cstate :=
  mkC (map (fun p => mkThr (fst (start p)) [] (snd (start p)) [] []) progs) (fun _ => entry0) [].

Fixpoint crun (sch : list thread) (s : cstate) : option cstate :=
  match sch with
  | [] => Some s
  | t :: r => match cstep s t with Some s' => crun r s' | None => None end
  end.

Definition cenabled (s : cstate) (t : thread) : bool :=
  match cstep s t with Some _ => true | None => false end.

Definition is_idle (th : thr) : bool := match tpc th with Idle => true | _ => false end.
Definition all_idle (s : cstate) : bool := forallb is_idle (thrs s).

(* steps the code performs without any synchronisation operation in between (the two plain
   accesses): the scheduler shim cannot stop a goroutine there, so when a schedule observed
   on the real code is replayed the model driver lets the thread run through them *)
Definition invisible (p : cpc) : bool :=
  match p with DWrite _ _ | DRead _ | GRead _ => true | _ => false end.

(* ---- termination measure: remaining operations of every thread.  [kc k] is (an upper bound of)
   the number of steps of one Do(k) including the nested calls; it exists when [deps] is acyclic
   (ParCacheProofs.cost) *)
Variable kc : key -> nat.
Definition nested (k : key) (j : nat) : nat :=
  list_sum (map (fun d => S (kc d)) (skipn j (deps k))).
Definition rank (p : cpc) : nat :=
  match p with
  | Idle => 0
  | DLoad k => 12 + nested k 0 | DLoadOrStore k => 11 + nested k 0 | DLoad1 k => 10 + nested k 0
  | DLock k => 9 + nested k 0 | DLoad2 k => 8 + nested k 0 | DCall k => 7 + nested k 0
  | DInF k j => 6 + nested k j
  | DWrite _ _ => 5 | DStore _ => 4 | DUnlock _ => 3 | DRead _ => 2
  | GLoad _ => 4 | GLoad1 _ => 3 | GRead _ => 2
  end.
Definition call_cost (c : call) : nat := match c with CDo k => kc k | CGet _ => 5 end.
Definition frame_cost (f : key * nat) : nat := 6 + nested (fst f) (snd f).
Definition tweight (th : thr) : nat :=
  rank (tpc th) + list_sum (map frame_cost (stack th)) + list_sum (map call_cost (rest th)).
Definition psi (s : cstate) : nat := list_sum (map tweight (thrs s)).
End Cache.

(* classification of program counters by key, used in the statements *)
Definition holds (k : key) (p : cpc) : bool :=
  match p with
  | DLoad2 k' | DCall k' | DInF k' _ | DWrite k' _ | DStore k' | DUnlock k' => Nat.eqb k' k
  | _ => false
  end.
Definition plain_write (k : key) (p : cpc) : bool :=
  match p with DWrite k' _ => Nat.eqb k' k | _ => false end.
Definition plain_read (k : key) (p : cpc) : bool :=
  match p with DRead k' | GRead k' => Nat.eqb k' k | _ => false end.
Definition in_get (p : cpc) : bool :=
  match p with GLoad _ | GLoad1 _ | GRead _ => true | _ => false end.

(* well-formed history of plain accesses (newest first): a write is the first access to its
   key; a read has an earlier write to its key *)
Fixpoint wf_plain (l : list (thread * key * bool)) : Prop :=
  match l with
  | [] => True
  | (t, k, true) :: r => (forall t' w', ~ In (t', k, w') r) /\ wf_plain r
  | (t, k, false) :: r => (exists t', In (t', k, true) r) /\ wf_plain r
  end.

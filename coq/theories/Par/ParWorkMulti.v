(* Several par.Work objects in one program.  Definitions only (proofs: ParWorkMultiProofs.v).

   ParWork.v models ONE Work value.  /repo/par/work.go declares no package-level variable that Work's
   methods touch (Shapes/ParWork.v fingerprints the package-level declarations of the file), so the state of
   a program that uses several Work values is the tuple of their states and a step of the program is a step
   of one of them.  Two compositions are modelled:

   1. a WORLD: a list of Work objects, each with its own configuration (n, children, initial Adds), used in
      any order and at the same time -- one after the other, filled before any of them runs, run
      concurrently: all of these are interleavings of the steps of the objects.  A label names the object
      and the step (thread, choice) it takes.

   2. NESTING: the user function of an outer Work runs a fresh inner Work: f(i) = Add each child of i, then
      `var w Work; w.Add(initial items of inner i)...; w.Do(n_i, g)`, then return.  The inner Do is called by
      the outer runner thread itself (it is thread 0 of the inner Work), so f(i) can return only when
      thread 0 of the inner Work has returned; until then the outer thread takes no outer step.  The inner
      user function g is the data-only one of ParWork.v (Add each child, return).

      Outer thread t at [Run i j] with j past the last child of i is AT ITS INNER CALL:
        - the inner Work of i does not exist yet: the step creates it (Do's prologue: n_i runners at the
          loop head, the initial Adds done);
        - it exists and its thread 0 is Done: the step is the outer model's `f(i) returns';
        - it exists and its thread 0 is not Done: the outer thread has no outer step (it is busy, or
          asleep, inside the inner Do);
      every other outer step is the step of ParWork.v; a step of the inner Work of i is a step of ParWork.v
      on that object and exists only once the object exists. *)
From Coq Require Import List Arith Bool.
From GI Require Import Gen.ParConsts Par.ParWork.
Import ListNotations.

(* one Work object's configuration; wU is a finite universe containing its items (used by the potential) *)
Record wcfg := mkCfg {
  wn : nat;
  wchildren : item -> list item;
  winits : list item;
  wU : list item
}.

Definition cfg_init (cf : wcfg) : state := init_state (wn cf) (winits cf).
Definition cfg_step (cf : wcfg) (s : state) (tc : thread * nat) : option state := step (wn cf) (wchildren cf) s tc.
Definition cfg_phi (cf : wcfg) (s : state) : nat := phi (wn cf) (wchildren cf) (wU cf) s.

(* ---------------------------------------------------------------- 1. a world of Work objects *)
Definition world := list state.

Definition winit (cfgs : list wcfg) : world := map cfg_init cfgs.

(* label (k, (t, c)): object k takes its step (t, c) *)
Definition wstep (cfgs : list wcfg) (ws : world) (l : nat * (thread * nat)) : option world :=
  let (k, tc) := l in
  match nth_error cfgs k, nth_error ws k with
  | Some cf, Some s =>
      match cfg_step cf s tc with
      | Some s' => Some (set_nth k s' ws)
      | None => None
      end
  | _, _ => None
  end.

Fixpoint wrun (cfgs : list wcfg) (sch : list (nat * (thread * nat))) (ws : world) : option world :=
  match sch with
  | [] => Some ws
  | l :: r => match wstep cfgs ws l with Some ws' => wrun cfgs r ws' | None => None end
  end.

Definition wall_done (ws : world) : bool := forallb all_done ws.

Fixpoint wphi (cfgs : list wcfg) (ws : world) : nat :=
  match cfgs, ws with
  | cf :: cr, s :: sr => cfg_phi cf s + wphi cr sr
  | _, _ => 0
  end.

(* ---------------------------------------------------------------- 2. nesting *)
Section Nested.
Variable n : nat.                       (* outer.Do(n, f) *)
Variable children : item -> list item.  (* the Adds of f(i) on the OUTER Work *)
Variable inner : item -> wcfg.          (* the fresh Work f(i) runs after its Adds *)

Record nstate := mkN {
  outer : state;
  inn : item -> option state   (* the inner Work of outer item i, once f(i) has called its Do *)
}.

Inductive nlabel :=
| LOuter (t : thread) (c : nat)
| LInner (i : item) (t : thread) (c : nat).

Definition upd (f : item -> option state) (i : item) (s : state) : item -> option state :=
  fun x => if Nat.eqb x i then Some s else f x.

(* the outer thread t has done all the Adds of its call of f and is at / inside the inner Do *)
Definition at_inner_call (s : state) (t : thread) : option item :=
  match nth_error (pcs s) t with
  | Some (Run i j) => match nth_error (children i) j with None => Some i | Some _ => None end
  | _ => None
  end.

Definition lift_outer (ns : nstate) (o : option state) : option nstate :=
  match o with Some s' => Some (mkN s' (inn ns)) | None => None end.

Definition nstep (ns : nstate) (l : nlabel) : option nstate :=
  match l with
  | LOuter t c =>
      match at_inner_call (outer ns) t with
      | Some i =>
          match inn ns i with
          | None => Some (mkN (outer ns) (upd (inn ns) i (cfg_init (inner i))))
          | Some si =>
              match nth_error (pcs si) 0 with
              | Some Done => lift_outer ns (step n children (outer ns) (t, c))
              | _ => None
              end
          end
      | None => lift_outer ns (step n children (outer ns) (t, c))
      end
  | LInner i t c =>
      match inn ns i with
      | Some si =>
          match cfg_step (inner i) si (t, c) with
          | Some si' => Some (mkN (outer ns) (upd (inn ns) i si'))
          | None => None
          end
      | None => None
      end
  end.

Definition ninit (inits : list item) : nstate := mkN (init_state n inits) (fun _ => None).

Fixpoint nrun (sch : list nlabel) (ns : nstate) : option nstate :=
  match sch with
  | [] => Some ns
  | l :: r => match nstep ns l with Some ns' => nrun r ns' | None => None end
  end.

(* every runner of every level has returned (decided over the outer items whose f has begun: no other inner
   Work exists, ParWorkMultiProofs.inner_only_started) *)
Definition inner_done (ns : nstate) (i : item) : bool :=
  match inn ns i with Some si => all_done si | None => true end.
Definition nfinal (ns : nstate) : bool :=
  all_done (outer ns) && forallb (inner_done ns) (started (outer ns)).

(* the potential: the outer one, plus for every outer item the potential of its inner Work -- one more than
   that of its initial state while it does not exist yet *)
Variable U : list item.
Definition ipot (ns : nstate) (i : item) : nat :=
  match inn ns i with
  | Some si => cfg_phi (inner i) si
  | None => S (cfg_phi (inner i) (cfg_init (inner i)))
  end.
Definition nphi (ns : nstate) : nat :=
  phi n children U (outer ns) + list_sum (map (ipot ns) U).

(* a deterministic scheduler, for examples and for the model driver: the first enabled label among the inner
   Works of the started items (threads 0.., choices 0..cmax), then among the outer threads *)
Fixpoint first_some {A B} (f : A -> option B) (l : list A) : option B :=
  match l with
  | [] => None
  | a :: r => match f a with Some b => Some b | None => first_some f r end
  end.

Definition labels_of (ns : nstate) (cmax : nat) : list nlabel :=
  flat_map (fun i => flat_map (fun t => map (fun c => LInner i t c) (seq 0 (S cmax))) (seq 0 (wn (inner i))))
           (rev (started (outer ns)))
  ++ flat_map (fun t => map (fun c => LOuter t c) (seq 0 (S cmax))) (seq 0 n).

Definition auto_step (cmax : nat) (ns : nstate) : option (nlabel * nstate) :=
  first_some (fun l => match nstep ns l with Some ns' => Some (l, ns') | None => None end) (labels_of ns cmax).

Fixpoint auto_run (fuel cmax : nat) (ns : nstate) : list nlabel * nstate :=
  match fuel with
  | 0 => ([], ns)
  | S f => match auto_step cmax ns with
           | Some (l, ns') => let (sch, r) := auto_run f cmax ns' in (l :: sch, r)
           | None => ([], ns)
           end
  end.
End Nested.

(* Executable model of par.Work (/repo/par/work.go: Add, Do, runner).  Definitions only.

   n runner threads (thread 0 is the runner() call made by Do itself, threads 1..n-1 are the
   `go w.runner()` goroutines; Gen.ParConsts records that Do starts exactly these).  All
   shared fields of Work (todo, added, waiting; running = n is constant after Do's prologue)
   are read and written only while holding w.mu, so every critical section
   (Lock ... Unlock, or Lock ... Cond.Wait which releases the mutex) is ONE atomic step.

   Program counters of a runner thread:
     Top        at the head of the outer `for` (about to Lock); also the start state
     Parked     inside w.wait.Wait(), not yet signalled (no step is enabled: it is blocked)
     Woken      signalled/broadcast, Wait has not yet re-acquired w.mu
     Run i j    inside w.f(i); the user function has performed j of its Add calls
     Done       runner returned (for thread 0: Do returned)

   The user function is data: f(i) calls Add on each element of [children i] in order and
   returns.  rand.Intn(len(todo)) and the choice of which waiter a Signal wakes are
   nondeterministic: both are supplied by the schedule (one natural number per step; a
   step uses at most one of the two).  Cond.Wait has no spurious wake-ups (documented
   contract of sync.Cond).  There is no separate condition queue in the state: the waiters
   of w.wait are exactly the Parked threads, and Signal may wake any of them (sync.Cond is
   FIFO; the theorems hold for every policy).

   Ghost fields: [started] (items for which f has begun, newest first) and [finished]
   (items for which f has returned, newest first). *)
From Coq Require Import List Arith Bool.
From GI Require Import Gen.ParConsts.
Import ListNotations.

Notation item := nat (only parsing).
Notation thread := nat (only parsing).

Inductive pc := Top | Parked | Woken | Run (i : item) (j : nat) | Done.

Record state := mkState {
  pcs : list pc;        (* one per runner thread *)
  todo : list item;     (* w.todo *)
  added : list item;    (* key set of w.added *)
  waiting : nat;        (* w.waiting *)
  started : list item;  (* ghost *)
  finished : list item  (* ghost *)
}.

Fixpoint set_nth {A : Type} (k : nat) (x : A) (l : list A) {struct l} : list A :=
  match l with
  | [] => []
  | a :: r => match k with 0 => x :: r | S k' => a :: set_nth k' x r end
  end.

Definition mem (x : item) (l : list item) : bool := existsb (Nat.eqb x) l.

Definition is_parked (p : pc) : bool := match p with Parked => true | _ => false end.
Definition is_woken (p : pc) : bool := match p with Woken => true | _ => false end.
Definition is_done (p : pc) : bool := match p with Done => true | _ => false end.
Definition is_top (p : pc) : bool := match p with Top => true | _ => false end.
Definition is_run (p : pc) : bool := match p with Run _ _ => true | _ => false end.
Definition is_run_of (i : item) (p : pc) : bool := match p with Run i' _ => Nat.eqb i' i | _ => false end.

(* number of threads whose pc satisfies f *)
Definition cnt (f : pc -> bool) (l : list pc) : nat := length (filter f l).

(* Broadcast: every waiter leaves the queue *)
Definition wake (p : pc) : pc := match p with Parked => Woken | _ => p end.

(* w.todo[k] = w.todo[len-1]; w.todo = w.todo[:len-1] *)
Definition swap_remove (k : nat) (l : list item) : list item :=
  removelast (set_nth k (last l 0) l).

(* w.wait.Signal(): wakes one waiter if there is one; which one is the schedule's choice c
   (a thread id that must be Parked; any other choice is not a step of the system) *)
Definition signal (c : nat) (l : list pc) : option (list pc) :=
  if existsb is_parked l then
    match nth_error l c with
    | Some Parked => Some (set_nth c Woken l)
    | _ => None
    end
  else Some l.

(* Add called before Do (single goroutine, nobody waiting): dedupe and append *)
Fixpoint add_all (l : list item) (td ad : list item) : list item * list item :=
  match l with
  | [] => (td, ad)
  | x :: r => if mem x ad then add_all r td ad else add_all r (td ++ [x]) (x :: ad)
  end.

Section Work.
Variable n : nat.                         (* Do(n, f) *)
Variable children : item -> list item.    (* f(i) = Add each of children i, in order *)

(* the body of `for len(w.todo) == 0 { ... }` followed by the pick, entered holding w.mu
   with w.waiting = w0 *)
Definition wait_or_pick (t : thread) (c : nat) (s : state) (w0 : nat) : option state :=
  match todo s with
  | [] =>
      (* w.waiting++; if w.waiting == w.running { Broadcast; Unlock; return }; Wait *)
      if Nat.eqb (S w0) n
      then Some (mkState (set_nth t Done (map wake (pcs s))) [] (added s) (S w0) (started s) (finished s))
      else Some (mkState (set_nth t Parked (pcs s)) [] (added s) (S w0) (started s) (finished s))
  | _ :: _ =>
      (* i := rand.Intn(len(w.todo)) = c; swap-remove; Unlock; w.f(item) begins *)
      if Nat.ltb c (length (todo s))
      then let it := nth c (todo s) 0 in
           Some (mkState (set_nth t (Run it 0) (pcs s)) (swap_remove c (todo s)) (added s) w0
                         (it :: started s) (finished s))
      else None
  end.

(* w.Add(ch) called by thread t from inside f(i) as its j-th Add *)
Definition add_step (t : thread) (c : nat) (i : item) (j : nat) (ch : item) (s : state) : option state :=
  let l1 := set_nth t (Run i (S j)) (pcs s) in
  if mem ch (added s)
  then Some (mkState l1 (todo s) (added s) (waiting s) (started s) (finished s))
  else
    let td := todo s ++ [ch] in
    let ad := ch :: added s in
    if Nat.ltb 0 (waiting s)
    then match signal c l1 with
         | Some l2 => Some (mkState l2 td ad (waiting s) (started s) (finished s))
         | None => None
         end
    else Some (mkState l1 td ad (waiting s) (started s) (finished s)).

(* one atomic step of thread t with choice c; None = t has no step here (blocked, returned,
   not a thread) or c is not a possible answer of Intn / not a waiter *)
Definition step (s : state) (tc : thread * nat) : option state :=
  let (t, c) := tc in
  match nth_error (pcs s) t with
  | Some Top => wait_or_pick t c s (waiting s)
  | Some Woken =>
      (* Wait returns holding w.mu; w.waiting--; re-test the loop condition *)
      match waiting s with
      | 0 => None
      | S w0 => wait_or_pick t c s w0
      end
  | Some (Run i j) =>
      match nth_error (children i) j with
      | Some ch => add_step t c i j ch s
      | None => (* f(i) returns; back to the head of the outer loop *)
          Some (mkState (set_nth t Top (pcs s)) (todo s) (added s) (waiting s) (started s) (i :: finished s))
      end
  | Some Parked | Some Done | None => None
  end.

Definition init_state (inits : list item) : state :=
  let (td, ad) := add_all inits [] [] in
  mkState (repeat Top n) td ad 0 [] [].

Fixpoint run (sch : list (thread * nat)) (s : state) : option state :=
  match sch with
  | [] => Some s
  | tc :: r => match step s tc with Some s' => run r s' | None => None end
  end.

(* thread t has a step for a suitable choice *)
Definition enabled (s : state) (t : thread) : bool :=
  match nth_error (pcs s) t with
  | Some Top | Some Woken | Some (Run _ _) => true
  | _ => false
  end.

Definition all_done (s : state) : bool := forallb is_done (pcs s).

(* ---- the potential of DESIGN section 10 over a finite universe U of items *)
Variable U : list item.
Definition K : nat := n + 3.
Definition wgt (i : item) : nat := (length (children i) + 1) * K.
Definition pot (p : pc) : nat :=
  match p with
  | Top => n + 2
  | Woken => n + 1
  | Parked => n
  | Done => 0
  | Run i j => (length (children i) - j + 1) * K
  end.
Definition unadded (ad : list item) : nat :=
  list_sum (map (fun u => if mem u ad then 0 else wgt u + 2) U).
Definition phi (s : state) : nat :=
  unadded (added s) + list_sum (map wgt (todo s)) + list_sum (map pot (pcs s)).

(* ---- executable form of the safety statements (used by the model driver when it explores
   the model's own state space; the theorems are in ParWorkProofs.v) *)
Definition occ (i : item) (l : list item) : nat := count_occ Nat.eq_dec l i.
Definition exactly_one_place (s : state) (i : item) : bool :=
  Nat.eqb (occ i (todo s) + cnt (is_run_of i) (pcs s) + occ i (finished s)) 1.
Definition safe_state (s : state) : bool :=
  Nat.eqb (length (pcs s)) n
  && Nat.eqb (waiting s) (cnt is_parked (pcs s) + cnt is_woken (pcs s) + cnt is_done (pcs s))
  && forallb (exactly_one_place s) (added s)
  && forallb (fun i => Nat.eqb (occ i (started s)) 1) (started s)
  && forallb (fun i => mem i (added s)) (todo s ++ started s)
  && Nat.leb (cnt is_run (pcs s)) n
  && (if Nat.ltb 0 (cnt is_done (pcs s))
      then match todo s with [] => true | _ => false end && Nat.eqb (cnt is_run (pcs s)) 0
           && Nat.eqb (cnt is_parked (pcs s)) 0
      else true).

(* ---- no lost wake-up, as a predicate on states (evaluated by the model driver on the model's states and by the
   Go runner on the states of the real code after every atomic step): while some runner sleeps in Wait without
   having been signalled, every queued item has a runner of its own on its way to the queue (at the loop head, or
   signalled and about to re-acquire the mutex).  ParWorkProofs.wakeup_per_item proves it for all reachable states. *)
Definition wakeup_ok (s : state) : bool :=
  Nat.eqb (cnt is_parked (pcs s)) 0
  || Nat.leb (length (todo s)) (cnt is_top (pcs s) + cnt is_woken (pcs s)).
End Work.

(* Non-vacuity: concrete schedules of the par.Work and par.Cache models, and a concrete value
   for every hypothesis the C09/C10 theorems carry. *)
From Coq Require Import List Arith Bool Lia.
From GI Require Import Gen.ParConsts Par.ParWork Par.ParLib Par.ParWorkProofs Par.ParCache Par.ParCacheBase Par.ParCacheProofs.
Import ListNotations.

(* item graph: 0 -> 1,2   1 -> 2,3   2 -> 3   3 -> (nothing); initial Adds: 0, 0 (a duplicate) *)
Definition ex_children (i : nat) : list nat :=
  match i with 0 => [1; 2] | 1 => [2; 3] | 2 => [3] | _ => [] end.
Definition ex_inits : list nat := [0; 0].
Definition ex_U : list nat := [0; 1; 2; 3].

(* three runners; the schedule contains parking (thread 2 at step 2), Signal wake-ups with an
   explicit choice of the waiter (step 4: thread 1 wakes thread 2), duplicate Adds, the final
   Broadcast, and ends with every runner returned *)
Definition ex_sched3 : list (nat * nat) :=
  [(1, 0); (2, 3); (0, 3); (1, 2); (2, 0); (1, 0); (1, 3); (2, 3); (0, 0); (1, 3); (2, 1);
   (0, 3); (1, 0); (2, 3); (0, 3); (1, 3); (2, 3); (0, 3); (1, 3); (2, 3); (0, 3)].

Example ex_work_run3 :
  run 3 ex_children ex_sched3 (init_state 3 ex_inits) =
  Some (mkState [Done; Done; Done] [] [3; 2; 1; 0] 3 [3; 2; 1; 0] [3; 2; 1; 0]).
Proof. vm_compute. reflexivity. Qed.

Example ex_work_parks :
  option_map pcs (run 3 ex_children [(1, 0); (2, 3); (0, 3)] (init_state 3 ex_inits)) =
  Some [Parked; Run 0 0; Parked].
Proof. vm_compute. reflexivity. Qed.

(* the duplicate initial Add is ignored *)
Example ex_work_init : init_state 3 ex_inits = mkState [Top; Top; Top] [0] [0] 0 [] [].
Proof. reflexivity. Qed.

(* a parked thread has no step; a wake choice that is not a waiter is not a step *)
Example ex_work_blocked :
  forall s, run 3 ex_children [(1, 0); (2, 3); (0, 3)] (init_state 3 ex_inits) = Some s ->
  (forall c, step 3 ex_children s (0, c) = None) /\ step 3 ex_children s (1, 1) = None /\
  step 3 ex_children s (1, 2) <> None.
Proof.
  vm_compute. intros s H; inversion H; subst; clear H. repeat split; try discriminate.
Qed.

(* non-vacuity of C09_wakeup_per_item: two runners asleep, then f(0) adds items 1 and 2; each Add signals one of
   them: two items queued, two runners (both Woken) on their way, nobody left asleep; after the first Add alone:
   one item queued, one runner on its way, one still asleep -- the premise 0 < parked holds there *)
Example ex_wakeup_one :
  option_map (fun s => (pcs s, todo s, wakeup_ok s))
    (run 3 ex_children [(1, 0); (2, 3); (0, 3); (1, 2)] (init_state 3 ex_inits)) =
  Some ([Parked; Run 0 1; Woken], [1], true).
Proof. vm_compute. reflexivity. Qed.
Example ex_wakeup_two :
  option_map (fun s => (pcs s, todo s, wakeup_ok s))
    (run 3 ex_children [(1, 0); (2, 3); (0, 3); (1, 2); (1, 0)] (init_state 3 ex_inits)) =
  Some ([Woken; Run 0 2; Woken], [1; 2], true).
Proof. vm_compute. reflexivity. Qed.
(* ... and both woken runners take an item while f(0) is still running (C09_queued_items_get_runners): three calls in
   progress together with n = 3, nothing added or finished meanwhile *)
Example ex_get_runners :
  option_map (fun s => (pcs s, todo s, finished s))
    (run 3 ex_children ([(1, 0); (2, 3); (0, 3); (1, 2); (1, 0)] ++ [(0, 0); (2, 0)]) (init_state 3 ex_inits)) =
  Some ([Run 1 0; Run 0 2; Run 2 0], [], []).
Proof. vm_compute. reflexivity. Qed.
(* a state that VIOLATES the predicate (not reachable): an item queued, a runner asleep, nobody coming *)
Example ex_wakeup_violated : wakeup_ok (mkState [Parked; Run 0 2; Parked] [1] [1; 0] 2 [0] []) = false.
Proof. reflexivity. Qed.

Example ex_n_ok : work_do_min_n <= 3. Proof. unfold work_do_min_n; lia. Qed.
Example ex_U_nodup : NoDup ex_U. Proof. repeat constructor; simpl; intuition discriminate. Qed.
Example ex_U_inits : forall i, In i ex_inits -> In i ex_U. Proof. simpl; intuition. Qed.
Example ex_U_closed : forall i c, In i ex_U -> In c (ex_children i) -> In c ex_U.
Proof. simpl; intros i c [<-|[<-|[<-|[<-|[]]]]]; simpl; intuition. Qed.

(* the potential on that run: 75 at the start, 0 at the end, 21 steps in between *)
Example ex_phi_init : phi 3 ex_children ex_U (init_state 3 ex_inits) = 75.
Proof. vm_compute. reflexivity. Qed.
Example ex_phi_final :
  option_map (phi 3 ex_children ex_U) (run 3 ex_children ex_sched3 (init_state 3 ex_inits)) = Some 0.
Proof. vm_compute. reflexivity. Qed.

Example ex_reachable3 : forall s, run 3 ex_children ex_sched3 (init_state 3 ex_inits) = Some s ->
  reachable 3 ex_children ex_inits s.
Proof. intros s H. eapply run_reachable; [apply reach_init|exact H]. Qed.

(* every item of the example graph is reachable from the initial items *)
Example ex_reach_all : forall i, In i ex_U -> reach ex_children ex_inits i.
Proof.
  assert (H0 : reach ex_children ex_inits 0) by (apply reach_base; simpl; auto).
  assert (H1 : reach ex_children ex_inits 1) by (eapply reach_child; [exact H0|simpl; auto]).
  assert (H2 : reach ex_children ex_inits 2) by (eapply reach_child; [exact H0|simpl; auto]).
  assert (H3 : reach ex_children ex_inits 3) by (eapply reach_child; [exact H2|simpl; auto]).
  simpl; intros i [<-|[<-|[<-|[<-|[]]]]]; auto.
Qed.

(* Do on an EMPTY work set (no Add before Do) is an instance of every theorem (inits = []): all
   runners start at the loop head with nothing queued, each parks except the last one in, which
   broadcasts; Do returns, f is never called *)
Example ex_work_empty_init : init_state 2 [] = mkState [Top; Top] [] [] 0 [] [].
Proof. reflexivity. Qed.
Example ex_work_empty_run :
  run 2 ex_children [(1, 0); (0, 0); (1, 0)] (init_state 2 []) = Some (mkState [Done; Done] [] [] 2 [] []).
Proof. vm_compute. reflexivity. Qed.
Example ex_work_empty_n1 :
  run 1 ex_children [(0, 0)] (init_state 1 []) = Some (mkState [Done] [] [] 1 [] []).
Proof. vm_compute. reflexivity. Qed.
Example ex_work_empty_nothing_to_do : forall i, ~ reach ex_children [] i.
Proof. intros i H; induction H as [i []|]; auto. Qed.
Example ex_work_empty_returns : forall s, reachable 2 ex_children [] s -> nth_error (pcs s) 0 = Some Done ->
  todo s = [] /\ started s = [] /\ finished s = [].
Proof.
  intros s Hr H0. assert (Hn : work_do_min_n <= 2) by (unfold work_do_min_n; lia).
  destruct (do_returns 2 ex_children [] Hn s Hr H0) as (Htd & _ & Hre & _).
  destruct (exactly_once_safety 2 ex_children [] Hn s Hr) as (_ & _ & _ & _ & Hall).
  repeat split; auto.
  - destruct (started s) as [|i l] eqn:E; auto. exfalso. apply (ex_work_empty_nothing_to_do i).
    apply (Hall i). do 2 right; left; simpl; auto.
  - destruct (finished s) as [|i l] eqn:E; auto. exfalso. apply (ex_work_empty_nothing_to_do i).
    apply Hre. left; auto.
Qed.

(* ---- par.Cache *)
Definition ex_fval (k : nat) : option nat := match k with 2 => None | _ => Some (100 + k) end.
Definition ex_nodeps (k : nat) : list nat := [].
Definition ex_nocrash (k : nat) : bool := false.
Definition ex_progs : list (list call) := [[CDo 0; CGet 1]; [CGet 0; CDo 0]; [CDo 1]].

(* thread 0 computes key 0 while thread 1's Get(0) returns nil in the middle of f; thread 1's
   Do(0) then blocks on the mutex (its Lock step is refused while f runs), later sees done under
   the lock and returns f's value without calling f again *)
Definition ex_csched : list nat :=
  [0; 0; 0; 0; 0; 0;          (* t0: Load miss, LoadOrStore, Load1, Lock, Load2, call f *)
   1; 1;                      (* t1: Get(0): Load hit, done = 0 -> nil *)
   1; 1;                      (* t1: Do(0): Load hit, Load1 sees 0 *)
   0; 0; 0;                   (* t0: f returns, plain write, store done *)
   2; 2; 2; 2; 2; 2; 2; 2; 2; 2; 2;   (* t2: Do(1) start to finish *)
   0;                         (* t0: Unlock *)
   1; 1; 1; 1;                (* t1: Lock, Load2 sees done, Unlock, plain read *)
   0; 0; 0; 0].               (* t0: plain read (Do returns), Get(1): Load, Load1, plain read *)

Example ex_cache_run :
  option_map (fun s => (map rets (thrs s), map tpc (thrs s), plain s,
                        fbegins (ents s 0), fbegins (ents s 1)))
             (crun ex_fval ex_nodeps ex_nocrash ex_csched (cinit ex_progs)) =
  Some ([[(CGet 1, Some 101); (CDo 0, Some 100)];
         [(CDo 0, Some 100); (CGet 0, None)];
         [(CDo 1, Some 101)]],
        [Idle; Idle; Idle],
        [(0, 1, false); (0, 0, false); (1, 0, false); (2, 1, false); (2, 1, true); (0, 0, true)],
        1, 1).
Proof. vm_compute. reflexivity. Qed.

(* while f_0 is running under the mutex, thread 1's Lock is not a step, but its Get was *)
Example ex_cache_lock_blocks :
  option_map (fun s => (cenabled ex_fval ex_nodeps ex_nocrash s 0, cenabled ex_fval ex_nodeps ex_nocrash s 1, cenabled ex_fval ex_nodeps ex_nocrash s 2))
             (crun ex_fval ex_nodeps ex_nocrash [0; 0; 0; 0; 0; 0; 1; 1; 1; 1] (cinit ex_progs)) = Some (true, false, true).
Proof. vm_compute. reflexivity. Qed.

(* nested Do: f_0 calls Do(1) and Do(2), f_1 calls Do(2) (as goproxytest's zip cache calls the archive
   cache); f_2 returns nil.  Levels 2 > 1 > 0 witness acyclicity. *)
Definition ex_deps (k : nat) : list nat := match k with 0 => [1; 2] | 1 => [2] | _ => [] end.
Definition ex_level (k : nat) : nat := match k with 0 => 2 | 1 => 1 | _ => 0 end.
Example ex_level_ok : forall k d, In d (ex_deps k) -> ex_level d < ex_level k.
Proof. intros [|[|k]] d; simpl; intuition; subst; simpl; lia. Qed.

Definition ex_nprogs : list (list call) := [[CDo 0]; [CDo 2; CGet 0]].
(* thread 0 alone up to the nested Do(2) inside f_1 inside f_0, where thread 1 has taken e.mu of 2 first *)
Definition ex_nsched : list nat :=
  [1; 1; 1; 1; 1; 1;                   (* t1: Do(2) up to "call f" *)
   0; 0; 0; 0; 0; 0; 0;                (* t0: Do(0) ... f_0 running, starts nested Do(1) *)
   0; 0; 0; 0; 0; 0; 0;                (* t0: Do(1) ... f_1 running, starts nested Do(2) *)
   0; 0].                              (* t0: Do(2): Load hit, Load1 = 0, now at Lock(2): blocked *)
Example ex_nested_blocked :
  option_map (fun s => (map tpc (thrs s), map stack (thrs s), cenabled ex_fval ex_deps ex_nocrash s 0, cenabled ex_fval ex_deps ex_nocrash s 1))
             (crun ex_fval ex_deps ex_nocrash ex_nsched (cinit ex_nprogs)) =
  Some ([DLock 2; DInF 2 0], [[(1, 1); (0, 1)]; []], false, true).
Proof. vm_compute. reflexivity. Qed.

(* ... and on to the end: every f ran once, the nested results were returned into the callers, Get(0)
   finds the value, f_2's nil is a result like any other *)
Definition ex_nsched_rest : list nat :=
  [1; 1; 1; 1; 1;                       (* t1: f_2 returns nil, write, store, unlock, read: Do(2) = nil *)
   0; 0; 0; 0;                          (* t0: Lock(2), Load2 = done, Unlock, read: back in f_1 *)
   0; 0; 0; 0; 0;                       (* t0: f_1 returns, write, store, unlock, read: back in f_0 (j = 1) *)
   0; 0; 0; 0;                          (* t0: nested Do(2) from f_0: Load hit, Load1 done, read *)
   0; 0; 0; 0; 0;                       (* t0: f_0 returns, write, store, unlock, read: Do(0) returns *)
   1; 1; 1].                            (* t1: Get(0) = 100 *)
Example ex_nested_run :
  option_map (fun s => (map rets (thrs s), map nrets (thrs s), map (fun k => fbegins (ents s k)) [0; 1; 2], all_idle s))
             (crun ex_fval ex_deps ex_nocrash (ex_nsched ++ ex_nsched_rest) (cinit ex_nprogs)) =
  Some ([[(CDo 0, Some 100)]; [(CGet 0, Some 100); (CDo 2, None)]],
        [[(2, None); (1, Some 101); (2, None)]; []], [1; 1; 1], true).
Proof. vm_compute. reflexivity. Qed.

Example ex_psi : psi ex_deps (kcL ex_deps ex_level) (cinit ex_nprogs) = 71.
Proof. vm_compute. reflexivity. Qed.

(* without acyclicity Do can deadlock: f_0 calling Do(0) blocks on its own entry mutex.  This refutes
   "no deadlock for every dependency relation" in the model (and sync.Mutex is not re-entrant) *)
Definition ex_selfdeps (k : nat) : list nat := [k].
Theorem self_dependency_deadlocks_refuted :
  exists (deps : nat -> list nat) (progs : list (list call)) (s : cstate),
    creachable ex_fval deps ex_nocrash progs s /\ all_idle s = false /\ forall t, cstep ex_fval deps ex_nocrash s t = None.
Proof.
  exists ex_selfdeps, [[CDo 0]].
  destruct (crun ex_fval ex_selfdeps ex_nocrash [0; 0; 0; 0; 0; 0; 0; 0; 0] (cinit [[CDo 0]])) as [s|] eqn:E; [|discriminate].
  exists s. split; [|split].
  - eapply crun_reachable; [apply creach_init|exact E].
  - vm_compute in E. inversion E; subst. reflexivity.
  - vm_compute in E. inversion E; subst. intros [|[|t]]; reflexivity.
Qed.

(* ---- an invocation of f that does not return (non-vacuity of C10_f_crash_never_reinvoked and of
   C10_crashed_do_blocks_get_nil): f_0 panics / calls runtime.Goexit.  Thread 0's goroutine is gone with e.mu of key 0
   held and done = 0; thread 1's Do(0) reaches the mutex and has no step; thread 2's Get(0) returns nil; f_0 began
   once, never ended, and nobody can call it again *)
Definition ex_crash0 (k : nat) : bool := Nat.eqb k 0.
Definition ex_xprogs : list (list call) := [[CDo 0]; [CDo 0; CGet 1]; [CGet 0]].
Definition ex_xsched : list nat := [0; 0; 0; 0; 0; 0; 0;  1; 1;  2; 2].
Example ex_crash_run :
  option_map (fun s => (map tpc (thrs s), map rets (thrs s),
                        (fbegins (ents s 0), fends (ents s 0), orph (ents s 0), locked (ents s 0), isd (ents s 0)),
                        map (cenabled ex_fval ex_nodeps ex_crash0 s) [0; 1; 2], all_idle s))
             (crun ex_fval ex_nodeps ex_crash0 ex_xsched (cinit ex_xprogs)) =
  Some ([Idle; DLock 0; Idle], [[]; []; [(CGet 0, None)]], (1, 0, 1, true, false), [false; false; false], false).
Proof. vm_compute. reflexivity. Qed.

Example ex_crash_reachable : forall s, crun ex_fval ex_nodeps ex_crash0 ex_xsched (cinit ex_xprogs) = Some s ->
  creachable ex_fval ex_nodeps ex_crash0 ex_xprogs s /\ 0 < orph (ents s 0).
Proof.
  intros s H. split; [eapply crun_reachable; [apply creach_init|exact H]|].
  vm_compute in H. inversion H; subst. simpl. lia.
Qed.

(* f_1 fails inside f_0's nested Do(1): the panic unwinds through both Do calls, both entries stay locked *)
Definition ex_crash1 (k : nat) : bool := Nat.eqb k 1.
Definition ex_xdeps (k : nat) : list nat := match k with 0 => [1] | _ => [] end.
Example ex_crash_nested :
  option_map (fun s => (map tpc (thrs s), map stack (thrs s), map (fun k => (fbegins (ents s k), orph (ents s k), locked (ents s k))) [0; 1]))
             (crun ex_fval ex_xdeps ex_crash1 [0; 0; 0; 0; 0; 0; 0;  0; 0; 0; 0; 0; 0; 0] (cinit [[CDo 0; CGet 0]])) =
  Some ([Idle], [[]], [(1, 1, true); (1, 1, true)]).
Proof. vm_compute. reflexivity. Qed.

(* keys are independent: a whole Do(1) by thread 2 leaves the entry of key 0 exactly as it was *)
Example ex_keys_independent :
  option_map (fun s => ents s 0) (crun ex_fval ex_nodeps ex_nocrash [0; 0; 0; 0; 0; 0] (cinit ex_progs)) =
  option_map (fun s => ents s 0) (crun ex_fval ex_nodeps ex_nocrash ([0; 0; 0; 0; 0; 0] ++ [2; 2; 2; 2; 2; 2; 2; 2; 2; 2; 2]) (cinit ex_progs)).
Proof. vm_compute. reflexivity. Qed.

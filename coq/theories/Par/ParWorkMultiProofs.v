(* Proofs about several par.Work objects in one program (ParWorkMulti.v).

   1. A world of Work objects: a step of one object leaves every other object untouched; the reachable worlds are
      EXACTLY the tuples of individually reachable states (so every theorem about one Work holds for each object
      whatever the others do and whenever they are used, and co-existence adds no constraint); no deadlock; the sum of
      the potentials decreases on every step, every schedule is finite and can be completed.
   2. Nesting (f of the outer Work runs a fresh inner Work): every level is a reachable state of its own single-Work
      system; f(i) returns only after the Do of its inner Work returned; when the outer Do returns every inner Work
      of every reachable outer item has processed all its items; no deadlock; a potential decreases on every step, so
      every schedule is finite and can be completed to the state in which every runner of every level has returned. *)
From Coq Require Import List Arith Bool Lia.
From GI Require Import Gen.ParConsts Par.ParWork Par.ParLib Par.ParWorkProofs.
From GI Require Import Par.ParWorkMulti.
Import ListNotations.

(* what the single-Work theorems need of a configuration *)
Definition good (cf : wcfg) : Prop :=
  work_do_min_n <= wn cf /\ NoDup (wU cf) /\
  (forall i, In i (winits cf) -> In i (wU cf)) /\
  (forall i c, In i (wU cf) -> In c (wchildren cf i) -> In c (wU cf)).

Definition cfg_reachable (cf : wcfg) (s : state) : Prop := reachable (wn cf) (wchildren cf) (winits cf) s.
Definition cfg_reach (cf : wcfg) (i : item) : Prop := reach (wchildren cf) (winits cf) i.

Lemma cfg_reachable_init cf : cfg_reachable cf (cfg_init cf).
Proof. apply reach_init. Qed.

Lemma cfg_reachable_step cf s tc s' : cfg_reachable cf s -> cfg_step cf s tc = Some s' -> cfg_reachable cf s'.
Proof. destruct tc as [t c]. intros Hr Hs. eapply reach_step; eauto. Qed.

Lemma cfg_phi_decreases cf s tc s' : good cf -> cfg_reachable cf s -> cfg_step cf s tc = Some s' ->
  cfg_phi cf s' < cfg_phi cf s.
Proof.
  intros (Hn & Hnd & Hi & Hc) Hr Hs. destruct tc as [t c].
  eapply (phi_decreases (wn cf) (wchildren cf) (winits cf) Hn (wU cf) Hnd Hi Hc); eauto.
Qed.

Lemma cfg_no_deadlock cf s : good cf -> cfg_reachable cf s ->
  all_done s = true \/ exists tc s', cfg_step cf s tc = Some s'.
Proof.
  intros (Hn & _) Hr. destruct (no_deadlock _ _ _ Hn s Hr) as [H|(t & c & s' & H)]; auto.
  right. exists (t, c), s'. exact H.
Qed.

(* ---- facts about one step of one Work that the compositions need *)

(* a runner that has returned stays returned, whatever the other runners do *)
Lemma done_stable n children s t c s' k : work_do_min_n <= n ->
  step n children s (t, c) = Some s' -> nth_error (pcs s) k = Some Done -> nth_error (pcs s') k = Some Done.
Proof.
  intros Hn Hs Hk. apply (step_R n children Hn) in Hs.
  assert (Hne : forall p, nth_error (pcs s) t = Some p -> p <> Done -> t <> k).
  { intros p Hp Hd ->. rewrite Hp in Hk. inversion Hk; subst. apply Hd; reflexivity. }
  destruct Hs as [p w0 c' [Hp He] Htd Hc | p w0 [Hp He] Htd Hne' | p w0 [Hp He] Htd Heq
                 | i j ch Hp Hch Hin | i j ch Hp Hch Hin Hnp | i j ch k' Hp Hch Hin Hwpos Hk' | i j Hp Hch];
    cbn [pcs].
  - rewrite nth_error_set_nth_neq; auto. eapply Hne; eauto. destruct He as [[-> _]|[-> _]]; discriminate.
  - rewrite nth_error_set_nth_neq; auto. eapply Hne; eauto. destruct He as [[-> _]|[-> _]]; discriminate.
  - rewrite nth_error_set_nth_neq.
    + rewrite (nth_wake _ _ _ Hk). reflexivity.
    + eapply Hne; eauto. destruct He as [[-> _]|[-> _]]; discriminate.
  - rewrite nth_error_set_nth_neq; auto. eapply Hne; eauto. discriminate.
  - rewrite nth_error_set_nth_neq; auto. eapply Hne; eauto. discriminate.
  - assert (t <> k) by (eapply Hne; eauto; discriminate).
    assert (k' <> k).
    { intros ->. rewrite nth_error_set_nth_neq in Hk' by auto. rewrite Hk in Hk'. discriminate. }
    rewrite !nth_error_set_nth_neq; auto.
  - rewrite nth_error_set_nth_neq; auto. eapply Hne; eauto. discriminate.
Qed.

(* what a step does to the ghost lists: f-begins only grow; f-returns grow exactly by the `f(i) returns' step *)
Lemma step_ghosts n children s t c s' : work_do_min_n <= n -> step n children s (t, c) = Some s' ->
  incl (started s) (started s') /\
  (finished s' = finished s \/
   exists i j, nth_error (pcs s) t = Some (Run i j) /\ nth_error (children i) j = None /\ finished s' = i :: finished s).
Proof.
  intros Hn Hs. apply (step_R n children Hn) in Hs.
  destruct Hs as [p w0 c' [Hp He] Htd Hc | p w0 [Hp He] Htd Hne' | p w0 [Hp He] Htd Heq
                 | i j ch Hp Hch Hin | i j ch Hp Hch Hin Hnp | i j ch k' Hp Hch Hin Hwpos Hk' | i j Hp Hch];
    cbn [started finished]; split; auto using incl_refl, incl_tl.
  right. exists i, j. auto.
Qed.

(* a thread inside f(i) has begun f(i) *)
Lemma run_started n children inits s t i j : work_do_min_n <= n -> reachable n children inits s ->
  nth_error (pcs s) t = Some (Run i j) -> In i (started s).
Proof.
  intros Hn Hr Hp. pose proof (reachable_InvC _ _ _ Hn s Hr) as HC.
  apply occn_In. rewrite (inv_started _ _ HC i).
  assert (H : is_run_of i (Run i j) = true) by (simpl; apply Nat.eqb_refl).
  pose proof (cnt_ge1 (is_run_of i) _ _ _ Hp H). lia.
Qed.

Lemma started_reach n children inits s i : work_do_min_n <= n -> reachable n children inits s ->
  In i (started s) -> reach children inits i.
Proof. intros Hn Hr Hi. apply (exactly_once_safety _ _ _ Hn s Hr). auto. Qed.

Lemma all_done_thread0 n children inits s : work_do_min_n <= n -> reachable n children inits s ->
  all_done s = true -> nth_error (pcs s) 0 = Some Done.
Proof.
  intros Hn Hr Hd. destruct (at_most_n_running _ _ _ Hn s Hr) as [Hlen _].
  unfold work_do_min_n in Hn. destruct (pcs s) as [|p l] eqn:E; [simpl in Hlen; lia|].
  unfold all_done in Hd. rewrite E in Hd. simpl in Hd. apply andb_true_iff in Hd as [Hp _].
  destruct p; try discriminate. reflexivity.
Qed.

(* ---- generic list lemmas *)
Lemma Forall2_nth_error {A B} (P : A -> B -> Prop) l1 l2 k a b :
  Forall2 P l1 l2 -> nth_error l1 k = Some a -> nth_error l2 k = Some b -> P a b.
Proof.
  intros H; revert k; induction H as [|x y l1 l2 Hxy H IH]; intros [|k] Ha Hb; simpl in *; try discriminate.
  - inversion Ha; inversion Hb; subst; auto.
  - eauto.
Qed.

Lemma Forall2_set_nth {A B} (P : A -> B -> Prop) l1 l2 k a y :
  Forall2 P l1 l2 -> nth_error l1 k = Some a -> P a y -> Forall2 P l1 (set_nth k y l2).
Proof.
  intros H; revert k; induction H as [|x y0 l1 l2 Hxy H IH]; intros [|k] Ha Hy; simpl in *; try discriminate.
  - inversion Ha; subst. constructor; auto.
  - constructor; eauto.
Qed.

Lemma set_nth_app_mid {A} (pre : list A) x y post : set_nth (length pre) y (pre ++ x :: post) = pre ++ y :: post.
Proof. induction pre as [|a pre IH]; simpl; [reflexivity|]. rewrite IH; reflexivity. Qed.

Lemma nth_error_app_mid {A} (pre : list A) x post : nth_error (pre ++ x :: post) (length pre) = Some x.
Proof. induction pre as [|a pre IH]; simpl; auto. Qed.

Lemma list_sum_map_lt {A} (g g' : A -> nat) l i :
  (forall x, In x l -> g' x <= g x) -> In i l -> g' i < g i -> list_sum (map g' l) < list_sum (map g l).
Proof.
  induction l as [|a l IH]; intros Hle Hin Hlt; [destruct Hin|].
  cbn [map list_sum fold_right].
  assert (Hrest : list_sum (map g' l) <= list_sum (map g l)).
  { clear IH Hin. induction l as [|b l IHl]; [simpl; lia|]. cbn [map list_sum fold_right].
    pose proof (Hle b (or_intror (or_introl eq_refl))).
    assert (list_sum (map g' l) <= list_sum (map g l)) by (apply IHl; intros x Hx; apply Hle; destruct Hx; [left|right; right]; auto).
    unfold list_sum in *. lia. }
  destruct Hin as [->|Hin].
  - unfold list_sum in *. lia.
  - pose proof (Hle a (or_introl eq_refl)).
    assert (list_sum (map g' l) < list_sum (map g l)) by (apply IH; auto; intros x Hx; apply Hle; right; auto).
    unfold list_sum in *. lia.
Qed.

Lemma list_sum_map_ext_in {A} (g g' : A -> nat) l : (forall x, In x l -> g' x = g x) -> list_sum (map g' l) = list_sum (map g l).
Proof. intros H. f_equal. apply map_ext_in. exact H. Qed.

(* ================================================================ 1. a world of Work objects *)
Section World.
Variable cfgs : list wcfg.

Inductive wreachable : world -> Prop :=
| wreach_init : wreachable (winit cfgs)
| wreach_step ws l ws' : wreachable ws -> wstep cfgs ws l = Some ws' -> wreachable ws'.

Lemma wstep_inv ws k tc ws' : wstep cfgs ws (k, tc) = Some ws' ->
  exists cf s s', nth_error cfgs k = Some cf /\ nth_error ws k = Some s /\ cfg_step cf s tc = Some s' /\
                  ws' = set_nth k s' ws.
Proof.
  unfold wstep. destruct (nth_error cfgs k) as [cf|]; [|discriminate].
  destruct (nth_error ws k) as [s|]; [|discriminate].
  destruct (cfg_step cf s tc) as [s'|] eqn:E; [|discriminate].
  intros H; inversion H; subst. exists cf, s, s'. auto.
Qed.

(* INDEPENDENCE (frame): a step of object k changes object k only, by a step of its own single-Work system *)
Theorem works_independent ws k tc ws' : wstep cfgs ws (k, tc) = Some ws' ->
  length ws' = length ws /\
  (forall k', k' <> k -> nth_error ws' k' = nth_error ws k') /\
  (exists cf s s', nth_error cfgs k = Some cf /\ nth_error ws k = Some s /\ cfg_step cf s tc = Some s' /\
                   nth_error ws' k = Some s').
Proof.
  intros H. destruct (wstep_inv _ _ _ _ H) as (cf & s & s' & Hc & Hs & Hst & ->).
  split; [apply set_nth_length|]. split.
  - intros k' Hk. apply nth_error_set_nth_neq. auto.
  - exists cf, s, s'. repeat split; auto. apply nth_error_set_nth_eq. eapply nth_error_lt; eauto.
Qed.

Lemma winit_components : Forall2 cfg_reachable cfgs (winit cfgs).
Proof. unfold winit. induction cfgs as [|cf l IH]; simpl; constructor; auto using cfg_reachable_init. Qed.

(* every object of a reachable world is in a reachable state of ITS OWN single-Work system ... *)
Theorem world_components ws : wreachable ws -> Forall2 cfg_reachable cfgs ws.
Proof.
  induction 1 as [|ws [k tc] ws' Hr IH Hs]; [apply winit_components|].
  destruct (wstep_inv _ _ _ _ Hs) as (cf & s & s' & Hc & Hk & Hst & ->).
  eapply Forall2_set_nth; eauto. eapply cfg_reachable_step; eauto.
  eapply Forall2_nth_error; eauto.
Qed.
End World.

(* ... and conversely every tuple of individually reachable states is a reachable world: being used next to
   other Work values, in whatever order, constrains a Work in no way *)
Lemma world_free_aux cfgs : forall ws, Forall2 cfg_reachable cfgs ws ->
  forall pre_c pre_w, length pre_c = length pre_w ->
  wreachable (pre_c ++ cfgs) (pre_w ++ winit cfgs) -> wreachable (pre_c ++ cfgs) (pre_w ++ ws).
Proof.
  intros ws H. induction H as [|cf s cr sr Hcs H IH]; intros pre_c pre_w Hlen Hw; [exact Hw|].
  cbn [winit map] in Hw. fold (winit cr) in Hw.
  (* move object |pre| from its initial state to s *)
  assert (Hmove : wreachable (pre_c ++ cf :: cr) (pre_w ++ s :: winit cr)).
  { unfold cfg_reachable in Hcs. induction Hcs as [|s0 t c s1 Hr0 IH0 Hs0]; [exact Hw|].
    eapply wreach_step; [exact IH0|]. instantiate (1 := (length pre_w, (t, c))).
    unfold wstep. rewrite <- Hlen at 1. rewrite !nth_error_app_mid. unfold cfg_step. rewrite Hs0.
    rewrite set_nth_app_mid. reflexivity. }
  specialize (IH (pre_c ++ [cf]) (pre_w ++ [s])).
  rewrite <- !app_assoc in IH. cbn [app] in IH. apply IH; auto.
  rewrite !app_length. simpl. lia.
Qed.

Theorem world_free cfgs ws : Forall2 cfg_reachable cfgs ws -> wreachable cfgs ws.
Proof.
  intros H. apply (world_free_aux cfgs ws H [] []); auto. apply wreach_init.
Qed.

Theorem world_reachable_iff cfgs ws : wreachable cfgs ws <-> Forall2 cfg_reachable cfgs ws.
Proof. split; [apply world_components|apply world_free]. Qed.

Section WorldProps.
Variable cfgs : list wcfg.
Hypothesis cfgs_good : Forall good cfgs.

Lemma good_nth k cf : nth_error cfgs k = Some cf -> good cf.
Proof. intros H. eapply Forall_nth_error; eauto. Qed.

(* the property of ONE Work, for every object of every reachable world: f begins at most once per item and only for
   items reachable from that object's own initial items; at most n calls in progress; when that object's Do has
   returned, its queue is empty, none of its calls is in progress and exactly its reachable items have finished *)
Theorem world_objects_correct ws : wreachable cfgs ws ->
  forall k cf s, nth_error cfgs k = Some cf -> nth_error ws k = Some s ->
  NoDup (started s) /\ NoDup (finished s) /\
  (forall i, In i (started s) \/ In i (finished s) -> cfg_reach cf i) /\
  cnt is_run (pcs s) <= wn cf /\
  (nth_error (pcs s) 0 = Some Done ->
     todo s = [] /\ cnt is_run (pcs s) = 0 /\ forall i, cfg_reach cf i <-> In i (finished s)).
Proof.
  intros Hw k cf s Hc Hs.
  pose proof (Forall2_nth_error _ _ _ _ _ _ (world_components cfgs ws Hw) Hc Hs) as Hr.
  destruct (good_nth _ _ Hc) as (Hn & _). unfold cfg_reachable in Hr.
  destruct (exactly_once_safety _ _ _ Hn s Hr) as (_ & Hst & Hfi & _ & Hre).
  repeat split; auto.
  - intros i Hi. apply Hre. tauto.
  - apply (at_most_n_running _ _ _ Hn s Hr).
  - apply (do_returns _ _ _ Hn s Hr H).
  - apply (do_returns _ _ _ Hn s Hr H).
  - apply (do_returns _ _ _ Hn s Hr H).
  - apply (do_returns _ _ _ Hn s Hr H).
Qed.

Lemma world_scan : forall (cs : list wcfg) (ws : world), Forall2 cfg_reachable cs ws ->
  wall_done ws = true \/ exists k cf s, nth_error cs k = Some cf /\ nth_error ws k = Some s /\ all_done s = false.
Proof.
  intros cs ws H. induction H as [|cf s cr sr Hcs H IH]; [left; reflexivity|].
  destruct (all_done s) eqn:E.
  - destruct IH as [IH|(k & cf' & s' & H1 & H2 & H3)].
    + left. unfold wall_done in *. simpl. rewrite E. exact IH.
    + right. exists (S k), cf', s'. auto.
  - right. exists 0, cf, s. auto.
Qed.

(* no deadlock: unless every runner of every object has returned, some object has a step *)
Theorem world_no_deadlock ws : wreachable cfgs ws ->
  wall_done ws = true \/ exists l ws', wstep cfgs ws l = Some ws'.
Proof.
  intros Hw. destruct (world_scan _ _ (world_components cfgs ws Hw)) as [H|(k & cf & s & Hc & Hs & Hnd)]; auto.
  right. pose proof (Forall2_nth_error _ _ _ _ _ _ (world_components cfgs ws Hw) Hc Hs) as Hr.
  destruct (cfg_no_deadlock cf s (good_nth _ _ Hc) Hr) as [Hd|(tc & s' & Hst)]; [congruence|].
  exists (k, tc), (set_nth k s' ws). unfold wstep. rewrite Hc, Hs, Hst. reflexivity.
Qed.

Lemma wphi_set_nth : forall (cs : list wcfg) (ws : world) k cf s s',
  nth_error cs k = Some cf -> nth_error ws k = Some s -> cfg_phi cf s' < cfg_phi cf s ->
  wphi cs (set_nth k s' ws) < wphi cs ws.
Proof.
  induction cs as [|c0 cs IH]; intros [|s0 ws] [|k] cf s s' Hc Hs Hlt; simpl in *; try discriminate.
  - inversion Hc; inversion Hs; subst. lia.
  - specialize (IH ws k cf s s' Hc Hs Hlt). lia.
Qed.

(* termination: the sum of the potentials strictly decreases on every step of the world *)
Theorem world_phi_decreases ws l ws' : wreachable cfgs ws -> wstep cfgs ws l = Some ws' ->
  wphi cfgs ws' < wphi cfgs ws.
Proof.
  intros Hw Hs. destruct l as [k tc]. destruct (wstep_inv _ _ _ _ _ Hs) as (cf & s & s' & Hc & Hk & Hst & ->).
  eapply wphi_set_nth; eauto. eapply cfg_phi_decreases; eauto using good_nth.
  exact (Forall2_nth_error _ _ _ _ _ _ (world_components cfgs ws Hw) Hc Hk).
Qed.

Lemma wrun_reachable sch : forall ws ws', wreachable cfgs ws -> wrun cfgs sch ws = Some ws' -> wreachable cfgs ws'.
Proof.
  induction sch as [|l sch IH]; intros ws ws' Hw H; simpl in H.
  - inversion H; subst; auto.
  - destruct (wstep cfgs ws l) as [w1|] eqn:E; [|discriminate]. eapply IH; [|exact H]. eapply wreach_step; eauto.
Qed.

Theorem world_schedules_finite sch : forall ws ws', wreachable cfgs ws -> wrun cfgs sch ws = Some ws' ->
  length sch + wphi cfgs ws' <= wphi cfgs ws.
Proof.
  induction sch as [|l sch IH]; intros ws ws' Hw H; simpl in H.
  - inversion H; subst; simpl; lia.
  - destruct (wstep cfgs ws l) as [w1|] eqn:E; [|discriminate].
    pose proof (world_phi_decreases _ _ _ Hw E). specialize (IH w1 ws' (wreach_step _ _ _ _ Hw E) H). simpl. lia.
Qed.

Theorem world_can_finish ws : wreachable cfgs ws ->
  exists sch ws', wrun cfgs sch ws = Some ws' /\ wall_done ws' = true /\ length sch <= wphi cfgs ws.
Proof.
  remember (wphi cfgs ws) as m eqn:Em. revert ws Em.
  induction m as [m IH] using lt_wf_ind. intros ws Em Hw.
  destruct (world_no_deadlock ws Hw) as [Hd|(l & w1 & Hs)].
  - exists [], ws; simpl; repeat split; auto; lia.
  - pose proof (world_phi_decreases _ _ _ Hw Hs) as Hlt.
    destruct (IH (wphi cfgs w1)) with (ws := w1) as (sch & ws' & Hrun & Hd & Hlen); auto; [lia|eapply wreach_step; eauto|].
    exists (l :: sch), ws'. simpl. rewrite Hs. repeat split; auto. simpl; lia.
Qed.
End WorldProps.

(* ================================================================ 2. nesting *)
Section NestedProofs.
Variable n : nat.
Variable children : item -> list item.
Variable inits : list item.
Variable inner : item -> wcfg.
Variable U : list item.
Hypothesis n_ok : work_do_min_n <= n.
Hypothesis U_nodup : NoDup U.
Hypothesis U_inits : forall i, In i inits -> In i U.
Hypothesis U_closed : forall i c, In i U -> In c (children i) -> In c U.
Hypothesis inner_good : forall i, good (inner i).

Notation nstep := (nstep n children inner).
Notation nrun := (nrun n children inner).
Notation ninit := (ninit n inits).
Notation nphi := (nphi n children inner U).
Notation ipot := (ipot inner).
Notation at_inner_call := (at_inner_call children).
Notation oreach := (reachable n children inits).

Inductive nreachable : nstate -> Prop :=
| nreach_init : nreachable ninit
| nreach_step ns l ns' : nreachable ns -> nstep ns l = Some ns' -> nreachable ns'.

Record NInv (ns : nstate) : Prop := {
  ni_outer : oreach (outer ns);
  ni_inner : forall i si, inn ns i = Some si -> cfg_reachable (inner i) si /\ In i (started (outer ns));
  ni_fin : forall i, In i (finished (outer ns)) -> exists si, inn ns i = Some si /\ nth_error (pcs si) 0 = Some Done
}.

Lemma inner_n_ok i : work_do_min_n <= wn (inner i).
Proof. apply (inner_good i). Qed.

Lemma at_inner_call_spec s t i : at_inner_call s t = Some i ->
  exists j, nth_error (pcs s) t = Some (Run i j) /\ nth_error (children i) j = None.
Proof.
  unfold ParWorkMulti.at_inner_call. destruct (nth_error (pcs s) t) as [[]|]; try discriminate.
  destruct (nth_error (children i0) j) eqn:E; [discriminate|]. intros H; inversion H; subst. eauto.
Qed.

Lemma upd_same f i s : upd f i s i = Some s.
Proof. unfold upd. rewrite Nat.eqb_refl. reflexivity. Qed.
Lemma upd_other f i s x : x <> i -> upd f i s x = f x.
Proof. unfold upd. intros H. destruct (Nat.eqb_spec x i); [contradiction|reflexivity]. Qed.

(* an outer step that is not `f(i) returns' (or is one whose inner Do has returned) keeps the invariant *)
Lemma NInv_outer_step ns t c s' : NInv ns -> step n children (outer ns) (t, c) = Some s' ->
  (forall i, at_inner_call (outer ns) t = Some i -> exists si, inn ns i = Some si /\ nth_error (pcs si) 0 = Some Done) ->
  NInv (mkN s' (inn ns)).
Proof.
  intros [Ho Hi Hf] Hs Hret. destruct (step_ghosts _ _ _ _ _ _ n_ok Hs) as [Hst Hfin].
  constructor; cbn [outer inn].
  - eapply reach_step; eauto.
  - intros i si H. destruct (Hi i si H) as [H1 H2]. split; auto.
  - intros i Hin. destruct Hfin as [E|(i0 & j & Hp & Hch & E)]; rewrite E in Hin.
    + apply Hf; auto.
    + destruct Hin as [<-|Hin]; [|apply Hf; auto].
      apply Hret. unfold ParWorkMulti.at_inner_call. rewrite Hp, Hch. reflexivity.
Qed.

Lemma nstep_NInv ns l ns' : NInv ns -> nstep ns l = Some ns' -> NInv ns'.
Proof.
  intros HI Hs. destruct l as [t c|i t c]; cbn [ParWorkMulti.nstep] in Hs.
  - destruct (at_inner_call (outer ns) t) as [i|] eqn:Ea.
    + destruct (inn ns i) as [si|] eqn:Ei.
      * destruct (nth_error (pcs si) 0) as [[]|] eqn:E0; try discriminate.
        unfold lift_outer in Hs. destruct (step n children (outer ns) (t, c)) as [s'|] eqn:Est; [|discriminate].
        inversion Hs; subst. eapply NInv_outer_step; eauto.
        intros i' Hi'. rewrite Ea in Hi'. inversion Hi'; subst. eauto.
      * (* f(i) calls the Do of its fresh inner Work *)
        inversion Hs; subst; clear Hs. destruct HI as [Ho Hi Hf].
        destruct (at_inner_call_spec _ _ _ Ea) as (j & Hp & Hch).
        constructor; cbn [outer inn]; auto.
        -- intros x sx Hx. destruct (Nat.eq_dec x i) as [->|Hne].
           ++ rewrite upd_same in Hx. inversion Hx; subst. split; [apply cfg_reachable_init|].
              eapply run_started; eauto.
           ++ rewrite upd_other in Hx by auto. apply Hi; auto.
        -- intros x Hx. destruct (Hf x Hx) as (sx & H1 & H2). exists sx. split; auto.
           rewrite upd_other; auto. intros ->. congruence.
    + unfold lift_outer in Hs. destruct (step n children (outer ns) (t, c)) as [s'|] eqn:Est; [|discriminate].
      inversion Hs; subst. eapply NInv_outer_step; eauto. intros i Hi. rewrite Ea in Hi. discriminate.
  - destruct (inn ns i) as [si|] eqn:Ei; [|discriminate].
    destruct (cfg_step (inner i) si (t, c)) as [si'|] eqn:Est; [|discriminate].
    inversion Hs; subst; clear Hs. destruct HI as [Ho Hi Hf]. constructor; cbn [outer inn]; auto.
    + intros x sx Hx. destruct (Nat.eq_dec x i) as [->|Hne].
      * rewrite upd_same in Hx. inversion Hx; subst. destruct (Hi i si Ei) as [H1 H2]. split; auto.
        eapply cfg_reachable_step; eauto.
      * rewrite upd_other in Hx by auto. apply Hi; auto.
    + intros x Hx. destruct (Hf x Hx) as (sx & H1 & H2). destruct (Nat.eq_dec x i) as [->|Hne].
      * rewrite Ei in H1. inversion H1; subst. exists si'. rewrite upd_same. split; auto.
        exact (done_stable _ _ _ _ _ _ 0 (inner_n_ok i) Est H2).
      * exists sx. rewrite upd_other by auto. auto.
Qed.

Lemma ninit_NInv : NInv ninit.
Proof.
  constructor; cbn [ParWorkMulti.ninit outer inn].
  - apply reach_init.
  - intros i si H; discriminate.
  - intros i Hi. unfold init_state in Hi. destruct (add_all inits [] []); simpl in Hi. destruct Hi.
Qed.

Lemma nreachable_NInv ns : nreachable ns -> NInv ns.
Proof. induction 1; [apply ninit_NInv|eapply nstep_NInv; eauto]. Qed.

(* PROJECTION: every level of a nested run is a reachable state of its own single-Work system (so the theorems about
   one Work hold for the outer Work and for every inner Work); an inner Work exists only for an outer item whose f has
   begun; f(i) has returned only if the Do of its inner Work has *)
Theorem nested_projection ns : nreachable ns ->
  reachable n children inits (outer ns) /\
  (forall i si, inn ns i = Some si -> cfg_reachable (inner i) si /\ In i (started (outer ns))) /\
  (forall i, In i (finished (outer ns)) -> exists si, inn ns i = Some si /\ nth_error (pcs si) 0 = Some Done).
Proof. intros H. destruct (nreachable_NInv ns H); auto. Qed.

(* FRAME: a step of one inner Work changes neither the outer Work nor any other inner Work; an outer step changes no
   existing inner Work *)
Theorem nested_frame ns l ns' : nstep ns l = Some ns' ->
  match l with
  | LInner i _ _ => outer ns' = outer ns /\ forall x, x <> i -> inn ns' x = inn ns x
  | LOuter _ _ => forall x sx, inn ns x = Some sx -> inn ns' x = Some sx
  end.
Proof.
  destruct l as [t c|i t c]; cbn [ParWorkMulti.nstep]; intros Hs.
  - assert (Hl : forall o, lift_outer ns o = Some ns' -> forall x sx, inn ns x = Some sx -> inn ns' x = Some sx).
    { intros [s'|] H; [|discriminate]. inversion H; subst. auto. }
    destruct (at_inner_call (outer ns) t) as [i|]; [|eauto].
    destruct (inn ns i) as [si|] eqn:Ei.
    + destruct (nth_error (pcs si) 0) as [[]|]; try discriminate. eauto.
    + inversion Hs; subst. cbn [inn]. intros x sx Hx. rewrite upd_other; auto. intros ->. congruence.
  - destruct (inn ns i) as [si|]; [|discriminate].
    destruct (cfg_step (inner i) si (t, c)); [|discriminate]. inversion Hs; subst. cbn [outer inn].
    split; auto. intros x Hx. apply upd_other; auto.
Qed.

(* when the OUTER Do has returned, every outer item reachable from the initial ones has run its inner Work to the end:
   the inner Do returned, nothing is queued or in progress there, exactly the inner Work's reachable items finished *)
Theorem nested_do_returns ns : nreachable ns -> nth_error (pcs (outer ns)) 0 = Some Done ->
  forall i, reach children inits i ->
  exists si, inn ns i = Some si /\ nth_error (pcs si) 0 = Some Done /\ todo si = [] /\ cnt is_run (pcs si) = 0 /\
             (forall x, cfg_reach (inner i) x <-> In x (finished si)) /\ NoDup (finished si).
Proof.
  intros Hr H0 i Hi. destruct (nreachable_NInv ns Hr) as [Ho Hin Hf].
  destruct (do_returns _ _ _ n_ok _ Ho H0) as (_ & _ & Hre & _).
  destruct (Hf i (proj1 (Hre i) Hi)) as (si & Hsi & Hd). exists si. split; auto. split; auto.
  destruct (Hin i si Hsi) as [Hri _].
  destruct (do_returns _ _ _ (inner_n_ok i) _ Hri Hd) as (H1 & H2 & H3 & H4 & _). auto.
Qed.

Lemma inner_scan ns : forall L,
  forallb (inner_done ns) L = true \/ exists i si, In i L /\ inn ns i = Some si /\ all_done si = false.
Proof.
  induction L as [|i L IH]; [left; reflexivity|].
  destruct IH as [IH|(x & sx & H1 & H2 & H3)]; [|right; exists x, sx; simpl; auto].
  destruct (inner_done ns i) eqn:Ed.
  - left. cbn [forallb]. rewrite Ed, IH. reflexivity.
  - right. unfold inner_done in Ed. destruct (inn ns i) as [si|] eqn:Ei; [|discriminate]. exists i, si. simpl; auto.
Qed.

(* NO DEADLOCK: unless every runner of every level has returned, some step exists *)
Theorem nested_no_deadlock ns : nreachable ns -> nfinal ns = true \/ exists l ns', nstep ns l = Some ns'.
Proof.
  intros Hr. destruct (nreachable_NInv ns Hr) as [Ho Hin Hf].
  destruct (inner_scan ns (started (outer ns))) as [Hall|(i & si & Hi & Hsi & Hnd)].
  - destruct (no_deadlock _ _ _ n_ok _ Ho) as [Hd|(t & c & s' & Hs)].
    + left. unfold nfinal. rewrite Hd, Hall. reflexivity.
    + right. exists (LOuter t c). cbn [ParWorkMulti.nstep].
      destruct (at_inner_call (outer ns) t) as [i|] eqn:Ea; [|rewrite Hs; simpl; eauto].
      destruct (inn ns i) as [si|] eqn:Ei; [|eauto].
      destruct (Hin i si Ei) as [Hri Hst].
      rewrite forallb_forall in Hall. specialize (Hall i Hst). unfold inner_done in Hall. rewrite Ei in Hall.
      rewrite (all_done_thread0 _ _ _ _ (inner_n_ok i) Hri Hall). rewrite Hs. simpl. eauto.
  - right. destruct (Hin i si Hsi) as [Hri _].
    destruct (cfg_no_deadlock _ _ (inner_good i) Hri) as [Hd|([t c] & si' & Hs)]; [congruence|].
    exists (LInner i t c). cbn [ParWorkMulti.nstep]. rewrite Hsi, Hs. eauto.
Qed.

(* the final state, spelled out *)
Theorem nested_final_spec ns : nreachable ns -> nfinal ns = true ->
  all_done (outer ns) = true /\
  (forall i si, inn ns i = Some si -> all_done si = true) /\
  (forall i, reach children inits i -> exists si, inn ns i = Some si /\ all_done si = true /\
     (forall x, cfg_reach (inner i) x <-> In x (finished si))).
Proof.
  intros Hr Hfin. unfold nfinal in Hfin. apply andb_true_iff in Hfin as [Hd Hall].
  destruct (nreachable_NInv ns Hr) as [Ho Hin Hf]. rewrite forallb_forall in Hall.
  assert (Hi : forall i si, inn ns i = Some si -> all_done si = true).
  { intros i si H. destruct (Hin i si H) as [_ Hst]. specialize (Hall i Hst). unfold inner_done in Hall.
    rewrite H in Hall. exact Hall. }
  repeat split; auto. intros i Hre.
  destruct (nested_do_returns ns Hr (all_done_thread0 _ _ _ _ n_ok Ho Hd) i Hre) as (si & H1 & _ & _ & _ & H5 & _).
  exists si. repeat split; eauto; apply H5.
Qed.

(* TERMINATION: the potential strictly decreases on every step of every level *)
Theorem nested_phi_decreases ns l ns' : nreachable ns -> nstep ns l = Some ns' -> nphi ns' < nphi ns.
Proof.
  intros Hr Hs. destruct (nreachable_NInv ns Hr) as [Ho Hin Hf]. unfold ParWorkMulti.nphi.
  assert (HinU : forall i, In i (started (outer ns)) -> In i U).
  { intros i Hi. eapply reach_in_U; eauto. eapply started_reach; eauto. }
  destruct l as [t c|i t c]; cbn [ParWorkMulti.nstep] in Hs.
  - assert (Hl : forall o, lift_outer ns o = Some ns' -> o = step n children (outer ns) (t, c) ->
                 phi n children U (outer ns') + list_sum (map (ipot ns') U) < phi n children U (outer ns) + list_sum (map (ipot ns) U)).
    { intros [s'|] H E; [|discriminate]. inversion H; subst. cbn [outer].
      pose proof (phi_decreases _ _ _ n_ok U U_nodup U_inits U_closed _ _ _ _ Ho (eq_sym E)).
      assert (list_sum (map (ipot {| outer := s'; inn := inn ns |}) U) = list_sum (map (ipot ns) U)) by reflexivity. lia. }
    destruct (at_inner_call (outer ns) t) as [i|] eqn:Ea; [|eauto].
    destruct (inn ns i) as [si|] eqn:Ei.
    + destruct (nth_error (pcs si) 0) as [[]|]; try discriminate. eauto.
    + inversion Hs; subst; clear Hs. cbn [outer].
      destruct (at_inner_call_spec _ _ _ Ea) as (j & Hp & Hch).
      assert (HiU : In i U) by (apply HinU; eapply run_started; eauto).
      apply Nat.add_lt_mono_l. apply list_sum_map_lt with (i := i); auto.
      * intros x _. unfold ParWorkMulti.ipot. cbn [inn]. destruct (Nat.eq_dec x i) as [->|Hne].
        -- rewrite upd_same, Ei. lia.
        -- rewrite upd_other by auto. lia.
      * unfold ParWorkMulti.ipot. cbn [inn]. rewrite upd_same, Ei. lia.
  - destruct (inn ns i) as [si|] eqn:Ei; [|discriminate].
    destruct (cfg_step (inner i) si (t, c)) as [si'|] eqn:Est; [|discriminate].
    inversion Hs; subst; clear Hs. cbn [outer]. destruct (Hin i si Ei) as [Hri Hst].
    pose proof (cfg_phi_decreases _ _ _ _ (inner_good i) Hri Est) as Hlt.
    apply Nat.add_lt_mono_l. apply list_sum_map_lt with (i := i); auto.
    + intros x _. unfold ParWorkMulti.ipot. cbn [inn]. destruct (Nat.eq_dec x i) as [->|Hne].
      * rewrite upd_same, Ei. lia.
      * rewrite upd_other by auto. lia.
    + unfold ParWorkMulti.ipot. cbn [inn]. rewrite upd_same, Ei. lia.
Qed.

Lemma nrun_reachable sch : forall ns ns', nreachable ns -> nrun sch ns = Some ns' -> nreachable ns'.
Proof.
  induction sch as [|l sch IH]; intros ns ns' Hr H; simpl in H.
  - inversion H; subst; auto.
  - destruct (nstep ns l) as [n1|] eqn:E; [|discriminate]. eapply IH; [|exact H]. eapply nreach_step; eauto.
Qed.

(* every schedule of the nested program is finite: at most nphi(start) steps, all levels together *)
Theorem nested_schedules_finite sch : forall ns ns', nreachable ns -> nrun sch ns = Some ns' ->
  length sch + nphi ns' <= nphi ns.
Proof.
  induction sch as [|l sch IH]; intros ns ns' Hr H; simpl in H.
  - inversion H; subst; simpl; lia.
  - destruct (nstep ns l) as [n1|] eqn:E; [|discriminate].
    pose proof (nested_phi_decreases _ _ _ Hr E). specialize (IH n1 ns' (nreach_step _ _ _ Hr E) H). simpl. lia.
Qed.

(* ... and can always be completed to the state in which every runner of every level has returned *)
Theorem nested_can_finish ns : nreachable ns ->
  exists sch ns', nrun sch ns = Some ns' /\ nfinal ns' = true /\ length sch <= nphi ns.
Proof.
  remember (nphi ns) as m eqn:Em. revert ns Em.
  induction m as [m IH] using lt_wf_ind. intros ns Em Hr.
  destruct (nested_no_deadlock ns Hr) as [Hd|(l & n1 & Hs)].
  - exists [], ns; simpl; repeat split; auto; lia.
  - pose proof (nested_phi_decreases _ _ _ Hr Hs) as Hlt.
    destruct (IH (nphi n1)) with (ns := n1) as (sch & ns' & Hrun & Hd & Hlen); auto; [lia|eapply nreach_step; eauto|].
    exists (l :: sch), ns'. simpl. rewrite Hs. repeat split; auto. simpl; lia.
Qed.
End NestedProofs.

(* ================================================================ non-vacuity *)
(* two Work objects: A = Do(2) over 0 -> 1, B = Do(1) over a single item 0 (the SAME item value as A's) *)
Definition ex_children_chain (i : item) : list item := match i with 0 => [1] | _ => [] end.
Definition ex_cfgA : wcfg := mkCfg 2 ex_children_chain [0] [0; 1].
Definition ex_cfgB : wcfg := mkCfg 1 (fun _ => []) [0] [0].
Definition ex_cfgs : list wcfg := [ex_cfgA; ex_cfgB].

Lemma ex_cfgA_good : good ex_cfgA.
Proof.
  unfold good, ex_cfgA; cbn [wn wU winits wchildren]. split; [unfold work_do_min_n; lia|]. split.
  - constructor; [simpl; intuition discriminate|]. constructor; [simpl; tauto|constructor].
  - split; [intros i [<-|[]]; simpl; auto|].
    intros i c [<-|[<-|[]]]; simpl; intuition.
Qed.
Lemma ex_cfgB_good : good ex_cfgB.
Proof.
  unfold good, ex_cfgB; cbn [wn wU winits wchildren]. split; [unfold work_do_min_n; lia|]. split.
  - constructor; [simpl; tauto|constructor].
  - split; [intros i [<-|[]]; simpl; auto|]. intros i c _ [].
Qed.
Example world_example_good : Forall good ex_cfgs.
Proof. constructor; [apply ex_cfgA_good|constructor; [apply ex_cfgB_good|constructor]]. Qed.

(* an interleaving of the two: A's runner 1 parks and is woken by the Add of item 1 while B runs in between *)
Definition ex_wsched : list (nat * (thread * nat)) :=
  [(0, (0, 0)); (1, (0, 0)); (0, (1, 0)); (0, (0, 1)); (1, (0, 0)); (0, (0, 0)); (0, (1, 0)); (1, (0, 0));
   (0, (0, 0)); (0, (1, 0)); (0, (1, 0)); (0, (0, 0))].
Example world_example_run :
  match wrun ex_cfgs ex_wsched (winit ex_cfgs) with
  | Some ws => wall_done ws && Nat.eqb (wphi ex_cfgs ws) 0 && Nat.ltb 0 (wphi ex_cfgs (winit ex_cfgs))
  | None => false
  end = true.
Proof. vm_compute. reflexivity. Qed.

Example world_example_reachable : exists ws, wreachable ex_cfgs ws /\ wall_done ws = true /\ ws <> winit ex_cfgs.
Proof.
  destruct (wrun ex_cfgs ex_wsched (winit ex_cfgs)) as [ws|] eqn:E; [|vm_compute in E; discriminate].
  exists ws. split; [eapply wrun_reachable; [apply wreach_init|exact E]|].
  vm_compute in E. inversion E; subst. split; [reflexivity|discriminate].
Qed.

(* nesting: outer Do(2) over 0 -> 1; f(i) runs a fresh inner Work Do(2) over 0 -> 1 *)
Definition ex_inner (_ : item) : wcfg := ex_cfgA.
Lemma ex_inner_good : forall i, good (ex_inner i).
Proof. intros i; apply ex_cfgA_good. Qed.

Definition ex_nested_run := auto_run 2 ex_children_chain ex_inner 200 2 (ninit 2 [0]).
Definition is_inner_label (l : nlabel) : bool := match l with LInner _ _ _ => true | _ => false end.

(* the deterministic scheduler completes the nested program: the final state is reached, by a schedule that has steps
   of both levels, within the bound nphi(init) *)
Example nested_example_run :
  let (sch, ns') := ex_nested_run in
  nfinal ns' && existsb is_inner_label sch && negb (forallb is_inner_label sch)
  && Nat.leb (length sch) (nphi 2 ex_children_chain ex_inner [0; 1] (ninit 2 [0]))
  && match nrun 2 ex_children_chain ex_inner sch (ninit 2 [0]) with Some ns'' => nfinal ns'' | None => false end = true.
Proof. vm_compute. reflexivity. Qed.

Example nested_example_reachable :
  exists ns, nreachable 2 ex_children_chain [0] ex_inner ns /\ nfinal ns = true /\
             exists si, inn ns 1 = Some si /\ all_done si = true.
Proof.
  destruct (nrun 2 ex_children_chain ex_inner (fst ex_nested_run) (ninit 2 [0])) as [ns|] eqn:E;
    [|vm_compute in E; discriminate].
  exists ns. split; [eapply nrun_reachable; [apply nreach_init|exact E]|].
  assert (Hf : match nrun 2 ex_children_chain ex_inner (fst ex_nested_run) (ninit 2 [0]) with
               | Some ns' => nfinal ns' && match inn ns' 1 with Some si => all_done si | None => false end
               | None => false end = true) by (vm_compute; reflexivity).
  rewrite E in Hf. apply andb_true_iff in Hf as [H1 H2]. split; auto.
  destruct (inn ns 1) as [si|]; [|discriminate]. eauto.
Qed.

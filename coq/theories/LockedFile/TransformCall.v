(* C07 (faults), whole call: Transform run alone on the OS model — open, lock, body, unlock,
   close — under any plan with at most one fault: all-or-nothing, and the lock is released. *)
From Coq Require Import List NArith Arith Bool Lia.
From Coq.Strings Require Import Byte.
From GI Require Import Gen.LockedFileConsts LockedFile.LockedFile LockedFile.LockBasics
  LockedFile.LockProofs LockedFile.TransformProofs.
Import ListNotations.

Arguments os_step : simpl never.

Lemma run_body_ext p : forall plan plan' n X fd,
  (forall j, plan j = plan' j) -> run_body p plan n X fd = run_body p plan' n X fd.
Proof.
  induction p as [r|o k IH|o k IH]; intros plan plan' n X fd He; simpl; [reflexivity| |];
  rewrite (He n); destruct (io_step o (plan' n) X fd) as [[r b'] fd']; now apply IH.
Qed.

Lemma run_body_shift p : forall plan n X fd,
  run_body p plan n X fd = run_body p (fun j => plan (n + j)) 0 X fd.
Proof.
  induction p as [r|o k IH|o k IH]; intros plan n X fd; simpl; [reflexivity| |];
  rewrite Nat.add_0_r; destruct (io_step o (plan n) X fd) as [[r b'] fd'];
  rewrite (IH r plan (S n)), (IH r (fun j => plan (n + j)) 1);
  apply run_body_ext; intros j; f_equal; lia.
Qed.

Lemma single_fault_shift plan n : single_fault plan -> single_fault (fun j => plan (n + j)).
Proof.
  intros Hsf m Hm j Hj. specialize (Hsf (n + m) Hm (n + j)). apply Hsf. lia.
Qed.

Lemma os_io_flt i c o s eintr flt fd :
  is_io o = true -> fds s c = Some fd ->
  os_step i c o flt eintr s =
    match io_step o flt (content_of (files s i)) fd with
    | (r, b', fd') =>
        Some (r, {| files := upd (files s) i (Some b'); fds := upd (fds s) c (Some fd');
                    refs := refs s; ltab := ltab s |})
    end.
Proof.
  intros Hio Hfd. unfold os_step. rewrite Hfd. destruct o; try discriminate Hio; reflexivity.
Qed.

(* the critical section and Close of a client that holds the only lock on its inode *)
Lemma run_seq_cs i c m b : io_only b -> forall plan n s fd,
  fds s c = Some fd -> ltab s i = [(c, m)] -> refs s c = 0 ->
  match run_seq i c (bind b close_part) plan n s, run_body b plan n (content_of (files s i)) fd with
  | (_, out, s'), (r, X', _) =>
      out = Finished r /\ content_of (files s' i) = X' /\ ltab s' i = [] /\ fds s' c = None
  end.
Proof.
  induction 1 as [x|o k Hio Hk IH]; intros plan n s fd Hfd Hlt Href.
  - assert (Ho : isopen (fds s c) = true) by now rewrite Hfd.
    simpl. rewrite ?os_mark. unfold close_prog. simpl.
    rewrite (os_flock_unlock _ _ _ _ _ Ho).
    set (s1 := {| files := files s; fds := fds s; refs := refs s;
                  ltab := upd (ltab s) i (drop c (ltab s i)) |}).
    assert (Ho1 : isopen (fds s1 c) = true) by exact Ho.
    rewrite (os_close _ _ _ _ _ Ho1). simpl. rewrite Href. simpl. rewrite !upd_same, Hlt.
    simpl. rewrite Nat.eqb_refl. simpl. auto.
  - simpl. rewrite (os_io_flt i c o s false (plan n) fd Hio Hfd).
    destruct (io_step o (plan n) (content_of (files s i)) fd) as [[r X1] fd1].
    set (s1 := {| files := upd (files s) i (Some X1); fds := upd (fds s) c (Some fd1);
                  refs := refs s; ltab := ltab s |}).
    specialize (IH r plan (S n) s1 fd1).
    assert (E : content_of (files s1 i) = X1) by (simpl; now rewrite upd_same).
    rewrite E in IH.
    destruct (run_seq i c (bind (k r) close_part) plan (S n) s1) as [[tr out] s'].
    destruct (run_body (k r) plan (S n) X1 fd1) as [[r' X'] fd'].
    apply IH; simpl; auto. now rewrite upd_same.
Qed.

Lemma transform_call_shape t :
  prog_of_call (CTransform t) =
  Do (OOpen (strip edit_flags openfile_strip_mask)) (fun r => match r with
    | ROk => Retry (OFlock (lock_arg_of_flags edit_flags)) (fun r => match r with
        | ROk => Do (OMark MReturned) (fun _ => bind (transform_body t) close_part)
        | _ => Do OClose (fun _ => Ret ResErr) end)
    | _ => Ret ResErr end).
Proof. reflexivity. Qed.

Theorem transform_call_fault_atomic t old plan :
  single_fault plan ->
  match run_seq 0 0 (prog_of_call (CTransform t)) plan 0 (os_with (Some old)) with
  | (_, out, s') =>
      ltab s' 0 = [] /\ fds s' 0 = None /\
      ((out = Finished ResOk /\ t old = Some (content_of (files s' 0))) \/
       (out = Finished ResErr /\ content_of (files s' 0) = old))
  end.
Proof.
  intros Hsf. rewrite transform_call_shape. cbn [run_seq].
  set (s1 := {| files := fun _ : nat => Some old;
                fds := upd (fun _ => None) 0 (Some (fresh_fd edit_flags));
                refs := fun _ : nat => 0; ltab := fun _ : nat => [] |}).
  change (os_step 0 0 (OOpen (strip edit_flags openfile_strip_mask)) (plan 0) false (os_with (Some old)))
    with (Some (ROk, s1)).
  cbv iota beta. cbn [run_seq].
  set (s2 := {| files := files s1; fds := fds s1; refs := refs s1;
                ltab := upd (ltab s1) 0 [(0, LEx)] |}).
  change (os_step 0 0 (OFlock (lock_arg_of_flags edit_flags)) (plan 1) false s1)
    with (Some (ROk, s2)).
  cbv iota beta. cbn [run_seq]. rewrite ?os_mark.
  change (os_step 0 0 (OMark MReturned) (plan 2) false s2) with (Some (ROk, s2)).
  cbv iota beta.
  pose proof (run_seq_cs 0 0 LEx (transform_body t) (io_only_transform t) plan 3 s2
                (fresh_fd edit_flags) eq_refl eq_refl eq_refl) as H.
  change (content_of (files s2 0)) with old in H.
  pose proof (transform_fault_atomic t old (fun j => plan (3 + j)) (fresh_fd edit_flags)
                eq_refl eq_refl eq_refl (single_fault_shift plan 3 Hsf)) as Hb.
  rewrite <- run_body_shift in Hb.
  destruct (run_seq 0 0 (bind (transform_body t) close_part) plan 3 s2) as [[tr out] s'].
  destruct (run_body (transform_body t) plan 3 old (fresh_fd edit_flags)) as [[r X'] fd'].
  destruct H as [-> [HX [Hl Hf]]]. rewrite HX.
  split; [exact Hl|]. split; [exact Hf|].
  destruct Hb as [[-> Ht]|[-> [-> _]]]; [left|right]; auto.
Qed.

(* lockedfile (C06): proofs about the handle-level model (Handles.v). *)
From Coq Require Import List NArith Arith Bool Lia.
From Coq.Strings Require Import Byte.
From GI Require Import Gen.LockedFileConsts LockedFile.LockedFile LockedFile.LockBasics LockedFile.LockProofs.
From GI Require Import LockedFile.Handles.
Import ListNotations.

Arguments os_step : simpl never.

(* ------------------------------------------------------------------ frame of a whole call *)

Definition frame (i c : nat) (s s' : os) : Prop :=
  (forall d, d <> c -> fds s' d = fds s d) /\
  (forall d j, d <> c -> locked d (ltab s' j) = locked d (ltab s j)) /\
  (forall j, ltab_ok (ltab s j) -> ltab_ok (ltab s' j)) /\
  refs s' = refs s /\
  (forall j, j <> i -> ltab s' j = ltab s j).

Lemma frame_refl i c s : frame i c s s.
Proof. unfold frame. split; [|split; [|split; [|split]]]; intros; auto. Qed.

Lemma frame_trans i c s1 s2 s3 : frame i c s1 s2 -> frame i c s2 s3 -> frame i c s1 s3.
Proof.
  intros (A1 & B1 & C1 & D1 & E1) (A2 & B2 & C2 & D2 & E2). split; [|split; [|split; [|split]]].
  - intros d Hd. now rewrite A2, A1.
  - intros d j Hd. now rewrite B2, B1.
  - auto.
  - now rewrite D2.
  - intros j Hj. now rewrite E2, E1.
Qed.

Lemma os_step_frame i c o flt e s r s' :
  os_step i c o flt e s = Some (r, s') -> frame i c s s'.
Proof.
  intros H. split; [|split; [|split; [|split]]].
  - intros d Hd. eapply os_step_fds_other; eassumption.
  - intros d j Hd. destruct (Nat.eq_dec j i) as [->|Hj].
    + eapply os_step_locked_other; eassumption.
    + now rewrite (os_step_ltab_other_inode _ _ _ _ _ _ _ _ j H Hj).
  - intros j Hok. destruct (Nat.eq_dec j i) as [->|Hj].
    + eapply os_step_ltab_ok; eassumption.
    + now rewrite (os_step_ltab_other_inode _ _ _ _ _ _ _ _ j H Hj).
  - eapply os_step_refs; eassumption.
  - intros j Hj. eapply os_step_ltab_other_inode; eassumption.
Qed.

Lemma run_seq_frame i c p : forall plan n s tr out s',
  run_seq i c p plan n s = (tr, out, s') -> frame i c s s'.
Proof.
  induction p as [r|o k IH|o k IH]; intros plan n s tr out s' H; cbn [run_seq] in H.
  - injection H as <- <- <-. apply frame_refl.
  - destruct (os_step i c o (plan n) false s) as [[r s1]|] eqn:Hs.
    + destruct (run_seq i c (k r) plan (S n) s1) as [[tr1 out1] s2] eqn:Hr.
      injection H as <- <- <-.
      eapply frame_trans; [eapply os_step_frame; eassumption|eapply IH; eassumption].
    + injection H as <- <- <-. apply frame_refl.
  - destruct (os_step i c o (plan n) false s) as [[r s1]|] eqn:Hs.
    + destruct r; try (injection H as <- <- <-; apply frame_refl);
      (destruct (run_seq i c (k _) plan (S n) s1) as [[tr1 out1] s2] eqn:Hr;
       injection H as <- <- <-;
       eapply frame_trans; [eapply os_step_frame; eassumption|eapply IH; eassumption]).
    + injection H as <- <- <-. apply frame_refl.
Qed.

(* ------------------------------------------------------------------ closeFile *)

Lemma kind_of_mode fl k : lock_mode_of_flags fl = Some k -> kind_of fl = k.
Proof. unfold kind_of. now intros ->. Qed.

Lemma close_seq i c k s tr out s' x :
  isopen (fds s c) = true -> refs s c = 0 ->
  run_seq i c (close_prog (Ret x)) no_faults k s = (tr, out, s') ->
  out = Finished x /\ fds s' c = None /\ locked c (ltab s' i) = None /\ files s' = files s.
Proof.
  intros Ho Hr H. unfold close_prog in H. destruct closefile_unlock_first; cbn [run_seq] in H.
  - rewrite (os_flock_unlock i c s false _ Ho) in H.
    set (s1 := {| files := files s; fds := fds s; refs := refs s;
                  ltab := upd (ltab s) i (drop c (ltab s i)) |}) in *.
    assert (Ho1 : isopen (fds s1 c) = true) by exact Ho.
    rewrite (os_close i c s1 false _ Ho1) in H. simpl in H. injection H as <- <- <-.
    simpl. rewrite Hr. simpl. rewrite !upd_same. repeat split; auto.
    apply locked_drop_same.
  - rewrite (os_close i c s false _ Ho) in H. rewrite Hr in H. simpl in H.
    set (s1 := {| files := files s; fds := upd (fds s) c None; refs := refs s;
                  ltab := upd (ltab s) i (drop c (ltab s i)) |}) in *.
    assert (Hf : os_step i c (OFlock filelock_unlock_arg) (no_faults (S k)) false s1 = Some (RErr, s1)).
    { unfold os_step. simpl. now rewrite upd_same. }
    rewrite Hf in H. injection H as <- <- <-. simpl. rewrite !upd_same. repeat split; auto.
    apply locked_drop_same.
Qed.

(* ------------------------------------------------------------------ OpenFile *)

Lemma trunc_fail_seq i c k s tr out s' :
  isopen (fds s c) = true -> refs s c = 0 ->
  run_seq i c (trunc_fail_prog (Ret ResErr)) no_faults k s = (tr, out, s') ->
  out = Finished ResErr /\ fds s' c = None /\ locked c (ltab s' i) = None.
Proof.
  intros Ho Hr H. unfold trunc_fail_prog in H. destruct truncate_failure_unlocks_first; cbn [run_seq] in H.
  - rewrite (os_flock_unlock i c s false _ Ho) in H.
    set (s1 := {| files := files s; fds := fds s; refs := refs s;
                  ltab := upd (ltab s) i (drop c (ltab s i)) |}) in *.
    assert (Ho1 : isopen (fds s1 c) = true) by exact Ho.
    rewrite (os_close i c s1 false _ Ho1) in H. simpl in H. injection H as <- <- <-.
    simpl. rewrite Hr. simpl. rewrite !upd_same. repeat split; auto. apply locked_drop_same.
  - rewrite (os_close i c s false _ Ho) in H. rewrite Hr in H. simpl in H.
    set (s1 := {| files := files s; fds := upd (fds s) c None; refs := refs s;
                  ltab := upd (ltab s) i (drop c (ltab s i)) |}) in *.
    assert (Hf : os_step i c (OFlock filelock_unlock_arg) (no_faults (S k)) false s1 = Some (RErr, s1)).
    { unfold os_step. simpl. now rewrite upd_same. }
    rewrite Hf in H. injection H as <- <- <-. simpl. rewrite !upd_same. repeat split; auto.
    apply locked_drop_same.
Qed.

Definition kret : bool -> prog := fun ok => Ret (if ok then ResOk else ResErr).

(* the truncate stage, entered with the descriptor open and the lock l *)
Lemma trunc_stage_seq i c fl k s tr out s' l :
  isopen (fds s c) = true -> refs s c = 0 -> locked c (ltab s i) = Some l ->
  run_seq i c (trunc_stage fl kret) no_faults k s = (tr, out, s') ->
  (out = Finished ResOk /\ isopen (fds s' c) = true /\ locked c (ltab s' i) = Some l) \/
  (out = Finished ResErr /\ fds s' c = None /\ locked c (ltab s' i) = None).
Proof.
  intros Ho Hr Hl H. unfold trunc_stage in H. destruct (has_flag fl truncate_cond_mask).
  - cbn [run_seq] in H.
    destruct (os_io i c (OFtruncate (N.to_nat truncate_size)) s false (no_faults k) eq_refl Ho)
      as [r [s1 [Hs [Ho1 Hl1]]]].
    rewrite Hs in H.
    assert (Hr1 : refs s1 c = 0) by (now rewrite (os_step_refs _ _ _ _ _ _ _ _ Hs)).
    destruct r.
    + cbn [run_seq kret] in H. injection H as <- <- <-. left. rewrite Hl1. auto.
    + destruct (run_seq i c (trunc_fail_prog (kret false)) no_faults (S k) s1) as [[tr1 out1] s2] eqn:Hf.
      injection H as <- <- <-. right. eapply trunc_fail_seq; eassumption.
    + destruct (run_seq i c (trunc_fail_prog (kret false)) no_faults (S k) s1) as [[tr1 out1] s2] eqn:Hf.
      injection H as <- <- <-. right. eapply trunc_fail_seq; eassumption.
    + destruct (run_seq i c (trunc_fail_prog (kret false)) no_faults (S k) s1) as [[tr1 out1] s2] eqn:Hf.
      injection H as <- <- <-. right. eapply trunc_fail_seq; eassumption.
  - cbn [run_seq kret] in H. injection H as <- <- <-. left. auto.
Qed.

Lemma open_only_seq i c fl s tr out s' :
  fds s c = None -> locked c (ltab s i) = None -> refs s c = 0 ->
  run_seq i c (open_only fl) no_faults 0 s = (tr, out, s') ->
  match out with
  | Finished ResOk => isopen (fds s' c) = true /\ locked c (ltab s' i) = Some (kind_of fl)
  | Finished _ => fds s' c = None /\ locked c (ltab s' i) = None
  | Blocked => True
  end.
Proof.
  intros Hf Hl Hr H. unfold open_only, open_file_prog in H. cbn [run_seq] in H.
  destruct (os_step i c (OOpen (strip fl openfile_strip_mask)) (no_faults 0) false s) as [[r s1]|] eqn:Hs;
    [|injection H as <- <- <-; exact I].
  assert (Hr1 : refs s1 c = 0) by (now rewrite (os_step_refs _ _ _ _ _ _ _ _ Hs)).
  apply os_open_result in Hs; [|now rewrite Hf].
  destruct Hs as [(-> & Ho1 & Hlt & _)|(-> & ->)].
  2:{ cbn [run_seq] in H. injection H as <- <- <-. auto. }
  unfold truncate_after_lock, lock_stage, flock_step, lock_retries_eintr in H. cbn [run_seq] in H.
  destruct (lock_mode_total fl) as [k [Hm Hreq]].
  rewrite (os_flock_req i c _ k s1 false _ Hreq Ho1) in H.
  destruct (negb (lockable (fds s1 c))).
  - (* flock refused: close, return the error *)
    cbn [run_seq] in H. rewrite (os_close i c s1 false _ Ho1) in H. rewrite Hr1 in H.
    cbn [run_seq] in H. injection H as <- <- <-. simpl. rewrite !upd_same. split; auto.
    apply locked_drop_same.
  - destruct (can_grant k c (ltab s1 i)); [|injection H as <- <- <-; exact I].
    set (s2 := {| files := files s1; fds := fds s1; refs := refs s1;
                  ltab := upd (ltab s1) i ((c, k) :: drop c (ltab s1 i)) |}) in *.
    destruct (run_seq i c (trunc_stage fl (fun ok : bool => Ret (if ok then ResOk else ResErr))) no_faults 2 s2)
      as [[tr2 out2] s3] eqn:Ht.
    injection H as <- <- <-.
    assert (Ho2 : isopen (fds s2 c) = true) by exact Ho1.
    assert (Hr2 : refs s2 c = 0) by exact Hr1.
    assert (Hl2 : locked c (ltab s2 i) = Some k) by (apply locked_upd_grant).
    destruct (trunc_stage_seq i c fl 2 s2 tr2 out2 s3 k Ho2 Hr2 Hl2 Ht) as [(-> & A & B)|(-> & A & B)].
    + rewrite (kind_of_mode _ _ Hm). auto.
    + auto.
Qed.

(* ------------------------------------------------------------------ lists *)

Lemma upd_nth_length {A} (g : A -> A) l : forall n, length (upd_nth n g l) = length l.
Proof. induction l as [|x r IH]; intros [|n]; simpl; auto. Qed.

Lemma upd_nth_same {A} (g : A -> A) l : forall n, nth_error (upd_nth n g l) n = option_map g (nth_error l n).
Proof. induction l as [|x r IH]; intros [|n]; simpl; auto. Qed.

Lemma upd_nth_other {A} (g : A -> A) l : forall n m, m <> n -> nth_error (upd_nth n g l) m = nth_error l m.
Proof.
  induction l as [|x r IH]; intros [|n] [|m] Hm; simpl; auto; try congruence.
Qed.

Lemma nth_error_snoc {A} (l : list A) x h :
  nth_error (l ++ [x]) h = if h <? length l then nth_error l h else if h =? length l then Some x else None.
Proof.
  destruct (Nat.ltb_spec h (length l)) as [Hlt|Hge].
  - now apply nth_error_app1.
  - rewrite nth_error_app2 by assumption. destruct (Nat.eqb_spec h (length l)) as [->|Hne].
    + now rewrite Nat.sub_diag.
    + destruct (h - length l) as [|k] eqn:Hk; [lia|]. simpl. now destruct k.
Qed.

(* ------------------------------------------------------------------ the invariant *)

Record hinv4 (o : os) (fl : list hfile) (fr : list nat) (nx : nat) : Prop := {
  iv_refs : forall c, refs o c = 0;
  iv_ltab : forall j, ltab_ok (ltab o j);
  iv_free : forall x, In x fr -> x < nx;
  iv_free_nd : NoDup fr;
  iv_open : forall h f, nth_error fl h = Some f -> open_handle f = true ->
      isopen (fds o (hf_fd f)) = true /\ hf_fd f < nx /\ ~ In (hf_fd f) fr /\
      locked (hf_fd f) (ltab o (hf_ino f)) = Some (hf_kind f);
  iv_distinct : forall h1 h2 f1 f2, nth_error fl h1 = Some f1 -> nth_error fl h2 = Some f2 ->
      open_handle f1 = true -> open_handle f2 = true -> hf_fd f1 = hf_fd f2 -> h1 = h2;
  iv_fd_owned : forall c, isopen (fds o c) = true ->
      exists h f, nth_error fl h = Some f /\ open_handle f = true /\ hf_fd f = c;
  iv_lock_owned : forall j c, locked c (ltab o j) <> None ->
      exists h f, nth_error fl h = Some f /\ open_handle f = true /\ hf_fd f = c /\ hf_ino f = j;
  iv_nok : forall h f, nth_error fl h = Some f -> hf_ok f = false -> hf_closed f = true
}.

Definition hinv (s : hstate) : Prop := hinv4 (h_os s) (h_files s) (h_free s) (h_next s).

Lemma hinv_init f : hinv (hinit f).
Proof.
  constructor; simpl.
  - reflexivity.
  - intros j. apply ltab_ok_nil.
  - intros x [].
  - constructor.
  - intros h g Hg. destruct h; discriminate Hg.
  - intros h1 h2 g1 g2 Hg. destruct h1; discriminate Hg.
  - intros c Hc. discriminate Hc.
  - intros j c Hc. now elim Hc.
  - intros h g Hg. destruct h; discriminate Hg.
Qed.

(* the number the next open gets is not in use *)
Lemma alloc_unused s : hinv s ->
  fds (h_os s) (alloc s) = None /\ (forall j, locked (alloc s) (ltab (h_os s) j) = None) /\
  (forall h f, nth_error (h_files s) h = Some f -> open_handle f = true -> hf_fd f <> alloc s).
Proof.
  intros I.
  assert (Hno : forall h f, nth_error (h_files s) h = Some f -> open_handle f = true -> hf_fd f <> alloc s).
  { intros h f Hg Ho He. destruct (iv_open _ _ _ _ I h f Hg Ho) as (_ & Hlt & Hni & _).
    unfold alloc in He. destruct (h_free s) as [|x r]; [lia|]. apply Hni. left. congruence. }
  split; [|split]; auto.
  - destruct (fds (h_os s) (alloc s)) eqn:E; [|reflexivity]. exfalso.
    destruct (iv_fd_owned _ _ _ _ I (alloc s)) as (h & g & Hg & Ho & He); [now rewrite E|].
    eapply Hno; eassumption.
  - intros j. destruct (locked (alloc s) (ltab (h_os s) j)) eqn:E; [|reflexivity]. exfalso.
    destruct (iv_lock_owned _ _ _ _ I j (alloc s)) as (h & g & Hg & Ho & He & _); [now rewrite E|].
    eapply Hno; eassumption.
Qed.

Lemma nth_error_snoc_old {A} (l : list A) x h f :
  nth_error l h = Some f -> nth_error (l ++ [x]) h = Some f.
Proof.
  intros H. rewrite nth_error_app1; [exact H|]. apply nth_error_Some. congruence.
Qed.

Lemma nth_error_snoc_inv {A} (l : list A) x h f :
  nth_error (l ++ [x]) h = Some f -> nth_error l h = Some f \/ (h = length l /\ f = x).
Proof.
  rewrite nth_error_snoc. destruct (h <? length l); [auto|].
  destruct (Nat.eqb_spec h (length l)); [|discriminate]. intros [= <-]. auto.
Qed.

Lemma nth_error_snoc_new {A} (l : list A) x : nth_error (l ++ [x]) (length l) = Some x.
Proof. rewrite nth_error_snoc, Nat.ltb_irrefl, Nat.eqb_refl. reflexivity. Qed.

Lemma alloc_lt_next s : hinv s -> alloc s < next_after_alloc s.
Proof.
  intros I. unfold alloc, next_after_alloc. destruct (h_free s) as [|x r] eqn:E; [lia|].
  apply (iv_free _ _ _ _ I). rewrite E. now left.
Qed.

Lemma next_mono s : h_next s <= next_after_alloc s.
Proof. unfold next_after_alloc. destruct (h_free s); lia. Qed.

Lemma free_after_sub s x : In x (free_after_alloc s) -> In x (h_free s).
Proof. unfold free_after_alloc. destruct (h_free s); [tauto|now right]. Qed.

Lemma alloc_not_in_rest s : hinv s -> ~ In (alloc s) (free_after_alloc s).
Proof.
  intros I. pose proof (iv_free_nd _ _ _ _ I) as Hnd. unfold alloc, free_after_alloc.
  destruct (h_free s) as [|x r]; [tauto|]. now inversion Hnd.
Qed.

Lemma free_after_nd s : hinv s -> NoDup (free_after_alloc s).
Proof.
  intros I. pose proof (iv_free_nd _ _ _ _ I) as Hnd. unfold free_after_alloc.
  destruct (h_free s) as [|x r]; [constructor|]. now inversion Hnd.
Qed.

Lemma hinv_open i fl mx s : hinv s -> hinv (h_open i fl mx s).
Proof.
  intros I. unfold h_open.
  destruct (run_seq i (alloc s) (open_only fl) no_faults 0 (h_os s)) as [[tr out] o'] eqn:Hrun.
  destruct (alloc_unused s I) as (Hfd & Hlk & Hno).
  pose proof (run_seq_frame _ _ _ _ _ _ _ _ _ Hrun) as (FA & FB & FC & FD & FE).
  pose proof (open_only_seq i (alloc s) fl _ _ _ _ Hfd (Hlk i) (iv_refs _ _ _ _ I (alloc s)) Hrun) as Hres.
  set (c := alloc s) in *.
  assert (Hold : forall h f, nth_error (h_files s) h = Some f -> open_handle f = true ->
            isopen (fds o' (hf_fd f)) = true /\ hf_fd f < h_next s /\ ~ In (hf_fd f) (h_free s) /\
            locked (hf_fd f) (ltab o' (hf_ino f)) = Some (hf_kind f) /\ hf_fd f <> c).
  { intros h f Hg Ho. destruct (iv_open _ _ _ _ I h f Hg Ho) as (A & B & C & D).
    pose proof (Hno h f Hg Ho) as Hne. rewrite (FA _ Hne), (FB _ _ Hne). auto. }
  destruct out as [r|]; [|exact I].
  assert (Herr : forall nf, open_handle nf = false -> hf_closed nf = true -> fds o' c = None -> locked c (ltab o' i) = None ->
            hinv4 o' (h_files s ++ [nf]) (h_free s) (h_next s)).
  { intros nf Hnf Hnc Hc Hl. constructor.
    - intros d. rewrite FD. apply (iv_refs _ _ _ _ I).
    - intros j. apply FC, (iv_ltab _ _ _ _ I).
    - apply (iv_free _ _ _ _ I).
    - apply (iv_free_nd _ _ _ _ I).
    - intros h f Hg Ho. apply nth_error_snoc_inv in Hg. destruct Hg as [Hg|[_ ->]]; [|congruence].
      destruct (Hold h f Hg Ho) as (A & B & C & D & _). auto.
    - intros h1 h2 f1 f2 H1 H2 O1 O2 E. apply nth_error_snoc_inv in H1, H2.
      destruct H1 as [H1|[_ ->]]; [|congruence]. destruct H2 as [H2|[_ ->]]; [|congruence].
      eapply (iv_distinct _ _ _ _ I); eassumption.
    - intros d Hd. destruct (Nat.eq_dec d c) as [->|Hne]; [rewrite Hc in Hd; discriminate|].
      rewrite (FA _ Hne) in Hd. destruct (iv_fd_owned _ _ _ _ I d Hd) as (h & f & Hg & Ho & He).
      exists h, f. split; [now apply nth_error_snoc_old|auto].
    - intros j d Hd. destruct (Nat.eq_dec d c) as [->|Hne].
      + exfalso. apply Hd. destruct (Nat.eq_dec j i) as [->|Hj]; [exact Hl|].
        rewrite (FE _ Hj). apply Hlk.
      + rewrite (FB _ _ Hne) in Hd. destruct (iv_lock_owned _ _ _ _ I j d Hd) as (h & f & Hg & Ho & He).
        exists h, f. split; [now apply nth_error_snoc_old|auto].
    - intros h f Hg Hnok. apply nth_error_snoc_inv in Hg. destruct Hg as [Hg|[_ ->]]; [|exact Hnc].
      eapply (iv_nok _ _ _ _ I); eassumption. }
  destruct r as [| |b].
  - (* a File is returned *)
    destruct Hres as [Hop Hlk'].
    constructor; simpl.
    + intros d. rewrite FD. apply (iv_refs _ _ _ _ I).
    + intros j. apply FC, (iv_ltab _ _ _ _ I).
    + intros x Hx. apply free_after_sub in Hx. pose proof (next_mono s).
      pose proof (iv_free _ _ _ _ I x Hx). lia.
    + now apply free_after_nd.
    + intros h f Hg Ho. apply nth_error_snoc_inv in Hg. destruct Hg as [Hg|[_ ->]].
      * destruct (Hold h f Hg Ho) as (A & B & C & D & _). pose proof (next_mono s).
        repeat split; auto; try lia. intros Hin. apply C. now apply free_after_sub.
      * simpl. repeat split; auto. -- now apply alloc_lt_next. -- now apply alloc_not_in_rest.
    + intros h1 h2 f1 f2 H1 H2 O1 O2 E. apply nth_error_snoc_inv in H1, H2.
      destruct H1 as [H1|[-> ->]], H2 as [H2|[-> ->]]; auto.
      * eapply (iv_distinct _ _ _ _ I); eassumption.
      * exfalso. destruct (Hold h1 f1 H1 O1) as (_ & _ & _ & _ & Hne). now apply Hne.
      * exfalso. destruct (Hold h2 f2 H2 O2) as (_ & _ & _ & _ & Hne). now apply Hne.
    + intros d Hd. destruct (Nat.eq_dec d c) as [->|Hne].
      * eexists (length (h_files s)), _. split; [apply nth_error_snoc_new|]. split; reflexivity.
      * rewrite (FA _ Hne) in Hd. destruct (iv_fd_owned _ _ _ _ I d Hd) as (h & f & Hg & Ho & He).
        exists h, f. split; [now apply nth_error_snoc_old|auto].
    + intros j d Hd. destruct (Nat.eq_dec d c) as [->|Hne].
      * destruct (Nat.eq_dec j i) as [->|Hj].
        -- eexists (length (h_files s)), _. split; [apply nth_error_snoc_new|]. repeat split; reflexivity.
        -- exfalso. apply Hd. rewrite (FE _ Hj). apply Hlk.
      * rewrite (FB _ _ Hne) in Hd. destruct (iv_lock_owned _ _ _ _ I j d Hd) as (h & f & Hg & Ho & He).
        exists h, f. split; [now apply nth_error_snoc_old|auto].
    + intros h f Hg Hnok. apply nth_error_snoc_inv in Hg. destruct Hg as [Hg|[_ ->]]; [|discriminate Hnok].
      eapply (iv_nok _ _ _ _ I); eassumption.
  - destruct Hres as [Hc Hl]. now apply Herr.
  - destruct Hres as [Hc Hl]. now apply Herr.
Qed.

Lemma set_closed_not_open f : open_handle (set_closed f) = false.
Proof. unfold open_handle, set_closed. simpl. apply andb_false_r. Qed.

Lemma closed_get l h h' f' :
  nth_error (upd_nth h set_closed l) h' = Some f' -> open_handle f' = true ->
  h' <> h /\ nth_error l h' = Some f'.
Proof.
  intros Hg Ho. destruct (Nat.eq_dec h' h) as [->|Hne].
  - rewrite upd_nth_same in Hg. destruct (nth_error l h); [|discriminate]. simpl in Hg.
    injection Hg as <-. now rewrite set_closed_not_open in Ho.
  - split; [exact Hne|]. now rewrite upd_nth_other in Hg.
Qed.

Lemma hinv_closefile h f s :
  hinv s -> nth_error (h_files s) h = Some f -> open_handle f = true -> hinv (h_closefile h f s).
Proof.
  intros I Hg Ho. unfold h_closefile.
  destruct (run_seq (hf_ino f) (hf_fd f) close_only no_faults 0 (h_os s)) as [[tr out] o'] eqn:Hrun.
  destruct (iv_open _ _ _ _ I h f Hg Ho) as (Hop & Hlt & Hni & Hlk).
  pose proof (run_seq_frame _ _ _ _ _ _ _ _ _ Hrun) as (FA & FB & FC & FD & FE).
  destruct (close_seq _ _ _ _ _ _ _ _ Hop (iv_refs _ _ _ _ I _) Hrun) as (_ & Hc & Hl & _).
  set (c := hf_fd f) in *. set (i := hf_ino f) in *.
  assert (Hother : forall h' f', nth_error (upd_nth h set_closed (h_files s)) h' = Some f' ->
            open_handle f' = true -> h' <> h /\ nth_error (h_files s) h' = Some f' /\ hf_fd f' <> c).
  { intros h' f' Hg' Ho'. destruct (closed_get _ _ _ _ Hg' Ho') as [Hne Hg2]. repeat split; auto.
    intros He. apply Hne. eapply (iv_distinct _ _ _ _ I); eassumption. }
  constructor; simpl.
  - intros d. rewrite FD. apply (iv_refs _ _ _ _ I).
  - intros j. apply FC, (iv_ltab _ _ _ _ I).
  - intros x [<-|Hx]; [exact Hlt|]. now apply (iv_free _ _ _ _ I).
  - constructor; [exact Hni|apply (iv_free_nd _ _ _ _ I)].
  - intros h' f' Hg' Ho'. destruct (Hother h' f' Hg' Ho') as (Hne & Hg2 & Hfd).
    destruct (iv_open _ _ _ _ I h' f' Hg2 Ho') as (A & B & C & D).
    rewrite (FA _ Hfd), (FB _ _ Hfd). repeat split; auto. intros [E|E]; [now apply Hfd|now apply C].
  - intros h1 h2 f1 f2 H1 H2 O1 O2 E.
    destruct (Hother h1 f1 H1 O1) as (_ & G1 & _). destruct (Hother h2 f2 H2 O2) as (_ & G2 & _).
    eapply (iv_distinct _ _ _ _ I); eassumption.
  - intros d Hd. destruct (Nat.eq_dec d c) as [->|Hne]; [rewrite Hc in Hd; discriminate|].
    rewrite (FA _ Hne) in Hd. destruct (iv_fd_owned _ _ _ _ I d Hd) as (h0 & f0 & G0 & O0 & E0).
    exists h0, f0. split; [|auto]. rewrite upd_nth_other; [exact G0|].
    intros ->. rewrite Hg in G0. injection G0 as <-. now apply Hne.
  - intros j d Hd.
    assert (Hown : locked d (ltab (h_os s) j) <> None /\ (d = c -> j <> i)).
    { destruct (Nat.eq_dec d c) as [->|Hne].
      - destruct (Nat.eq_dec j i) as [->|Hj]; [now elim Hd|]. rewrite (FE _ Hj) in Hd. auto.
      - rewrite (FB _ _ Hne) in Hd. split; [exact Hd|contradiction]. }
    destruct Hown as [Hd0 Hci].
    destruct (iv_lock_owned _ _ _ _ I j d Hd0) as (h0 & f0 & G0 & O0 & E0 & J0).
    exists h0, f0. split; [|auto]. rewrite upd_nth_other; [exact G0|].
    intros ->. rewrite Hg in G0. injection G0 as <-. apply (Hci (eq_sym E0)). symmetry. exact J0.
  - intros h' f' Hg' Hnok. destruct (Nat.eq_dec h' h) as [->|Hne].
    + rewrite upd_nth_same, Hg in Hg'. injection Hg' as <-. reflexivity.
    + rewrite upd_nth_other in Hg' by assumption. eapply (iv_nok _ _ _ _ I); eassumption.
Qed.

Lemma hinv_close h s : hinv s -> hinv (h_close h s).
Proof.
  intros I. unfold h_close. destruct (nth_error (h_files s) h) as [f|] eqn:Hg; [|exact I].
  unfold close_checks_closed_first. destruct (hf_closed f) eqn:Hcl; [exact I|].
  apply hinv_closefile; auto. unfold open_handle. rewrite Hcl.
  destruct (hf_ok f) eqn:Hok; [reflexivity|].
  rewrite (iv_nok _ _ _ _ I h f Hg Hok) in Hcl. discriminate.
Qed.

Lemma hinv_user_close h s : hinv s -> hinv (h_user_close h s).
Proof.
  intros I. unfold h_user_close. destruct (nth_error (h_files s) h) as [f|]; [|exact I].
  destruct (hf_mutex f); [exact I|now apply hinv_close].
Qed.

(* the invariant sees of a File only: inode, descriptor, kind, ok, closed *)
Definition core (f : hfile) := (hf_ino f, hf_fd f, hf_kind f, hf_ok f, hf_closed f).

Lemma core_open f g : core f = core g -> open_handle f = open_handle g.
Proof. unfold core, open_handle. intros [= _ _ _ -> ->]. reflexivity. Qed.

Lemma hinv4_ext o fl fl' fr nx :
  (forall h, option_map core (nth_error fl' h) = option_map core (nth_error fl h)) ->
  hinv4 o fl fr nx -> hinv4 o fl' fr nx.
Proof.
  intros E I.
  assert (Fwd : forall h f', nth_error fl' h = Some f' -> exists f, nth_error fl h = Some f /\ core f = core f').
  { intros h f' Hg. specialize (E h). rewrite Hg in E. destruct (nth_error fl h) as [f|]; [|discriminate].
    exists f. split; [reflexivity|]. simpl in E. congruence. }
  assert (Bwd : forall h f, nth_error fl h = Some f -> exists f', nth_error fl' h = Some f' /\ core f = core f').
  { intros h f Hg. specialize (E h). rewrite Hg in E. destruct (nth_error fl' h) as [f'|]; [|discriminate].
    exists f'. split; [reflexivity|]. simpl in E. congruence. }
  constructor.
  - apply (iv_refs _ _ _ _ I).
  - apply (iv_ltab _ _ _ _ I).
  - apply (iv_free _ _ _ _ I).
  - apply (iv_free_nd _ _ _ _ I).
  - intros h f' Hg Ho. destruct (Fwd h f' Hg) as (f & G & C). rewrite <- (core_open _ _ C) in Ho.
    pose proof (iv_open _ _ _ _ I h f G Ho) as P. unfold core in C. injection C as <- <- <- _ _. exact P.
  - intros h1 h2 f1 f2 H1 H2 O1 O2 Efd.
    destruct (Fwd h1 f1 H1) as (g1 & G1 & C1). destruct (Fwd h2 f2 H2) as (g2 & G2 & C2).
    rewrite <- (core_open _ _ C1) in O1. rewrite <- (core_open _ _ C2) in O2.
    apply (iv_distinct _ _ _ _ I h1 h2 g1 g2 G1 G2 O1 O2).
    unfold core in C1, C2. injection C1 as _ -> _ _ _. injection C2 as _ -> _ _ _. exact Efd.
  - intros c Hc. destruct (iv_fd_owned _ _ _ _ I c Hc) as (h & f & G & O & Efd).
    destruct (Bwd h f G) as (f' & G' & C). exists h, f'. rewrite <- (core_open _ _ C).
    unfold core in C. injection C as _ <- _ _ _. auto.
  - intros j c Hc. destruct (iv_lock_owned _ _ _ _ I j c Hc) as (h & f & G & O & Efd & Ei).
    destruct (Bwd h f G) as (f' & G' & C). exists h, f'. rewrite <- (core_open _ _ C).
    unfold core in C. injection C as <- <- _ _ _. auto.
  - intros h f' Hg Hnok. destruct (Fwd h f' Hg) as (f & G & C).
    unfold core in C. injection C as _ _ _ Eok Ecl. rewrite <- Ecl. apply (iv_nok _ _ _ _ I h f G). congruence.
Qed.

Lemma hinv_drop h s : hinv s -> hinv (h_drop h s).
Proof.
  intros I. unfold hinv, h_drop. simpl. apply (hinv4_ext _ (h_files s)); [|exact I].
  intros h'. destruct (Nat.eq_dec h' h) as [->|Hne].
  - rewrite upd_nth_same. destruct (nth_error (h_files s) h); reflexivity.
  - now rewrite upd_nth_other.
Qed.

Lemma hinv_gc s : hinv s -> hinv (h_gc s).
Proof. intros I. unfold h_gc. destruct (existsb leaked (h_files s)); exact I. Qed.

Lemma hinv_mlock m s : hinv s -> hinv (h_mlock m s).
Proof.
  intros I. unfold h_mlock. destruct (nth_error (h_mutexes s) m) as [mu|]; [|exact I].
  pose proof (hinv_open (hm_ino mu) mutex_flags (Some m) s I) as I1.
  destruct (h_stuck _); [exact I1|]. destruct (last_ok _); [|exact I1].
  destruct (hm_locked mu); exact I1.
Qed.

Lemma hinv_munlock h s : hinv s -> hinv (h_munlock h s).
Proof.
  intros I. unfold h_munlock. destruct (nth_error (h_files s) h) as [f|]; [|exact I].
  destruct (hf_mutex f) as [m|]; [|exact I]. destruct (hf_ok f); [|exact I].
  destruct (nth_error (h_mutexes s) m) as [mu|]; [|exact I].
  destruct (hm_locked mu); [|exact I].
  apply hinv_close. exact I.
Qed.

Lemma hinv_exec s e : hinv s -> hinv (hexec s e).
Proof.
  intros I. unfold hexec. destruct (h_stuck s || h_panic s); [exact I|].
  destruct e.
  - now apply hinv_open.
  - now apply hinv_user_close.
  - now apply hinv_drop.
  - now apply hinv_gc.
  - exact I.
  - now apply hinv_mlock.
  - now apply hinv_munlock.
Qed.

Lemma hinv_run evs : forall s, hinv s -> hinv (hrun s evs).
Proof.
  induction evs as [|e r IH]; intros s I; [exact I|]. apply IH. now apply hinv_exec.
Qed.

(* ------------------------------------------------------------------ held until Close *)

Lemma files_open_old i fl mx s h f :
  nth_error (h_files s) h = Some f -> nth_error (h_files (h_open i fl mx s)) h = Some f.
Proof.
  intros Hg. unfold h_open.
  destruct (run_seq i (alloc s) (open_only fl) no_faults 0 (h_os s)) as [[tr [r|]] o']; [|exact Hg].
  destruct r; simpl; now apply nth_error_snoc_old.
Qed.

Lemma files_close_other h' s h : h <> h' ->
  nth_error (h_files (h_close h' s)) h = nth_error (h_files s) h.
Proof.
  intros Hne. unfold h_close. destruct (nth_error (h_files s) h') as [f0|]; [|reflexivity].
  unfold close_checks_closed_first. destruct (hf_closed f0); [reflexivity|].
  unfold h_closefile. destruct (run_seq _ _ _ _ _ _) as [[tr out] o']. simpl.
  now apply upd_nth_other.
Qed.

Lemma set_dropped_core f : core (set_dropped f) = core f.
Proof. reflexivity. Qed.

Lemma held_step s e h f :
  nth_error (h_files s) h = Some f -> e <> HClose h -> e <> HMUnlock h ->
  exists f', nth_error (h_files (hexec s e)) h = Some f' /\ core f' = core f.
Proof.
  intros Hg Hc Hu. unfold hexec. destruct (h_stuck s || h_panic s); [now exists f|].
  destruct e as [i fl|h'|h'| |i|m|h'].
  - exists f. split; [now apply files_open_old|reflexivity].
  - exists f. split; [|reflexivity]. unfold h_user_close.
    destruct (nth_error (h_files s) h') as [f0|]; [|exact Hg]. destruct (hf_mutex f0); [exact Hg|].
    rewrite files_close_other; [exact Hg|congruence].
  - unfold h_drop. simpl. destruct (Nat.eq_dec h h') as [->|Hne].
    + exists (set_dropped f). rewrite upd_nth_same, Hg. split; reflexivity.
    + exists f. rewrite upd_nth_other by assumption. auto.
  - exists f. split; [|reflexivity]. unfold h_gc. destruct (existsb leaked (h_files s)); exact Hg.
  - exists f. auto.
  - exists f. split; [|reflexivity]. unfold h_mlock. destruct (nth_error (h_mutexes s) m) as [mu|]; [|exact Hg].
    pose proof (files_open_old (hm_ino mu) mutex_flags (Some m) s h f Hg) as H1.
    destruct (h_stuck _); [exact H1|]. destruct (last_ok _); [|exact H1]. destruct (hm_locked mu); exact H1.
  - exists f. split; [|reflexivity]. unfold h_munlock.
    destruct (nth_error (h_files s) h') as [f0|]; [|exact Hg]. destruct (hf_mutex f0) as [m|]; [|exact Hg].
    destruct (hf_ok f0); [|exact Hg]. destruct (nth_error (h_mutexes s) m) as [mu|]; [|exact Hg].
    destruct (hm_locked mu); [|exact Hg].
    rewrite files_close_other; [exact Hg|congruence].
Qed.

Lemma held_run evs : forall s h f,
  nth_error (h_files s) h = Some f -> ~ In (HClose h) evs -> ~ In (HMUnlock h) evs ->
  exists f', nth_error (h_files (hrun s evs)) h = Some f' /\ core f' = core f.
Proof.
  induction evs as [|e r IH]; intros s h f Hg Hc Hu; [now exists f|].
  destruct (held_step s e h f Hg) as (f1 & G1 & C1).
  - intros ->. apply Hc. now left.
  - intros ->. apply Hu. now left.
  - destruct (IH (hexec s e) h f1 G1) as (f2 & G2 & C2).
    + intros Hin. apply Hc. now right.
    + intros Hin. apply Hu. now right.
    + exists f2. split; [exact G2|congruence].
Qed.

(* THE LOCK IS HELD FROM THE RETURN OF THE CALL UNTIL Close / unlock IS CALLED: whatever else
   the process does in between — other opens and Closes (repeated Closes of stale Files whose
   descriptor numbers have been reused included), garbage collections, dropping the reference,
   Mutex cycles — the File's descriptor stays open and its lock stays in the kernel's table. *)
Theorem handle_held_until_close s evs h f :
  hinv s -> nth_error (h_files s) h = Some f -> open_handle f = true ->
  ~ In (HClose h) evs -> ~ In (HMUnlock h) evs ->
  exists f', nth_error (h_files (hrun s evs)) h = Some f' /\ core f' = core f /\
    isopen (fds (h_os (hrun s evs)) (hf_fd f)) = true /\
    holds (hf_fd f) (hf_kind f) (ltab (h_os (hrun s evs)) (hf_ino f)) = true.
Proof.
  intros I Hg Ho Hc Hu. destruct (held_run evs s h f Hg Hc Hu) as (f' & G & C).
  pose proof (hinv_run evs s I) as I'.
  assert (Ho' : open_handle f' = true) by (now rewrite (core_open _ _ C)).
  destruct (iv_open _ _ _ _ I' h f' G Ho') as (A & _ & _ & D).
  pose proof C as C0. unfold core in C. injection C as Ei Ef Ek _ _. rewrite Ei, Ef, Ek in *.
  exists f'. split; [exact G|]. split; [exact C0|]. split; [exact A|].
  apply holds_locked; [apply (iv_ltab _ _ _ _ I')|exact D].
Qed.

(* ------------------------------------------------------------------ released by Close *)

Lemma closefile_releases h f s :
  hinv s -> nth_error (h_files s) h = Some f -> open_handle f = true ->
  let s' := h_closefile h f s in
  fds (h_os s') (hf_fd f) = None /\ locked (hf_fd f) (ltab (h_os s') (hf_ino f)) = None /\
  nth_error (h_files s') h = Some (set_closed f) /\
  h_stuck s' = h_stuck s /\ h_panic s' = h_panic s /\ h_mutexes s' = h_mutexes s.
Proof.
  intros I Hg Ho. unfold h_closefile.
  destruct (run_seq (hf_ino f) (hf_fd f) close_only no_faults 0 (h_os s)) as [[tr out] o'] eqn:Hrun.
  destruct (iv_open _ _ _ _ I h f Hg Ho) as (Hop & _).
  destruct (close_seq _ _ _ _ _ _ _ _ Hop (iv_refs _ _ _ _ I _) Hrun) as (_ & Hc & Hl & _).
  simpl. rewrite upd_nth_same, Hg. simpl. repeat split; auto.
Qed.

Theorem handle_close_releases s h f :
  hinv s -> h_stuck s = false -> h_panic s = false ->
  nth_error (h_files s) h = Some f -> open_handle f = true -> hf_mutex f = None ->
  let s' := hexec s (HClose h) in
  hresult s (HClose h) s' = HOk /\
  fds (h_os s') (hf_fd f) = None /\
  (forall k, holds (hf_fd f) k (ltab (h_os s') (hf_ino f)) = false) /\
  nth_error (h_files s') h = Some (set_closed f).
Proof.
  intros I Hs Hp Hg Ho Hm. unfold open_handle in Ho. apply andb_true_iff in Ho. destruct Ho as [Hok Hcl].
  apply negb_true_iff in Hcl.
  assert (Ho : open_handle f = true) by (unfold open_handle; now rewrite Hok, Hcl).
  cbv zeta. unfold hexec. rewrite Hs, Hp. simpl. unfold h_user_close. rewrite Hg, Hm.
  unfold h_close. rewrite Hg. unfold close_checks_closed_first. rewrite Hcl.
  destruct (closefile_releases h f s I Hg Ho) as (A & B & C & D & E & _).
  unfold hresult. rewrite D, E, Hs, Hp, Hg, Hok, Hcl. repeat split; auto.
  intros k. now apply locked_None_holds.
Qed.

(* a second (third ...) Close answers with an error and changes nothing at all — in particular
   not the File that meanwhile owns the same descriptor number *)
Theorem handle_second_close_noop s h f :
  nth_error (h_files s) h = Some f -> hf_closed f = true ->
  hexec s (HClose h) = s /\
  (h_stuck s = false -> h_panic s = false -> hf_ok f = true -> hresult s (HClose h) s = HErr).
Proof.
  intros Hg Hcl. split.
  - unfold hexec. destruct (h_stuck s || h_panic s); [reflexivity|].
    unfold h_user_close. rewrite Hg. destruct (hf_mutex f); [reflexivity|].
    unfold h_close. rewrite Hg. unfold close_checks_closed_first. now rewrite Hcl.
  - intros Hs Hp Hok. unfold hresult. now rewrite Hs, Hp, Hg, Hok, Hcl.
Qed.

(* a garbage collection does nothing while the caller references every File it has not closed *)
Theorem gc_harmless s :
  (forall f, In f (h_files s) -> open_handle f = true -> hf_live f = true) -> hexec s HGC = s.
Proof.
  intros H. unfold hexec. destruct (h_stuck s || h_panic s); [reflexivity|]. unfold h_gc.
  destruct (existsb leaked (h_files s)) eqn:E; [|reflexivity].
  apply existsb_exists in E. destruct E as (f & Hin & Hl). unfold leaked in Hl.
  apply andb_true_iff in Hl. destruct Hl as [Ho Hnl]. rewrite (H f Hin Ho) in Hnl. discriminate.
Qed.

(* ------------------------------------------------------------------ exclusion, probes *)

Theorem handles_exclusion s h1 h2 f1 f2 :
  hinv s -> nth_error (h_files s) h1 = Some f1 -> nth_error (h_files s) h2 = Some f2 ->
  open_handle f1 = true -> open_handle f2 = true -> h1 <> h2 -> hf_ino f1 = hf_ino f2 ->
  hf_kind f1 = LSh /\ hf_kind f2 = LSh.
Proof.
  intros I G1 G2 O1 O2 Hne Hi.
  destruct (iv_open _ _ _ _ I h1 f1 G1 O1) as (_ & _ & _ & L1).
  destruct (iv_open _ _ _ _ I h2 f2 G2 O2) as (_ & _ & _ & L2).
  rewrite <- Hi in L2. apply locked_In in L1, L2.
  destruct (iv_ltab _ _ _ _ I (hf_ino f1)) as [_ Hex].
  assert (Hfd : hf_fd f1 <> hf_fd f2).
  { intros E. apply Hne. eapply (iv_distinct _ _ _ _ I); eassumption. }
  split.
  - destruct (hf_kind f1); [reflexivity|]. exfalso. apply Hfd. symmetry. eapply Hex; eassumption.
  - destruct (hf_kind f2); [reflexivity|]. exfalso. apply Hfd. eapply Hex; eassumption.
Qed.

Lemma probe_free_nil l : probe_of l = PFree <-> l = [].
Proof.
  unfold probe_of. destruct l; [tauto|]. split; [|discriminate].
  destruct (existsb _ _); discriminate.
Qed.

Lemma probe_excl_in l : probe_of l = PExcl <-> exists c, In (c, LEx) l.
Proof.
  unfold probe_of. destruct l as [|x r].
  - split; [discriminate|]. intros [c []].
  - destruct (existsb (fun h : nat * lkind => lkind_eqb (snd h) LEx) (x :: r)) eqn:E.
    + split; [|reflexivity]. intros _. apply existsb_exists in E. destruct E as [[c k] [Hin Hk]].
      simpl in Hk. destruct k; [discriminate|]. now exists c.
    + split; [discriminate|]. intros [c Hin]. exfalso.
      assert (existsb (fun h : nat * lkind => lkind_eqb (snd h) LEx) (x :: r) = true).
      { apply existsb_exists. exists (c, LEx). split; [exact Hin|reflexivity]. }
      congruence.
Qed.

(* what the other process's probe finds is what the handles say *)
Theorem probe_reads_handles s i : hinv s ->
  (hprobe s i = PFree <->
     forall h f, nth_error (h_files s) h = Some f -> open_handle f = true -> hf_ino f <> i) /\
  (hprobe s i = PExcl <->
     exists h f, nth_error (h_files s) h = Some f /\ open_handle f = true /\ hf_ino f = i /\ hf_kind f = LEx).
Proof.
  intros I. unfold hprobe. split.
  - rewrite probe_free_nil. split.
    + intros E h f G O Hi. destruct (iv_open _ _ _ _ I h f G O) as (_ & _ & _ & L).
      rewrite Hi, E in L. discriminate.
    + intros H. destruct (ltab (h_os s) i) as [|[a k] r] eqn:E; [reflexivity|]. exfalso.
      destruct (iv_lock_owned _ _ _ _ I i a) as (h & f & G & O & _ & Hi).
      * rewrite E, locked_cons_same. discriminate.
      * eapply H; eassumption.
  - rewrite probe_excl_in. split.
    + intros [c Hin]. destruct (iv_ltab _ _ _ _ I i) as [Hnd _].
      pose proof (In_locked _ _ _ Hnd Hin) as L.
      destruct (iv_lock_owned _ _ _ _ I i c) as (h & f & G & O & Ef & Ei); [congruence|].
      exists h, f. repeat split; auto.
      destruct (iv_open _ _ _ _ I h f G O) as (_ & _ & _ & L'). rewrite Ef, Ei in L'. congruence.
    + intros (h & f & G & O & Ei & Ek). destruct (iv_open _ _ _ _ I h f G O) as (_ & _ & _ & L).
      rewrite Ei, Ek in L. exists (hf_fd f). now apply locked_In.
Qed.

(* ------------------------------------------------------------------ a Mutex value through many cycles *)

Lemma mutex_flags_facts :
  strip mutex_flags openfile_strip_mask = mutex_flags /\
  has_flag mutex_flags sys_O_CREATE = true /\
  (has_flag mutex_flags sys_O_CREATE && has_flag mutex_flags sys_O_EXCL = false) /\
  has_flag mutex_flags sys_O_TRUNC = false /\
  has_flag mutex_flags truncate_cond_mask = false /\
  flock_req_of (lock_arg_of_flags mutex_flags) = FReq LEx /\
  (acc_readable (accmode mutex_flags) || acc_writable (accmode mutex_flags) = true) /\
  kind_of mutex_flags = LEx.
Proof. repeat split; reflexivity. Qed.

(* Lock on a file nobody holds: the open succeeds (the file is created if need be), the lock is
   granted at once *)
Lemma mutex_open_succeeds i c o :
  fds o c = None -> ltab o i = [] ->
  exists tr o', run_seq i c (open_only mutex_flags) no_faults 0 o = (tr, Finished ResOk, o').
Proof.
  intros Hf Hl. destruct mutex_flags_facts as (Fs & Fc & Fe & Ft & Ftc & Fq & Fa & _).
  unfold open_only, open_file_prog. rewrite Fs. cbn [run_seq].
  assert (Hopen : exists o1, os_step i c (OOpen mutex_flags) (no_faults 0) false o = Some (ROk, o1) /\
            fds o1 c = Some {| fd_acc := accmode mutex_flags; fd_off := 0 |} /\ ltab o1 = ltab o).
  { unfold os_step. rewrite Hf. destruct (files o i).
    - rewrite Fe, Ft. eexists. split; [reflexivity|]. simpl. now rewrite upd_same.
    - rewrite Fc. eexists. split; [reflexivity|]. simpl. now rewrite upd_same. }
  destruct Hopen as (o1 & -> & Hfd1 & Hlt1).
  unfold truncate_after_lock, lock_stage, flock_step, lock_retries_eintr. cbn [run_seq].
  assert (Hflock : os_step i c (OFlock (lock_arg_of_flags mutex_flags)) (no_faults 1) false o1 =
            Some (ROk, {| files := files o1; fds := fds o1; refs := refs o1;
                          ltab := upd (ltab o1) i ((c, LEx) :: drop c (ltab o1 i)) |})).
  { unfold os_step. rewrite Hfd1, Fq. cbn [fd_acc]. rewrite Fa. simpl negb. cbv iota.
    rewrite Hlt1, Hl. reflexivity. }
  rewrite Hflock. unfold trunc_stage. rewrite Ftc. cbn [run_seq]. eauto.
Qed.

Definition mutex_ready (s : hstate) (m i : nat) : Prop :=
  hinv s /\ h_stuck s = false /\ h_panic s = false /\
  nth_error (h_mutexes s) m = Some {| hm_ino := i; hm_locked := false |} /\
  (forall h f, nth_error (h_files s) h = Some f -> open_handle f = true -> hf_ino f <> i).

Lemma last_ok_snoc s' l x : h_files s' = l ++ [x] -> last_ok s' = hf_ok x.
Proof.
  intros E. unfold last_ok. rewrite E, app_length. simpl.
  replace (length l + 1 - 1) with (length l) by lia. now rewrite nth_error_snoc_new.
Qed.

(* one cycle: Lock answers at once with the write lock; the unlock function gives it back and
   leaves the Mutex value as it was *)
Lemma mutex_cycle s m i : mutex_ready s m i ->
  let h := length (h_files s) in
  let s1 := hexec s (HMLock m) in
  let s2 := hexec s1 (HMUnlock h) in
  hresult s (HMLock m) s1 = HOk /\ hprobe s1 i = PExcl /\
  hresult s1 (HMUnlock h) s2 = HOk /\ hprobe s2 i = PFree /\
  mutex_ready s2 m i /\ length (h_files s2) = S (length (h_files s)).
Proof.
  intros (I & Hs & Hp & Hm & Hfree). cbv zeta.
  destruct (alloc_unused s I) as (Hfd & _ & _).
  assert (Hnil : ltab (h_os s) i = []).
  { apply probe_free_nil. apply (proj1 (probe_reads_handles s i I)). exact Hfree. }
  destruct (mutex_open_succeeds i (alloc s) (h_os s) Hfd Hnil) as (tr & o' & Hrun).
  set (nf := {| hf_ino := i; hf_fd := alloc s; hf_kind := kind_of mutex_flags; hf_ok := true;
                hf_closed := false; hf_live := true; hf_mutex := Some m |}).
  set (s1' := {| h_os := o'; h_files := h_files s ++ [nf]; h_mutexes := h_mutexes s;
                 h_free := free_after_alloc s; h_next := next_after_alloc s;
                 h_panic := h_panic s; h_stuck := h_stuck s |}).
  assert (Hlo1 : last_ok s1' = true) by (apply (last_ok_snoc s1' (h_files s) nf); reflexivity).
  (* the Lock *)
  assert (E1 : hexec s (HMLock m) = set_mutex m true s1').
  { unfold hexec. rewrite Hs, Hp. cbn [orb]. unfold h_mlock. rewrite Hm. cbn [hm_ino hm_locked].
    unfold h_open. rewrite Hrun. fold nf. fold s1'.
    change (h_stuck s1') with (h_stuck s). rewrite Hs, Hlo1. reflexivity. }
  rewrite E1. set (s1 := set_mutex m true s1').
  assert (I1 : hinv s1) by (unfold s1; rewrite <- E1; now apply hinv_exec).
  assert (Hg1 : nth_error (h_files s1) (length (h_files s)) = Some nf) by apply nth_error_snoc_new.
  assert (Ho1 : open_handle nf = true) by reflexivity.
  assert (Hs1 : h_stuck s1 = false) by exact Hs.
  assert (Hp1 : h_panic s1 = false) by exact Hp.
  assert (Hm1 : nth_error (h_mutexes s1) m = Some {| hm_ino := i; hm_locked := true |}).
  { unfold s1, set_mutex. simpl. rewrite upd_nth_same, Hm. reflexivity. }
  (* the unlock function *)
  set (s1u := set_mutex m false s1).
  assert (Iu : hinv s1u) by exact I1.
  assert (Hgu : nth_error (h_files s1u) (length (h_files s)) = Some nf) by exact Hg1.
  assert (E2 : hexec s1 (HMUnlock (length (h_files s))) = h_closefile (length (h_files s)) nf s1u).
  { unfold hexec. rewrite Hs1, Hp1. cbn [orb]. unfold h_munlock. rewrite Hg1. cbn [hf_mutex nf hf_ok].
    rewrite Hm1. cbn [hm_locked]. fold s1u. unfold h_close. rewrite Hgu.
    unfold close_checks_closed_first. reflexivity. }
  rewrite E2.
  destruct (closefile_releases _ nf s1u Iu Hgu Ho1) as (A & B & C & D & E & F).
  assert (I2 : hinv (h_closefile (length (h_files s)) nf s1u)) by (now apply hinv_closefile).
  assert (Hlen : length (h_files (h_closefile (length (h_files s)) nf s1u)) = S (length (h_files s))).
  { unfold h_closefile.
    destruct (run_seq (hf_ino nf) (hf_fd nf) close_only no_faults 0 (h_os s1u)) as [[tr2 out2] o2]. simpl.
    rewrite upd_nth_length, app_length. simpl. lia. }
  assert (Hfree2 : forall h f, nth_error (h_files (h_closefile (length (h_files s)) nf s1u)) h = Some f ->
            open_handle f = true -> hf_ino f <> i).
  { intros h f G O. unfold h_closefile in G.
    destruct (run_seq (hf_ino nf) (hf_fd nf) close_only no_faults 0 (h_os s1u)) as [[tr2 out2] o2]. simpl in G.
    destruct (closed_get _ _ _ _ G O) as [Hne G0]. apply nth_error_snoc_inv in G0.
    destruct G0 as [G0|[Hh _]]; [|contradiction]. eapply Hfree; eassumption. }
  set (s2 := h_closefile (length (h_files s)) nf s1u) in *.
  assert (Hs2 : h_stuck s2 = false) by (rewrite D; exact Hs).
  assert (Hp2 : h_panic s2 = false) by (rewrite E; exact Hp).
  split.
  { unfold hresult. rewrite Hs1, Hp1. change (last_ok s1) with (last_ok s1'). now rewrite Hlo1. }
  split.
  { apply (proj2 (probe_reads_handles s1 i I1)). exists (length (h_files s)), nf.
    repeat split; auto. }
  split.
  { unfold hresult. now rewrite Hs2, Hp2. }
  split.
  { apply (proj1 (probe_reads_handles s2 i I2)). exact Hfree2. }
  split; [|exact Hlen].
  split; [exact I2|]. split; [exact Hs2|]. split; [exact Hp2|]. split; [|exact Hfree2].
  rewrite F. unfold s1u, s1, set_mutex. simpl.
  rewrite upd_nth_same, upd_nth_same, Hm. reflexivity.
Qed.

(* n cycles of ONE Mutex value; the k-th Lock makes handle base+k *)
Fixpoint cycles (m base n : nat) : list hev :=
  match n with
  | 0 => []
  | S k => HMLock m :: HMUnlock base :: cycles m (S base) k
  end.

(* what a prober sees after every step: (answer, state of the file) *)
Definition seen (s : hstate) (evs : list hev) (i : nat) : list (hres * probe) :=
  map (fun x => (fst x, match snd x with (p, _) :: _ => p | [] => PFree end)) (htrace s evs [i]).

Fixpoint cycle_view (n : nat) : list (hres * probe) :=
  match n with 0 => [] | S k => (HOk, PExcl) :: (HOk, PFree) :: cycle_view k end.

(* THE SAME Mutex VALUE, LOCKED AND UNLOCKED ANY NUMBER OF TIMES: every Lock is granted at once and
   holds the write lock, every unlock function releases it, and afterwards the Mutex, the file
   and the process are as before *)
Theorem mutex_reusable n : forall s m i, mutex_ready s m i ->
  mutex_ready (hrun s (cycles m (length (h_files s)) n)) m i /\
  seen s (cycles m (length (h_files s)) n) i = cycle_view n.
Proof.
  induction n as [|n IH]; intros s m i R; [split; [exact R|reflexivity]|].
  destruct (mutex_cycle s m i R) as (A & B & C & D & R2 & L).
  cbn [cycles hrun fold_left]. fold (hrun (hexec (hexec s (HMLock m)) (HMUnlock (length (h_files s))))).
  specialize (IH _ m i R2). rewrite L in IH. destruct IH as [IH1 IH2].
  split; [exact IH1|].
  unfold seen in *. cbn [htrace map fst snd cycle_view]. rewrite A, B, C, D.
  f_equal. f_equal. exact IH2.
Qed.

(* ------------------------------------------------------------------ the structural facts the model rests on *)

Lemma handle_objects_as_modelled :
  close_checks_closed_first = true /\ openfile_fresh_file = true /\
  mutex_unlock_body_plain = true /\ mutex_inner_lock_after_open = true.
Proof. repeat split; reflexivity. Qed.

(* ------------------------------------------------------------------ examples (non-vacuity) *)

Definition ex_files : nat -> option bytes := fun i => if Nat.eqb i 0 then Some [x30] else None.
Definition ex_h0 : hstate := hinit ex_files.

(* two read holders, a stale File closed a second time after its descriptor number has been reused
   by a write holder of another file, a garbage collection, a Mutex value through two cycles *)
Definition ex_script : list hev :=
  [HOpen 0 0%N; HOpen 0 0%N; HClose 0; HOpen 1 66%N; HClose 0; HGC; HClose 1; HClose 2;
   HMNew 2; HMLock 0; HMUnlock 3; HMLock 0; HMUnlock 4].

Example ex_trace :
  htrace ex_h0 ex_script [0; 1; 2] =
  [(HOk, [(PShared, 1); (PFree, 0); (PFree, 0)]); (HOk, [(PShared, 2); (PFree, 0); (PFree, 0)]);
   (HOk, [(PShared, 1); (PFree, 0); (PFree, 0)]); (HOk, [(PShared, 1); (PExcl, 1); (PFree, 0)]);
   (HErr, [(PShared, 1); (PExcl, 1); (PFree, 0)]); (HOk, [(PShared, 1); (PExcl, 1); (PFree, 0)]);
   (HOk, [(PFree, 0); (PExcl, 1); (PFree, 0)]); (HOk, [(PFree, 0); (PFree, 0); (PFree, 0)]);
   (HOk, [(PFree, 0); (PFree, 0); (PFree, 0)]);
   (HOk, [(PFree, 0); (PFree, 0); (PExcl, 1)]); (HOk, [(PFree, 0); (PFree, 0); (PFree, 0)]);
   (HOk, [(PFree, 0); (PFree, 0); (PExcl, 1)]); (HOk, [(PFree, 0); (PFree, 0); (PFree, 0)])].
Proof. vm_compute. reflexivity. Qed.

(* the stale File 0 and the live File 2 carry the same descriptor number *)
Example ex_reuse :
  map hf_fd (h_files (hrun ex_h0 (firstn 5 ex_script))) = [0; 1; 0] /\
  map open_handle (h_files (hrun ex_h0 (firstn 5 ex_script))) = [false; true; true].
Proof. vm_compute. split; reflexivity. Qed.

(* handle_held_until_close has instances: File 1 across the rest of the script up to its Close *)
Example ex_held :
  let s := hrun ex_h0 (firstn 2 ex_script) in
  exists f, nth_error (h_files s) 1 = Some f /\ open_handle f = true /\
    ~ In (HClose 1) [HClose 0; HOpen 1 66%N; HClose 0; HGC] /\ hinv s.
Proof.
  cbv zeta. eexists. split; [vm_compute; reflexivity|]. split; [reflexivity|]. split.
  - intros H. repeat (destruct H as [H|H]; [discriminate H|]). exact H.
  - apply hinv_run, hinv_init.
Qed.

(* mutex_ready has instances *)
Example ex_mutex_ready : mutex_ready (hrun ex_h0 [HMNew 2]) 0 2.
Proof.
  split; [apply hinv_run, hinv_init|]. repeat split.
  intros h f G. destruct h; discriminate G.
Qed.

(* a dropped, unclosed File: the next garbage collection ends the process with the finalizer's panic;
   a process that asks twice for the write lock on one file waits for itself *)
Example ex_leak_panics : h_panic (hrun ex_h0 [HOpen 0 2%N; HDrop 0; HGC]) = true.
Proof. reflexivity. Qed.
Example ex_self_deadlock : h_stuck (hrun ex_h0 [HOpen 0 2%N; HOpen 0 2%N]) = true.
Proof. reflexivity. Qed.

(* every state a process can reach from scratch satisfies the invariant *)
Lemma hinv_reachable f evs : hinv (hrun (hinit f) evs).
Proof. apply hinv_run, hinv_init. Qed.

(* Model of /repo/lockedfile (C06, C07).  DEFINITIONS ONLY.

   - an OS model: files (inode -> contents), one open file description per client, a flock
     table per inode whose semantics is the ASSUMED kernel semantics of flock(2);
   - the library as programs over file operations (open_file_prog, close_prog, Read, Write,
     Transform, Create/Edit/Open/OpenFile with a user body, Mutex.Lock);
   - three semantics for the same program terms: sequential ([run_seq], also used to list the
     operations of a call for the strace correspondence), faulty ([run_seq] with a fault plan),
     interleaved ([exec]/[run]: any number of clients, scheduled step by step), the latter with
     ghost state (critical-section status, register, linearisation log, clock).

   Flag values, the lock-type switch, the strip mask and the orderings come from
   Gen/LockedFileConsts.v (regenerated from the source on every run). *)
From Coq Require Import List NArith Arith Bool.
From Coq.Strings Require Import Byte.
From GI Require Import Gen.LockedFileConsts.
Import ListNotations.

Definition bytes := list byte.

(* ------------------------------------------------------------------ flags *)

Definition has_flag (flags m : N) : bool := N.eqb (N.land flags m) m.   (* flag&m == m *)
Definition strip (flags m : N) : N := N.ldiff flags m.                   (* flag &^ m *)

Inductive lkind := LSh | LEx.
Definition lkind_eqb (a b : lkind) : bool :=
  match a, b with LSh, LSh => true | LEx, LEx => true | _, _ => false end.

(* the flock(2) operation openFile makes for [flags]: the switch of openFile composed with
   filelock.Lock / filelock.RLock *)
Definition lock_arg_of_flags (flags : N) : N :=
  if existsb (N.eqb (N.land flags lock_switch_mask)) lock_switch_cases
  then (if lock_case_calls_lock then filelock_lock_arg else filelock_rlock_arg)
  else (if lock_default_calls_rlock then filelock_rlock_arg else filelock_lock_arg).

(* how the kernel reads a flock operation *)
Inductive flock_req := FReq (k : lkind) | FUnlock | FInval.
Definition flock_req_of (how : N) : flock_req :=
  if N.eqb how sys_LOCK_EX then FReq LEx
  else if N.eqb how sys_LOCK_SH then FReq LSh
  else if N.eqb how sys_LOCK_UN then FUnlock
  else FInval.

(* lock mode of a call made with [flags]; None = the call would not lock at all *)
Definition lock_mode_of_flags (flags : N) : option lkind :=
  match flock_req_of (lock_arg_of_flags flags) with FReq k => Some k | _ => None end.

(* kernel: access mode of an open file description *)
Definition accmode (flags : N) : N := N.land flags sys_O_ACCMODE.
Definition acc_writable (a : N) : bool := N.eqb a sys_O_WRONLY || N.eqb a sys_O_RDWR.
Definition acc_readable (a : N) : bool := N.eqb a sys_O_RDONLY || N.eqb a sys_O_RDWR.

(* ------------------------------------------------------------------ operations, programs *)

Inductive mark := MReturned | MCloseCalled.

Inductive op :=
| OOpen (flags : N)                 (* openat(path, flags) *)
| OFlock (how : N)                  (* flock(fd, how) *)
| OFtruncate (n : nat)              (* ftruncate(fd, n) *)
| OReadAll                          (* read(fd) until EOF (io.ReadAll) *)
| OPWrite (off : nat) (d : bytes)   (* pwrite64 loop of WriteAt: all of d at off *)
| OWrite (d : bytes)                (* write loop of Write: all of d at the current offset *)
| OClose                            (* close(fd) *)
| OMark (m : mark).                 (* ghost: the locking call returned / Close was called *)

Inductive res := ROk | RErr | REintr | RData (b : bytes).

(* what a call hands back to its caller *)
Inductive result := ResOk | ResErr | ResData (b : bytes).

Inductive prog :=
| Ret (r : result)
| Do (o : op) (k : res -> prog)
| Retry (o : op) (k : res -> prog).  (* for { r = o; if r != EINTR { break } }; k r *)

Fixpoint bind (p : prog) (f : result -> prog) : prog :=
  match p with
  | Ret r => f r
  | Do o k => Do o (fun x => bind (k x) f)
  | Retry o k => Retry o (fun x => bind (k x) f)
  end.

Definition is_io (o : op) : bool :=
  match o with OFtruncate _ | OReadAll | OPWrite _ _ | OWrite _ => true | _ => false end.

(* bodies run between the return of the locking call and Close: file I/O only *)
Inductive io_only : prog -> Prop :=
| io_ret r : io_only (Ret r)
| io_do o k : is_io o = true -> (forall x, io_only (k x)) -> io_only (Do o k).

(* ------------------------------------------------------------------ the library *)

Definition flock_step (how : N) (k : res -> prog) : prog :=
  if lock_retries_eintr then Retry (OFlock how) k else Do (OFlock how) k.

(* closeFile *)
Definition close_prog (k : prog) : prog :=
  if closefile_unlock_first
  then Do (OFlock filelock_unlock_arg) (fun _ => Do OClose (fun _ => k))
  else Do OClose (fun _ => Do (OFlock filelock_unlock_arg) (fun _ => k)).

(* error path of openFile after a failed Truncate *)
Definition trunc_fail_prog (k : prog) : prog :=
  if truncate_failure_unlocks_first
  then Do (OFlock filelock_unlock_arg) (fun _ => Do OClose (fun _ => k))
  else Do OClose (fun _ => Do (OFlock filelock_unlock_arg) (fun _ => k)).

Definition trunc_stage (flags : N) (k : bool -> prog) : prog :=
  if has_flag flags truncate_cond_mask
  then Do (OFtruncate (N.to_nat truncate_size))
          (fun r => match r with ROk => k true | _ => trunc_fail_prog (k false) end)
  else k true.

Definition lock_stage (flags : N) (k : bool -> prog) : prog :=
  flock_step (lock_arg_of_flags flags)
    (fun r => match r with ROk => k true | _ => Do OClose (fun _ => k false) end).

(* openFile(name, flag, perm): open with the strip mask removed, lock, truncate *)
Definition open_file_prog (flags : N) (k : bool -> prog) : prog :=
  Do (OOpen (strip flags openfile_strip_mask))
     (fun r => match r with
               | ROk =>
                   if truncate_after_lock
                   then lock_stage flags (fun ok => if ok then trunc_stage flags k else k false)
                   else trunc_stage flags (fun ok => if ok then lock_stage flags k else k false)
               | _ => k false
               end).

(* the part of a call after OpenFile returned: the caller's I/O, then Close *)
Definition close_part (x : result) : prog :=
  Do (OMark MCloseCalled) (fun _ => close_prog (Ret x)).
Definition after_open (body : prog) : prog :=
  Do (OMark MReturned) (fun _ => bind body close_part).

(* OpenFile(flags); body; Close — every API call has this shape *)
Definition client_prog (flags : N) (body : prog) : prog :=
  open_file_prog flags (fun ok => if ok then after_open body else Ret ResErr).

(* os.File.WriteAt / Write issue no system call for an empty slice *)
Definition pwrite_prog (off : nat) (d : bytes) (k : res -> prog) : prog :=
  match d with [] => k ROk | _ => Do (OPWrite off d) k end.
Definition write_prog (d : bytes) (k : res -> prog) : prog :=
  match d with [] => k ROk | _ => Do (OWrite d) k end.

Definition read_body : prog :=
  Do OReadAll (fun r => match r with RData b => Ret (ResData b) | _ => Ret ResErr end).

Definition write_body (d : bytes) : prog :=
  write_prog d (fun r => match r with ROk => Ret ResOk | _ => Ret ResErr end).

(* Transform's deferred rollback: WriteAt(old, 0); if that worked, Truncate(len(old)) *)
Definition rollback (old : bytes) : prog :=
  pwrite_prog 0 old (fun r => match r with
    | ROk => Do (OFtruncate (length old)) (fun _ => Ret ResErr)
    | _ => Ret ResErr end).

Definition transform_main (old new : bytes) : prog :=
  if length old <=? length new then
    pwrite_prog 0 (firstn (length old) new)
      (fun r => match r with ROk => Ret ResOk | _ => rollback old end)
  else
    pwrite_prog 0 new (fun r => match r with
      | ROk => Do (OFtruncate (length new))
                  (fun r => match r with ROk => Ret ResOk | _ => rollback old end)
      | _ => rollback old end).

Definition transform_write (old new : bytes) : prog :=
  if length old <? length new then
    pwrite_prog (length old) (skipn (length old) new) (fun r => match r with
      | ROk => transform_main old new
      | _ => Do (OFtruncate (length old)) (fun _ => Ret ResErr) end)
  else transform_main old new.

(* t : the caller's function; None = it returned an error *)
Definition transform_body (t : bytes -> option bytes) : prog :=
  Do OReadAll (fun r => match r with
    | RData old => match t old with
                   | Some new => transform_write old new
                   | None => Ret ResErr end
    | _ => Ret ResErr end).

Inductive call :=
| CRead
| CWrite (d : bytes)
| CTransform (t : bytes -> option bytes)
| COpenFile (flags : N) (body : prog)   (* OpenFile(flags); body; Close *)
| CCreate (body : prog)
| CEdit (body : prog)
| COpen (body : prog)
| CMutex.                               (* unlock, _ := Mutex.Lock(); unlock() *)

Definition flags_of_call (c : call) : N :=
  match c with
  | CRead => open_flags
  | CWrite _ => write_flags
  | CTransform _ => edit_flags
  | COpenFile f _ => f
  | CCreate _ => create_flags
  | CEdit _ => edit_flags
  | COpen _ => open_flags
  | CMutex => mutex_flags
  end.

Definition body_of_call (c : call) : prog :=
  match c with
  | CRead => read_body
  | CWrite d => write_body d
  | CTransform t => transform_body t
  | COpenFile _ b | CCreate b | CEdit b | COpen b => b
  | CMutex => Ret ResOk
  end.

Definition prog_of_call (c : call) : prog := client_prog (flags_of_call c) (body_of_call c).

(* ------------------------------------------------------------------ file contents *)

Definition zeros (n : nat) : bytes := repeat x00 n.
Definition resize (n : nat) (b : bytes) : bytes := firstn n b ++ zeros (n - length b).
Definition write_at (off : nat) (d b : bytes) : bytes :=
  match d with
  | [] => b
  | _ => firstn off (b ++ zeros (off - length b)) ++ d ++ skipn (off + length d) b
  end.

Record fdesc := { fd_acc : N; fd_off : nat }.

(* faults of the faulty semantics: the operation fails; a failing write may have written any
   prefix of its data *)
Inductive fault := FNone | FFail | FShort (n : nat).

(* file I/O on an open file description; contents [b] *)
Definition io_step (o : op) (flt : fault) (b : bytes) (fd : fdesc) : res * bytes * fdesc :=
  match o with
  | OReadAll =>
      if acc_readable (fd_acc fd) then
        match flt with
        | FNone => (RData (skipn (fd_off fd) b), b,
                    {| fd_acc := fd_acc fd; fd_off := Nat.max (fd_off fd) (length b) |})
        | _ => (RErr, b, fd)
        end
      else (RErr, b, fd)
  | OFtruncate n =>
      if acc_writable (fd_acc fd) then
        match flt with FNone => (ROk, resize n b, fd) | _ => (RErr, b, fd) end
      else (RErr, b, fd)
  | OPWrite off d =>
      if acc_writable (fd_acc fd) then
        match flt with
        | FNone => (ROk, write_at off d b, fd)
        | FFail => (RErr, b, fd)
        | FShort n => (RErr, write_at off (firstn n d) b, fd)
        end
      else (RErr, b, fd)
  | OWrite d =>
      if acc_writable (fd_acc fd) then
        match flt with
        | FNone => (ROk, write_at (fd_off fd) d b,
                    {| fd_acc := fd_acc fd; fd_off := fd_off fd + length d |})
        | FFail => (RErr, b, fd)
        | FShort n => (RErr, write_at (fd_off fd) (firstn n d) b,
                       {| fd_acc := fd_acc fd; fd_off := fd_off fd + length (firstn n d) |})
        end
      else (RErr, b, fd)
  | _ => (RErr, b, fd)
  end.

(* ------------------------------------------------------------------ the OS *)

Definition upd {A : Type} (m : nat -> A) (c : nat) (v : A) : nat -> A :=
  fun x => if Nat.eqb x c then v else m x.

Definition content_of (f : option bytes) : bytes := match f with Some b => b | None => [] end.

(* flock table of one inode: (open file description, kind) — ASSUMED kernel semantics:
   LOCK_EX is granted only when no other open file description holds a lock on the inode,
   LOCK_SH only when no other holds LOCK_EX; LOCK_UN and the last close release *)
Definition others_none (c : nat) (l : list (nat * lkind)) : bool :=
  forallb (fun h => Nat.eqb (fst h) c) l.
Definition others_shared (c : nat) (l : list (nat * lkind)) : bool :=
  forallb (fun h => Nat.eqb (fst h) c || lkind_eqb (snd h) LSh) l.
Definition can_grant (k : lkind) (c : nat) (l : list (nat * lkind)) : bool :=
  match k with LEx => others_none c l | LSh => others_shared c l end.
Definition drop (c : nat) (l : list (nat * lkind)) : list (nat * lkind) :=
  filter (fun h => negb (Nat.eqb (fst h) c)) l.
Definition holds (c : nat) (k : lkind) (l : list (nat * lkind)) : bool :=
  existsb (fun h => Nat.eqb (fst h) c && lkind_eqb (snd h) k) l.

Record os := {
  files : nat -> option bytes;          (* inode -> contents, None = does not exist *)
  fds   : nat -> option fdesc;          (* client -> its open file description *)
  refs  : nat -> nat;                   (* client -> extra references to that description
                                           (descriptors inherited by child processes) *)
  ltab  : nat -> list (nat * lkind)     (* inode -> flock table *)
}.

(* one operation of client c, whose path names inode i.  None = blocked. *)
Definition os_step (i c : nat) (o : op) (flt : fault) (eintr : bool) (s : os) : option (res * os) :=
  match o with
  | OMark _ => Some (ROk, s)
  | OOpen flags =>
      match fds s c with
      | Some _ => Some (RErr, s)
      | None =>
          let fd := Some {| fd_acc := accmode flags; fd_off := 0 |} in
          match files s i with
          | None =>
              if has_flag flags sys_O_CREATE
              then Some (ROk, {| files := upd (files s) i (Some []); fds := upd (fds s) c fd;
                                 refs := refs s; ltab := ltab s |})
              else Some (RErr, s)
          | Some b =>
              if has_flag flags sys_O_CREATE && has_flag flags sys_O_EXCL then Some (RErr, s)
              else Some (ROk, {| files := if has_flag flags sys_O_TRUNC
                                          then upd (files s) i (Some []) else files s;
                                 fds := upd (fds s) c fd; refs := refs s; ltab := ltab s |})
          end
      end
  | OFlock how =>
      match fds s c with
      | None => Some (RErr, s)
      | Some fd =>
          match flock_req_of how with
          | FInval => Some (RErr, s)
          | FUnlock => Some (ROk, {| files := files s; fds := fds s; refs := refs s;
                                     ltab := upd (ltab s) i (drop c (ltab s i)) |})
          | FReq k =>
              (* Linux: EBADF unless the description is open for reading or writing *)
              if negb (acc_readable (fd_acc fd) || acc_writable (fd_acc fd)) then Some (RErr, s)
              else if can_grant k c (ltab s i)
              then Some (ROk, {| files := files s; fds := fds s; refs := refs s;
                                 ltab := upd (ltab s) i ((c, k) :: drop c (ltab s i)) |})
              else if eintr then Some (REintr, s) else None
          end
      end
  | OClose =>
      match fds s c with
      | None => Some (RErr, s)
      | Some _ =>
          Some (ROk, {| files := files s; fds := upd (fds s) c None; refs := refs s;
                        ltab := if Nat.eqb (refs s c) 0
                                then upd (ltab s) i (drop c (ltab s i)) else ltab s |})
      end
  | _ =>
      match fds s c with
      | None => Some (RErr, s)
      | Some fd =>
          match io_step o flt (content_of (files s i)) fd with
          | (r, b', fd') =>
              Some (r, {| files := upd (files s) i (Some b'); fds := upd (fds s) c (Some fd');
                          refs := refs s; ltab := ltab s |})
          end
      end
  end.

(* a child process inherits / drops a reference to client c's open file description *)
Definition os_dup (c : nat) (s : os) : os :=
  match fds s c with
  | Some _ => {| files := files s; fds := fds s; refs := upd (refs s) c (S (refs s c)); ltab := ltab s |}
  | None => s
  end.
Definition os_dupclose (i c : nat) (s : os) : os :=
  match refs s c with
  | 0 => s
  | S n =>
      {| files := files s; fds := fds s; refs := upd (refs s) c n;
         ltab := match n, fds s c with
                 | 0, None => upd (ltab s) i (drop c (ltab s i))
                 | _, _ => ltab s end |}
  end.

(* ------------------------------------------------------------------ sequential / faulty semantics *)

Definition no_faults : nat -> fault := fun _ => FNone.
(* a single fault at operation number k *)
Definition fault_at (k : nat) (f : fault) : nat -> fault := fun n => if Nat.eqb n k then f else FNone.

(* the I/O of a body on one file, operation n of the run suffering [plan n] *)
Fixpoint run_body (p : prog) (plan : nat -> fault) (n : nat) (b : bytes) (fd : fdesc)
  : result * bytes * fdesc :=
  match p with
  | Ret r => (r, b, fd)
  | Do o k | Retry o k =>
      match io_step o (plan n) b fd with
      | (r, b', fd') => run_body (k r) plan (S n) b' fd'
      end
  end.

Inductive outcome := Finished (r : result) | Blocked.

(* one client alone on the OS: its operations in order with their results, the outcome, the
   final OS.  (Nobody else holds a lock, so flock neither blocks nor returns EINTR; a Retry
   that sees EINTR anyhow is reported as Blocked.) *)
Fixpoint run_seq (i c : nat) (p : prog) (plan : nat -> fault) (n : nat) (s : os)
  : list (op * res) * outcome * os :=
  match p with
  | Ret r => ([], Finished r, s)
  | Do o k =>
      match os_step i c o (plan n) false s with
      | None => ([], Blocked, s)
      | Some (r, s') =>
          match run_seq i c (k r) plan (S n) s' with
          | (tr, out, s'') => ((o, r) :: tr, out, s'')
          end
      end
  | Retry o k =>
      match os_step i c o (plan n) false s with
      | None | Some (REintr, _) => ([], Blocked, s)
      | Some (r, s') =>
          match run_seq i c (k r) plan (S n) s' with
          | (tr, out, s'') => ((o, r) :: tr, out, s'')
          end
      end
  end.

Definition os_with (b : option bytes) : os :=
  {| files := fun _ => b; fds := fun _ => None; refs := fun _ => 0; ltab := fun _ => [] |}.

Definition fresh_fd (flags : N) : fdesc :=
  {| fd_acc := accmode (strip flags openfile_strip_mask); fd_off := 0 |}.

(* contents a critical section starts from, given the register value at acquisition *)
Definition start_contents (flags : N) (b : bytes) : bytes :=
  if has_flag flags truncate_cond_mask then resize (N.to_nat truncate_size) b else b.

(* sequential specification of a call on a register holding b: (result, new value) *)
Definition call_spec (flags : N) (body : prog) (b : bytes) : result * bytes :=
  match run_body body no_faults 0 (start_contents flags b) (fresh_fd flags) with
  | (r, b', _) => (r, b')
  end.

(* ------------------------------------------------------------------ interleaved semantics *)

Record client := { c_ino : nat; c_call : call }.

Inductive cstatus := SIdle | SInCS | SClosing.

(* linearisation log entry: client, time of its linearisation point, register value before
   and after *)
Record lentry := { le_client : nat; le_time : nat; le_before : bytes; le_after : bytes }.

Record state := {
  st_os  : os;
  progs  : nat -> prog;             (* what each client still has to run *)
  (* ghost *)
  status : nat -> cstatus;          (* SInCS: between the return of the locking call and Close *)
  reg    : nat -> bytes;            (* the register each inode implements *)
  lin    : nat -> list lentry;      (* per inode, newest first *)
  now    : nat;
  t_inv  : nat -> option nat;       (* time of a client's first step *)
  t_resp : nat -> option nat        (* time of the step that made it return *)
}.

Definition init_state (cfg : nat -> client) (f : nat -> option bytes) : state :=
  {| st_os := {| files := f; fds := fun _ => None; refs := fun _ => 0; ltab := fun _ => [] |};
     progs := fun c => prog_of_call (c_call (cfg c));
     status := fun _ => SIdle;
     reg := fun i => content_of (f i);
     lin := fun _ => [];
     now := 0;
     t_inv := fun _ => None;
     t_resp := fun _ => None |}.

Inductive event :=
| EvRun (c : nat)        (* client c performs its next operation (no step if it would block) *)
| EvEintr (c : nat)      (* same, but a flock that would block returns EINTR instead *)
| EvDup (c : nat)        (* a child process inherits c's descriptor *)
| EvDupClose (c : nat).  (* an inherited copy is closed *)

Definition status_after (o : op) (st : cstatus) : cstatus :=
  match o with
  | OMark MReturned => SInCS
  | OMark MCloseCalled => SClosing
  | _ => st
  end.

Definition is_ret (p : prog) : bool := match p with Ret _ => true | _ => false end.
Definition set_once (m : nat -> option nat) (c t : nat) : nat -> option nat :=
  match m c with None => upd m c (Some t) | Some _ => m end.

(* ghost bookkeeping for the step of client c on inode i that took the OS from o1 to o2:
   an exclusive lock that disappears publishes the contents (linearisation point of a writer);
   a shared lock that appears reads the register (linearisation point of a reader) *)
Definition ghost_reg (i c : nat) (o1 o2 : os) (s : state) : nat -> bytes :=
  if holds c LEx (ltab o1 i) && negb (holds c LEx (ltab o2 i))
  then upd (reg s) i (content_of (files o2 i)) else reg s.
Definition ghost_lin (i c : nat) (o1 o2 : os) (s : state) : nat -> list lentry :=
  if holds c LEx (ltab o1 i) && negb (holds c LEx (ltab o2 i))
  then upd (lin s) i ({| le_client := c; le_time := now s; le_before := reg s i;
                         le_after := content_of (files o2 i) |} :: lin s i)
  else if negb (holds c LSh (ltab o1 i)) && holds c LSh (ltab o2 i)
  then upd (lin s) i ({| le_client := c; le_time := now s; le_before := reg s i;
                         le_after := reg s i |} :: lin s i)
  else lin s.

Definition tick (s : state) : state :=
  {| st_os := st_os s; progs := progs s; status := status s; reg := reg s; lin := lin s;
     now := S (now s); t_inv := t_inv s; t_resp := t_resp s |}.

Definition advance (i c : nat) (o : op) (p' : prog) (o2 : os) (s : state) : state :=
  {| st_os := o2;
     progs := upd (progs s) c p';
     status := upd (status s) c (status_after o (status s c));
     reg := ghost_reg i c (st_os s) o2 s;
     lin := ghost_lin i c (st_os s) o2 s;
     now := S (now s);
     t_inv := set_once (t_inv s) c (now s);
     t_resp := if is_ret p' then set_once (t_resp s) c (now s) else t_resp s |}.

Definition run_client (cfg : nat -> client) (c : nat) (eintr : bool) (s : state) : state :=
  let i := c_ino (cfg c) in
  match progs s c with
  | Ret _ => tick s
  | Do o k =>
      match os_step i c o FNone eintr (st_os s) with
      | None => tick s
      | Some (r, o2) => advance i c o (k r) o2 s
      end
  | Retry o k =>
      match os_step i c o FNone eintr (st_os s) with
      | None => tick s
      | Some (REintr, o2) => advance i c o (Retry o k) o2 s
      | Some (r, o2) => advance i c o (k r) o2 s
      end
  end.

Definition exec (cfg : nat -> client) (s : state) (e : event) : state :=
  match e with
  | EvRun c => run_client cfg c false s
  | EvEintr c => run_client cfg c true s
  | EvDup c =>
      {| st_os := os_dup c (st_os s); progs := progs s; status := status s; reg := reg s;
         lin := lin s; now := S (now s); t_inv := t_inv s; t_resp := t_resp s |}
  | EvDupClose c =>
      let i := c_ino (cfg c) in
      let o2 := os_dupclose i c (st_os s) in
      {| st_os := o2; progs := progs s; status := status s;
         reg := ghost_reg i c (st_os s) o2 s; lin := ghost_lin i c (st_os s) o2 s;
         now := S (now s); t_inv := t_inv s; t_resp := t_resp s |}
  end.

Definition run (cfg : nat -> client) (s : state) (sched : list event) : state :=
  fold_left (exec cfg) sched s.

(* ------------------------------------------------------------------ observations *)

(* client c is between the return of its locking call and its Close *)
Definition in_cs (s : state) (c : nat) : Prop := status s c = SInCS.
Definition holds_lock (cfg : nat -> client) (s : state) (c : nat) (k : lkind) : Prop :=
  holds c k (ltab (st_os s) (c_ino (cfg c))) = true.
Definition returned (s : state) (c : nat) (r : result) : Prop := progs s c = Ret r.
Definition mode_of (cfg : nat -> client) (c : nat) : option lkind :=
  lock_mode_of_flags (flags_of_call (c_call (cfg c))).

(* ------------------------------------------------------------------ Mutex: path checks, String *)

Inductive mutex_outcome := MPanic (msg : bytes) | MRun (p : prog).

(* Mutex.Lock: a Mutex whose Path is empty (the zero value) panics instead of locking "" *)
Definition mutex_lock (path : bytes) : mutex_outcome :=
  match path with
  | [] => if mutex_lock_panics_on_empty_path then MPanic mutex_lock_panic_msg
          else MRun (prog_of_call CMutex)
  | _ => MRun (prog_of_call CMutex)
  end.

(* MutexAt: None = panic *)
Definition mutex_at (path : bytes) : option bytes + bytes :=
  match path with
  | [] => if mutexat_panics_on_empty_path then inr mutexat_panic_msg else inl (Some path)
  | _ => inl (Some path)
  end.

(* fmt.Sprintf(format, path) for a format whose only verb is %s *)
Fixpoint subst_s (fmt path : bytes) : bytes :=
  match fmt with
  | x25 :: x73 :: r => path ++ subst_s r path
  | c :: r => c :: subst_s r path
  | [] => []
  end.
Definition mutex_string (path : bytes) : bytes := subst_s mutex_string_format path.

(* C07 (faults): Transform is all-or-nothing under any single I/O fault, for every old/new
   length relation; a failing write may have written any prefix of its data. *)
From Coq Require Import List NArith Arith Bool Lia.
From Coq.Strings Require Import Byte.
From GI Require Import Gen.LockedFileConsts LockedFile.LockedFile LockedFile.LockBasics.
Import ListNotations.

(* ------------------------------------------------------------------ file algebra *)

Lemma zeros_0 : zeros 0 = [].
Proof. reflexivity. Qed.

Lemma write_at_0 d X : write_at 0 d X = d ++ skipn (length d) X.
Proof.
  unfold write_at. destruct d as [|x d]; [reflexivity|].
  simpl firstn. reflexivity.
Qed.

Lemma resize_app a y : resize (length a) (a ++ y) = a.
Proof.
  unfold resize. rewrite firstn_app, firstn_all, Nat.sub_diag. simpl.
  rewrite app_nil_r, app_length.
  replace (length a - (length a + length y)) with 0 by lia. simpl. apply app_nil_r.
Qed.

Lemma resize_self a : resize (length a) a = a.
Proof. rewrite <- (app_nil_r a) at 2. apply resize_app. Qed.

Lemma write_at_end old d : write_at (length old) d old = old ++ d.
Proof.
  unfold write_at. destruct d as [|x d]; [now rewrite app_nil_r|].
  rewrite Nat.sub_diag. simpl zeros. rewrite app_nil_r, firstn_all.
  rewrite skipn_all2 by lia. now rewrite app_nil_r.
Qed.

(* the rollback restores old whatever the file holds *)
Lemma restore_old old X : resize (length old) (write_at 0 old X) = old.
Proof. rewrite write_at_0. apply resize_app. Qed.

Lemma skipn_app_exact {A} (a y : list A) n : n = length a -> skipn n (a ++ y) = y.
Proof.
  intros H. subst n. rewrite skipn_app, skipn_all, Nat.sub_diag. reflexivity.
Qed.

(* ------------------------------------------------------------------ running the pieces *)

Definition quiet (plan : nat -> fault) (n : nat) : Prop := forall j, n <= j -> plan j = FNone.
(* at most one operation of the run is hit *)
Definition single_fault (plan : nat -> fault) : Prop :=
  forall n, plan n <> FNone -> quiet plan (S n).

Lemma quiet_S plan n : quiet plan n -> quiet plan (S n).
Proof. intros H j Hj. apply H. lia. Qed.

Lemma single_fault_no_faults : single_fault no_faults.
Proof. intros n H. now elim H. Qed.

Lemma single_fault_at k f : single_fault (fault_at k f).
Proof.
  intros n Hn j Hj. unfold fault_at in *.
  destruct (Nat.eqb_spec n k) as [E|]; [|now elim Hn].
  destruct (Nat.eqb_spec j k); [lia|reflexivity].
Qed.

Lemma quiet_no_faults n : quiet no_faults n.
Proof. intros j _. reflexivity. Qed.

Lemma run_body_pwrite off d k plan n b fd :
  run_body (pwrite_prog off d k) plan n b fd =
  match d with
  | [] => run_body (k ROk) plan n b fd
  | _ => match io_step (OPWrite off d) (plan n) b fd with
         | (r, b', fd') => run_body (k r) plan (S n) b' fd' end
  end.
Proof. destruct d; reflexivity. Qed.

Section Writable.
Variable fd : fdesc.
Hypothesis Hw : acc_writable (fd_acc fd) = true.

Lemma io_pwrite off d flt b :
  io_step (OPWrite off d) flt b fd =
  match flt with
  | FNone => (ROk, write_at off d b, fd)
  | FFail => (RErr, b, fd)
  | FShort n => (RErr, write_at off (firstn n d) b, fd)
  end.
Proof. simpl. now rewrite Hw. Qed.

Lemma io_ftruncate n flt b :
  io_step (OFtruncate n) flt b fd =
  match flt with FNone => (ROk, resize n b, fd) | _ => (RErr, b, fd) end.
Proof. simpl. now rewrite Hw. Qed.

Lemma rollback_quiet plan n old X :
  quiet plan n -> run_body (rollback old) plan n X fd = (ResErr, old, fd).
Proof.
  intros Hq. unfold rollback. rewrite run_body_pwrite.
  destruct old as [|x old'] eqn:E.
  - cbn [run_body]. cbn [length]. rewrite io_ftruncate, (Hq n) by lia. reflexivity.
  - rewrite <- E. rewrite io_pwrite, (Hq n) by lia. cbn [run_body].
    rewrite io_ftruncate, (Hq (S n)) by lia. simpl. now rewrite restore_old.
Qed.

(* the part after the tail write: X = old ++ tl is what the file holds *)
Lemma transform_main_single plan n old new tl :
  single_fault plan ->
  match run_body (transform_main old new) plan n (old ++ tl) fd with
  | (r, b', _) =>
      (r = ResOk /\ b' = if length old <=? length new
                         then firstn (length old) new ++ tl else new) \/
      (r = ResErr /\ b' = old /\ exists j, plan j <> FNone)
  end.
Proof.
  intros Hsf. unfold transform_main.
  destruct (Nat.leb_spec (length old) (length new)) as [Hle|Hgt].
  - rewrite run_body_pwrite.
    destruct (firstn (length old) new) as [|h hd] eqn:Eh.
    + (* nothing to write: old is empty *)
      assert (length old = 0).
      { rewrite <- (firstn_length_le new Hle), Eh. reflexivity. }
      destruct old; [|discriminate]. simpl. left. auto.
    + rewrite <- Eh. rewrite io_pwrite.
      assert (Hlen : length (firstn (length old) new) = length old) by (apply firstn_length_le; lia).
      destruct (plan n) eqn:Ep.
      * simpl. left. split; [reflexivity|].
        rewrite write_at_0, Hlen. now rewrite skipn_app_exact.
      * rewrite rollback_quiet by (apply Hsf; congruence). right. repeat split; auto. exists n. congruence.
      * rewrite rollback_quiet by (apply Hsf; congruence). right. repeat split; auto. exists n. congruence.
  - rewrite run_body_pwrite.
    destruct new as [|h new'] eqn:En.
    + cbn [run_body]. rewrite io_ftruncate.
      destruct (plan n) eqn:Ep.
      * simpl. left. split; reflexivity.
      * rewrite rollback_quiet by (apply Hsf; congruence). right. repeat split; auto. exists n. congruence.
      * rewrite rollback_quiet by (apply Hsf; congruence). right. repeat split; auto. exists n. congruence.
    + rewrite <- En in *. rewrite io_pwrite.
      destruct (plan n) eqn:Ep.
      * cbn [run_body]. rewrite io_ftruncate.
        destruct (plan (S n)) eqn:Ep2.
        -- simpl. left. split; [reflexivity|]. rewrite write_at_0. apply resize_app.
        -- rewrite rollback_quiet by (apply Hsf; congruence). right. repeat split; auto. exists (S n). congruence.
        -- rewrite rollback_quiet by (apply Hsf; congruence). right. repeat split; auto. exists (S n). congruence.
      * rewrite rollback_quiet by (apply Hsf; congruence). right. repeat split; auto. exists n. congruence.
      * rewrite rollback_quiet by (apply Hsf; congruence). right. repeat split; auto. exists n. congruence.
Qed.

Lemma transform_write_single plan n old new :
  single_fault plan ->
  match run_body (transform_write old new) plan n old fd with
  | (r, b', _) => (r = ResOk /\ b' = new) \/ (r = ResErr /\ b' = old /\ exists j, plan j <> FNone)
  end.
Proof.
  intros Hsf. unfold transform_write.
  destruct (Nat.ltb_spec (length old) (length new)) as [Hlt|Hge].
  - rewrite run_body_pwrite.
    destruct (skipn (length old) new) as [|h tl'] eqn:Et.
    + exfalso. assert (Hl : length (skipn (length old) new) = 0) by now rewrite Et.
      rewrite skipn_length in Hl. lia.
    + rewrite <- Et. rewrite io_pwrite.
      destruct (plan n) eqn:Ep.
      * rewrite write_at_end.
        pose proof (transform_main_single plan (S n) old new (skipn (length old) new) Hsf) as Hm.
        destruct (run_body _ _ _ _ _) as [[r b'] fd'].
        replace (length old <=? length new) with true in Hm by (symmetry; apply Nat.leb_le; lia).
        now rewrite firstn_skipn in Hm.
      * cbn [run_body]. rewrite io_ftruncate, (Hsf n) by (congruence || lia).
        simpl. right. repeat split; [apply resize_self|exists n; congruence].
      * cbn [run_body]. rewrite io_ftruncate, (Hsf n) by (congruence || lia).
        simpl. right. repeat split; [rewrite write_at_end; apply resize_app|exists n; congruence].
  - pose proof (transform_main_single plan n old new [] Hsf) as Hm.
    rewrite app_nil_r in Hm.
    destruct (run_body _ _ _ _ _) as [[r b'] fd'].
    destruct (Nat.leb_spec (length old) (length new)) as [Hle|Hgt]; [|exact Hm].
    rewrite app_nil_r in Hm. assert (Heq : length old = length new) by lia.
    rewrite Heq, firstn_all in Hm. exact Hm.
Qed.


End Writable.

(* Transform's I/O on a file holding old, any plan with at most one fault: either it reports
   success and the file holds t(old), or it reports an error and the file holds old *)
Lemma transform_body_single fd t plan old :
  acc_writable (fd_acc fd) = true -> acc_readable (fd_acc fd) = true -> fd_off fd = 0 ->
  single_fault plan ->
  match run_body (transform_body t) plan 0 old fd with
  | (r, b', _) =>
      (r = ResOk /\ t old = Some b') \/
      (r = ResErr /\ b' = old /\ (t old = None \/ exists j, plan j <> FNone))
  end.
Proof.
  intros Hw Hr Hoff Hsf. unfold transform_body. cbn [run_body]. simpl io_step. rewrite Hr.
  destruct (plan 0) eqn:Ep.
  - rewrite Hoff. simpl skipn. destruct (t old) as [new|] eqn:Et.
    + pose proof (transform_write_single
                    {| fd_acc := fd_acc fd; fd_off := Nat.max 0 (length old) |} Hw
                    plan 1 old new Hsf) as Hm.
      destruct (run_body _ _ _ _ _) as [[r b'] fd'].
      destruct Hm as [[-> ->]|[-> [-> Hj]]]; [left|right]; auto.
    + simpl. right. auto.
  - simpl. right. repeat split; auto. right. exists 0. congruence.
  - simpl. right. repeat split; auto. right. exists 0. congruence.
Qed.

(* ------------------------------------------------------------------ the theorems *)

Theorem transform_fault_atomic t old plan fd :
  acc_writable (fd_acc fd) = true -> acc_readable (fd_acc fd) = true -> fd_off fd = 0 ->
  single_fault plan ->
  match run_body (transform_body t) plan 0 old fd with
  | (r, b', _) =>
      (r = ResOk /\ t old = Some b') \/
      (r = ResErr /\ b' = old /\ (t old = None \/ exists j, plan j <> FNone))
  end.
Proof. intros Hw Hr Ho Hsf. now apply transform_body_single. Qed.

(* the same for the single fault number k of kind f (FFail, or FShort n: the failing write
   wrote the first n bytes of its data) *)
Corollary transform_fault_atomic_at t old k f :
  match run_body (transform_body t) (fault_at k f) 0 old (fresh_fd edit_flags) with
  | (r, b', _) => (r = ResOk /\ t old = Some b') \/ (r = ResErr /\ b' = old)
  end.
Proof.
  pose proof (transform_fault_atomic t old (fault_at k f) (fresh_fd edit_flags)
                eq_refl eq_refl eq_refl (single_fault_at k f)) as H.
  destruct (run_body _ _ _ _ _) as [[r b'] fd'].
  destruct H as [H|[Hr [Hb _]]]; auto.
Qed.

Theorem transform_ok t old new fd :
  acc_writable (fd_acc fd) = true -> acc_readable (fd_acc fd) = true -> fd_off fd = 0 ->
  t old = Some new ->
  match run_body (transform_body t) no_faults 0 old fd with
  | (r, b', _) => r = ResOk /\ b' = new
  end.
Proof.
  intros Hw Hr Ho Ht.
  pose proof (transform_fault_atomic t old no_faults fd Hw Hr Ho single_fault_no_faults) as H.
  destruct (run_body _ _ _ _ _) as [[r b'] fd'].
  destruct H as [[-> H]|[_ [_ [H|[j H]]]]].
  - split; congruence.
  - congruence.
  - now elim H.
Qed.

Theorem transform_t_fails t old fd plan :
  acc_writable (fd_acc fd) = true -> acc_readable (fd_acc fd) = true -> fd_off fd = 0 ->
  single_fault plan -> t old = None ->
  match run_body (transform_body t) plan 0 old fd with
  | (r, b', _) => r = ResErr /\ b' = old
  end.
Proof.
  intros Hw Hr Ho Hsf Ht.
  pose proof (transform_fault_atomic t old plan fd Hw Hr Ho Hsf) as H.
  destruct (run_body _ _ _ _ _) as [[r b'] fd'].
  destruct H as [[_ H]|[-> [-> _]]]; [congruence|auto].
Qed.

(* non-vacuity: the three length relations, faults that hit, a short write *)
Example transform_ok_grow :
  run_body (transform_body (fun b => Some (b ++ [x7a; x7a]))) no_faults 0 [x61; x62] (fresh_fd edit_flags)
  = (ResOk, [x61; x62; x7a; x7a], {| fd_acc := 2; fd_off := 2 |}).
Proof. vm_compute. reflexivity. Qed.
Example transform_ok_shrink :
  run_body (transform_body (fun b => Some [x7a])) no_faults 0 [x61; x62; x63] (fresh_fd edit_flags)
  = (ResOk, [x7a], {| fd_acc := 2; fd_off := 3 |}).
Proof. vm_compute. reflexivity. Qed.
Example transform_short_head_write_rolls_back :
  run_body (transform_body (fun b => Some [x7a; x7a; x7a; x7a])) (fault_at 2 (FShort 1)) 0 [x61; x62]
           (fresh_fd edit_flags)
  = (ResErr, [x61; x62], {| fd_acc := 2; fd_off := 2 |}).
Proof. vm_compute. reflexivity. Qed.
Example transform_truncate_fault_rolls_back :
  run_body (transform_body (fun b => Some [x7a])) (fault_at 2 FFail) 0 [x61; x62; x63]
           (fresh_fd edit_flags)
  = (ResErr, [x61; x62; x63], {| fd_acc := 2; fd_off := 3 |}).
Proof. vm_compute. reflexivity. Qed.

(* lockedfile (C07): Transform under fault POLICIES (Policy.v) — persistent faults next to
   the single fault of TransformProofs.v.

   What the property text demands: "if the function or any SINGLE write step reports an error,
   the previous contents remain in place" — that is transform_fault_atomic (TransformProofs.v).
   What the code guarantees beyond that, and what it does not:

     transform_limit_atomic        under a size limit L (every write stores what fits below L and
                                   then fails, the rollback's writes too): all-or-nothing, for
                                   every L and every length relation;
     transform_no_write_atomic     when every write fails outright: all-or-nothing, whatever the
                                   truncations do;
     transform_err_keeps_old_tail  under ANY policy an error return never loses bytes: the file is
                                   at least as long as before and the old bytes beyond the new
                                   length are intact (write first, truncate last);
     transform_persistent_not_atomic   but all-or-nothing does NOT hold for arbitrary persistent
                                   faults (witness: the tail is written, then every write fails:
                                   the file is left as old ++ tail of new);
     transform_publishes_any_result    without faults the file holds t(old), for every result
                                   value, the empty one included. *)
From Coq Require Import List NArith Arith Bool Lia.
From Coq.Strings Require Import Byte.
From GI Require Import Gen.LockedFileConsts LockedFile.LockedFile LockedFile.LockBasics
  LockedFile.LockProofs LockedFile.TransformProofs LockedFile.TransformCall.
From GI Require Import LockedFile.Policy LockedFile.PolicyProofs.
Import ListNotations.

(* ------------------------------------------------------------------ lists, pointwise *)

Lemma nth_zeros i k : nth i (zeros k) x00 = x00.
Proof.
  unfold zeros. revert i. induction k as [|k IH]; intros [|i]; simpl; auto.
Qed.

Lemma nth_firstn_lt {A} (l : list A) d : forall n i, i < n -> nth i (firstn n l) d = nth i l d.
Proof.
  induction l as [|a l IH]; intros [|n] [|i] H; simpl; auto; try lia. apply IH. lia.
Qed.

Lemma nth_skipn_add {A} (l : list A) d : forall n i, nth i (skipn n l) d = nth (n + i) l d.
Proof.
  induction l as [|a l IH]; intros [|n] i; simpl; auto. now destruct i.
Qed.

Lemma nth_pad i b k : nth i (b ++ zeros k) x00 = nth i b x00.
Proof.
  destruct (Nat.lt_ge_cases i (length b)) as [H|H].
  - now apply app_nth1.
  - rewrite app_nth2 by lia. rewrite nth_zeros. symmetry. now apply nth_overflow.
Qed.

Lemma length_write_at_ge off d b : length b <= length (write_at off d b).
Proof.
  unfold write_at. destruct d as [|x d]; [lia|].
  rewrite !app_length, firstn_length, app_length, skipn_length. unfold zeros. rewrite repeat_length.
  simpl length. lia.
Qed.

Lemma length_write_at off d b :
  d <> [] -> length (write_at off d b) = Nat.max (length b) (off + length d).
Proof.
  intros Hd. unfold write_at. destruct d as [|x d]; [now elim Hd|].
  rewrite !app_length, firstn_length, app_length, skipn_length. unfold zeros. rewrite repeat_length.
  simpl length. lia.
Qed.

Lemma nth_write_at off d b i :
  nth i (write_at off d b) x00 =
  if (off <=? i) && (i <? off + length d) then nth (i - off) d x00 else nth i b x00.
Proof.
  unfold write_at. destruct d as [|x d].
  - simpl length. destruct (off <=? i) eqn:E1, (i <? off + 0) eqn:E2; simpl; auto.
    apply Nat.leb_le in E1. apply Nat.ltb_lt in E2. lia.
  - set (dd := x :: d).
    assert (Hl : length (firstn off (b ++ zeros (off - length b))) = off).
    { rewrite firstn_length, app_length. unfold zeros. rewrite repeat_length. lia. }
    destruct (Nat.leb_spec off i) as [H1|H1]; cbn [andb].
    + rewrite app_nth2 by lia. rewrite Hl.
      destruct (Nat.ltb_spec i (off + length dd)) as [H2|H2].
      * now rewrite app_nth1 by lia.
      * rewrite app_nth2 by lia. rewrite nth_skipn_add. f_equal. lia.
    + rewrite app_nth1 by lia. rewrite nth_firstn_lt by lia. apply nth_pad.
Qed.

Lemma length_resize n b : length (resize n b) = n.
Proof.
  unfold resize. rewrite app_length, firstn_length. unfold zeros. rewrite repeat_length. lia.
Qed.

Lemma nth_resize n b i : nth i (resize n b) x00 = if i <? n then nth i b x00 else x00.
Proof.
  unfold resize. destruct (Nat.ltb_spec i n) as [H|H].
  - destruct (Nat.lt_ge_cases i (length b)) as [H2|H2].
    + rewrite app_nth1 by (rewrite firstn_length; lia). now apply nth_firstn_lt.
    + rewrite app_nth2 by (rewrite firstn_length; lia). rewrite nth_zeros.
      symmetry. now apply nth_overflow.
  - apply nth_overflow. rewrite app_length, firstn_length. unfold zeros. rewrite repeat_length. lia.
Qed.

(* ------------------------------------------------------------------ running bodies under a policy *)

Lemma run_body_pol_pwrite off d k pol h b fd :
  run_body_pol (pwrite_prog off d k) pol h b fd =
  match d with
  | [] => run_body_pol (k ROk) pol h b fd
  | _ => match io_step (OPWrite off d) (pol h (OPWrite off d) b (Some fd)) b fd with
         | (r, b', fd') => run_body_pol (k r) pol ((OPWrite off d, r) :: h) b' fd' end
  end.
Proof. destruct d; reflexivity. Qed.

(* the policy semantics extends the position plans: same results for every program *)
Lemma run_body_pol_plan p plan : forall h b fd,
  run_body_pol p (pol_of_plan plan) h b fd = run_body p plan (length h) b fd.
Proof.
  induction p as [r|o k IH|o k IH]; intros h b fd; simpl; [reflexivity| |];
  unfold pol_of_plan at 1;
  (destruct (is_io o) eqn:Hio;
   [|assert (E : forall f, io_step o f b fd = (RErr, b, fd)) by (destruct o; try discriminate Hio; reflexivity);
     rewrite !E]);
  try (destruct (io_step o (plan (length h)) b fd) as [[r b'] fd']); apply (IH _ (_ :: h)).
Qed.

Lemma run_pol_plan i c p plan : forall h s,
  run_pol i c p (pol_of_plan plan) h s =
  match run_seq i c p plan (length h) s with
  | (tr, out, s') => (rev tr ++ h, out, s')
  end.
Proof.
  assert (Hstep : forall o h s,
    os_step_f i c o (pol_of_plan plan h o (content_of (files s i)) (fds s c)) false s =
    os_step i c o (plan (length h)) false s).
  { intros o h s. unfold pol_of_plan. destruct (is_io o) eqn:Hio.
    - now apply osf_io.
    - simpl. symmetry. now apply os_step_nonio_flt. }
  induction p as [r|o k IH|o k IH]; intros h s; cbn [run_pol run_seq]; [reflexivity| |];
  rewrite Hstep; destruct (os_step i c o (plan (length h)) false s) as [[r s1]|]; try reflexivity.
  - rewrite (IH r ((o, r) :: h) s1). simpl length.
    destruct (run_seq i c (k r) plan (S (length h)) s1) as [[tr out] s2].
    simpl rev. now rewrite <- app_assoc.
  - destruct r; try reflexivity;
    rewrite (IH _ ((o, _) :: h) s1); simpl length;
    destruct (run_seq i c (k _) plan (S (length h)) s1) as [[tr out] s2];
    simpl rev; now rewrite <- app_assoc.
Qed.

Section Writable.
Variable fd : fdesc.
Hypothesis Hw : acc_writable (fd_acc fd) = true.
Hypothesis Hr : acc_readable (fd_acc fd) = true.

(* what a write leaves is the write of SOME prefix of its data *)
Lemma pwrite_effect off d flt b :
  exists m, io_step (OPWrite off d) flt b fd =
            (match flt with FNone => ROk | _ => RErr end, write_at off (firstn m d) b, fd).
Proof.
  rewrite (io_pwrite fd Hw). destruct flt.
  - exists (length d). now rewrite firstn_all.
  - exists 0. reflexivity.
  - exists n. reflexivity.
Qed.

(* ---------------------------------------------------------------- any policy: nothing is lost *)

Section Keeps.
Variables old new : bytes.

Definition inv (X : bytes) : Prop :=
  length old <= length X /\
  forall i, length new <= i -> i < length old -> nth i X x00 = nth i old x00.

(* the writes Transform makes: the tail beyond the old length, a head no longer than the new
   contents, or the old contents themselves *)
Definition safe_write (off : nat) (d : bytes) : Prop :=
  length old <= off \/ (off = 0 /\ length d <= length new) \/ (off = 0 /\ d = old).

Lemma inv_write off d m X : safe_write off d -> inv X -> inv (write_at off (firstn m d) X).
Proof.
  intros Hs [Hl Hn]. split.
  - pose proof (length_write_at_ge off (firstn m d) X). lia.
  - intros i H1 H2. rewrite nth_write_at.
    assert (Hfl : length (firstn m d) <= length d) by (rewrite firstn_length; lia).
    destruct (Nat.leb_spec off i) as [Ha|Ha]; cbn [andb]; [|now apply Hn].
    destruct (Nat.ltb_spec i (off + length (firstn m d))) as [Hb|Hb]; [|now apply Hn].
    destruct Hs as [Hs|[[-> Hs]|[-> ->]]]; try lia.
    rewrite Nat.sub_0_r. apply nth_firstn_lt. rewrite firstn_length in Hb. lia.
Qed.

Lemma inv_resize X : inv X -> inv (resize (length old) X).
Proof.
  intros [Hl Hn]. split; [now rewrite length_resize|].
  intros i H1 H2. rewrite nth_resize. destruct (Nat.ltb_spec i (length old)); [now apply Hn|lia].
Qed.

(* an error return carries the invariant *)
Definition keeps (p : prog) : Prop :=
  forall pol h X fd', fd_acc fd' = fd_acc fd -> inv X ->
    match run_body_pol p pol h X fd' with
    | (ResErr, X', _) => inv X'
    | _ => True
    end.

Lemma keeps_ret r : keeps (Ret r).
Proof. intros pol h X fd' _ HI. simpl. now destruct r. Qed.

Lemma io_step_fd_acc o flt X fd' : fd_acc (snd (io_step o flt X fd')) = fd_acc fd'.
Proof.
  destruct o; simpl; try reflexivity;
  repeat match goal with |- context [if ?b then _ else _] => destruct b end;
  destruct flt; reflexivity.
Qed.

Lemma keeps_pwrite off d k : safe_write off d -> (forall r, keeps (k r)) -> keeps (pwrite_prog off d k).
Proof.
  intros Hs Hk pol h X fd' Hacc HI. rewrite run_body_pol_pwrite. destruct d as [|x d]; [now apply Hk|].
  set (dd := x :: d) in *.
  assert (Hw' : acc_writable (fd_acc fd') = true) by now rewrite Hacc.
  rewrite (io_pwrite fd' Hw').
  destruct (pol h (OPWrite off dd) X (Some fd')); apply Hk; auto.
  - rewrite <- (firstn_all dd). now apply inv_write.
  - now apply inv_write.
Qed.

Lemma keeps_trunc_old k : (forall r, keeps (k r)) -> keeps (Do (OFtruncate (length old)) k).
Proof.
  intros Hk pol h X fd' Hacc HI. cbn [run_body_pol].
  assert (Hw' : acc_writable (fd_acc fd') = true) by now rewrite Hacc.
  rewrite (io_ftruncate fd' Hw').
  destruct (pol h (OFtruncate (length old)) X (Some fd')); apply Hk; auto. now apply inv_resize.
Qed.

(* the forward truncation: when it works the call succeeds; when it fails nothing changed *)
Lemma keeps_trunc_new n k : k ROk = Ret ResOk -> (forall r, keeps (k r)) -> keeps (Do (OFtruncate n) k).
Proof.
  intros Hok Hk pol h X fd' Hacc HI. cbn [run_body_pol].
  assert (Hw' : acc_writable (fd_acc fd') = true) by now rewrite Hacc.
  rewrite (io_ftruncate fd' Hw').
  destruct (pol h (OFtruncate n) X (Some fd')); [rewrite Hok; exact I| |]; apply Hk; auto.
Qed.

Lemma keeps_rollback : keeps (rollback old).
Proof.
  unfold rollback. apply keeps_pwrite; [right; right; auto|].
  intros []; try apply keeps_ret. apply keeps_trunc_old. intros _. apply keeps_ret.
Qed.

Lemma keeps_main : keeps (transform_main old new).
Proof.
  unfold transform_main. destruct (Nat.leb_spec (length old) (length new)) as [Hle|Hgt].
  - apply keeps_pwrite.
    + right. left. split; [reflexivity|]. rewrite firstn_length. lia.
    + intros []; try apply keeps_rollback. apply keeps_ret.
  - apply keeps_pwrite.
    + right. left. split; [reflexivity|lia].
    + intros []; try apply keeps_rollback.
      apply keeps_trunc_new; [reflexivity|]. intros []; try apply keeps_rollback. apply keeps_ret.
Qed.

Lemma keeps_write : keeps (transform_write old new).
Proof.
  unfold transform_write. destruct (length old <? length new); [|apply keeps_main].
  apply keeps_pwrite; [left; lia|].
  intros []; try apply keeps_main; (apply keeps_trunc_old; intros _; apply keeps_ret).
Qed.

End Keeps.

Lemma inv_refl old new : inv old new old.
Proof. split; auto. Qed.

End Writable.

Definition rwfd (fd : fdesc) : Prop :=
  acc_writable (fd_acc fd) = true /\ acc_readable (fd_acc fd) = true /\ fd_off fd = 0.

(* Under ANY fault policy: when Transform reports an error the file is at least as long as
   before, and every old byte beyond the length of the new contents is still in place. *)
Theorem transform_err_keeps_old_tail t old pol h fd :
  rwfd fd ->
  match run_body_pol (transform_body t) pol h old fd with
  | (ResErr, X, _) =>
      length old <= length X /\
      forall new, t old = Some new ->
        forall i, length new <= i -> i < length old -> nth i X x00 = nth i old x00
  | _ => True
  end.
Proof.
  intros [Hw [Hr Hoff]]. unfold transform_body. cbn [run_body_pol]. simpl io_step. rewrite Hr.
  destruct (pol h OReadAll old (Some fd)); try (simpl; split; [lia|auto]).
  rewrite Hoff. simpl skipn.
  destruct (t old) as [new|] eqn:Et; [|simpl; split; [lia|auto]].
  pose proof (keeps_write fd Hw old new pol ((OReadAll, RData old) :: h) old
                {| fd_acc := fd_acc fd; fd_off := Nat.max 0 (length old) |} eq_refl (inv_refl old new)) as H.
  destruct (run_body_pol (transform_write old new) pol _ old _) as [[r X] fd'].
  destruct r; auto. destruct H as [Hl Hn]. split; [exact Hl|].
  intros new' [= <-]. exact Hn.
Qed.

(* ------------------------------------------------------------------ every write fails outright *)

Theorem transform_no_write_atomic t old pol h fd :
  rwfd fd -> writes_always_fail pol ->
  match run_body_pol (transform_body t) pol h old fd with
  | (r, X, _) => (r = ResOk /\ t old = Some X) \/ (r = ResErr /\ X = old)
  end.
Proof.
  intros [Hw [Hr Hoff]] Hwf. unfold transform_body. cbn [run_body_pol]. simpl io_step. rewrite Hr.
  destruct (pol h OReadAll old (Some fd)); try (simpl; now right).
  rewrite Hoff. simpl skipn. destruct (t old) as [new|] eqn:Et; [|simpl; now right].
  set (fd1 := {| fd_acc := fd_acc fd; fd_off := Nat.max 0 (length old) |}).
  assert (Hw1 : acc_writable (fd_acc fd1) = true) by exact Hw.
  set (h1 := (OReadAll, RData old) :: h).
  (* the rollback after nothing was written *)
  assert (Hrb : forall h2, run_body_pol (rollback old) pol h2 old fd1 = (ResErr, old, fd1)).
  { intros h2. unfold rollback. rewrite run_body_pol_pwrite. destruct old as [|x o'] eqn:Eo.
    - cbn [run_body_pol]. rewrite (io_ftruncate fd1 Hw1).
      destruct (pol h2 _ _ _); reflexivity.
    - rewrite (io_pwrite fd1 Hw1), Hwf. reflexivity. }
  assert (Hmain : match run_body_pol (transform_main old new) pol h1 old fd1 with
                  | (r, X, _) => length new <= length old ->
                      (r = ResOk /\ X = new) \/ (r = ResErr /\ X = old) end).
  { unfold transform_main. destruct (Nat.leb_spec (length old) (length new)) as [Hle|Hgt].
    - rewrite run_body_pol_pwrite. destruct (firstn (length old) new) as [|x hd] eqn:Eh.
      + simpl. intros Hl. left. split; [reflexivity|].
        assert (length old = 0) by (rewrite <- (firstn_length_le new Hle), Eh; reflexivity).
        destruct old; [|discriminate]. destruct new; [reflexivity|simpl in Hl; lia].
      + rewrite <- Eh. rewrite (io_pwrite fd1 Hw1), Hwf. rewrite Hrb. intros _. now right.
    - rewrite run_body_pol_pwrite. destruct new as [|x n'] eqn:En.
      + cbn [run_body_pol]. rewrite (io_ftruncate fd1 Hw1).
        destruct (pol h1 _ _ _); [simpl; intros _; left; split; reflexivity| |];
          rewrite Hrb; intros _; now right.
      + rewrite (io_pwrite fd1 Hw1), Hwf. rewrite Hrb. intros _. now right. }
  unfold transform_write. destruct (Nat.ltb_spec (length old) (length new)) as [Hlt|Hge].
  - rewrite run_body_pol_pwrite. destruct (skipn (length old) new) as [|x tl] eqn:Es.
    + exfalso. assert (Hl : length (skipn (length old) new) = 0) by now rewrite Es.
      rewrite skipn_length in Hl. lia.
    + rewrite <- Es. rewrite (io_pwrite fd1 Hw1), Hwf. cbn [run_body_pol].
      rewrite (io_ftruncate fd1 Hw1). destruct (pol _ _ _ _); simpl; right; split; auto.
      apply resize_self.
  - fold h1. destruct (run_body_pol (transform_main old new) pol h1 old fd1) as [[r X] fd'].
    destruct (Hmain Hge) as [[-> ->]|[-> ->]]; [left|right]; auto.
Qed.

(* ------------------------------------------------------------------ the size-limit regime *)

Lemma firstn_firstn_old L (o n : bytes) :
  L <= length n -> L <= length o ->
  firstn L o ++ skipn L (firstn L n ++ skipn L o) = o.
Proof.
  intros H1 H2. rewrite skipn_app_exact by (rewrite firstn_length; lia). apply firstn_skipn.
Qed.

Theorem transform_limit_atomic t old L h fd :
  rwfd fd ->
  match run_body_pol (transform_body t) (limit_pol L) h old fd with
  | (r, X, _) => (r = ResOk /\ t old = Some X) \/ (r = ResErr /\ X = old)
  end.
Proof.
  intros [Hw [Hr Hoff]]. unfold transform_body. cbn [run_body_pol]. simpl io_step. rewrite Hr.
  change (limit_pol L h OReadAll old (Some fd)) with FNone. cbv iota.
  rewrite Hoff. simpl skipn. destruct (t old) as [new|] eqn:Et; [|simpl; now right].
  set (fd1 := {| fd_acc := fd_acc fd; fd_off := Nat.max 0 (length old) |}).
  assert (Hw1 : acc_writable (fd_acc fd1) = true) by exact Hw.
  (* a write of d at 0 over X under the limit *)
  assert (Hpw : forall h2 d X, d <> [] ->
            io_step (OPWrite 0 d) (limit_pol L h2 (OPWrite 0 d) X (Some fd1)) X fd1 =
            if length d <=? L then (ROk, d ++ skipn (length d) X, fd1)
            else (RErr, firstn L d ++ skipn L X, fd1)).
  { intros h2 d X Hd. rewrite (io_pwrite fd1 Hw1). unfold limit_pol. simpl plus.
    destruct (Nat.leb_spec (length d) L) as [Hle|Hgt].
    - now rewrite write_at_0.
    - rewrite Nat.sub_0_r, write_at_0, firstn_length. now replace (Nat.min L (length d)) with L by lia. }
  (* the rollback when the forward write was cut at L < length old, X agreeing with old from L on *)
  assert (Hrb : forall h2 X, L < length old -> skipn L X = skipn L old ->
            run_body_pol (rollback old) (limit_pol L) h2 X fd1 = (ResErr, old, fd1)).
  { intros h2 X HL HX. unfold rollback. rewrite run_body_pol_pwrite.
    destruct old as [|x o'] eqn:Eo; [simpl in HL; lia|]. rewrite <- Eo in *.
    rewrite Hpw by (rewrite Eo; discriminate).
    destruct (Nat.leb_spec (length old) L); [lia|]. rewrite HX, firstn_skipn. reflexivity. }
  unfold transform_write. destruct (Nat.ltb_spec (length old) (length new)) as [Hlt|Hge].
  - (* growing: the tail first *)
    rewrite run_body_pol_pwrite. destruct (skipn (length old) new) as [|x tl] eqn:Es.
    { exfalso. assert (Hl : length (skipn (length old) new) = 0) by now rewrite Es.
      rewrite skipn_length in Hl. lia. }
    rewrite <- Es. rewrite (io_pwrite fd1 Hw1). unfold limit_pol at 1.
    assert (Hsl : length (skipn (length old) new) = length new - length old) by apply skipn_length.
    rewrite Hsl. destruct (Nat.leb_spec (length old + (length new - length old)) L) as [Hfit|Hcut].
    + (* everything fits below the limit: no fault anywhere *)
      rewrite write_at_end. unfold transform_main.
      destruct (Nat.leb_spec (length old) (length new)) as [_|]; [|lia].
      rewrite run_body_pol_pwrite. destruct (firstn (length old) new) as [|y hd] eqn:Eh.
      * simpl. left. split; [reflexivity|].
        assert (length old = 0) by (rewrite <- (firstn_length_le new (Nat.lt_le_incl _ _ Hlt)), Eh; reflexivity).
        destruct old; [|discriminate]. simpl. reflexivity.
      * rewrite <- Eh. rewrite Hpw by (rewrite Eh; discriminate).
        assert (Hfl : length (firstn (length old) new) = length old) by (apply firstn_length_le; lia).
        rewrite Hfl. destruct (Nat.leb_spec (length old) L); [|lia].
        simpl. left. split; [reflexivity|]. rewrite skipn_app_exact by reflexivity.
        now rewrite firstn_skipn.
    + (* the tail write is cut: remove the incomplete tail *)
      rewrite write_at_end. cbn [run_body_pol]. rewrite (io_ftruncate fd1 Hw1).
      unfold limit_pol. rewrite app_length.
      replace (length old <=? length old + length (firstn (L - length old) (skipn (length old) new)))
        with true by (symmetry; apply Nat.leb_le; lia).
      simpl orb. simpl. right. split; [reflexivity|]. apply resize_app.
  - (* not growing *)
    unfold transform_main. destruct (Nat.leb_spec (length old) (length new)) as [Hle|Hgt].
    + assert (Heq : length old = length new) by lia.
      rewrite run_body_pol_pwrite. rewrite Heq, firstn_all.
      destruct new as [|y n'] eqn:En.
      * simpl. left. split; [reflexivity|]. destruct old; [reflexivity|discriminate].
      * rewrite <- En in *. rewrite Hpw by (rewrite En; discriminate).
        destruct (Nat.leb_spec (length new) L) as [Hfit|Hcut].
        -- simpl. left. split; [reflexivity|]. rewrite <- Heq, skipn_all. now rewrite app_nil_r.
        -- rewrite Hrb; [now right|lia|]. rewrite skipn_app_exact by (rewrite firstn_length; lia).
           reflexivity.
    + rewrite run_body_pol_pwrite. destruct new as [|y n'] eqn:En.
      * cbn [run_body_pol]. rewrite (io_ftruncate fd1 Hw1). unfold limit_pol. simpl. left. split; reflexivity.
      * rewrite <- En in *. rewrite Hpw by (rewrite En; discriminate).
        destruct (Nat.leb_spec (length new) L) as [Hfit|Hcut].
        -- cbn [run_body_pol]. rewrite (io_ftruncate fd1 Hw1). unfold limit_pol at 1.
           rewrite app_length, skipn_length.
           replace (length new <=? length new + (length old - length new)) with true
             by (symmetry; apply Nat.leb_le; lia).
           simpl orb. simpl. left. split; [reflexivity|]. now rewrite resize_app.
        -- rewrite Hrb; [now right|lia|]. rewrite skipn_app_exact by (rewrite firstn_length; lia).
           reflexivity.
Qed.

(* ------------------------------------------------------------------ no faults: every result is published *)

Theorem transform_publishes_any_result t old new h fd :
  rwfd fd -> t old = Some new ->
  match run_body_pol (transform_body t) no_fault_pol h old fd with
  | (r, X, _) => r = ResOk /\ X = new
  end.
Proof.
  intros Hfd Ht.
  (* the fault-free policy is the fault-free plan *)
  destruct Hfd as [Hw [Hr Hoff]].
  assert (E : run_body_pol (transform_body t) no_fault_pol h old fd =
              run_body (transform_body t) no_faults (length h) old fd).
  { rewrite <- run_body_pol_plan.
    assert (Hext : forall p pol1 pol2 h0 b0 fd0, (forall a b c d, pol1 a b c d = pol2 a b c d) ->
              run_body_pol p pol1 h0 b0 fd0 = run_body_pol p pol2 h0 b0 fd0).
    { induction p as [r|o k IH|o k IH]; intros pol1 pol2 h0 b0 fd0 He; simpl; [reflexivity| |];
      rewrite He; destruct (io_step o _ b0 fd0) as [[r b'] fd']; now apply IH. }
    apply Hext. intros a b c d. unfold no_fault_pol, pol_of_plan, no_faults. now destruct (is_io b). }
  rewrite E. rewrite run_body_shift.
  pose proof (transform_ok t old new fd Hw Hr Hoff Ht) as H.
  assert (E2 : run_body (transform_body t) (fun j => no_faults (length h + j)) 0 old fd =
               run_body (transform_body t) no_faults 0 old fd).
  { apply run_body_ext. reflexivity. }
  rewrite E2. exact H.
Qed.

(* ------------------------------------------------------------------ what persistent faults can do *)

(* the tail of a growing Transform is written, then every write fails (the rollback's too):
   an error is reported and the file holds neither the old nor the new contents *)
Example transform_persistent_not_atomic :
  exists t old pol, rwfd (fresh_fd edit_flags) /\
    match run_body_pol (transform_body t) pol [] old (fresh_fd edit_flags) with
    | (r, X, _) => r = ResErr /\ X <> old /\ t old <> Some X /\
                   X = old ++ [x7a; x77]
    end.
Proof.
  exists (fun _ => Some [x78; x79; x7a; x77]), [x61; x62],
         (class_pol (fun k => match k with KWrite => {| cs_first := 2; cs_all := true |} | _ => cs_never end)).
  split; [repeat split|]. vm_compute. repeat split; discriminate.
Qed.

(* non-vacuity of the limit theorem: a shrinking Transform cut by the limit restores the old
   contents although its rollback write fails as well *)
Example transform_limit_shrink_rolls_back :
  run_body_pol (transform_body (fun _ => Some [x51; x52; x53; x54])) (limit_pol 2) []
               [x61; x62; x63; x64; x65; x66] (fresh_fd edit_flags)
  = (ResErr, [x61; x62; x63; x64; x65; x66], {| fd_acc := 2; fd_off := 6 |}).
Proof. vm_compute. reflexivity. Qed.

Example transform_publishes_empty_result :
  run_body_pol (transform_body (fun _ => Some [])) no_fault_pol [] [x61; x62; x63] (fresh_fd edit_flags)
  = (ResOk, [], {| fd_acc := 2; fd_off := 3 |}).
Proof. vm_compute. reflexivity. Qed.

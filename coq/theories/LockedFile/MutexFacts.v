(* C06: Mutex — the zero value and the empty path panic instead of locking "", Lock creates
   its lock file, and the platform's back end is flock(2). *)
From Coq Require Import List NArith Arith Bool.
From Coq.Strings Require Import Byte.
From GI Require Import Gen.LockedFileConsts LockedFile.LockedFile LockedFile.LockBasics
  LockedFile.LockProofs.
Import ListNotations.

Lemma mutex_zero_value_panics : mutex_lock [] = MPanic mutex_lock_panic_msg.
Proof. reflexivity. Qed.

Lemma mutex_nonempty_locks path :
  path <> [] -> mutex_lock path = MRun (prog_of_call CMutex) /\
                lock_mode_of_flags (flags_of_call CMutex) = Some LEx.
Proof. intros H. destruct path; [now elim H|]. split; reflexivity. Qed.

Lemma mutex_at_empty_panics : mutex_at [] = inr mutexat_panic_msg.
Proof. reflexivity. Qed.

(* Mutex.Lock on a path that does not exist yet creates the (empty) lock file, locks it
   exclusively, and the unlock function releases and closes it *)
Lemma mutex_creates_lock_file :
  has_flag mutex_flags sys_O_CREATE = true /\
  match run_seq 0 0 (prog_of_call CMutex) no_faults 0 (os_with None) with
  | (tr, out, s') =>
      out = Finished ResOk /\ files s' 0 = Some [] /\ ltab s' 0 = [] /\ fds s' 0 = None /\
      In (OFlock sys_LOCK_EX, ROk) tr
  end.
Proof. split; [reflexivity|]. cbv. repeat split. auto. Qed.

Lemma backend_is_flock : filelock_backend_is_flock = true.
Proof. reflexivity. Qed.

(* after a failed Truncate the lock is given up only on the path that returns the error (regular
   files); for other files the error is ignored and the File is returned still locked *)
Lemma truncate_error_keeps_lock : truncate_unlock_inside_regular_check = true.
Proof. reflexivity. Qed.

(* a failing open is what the call returns: no second attempt with other flags, no lock *)
Lemma open_error_is_returned fl b i c plan s s' :
  os_step i c (OOpen (strip fl openfile_strip_mask)) (plan 0) false s = Some (RErr, s') ->
  run_seq i c (client_prog fl b) plan 0 s =
  ([(OOpen (strip fl openfile_strip_mask), RErr)], Finished ResErr, s').
Proof.
  intros H. unfold client_prog, open_file_prog. cbn [run_seq]. rewrite H. reflexivity.
Qed.

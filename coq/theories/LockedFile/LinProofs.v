(* C07 (schedules): register invariant, linearisation log, corollaries. *)
From Coq Require Import List NArith Arith Bool Lia Sorted.
From Coq.Strings Require Import Byte.
From GI Require Import Gen.LockedFileConsts LockedFile.LockedFile LockedFile.LockBasics
  LockedFile.LockProofs LockedFile.TransformProofs LockedFile.LinBasics.
Import ListNotations.

Arguments os_step : simpl never.

Definition cont (s : state) (i : nat) : bytes := content_of (files (st_os s) i).

Lemma exclusive_writable fl :
  lock_mode_of_flags fl = Some LEx -> acc_writable (accmode (strip fl openfile_strip_mask)) = true.
Proof.
  intros Hm. rewrite accmode_switch. unfold acc_writable.
  destruct (N.eqb_spec (N.land fl lock_switch_mask) sys_O_WRONLY) as [E|N1]; [reflexivity|].
  destruct (N.eqb_spec (N.land fl lock_switch_mask) sys_O_RDWR) as [E|N2]; [reflexivity|].
  rewrite rdonly_shared in Hm; [discriminate|].
  simpl. intros [H|[H|[]]]; congruence.
Qed.

Definition cnt (c : nat) (L : list lentry) : nat :=
  length (filter (fun e => Nat.eqb (le_client e) c) L).
Definition sh1 (m : lkind) : nat := match m with LSh => 1 | LEx => 0 end.

Lemma cnt_cons_same c t r x L :
  cnt c ({| le_client := c; le_time := t; le_before := r; le_after := x |} :: L) = S (cnt c L).
Proof. unfold cnt. simpl. now rewrite Nat.eqb_refl. Qed.

Lemma cnt_cons_other c e L : le_client e <> c -> cnt c (e :: L) = cnt c L.
Proof. intros H. unfold cnt. simpl. destruct (Nat.eqb_spec (le_client e) c); [contradiction|reflexivity]. Qed.

Section Ph7.
Variables (fl : N) (b : prog) (c : nat).

Definition mk_entry (t : nat) (r x : bytes) : lentry :=
  {| le_client := c; le_time := t; le_before := r; le_after := x |}.

(* program / descriptor / flock entry / status / contents X / register R / log L *)
Inductive ph7 : prog -> option fdesc -> option lkind -> cstatus ->
                bytes -> bytes -> list lentry -> Prop :=
| p7_start X R L : cnt c L = 0 -> ph7 (client_prog fl b) None None SIdle X R L
| p7_lock X R L : cnt c L = 0 ->
    ph7 (lock_stage fl (klock fl b)) (Some (fresh_fd fl)) None SIdle X R L
| p7_trunc m X R L :
    lock_mode_of_flags fl = Some m -> X = R -> (m = LSh -> has_entry c R L) ->
    cnt c L = sh1 m ->
    ph7 (trunc_stage fl (k0 b)) (Some (fresh_fd fl)) (Some m) SIdle X R L
| p7_truncfail fd X R L :
    lock_mode_of_flags fl = Some LSh -> X = R -> has_entry c R L -> cnt c L = 1 ->
    ph7 (trunc_fail_prog (Ret ResErr)) (Some fd) (Some LSh) SIdle X R L
| p7_ret m X R L :
    lock_mode_of_flags fl = Some m -> X = start_contents fl R ->
    (m = LSh -> X = R /\ has_entry c R L) -> cnt c L = sh1 m ->
    ph7 (after_open b) (Some (fresh_fd fl)) (Some m) SIdle X R L
| p7_cs m b' fd X R L :
    lock_mode_of_flags fl = Some m -> io_only b' -> fd_acc fd = fd_acc (fresh_fd fl) ->
    outcome2 (run_body b' no_faults 0 X fd) = call_spec fl b R ->
    (m = LSh -> X = R /\ has_entry c R L) -> cnt c L = sh1 m ->
    ph7 (bind b' close_part) (Some fd) (Some m) SInCS X R L
| p7_closing m x fd X R L :
    lock_mode_of_flags fl = Some m -> (x, X) = call_spec fl b R ->
    (m = LSh -> X = R /\ has_entry c R L) -> cnt c L = sh1 m ->
    ph7 (close_prog (Ret x)) (Some fd) (Some m) SClosing X R L
| p7_close_idle fd X R L : cnt c L <= 1 ->
    ph7 (Do OClose (fun _ => Ret ResErr)) (Some fd) None SIdle X R L
| p7_close x fd X R L :
    done_entry fl b c x L -> cnt c L = 1 ->
    ph7 (Do OClose (fun _ => Ret x)) (Some fd) None SClosing X R L
| p7_done_idle X R L : cnt c L <= 1 -> ph7 (Ret ResErr) None None SIdle X R L
| p7_done x X R L : done_entry fl b c x L -> cnt c L = 1 -> ph7 (Ret x) None None SClosing X R L.

(* what the other clients' steps may change without disturbing this client *)
Lemma ph7_frame p fd l st X R L X' R' L' :
  ph7 p fd l st X R L ->
  (l <> None -> X' = X /\ R' = R) ->
  (L' = L \/ exists e, L' = e :: L /\ le_client e <> c) ->
  ph7 p fd l st X' R' L'.
Proof.
  intros H Hh HL.
  assert (Hhe : forall r, has_entry c r L -> has_entry c r L').
  { intros r He. destruct HL as [->|[e [-> _]]]; [exact He|now apply has_entry_mono]. }
  assert (Hde : forall x, done_entry fl b c x L -> done_entry fl b c x L').
  { intros x He. destruct HL as [->|[e [-> _]]]; [exact He|now apply done_entry_mono]. }
  assert (Hc : cnt c L' = cnt c L).
  { destruct HL as [->|[e [-> Hne]]]; [reflexivity|now apply cnt_cons_other]. }
  destruct H; try (destruct Hh as [-> ->]; [discriminate|]).
  - apply p7_start. congruence.
  - apply p7_lock. congruence.
  - apply (p7_trunc m); auto. congruence.
  - apply p7_truncfail; auto. congruence.
  - apply (p7_ret m); auto; [|congruence]. intros E. destruct (H1 E). auto.
  - apply (p7_cs m); auto; [|congruence]. intros E. destruct (H3 E). auto.
  - apply (p7_closing m); auto; [|congruence]. intros E. destruct (H1 E). auto.
  - apply p7_close_idle. congruence.
  - apply p7_close; auto. congruence.
  - apply p7_done_idle. congruence.
  - apply p7_done; auto. congruence.
Qed.

End Ph7.

Definition cph7 (cfg : nat -> client) (s : state) (c : nat) : Prop :=
  let i := c_ino (cfg c) in
  ph7 (flags_of_call (c_call (cfg c))) (body_of_call (c_call (cfg c))) c
      (progs s c) (fds (st_os s) c) (locked c (ltab (st_os s) i)) (status s c)
      (cont s i) (reg s i) (lin s i).

Definition no_ex (s : state) (i : nat) : Prop :=
  forall c, locked c (ltab (st_os s) i) <> Some LEx.

Definition entry_ok (cfg : nat -> client) (i : nat) (e : lentry) : Prop :=
  let c := le_client e in
  c_ino (cfg c) = i /\
  ((mode_of cfg c = Some LSh /\ le_after e = le_before e) \/
   (mode_of cfg c = Some LEx /\
    snd (call_spec (flags_of_call (c_call (cfg c))) (body_of_call (c_call (cfg c))) (le_before e))
    = le_after e)).

Record inv07 (cfg : nat -> client) (f : nat -> option bytes) (s : state) : Prop := {
  j_06 : inv06 cfg s;
  j_ph : forall c, cph7 cfg s c;
  j_reg : forall i, no_ex s i -> cont s i = reg s i;
  j_legal : forall i, legal (content_of (f i)) (lin s i) (reg s i);
  j_ent : forall i e, In e (lin s i) -> entry_ok cfg i e
}.

(* ------------------------------------------------------------------ ghost bookkeeping, by cases *)

Lemma holds_eq_locked c k l :
  NoDup (map fst l) ->
  holds c k l = match locked c l with Some k' => lkind_eqb k' k | None => false end.
Proof.
  intros Hnd. destruct (locked c l) as [k'|] eqn:Hl.
  - destruct (lkind_eqb k' k) eqn:Hk.
    + apply holds_locked; [exact Hnd|]. destruct k', k; try discriminate; exact Hl.
    + apply not_true_is_false. intros Hh. apply (holds_locked _ _ _ Hnd) in Hh.
      rewrite Hh in Hl. injection Hl as <-. destruct k; discriminate.
  - now apply locked_None_holds.
Qed.

Lemma ghost_reg_at i c o1 o2 s :
  NoDup (map fst (ltab o1 i)) -> NoDup (map fst (ltab o2 i)) ->
  ghost_reg i c o1 o2 s i =
  match locked c (ltab o1 i), locked c (ltab o2 i) with
  | Some LEx, Some LEx => reg s i
  | Some LEx, _ => content_of (files o2 i)
  | _, _ => reg s i
  end.
Proof.
  intros H1 H2. unfold ghost_reg. rewrite (holds_eq_locked _ _ _ H1), (holds_eq_locked _ _ _ H2).
  destruct (locked c (ltab o1 i)) as [[|]|], (locked c (ltab o2 i)) as [[|]|]; simpl;
    rewrite ?upd_same; reflexivity.
Qed.

Lemma ghost_lin_at i c o1 o2 s :
  NoDup (map fst (ltab o1 i)) -> NoDup (map fst (ltab o2 i)) ->
  ghost_lin i c o1 o2 s i =
  match locked c (ltab o1 i), locked c (ltab o2 i) with
  | Some LEx, Some LEx => lin s i
  | Some LEx, _ => mk_entry c (now s) (reg s i) (content_of (files o2 i)) :: lin s i
  | None, Some LSh => mk_entry c (now s) (reg s i) (reg s i) :: lin s i
  | _, _ => lin s i
  end.
Proof.
  intros H1 H2. unfold ghost_lin.
  rewrite !(holds_eq_locked _ _ _ H1), !(holds_eq_locked _ _ _ H2).
  destruct (locked c (ltab o1 i)) as [[|]|], (locked c (ltab o2 i)) as [[|]|]; simpl;
    rewrite ?upd_same; reflexivity.
Qed.

Lemma ghost_other i c o1 o2 s j :
  j <> i -> ghost_reg i c o1 o2 s j = reg s j /\ ghost_lin i c o1 o2 s j = lin s j.
Proof.
  intros Hj. unfold ghost_reg, ghost_lin.
  repeat match goal with |- context [if ?x then _ else _] => destruct x end;
    rewrite ?upd_other by assumption; auto.
Qed.

(* ------------------------------------------------------------------ a client's own step *)

Lemma cph7_advance cfg s c o p' o2 :
  let i := c_ino (cfg c) in
  ph7 (flags_of_call (c_call (cfg c))) (body_of_call (c_call (cfg c))) c
      p' (fds o2 c) (locked c (ltab o2 i)) (status_after o (status s c))
      (content_of (files o2 i)) (ghost_reg i c (st_os s) o2 s i) (ghost_lin i c (st_os s) o2 s i) ->
  cph7 cfg (advance i c o p' o2 s) c.
Proof. intros i H. unfold cph7, cont. simpl. rewrite !upd_same. exact H. Qed.

Lemma cph7_tick cfg s c : cph7 cfg s c -> cph7 cfg (tick s) c.
Proof. intros H. exact H. Qed.

Lemma nodup_of_ok l : ltab_ok l -> NoDup (map fst l).
Proof. now intros [H _]. Qed.

(* can_grant means: nobody else holds the exclusive lock *)
Lemma can_grant_no_ex k c l d :
  can_grant k c l = true -> d <> c -> locked d l <> Some LEx.
Proof.
  intros Hg Hd Hl. apply locked_In in Hl.
  destruct k; simpl in Hg.
  - unfold others_shared in Hg. rewrite forallb_forall in Hg. specialize (Hg _ Hl). simpl in Hg.
    apply orb_true_iff in Hg. destruct Hg as [Hg|Hg]; [apply Nat.eqb_eq in Hg; contradiction|discriminate].
  - unfold others_none in Hg. rewrite forallb_forall in Hg. specialize (Hg _ Hl). simpl in Hg.
    apply Nat.eqb_eq in Hg. contradiction.
Qed.

Definition own_eff (cfg : nat -> client) (s s' : state) (c : nat) : Prop :=
  let i := c_ino (cfg c) in
  let fl := flags_of_call (c_call (cfg c)) in
  let b := body_of_call (c_call (cfg c)) in
  cph7 cfg s' c /\
  (locked c (ltab (st_os s) i) <> Some LEx -> cont s' i = cont s i) /\
  (locked c (ltab (st_os s) i) = Some LEx -> locked c (ltab (st_os s') i) <> Some LEx ->
   snd (call_spec fl b (reg s i)) = cont s' i).

Lemma own_step cfg f s c eintr :
  wf_cfg cfg -> inv07 cfg f s -> own_eff cfg s (run_client cfg c eintr s) c.
Proof.
  intros Hwf Hinv. pose proof (Hwf c) as Hio. red in Hio.
  destruct Hinv as [[Htab Hph6 Hown] Hph Hreg _ _].
  specialize (Hph c). unfold own_eff, cph7 in *.
  set (fl := flags_of_call (c_call (cfg c))) in *.
  set (b := body_of_call (c_call (cfg c))) in *.
  set (i := c_ino (cfg c)) in *.
  destruct (lock_mode_total fl) as [m0 [Hm0 Hreq]].
  pose proof (nodup_of_ok _ (Htab i)) as Hnd1.
  unfold run_client. fold i.
  remember (progs s c) as p eqn:Hp. remember (fds (st_os s) c) as fdo eqn:Hf.
  remember (locked c (ltab (st_os s) i)) as lk eqn:Hl. remember (status s c) as st eqn:Hs.
  remember (cont s i) as X eqn:HX. remember (reg s i) as R eqn:HR. remember (lin s i) as L eqn:HL.
  destruct Hph.
  - (* start: openat *)
    unfold client_prog, open_file_prog.
    destruct (os_step i c (OOpen _) FNone eintr (st_os s)) as [[r o2]|] eqn:Hos.
    + assert (Hnt : has_flag (strip fl openfile_strip_mask) sys_O_TRUNC = false)
        by (apply strip_has_flag; discriminate).
      destruct (os_open_exact _ _ _ _ _ (eq_sym Hf) Hnt _ _ Hos) as [Hc [Hlt [_ [Hok Herr]]]].
      assert (Hsame : cont (advance i c (OOpen (strip fl openfile_strip_mask))
                 (match r with ROk => lock_stage fl (klock fl b) | _ => Ret ResErr end) o2 s) i = X).
      { unfold cont. simpl. now rewrite Hc, HX. }
      destruct r; (split; [|split; [intros _; exact Hsame|intros E; congruence]]);
        apply cph7_advance; fold i fl b;
        rewrite (ghost_reg_at _ _ _ _ _ Hnd1), (ghost_lin_at _ _ _ _ _ Hnd1) by (rewrite Hlt; exact Hnd1);
        rewrite Hlt, <- Hl; simpl; rewrite <- Hs.
      * rewrite (Hok eq_refl). apply p7_lock. now rewrite <- HL.
      * rewrite (Herr ltac:(discriminate)), <- Hf. apply p7_done_idle. rewrite <- HL, H. lia.
      * rewrite (Herr ltac:(discriminate)), <- Hf. apply p7_done_idle. rewrite <- HL, H. lia.
      * rewrite (Herr ltac:(discriminate)), <- Hf. apply p7_done_idle. rewrite <- HL, H. lia.
    + split; [|split; [intros _; rewrite HX; reflexivity|intros E; congruence]].
      unfold cont; simpl. fold (cont s i). rewrite <- Hp, <- Hf, <- Hl, <- Hs, <- HX, <- HR, <- HL. now apply p7_start.
  - (* flock *)
    assert (Ho : isopen (fds (st_os s) c) = true) by (rewrite <- Hf; reflexivity).
    unfold lock_stage, flock_step. simpl.
    rewrite (os_flock_req _ _ _ m0 _ _ _ Hreq Ho).
    destruct (negb (lockable (fds (st_os s) c))).
    { split; [|split; [intros _; unfold cont; simpl; now rewrite HX|intros E; congruence]].
      apply cph7_advance; fold i fl b.
      rewrite (ghost_reg_at _ _ _ _ _ Hnd1 Hnd1), (ghost_lin_at _ _ _ _ _ Hnd1 Hnd1), <- Hl, <- Hf, <- Hs.
      apply p7_close_idle. rewrite <- HL, H. lia. }
    destruct (can_grant m0 c (ltab (st_os s) i)) eqn:Hg.
    + assert (Hnd2 : NoDup (map fst ((c, m0) :: drop c (ltab (st_os s) i))))
        by (apply nodup_of_ok, ltab_ok_grant; [apply Htab|exact Hg]).
      assert (HXR : X = R).
      { rewrite HX, HR. apply Hreg. intros d. destruct (Nat.eq_dec d c) as [->|Hd].
        - fold i. rewrite <- Hl. discriminate.
        - eapply can_grant_no_ex; eassumption. }
      split; [|split; [intros _; unfold cont; simpl; now rewrite HX|intros E; congruence]].
      apply cph7_advance; fold i fl b. simpl ltab. simpl files. simpl fds.
      rewrite (ghost_reg_at _ _ _ _ _ Hnd1), (ghost_lin_at _ _ _ _ _ Hnd1) by (simpl; rewrite upd_same; exact Hnd2).
      simpl ltab. rewrite !upd_same, locked_cons_same, <- Hl, <- Hf, <- Hs, <- HR, <- HL.
      fold (cont s i). rewrite <- HX.
      destruct m0.
      * apply (p7_trunc _ _ _ LSh); auto.
        -- intros _. exists (mk_entry c (now s) R R). repeat split; auto. now left.
        -- unfold mk_entry. rewrite cnt_cons_same, H. reflexivity.
      * apply (p7_trunc _ _ _ LEx); auto. discriminate.
    + destruct eintr.
      * split; [|split; [intros _; unfold cont; simpl; now rewrite HX|intros E; congruence]].
        apply cph7_advance; fold i fl b.
        rewrite (ghost_reg_at _ _ _ _ _ Hnd1 Hnd1), (ghost_lin_at _ _ _ _ _ Hnd1 Hnd1), <- Hl, <- Hf, <- Hs.
        fold (cont s i). rewrite <- HX, <- HR, <- HL.
        exact (p7_lock fl b c X R L H).
      * split; [|split; [intros _; rewrite HX; reflexivity|intros E; congruence]].
        unfold cont; simpl. fold (cont s i). rewrite <- Hp, <- Hf, <- Hl, <- Hs, <- HX, <- HR, <- HL.
        exact (p7_lock fl b c X R L H).
  - (* ftruncate, or directly the return mark *)
    unfold trunc_stage. destruct (has_flag fl truncate_cond_mask) eqn:Ht.
    + rewrite (os_io_exact i c (OFtruncate (N.to_nat truncate_size)) _ eintr (fresh_fd fl) eq_refl (eq_sym Hf)).
      fold (cont s i). rewrite <- HX. simpl io_step.
      destruct m.
      * rewrite (shared_not_writable fl H).
        split; [|split; [intros _; unfold cont; simpl; now rewrite upd_same|intros E; discriminate E]].
        apply cph7_advance; fold i fl b. simpl ltab. simpl files. simpl fds.
        rewrite (ghost_reg_at _ _ _ _ _ Hnd1), (ghost_lin_at _ _ _ _ _ Hnd1) by exact Hnd1.
        simpl ltab. rewrite <- Hl, !upd_same, <- Hs, <- HR, <- HL.
        simpl. apply p7_truncfail; auto; exact H2.
      * rewrite (exclusive_writable fl H).
        split; [|split; [intros E; now elim E|intros _ E; exfalso; apply E; simpl; now rewrite <- Hl]].
        apply cph7_advance; fold i fl b. simpl ltab. simpl files. simpl fds.
        rewrite (ghost_reg_at _ _ _ _ _ Hnd1), (ghost_lin_at _ _ _ _ _ Hnd1) by exact Hnd1.
        simpl ltab. rewrite <- Hl, !upd_same, <- Hs, <- HR, <- HL.
        simpl. apply (p7_ret _ _ _ LEx); auto; try exact H2; [|discriminate].
        unfold start_contents. now rewrite Ht, H0.
    + unfold k0, after_open. simpl. rewrite ?os_mark. unfold cont. simpl. fold (cont s i).
      rewrite !upd_same, <- HX.
      rewrite (ghost_reg_at _ _ _ _ _ Hnd1 Hnd1), (ghost_lin_at _ _ _ _ _ Hnd1 Hnd1), <- Hl, <- Hf, <- HR, <- HL.
      split; [|split; [intros _; reflexivity|intros E E2; now elim E2]].
      assert (Hg : ph7 fl b c (bind b close_part) (Some (fresh_fd fl)) (Some m) SInCS X R L).
      { apply (p7_cs _ _ _ m); auto. rewrite call_spec_eq. unfold start_contents. now rewrite Ht, H0. }
      destruct m; exact Hg.
  - (* failed truncate: unlock *)
    assert (Ho : isopen (fds (st_os s) c) = true) by (rewrite <- Hf; reflexivity).
    unfold trunc_fail_prog. simpl. rewrite (os_flock_unlock _ _ _ _ _ Ho).
    assert (Hnd2 : NoDup (map fst (drop c (ltab (st_os s) i)))) by (apply drop_NoDup, Hnd1).
    split; [|split; [intros _; unfold cont; simpl; now rewrite HX|intros E; discriminate E]].
    apply cph7_advance; fold i fl b. simpl ltab. simpl files. simpl fds.
    rewrite (ghost_reg_at _ _ _ _ _ Hnd1), (ghost_lin_at _ _ _ _ _ Hnd1) by (simpl; rewrite upd_same; exact Hnd2).
    simpl ltab. rewrite !upd_same, locked_drop_same, <- Hl, <- Hf, <- Hs. apply p7_close_idle. rewrite <- HL, H2. lia.
  - (* the locking call returns *)
    unfold after_open. simpl. rewrite ?os_mark. unfold cont. simpl. fold (cont s i).
    rewrite !upd_same, <- HX.
    rewrite (ghost_reg_at _ _ _ _ _ Hnd1 Hnd1), (ghost_lin_at _ _ _ _ _ Hnd1 Hnd1), <- Hl, <- Hf, <- HR, <- HL.
    split; [|split; [intros _; reflexivity|intros E E2; now elim E2]].
    assert (Hg : ph7 fl b c (bind b close_part) (Some (fresh_fd fl)) (Some m) SInCS X R L).
    { apply (p7_cs _ _ _ m); auto. rewrite call_spec_eq. now rewrite H0. }
    destruct m; exact Hg.
  - (* inside the critical section *)
    destruct H0 as [x|o k Hoio Hk].
    + (* body finished: Close is called *)
      simpl. rewrite ?os_mark. unfold cont. simpl. fold (cont s i).
      rewrite !upd_same, <- HX.
      rewrite (ghost_reg_at _ _ _ _ _ Hnd1 Hnd1), (ghost_lin_at _ _ _ _ _ Hnd1 Hnd1), <- Hl, <- Hf, <- HR, <- HL.
      split; [|split; [intros _; reflexivity|intros E E2; now elim E2]].
      assert (Hg : ph7 fl b c (close_prog (Ret x)) (Some fd) (Some m) SClosing X R L).
      { apply (p7_closing _ _ _ m); auto. }
      destruct m; exact Hg.
    + simpl bind. cbv iota.
      rewrite (os_io_exact i c o _ eintr fd Hoio (eq_sym Hf)).
      fold (cont s i). rewrite <- HX.
      pose proof (io_step_acc o FNone X fd) as Hacc.
      pose proof (io_step_readonly o FNone X fd) as Hro.
      simpl in H2. unfold no_faults at 1 in H2.
      destruct (io_step o FNone X fd) as [[r X2] fd2]. simpl in Hacc, Hro.
      rewrite run_body_index in H2.
      assert (Hst : status_after o SInCS = SInCS) by (destruct o; try discriminate Hoio; reflexivity).
      assert (HSH : m = LSh -> X2 = X).
      { intros ->. apply Hro. rewrite H1. apply (shared_not_writable fl H). }
      assert (Hgoal : ph7 fl b c (bind (k r) close_part) (Some fd2) (Some m) SInCS X2 R L).
      { apply (p7_cs _ _ _ m); auto; [congruence|].
        intros E. destruct (H3 E) as [E1 E2]. split; [|exact E2]. rewrite (HSH E). exact E1. }
      assert (Hres : ph7 fl b c (bind (k r) close_part) (Some fd2) (Some m)
                       (status_after o SInCS) X2 R L) by (rewrite Hst; exact Hgoal).
      split; [|split].
      * apply cph7_advance; fold i fl b. simpl ltab. simpl files. simpl fds.
        rewrite (ghost_reg_at _ _ _ _ _ Hnd1), (ghost_lin_at _ _ _ _ _ Hnd1) by exact Hnd1.
        simpl ltab. rewrite <- Hl, !upd_same, <- Hs, <- HR, <- HL. simpl.
        destruct m, r; exact Hres.
      * intros E. unfold cont. destruct r; simpl; rewrite upd_same; simpl; apply HSH;
          destruct m; try reflexivity; now elim E.
      * intros E E2. exfalso. apply E2. destruct r; simpl; fold i; now rewrite <- Hl.
  - (* Close: unlock — the linearisation point of a writer *)
    assert (Ho : isopen (fds (st_os s) c) = true) by (rewrite <- Hf; reflexivity).
    unfold close_prog. simpl. rewrite (os_flock_unlock _ _ _ _ _ Ho).
    assert (Hnd2 : NoDup (map fst (drop c (ltab (st_os s) i)))) by (apply drop_NoDup, Hnd1).
    split; [|split].
    + apply cph7_advance; fold i fl b. simpl ltab. simpl files. simpl fds.
      rewrite (ghost_reg_at _ _ _ _ _ Hnd1), (ghost_lin_at _ _ _ _ _ Hnd1) by (simpl; rewrite upd_same; exact Hnd2).
      simpl ltab. rewrite !upd_same, locked_drop_same, <- Hl, <- Hf, <- Hs, <- HR, <- HL.
      fold (cont s i). rewrite <- HX. simpl.
      destruct m; apply p7_close.
      * destruct (H1 eq_refl) as [E1 [e [Hin [Hc [Hb Ha]]]]].
        exists e. repeat split; auto. rewrite Ha, Hb. rewrite E1 in H0. exact H0.
      * exact H2.
      * change (content_of (files (st_os s) i)) with (cont s i). rewrite <- HX.
        exists (mk_entry c (now s) R X). split; [now left|]. split; [reflexivity|exact H0].
      * unfold mk_entry. rewrite cnt_cons_same, H2. reflexivity.
    + intros _. unfold cont. simpl. now rewrite HX.
    + intros E _. unfold cont. simpl. fold (cont s i). rewrite <- HX. now rewrite <- H0.
  - (* close on the failure path *)
    assert (Ho : isopen (fds (st_os s) c) = true) by (rewrite <- Hf; reflexivity).
    rewrite (os_close _ _ _ _ _ Ho).
    set (lt2 := if Nat.eqb (refs (st_os s) c) 0
                then upd (ltab (st_os s)) i (drop c (ltab (st_os s) i)) else ltab (st_os s)).
    assert (Hl2 : locked c (lt2 i) = None).
    { unfold lt2. destruct (Nat.eqb _ 0); [rewrite upd_same; apply locked_drop_same|now symmetry]. }
    assert (Hnd2 : NoDup (map fst (lt2 i))).
    { unfold lt2. destruct (Nat.eqb _ 0); [rewrite upd_same; apply drop_NoDup|]; exact Hnd1. }
    split; [|split; [intros _; unfold cont; simpl; now rewrite HX|intros E; discriminate E]].
    apply cph7_advance; fold i fl b. simpl ltab. simpl files. simpl fds. fold lt2.
    rewrite (ghost_reg_at _ _ _ _ _ Hnd1), (ghost_lin_at _ _ _ _ _ Hnd1) by exact Hnd2.
    simpl ltab. fold lt2. rewrite Hl2, <- Hl, !upd_same, <- Hs, <- HL. now apply p7_done_idle.
  - (* close *)
    assert (Ho : isopen (fds (st_os s) c) = true) by (rewrite <- Hf; reflexivity).
    rewrite (os_close _ _ _ _ _ Ho).
    set (lt2 := if Nat.eqb (refs (st_os s) c) 0
                then upd (ltab (st_os s)) i (drop c (ltab (st_os s) i)) else ltab (st_os s)).
    assert (Hl2 : locked c (lt2 i) = None).
    { unfold lt2. destruct (Nat.eqb _ 0); [rewrite upd_same; apply locked_drop_same|now symmetry]. }
    assert (Hnd2 : NoDup (map fst (lt2 i))).
    { unfold lt2. destruct (Nat.eqb _ 0); [rewrite upd_same; apply drop_NoDup|]; exact Hnd1. }
    split; [|split; [intros _; unfold cont; simpl; now rewrite HX|intros E; discriminate E]].
    apply cph7_advance; fold i fl b. simpl ltab. simpl files. simpl fds. fold lt2.
    rewrite (ghost_reg_at _ _ _ _ _ Hnd1), (ghost_lin_at _ _ _ _ _ Hnd1) by exact Hnd2.
    simpl ltab. fold lt2. rewrite Hl2, <- Hl, !upd_same, <- Hs, <- HL. now apply p7_done.
  - (* returned *)
    split; [|split; [intros _; rewrite HX; reflexivity|intros E; discriminate E]].
    unfold cont; simpl. fold (cont s i). rewrite <- Hp, <- Hf, <- Hl, <- Hs, <- HX, <- HR, <- HL.
    now apply p7_done_idle.
  - split; [|split; [intros _; rewrite HX; reflexivity|intros E; discriminate E]].
    unfold cont; simpl. fold (cont s i). rewrite <- Hp, <- Hf, <- Hl, <- Hs, <- HX, <- HR, <- HL.
    now apply p7_done.
Qed.

(* ------------------------------------------------------------------ what a step does to the ghost state *)

Definition reg_after (lb la : option lkind) (r x : bytes) : bytes :=
  match lb, la with
  | Some LEx, Some LEx => r
  | Some LEx, _ => x
  | _, _ => r
  end.

Definition lin_after (c t : nat) (lb la : option lkind) (r x : bytes) (l : list lentry) : list lentry :=
  match lb, la with
  | Some LEx, Some LEx => l
  | Some LEx, _ => mk_entry c t r x :: l
  | None, Some LSh => mk_entry c t r r :: l
  | _, _ => l
  end.

Lemma reg_after_same lb r x : reg_after lb lb r x = r.
Proof. destruct lb as [[|]|]; reflexivity. Qed.
Lemma lin_after_same c t lb r x l : lin_after c t lb lb r x l = l.
Proof. destruct lb as [[|]|]; reflexivity. Qed.

Definition ghost_eff (cfg : nat -> client) (d : nat) (s s' : state) : Prop :=
  let i := c_ino (cfg d) in
  let lb := locked d (ltab (st_os s) i) in
  let la := locked d (ltab (st_os s') i) in
  (forall j, j <> i -> cont s' j = cont s j /\ reg s' j = reg s j /\ lin s' j = lin s j) /\
  reg s' i = reg_after lb la (reg s i) (cont s' i) /\
  lin s' i = lin_after d (now s) lb la (reg s i) (cont s' i) (lin s i).

Lemma ghost_eff_same cfg d s s' :
  st_os s' = st_os s -> reg s' = reg s -> lin s' = lin s -> ghost_eff cfg d s s'.
Proof.
  intros E1 E2 E3. unfold ghost_eff, cont. rewrite E1, E2, E3.
  rewrite reg_after_same, lin_after_same. auto.
Qed.

Lemma ghost_eff_advance cfg d eintr s o p' r o2 :
  (forall i, ltab_ok (ltab (st_os s) i)) ->
  os_step (c_ino (cfg d)) d o FNone eintr (st_os s) = Some (r, o2) ->
  ghost_eff cfg d s (advance (c_ino (cfg d)) d o p' o2 s).
Proof.
  intros Htab Hos. set (i := c_ino (cfg d)) in *.
  pose proof (nodup_of_ok _ (Htab i)) as Hnd1.
  pose proof (nodup_of_ok _ (os_step_ltab_ok _ _ _ _ _ _ _ _ Hos (Htab i))) as Hnd2.
  unfold ghost_eff, cont. fold i. simpl. split; [|split].
  - intros j Hj. rewrite (os_step_files_other_inode _ _ _ _ _ _ _ _ j Hos Hj).
    destruct (ghost_other i d (st_os s) o2 s j Hj) as [-> ->]. auto.
  - rewrite (ghost_reg_at _ _ _ _ _ Hnd1 Hnd2). reflexivity.
  - rewrite (ghost_lin_at _ _ _ _ _ Hnd1 Hnd2). reflexivity.
Qed.

Lemma run_client_ghost cfg d eintr s :
  (forall i, ltab_ok (ltab (st_os s) i)) ->
  ghost_eff cfg d s (run_client cfg d eintr s).
Proof.
  intros Htab. unfold run_client.
  destruct (progs s d) as [x|o k|o k]; [now apply ghost_eff_same| |];
  destruct (os_step (c_ino (cfg d)) d o FNone eintr (st_os s)) as [[r o2]|] eqn:Hos;
    try now apply ghost_eff_same.
  - eapply ghost_eff_advance; eassumption.
  - destruct r; (eapply ghost_eff_advance; eassumption).
Qed.

Lemma run_client_frame cfg d eintr s c :
  c <> d ->
  let s' := run_client cfg d eintr s in
  progs s' c = progs s c /\ status s' c = status s c /\
  fds (st_os s') c = fds (st_os s) c /\
  forall j, locked c (ltab (st_os s') j) = locked c (ltab (st_os s) j).
Proof.
  intros Hc s'. destruct (run_client_other cfg d eintr s c Hc) as [E1 E2].
  split; [exact E1|]. split; [exact E2|].
  destruct (run_client_os cfg d eintr s) as [E|[o [r Hos]]].
  - unfold s'. rewrite E. auto.
  - fold s' in Hos. split; [eapply os_step_fds_other; eassumption|].
    intros j. destruct (Nat.eq_dec j (c_ino (cfg d))) as [->|Hj].
    + eapply os_step_locked_other; eassumption.
    + now rewrite (os_step_ltab_other_inode _ _ _ _ _ _ _ _ j Hos Hj).
Qed.

Lemma run_client_ltab_other cfg d eintr s j :
  j <> c_ino (cfg d) -> ltab (st_os (run_client cfg d eintr s)) j = ltab (st_os s) j.
Proof.
  intros Hj. destruct (run_client_os cfg d eintr s) as [E|[o [r Hos]]].
  - now rewrite E.
  - eapply os_step_ltab_other_inode; eassumption.
Qed.

Lemma phase_lock_mode fl b p o m st : phase fl b p o (Some m) st -> lock_mode_of_flags fl = Some m.
Proof. intros H. inversion H; subst; assumption. Qed.

Lemma reg_after_not_ex lb la r x : lb <> Some LEx -> reg_after lb la r x = r.
Proof. destruct lb as [[|]|]; try reflexivity. intros H. now elim H. Qed.

Lemma lin_after_mono c t lb la r x l :
  lin_after c t lb la r x l = l \/
  exists e, lin_after c t lb la r x l = e :: l /\ le_client e = c.
Proof.
  destruct lb as [[|]|], la as [[|]|]; simpl; auto; right; eexists; split; reflexivity.
Qed.

Lemma inv07_run_client cfg f d eintr s :
  wf_cfg cfg -> inv07 cfg f s -> inv07 cfg f (run_client cfg d eintr s).
Proof.
  intros Hwf Hinv.
  pose proof (own_step cfg f s d eintr Hwf Hinv) as [Hown1 [Hown2 Hown3]].
  destruct Hinv as [H06 Hph Hreg Hleg Hent].
  pose proof (inv06_run_client cfg d eintr s Hwf H06) as H06'.
  pose proof (run_client_ghost cfg d eintr s (i_tab _ _ H06)) as [Hg1 [Hg2 Hg3]].
  set (s' := run_client cfg d eintr s) in *. set (i := c_ino (cfg d)) in *.
  set (lb := locked d (ltab (st_os s) i)) in *. set (la := locked d (ltab (st_os s') i)) in *.
  assert (Hlb_other : forall c m, c <> d -> c_ino (cfg c) = i ->
            locked c (ltab (st_os s) i) = Some m -> lb <> Some LEx).
  { intros c m Hc Hi Hl E. destruct (i_tab _ _ H06 i) as [_ Hex].
    apply Hc. eapply Hex; apply locked_In; eassumption. }
  split.
  - exact H06'.
  - intros c. destruct (Nat.eq_dec c d) as [->|Hc]; [exact Hown1|].
    destruct (run_client_frame cfg d eintr s c Hc) as [E1 [E2 [E3 E4]]]. fold s' in E1, E2, E3, E4.
    unfold cph7. rewrite E1, E2, E3, E4.
    eapply ph7_frame; [apply (Hph c)| |].
    + intros Hl. destruct (Nat.eq_dec (c_ino (cfg c)) i) as [Hi|Hi].
      * rewrite Hi in *. destruct (locked c (ltab (st_os s) i)) as [m|] eqn:Hlm; [|now elim Hl].
        pose proof (Hlb_other c m Hc Hi Hlm) as Hnex.
        split; [now apply Hown2|]. rewrite Hg2. now apply reg_after_not_ex.
      * destruct (Hg1 _ Hi) as [-> [-> _]]. auto.
    + destruct (Nat.eq_dec (c_ino (cfg c)) i) as [Hi|Hi].
      * rewrite Hi, Hg3. destruct (lin_after_mono d (now s) lb la (reg s i) (cont s' i) (lin s i))
          as [E|[e [E Hc']]]; [now left|right]. exists e. split; [exact E|congruence].
      * destruct (Hg1 _ Hi) as [_ [_ ->]]. now left.
  - intros j Hno. destruct (Nat.eq_dec j i) as [->|Hj].
    + assert (Hla : la <> Some LEx) by apply Hno.
      rewrite Hg2. assert (Hdec : lb = Some LEx \/ lb <> Some LEx) by (destruct lb as [[|]|]; auto; right; discriminate).
      destruct Hdec as [Hlb|Hlb].
      * unfold reg_after. rewrite Hlb. destruct la as [[|]|]; try reflexivity. now elim Hla.
      * rewrite (reg_after_not_ex _ _ _ _ Hlb), (Hown2 Hlb). apply Hreg.
        intros c. destruct (Nat.eq_dec c d) as [->|Hc]; [exact Hlb|].
        destruct (run_client_frame cfg d eintr s c Hc) as [_ [_ [_ E4]]]. rewrite <- E4. apply Hno.
    + destruct (Hg1 _ Hj) as [-> [-> _]]. apply Hreg.
      intros c. unfold s' in Hno. specialize (Hno c).
      now rewrite (run_client_ltab_other cfg d eintr s j Hj) in Hno.
  - intros j. destruct (Nat.eq_dec j i) as [->|Hj].
    + rewrite Hg2, Hg3. specialize (Hleg i).
      destruct lb as [[|]|], la as [[|]|]; simpl; try exact Hleg;
        match goal with |- legal _ (mk_entry ?c ?t ?r ?x :: _) _ =>
          apply (legal_cons _ (mk_entry c t r x)); exact Hleg end.
    + destruct (Hg1 _ Hj) as [_ [-> ->]]. apply Hleg.
  - intros j e Hin. destruct (Nat.eq_dec j i) as [->|Hj].
    + rewrite Hg3 in Hin.
      assert (Hnew_ex : lb = Some LEx -> la <> Some LEx ->
                entry_ok cfg i (mk_entry d (now s) (reg s i) (cont s' i))).
      { intros Hb Ha. split; [reflexivity|]. right. simpl. split.
        - eapply phase_lock_mode. pose proof (i_phase _ _ H06 d) as Hp. unfold cphase in Hp.
          fold i in Hp. fold lb in Hp. rewrite Hb in Hp. exact Hp.
        - now apply Hown3. }
      assert (Hnew_sh : la = Some LSh -> entry_ok cfg i (mk_entry d (now s) (reg s i) (reg s i))).
      { intros Ha. split; [reflexivity|]. left. simpl. split; [|reflexivity].
        eapply phase_lock_mode. pose proof (i_phase _ _ H06' d) as Hp. unfold cphase in Hp.
        fold s' i in Hp. fold la in Hp. rewrite Ha in Hp. exact Hp. }
      destruct lb as [[|]|] eqn:Eb, la as [[|]|] eqn:Ea; simpl in Hin;
        try (now apply Hent);
        (destruct Hin as [<-|Hin]; [|now apply Hent]);
        first [apply Hnew_ex; congruence | apply Hnew_sh; congruence].
    + destruct (Hg1 _ Hj) as [_ [_ E]]. rewrite E in Hin. now apply Hent.
Qed.

Lemma ghost_same_holds i c o1 o2 s :
  (forall k, holds c k (ltab o2 i) = holds c k (ltab o1 i)) ->
  ghost_reg i c o1 o2 s = reg s /\ ghost_lin i c o1 o2 s = lin s.
Proof.
  intros H. unfold ghost_reg, ghost_lin. rewrite !H.
  destruct (holds c LEx (ltab o1 i)), (holds c LSh (ltab o1 i)); auto.
Qed.

Lemma holds_drop_self c k l : holds c k (drop c l) = false.
Proof. apply locked_None_holds, locked_drop_same. Qed.

Lemma inv07_exec cfg f s e : wf_cfg cfg -> inv07 cfg f s -> inv07 cfg f (exec cfg s e).
Proof.
  intros Hwf Hinv. destruct e as [c|c|c|c]; simpl.
  - now apply inv07_run_client.
  - now apply inv07_run_client.
  - pose proof (inv06_exec cfg s (EvDup c) Hwf (j_06 _ _ _ Hinv)) as H06'. simpl in H06'.
    destruct Hinv as [H06 Hph Hreg Hleg Hent].
    assert (E : files (os_dup c (st_os s)) = files (st_os s) /\
                fds (os_dup c (st_os s)) = fds (st_os s) /\
                ltab (os_dup c (st_os s)) = ltab (st_os s)).
    { unfold os_dup. destruct (fds (st_os s) c); simpl; auto. }
    destruct E as [E1 [E2 E3]].
    split; try assumption.
    + intros d. unfold cph7, cont. simpl. rewrite E1, E2, E3. apply Hph.
    + intros i Hno. unfold cont. simpl. rewrite E1. apply Hreg. intros d. specialize (Hno d).
      simpl in Hno. now rewrite E3 in Hno.
  - pose proof (inv06_exec cfg s (EvDupClose c) Hwf (j_06 _ _ _ Hinv)) as H06'. simpl in H06'.
    destruct Hinv as [H06 Hph Hreg Hleg Hent].
    set (i := c_ino (cfg c)) in *. set (o2 := os_dupclose i c (st_os s)) in *.
    assert (Ef : files o2 = files (st_os s) /\ fds o2 = fds (st_os s)).
    { unfold o2, os_dupclose. destruct (refs (st_os s) c); auto. }
    destruct Ef as [E1 E2].
    assert (El : forall d j, locked d (ltab o2 j) = locked d (ltab (st_os s) j)).
    { intros d j. unfold o2, os_dupclose. destruct (refs (st_os s) c) as [|[|n]]; simpl; auto.
      destruct (fds (st_os s) c) eqn:Hc; auto.
      destruct (Nat.eq_dec j i) as [->|Hj]; [|now rewrite upd_other].
      rewrite upd_same. destruct (Nat.eq_dec d c) as [->|Hd]; [|now apply locked_drop_other].
      rewrite locked_drop_same. symmetry.
      pose proof (i_phase _ _ H06 c) as Hp. unfold cphase in Hp. rewrite Hc in Hp.
      eapply phase_closed_unlocked. exact Hp. }
    assert (Hh : forall k, holds c k (ltab o2 i) = holds c k (ltab (st_os s) i)).
    { intros k. rewrite (holds_eq_locked _ _ _ (nodup_of_ok _ (i_tab _ _ H06' i))),
        (holds_eq_locked _ _ _ (nodup_of_ok _ (i_tab _ _ H06 i))). now rewrite El. }
    destruct (ghost_same_holds i c (st_os s) o2 s Hh) as [Eg1 Eg2].
    split.
    + exact H06'.
    + intros d. unfold cph7, cont. simpl. fold i o2. rewrite Eg1, Eg2, E1, E2, El. apply Hph.
    + intros j Hno. unfold cont. simpl. fold i o2. rewrite Eg1, E1. apply Hreg. intros d. specialize (Hno d).
      simpl in Hno. fold i o2 in Hno. now rewrite El in Hno.
    + intros j. simpl. fold i o2. rewrite Eg1, Eg2. apply Hleg.
    + intros j e. simpl. fold i o2. rewrite Eg2. apply Hent.
Qed.

Lemma inv07_init cfg f : inv07 cfg f (init_state cfg f).
Proof.
  split.
  - apply inv06_init.
  - intros c. unfold cph7. simpl. now apply p7_start.
  - intros i _. reflexivity.
  - intros i. simpl. constructor.
  - intros i e [].
Qed.

Lemma inv07_run cfg f s sched : wf_cfg cfg -> inv07 cfg f s -> inv07 cfg f (run cfg s sched).
Proof.
  intros Hwf. revert s. unfold run. induction sched as [|e sched IH]; simpl; intros s Hs; [exact Hs|].
  apply IH. now apply inv07_exec.
Qed.

Lemma inv07_of_reachable cfg f s : wf_cfg cfg -> reachable cfg f s -> inv07 cfg f s.
Proof. intros Hwf [sched ->]. apply inv07_run; [exact Hwf|apply inv07_init]. Qed.

(* ------------------------------------------------------------------ real time *)

Lemma dupclose_ghost_same cfg s c :
  wf_cfg cfg -> inv06 cfg s ->
  let i := c_ino (cfg c) in
  ghost_reg i c (st_os s) (os_dupclose i c (st_os s)) s = reg s /\
  ghost_lin i c (st_os s) (os_dupclose i c (st_os s)) s = lin s.
Proof.
  intros Hwf H06 i.
  pose proof (inv06_exec cfg s (EvDupClose c) Hwf H06) as H06'. simpl in H06'. fold i in H06'.
  set (o2 := os_dupclose i c (st_os s)) in *.
  apply ghost_same_holds. intros k.
  rewrite (holds_eq_locked _ _ _ (nodup_of_ok _ (i_tab _ _ H06' i))),
    (holds_eq_locked _ _ _ (nodup_of_ok _ (i_tab _ _ H06 i))). simpl.
  replace (locked c (ltab o2 i)) with (locked c (ltab (st_os s) i)); [reflexivity|].
  unfold o2, os_dupclose. destruct (refs (st_os s) c) as [|[|n]]; simpl; auto.
  destruct (fds (st_os s) c) eqn:Hc; auto.
  rewrite upd_same, locked_drop_same.
  pose proof (i_phase _ _ H06 c) as Hp. unfold cphase in Hp. rewrite Hc in Hp.
  eapply phase_closed_unlocked. exact Hp.
Qed.

Definition newer (a b : lentry) : Prop := le_time b < le_time a.

Record invT (s : state) : Prop := {
  t_lin_lt : forall i e, In e (lin s i) -> le_time e < now s;
  t_sorted : forall i, StronglySorted newer (lin s i);
  t_inv_lt : forall c t, t_inv s c = Some t -> t < now s;
  t_resp_lt : forall c t, t_resp s c = Some t -> t < now s;
  t_resp_ret : forall c t, t_resp s c = Some t -> is_ret (progs s c) = true;
  t_ret_resp : forall c, is_ret (progs s c) = true -> exists t, t_resp s c = Some t;
  t_entry_inv : forall i e, In e (lin s i) ->
                exists t0, t_inv s (le_client e) = Some t0 /\ t0 <= le_time e;
  t_entry_resp : forall i e t1, In e (lin s i) -> t_resp s (le_client e) = Some t1 -> le_time e <= t1
}.

Lemma ghost_lin_shape i c o1 o2 s j :
  ghost_lin i c o1 o2 s j = lin s j \/
  exists r x, ghost_lin i c o1 o2 s j = mk_entry c (now s) r x :: lin s j.
Proof.
  unfold ghost_lin.
  destruct (_ && _); [|destruct (_ && _)]; auto;
  (destruct (Nat.eq_dec j i) as [->|Hj]; [rewrite upd_same; right; do 2 eexists; reflexivity
                                         |rewrite upd_other by assumption; now left]).
Qed.

Lemma set_once_spec m c t d :
  set_once m c t d = match m c with None => if Nat.eqb d c then Some t else m d | Some _ => m d end.
Proof. unfold set_once. destruct (m c) eqn:E; [reflexivity|]. unfold upd. reflexivity. Qed.

Lemma invT_tick s : invT s -> invT (tick s).
Proof.
  intros [H1 H2 H3 H4 H5 H5' H6 H7]. split; simpl; auto.
  - intros i e Hin. specialize (H1 i e Hin). lia.
  - intros c t Ht. specialize (H3 c t Ht). lia.
  - intros c t Ht. specialize (H4 c t Ht). lia.
Qed.

Lemma invT_advance i c o p' o2 s :
  invT s -> is_ret (progs s c) = false -> invT (advance i c o p' o2 s).
Proof.
  intros [H1 H2 H3 H4 H5 H5' H6 H7] Hnr.
  assert (Hnone : t_resp s c = None).
  { destruct (t_resp s c) eqn:E; [|reflexivity]. apply H5 in E. congruence. }
  assert (Hinv' : forall d, set_once (t_inv s) c (now s) d = t_inv s d \/
                            (d = c /\ set_once (t_inv s) c (now s) d = Some (now s))).
  { intros d. rewrite set_once_spec. destruct (t_inv s c); auto.
    destruct (Nat.eqb_spec d c); auto. }
  assert (Hinv_c : exists t0, set_once (t_inv s) c (now s) c = Some t0 /\ t0 <= now s).
  { rewrite set_once_spec. destruct (t_inv s c) eqn:E.
    - exists n. split; [reflexivity|]. specialize (H3 _ _ E). lia.
    - rewrite Nat.eqb_refl. eauto. }
  split; simpl.
  - intros j e Hin. destruct (ghost_lin_shape i c (st_os s) o2 s j) as [E|[r [x E]]]; rewrite E in Hin.
    + specialize (H1 j e Hin). lia.
    + destruct Hin as [<-|Hin]; [simpl; lia|]. specialize (H1 j e Hin). lia.
  - intros j. destruct (ghost_lin_shape i c (st_os s) o2 s j) as [E|[r [x E]]]; rewrite E; [apply H2|].
    constructor; [apply H2|]. apply Forall_forall. intros e Hin. red. simpl. now apply (H1 j).
  - intros d t Ht. destruct (Hinv' d) as [E|[-> E]]; rewrite E in Ht.
    + specialize (H3 d t Ht). lia.
    + injection Ht as <-. lia.
  - intros d t Ht. destruct (is_ret p').
    + rewrite set_once_spec, Hnone in Ht. destruct (Nat.eqb d c).
      * injection Ht as <-. lia.
      * specialize (H4 d t Ht). lia.
    + specialize (H4 d t Ht). lia.
  - intros d t Ht. destruct (Nat.eq_dec d c) as [->|Hd].
    + rewrite upd_same. destruct (is_ret p') eqn:Er; [reflexivity|]. congruence.
    + rewrite upd_other by assumption. apply (H5 d t).
      destruct (is_ret p'); [|exact Ht].
      rewrite set_once_spec, Hnone in Ht. destruct (Nat.eqb_spec d c); [contradiction|exact Ht].
  - intros d Hr. destruct (Nat.eq_dec d c) as [->|Hd].
    + rewrite upd_same in Hr. rewrite Hr, set_once_spec, Hnone, Nat.eqb_refl. eauto.
    + rewrite upd_other in Hr by assumption. destruct (H5' d Hr) as [t Ht]. exists t.
      destruct (is_ret p'); [|exact Ht].
      rewrite set_once_spec, Hnone. destruct (Nat.eqb_spec d c); [contradiction|exact Ht].
  - intros j e Hin.
    assert (Hold : In e (lin s j) -> exists t0,
              set_once (t_inv s) c (now s) (le_client e) = Some t0 /\ t0 <= le_time e).
    { intros Hin0. destruct (H6 j e Hin0) as [t0 [Et Hle]]. exists t0. split; [|exact Hle].
      rewrite set_once_spec. destruct (t_inv s c) eqn:Ec0; [exact Et|].
      destruct (Nat.eqb_spec (le_client e) c) as [Ec|Ec]; [|exact Et].
      rewrite Ec in Et. congruence. }
    destruct (ghost_lin_shape i c (st_os s) o2 s j) as [E|[r [x E]]]; rewrite E in Hin; [now apply Hold|].
    destruct Hin as [<-|Hin]; [|now apply Hold]. simpl. exact Hinv_c.
  - intros j e t1 Hin Ht.
    assert (Hold : In e (lin s j) -> le_time e <= t1).
    { intros Hin0. destruct (is_ret p').
      - rewrite set_once_spec, Hnone in Ht. destruct (Nat.eqb (le_client e) c).
        + injection Ht as <-. specialize (H1 j e Hin0). lia.
        + now apply (H7 j e).
      - now apply (H7 j e). }
    destruct (ghost_lin_shape i c (st_os s) o2 s j) as [E|[r [x E]]]; rewrite E in Hin; [now apply Hold|].
    destruct Hin as [<-|Hin]; [|now apply Hold]. simpl in *.
    destruct (is_ret p').
    + rewrite set_once_spec, Hnone, Nat.eqb_refl in Ht. injection Ht as <-. lia.
    + congruence.
Qed.

Lemma invT_same_but_now s s' :
  invT s -> now s' = S (now s) -> progs s' = progs s -> lin s' = lin s ->
  t_inv s' = t_inv s -> t_resp s' = t_resp s -> invT s'.
Proof.
  intros [H1 H2 H3 H4 H5 H5' H6 H7] En Ep El Ei Er.
  split; rewrite ?En, ?Ep, ?El, ?Ei, ?Er; auto.
  - intros i e Hin. specialize (H1 i e Hin). lia.
  - intros c t Ht. specialize (H3 c t Ht). lia.
  - intros c t Ht. specialize (H4 c t Ht). lia.
Qed.

Lemma invT_exec cfg s e : wf_cfg cfg -> inv06 cfg s -> invT s -> invT (exec cfg s e).
Proof.
  intros Hwf H06 HT. destruct e as [c|c|c|c]; simpl.
  1,2: unfold run_client; destruct (progs s c) as [x|o k|o k] eqn:Hp; [now apply invT_tick| |];
       destruct (os_step (c_ino (cfg c)) c o FNone _ (st_os s)) as [[r o2]|];
       try (now apply invT_tick); try destruct r; apply invT_advance; auto; now rewrite Hp.
  - apply (invT_same_but_now s); auto.
  - destruct (dupclose_ghost_same cfg s c Hwf H06) as [_ E].
    apply (invT_same_but_now s); auto.
Qed.

Lemma invT_init cfg f : invT (init_state cfg f).
Proof.
  split; simpl; try discriminate; try (intros; contradiction).
  intros i. constructor.
Qed.

Lemma invT_of_reachable cfg f s : wf_cfg cfg -> reachable cfg f s -> invT s.
Proof.
  intros Hwf [sched ->].
  assert (H : forall sched s0, inv06 cfg s0 -> invT s0 -> invT (run cfg s0 sched)).
  { unfold run. induction sched0 as [|e l IH]; simpl; intros s0 H06 HT; [exact HT|].
    apply IH; [now apply inv06_exec|now apply invT_exec]. }
  apply H; [apply inv06_init|apply invT_init].
Qed.

(* lockedfile (C06): a call that takes a callback releases its lock HOWEVER the callback ends.

   Transform(name, t) write-locks the file and then runs the caller's t under the lock.  t may
   return a value, return an error, panic (recovered further up by the caller of Transform), or
   end its goroutine with runtime.Goexit (what testing.T.FailNow does).  Go runs the DEFERRED calls
   of a function in all four cases, and the statements after the call of t only in the first two.
   [after_callback] is that rule, written down once (a reading of the language specification,
   "Defer statements" / runtime.Goexit: trusted); which of the two shapes Transform and Read have
   is regenerated from the AST on every run (transform_defers_close, read_defers_close).  With the
   regenerated value, the history of the process after ANY ending of the callback is the Close of
   the handle, and the handle-level theorem handle_close_releases applies: descriptor closed, no
   lock of any kind left on the file.  The runner makes such calls for real (holdseq `call`
   steps: t / the body under `defer f.Close()` returns, fails, panics, Goexits) and compares what
   another process's probe finds with the model run over exactly these events. *)
From Coq Require Import List NArith Arith Bool.
From GI Require Import Gen.LockedFileConsts LockedFile.LockedFile LockedFile.LockBasics LockedFile.LockProofs.
From GI Require Import LockedFile.Handles LockedFile.HandleProofs.
Import ListNotations.

(* how the caller's code under the lock can end *)
Inductive ending := Returns | ReturnsError | Panics | Goexits.

(* does control reach the statements that follow the call of the callback? *)
Definition falls_through (e : ending) : bool :=
  match e with Returns | ReturnsError => true | Panics | Goexits => false end.

(* the events of the process once the callback has ended, for a function that holds handle h and
   either defers its Close (deferred = true) or calls Close after the callback's call *)
Definition after_callback (deferred : bool) (h : nat) (e : ending) : list hev :=
  if deferred || falls_through e then [HClose h] else [].

Lemma deferred_close_always_runs h e : after_callback true h e = [HClose h].
Proof. reflexivity. Qed.

(* the regenerated shape of the source: both functions that run under `f` defer its Close *)
Lemma close_is_deferred : transform_defers_close = true /\ read_defers_close = true.
Proof. split; reflexivity. Qed.

Lemma transform_after_callback h e : after_callback transform_defers_close h e = [HClose h].
Proof. destruct close_is_deferred as [-> _]. apply deferred_close_always_runs. Qed.

(* Transform holds handle h (an unclosed File, not a Mutex's) when it calls t; however t ends, the
   events that follow leave the descriptor closed and no lock on the file *)
Theorem transform_releases_however_callback_ends s h f e :
  hinv s -> h_stuck s = false -> h_panic s = false ->
  nth_error (h_files s) h = Some f -> open_handle f = true -> hf_mutex f = None ->
  let s' := hrun s (after_callback transform_defers_close h e) in
  fds (h_os s') (hf_fd f) = None /\
  (forall k, holds (hf_fd f) k (ltab (h_os s') (hf_ino f)) = false) /\
  nth_error (h_files s') h = Some (set_closed f).
Proof.
  intros I Hs Hp Hg Ho Hm. rewrite transform_after_callback. cbv zeta.
  destruct (handle_close_releases s h f I Hs Hp Hg Ho Hm) as (_ & A & B & C).
  change (hrun s [HClose h]) with (hexec s (HClose h)). auto.
Qed.

(* non-vacuity: the rule distinguishes the two shapes — with an explicit Close after the
   callback's call, a panic or a Goexit leaves NO Close in the history (the lock stays), while the
   ordinary endings are the same in both shapes *)
Example explicit_close_is_skipped_by_panic :
  after_callback false 0 Panics = [] /\ after_callback false 0 Goexits = [] /\
  after_callback false 0 Returns = [HClose 0] /\ after_callback false 0 ReturnsError = [HClose 0] /\
  after_callback transform_defers_close 0 Panics = [HClose 0] /\
  after_callback transform_defers_close 0 Goexits = [HClose 0].
Proof. repeat split; reflexivity. Qed.

(* lockedfile (C06, C07): whole calls under fault policies — the critical section of a call is
   its body run on the file (so the body-level theorems of PolicyTransform.v speak about the
   call), Transform as a call under the size-limit regime and without faults, Write with any
   content reader. *)
From Coq Require Import List NArith Arith Bool Lia.
From Coq.Strings Require Import Byte.
From GI Require Import Gen.LockedFileConsts LockedFile.LockedFile LockedFile.LockBasics
  LockedFile.LockProofs LockedFile.TransformProofs LockedFile.TransformCall.
From GI Require Import LockedFile.Policy LockedFile.PolicyProofs LockedFile.PolicyTransform.
Import ListNotations.

Arguments os_step : simpl never.

(* Close: mark, unlock, close — under any faults the file is untouched, the descriptor closed,
   the lock gone *)
Lemma run_pol_close_part i c x pol h s :
  isopen (fds s c) = true -> refs s c = 0 ->
  exists h' s', run_pol i c (close_part x) pol h s = (h', Finished x, s') /\
    files s' = files s /\ fds s' c = None /\ locked c (ltab s' i) = None.
Proof.
  intros Ho Hr. unfold close_part. cbn [run_pol]. rewrite osf_mark.
  set (h1 := (OMark MCloseCalled, ROk) :: h).
  unfold close_prog. destruct closefile_unlock_first.
  - cbn [run_pol].
    destruct (os_step_f i c (OFlock filelock_unlock_arg) (pol h1 _ _ _) false s) as [[r s1]|] eqn:E.
    + destruct (osf_flock_frame _ _ _ _ _ _ _ _ E) as [Hf [Hrf [Hfi Hei]]].
      assert (Ho1 : isopen (fds s1 c) = true) by now rewrite Hf.
      assert (Hr1 : refs s1 c = 0) by now rewrite Hrf.
      destruct (osf_close_open i c (pol ((OFlock filelock_unlock_arg, r) :: h1) OClose
                   (content_of (files s1 i)) (fds s1 c)) false s1 Ho1 Hr1)
        as [r2 [s2 [E2 [Hfi2 [Hc [Hl _]]]]]].
      assert (Hne : r <> REintr) by (intros ->; specialize (Hei eq_refl); discriminate).
      destruct r; try (now elim Hne); rewrite E2; simpl; do 2 eexists;
        (split; [reflexivity|]); (split; [congruence|]); auto.
    + (* an unlock never blocks *)
      exfalso. destruct (pol h1 _ _ _); simpl in E; try discriminate E.
      rewrite (os_flock_unlock i c s false FNone Ho) in E. discriminate E.
  - cbn [run_pol].
    destruct (osf_close_open i c (pol h1 OClose (content_of (files s i)) (fds s c)) false s Ho Hr)
      as [r2 [s2 [E2 [Hfi2 [Hc [Hl _]]]]]].
    rewrite E2. cbn [run_pol]. rewrite (osf_flock_closed i c _ _ false s2 Hc). simpl.
    do 2 eexists. split; [reflexivity|]. auto.
Qed.

(* the critical section and Close of a call whose descriptor is open: the outcome and the final
   contents are those of the body run on the file under the same policy *)
Lemma run_pol_cs i c b : io_only b -> forall pol h s fd,
  fds s c = Some fd -> refs s c = 0 ->
  match run_pol i c (bind b close_part) pol h s, run_body_pol b pol h (content_of (files s i)) fd with
  | (_, out, s'), (r, X', _) =>
      out = Finished r /\ content_of (files s' i) = X' /\ fds s' c = None /\
      locked c (ltab s' i) = None
  end.
Proof.
  induction 1 as [x|o k Hio Hk IH]; intros pol h s fd Hfd Href.
  - assert (Ho : isopen (fds s c) = true) by now rewrite Hfd.
    destruct (run_pol_close_part i c x pol h s Ho Href) as [h' [s' [E [Hfi [Hc Hl]]]]].
    simpl bind. rewrite E. simpl. rewrite Hfi. auto.
  - simpl bind. cbn [run_pol run_body_pol]. rewrite (osf_io _ _ _ _ _ _ Hio), Hfd.
    rewrite (os_io_flt i c o s false _ fd Hio Hfd).
    destruct (io_step o (pol h o (content_of (files s i)) (Some fd)) (content_of (files s i)) fd)
      as [[r X1] fd1].
    set (s1 := {| files := upd (files s) i (Some X1); fds := upd (fds s) c (Some fd1);
                  refs := refs s; ltab := ltab s |}).
    specialize (IH r pol ((o, r) :: h) s1 fd1).
    assert (E : content_of (files s1 i) = X1) by (simpl; now rewrite upd_same).
    rewrite E in IH. apply IH; simpl; auto. now rewrite upd_same.
Qed.

(* ------------------------------------------------------------------ Transform as a call *)

Definition io_faults_only (pol : policy) : Prop :=
  forall h o b fd, is_io o = false -> pol h o b fd = FNone.

Lemma limit_pol_io L : io_faults_only (limit_pol L).
Proof. intros h o b fd H. destruct o; try discriminate H; reflexivity. Qed.

Lemma no_fault_pol_io : io_faults_only no_fault_pol.
Proof. intros h o b fd H. reflexivity. Qed.

(* Transform alone on an existing file, under a policy that leaves open / flock / close alone:
   the call returns, has released everything, and what it returns and leaves is its body run
   on the old contents *)
Lemma transform_call_body t old pol :
  io_faults_only pol ->
  let h0 := [(OMark MReturned, ROk); (OFlock (lock_arg_of_flags edit_flags), ROk);
             (OOpen (strip edit_flags openfile_strip_mask), ROk)] in
  match run_pol 0 0 (prog_of_call (CTransform t)) pol [] (os_with (Some old)),
        run_body_pol (transform_body t) pol h0 old (fresh_fd edit_flags) with
  | (_, out, s'), (r, X, _) =>
      out = Finished r /\ content_of (files s' 0) = X /\ fds s' 0 = None /\
      forall k, holds 0 k (ltab s' 0) = false
  end.
Proof.
  intros Hio h0. rewrite transform_call_shape. cbn [run_pol].
  rewrite (Hio [] (OOpen _)) by reflexivity. cbn [os_step_f].
  set (s1 := {| files := fun _ : nat => Some old;
                fds := upd (fun _ => None) 0 (Some (fresh_fd edit_flags));
                refs := fun _ : nat => 0; ltab := fun _ : nat => [] |}).
  change (os_step 0 0 (OOpen (strip edit_flags openfile_strip_mask)) FNone false (os_with (Some old)))
    with (Some (ROk, s1)).
  cbv iota beta. cbn [run_pol]. rewrite (Hio _ (OFlock _)) by reflexivity. cbn [os_step_f].
  set (s2 := {| files := files s1; fds := fds s1; refs := refs s1;
                ltab := upd (ltab s1) 0 [(0, LEx)] |}).
  change (os_step 0 0 (OFlock (lock_arg_of_flags edit_flags)) FNone false s1) with (Some (ROk, s2)).
  cbv iota beta. cbn [run_pol]. rewrite osf_mark.
  pose proof (run_pol_cs 0 0 (transform_body t) (io_only_transform t) pol h0 s2
                (fresh_fd edit_flags) eq_refl eq_refl) as H.
  change (content_of (files s2 0)) with old in H.
  fold h0.
  destruct (run_pol 0 0 (bind (transform_body t) close_part) pol h0 s2) as [[h' out] s'].
  destruct (run_body_pol (transform_body t) pol h0 old (fresh_fd edit_flags)) as [[r X] fd'].
  destruct H as [Ho [HX [Hf Hl]]]. repeat split; auto.
  intros k. now apply locked_None_holds.
Qed.

Lemma rwfd_fresh_edit : rwfd (fresh_fd edit_flags).
Proof. repeat split. Qed.

(* under a size limit: the call returns, nothing is left locked or open, all-or-nothing *)
Theorem transform_call_limit_atomic t old L :
  match run_pol 0 0 (prog_of_call (CTransform t)) (limit_pol L) [] (os_with (Some old)) with
  | (_, out, s') =>
      fds s' 0 = None /\ (forall k, holds 0 k (ltab s' 0) = false) /\
      ((out = Finished ResOk /\ t old = Some (content_of (files s' 0))) \/
       (out = Finished ResErr /\ content_of (files s' 0) = old))
  end.
Proof.
  pose proof (transform_call_body t old (limit_pol L) (limit_pol_io L)) as H. cbv zeta in H.
  pose proof (transform_limit_atomic t old L
                [(OMark MReturned, ROk); (OFlock (lock_arg_of_flags edit_flags), ROk);
                 (OOpen (strip edit_flags openfile_strip_mask), ROk)]
                (fresh_fd edit_flags) rwfd_fresh_edit) as Hb.
  destruct (run_pol 0 0 (prog_of_call (CTransform t)) (limit_pol L) [] (os_with (Some old))) as [[h' out] s'].
  destruct (run_body_pol (transform_body t) (limit_pol L) _ old (fresh_fd edit_flags)) as [[r X] fd'].
  destruct H as [-> [-> [Hf Hl]]]. split; [exact Hf|]. split; [exact Hl|].
  destruct Hb as [[-> Ht]|[-> ->]]; [left|right]; auto.
Qed.

(* without faults: the call returns nil and the file holds t(old) — for every result value *)
Theorem transform_call_publishes t old new :
  t old = Some new ->
  match run_pol 0 0 (prog_of_call (CTransform t)) no_fault_pol [] (os_with (Some old)) with
  | (_, out, s') =>
      out = Finished ResOk /\ content_of (files s' 0) = new /\
      fds s' 0 = None /\ (forall k, holds 0 k (ltab s' 0) = false)
  end.
Proof.
  intros Ht.
  pose proof (transform_call_body t old no_fault_pol no_fault_pol_io) as H. cbv zeta in H.
  pose proof (transform_publishes_any_result t old new
                [(OMark MReturned, ROk); (OFlock (lock_arg_of_flags edit_flags), ROk);
                 (OOpen (strip edit_flags openfile_strip_mask), ROk)]
                (fresh_fd edit_flags) rwfd_fresh_edit Ht) as Hb.
  destruct (run_pol 0 0 (prog_of_call (CTransform t)) no_fault_pol [] (os_with (Some old))) as [[h' out] s'].
  destruct (run_body_pol (transform_body t) no_fault_pol _ old (fresh_fd edit_flags)) as [[r X] fd'].
  destruct H as [-> [-> [Hf Hl]]]. destruct Hb as [-> ->]. auto.
Qed.

(* any policy on the file I/O: an error return never loses bytes *)
Theorem transform_call_err_keeps_old_tail t old pol :
  io_faults_only pol ->
  match run_pol 0 0 (prog_of_call (CTransform t)) pol [] (os_with (Some old)) with
  | (_, Finished ResErr, s') =>
      let X := content_of (files s' 0) in
      length old <= length X /\
      forall new, t old = Some new ->
        forall j, length new <= j -> j < length old -> nth j X x00 = nth j old x00
  | _ => True
  end.
Proof.
  intros Hio.
  pose proof (transform_call_body t old pol Hio) as H. cbv zeta in H.
  pose proof (transform_err_keeps_old_tail t old pol
                [(OMark MReturned, ROk); (OFlock (lock_arg_of_flags edit_flags), ROk);
                 (OOpen (strip edit_flags openfile_strip_mask), ROk)]
                (fresh_fd edit_flags) rwfd_fresh_edit) as Hb.
  destruct (run_pol 0 0 (prog_of_call (CTransform t)) pol [] (os_with (Some old))) as [[h' out] s'].
  destruct (run_body_pol (transform_body t) pol _ old (fresh_fd edit_flags)) as [[r X] fd'].
  destruct H as [-> [-> _]]. destruct r; auto.
Qed.

(* ------------------------------------------------------------------ Write with any content reader *)

(* io.Copy into the freshly truncated file: what has been written is always a prefix of what the
   reader delivers; nil is returned only when all of it was written and the reader ended in EOF *)
Lemma firstn_prefix_app {A} n (d r : list A) :
  firstn (Nat.min n (length d)) (d ++ r) = firstn n d.
Proof.
  rewrite firstn_app. replace (Nat.min n (length d) - length d) with 0 by lia.
  simpl. rewrite app_nil_r. destruct (Nat.le_ge_cases n (length d)) as [Hle|Hge].
  - now replace (Nat.min n (length d)) with n by lia.
  - replace (Nat.min n (length d)) with (length d) by lia.
    rewrite firstn_all. symmetry. apply firstn_all2. lia.
Qed.

Lemma copy_body_prefix chunks rerr : forall pol h X fd,
  acc_writable (fd_acc fd) = true -> fd_off fd = length X ->
  match run_body_pol (copy_body chunks rerr) pol h X fd with
  | (r, X', _) =>
      exists m, X' = X ++ firstn m (concat chunks) /\
                (r = ResOk -> rerr = false /\ X' = X ++ concat chunks) /\
                (r = ResOk \/ r = ResErr)
  end.
Proof.
  induction chunks as [|d rest IH]; intros pol h X fd Hw Hoff.
  - simpl. exists 0. split; [now rewrite app_nil_r|].
    destruct rerr; (split; [try discriminate|auto]). intros _. now rewrite app_nil_r.
  - simpl copy_body. unfold write_prog. destruct d as [|x d'].
    + simpl concat. now apply IH.
    + set (d := x :: d'). cbn [run_body_pol]. cbn [io_step]. rewrite Hw, Hoff.
      destruct (pol h (OWrite d) X (Some fd)) eqn:Ep.
      * rewrite write_at_end.
        specialize (IH pol ((OWrite d, ROk) :: h) (X ++ d)
                       {| fd_acc := fd_acc fd; fd_off := length X + length d |} Hw).
        rewrite app_length in IH. specialize (IH eq_refl).
        destruct (run_body_pol (copy_body rest rerr) pol _ (X ++ d) _) as [[r X'] fd'].
        destruct IH as [m [HX [Hok Hre]]]. exists (length d + m). split; [|split; [|exact Hre]].
        -- rewrite HX. change (concat (d :: rest)) with (d ++ concat rest). rewrite firstn_app_2. now rewrite <- app_assoc.
        -- intros Hr. destruct (Hok Hr) as [He HX']. split; [exact He|].
           rewrite HX'. change (concat (d :: rest)) with (d ++ concat rest). now rewrite <- app_assoc.
      * cbn [run_body_pol]. exists 0. split; [now rewrite app_nil_r|split; [discriminate|now right]].
      * cbn [run_body_pol]. rewrite write_at_end. exists (Nat.min n (length d)).
        split; [|split; [discriminate|now right]].
        f_equal. change (concat (d :: rest)) with (d ++ concat rest). symmetry. apply firstn_prefix_app.
Qed.

(* Write(name, reader, perm) alone on an existing file under any I/O policy: it returns, holds
   nothing afterwards; nil => the file holds exactly what the reader delivered and the reader
   did not fail; an error => the old contents (the truncation failed) or a prefix of what the
   reader delivered *)
Theorem writer_call_faulty chunks rerr old pol :
  io_faults_only pol ->
  match run_pol 0 0 (prog_of_call (writer_call chunks rerr)) pol [] (os_with (Some old)) with
  | (_, out, s') =>
      fds s' 0 = None /\ (forall k, holds 0 k (ltab s' 0) = false) /\
      ((out = Finished ResOk /\ rerr = false /\ content_of (files s' 0) = concat chunks) \/
       (out = Finished ResErr /\
        (content_of (files s' 0) = old \/ exists m, content_of (files s' 0) = firstn m (concat chunks))))
  end.
Proof.
  intros Hio. unfold prog_of_call, writer_call. cbn [flags_of_call body_of_call].
  unfold client_prog, open_file_prog. cbn [run_pol].
  rewrite (Hio [] (OOpen _)) by reflexivity. cbn [os_step_f].
  set (s1 := {| files := fun _ : nat => Some old;
                fds := upd (fun _ => None) 0 (Some (fresh_fd write_flags));
                refs := fun _ : nat => 0; ltab := fun _ : nat => [] |}).
  change (os_step 0 0 (OOpen (strip write_flags openfile_strip_mask)) FNone false (os_with (Some old)))
    with (Some (ROk, s1)).
  cbv iota beta. change truncate_after_lock with true. cbv iota.
  unfold lock_stage, flock_step. change lock_retries_eintr with true. cbv iota. cbn [run_pol].
  rewrite (Hio _ (OFlock _)) by reflexivity. cbn [os_step_f].
  set (s2 := {| files := files s1; fds := fds s1; refs := refs s1;
                ltab := upd (ltab s1) 0 [(0, LEx)] |}).
  change (os_step 0 0 (OFlock (lock_arg_of_flags write_flags)) FNone false s1) with (Some (ROk, s2)).
  cbv iota beta. unfold trunc_stage. change (has_flag write_flags truncate_cond_mask) with true.
  cbv iota. cbn [run_pol].
  set (h2 := [(OFlock (lock_arg_of_flags write_flags), ROk);
              (OOpen (strip write_flags openfile_strip_mask), ROk)]).
  rewrite (osf_io 0 0 (OFtruncate (N.to_nat truncate_size)) _ false s2 eq_refl).
  rewrite (os_io_flt 0 0 (OFtruncate (N.to_nat truncate_size)) s2 false _ (fresh_fd write_flags) eq_refl eq_refl).
  change (content_of (files s2 0)) with old.
  rewrite (io_ftruncate (fresh_fd write_flags) eq_refl).
  destruct (pol h2 (OFtruncate (N.to_nat truncate_size)) old (fds s2 0)) eqn:Ep.
  - (* truncated *)
    set (s3 := {| files := upd (files s2) 0 (Some (resize (N.to_nat truncate_size) old));
                  fds := upd (fds s2) 0 (Some (fresh_fd write_flags)); refs := refs s2; ltab := ltab s2 |}).
    unfold after_open. cbn [run_pol]. rewrite osf_mark.
    set (h3 := (OMark MReturned, ROk) :: (OFtruncate (N.to_nat truncate_size), ROk) :: h2).
    pose proof (run_pol_cs 0 0 (copy_body chunks rerr) (io_only_copy_body chunks rerr) pol h3 s3
                  (fresh_fd write_flags) eq_refl eq_refl) as H.
    change (content_of (files s3 0)) with (@nil byte) in H.
    pose proof (copy_body_prefix chunks rerr pol h3 [] (fresh_fd write_flags) eq_refl eq_refl) as Hb.
    destruct (run_pol 0 0 (bind (copy_body chunks rerr) close_part) pol h3 s3) as [[h' out] s'].
    destruct (run_body_pol (copy_body chunks rerr) pol h3 [] (fresh_fd write_flags)) as [[r X] fd'].
    destruct H as [-> [-> [Hf Hl]]]. split; [exact Hf|]. split; [intros k; now apply locked_None_holds|].
    destruct Hb as [m [HX [Hok Hre]]]. simpl in HX.
    destruct Hre as [-> | ->].
    + left. destruct (Hok eq_refl) as [He HX']. auto.
    + right. split; [reflexivity|]. right. now exists m.
  - (* the truncation failed: unlock, close, error; nothing was changed *)
    unfold trunc_fail_prog. change truncate_failure_unlocks_first with true. cbv iota. cbn [run_pol].
    set (s3 := {| files := upd (files s2) 0 (Some old); fds := upd (fds s2) 0 (Some (fresh_fd write_flags));
                  refs := refs s2; ltab := ltab s2 |}).
    rewrite (Hio _ (OFlock _)) by reflexivity. cbn [os_step_f].
    assert (Ho3 : isopen (fds s3 0) = true) by reflexivity.
    rewrite (os_flock_unlock 0 0 s3 false FNone Ho3). cbv iota beta. cbn [run_pol].
    rewrite (Hio _ OClose) by reflexivity. cbn [os_step_f].
    set (s4 := {| files := files s3; fds := fds s3; refs := refs s3;
                  ltab := upd (ltab s3) 0 (drop 0 (ltab s3 0)) |}).
    assert (Ho4 : isopen (fds s4 0) = true) by reflexivity.
    rewrite (os_close 0 0 s4 false FNone Ho4). cbv iota beta. cbn [run_pol]. simpl.
    split; [reflexivity|]. split; [intros k; reflexivity|]. right. auto.
  - unfold trunc_fail_prog. change truncate_failure_unlocks_first with true. cbv iota. cbn [run_pol].
    set (s3 := {| files := upd (files s2) 0 (Some old); fds := upd (fds s2) 0 (Some (fresh_fd write_flags));
                  refs := refs s2; ltab := ltab s2 |}).
    rewrite (Hio _ (OFlock _)) by reflexivity. cbn [os_step_f].
    assert (Ho3 : isopen (fds s3 0) = true) by reflexivity.
    rewrite (os_flock_unlock 0 0 s3 false FNone Ho3). cbv iota beta. cbn [run_pol].
    rewrite (Hio _ OClose) by reflexivity. cbn [os_step_f].
    set (s4 := {| files := files s3; fds := fds s3; refs := refs s3;
                  ltab := upd (ltab s3) 0 (drop 0 (ltab s3 0)) |}).
    assert (Ho4 : isopen (fds s4 0) = true) by reflexivity.
    rewrite (os_close 0 0 s4 false FNone Ho4). cbv iota beta. cbn [run_pol]. simpl.
    split; [reflexivity|]. split; [intros k; reflexivity|]. right. auto.
Qed.

(* non-vacuity: a reader that fails after two chunks; a persistent write failure; a failing flock *)
Example writer_reader_error_releases :
  match run_pol 0 0 (prog_of_call (writer_call [[x61; x62]; [x63]] true)) no_fault_pol []
                (os_with (Some [x7a; x7a; x7a; x7a])) with
  | (h, out, s') => out = Finished ResErr /\ files s' 0 = Some [x61; x62; x63] /\
                    fds s' 0 = None /\ ltab s' 0 = [] /\ opens h = 1 /\ closes h = 1
  end.
Proof. vm_compute. repeat split. Qed.

Example write_lock_failure_closes :
  match run_pol 0 0 (prog_of_call (CWrite [x61]))
                (class_pol (fun k => match k with KFlock => {| cs_first := 1; cs_all := true |} | _ => cs_never end))
                [] (os_with (Some [x7a])) with
  | (h, out, s') => out = Finished ResErr /\ files s' 0 = Some [x7a] /\
                    fds s' 0 = None /\ ltab s' 0 = [] /\ opens h = 1 /\ closes h = 1
  end.
Proof. vm_compute. repeat split. Qed.

Example unlock_failure_still_releases :
  match run_pol 0 0 (prog_of_call CMutex)
                (class_pol (fun k => match k with KFlock => {| cs_first := 2; cs_all := false |} | _ => cs_never end))
                [] (os_with None) with
  | (h, out, s') => out = Finished ResOk /\ fds s' 0 = None /\ ltab s' 0 = [] /\
                    In (OFlock sys_LOCK_UN, RErr) h
  end.
Proof. vm_compute. repeat split. auto 10. Qed.

(* Write reports the error of Close: the unlock fails, the data is in place, the lock is released
   by the close all the same, and the caller is told *)
Example write_reports_close_error :
  match run_pol 0 0 (prog_of_call (CWrite [x61]))
                (class_pol (fun k => match k with KFlock => {| cs_first := 2; cs_all := false |} | _ => cs_never end))
                [] (os_with (Some [x7a; x7a])) with
  | (h, out, s') => out = Finished ResOk /\ write_outcome h out = Finished ResErr /\
                    files s' 0 = Some [x61] /\ fds s' 0 = None /\ ltab s' 0 = []
  end.
Proof. vm_compute. repeat split. Qed.

(* when only the file I/O can fail, Write's result is the body's *)
Lemma write_outcome_no_close_fault h out : close_failed h = false -> write_outcome h out = out.
Proof. intros H. unfold write_outcome. rewrite H. now destruct out as [[| |]|]. Qed.

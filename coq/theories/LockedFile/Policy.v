(* lockedfile (C06, C07): fault POLICIES.  DEFINITIONS ONLY.

   LockedFile.v gives the programs a faulty semantics driven by a plan [nat -> fault] indexed by
   the position of the operation in the run, which affects the file I/O only.  That is enough for
   "one operation fails" but not for faults that PERSIST (a full disk, a size limit, a device that
   has gone away: every later write fails too, the rollback's included), nor for failures of
   open / flock / close.  Here the fault of an operation is chosen by a policy that sees
   everything visible at that moment: the history of the call (operations and results, newest
   first), the operation, the present contents of the file and the descriptor.

     run_pol       a whole call alone on the OS model under a policy; faults also hit
                   open (fails), flock (fails: nothing acquired, nothing released) and close
                   (reports an error; the descriptor is gone all the same, as on Linux)
     run_body_pol  the I/O of a body on one file under a policy

   Policies:  pol_of_plan (the position plans of LockedFile.v), limit_pol L (the size-limit
   regime: RLIMIT_FSIZE = L with SIGXFSZ ignored, or a quota — a write may store only what fits
   below L, an extension beyond L fails; produced for real by the runner), class_pol (the k-th
   call of a class of operations fails, optionally every later one too: exactly what
   `strace -e inject=SYSCALL:error=E:when=k[+]` does to the running code).

   Also here: Write with an arbitrary content reader (io.Copy: one write per chunk the reader
   delivers, then the reader's own error, if any). *)
From Coq Require Import List NArith Arith Bool.
From Coq.Strings Require Import Byte.
From GI Require Import Gen.LockedFileConsts LockedFile.LockedFile.
Import ListNotations.

Definition history := list (op * res).          (* newest first *)
Definition policy := history -> op -> bytes -> option fdesc -> fault.

(* one operation of client c under fault [flt]; the I/O operations are those of os_step *)
Definition os_step_f (i c : nat) (o : op) (flt : fault) (eintr : bool) (s : os) : option (res * os) :=
  match flt with
  | FNone => os_step i c o FNone eintr s
  | _ =>
      match o with
      | OOpen _ => Some (RErr, s)
      | OFlock _ => Some (RErr, s)
      | OClose => match os_step i c OClose FNone eintr s with
                  | Some (_, s') => Some (RErr, s')
                  | None => None
                  end
      | OMark _ => Some (ROk, s)
      | _ => os_step i c o flt eintr s
      end
  end.

Fixpoint run_pol (i c : nat) (p : prog) (pol : policy) (h : history) (s : os)
  : history * outcome * os :=
  match p with
  | Ret r => (h, Finished r, s)
  | Do o k =>
      match os_step_f i c o (pol h o (content_of (files s i)) (fds s c)) false s with
      | None => (h, Blocked, s)
      | Some (r, s') => run_pol i c (k r) pol ((o, r) :: h) s'
      end
  | Retry o k =>
      match os_step_f i c o (pol h o (content_of (files s i)) (fds s c)) false s with
      | None | Some (REintr, _) => (h, Blocked, s)
      | Some (r, s') => run_pol i c (k r) pol ((o, r) :: h) s'
      end
  end.

Fixpoint run_body_pol (p : prog) (pol : policy) (h : history) (b : bytes) (fd : fdesc)
  : result * bytes * fdesc :=
  match p with
  | Ret r => (r, b, fd)
  | Do o k | Retry o k =>
      match io_step o (pol h o b (Some fd)) b fd with
      | (r, b', fd') => run_body_pol (k r) pol ((o, r) :: h) b' fd'
      end
  end.

(* ------------------------------------------------------------------ policies *)

Definition no_fault_pol : policy := fun _ _ _ _ => FNone.

(* a position plan, I/O only: the faulty semantics of LockedFile.v *)
Definition pol_of_plan (plan : nat -> fault) : policy :=
  fun h o _ _ => if is_io o then plan (length h) else FNone.

(* the size-limit regime *)
Definition limit_pol (L : nat) : policy := fun _ o b fd =>
  match o with
  | OPWrite off d => if off + length d <=? L then FNone else FShort (L - off)
  | OWrite d =>
      let off := match fd with Some f => fd_off f | None => 0 end in
      if off + length d <=? L then FNone else FShort (L - off)
  | OFtruncate n => if (n <=? length b) || (n <=? L) then FNone else FFail
  | _ => FNone
  end.

(* classes of operations, as a system-call tracer sees them *)
Inductive oclass := KOpen | KFlock | KRead | KWrite | KTrunc | KClose | KMark.
Definition class_of (o : op) : oclass :=
  match o with
  | OOpen _ => KOpen
  | OFlock _ => KFlock
  | OReadAll => KRead
  | OPWrite _ _ | OWrite _ => KWrite
  | OFtruncate _ => KTrunc
  | OClose => KClose
  | OMark _ => KMark
  end.
Definition oclass_eqb (a b : oclass) : bool :=
  match a, b with
  | KOpen, KOpen | KFlock, KFlock | KRead, KRead | KWrite, KWrite | KTrunc, KTrunc
  | KClose, KClose | KMark, KMark => true
  | _, _ => false
  end.
Definition count_class (k : oclass) (h : history) : nat :=
  length (filter (fun x => oclass_eqb (class_of (fst x)) k) h).

(* the cs_first-th call of the class fails (1-based, 0 = never); with cs_all every later one too *)
Record cspec := { cs_first : nat; cs_all : bool }.
Definition cs_never : cspec := {| cs_first := 0; cs_all := false |}.
Definition cs_hit (c : cspec) (earlier : nat) : bool :=
  negb (cs_first c =? 0) &&
  (if cs_all c then cs_first c <=? S earlier else cs_first c =? S earlier).
Definition class_pol (spec : oclass -> cspec) : policy := fun h o _ _ =>
  match class_of o with
  | KMark => FNone
  | k => if cs_hit (spec k) (count_class k h) then FFail else FNone
  end.

(* every write fails outright from the start (a read-only remount, a dead device) *)
Definition writes_always_fail (pol : policy) : Prop :=
  forall h off d b fd, pol h (OPWrite off d) b fd = FFail.

(* ------------------------------------------------------------------ Write with any content reader *)

(* io.Copy(f, content): one Write per chunk the reader delivers (none for an empty chunk);
   a failing Write ends the copy; [rerr]: the reader ends with an error instead of EOF *)
Fixpoint copy_body (chunks : list bytes) (rerr : bool) : prog :=
  match chunks with
  | [] => Ret (if rerr then ResErr else ResOk)
  | d :: rest =>
      write_prog d (fun r => match r with ROk => copy_body rest rerr | _ => Ret ResErr end)
  end.

Definition writer_call (chunks : list bytes) (rerr : bool) : call :=
  COpenFile write_flags (copy_body chunks rerr).

(* Write hands back the error of Close when the copy itself succeeded
   (`if closeErr := f.Close(); err == nil { err = closeErr }`; closeFile reports a failed unlock
   or close).  Read, Transform and Mutex's unlock function ignore it.  The programs above return
   the body's result; this is what Write makes of it, given the history of the call. *)
Definition close_failed (h : history) : bool :=
  existsb (fun x => match x with
                    | (OFlock how, RErr) => N.eqb how filelock_unlock_arg
                    | (OClose, RErr) => true
                    | _ => false
                    end) h.
Definition write_outcome (h : history) (out : outcome) : outcome :=
  match out with
  | Finished ResOk => if close_failed h then Finished ResErr else out
  | _ => out
  end.

(* ------------------------------------------------------------------ descriptors as a resource *)

Definition is_open_ok (x : op * res) : bool :=
  match x with (OOpen _, ROk) => true | _ => false end.
Definition is_close (x : op * res) : bool :=
  match x with (OClose, _) => true | _ => false end.
Definition opens (h : history) : nat := length (filter is_open_ok h).
Definition closes (h : history) : nat := length (filter is_close h).

(* C06 with inode attributes: the protocol theorems for clients whose files may be non-regular
   (the Truncate of an O_TRUNC open fails and is ignored) or not accessible (the open fails). *)
From Coq Require Import List NArith Arith Bool Lia.
From Coq.Strings Require Import Byte.
From GI Require Import Gen.LockedFileConsts LockedFile.LockedFile LockedFile.LockBasics
  LockedFile.LockProofs.
From GI Require Import LockedFile.LockedFileA.
Import ListNotations.

Arguments os_step : simpl never.
Arguments os_step_a : simpl never.

(* ------------------------------------------------------------------ os_step_a versus os_step *)

Lemma os_step_a_cases a i c o flt e s r s' :
  os_step_a a i c o flt e s = Some (r, s') ->
  (r = RErr /\ s' = s) \/ os_step i c o flt e s = Some (r, s').
Proof.
  unfold os_step_a. destruct o; auto.
  - destruct (files s i); auto. destruct (open_denied a flags); auto. intros [= <- <-]. auto.
  - destruct (a_regular a); auto. intros [= <- <-]. auto.
Qed.

Lemma os_step_a_flock a i c how flt e s : os_step_a a i c (OFlock how) flt e s = os_step i c (OFlock how) flt e s.
Proof. reflexivity. Qed.
Lemma os_step_a_close a i c flt e s : os_step_a a i c OClose flt e s = os_step i c OClose flt e s.
Proof. reflexivity. Qed.
Lemma os_step_a_mark a i c m flt e s : os_step_a a i c (OMark m) flt e s = Some (ROk, s).
Proof. reflexivity. Qed.

Lemma open_denied_default flags : open_denied default_attr flags = false.
Proof. unfold open_denied. simpl. now rewrite andb_false_r. Qed.

Lemma os_step_a_default i c o flt e s : os_step_a default_attr i c o flt e s = os_step i c o flt e s.
Proof.
  unfold os_step_a. destruct o; try reflexivity.
  destruct (files s i); [|reflexivity]. now rewrite open_denied_default.
Qed.

Lemma os_open_result_a a i c fl s r s' eintr flt :
  os_step_a a i c (OOpen fl) flt eintr s = Some (r, s') -> isopen (fds s c) = false ->
  (r = ROk /\ isopen (fds s' c) = true /\ ltab s' = ltab s /\
   fds s' c = Some {| fd_acc := accmode fl; fd_off := 0 |}) \/
  (r = RErr /\ s' = s).
Proof.
  intros H Hc. destruct (os_step_a_cases _ _ _ _ _ _ _ _ _ H) as [[-> ->]|H']; [now right|].
  eapply os_open_result; eassumption.
Qed.

Lemma os_io_a a i c o s eintr flt :
  is_io o = true -> isopen (fds s c) = true ->
  exists r s', os_step_a a i c o flt eintr s = Some (r, s') /\
               isopen (fds s' c) = true /\ ltab s' = ltab s.
Proof.
  intros Hio Ho. destruct (os_io i c o s eintr flt Hio Ho) as [r [s' [H [H1 H2]]]].
  unfold os_step_a. destruct o; try discriminate Hio; try (now exists r, s').
  destruct (a_regular a); [now exists r, s'|]. exists RErr, s. auto.
Qed.

Definition wf_cfg_a (cfg : nat -> client_a) : Prop := forall c, wf_call (ca_call (cfg c)).

Section Phase.
Variables (a : attr) (fl : N) (b : prog).
Let k0 := LockProofs.k0 b.

Definition klock_a : bool -> prog := fun ok => if ok then trunc_stage_a a fl k0 else Ret ResErr.

(* remaining program / descriptor open? / entry in the flock table of its inode / status *)
Inductive phase_a : prog -> bool -> option lkind -> cstatus -> Prop :=
| ph_start_a : phase_a (client_prog_a a fl b) false None SIdle
| ph_lock_a : phase_a (lock_stage fl klock_a) true None SIdle
| ph_trunc_a m : lock_mode_of_flags fl = Some m -> phase_a (trunc_stage_a a fl k0) true (Some m) SIdle
| ph_truncfail_a m : lock_mode_of_flags fl = Some m ->
    phase_a (trunc_fail_prog (Ret ResErr)) true (Some m) SIdle
| ph_ret_a m : lock_mode_of_flags fl = Some m -> phase_a (after_open b) true (Some m) SIdle
| ph_cs_a m b' : lock_mode_of_flags fl = Some m -> io_only b' ->
    phase_a (bind b' close_part) true (Some m) SInCS
| ph_closing_a m x : lock_mode_of_flags fl = Some m ->
    phase_a (close_prog (Ret x)) true (Some m) SClosing
| ph_close_a x st : st <> SInCS -> phase_a (Do OClose (fun _ => Ret x)) true None st
| ph_done_a x st : st <> SInCS -> phase_a (Ret x) false None st.

End Phase.

Definition cphase_a (cfg : nat -> client_a) (s : state) (c : nat) : Prop :=
  phase_a (ca_attr (cfg c)) (flags_of_call (ca_call (cfg c))) (body_of_call (ca_call (cfg c)))
        (progs s c) (isopen (fds (st_os s) c))
        (locked c (ltab (st_os s) (ca_ino (cfg c)))) (status s c).




Lemma phase_step_a cfg s c eintr :
  io_only (body_of_call (ca_call (cfg c))) ->
  cphase_a cfg s c -> cphase_a cfg (run_client_a cfg c eintr s) c.
Proof.
  intros Hio H. unfold cphase_a in *.
  set (fl := flags_of_call (ca_call (cfg c))) in *.
  set (b := body_of_call (ca_call (cfg c))) in *.
  set (i := ca_ino (cfg c)) in *.
  destruct (lock_mode_total fl) as [m [Hm Hreq]].
  set (a := ca_attr (cfg c)) in *.
  unfold run_client_a. fold i a.
  inversion H as [Hp Ho Hl Hs | Hp Ho Hl Hs | m' Hm' Hp Ho Hl Hs | m' Hm' Hp Ho Hl Hs
                 | m' Hm' Hp Ho Hl Hs | m' b' Hm' Hb' Hp Ho Hl Hs | m' x Hm' Hp Ho Hl Hs
                 | x st Hst Hp Ho Hl Hs | x st Hst Hp Ho Hl Hs]; symmetry in Ho; try rewrite <- Hp.
  - (* start: openat *)
    unfold client_prog_a, open_file_prog_a.
    destruct (os_step_a a i c (OOpen _) FNone eintr (st_os s)) as [[r o2]|] eqn:Hos.
    + destruct (os_open_result_a _ _ _ _ _ _ _ _ _ Hos Ho) as [[-> [Ho2 [Hlt _]]]|[-> ->]]; simpl;
        rewrite ?upd_same.
      * rewrite Ho2, Hlt, <- Hl, <- Hs. apply ph_lock_a.
      * rewrite Ho, <- Hl, <- Hs. apply (ph_done_a _ _ _ ResErr). discriminate.
    + simpl. rewrite <- Hp, Ho, <- Hl, <- Hs. apply ph_start_a.
  - (* flock *)
    unfold lock_stage, flock_step. simpl. rewrite os_step_a_flock.
    rewrite (os_flock_req _ _ _ m _ _ _ Hreq Ho).
    destruct (negb (lockable _)).
    { simpl. rewrite !upd_same, Ho, <- Hl, <- Hs. apply ph_close_a. discriminate. }
    destruct (can_grant m c _).
    + simpl. rewrite !upd_same, Ho, locked_cons_same, <- Hs. now apply ph_trunc_a.
    + destruct eintr; simpl.
      * rewrite !upd_same, Ho, <- Hl, <- Hs. apply ph_lock_a.
      * rewrite <- ?Hp, Ho, <- Hl, <- Hs. apply ph_lock_a.
  - (* ftruncate (or nothing) *)
    unfold trunc_stage_a. destruct (has_flag fl truncate_cond_mask).
    + destruct (os_io_a a i c (OFtruncate (N.to_nat truncate_size)) (st_os s) eintr FNone eq_refl Ho)
        as [r [o2 [Hos [Ho2 Hlt]]]].
      rewrite Hos.
      destruct r; simpl; rewrite !upd_same, Ho2, Hlt, <- Hl, <- Hs; try (now apply ph_ret_a);
        (destruct (a_regular a); [now apply ph_truncfail_a|now apply ph_ret_a]).
    + (* k0 true = after_open b: the mark *)
      simpl. rewrite ?os_step_a_mark. simpl. rewrite !upd_same, Ho, <- Hl.
      apply (ph_cs_a _ _ _ m' b Hm' Hio).
  - (* failed truncate: unlock *)
    unfold trunc_fail_prog. simpl. rewrite os_step_a_flock, (os_flock_unlock _ _ _ _ _ Ho). simpl.
    rewrite !upd_same, Ho, locked_drop_same, <- Hs. apply ph_close_a. discriminate.
  - (* the locking call returns *)
    simpl. rewrite ?os_step_a_mark. simpl. rewrite !upd_same, Ho, <- Hl. apply (ph_cs_a _ _ _ m' b Hm' Hio).
  - (* critical section *)
    destruct Hb' as [x|o k Hoio Hk]; simpl.
    + rewrite ?os_step_a_mark. simpl. rewrite !upd_same, Ho, <- Hl. now apply ph_closing_a.
    + destruct (os_io_a a i c o (st_os s) eintr FNone Hoio Ho) as [r [o2 [Hos [Ho2 Hlt]]]].
      rewrite Hos.
      assert (Hst : status_after o (status s c) = SInCS)
        by (rewrite <- Hs; destruct o; try discriminate Hoio; reflexivity).
      destruct r; simpl; rewrite !upd_same, Ho2, Hlt, <- Hl, Hst; now apply ph_cs_a.
  - (* Close: unlock *)
    unfold close_prog. simpl. rewrite os_step_a_flock, (os_flock_unlock _ _ _ _ _ Ho). simpl.
    rewrite !upd_same, Ho, locked_drop_same, <- Hs. apply ph_close_a. discriminate.
  - (* close *)
    rewrite os_step_a_close, (os_close _ _ _ _ _ Ho). simpl. rewrite !upd_same.
    assert (Hl2 : locked c ((if Nat.eqb (refs (st_os s) c) 0
                   then upd (ltab (st_os s)) i (drop c (ltab (st_os s) i))
                   else ltab (st_os s)) i) = None).
    { destruct (Nat.eqb _ 0); [apply locked_upd_drop|now symmetry]. }
    rewrite Hl2. now apply ph_done_a.
  - (* done *)
    simpl. rewrite <- Hp, Ho, <- Hl. now apply ph_done_a.
Qed.

(* ------------------------------------------------------------------ the invariant *)

Record inv06_a (cfg : nat -> client_a) (s : state) : Prop := {
  i_tab_a : forall i, ltab_ok (ltab (st_os s) i);
  i_phase_a : forall c, cphase_a cfg s c;
  i_own_a : forall c i, i <> ca_ino (cfg c) -> locked c (ltab (st_os s) i) = None
}.

(* a step of client c: the OS is untouched or changed by one os_step of c on its inode *)
Lemma run_client_os_a cfg c eintr s :
  st_os (run_client_a cfg c eintr s) = st_os s \/
  exists o r, os_step (ca_ino (cfg c)) c o FNone eintr (st_os s)
              = Some (r, st_os (run_client_a cfg c eintr s)).
Proof.
  unfold run_client_a. destruct (progs s c) as [x|o k|o k]; [now left| |];
  destruct (os_step_a (ca_attr (cfg c)) (ca_ino (cfg c)) c o FNone eintr (st_os s)) as [[r o2]|] eqn:Hos;
    try now left.
  - destruct (os_step_a_cases _ _ _ _ _ _ _ _ _ Hos) as [[-> ->]|H']; [now left|].
    right. exists o, r. exact H'.
  - destruct (os_step_a_cases _ _ _ _ _ _ _ _ _ Hos) as [[-> ->]|H']; [now left|].
    right. exists o, r. destruct r; exact H'.
Qed.

Lemma run_client_other_a cfg c eintr s d :
  d <> c ->
  progs (run_client_a cfg c eintr s) d = progs s d /\
  status (run_client_a cfg c eintr s) d = status s d.
Proof.
  intros Hd. unfold run_client_a. destruct (progs s c) as [x|o k|o k]; [now split| |];
  destruct (os_step_a (ca_attr (cfg c)) (ca_ino (cfg c)) c o FNone eintr (st_os s)) as [[r o2]|]; try now split.
  - simpl. now rewrite !upd_other.
  - destruct r; simpl; now rewrite !upd_other.
Qed.

Lemma inv06_run_client_a cfg c eintr s :
  wf_cfg_a cfg -> inv06_a cfg s -> inv06_a cfg (run_client_a cfg c eintr s).
Proof.
  intros Hwf [Htab Hph Hown].
  pose proof (phase_step_a cfg s c eintr (Hwf c) (Hph c)) as Hc.
  destruct (run_client_os_a cfg c eintr s) as [E|[o [r Hos]]].
  - (* OS unchanged *)
    split; try (rewrite E; assumption).
    intros d. destruct (Nat.eq_dec d c) as [->|Hd]; [exact Hc|].
    unfold cphase_a. destruct (run_client_other_a cfg c eintr s d Hd) as [-> ->]. rewrite E. apply Hph.
  - set (s' := run_client_a cfg c eintr s) in *. set (i := ca_ino (cfg c)) in *.
    split.
    + intros j. destruct (Nat.eq_dec j i) as [->|Hj].
      * eapply os_step_ltab_ok; [exact Hos|apply Htab].
      * rewrite (os_step_ltab_other_inode _ _ _ _ _ _ _ _ j Hos Hj). apply Htab.
    + intros d. destruct (Nat.eq_dec d c) as [->|Hd]; [exact Hc|].
      unfold cphase_a. fold s'. destruct (run_client_other_a cfg c eintr s d Hd) as [Ep Es].
      fold s' in Ep, Es. rewrite Ep, Es, (os_step_fds_other _ _ _ _ _ _ _ _ d Hos Hd).
      replace (locked d (ltab (st_os s') (ca_ino (cfg d))))
        with (locked d (ltab (st_os s) (ca_ino (cfg d)))); [apply Hph|].
      destruct (Nat.eq_dec (ca_ino (cfg d)) i) as [->|Hj].
      * symmetry. eapply os_step_locked_other; eassumption.
      * now rewrite (os_step_ltab_other_inode _ _ _ _ _ _ _ _ _ Hos Hj).
    + intros d j Hj. destruct (Nat.eq_dec j i) as [->|Hji].
      * destruct (Nat.eq_dec d c) as [->|Hd]; [contradiction|].
        rewrite (os_step_locked_other _ _ _ _ _ _ _ _ d Hos Hd). now apply Hown.
      * rewrite (os_step_ltab_other_inode _ _ _ _ _ _ _ _ j Hos Hji). now apply Hown.
Qed.

Lemma phase_closed_unlocked_a a fl b p l st : phase_a a fl b p false l st -> l = None.
Proof. intros H. inversion H; reflexivity. Qed.

Lemma inv06_exec_a cfg s e : wf_cfg_a cfg -> inv06_a cfg s -> inv06_a cfg (exec_a cfg s e).
Proof.
  intros Hwf Hinv. destruct e as [c|c|c|c]; simpl.
  - now apply inv06_run_client_a.
  - now apply inv06_run_client_a.
  - (* a child inherits the descriptor: only the reference count changes *)
    destruct Hinv as [Htab Hph Hown].
    assert (E : forall d, fds (os_dup c (st_os s)) d = fds (st_os s) d /\
                          ltab (os_dup c (st_os s)) = ltab (st_os s)).
    { intros d. unfold os_dup. destruct (fds (st_os s) c); simpl; auto. }
    split; simpl.
    + intros i. rewrite (proj2 (E 0)). apply Htab.
    + intros d. unfold cphase_a. simpl. rewrite (proj1 (E d)), (proj2 (E d)). apply Hph.
    + intros d i Hi. rewrite (proj2 (E d)). now apply Hown.
  - (* an inherited copy goes away: may drop the entry of a closed description *)
    destruct Hinv as [Htab Hph Hown].
    set (i := ca_ino (cfg c)).
    assert (Ef : forall d, fds (os_dupclose i c (st_os s)) d = fds (st_os s) d).
    { intros d. unfold os_dupclose. destruct (refs (st_os s) c); reflexivity. }
    assert (El : ltab (os_dupclose i c (st_os s)) = ltab (st_os s) \/
                 (fds (st_os s) c = None /\
                  ltab (os_dupclose i c (st_os s)) = upd (ltab (st_os s)) i (drop c (ltab (st_os s) i)))).
    { unfold os_dupclose. destruct (refs (st_os s) c) as [|[|n]]; simpl; auto.
      destruct (fds (st_os s) c); auto. }
    destruct El as [El|[Hc El]].
    + split; simpl.
      * intros j. rewrite El. apply Htab.
      * intros d. unfold cphase_a. simpl. rewrite Ef, El. apply Hph.
      * intros d j Hj. rewrite El. now apply Hown.
    + assert (Hcl : locked c (ltab (st_os s) i) = None).
      { pose proof (Hph c) as H. unfold cphase_a in H. rewrite Hc in H. simpl in H.
        eapply phase_closed_unlocked_a. exact H. }
      assert (Hsame : forall d j, locked d (ltab (os_dupclose i c (st_os s)) j)
                                  = locked d (ltab (st_os s) j)).
      { intros d j. rewrite El. destruct (Nat.eq_dec j i) as [->|Hj].
        - rewrite upd_same. destruct (Nat.eq_dec d c) as [->|Hd].
          + now rewrite locked_drop_same.
          + now apply locked_drop_other.
        - now rewrite upd_other. }
      split; simpl.
      * intros j. rewrite El. destruct (Nat.eq_dec j i) as [->|Hj].
        -- rewrite upd_same. apply ltab_ok_drop, Htab.
        -- rewrite upd_other by assumption. apply Htab.
      * intros d. unfold cphase_a. simpl. rewrite Ef, Hsame. apply Hph.
      * intros d j Hj. rewrite Hsame. now apply Hown.
Qed.

Lemma inv06_init_a cfg f : inv06_a cfg (init_state_a cfg f).
Proof.
  split; simpl.
  - intros i. apply ltab_ok_nil.
  - intros c. unfold cphase_a. simpl. apply ph_start_a.
  - reflexivity.
Qed.

Lemma inv06_run_a cfg s sched : wf_cfg_a cfg -> inv06_a cfg s -> inv06_a cfg (run_a cfg s sched).
Proof.
  intros Hwf. revert s. unfold run. induction sched as [|e sched IH]; simpl; intros s Hs; [exact Hs|].
  apply IH. now apply inv06_exec_a.
Qed.

Lemma inv06_reachable_a cfg f sched : wf_cfg_a cfg -> inv06_a cfg (run_a cfg (init_state_a cfg f) sched).
Proof. intros Hwf. apply inv06_run_a; [exact Hwf|apply inv06_init_a]. Qed.

(* ------------------------------------------------------------------ the theorems of C06 *)

Definition reachable_a (cfg : nat -> client_a) (f : nat -> option bytes) (s : state) : Prop :=
  exists sched, s = run_a cfg (init_state_a cfg f) sched.

Lemma inv06_of_reachable_a cfg f s : wf_cfg_a cfg -> reachable_a cfg f s -> inv06_a cfg s.
Proof. intros Hwf [sched ->]. now apply inv06_reachable_a. Qed.

Lemma phase_cs_locked_a a fl b p o l : phase_a a fl b p o l SInCS -> exists m, lock_mode_of_flags fl = Some m /\ l = Some m.
Proof.
  intros H. inversion H; subst; try congruence; eauto.
Qed.

(* held from the return of the locking call until Close is called *)
Theorem held_until_close_a cfg f s c :
  wf_cfg_a cfg -> reachable_a cfg f s -> in_cs s c ->
  exists m, mode_of_a cfg c = Some m /\ holds_lock_a cfg s c m.
Proof.
  intros Hwf Hr Hcs. pose proof (inv06_of_reachable_a _ _ _ Hwf Hr) as [Htab Hph _].
  specialize (Hph c). unfold cphase_a in Hph. red in Hcs. rewrite Hcs in Hph.
  destruct (phase_cs_locked_a _ _ _ _ _ _ Hph) as [m [Hm Hl]].
  exists m. split; [exact Hm|]. unfold holds_lock.
  apply holds_locked; [apply Htab|exact Hl].
Qed.

(* two clients inside their critical sections on one inode are both readers *)
Theorem exclusion_a cfg f s c d :
  wf_cfg_a cfg -> reachable_a cfg f s ->
  c <> d -> ca_ino (cfg c) = ca_ino (cfg d) -> in_cs s c -> in_cs s d ->
  mode_of_a cfg c = Some LSh /\ mode_of_a cfg d = Some LSh.
Proof.
  intros Hwf Hr Hcd Hino Hc Hd.
  pose proof (inv06_of_reachable_a _ _ _ Hwf Hr) as [Htab _ _].
  destruct (held_until_close_a cfg f s c Hwf Hr Hc) as [mc [Hmc Hhc]].
  destruct (held_until_close_a cfg f s d Hwf Hr Hd) as [md [Hmd Hhd]].
  unfold holds_lock_a in *. rewrite <- Hino in Hhd.
  set (l := ltab (st_os s) (ca_ino (cfg c))) in *.
  destruct (Htab (ca_ino (cfg c))) as [Hnd Hex]. fold l in Hnd, Hex.
  apply (holds_locked _ _ _ Hnd) in Hhc. apply (holds_locked _ _ _ Hnd) in Hhd.
  apply locked_In in Hhc. apply locked_In in Hhd.
  rewrite Hmc, Hmd.
  destruct mc, md; auto; exfalso; apply Hcd;
    first [eapply Hex; eassumption | symmetry; eapply Hex; eassumption].
Qed.

Corollary writer_excludes_all_a cfg f s c d :
  wf_cfg_a cfg -> reachable_a cfg f s ->
  c <> d -> ca_ino (cfg c) = ca_ino (cfg d) ->
  mode_of_a cfg c = Some LEx -> in_cs s c -> ~ in_cs s d.
Proof.
  intros Hwf Hr Hcd Hino Hm Hc Hd.
  destruct (exclusion_a cfg f s c d Hwf Hr Hcd Hino Hc Hd) as [E _]. congruence.
Qed.

Lemma phase_mark_or_flock_locked_a a fl b p o l st :
  phase_a a fl b p o l st ->
  match p with Do (OMark MReturned) _ | Do (OFlock _) _ => True | _ => False end ->
  exists m, lock_mode_of_flags fl = Some m /\ l = Some m.
Proof.
  destruct 1; eauto; unfold client_prog_a, open_file_prog_a, lock_stage, flock_step; simpl; contradiction.
Qed.

(* the lock is also in the table before the call returns and until the unlock step of Close *)
Theorem held_from_before_return_to_unlock_a cfg f s c :
  wf_cfg_a cfg -> reachable_a cfg f s ->
  (progs s c = after_open (body_of_call (ca_call (cfg c))) \/ in_cs s c \/
   exists x, progs s c = close_prog (Ret x)) ->
  exists m, mode_of_a cfg c = Some m /\ holds_lock_a cfg s c m.
Proof.
  intros Hwf Hr Hcase. pose proof (inv06_of_reachable_a _ _ _ Hwf Hr) as [Htab Hph _].
  destruct Hcase as [Hp|[Hcs|[x Hp]]]; [| now apply (held_until_close_a cfg f) |];
  specialize (Hph c); unfold cphase_a in Hph;
  (destruct (phase_mark_or_flock_locked_a _ _ _ _ _ _ _ Hph) as [m [Hm Hl]]; [rewrite Hp; exact I|]);
  exists m; (split; [exact Hm|]);
  unfold holds_lock_a; apply holds_locked; try apply Htab; exact Hl.
Qed.


(* ... and released by Close: a call that has returned holds nothing anywhere, whatever
   descriptors child processes inherited in the meantime *)
Theorem released_by_close_a cfg f s c r :
  wf_cfg_a cfg -> reachable_a cfg f s -> returned s c r ->
  forall i k, holds c k (ltab (st_os s) i) = false.
Proof.
  intros Hwf Hr Hret i k. pose proof (inv06_of_reachable_a _ _ _ Hwf Hr) as [_ Hph Hown].
  apply locked_None_holds. destruct (Nat.eq_dec i (ca_ino (cfg c))) as [->|Hi]; [|now apply Hown].
  specialize (Hph c). unfold cphase_a in Hph. red in Hret. rewrite Hret in Hph.
  assert (forall a fl b p o l st, phase_a a fl b p o l st -> is_ret p = true -> l = None) as Hgen.
  { destruct 1; try reflexivity; unfold client_prog_a, open_file_prog_a, lock_stage, flock_step,
      trunc_fail_prog, after_open, close_prog; simpl; try discriminate.
    - unfold trunc_stage_a. destruct (has_flag _ _); simpl; discriminate.
    - destruct H0; simpl; discriminate. }
  eapply Hgen; [exact Hph|reflexivity].
Qed.


Lemma phase_io_locked_a a fl b p o l st :
  phase_a a fl b p o l st ->
  (exists x, first_op p = Some x /\ is_io x = true) ->
  exists m, lock_mode_of_flags fl = Some m /\ l = Some m.
Proof.
  destruct 1; eauto; unfold client_prog_a, open_file_prog_a, lock_stage, flock_step; simpl;
    intros [y [Hy Hio]]; try discriminate Hy; injection Hy as <-; discriminate Hio.
Qed.

(* every read, write or truncate of the file happens while the client's lock is in the table;
   in particular the ftruncate that implements O_TRUNC comes after the successful flock *)
Theorem io_under_lock_a cfg f s c o :
  wf_cfg_a cfg -> reachable_a cfg f s ->
  first_op (progs s c) = Some o -> is_io o = true ->
  exists m, mode_of_a cfg c = Some m /\ holds_lock_a cfg s c m.
Proof.
  intros Hwf Hr Hop Hio. pose proof (inv06_of_reachable_a _ _ _ Hwf Hr) as [Htab Hph _].
  specialize (Hph c). unfold cphase_a in Hph.
  destruct (phase_io_locked_a _ _ _ _ _ _ _ Hph) as [m [Hm Hl]]; [eauto|].
  exists m. split; [exact Hm|]. unfold holds_lock. apply holds_locked; [apply Htab|exact Hl].
Qed.

Lemma phase_open_no_trunc_a a fl b p o l st fl' :
  phase_a a fl b p o l st -> first_op p = Some (OOpen fl') -> has_flag fl' sys_O_TRUNC = false.
Proof.
  destruct 1; unfold client_prog_a, open_file_prog_a, lock_stage, flock_step, trunc_fail_prog,
    after_open, close_prog; simpl; try discriminate.
  - intros [= <-]. apply strip_has_flag. discriminate.
  - unfold trunc_stage_a. destruct (has_flag _ _); simpl; discriminate.
  - destruct H0 as [x|o' k Hio _]; simpl; [discriminate|].
    intros [= ->]. discriminate Hio.
Qed.

(* no open of any call carries O_TRUNC, whatever flags the caller passed *)
Theorem open_never_truncates_a cfg f s c fl' :
  wf_cfg_a cfg -> reachable_a cfg f s ->
  first_op (progs s c) = Some (OOpen fl') -> has_flag fl' sys_O_TRUNC = false.
Proof.
  intros Hwf Hr Hop. pose proof (inv06_of_reachable_a _ _ _ Hwf Hr) as [_ Hph _].
  eapply phase_open_no_trunc_a; [apply (Hph c)|exact Hop].
Qed.

Theorem no_truncate_before_lock_a cfg f s c :
  wf_cfg_a cfg -> reachable_a cfg f s ->
  (forall fl', first_op (progs s c) = Some (OOpen fl') -> has_flag fl' sys_O_TRUNC = false) /\
  (forall n, first_op (progs s c) = Some (OFtruncate n) ->
             exists m, mode_of_a cfg c = Some m /\ holds_lock_a cfg s c m).
Proof.
  intros Hwf Hr. split.
  - intros fl'. now apply (open_never_truncates_a cfg f).
  - intros n Hop. now apply (io_under_lock_a cfg f s c (OFtruncate n)).
Qed.


(* ------------------------------------------------------------------ the plain model is the special case *)

Definition lift (cfg : nat -> client) (c : nat) : client_a :=
  {| ca_ino := c_ino (cfg c); ca_call := c_call (cfg c); ca_attr := default_attr |}.

Lemma prog_of_call_a_default c : prog_of_call_a default_attr c = prog_of_call c.
Proof. reflexivity. Qed.

Lemma init_state_a_lift cfg f : init_state_a (lift cfg) f = init_state cfg f.
Proof. reflexivity. Qed.

Lemma run_client_a_lift cfg c e s : run_client_a (lift cfg) c e s = run_client cfg c e s.
Proof.
  unfold run_client_a, run_client. simpl.
  destruct (progs s c) as [x|o k|o k]; try reflexivity; now rewrite os_step_a_default.
Qed.

Lemma exec_a_lift cfg s e : exec_a (lift cfg) s e = exec cfg s e.
Proof. destruct e; simpl; try apply run_client_a_lift; reflexivity. Qed.

Lemma run_a_lift cfg s sched : run_a (lift cfg) s sched = run cfg s sched.
Proof.
  revert s. unfold run_a, run. induction sched as [|e l IH]; intros s; simpl; [reflexivity|].
  now rewrite exec_a_lift.
Qed.

Theorem reachable_lift cfg f s : reachable cfg f s <-> reachable_a (lift cfg) f s.
Proof.
  unfold reachable, reachable_a. split; intros [sched ->]; exists sched.
  - now rewrite run_a_lift, init_state_a_lift.
  - now rewrite run_a_lift, init_state_a_lift.
Qed.

(* ------------------------------------------------------------------ non-regular files *)

Definition nonregular : attr := {| a_regular := false; a_can_read := true; a_can_write := true |}.

(* Create on a FIFO / device node: the Truncate fails, the error is ignored, and the caller's
   critical section runs with the exclusive lock in the table; Close releases it *)
Theorem create_on_nonregular old :
  match run_seq_a nonregular 0 0 (prog_of_call_a nonregular (CCreate (Ret ResOk))) no_faults 0
                  (os_with (Some old)) with
  | (tr, out, s') =>
      tr = [(OOpen (strip create_flags openfile_strip_mask), ROk); (OFlock sys_LOCK_EX, ROk);
            (OFtruncate (N.to_nat truncate_size), RErr); (OMark MReturned, ROk);
            (OMark MCloseCalled, ROk); (OFlock sys_LOCK_UN, ROk); (OClose, ROk)] /\
      out = Finished ResOk /\ files s' 0 = Some old /\ ltab s' 0 = [] /\ fds s' 0 = None
  end.
Proof. cbv. repeat split. Qed.

(* in every schedule: a client whose file is not regular and whose flags carry O_TRUNC is, like
   everybody, covered by exclusion_a / held_until_close_a; in particular when its Truncate has
   failed and the call is about to return, the lock is in the table *)
Theorem nonregular_returned_locked cfg f s c :
  wf_cfg_a cfg -> reachable_a cfg f s ->
  a_regular (ca_attr (cfg c)) = false ->
  progs s c = after_open (body_of_call (ca_call (cfg c))) ->
  exists m, mode_of_a cfg c = Some m /\ holds_lock_a cfg s c m.
Proof.
  intros Hwf Hr _ Hp. apply (held_from_before_return_to_unlock_a cfg f s c Hwf Hr). now left.
Qed.

(* ------------------------------------------------------------------ no access *)

(* an unprivileged caller and a lock file it may read but not write *)
Definition readonly : attr := {| a_regular := true; a_can_read := true; a_can_write := false |}.

Theorem mutex_on_readonly_lock_file b0 :
  match run_seq_a readonly 0 0 (prog_of_call_a readonly CMutex) no_faults 0 (os_with (Some b0)) with
  | (tr, out, s') =>
      tr = [(OOpen (strip mutex_flags openfile_strip_mask), RErr)] /\ out = Finished ResErr /\
      ltab s' 0 = [] /\ fds s' 0 = None
  end.
Proof. cbv. repeat split. Qed.

Lemma os_step_files_exist i c o flt e s r s' j :
  os_step i c o flt e s = Some (r, s') -> files s j <> None -> files s' j <> None.
Proof.
  intros H Hj. destruct (Nat.eq_dec j i) as [->|Hne];
    [|now rewrite (os_step_files_other_inode _ _ _ _ _ _ _ _ j H Hne)].
  unfold os_step in H. destruct o; os_inv H; simpl; rewrite ?upd_same; try assumption; try congruence.
Qed.

(* in every schedule: if the open is refused, the client never holds a lock and never enters a
   critical section; it can only return the error *)
Theorem denied_client_never_locks cfg f sched c :
  let s := run_a cfg (init_state_a cfg f) sched in
  f (ca_ino (cfg c)) <> None ->
  open_denied (ca_attr (cfg c)) (strip (flags_of_call (ca_call (cfg c))) openfile_strip_mask) = true ->
  (progs s c = prog_of_call_a (ca_attr (cfg c)) (ca_call (cfg c)) \/ progs s c = Ret ResErr) /\
  fds (st_os s) c = None /\ status s c = SIdle /\ files (st_os s) (ca_ino (cfg c)) <> None.
Proof.
  intros s Hex Hden. subst s.
  set (P := fun s : state =>
    (progs s c = prog_of_call_a (ca_attr (cfg c)) (ca_call (cfg c)) \/ progs s c = Ret ResErr) /\
    fds (st_os s) c = None /\ status s c = SIdle /\ files (st_os s) (ca_ino (cfg c)) <> None).
  assert (Hstep : forall s e, P s -> P (exec_a cfg s e)).
  { intros s e [Hp [Hf [Hst Hfi]]].
    assert (Hrc : forall d eintr, P (run_client_a cfg d eintr s)).
    { intros d eintr. destruct (Nat.eq_dec d c) as [->|Hd].
      - unfold run_client_a. destruct Hp as [Hp|Hp]; rewrite Hp.
        + unfold prog_of_call_a, client_prog_a, open_file_prog_a, os_step_a.
          destruct (files (st_os s) (ca_ino (cfg c))) eqn:Ef; [|now elim Hfi].
          rewrite Hden. unfold P. simpl. rewrite !upd_same, Hf, Hst, Ef.
          repeat split; auto.
        + unfold P. simpl. rewrite Hp, Hf, Hst. auto.
      - destruct (run_client_other_a cfg d eintr s c (not_eq_sym Hd)) as [E1 E2].
        unfold P. rewrite E1, E2.
        destruct (run_client_os_a cfg d eintr s) as [E|[o [r Hos]]].
        + rewrite E. auto.
        + rewrite (os_step_fds_other _ _ _ _ _ _ _ _ c Hos (not_eq_sym Hd)).
          repeat split; auto. eapply os_step_files_exist; eassumption. }
    destruct e as [d|d|d|d]; simpl; try apply Hrc.
    - unfold P. simpl. unfold os_dup. destruct (fds (st_os s) d); simpl; auto.
    - unfold P. simpl. unfold os_dupclose. destruct (refs (st_os s) d); simpl; auto. }
  assert (H0 : P (init_state_a cfg f)) by (unfold P; simpl; auto).
  assert (Hall : forall l s0, P s0 -> P (fold_left (exec_a cfg) l s0)).
  { induction l as [|e l IH]; intros s0 Hs0; simpl; [exact Hs0|]. apply IH. now apply Hstep. }
  exact (Hall sched _ H0).
Qed.

(* lockedfile (C06): the error paths of the locking calls under fault policies — no File is
   handed to the caller, and no call reports success, unless the lock request succeeded;
   Mutex.Lock in particular; and in every schedule a call that has returned holds no descriptor. *)
From Coq Require Import List NArith Arith Bool Lia.
From Coq.Strings Require Import Byte.
From GI Require Import Gen.LockedFileConsts LockedFile.LockedFile LockedFile.LockBasics
  LockedFile.LockProofs.
From GI Require Import LockedFile.Policy LockedFile.PolicyProofs.
Import ListNotations.

Arguments os_step : simpl never.

Section LockFirst.
Variables (i c : nat).

Definition hist_of (x : history * outcome * os) : history := fst (fst x).
Definition out_of (x : history * outcome * os) : outcome := snd (fst x).

(* a run only adds to the history *)
Lemma run_pol_extends p : forall pol h s, exists l, hist_of (run_pol i c p pol h s) = l ++ h.
Proof.
  induction p as [r|o k IH|o k IH]; intros pol h s; cbn [run_pol].
  - exists []. reflexivity.
  - destruct (os_step_f i c o _ false s) as [[r s']|]; [|exists []; reflexivity].
    destruct (IH r pol ((o, r) :: h) s') as [l Hl]. exists (l ++ [(o, r)]).
    rewrite Hl. now rewrite <- app_assoc.
  - destruct (os_step_f i c o _ false s) as [[r s']|]; [|exists []; reflexivity].
    destruct r; try (exists []; reflexivity);
    match goal with |- context [run_pol i c (k ?r) pol ((o, ?r) :: h) s'] =>
      destruct (IH r pol ((o, r) :: h) s') as [l Hl]; exists (l ++ [(o, r)]);
      rewrite Hl; now rewrite <- app_assoc end.
Qed.

Lemma run_pol_keeps p pol h s x : In x h -> In x (hist_of (run_pol i c p pol h s)).
Proof.
  intros H. destruct (run_pol_extends p pol h s) as [l ->]. apply in_or_app. now right.
Qed.

Definition is_markret (o : op) : bool := match o with OMark MReturned => true | _ => false end.

(* programs that never hand a File to the caller and can only fail *)
Inductive errquiet : prog -> Prop :=
| eq_ret : errquiet (Ret ResErr)
| eq_do o k : is_markret o = false -> (forall r, errquiet (k r)) -> errquiet (Do o k)
| eq_retry o k : is_markret o = false -> (forall r, errquiet (k r)) -> errquiet (Retry o k).

Definition no_new_return (h h' : history) : Prop :=
  forall r0, In (OMark MReturned, r0) h' -> In (OMark MReturned, r0) h.

Lemma in_cons_not_markret o r r0 (h : history) :
  is_markret o = false -> In (OMark MReturned, r0) ((o, r) :: h) -> In (OMark MReturned, r0) h.
Proof. intros Ho [E|H]; [|exact H]. injection E as -> _. discriminate Ho. Qed.

Lemma errquiet_run p : errquiet p -> forall pol h s,
  let x := run_pol i c p pol h s in
  (out_of x = Finished ResErr \/ out_of x = Blocked) /\ no_new_return h (hist_of x).
Proof.
  induction 1 as [|o k Ho _ IH|o k Ho _ IH]; intros pol h s; cbn [run_pol].
  - split; [now left|intros r0 Hr; exact Hr].
  - destruct (os_step_f i c o _ false s) as [[r s']|]; [|split; [now right|intros r0 Hr; exact Hr]].
    destruct (IH r pol ((o, r) :: h) s') as [Hout Hn]. split; [exact Hout|].
    intros r0 Hr. apply (in_cons_not_markret o r r0 h Ho). now apply Hn.
  - destruct (os_step_f i c o _ false s) as [[r s']|]; [|split; [now right|intros r0 Hr; exact Hr]].
    destruct r; try (split; [now right|intros r0 Hr; exact Hr]);
    match goal with |- context [run_pol i c (k ?r) pol ((o, ?r) :: h) s'] =>
      destruct (IH r pol ((o, r) :: h) s') as [Hout Hn]; (split; [exact Hout|]);
      intros r0 Hr; apply (in_cons_not_markret o r r0 h Ho); now apply Hn end.
Qed.

Section One.
Variable how : N.   (* the lock request of the call *)

(* either the lock request succeeded, or the call failed (or blocked) and never handed out a File *)
Definition lockfirst (p : prog) : Prop :=
  forall pol h s,
    let x := run_pol i c p pol h s in
    In (OFlock how, ROk) (hist_of x) \/
    ((out_of x = Finished ResErr \/ out_of x = Blocked) /\ no_new_return h (hist_of x)).

Lemma lockfirst_errquiet p : errquiet p -> lockfirst p.
Proof. intros H pol h s. right. now apply errquiet_run. Qed.

Lemma lockfirst_do o k : is_markret o = false -> (forall r, lockfirst (k r)) -> lockfirst (Do o k).
Proof.
  intros Ho Hk pol h s. cbn [run_pol].
  destruct (os_step_f i c o _ false s) as [[r s']|];
    [|right; split; [now right|intros r0 Hr; exact Hr]].
  destruct (Hk r pol ((o, r) :: h) s') as [Hl|[Hout Hn]]; [now left|right]. split; [exact Hout|].
  intros r0 Hr. apply (in_cons_not_markret o r r0 h Ho). now apply Hn.
Qed.

(* the lock request itself: whatever follows a success, only failure follows anything else *)
Lemma lockfirst_lock k :
  (forall r, r <> ROk -> errquiet (k r)) ->
  lockfirst (Do (OFlock how) k) /\ lockfirst (Retry (OFlock how) k).
Proof.
  intros Hk.
  assert (Hgen : forall r pol h s',
            let x := run_pol i c (k r) pol ((OFlock how, r) :: h) s' in
            In (OFlock how, ROk) (hist_of x) \/
            ((out_of x = Finished ResErr \/ out_of x = Blocked) /\ no_new_return h (hist_of x))).
  { intros r pol h s'. destruct r.
    - left. apply run_pol_keeps. now left.
    - right. destruct (errquiet_run _ (Hk RErr ltac:(discriminate)) pol ((OFlock how, RErr) :: h) s') as [Ho Hn].
      split; [exact Ho|]. intros r0 Hr. apply (in_cons_not_markret (OFlock how) RErr r0 h eq_refl). now apply Hn.
    - right. destruct (errquiet_run _ (Hk REintr ltac:(discriminate)) pol ((OFlock how, REintr) :: h) s') as [Ho Hn].
      split; [exact Ho|]. intros r0 Hr. apply (in_cons_not_markret (OFlock how) REintr r0 h eq_refl). now apply Hn.
    - right. destruct (errquiet_run _ (Hk (RData b) ltac:(discriminate)) pol ((OFlock how, RData b) :: h) s') as [Ho Hn].
      split; [exact Ho|]. intros r0 Hr. apply (in_cons_not_markret (OFlock how) (RData b) r0 h eq_refl). now apply Hn. }
  split; intros pol h s; cbn [run_pol];
  (destruct (os_step_f i c (OFlock how) _ false s) as [[r s']|];
     [|right; split; [now right|intros r0 Hr; exact Hr]]).
  - apply Hgen.
  - destruct r; try apply Hgen. right. split; [now right|intros r0 Hr; exact Hr].
Qed.

End One.

Lemma errquiet_close : errquiet (Do OClose (fun _ => Ret ResErr)).
Proof. constructor; [reflexivity|]. intros _. constructor. Qed.

Lemma errquiet_trunc_fail : errquiet (trunc_fail_prog (Ret ResErr)).
Proof.
  unfold trunc_fail_prog. destruct truncate_failure_unlocks_first;
  (constructor; [reflexivity|]; intros _; constructor; [reflexivity|]; intros _; constructor).
Qed.

Lemma lockfirst_lock_stage fl k : k false = Ret ResErr ->
  lockfirst (lock_arg_of_flags fl) (lock_stage fl k).
Proof.
  intros Hk. unfold lock_stage, flock_step.
  assert (H : forall r, r <> ROk ->
            errquiet (match r with ROk => k true | _ => Do OClose (fun _ => k false) end)).
  { intros r Hr. rewrite Hk. destruct r; try (now elim Hr); apply errquiet_close. }
  destruct lock_retries_eintr; now apply lockfirst_lock.
Qed.

Theorem client_lockfirst fl b : lockfirst (lock_arg_of_flags fl) (client_prog fl b).
Proof.
  unfold client_prog, open_file_prog. apply lockfirst_do; [reflexivity|].
  intros r. destruct r; try solve [apply lockfirst_errquiet; constructor].
  destruct truncate_after_lock.
  - apply lockfirst_lock_stage. reflexivity.
  - unfold trunc_stage. destruct (has_flag fl truncate_cond_mask).
    + apply lockfirst_do; [reflexivity|]. intros r.
      destruct r; try solve [apply lockfirst_errquiet; apply errquiet_trunc_fail].
      apply lockfirst_lock_stage. reflexivity.
    + apply lockfirst_lock_stage. reflexivity.
Qed.

End LockFirst.

(* Under ANY fault policy, from any OS state: either the call's lock request succeeded, or the
   call failed (or is blocked) and never handed a File to its caller *)
Theorem no_file_without_lock i c fl b pol s :
  match run_pol i c (client_prog fl b) pol [] s with
  | (h', out, _) =>
      In (OFlock (lock_arg_of_flags fl), ROk) h' \/
      ((out = Finished ResErr \/ out = Blocked) /\ forall r0, ~ In (OMark MReturned, r0) h')
  end.
Proof.
  pose proof (client_lockfirst i c fl b pol [] s) as H. cbv zeta in H.
  unfold hist_of, out_of in H.
  destruct (run_pol i c (client_prog fl b) pol [] s) as [[h' out] s']. simpl in H.
  destruct H as [H|[Ho Hn]]; [now left|right]. split; [exact Ho|].
  intros r0 Hr. exact (Hn r0 Hr).
Qed.

(* Mutex.Lock: a nil error means the exclusive lock was granted — whatever else failed *)
Theorem mutex_success_means_locked i c pol s :
  match run_pol i c (prog_of_call CMutex) pol [] s with
  | (h', out, _) => out = Finished ResOk -> In (OFlock sys_LOCK_EX, ROk) h'
  end.
Proof.
  pose proof (no_file_without_lock i c mutex_flags (Ret ResOk) pol s) as H.
  change (prog_of_call CMutex) with (client_prog mutex_flags (Ret ResOk)).
  destruct (run_pol i c (client_prog mutex_flags (Ret ResOk)) pol [] s) as [[h' out] s'].
  intros Ho. destruct H as [H|[[H|H] _]]; [exact H| |]; rewrite Ho in H; discriminate H.
Qed.

(* the same for every write-locking API call: success only with LOCK_EX granted *)
Theorem write_call_success_means_locked i c (cl : call) pol s :
  lock_mode_of_flags (flags_of_call cl) = Some LEx ->
  match run_pol i c (prog_of_call cl) pol [] s with
  | (h', out, _) =>
      (exists r, out = Finished r /\ r <> ResErr) -> In (OFlock sys_LOCK_EX, ROk) h'
  end.
Proof.
  intros Hm.
  pose proof (no_file_without_lock i c (flags_of_call cl) (body_of_call cl) pol s) as H.
  unfold prog_of_call.
  destruct (run_pol i c (client_prog (flags_of_call cl) (body_of_call cl)) pol [] s) as [[h' out] s'].
  intros [r [Ho Hr]].
  assert (Ha : lock_arg_of_flags (flags_of_call cl) = sys_LOCK_EX).
  { unfold lock_mode_of_flags in Hm. destruct (lock_arg_cases (flags_of_call cl)) as [E|E]; rewrite E in *.
    - reflexivity.
    - discriminate Hm. }
  rewrite Ha in H. destruct H as [H|[[H|H] _]]; [exact H| |]; rewrite Ho in H.
  - injection H as ->. now elim Hr.
  - discriminate H.
Qed.

(* ------------------------------------------------------------------ every schedule: returned => no descriptor *)

Theorem returned_closed cfg f s c r :
  wf_cfg cfg -> reachable cfg f s -> returned s c r -> fds (st_os s) c = None.
Proof.
  intros Hwf Hr Hret. pose proof (inv06_of_reachable _ _ _ Hwf Hr) as [_ Hph _].
  specialize (Hph c). unfold cphase in Hph. red in Hret. rewrite Hret in Hph.
  assert (forall fl b p o l st, phase fl b p o l st -> is_ret p = true -> o = false) as Hgen.
  { destruct 1; try reflexivity; unfold client_prog, open_file_prog, lock_stage, flock_step,
      trunc_fail_prog, after_open, close_prog; simpl; try discriminate.
    - unfold trunc_stage. destruct (has_flag _ _); simpl; discriminate.
    - destruct H0; simpl; discriminate. }
  pose proof (Hgen _ _ _ _ _ _ Hph eq_refl) as Ho.
  destruct (fds (st_os s) c); [discriminate Ho|reflexivity].
Qed.

(* ------------------------------------------------------------------ the path keeps naming the file *)

(* The model gives every client ONE inode for its path: no operation of any program unlinks,
   renames or replaces a file (the lock lives on the inode, so this is what makes a lock on a
   path meaningful).  Spelled out: an existing file exists after every step, under every policy
   and in every schedule.  The runner checks the same of the code after every call (dev/inode
   of the path before and after). *)
Lemma os_step_keeps_file i c o flt e s r s' j :
  os_step i c o flt e s = Some (r, s') -> files s j <> None -> files s' j <> None.
Proof.
  intros H Hj. unfold os_step in H.
  destruct o; os_inv H; simpl; auto; unfold upd; destruct (Nat.eqb j i); auto; discriminate.
Qed.

Lemma osf_keeps_file i c o flt e s r s' j :
  os_step_f i c o flt e s = Some (r, s') -> files s j <> None -> files s' j <> None.
Proof.
  intros H Hj. destruct flt; simpl in H; try (now apply (os_step_keeps_file _ _ _ _ _ _ _ _ j H));
  destruct o; try (injection H as <- <-; exact Hj);
  try (now apply (os_step_keeps_file _ _ _ _ _ _ _ _ j H));
  (destruct (os_step i c OClose FNone e s) as [[r0 s0]|] eqn:E; [|discriminate H];
   injection H as <- <-; now apply (os_step_keeps_file _ _ _ _ _ _ _ _ j E)).
Qed.

Theorem file_never_removed i c p pol : forall h s j,
  files s j <> None ->
  match run_pol i c p pol h s with (_, _, s') => files s' j <> None end.
Proof.
  induction p as [r|o k IH|o k IH]; intros h s j Hj; cbn [run_pol]; auto.
  - destruct (os_step_f i c o _ false s) as [[r s']|] eqn:E; [|exact Hj].
    apply IH. now apply (osf_keeps_file _ _ _ _ _ _ _ _ j E).
  - destruct (os_step_f i c o _ false s) as [[r s']|] eqn:E; [|exact Hj].
    pose proof (osf_keeps_file _ _ _ _ _ _ _ _ j E Hj) as Hj'.
    destruct r; try exact Hj; now apply IH.
Qed.

Theorem file_never_removed_sched cfg f s j :
  reachable cfg f s -> f j <> None -> files (st_os s) j <> None.
Proof.
  intros [sched ->] Hj.
  assert (Hgen : forall sc s0, files (st_os s0) j <> None -> files (st_os (run cfg s0 sc)) j <> None).
  { intros sc. induction sc as [|e sc IH]; intros s0 H0; [exact H0|]. simpl. apply IH.
    destruct e as [c|c|c|c]; simpl.
    - unfold run_client. destruct (progs s0 c) as [x|o k|o k]; simpl; auto;
      destruct (os_step (c_ino (cfg c)) c o FNone false (st_os s0)) as [[r o2]|] eqn:E; simpl; auto;
      try (destruct r); simpl; now apply (os_step_keeps_file _ _ _ _ _ _ _ _ j E).
    - unfold run_client. destruct (progs s0 c) as [x|o k|o k]; simpl; auto;
      destruct (os_step (c_ino (cfg c)) c o FNone true (st_os s0)) as [[r o2]|] eqn:E; simpl; auto;
      try (destruct r); simpl; now apply (os_step_keeps_file _ _ _ _ _ _ _ _ j E).
    - unfold os_dup. destruct (fds (st_os s0) c); exact H0.
    - unfold os_dupclose. destruct (refs (st_os s0) c); exact H0. }
  now apply Hgen.
Qed.

(* non-vacuity: the lock request fails, nothing is handed out; and a granted Mutex *)
Example lock_failure_hands_out_nothing :
  match run_pol 0 0 (prog_of_call (CEdit (Ret ResOk)))
                (class_pol (fun k => match k with KFlock => {| cs_first := 1; cs_all := false |} | _ => cs_never end))
                [] (os_with (Some [x61])) with
  | (h, out, s') => out = Finished ResErr /\ (forall r0, ~ In (OMark MReturned, r0) h) /\ fds s' 0 = None
  end.
Proof.
  vm_compute. repeat split. intros r0 H. repeat (destruct H as [H|H]; [discriminate H|]). exact H.
Qed.

Example mutex_granted :
  match run_pol 0 0 (prog_of_call CMutex) no_fault_pol [] (os_with None) with
  | (h, out, _) => out = Finished ResOk /\ In (OFlock sys_LOCK_EX, ROk) h
  end.
Proof. vm_compute. split; [reflexivity|]. auto 10. Qed.

(* lockedfile (C06, C07): the translated Go functions of Gen/LockedFileSrc.v run ON THE MODEL'S
   OPERATING SYSTEM.  The abstract operations of SrcLib.os_ops are instantiated with the OS model
   of LockedFile.v under a fault policy (Policy.v): [model_ops i c pol'] is an operating system in
   which client c's path names inode i, every operation acts as LockedFile.os_step says and
   suffers the fault the policy chooses from the history of the operations the call has really
   made so far.  By the equalities of SrcFacts.v a translated function run on it is Policy.run_pol
   of the hand-written program term, so every theorem about run_pol is a theorem about what the
   SOURCE does on that operating system. *)
From Coq Require Import List NArith ZArith Bool Lia.
From Coq.Strings Require Import Byte.
From GI Require Import Lib.Bytes Lib.GoSem Lib.GoSemWorld.
From GI Require Import Gen.LockedFileConsts LockedFile.LockedFile LockedFile.LockedFileA LockedFile.LockBasics.
From GI Require Import LockedFile.Policy.
From GI Require Import LockedFile.SrcLib.
Import ListNotations.
Import GoNotations.
Local Open Scope go_scope.

(* the ghost marks are not operations of the operating system: a real policy cannot see them *)
Definition is_real (x : op * LockedFile.res) : bool :=
  match fst x with OMark _ => false | _ => true end.
Definition strip_marks (h : Policy.history) : Policy.history := filter is_real h.

Section Model.
Variables i c : nat.
Variable pol' : policy.          (* sees the history of the operations really made *)

(* the error value the model OS reports for a result *)
Definition merr (r : LockedFile.res) : werr :=
  match r with
  | ROk | RData _ => WNil
  | REintr => werr_EINTR
  | RErr => WVal [x45; x49; x4f]
  end.

Definition mworld : Type := (os * Policy.history)%type.

(* one operation of client c; an operation that would block for ever reports EINTR for ever *)
Definition mstep (o : op) (w : mworld) : mworld * LockedFile.res :=
  match os_step_f i c o (pol' (snd w) o (content_of (files (fst w) i)) (fds (fst w) c)) false (fst w) with
  | Some (r, s') => ((s', (o, r) :: snd w), r)
  | None => (w, REintr)
  end.

Definition model_ops : os_ops := {|
  World := mworld; Handle := unit; FileInfo := unit; nil_handle := tt; nil_fileinfo := tt;
  h_fd := fun _ => 0%Z; h_name := fun _ => []; fi_mode := fun _ => 0%Z; fm_is_regular := fun _ => true;
  os_open := fun w _ flag _ => match mstep (OOpen (Z.to_N flag)) w with (w', r) => (w', tt, merr r) end;
  sys_flock := fun w _ how => match mstep (OFlock (Z.to_N how)) w with (w', r) => (w', merr r) end;
  os_ftruncate := fun w _ n => match mstep (OFtruncate (Z.to_nat n)) w with (w', r) => (w', merr r) end;
  os_fstat := fun _ _ => (tt, WNil);
  os_close := fun w _ => match mstep OClose w with (w', r) => (w', merr r) end;
  os_read_all := fun w _ =>
    match mstep OReadAll w with (w', r) => (w', match r with RData b => b | _ => [] end, merr r) end;
  os_pwrite := fun w _ d off =>
    match mstep (OPWrite (Z.to_nat off) d) w with (w', r) => (w', 0%Z, merr r) end;
  os_write := fun w _ d => match mstep (OWrite d) w with (w', r) => (w', 0%Z, merr r) end
|}.

(* the results an operation of the model OS can have *)
Definition res_class (o : op) (r : LockedFile.res) : Prop :=
  match o with
  | OReadAll => (exists b, r = RData b) \/ r = RErr
  | OMark _ => r = ROk
  | _ => r = ROk \/ r = RErr
  end.

Lemma io_step_class : forall o flt b fd r b' fd', is_io o = true ->
  io_step o flt b fd = (r, b', fd') -> res_class o r.
Proof.
  intros o flt b fd r b' fd' Hio. destruct o; try discriminate; destruct flt; cbn;
    repeat match goal with |- context [if ?x then _ else _] => destruct x end;
    intro H; inversion H; subst; eauto.
Qed.

Lemma os_step_class : forall o flt s r s',
  os_step i c o flt false s = Some (r, s') -> res_class o r.
Proof.
  intros o flt s r s'.
  assert (Hio : forall o', (match fds s c with
                            | Some fd => match io_step o' flt (content_of (files s i)) fd with
                                         | (r0, b', fd') => Some (r0, {| files := upd (files s) i (Some b'); fds := upd (fds s) c (Some fd');
                                                                        refs := refs s; ltab := ltab s |}) end
                            | None => Some (RErr, s) end) = Some (r, s') -> is_io o' = true -> res_class o' r \/ r = RErr).
  { intros o'. destruct (fds s c) as [fd|]; [|intro H; inversion H; auto].
    destruct (io_step o' flt (content_of (files s i)) fd) as [[r0 b'] fd'] eqn:E. intro H; inversion H; subst.
    intro Hi. left. eapply io_step_class; eauto. }
  destruct o; cbn [os_step]; try (intro H; apply Hio in H; [|reflexivity]; destruct H as [H|H]; [exact H|subst; cbn; eauto]).
  - repeat match goal with
    | |- context [match ?x with _ => _ end] => destruct x
    | |- context [if ?x then _ else _] => destruct x
    end; intro H; inversion H; subst; cbn; eauto.
  - repeat match goal with
    | |- context [match ?x with _ => _ end] => destruct x
    | |- context [if ?x then _ else _] => destruct x
    end; intro H; inversion H; subst; cbn; eauto.
  - repeat match goal with
    | |- context [match ?x with _ => _ end] => destruct x
    | |- context [if ?x then _ else _] => destruct x
    end; intro H; inversion H; subst; cbn; eauto.
  - intro H; inversion H; subst; cbn; eauto.
Qed.

Lemma step_res_class : forall o flt s r s',
  os_step_f i c o flt false s = Some (r, s') -> res_class o r.
Proof.
  intros o flt s r s'. unfold os_step_f. destruct flt; try apply os_step_class.
  all: destruct o; try apply os_step_class; try (intro H; inversion H; subst; cbn; eauto; fail).
  all: destruct (os_step i c OClose FNone false s) as [[r0 s0]|]; intro H; inversion H; subst; cbn; eauto.
Qed.

Lemma unlock_step : forall flt s, exists r s',
  os_step_f i c (OFlock filelock_unlock_arg) flt false s = Some (r, s') /\ (r = ROk \/ r = RErr).
Proof. intros flt s. destruct flt; cbn; destruct (fds s c); eauto. Qed.

(* it is an operating system of the kind SrcFacts.v asks for *)
Lemma model_unlock_no_eintr : unlock_no_eintr model_ops.
Proof.
  intros w fd. cbn [sys_flock model_ops]. change (Z.to_N (Z.of_N filelock_unlock_arg)) with filelock_unlock_arg.
  unfold mstep.
  destruct (unlock_step (pol' (snd w) (OFlock filelock_unlock_arg) (content_of (files (fst w) i)) (fds (fst w) c)) (fst w))
    as (r & s' & Hs & [Hr|Hr]); rewrite Hs; subst r; reflexivity.
Qed.
Lemma model_stat_static : stat_static model_ops (a_regular default_attr).
Proof. intros w f. reflexivity. Qed.

Lemma osf_mark' : forall m flt e s, os_step_f i c (OMark m) flt e s = Some (ROk, s).
Proof. intros m flt e s. destruct flt; reflexivity. Qed.

(* only a lock request can block *)
Lemma step_none : forall o flt s, os_step_f i c o flt false s = None -> exists how, o = OFlock how.
Proof.
  intros o flt s. destruct o; try (intros _; eexists; reflexivity); destruct flt; cbv beta iota delta [os_step_f os_step io_step]; destruct (fds s c);
    repeat match goal with
    | |- context [match ?x with _ => _ end] => destruct x
    | |- context [if ?x then _ else _] => destruct x
    end; discriminate.
Qed.

(* an operation of the translated code on the model OS is the model's step *)
Lemma do_op_model : forall path perm o w, (forall m, o <> OMark m) ->
  match os_step_f i c o (pol' (snd w) o (content_of (files (fst w) i)) (fds (fst w) c)) false (fst w) with
  | Some (r, s') => exists e, do_op model_ops path perm o tt w = ((s', (o, r) :: snd w), tt, r, e)
  | None => exists e, do_op model_ops path perm o tt w = (w, tt, REintr, e)
  end.
Proof.
  intros path perm o w Hm.
  destruct (os_step_f i c o (pol' (snd w) o (content_of (files (fst w) i)) (fds (fst w) c)) false (fst w))
    as [[r s']|] eqn:E.
  - pose proof (step_res_class _ _ _ _ _ E) as Hc.
    destruct o; cbn [do_op model_ops os_open sys_flock os_ftruncate os_close os_read_all os_pwrite os_write h_fd];
      rewrite ?N2Z.id, ?Nat2Z.id; unfold mstep; try rewrite E; cbn in Hc.
    all: try (destruct Hc as [Hc|Hc]; subst r; eexists; reflexivity).
    + destruct Hc as [[b Hc]|Hc]; subst r; eexists; reflexivity.
    + exfalso. eapply Hm. reflexivity.
  - destruct (step_none _ _ _ E) as [how ->].
    cbn [do_op model_ops sys_flock h_fd]. rewrite N2Z.id. unfold mstep. rewrite E. eexists. reflexivity.
Qed.

(* programs in which only lock requests that are retried can block: every API call *)
Inductive safe_do : prog -> Prop :=
| sd_ret r : safe_do (Ret r)
| sd_do o k : (forall how, o = OFlock how -> how = filelock_unlock_arg) ->
              (forall r, safe_do (k r)) -> safe_do (Do o k)
| sd_retry o k : (forall r, safe_do (k r)) -> safe_do (Retry o k).

Variable pol : policy.           (* the same policy, over histories with the ghost marks *)
Hypothesis Hpol : forall h o b fd, pol h o b fd = pol' (strip_marks h) o b fd.

Lemma retry_model : forall path perm n o w, (forall m, o <> OMark m) ->
  match os_step_f i c o (pol' (snd w) o (content_of (files (fst w) i)) (fds (fst w) c)) false (fst w) with
  | Some (r, s') => r <> REintr ->
      exists e, retry_op model_ops path perm (S n) o tt w = Ok ((s', (o, r) :: snd w), tt, r, e)
  | None => retry_op model_ops path perm n o tt w = OutOfFuel
  end.
Proof.
  intros path perm n o w Hm. pose proof (do_op_model path perm o w Hm) as Hd.
  destruct (os_step_f i c o (pol' (snd w) o (content_of (files (fst w) i)) (fds (fst w) c)) false (fst w))
    as [[r s']|] eqn:E.
  - intros Hr. destruct Hd as [e Hd]. cbn [retry_op]. rewrite Hd. destruct r; try (eexists; reflexivity). congruence.
  - destruct Hd as [e Hd]. induction n as [|n IH]; [reflexivity|]. cbn [retry_op]. rewrite Hd. exact IH.
Qed.

Theorem run_model : forall path perm fuel p, safe_do p -> (1 <= fuel)%nat -> forall s h H E,
  match run_pol i c p pol h s with
  | (hf, Finished r, sf) =>
      exists H' E', run_prog model_ops path perm fuel p tt (s, strip_marks h) H E =
                    Ok ((sf, strip_marks hf), tt, H', E', r)
  | (_, Blocked, _) => run_prog model_ops path perm fuel p tt (s, strip_marks h) H E = OutOfFuel
  end.
Proof.
  intros path perm fuel p Hsafe Hfuel. induction Hsafe as [r|o k Ho Hk IH|o k Hk IH]; intros s h H E.
  - cbn. eauto.
  - cbn [run_pol run_prog]. rewrite Hpol.
    destruct o as [fl|how|n| |off d|d| |m].
    8:{ (* a ghost mark *)
        rewrite osf_mark'. cbn [do_op]. specialize (IH ROk s ((OMark m, ROk) :: h) ((OMark m, ROk) :: H) (first_err E WNil)).
        cbn [strip_marks filter is_real fst] in IH. exact IH. }
    all: match goal with |- context [do_op _ _ _ ?o _ _] =>
           pose proof (do_op_model path perm o (s, strip_marks h) ltac:(intros m0 Hm0; discriminate)) as Hd end;
         cbn [fst snd] in Hd.
    all: match goal with |- context [os_step_f ?i0 ?c0 ?o ?f false ?s0] =>
           destruct (os_step_f i0 c0 o f false s0) as [[r s']|] eqn:Es end.
    all: try (destruct Hd as [e Hd]; rewrite Hd;
              match goal with |- context [run_pol _ _ (_ ?r1) _ (?x :: ?h0) ?s1] =>
                specialize (IH r1 s1 (x :: h0) (x :: H) (first_err E e)) end;
              cbn [strip_marks filter is_real fst] in IH; exact IH).
    all: try (exfalso; destruct (step_none _ _ _ Es) as [how0 Hh]; discriminate).
    (* an unlock does not block *)
    exfalso. rewrite (Ho how eq_refl) in Es.
    destruct (unlock_step (pol' (strip_marks h) (OFlock filelock_unlock_arg) (content_of (files s i)) (fds s c)) s)
      as (r0 & s0 & Hs & _). congruence.
  - cbn [run_pol run_prog]. rewrite Hpol.
    destruct o as [fl|how|n| |off d|d| |m].
    8:{ rewrite osf_mark'. destruct fuel as [|fu]; [lia|]. cbn [retry_op do_op].
        specialize (IH ROk s ((OMark m, ROk) :: h) ((OMark m, ROk) :: H) (first_err E WNil)).
        cbn [strip_marks filter is_real fst] in IH. exact IH. }
    all: destruct fuel as [|fu]; [lia|].
    all: match goal with |- context [retry_op _ _ _ _ ?o _ _] =>
           pose proof (retry_model path perm fu o (s, strip_marks h) ltac:(intros m0 Hm0; discriminate)) as Hd;
           pose proof (retry_model path perm (S fu) o (s, strip_marks h) ltac:(intros m0 Hm0; discriminate)) as Hd0 end;
         cbn [fst snd] in Hd, Hd0.
    all: match goal with |- context [os_step_f ?i0 ?c0 ?o ?f false ?s0] =>
           destruct (os_step_f i0 c0 o f false s0) as [[r s']|] eqn:Es end.
    all: try (rewrite Hd0; reflexivity).
    all: pose proof (step_res_class _ _ _ _ _ Es) as Hc; cbn in Hc.
    all: assert (Hne : r <> REintr) by (repeat match goal with H0 : _ \/ _ |- _ => destruct H0 | H0 : exists _, _ |- _ => destruct H0 end; subst; discriminate).
    all: destruct (Hd Hne) as [e He]; rewrite He;
         assert (Hr : match r with REintr => False | _ => True end) by (destruct r; auto; congruence);
         destruct r; try contradiction;
         match goal with |- context [run_pol _ _ (_ ?r1) _ (?x :: ?h0) ?s1] =>
           specialize (IH r1 s1 (x :: h0) (x :: H) (first_err E e)) end;
         cbn [strip_marks filter is_real fst] in IH; exact IH.
Qed.

(* every API call is such a program *)
Lemma safe_io : forall b, io_only b -> forall g, (forall r, safe_do (g r)) -> safe_do (LockedFile.bind b g).
Proof.
  intros b Hb. induction Hb as [r|o k Ho Hk IH]; intros g Hg; cbn [LockedFile.bind].
  - apply Hg.
  - apply sd_do; [intros how Hh; subst o; discriminate|]. intro r. apply IH, Hg.
Qed.

Ltac safe_tac :=
  repeat first
    [ apply sd_ret
    | apply sd_retry; intro
    | apply sd_do; [let how := fresh in let Hh := fresh in intros how Hh; inversion Hh; reflexivity|intro]
    | match goal with
      | |- safe_do (match ?r with ROk => _ | _ => _ end) => destruct r
      | |- safe_do (if ?b then _ else _) => destruct b
      end ].

Lemma safe_close_part : forall x, safe_do (close_part x).
Proof. intro x. unfold close_part, close_prog. safe_tac. Qed.

Theorem safe_client : forall fl b, io_only b -> safe_do (client_prog fl b).
Proof.
  intros fl b Hb. unfold client_prog, open_file_prog, lock_stage, trunc_stage, trunc_fail_prog, flock_step, after_open.
  assert (Hbody : safe_do (LockedFile.bind b close_part)).
  { apply safe_io; [exact Hb|]. apply safe_close_part. }
  safe_tac; try exact Hbody.
Qed.

(* a call of the API on the model OS, seen from outside: the policy run of its program term *)
Definition mrun_out (x : mworld * unit * SrcLib.history * werr * result) : mworld * result :=
  match x with (w', _, _, _, r) => (w', r) end.

Theorem api_run : forall cl path perm fuel s, io_only (body_of_call cl) -> (1 <= fuel)%nat ->
  match run_pol i c (prog_of_call cl) pol [] s with
  | (hf, Finished r, sf) =>
      (x <- run_prog model_ops path perm fuel (prog_of_call_a default_attr cl) tt (s, []) [] WNil ;; Ok (mrun_out x)) =
      Ok ((sf, strip_marks hf), r)
  | (_, Blocked, _) =>
      (x <- run_prog model_ops path perm fuel (prog_of_call_a default_attr cl) tt (s, []) [] WNil ;; Ok (mrun_out x)) =
      OutOfFuel
  end.
Proof.
  intros cl path perm fuel s Hb Hfuel.
  pose proof (run_model path perm fuel (prog_of_call cl) (safe_client _ _ Hb) Hfuel s [] [] WNil) as H.
  change (prog_of_call_a default_attr cl) with (prog_of_call cl).
  destruct (run_pol i c (prog_of_call cl) pol [] s) as [[hf [r|]] sf].
  - destruct H as (H' & E' & H).
    match goal with |- (x <- ?m ;; _) = _ =>
      replace m with (@Ok (mworld * unit * SrcLib.history * werr * result) ((sf, strip_marks hf), tt, H', E', r))
        by (symmetry; exact H) end.
    reflexivity.
  - match goal with |- (x <- ?m ;; _) = _ =>
      replace m with (@OutOfFuel (mworld * unit * SrcLib.history * werr * result)) by (symmetry; exact H) end.
    reflexivity.
Qed.

End Model.

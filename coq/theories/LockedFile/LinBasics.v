(* C07 (schedules), part 1: facts about bodies run under a lock and about one OS step. *)
From Coq Require Import List NArith Arith Bool Lia.
From Coq.Strings Require Import Byte.
From GI Require Import Gen.LockedFileConsts LockedFile.LockedFile LockedFile.LockBasics
  LockedFile.LockProofs.
Import ListNotations.

Definition outcome2 (x : result * bytes * fdesc) : result * bytes := (fst (fst x), snd (fst x)).

Lemma call_spec_eq fl b r :
  call_spec fl b r = outcome2 (run_body b no_faults 0 (start_contents fl r) (fresh_fd fl)).
Proof. unfold call_spec, outcome2. destruct (run_body _ _ _ _ _) as [[x y] z]. reflexivity. Qed.

Lemma run_body_index p : forall n X fd,
  run_body p no_faults n X fd = run_body p no_faults 0 X fd.
Proof.
  induction p as [r|o k IH|o k IH]; intros n X fd; simpl; [reflexivity| |];
  unfold no_faults at 1 3; destruct (io_step o FNone X fd) as [[r b'] fd'];
  rewrite (IH r (S n)), (IH r 1); reflexivity.
Qed.

Lemma io_step_acc o flt X fd : fd_acc (snd (io_step o flt X fd)) = fd_acc fd.
Proof.
  destruct o; simpl; try reflexivity.
  - destruct (acc_writable _); [destruct flt|]; reflexivity.
  - destruct (acc_readable _); [destruct flt|]; reflexivity.
  - destruct (acc_writable _); [destruct flt|]; reflexivity.
  - destruct (acc_writable _); [destruct flt|]; reflexivity.
Qed.

Lemma io_step_readonly o flt X fd :
  acc_writable (fd_acc fd) = false -> snd (fst (io_step o flt X fd)) = X.
Proof.
  intros Hw. destruct o; simpl; try reflexivity; rewrite ?Hw; try reflexivity.
  destruct (acc_readable _); [destruct flt|]; reflexivity.
Qed.

Lemma run_body_readonly p : forall plan n X fd,
  acc_writable (fd_acc fd) = false -> snd (fst (run_body p plan n X fd)) = X.
Proof.
  induction p as [r|o k IH|o k IH]; intros plan n X fd Hw; simpl; [reflexivity| |];
  pose proof (io_step_readonly o (plan n) X fd Hw) as HX;
  pose proof (io_step_acc o (plan n) X fd) as Ha;
  destruct (io_step o (plan n) X fd) as [[r b'] fd']; simpl in HX, Ha; subst b';
  apply IH; now rewrite Ha.
Qed.

(* a shared-locking call's specification leaves the register alone *)
Lemma call_spec_shared fl b r :
  lock_mode_of_flags fl = Some LSh -> has_flag fl truncate_cond_mask = false ->
  snd (call_spec fl b r) = r.
Proof.
  intros Hm Ht. rewrite call_spec_eq. unfold outcome2, start_contents. rewrite Ht. simpl.
  apply run_body_readonly. apply (shared_not_writable fl Hm).
Qed.

(* ------------------------------------------------------------------ one OS step, exactly *)

Lemma os_io_exact i c o s eintr fd :
  is_io o = true -> fds s c = Some fd ->
  os_step i c o FNone eintr s =
    match io_step o FNone (content_of (files s i)) fd with
    | (r, b', fd') =>
        Some (r, {| files := upd (files s) i (Some b'); fds := upd (fds s) c (Some fd');
                    refs := refs s; ltab := ltab s |})
    end.
Proof.
  intros Hio Hfd. unfold os_step. rewrite Hfd. destruct o; try discriminate Hio; reflexivity.
Qed.

Lemma os_open_exact i c fl s eintr :
  fds s c = None -> has_flag fl sys_O_TRUNC = false ->
  forall r s', os_step i c (OOpen fl) FNone eintr s = Some (r, s') ->
  content_of (files s' i) = content_of (files s i) /\ ltab s' = ltab s /\
  (forall j, j <> i -> files s' j = files s j) /\
  (r = ROk -> fds s' c = Some {| fd_acc := accmode fl; fd_off := 0 |}) /\
  (r <> ROk -> s' = s).
Proof.
  intros Hfd Ht r s' H. unfold os_step in H. rewrite Hfd, Ht in H.
  destruct (files s i) as [b0|] eqn:Hf.
  - destruct (_ && _); injection H as <- <-; simpl; rewrite ?upd_same, ?Hf;
      repeat split; auto; try congruence.
  - destruct (has_flag fl sys_O_CREATE); injection H as <- <-; simpl; rewrite ?upd_same, ?Hf;
      repeat split; auto; try congruence.
    intros j Hj. now rewrite upd_other.
Qed.

(* ------------------------------------------------------------------ the log *)

(* newest first: a legal register history from r0 leading to rcur *)
Inductive legal (r0 : bytes) : list lentry -> bytes -> Prop :=
| legal_nil : legal r0 [] r0
| legal_cons e l : legal r0 l (le_before e) -> legal r0 (e :: l) (le_after e).

Definition has_entry (c : nat) (R : bytes) (L : list lentry) : Prop :=
  exists e, In e L /\ le_client e = c /\ le_before e = R /\ le_after e = R.

Definition done_entry (fl : N) (b : prog) (c : nat) (x : result) (L : list lentry) : Prop :=
  exists e, In e L /\ le_client e = c /\ (x, le_after e) = call_spec fl b (le_before e).

Lemma has_entry_mono c R L e : has_entry c R L -> has_entry c R (e :: L).
Proof. intros [e' [Hin H]]. exists e'. split; [now right|exact H]. Qed.

Lemma done_entry_mono fl b c x L e : done_entry fl b c x L -> done_entry fl b c x (e :: L).
Proof. intros [e' [Hin H]]. exists e'. split; [now right|exact H]. Qed.

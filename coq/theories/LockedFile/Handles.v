(* lockedfile (C06): the objects a PROCESS holds — File values, Mutex values, unlock functions —
   over histories of calls.  DEFINITIONS ONLY.

   LockedFile.v models one call per client.  The property also speaks about what lies between
   calls: "held from the moment the call returns until Close (or the returned unlock function)
   is called, and released by that call".  Here one process makes any sequence of

     HOpen i fl     f, err := OpenFile(path, fl)   (the path names inode i; a NEW File object)
     HClose h       files[h].Close()               (also a second, third ... time)
     HDrop h        the caller forgets files[h]
     HGC            a garbage collection, finalizers included
     HMNew i        m := MutexAt(path)             (a Mutex VALUE, used for many cycles)
     HMLock m       unlock, err := mutexes[m].Lock()
     HMUnlock h     the unlock function that Lock call returned (handle h)

   on top of the OS model of LockedFile.v: OpenFile runs [open_file_prog], Close runs
   [close_prog] — the same program terms whose system calls are compared with strace — on a
   descriptor number; numbers given back by close(2) are reused by later opens, so a stale File
   and a live one may carry the same number.  A File has the [closed] flag of lockedfile.File;
   Close on a closed File returns an error and does nothing (close_checks_closed_first).
   A garbage collection does nothing to a File the caller still references; for an unclosed File
   it no longer references the finalizer set by OpenFile panics.  Mutex.Lock is OpenFile with
   mutex_flags followed by mu.mu.Lock(); its unlock function is mu.mu.Unlock(); f.Close()
   (mutex_unlock_body_plain).  A call that would block for ever (the process would wait for
   itself) makes the process stuck; a panic ends it. *)
From Coq Require Import List NArith Arith Bool.
From Coq.Strings Require Import Byte.
From GI Require Import Gen.LockedFileConsts LockedFile.LockedFile.
Import ListNotations.

Record hfile := {
  hf_ino : nat;              (* the inode its path named when it was opened *)
  hf_fd : nat;               (* its descriptor number = the client of the OS model *)
  hf_kind : lkind;           (* the lock OpenFile asked for *)
  hf_ok : bool;              (* the call returned a File (false: it returned an error) *)
  hf_closed : bool;          (* lockedfile.File.closed *)
  hf_live : bool;            (* the caller still references it (or the unlock function holding it) *)
  hf_mutex : option nat      (* Some m: made by mutexes[m].Lock(); the handle stands for the unlock function *)
}.

Record hmutex := { hm_ino : nat; hm_locked : bool }.  (* Path (as the inode it names); mu *)

Record hstate := {
  h_os : os;
  h_files : list hfile;
  h_mutexes : list hmutex;
  h_free : list nat;         (* descriptor numbers given back by close(2): reused first *)
  h_next : nat;              (* numbers never used so far start here *)
  h_panic : bool;            (* the process panicked (finalizer of an unclosed unreachable File; unlock of an unlocked mutex) *)
  h_stuck : bool             (* a call blocked for ever *)
}.

Inductive hev :=
| HOpen (i : nat) (flags : N)
| HClose (h : nat)
| HDrop (h : nat)
| HGC
| HMNew (i : nat)
| HMLock (m : nat)
| HMUnlock (h : nat).

Definition open_only (flags : N) : prog :=
  open_file_prog flags (fun ok => Ret (if ok then ResOk else ResErr)).
Definition close_only : prog := close_prog (Ret ResOk).

Definition kind_of (flags : N) : lkind :=
  match lock_mode_of_flags flags with Some k => k | None => LSh end.

Fixpoint upd_nth {A : Type} (n : nat) (f : A -> A) (l : list A) : list A :=
  match l, n with
  | [], _ => []
  | x :: r, 0 => f x :: r
  | x :: r, S n' => x :: upd_nth n' f r
  end.

Definition open_handle (f : hfile) : bool := hf_ok f && negb (hf_closed f).

Definition set_closed (f : hfile) : hfile :=
  {| hf_ino := hf_ino f; hf_fd := hf_fd f; hf_kind := hf_kind f; hf_ok := hf_ok f;
     hf_closed := true; hf_live := hf_live f; hf_mutex := hf_mutex f |}.
Definition set_dropped (f : hfile) : hfile :=
  {| hf_ino := hf_ino f; hf_fd := hf_fd f; hf_kind := hf_kind f; hf_ok := hf_ok f;
     hf_closed := hf_closed f; hf_live := false; hf_mutex := hf_mutex f |}.
Definition set_mlocked (b : bool) (m : hmutex) : hmutex := {| hm_ino := hm_ino m; hm_locked := b |}.

Definition with_stuck (s : hstate) : hstate :=
  {| h_os := h_os s; h_files := h_files s; h_mutexes := h_mutexes s; h_free := h_free s;
     h_next := h_next s; h_panic := h_panic s; h_stuck := true |}.
Definition with_panic (s : hstate) : hstate :=
  {| h_os := h_os s; h_files := h_files s; h_mutexes := h_mutexes s; h_free := h_free s;
     h_next := h_next s; h_panic := true; h_stuck := h_stuck s |}.

(* the descriptor number the next open gets *)
Definition alloc (s : hstate) : nat :=
  match h_free s with x :: _ => x | [] => h_next s end.
Definition free_after_alloc (s : hstate) : list nat :=
  match h_free s with _ :: r => r | [] => [] end.
Definition next_after_alloc (s : hstate) : nat :=
  match h_free s with _ :: _ => h_next s | [] => S (h_next s) end.

(* f, err := OpenFile(path -> i, flags); mx = the Mutex whose Lock makes the call, if any *)
Definition h_open (i : nat) (flags : N) (mx : option nat) (s : hstate) : hstate :=
  let c := alloc s in
  match run_seq i c (open_only flags) no_faults 0 (h_os s) with
  | (_, Finished ResOk, o') =>
      {| h_os := o';
         h_files := h_files s ++ [{| hf_ino := i; hf_fd := c; hf_kind := kind_of flags; hf_ok := true;
                                     hf_closed := false; hf_live := true; hf_mutex := mx |}];
         h_mutexes := h_mutexes s; h_free := free_after_alloc s; h_next := next_after_alloc s;
         h_panic := h_panic s; h_stuck := h_stuck s |}
  | (_, Finished _, o') =>
      (* an error is returned: no File; the descriptor (if one was opened) has been closed *)
      {| h_os := o';
         h_files := h_files s ++ [{| hf_ino := i; hf_fd := c; hf_kind := kind_of flags; hf_ok := false;
                                     hf_closed := true; hf_live := false; hf_mutex := mx |}];
         h_mutexes := h_mutexes s; h_free := h_free s; h_next := h_next s;
         h_panic := h_panic s; h_stuck := h_stuck s |}
  | (_, Blocked, _) => with_stuck s
  end.

(* closeFile on the descriptor of f *)
Definition h_closefile (h : nat) (f : hfile) (s : hstate) : hstate :=
  match run_seq (hf_ino f) (hf_fd f) close_only no_faults 0 (h_os s) with
  | (_, _, o') =>
      {| h_os := o'; h_files := upd_nth h set_closed (h_files s); h_mutexes := h_mutexes s;
         h_free := hf_fd f :: h_free s; h_next := h_next s;
         h_panic := h_panic s; h_stuck := h_stuck s |}
  end.

(* File.Close *)
Definition h_close (h : nat) (s : hstate) : hstate :=
  match nth_error (h_files s) h with
  | Some f =>
      if close_checks_closed_first
      then (if hf_closed f then s else h_closefile h f s)
      else h_closefile h f s
  | None => s
  end.
(* the caller can Close the Files it was given; the File inside an unlock function is private *)
Definition h_user_close (h : nat) (s : hstate) : hstate :=
  match nth_error (h_files s) h with
  | Some f => match hf_mutex f with None => h_close h s | Some _ => s end
  | None => s
  end.

Definition h_drop (h : nat) (s : hstate) : hstate :=
  {| h_os := h_os s; h_files := upd_nth h set_dropped (h_files s); h_mutexes := h_mutexes s;
     h_free := h_free s; h_next := h_next s; h_panic := h_panic s; h_stuck := h_stuck s |}.

(* finalizers: OpenFile sets one that panics when an unclosed File becomes unreachable *)
Definition leaked (f : hfile) : bool := open_handle f && negb (hf_live f).
Definition h_gc (s : hstate) : hstate :=
  if existsb leaked (h_files s) then with_panic s else s.

Definition h_mnew (i : nat) (s : hstate) : hstate :=
  {| h_os := h_os s; h_files := h_files s;
     h_mutexes := h_mutexes s ++ [{| hm_ino := i; hm_locked := false |}];
     h_free := h_free s; h_next := h_next s; h_panic := h_panic s; h_stuck := h_stuck s |}.

Definition set_mutex (m : nat) (b : bool) (s : hstate) : hstate :=
  {| h_os := h_os s; h_files := h_files s; h_mutexes := upd_nth m (set_mlocked b) (h_mutexes s);
     h_free := h_free s; h_next := h_next s; h_panic := h_panic s; h_stuck := h_stuck s |}.

Definition last_ok (s : hstate) : bool :=
  match nth_error (h_files s) (length (h_files s) - 1) with Some f => hf_ok f | None => false end.

(* Mutex.Lock: OpenFile(mu.Path, mutex_flags); then mu.mu.Lock() *)
Definition h_mlock (m : nat) (s : hstate) : hstate :=
  match nth_error (h_mutexes s) m with
  | Some mu =>
      let s1 := h_open (hm_ino mu) mutex_flags (Some m) s in
      if h_stuck s1 then s1
      else if last_ok s1
      then (if hm_locked mu then with_stuck s1 else set_mutex m true s1)
      else s1
  | None => s
  end.

(* the unlock function: mu.mu.Unlock(); f.Close() *)
Definition h_munlock (h : nat) (s : hstate) : hstate :=
  match nth_error (h_files s) h with
  | Some f =>
      match hf_mutex f with
      | Some m =>
          if hf_ok f then
            match nth_error (h_mutexes s) m with
            | Some mu =>
                if hm_locked mu then h_close h (set_mutex m false s)
                else with_panic s            (* sync: unlock of unlocked mutex *)
            | None => s
            end
          else s
      | None => s
      end
  | None => s
  end.

Definition hexec (s : hstate) (e : hev) : hstate :=
  if h_stuck s || h_panic s then s else
  match e with
  | HOpen i fl => h_open i fl None s
  | HClose h => h_user_close h s
  | HDrop h => h_drop h s
  | HGC => h_gc s
  | HMNew i => h_mnew i s
  | HMLock m => h_mlock m s
  | HMUnlock h => h_munlock h s
  end.

Definition hrun (s : hstate) (evs : list hev) : hstate := fold_left hexec evs s.

Definition hinit (f : nat -> option bytes) : hstate :=
  {| h_os := {| files := f; fds := fun _ => None; refs := fun _ => 0; ltab := fun _ => [] |};
     h_files := []; h_mutexes := []; h_free := []; h_next := 0; h_panic := false; h_stuck := false |}.

(* ------------------------------------------------------------------ observations *)

(* what another process finds when it asks for LOCK_EX|LOCK_NB, then LOCK_SH|LOCK_NB *)
Inductive probe := PFree | PShared | PExcl.
Definition probe_of (l : list (nat * lkind)) : probe :=
  match l with
  | [] => PFree
  | _ => if existsb (fun h => lkind_eqb (snd h) LEx) l then PExcl else PShared
  end.
Definition hprobe (s : hstate) (i : nat) : probe := probe_of (ltab (h_os s) i).

(* descriptors the process has on inode i *)
Definition hfds (s : hstate) (i : nat) : nat :=
  length (filter (fun f => open_handle f && Nat.eqb (hf_ino f) i) (h_files s)).

Inductive hres := HOk | HErr | HNone | HPanicked | HStuck.
(* what the call answers: s before, s' after *)
Definition hresult (s : hstate) (e : hev) (s' : hstate) : hres :=
  if h_stuck s' then HStuck else if h_panic s' then HPanicked else
  match e with
  | HOpen _ _ | HMLock _ => if last_ok s' then HOk else HErr
  | HClose h =>
      match nth_error (h_files s) h with
      | Some f => if hf_ok f then (if hf_closed f then HErr else HOk) else HNone
      | None => HNone
      end
  | _ => HOk
  end.

(* the run with what is observed after every step *)
Fixpoint htrace (s : hstate) (evs : list hev) (inodes : list nat)
  : list (hres * list (probe * nat)) :=
  match evs with
  | [] => []
  | e :: r =>
      let s' := hexec s e in
      (hresult s e s', map (fun i => (hprobe s' i, hfds s' i)) inodes) :: htrace s' r inodes
  end.


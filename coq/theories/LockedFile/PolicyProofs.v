(* lockedfile (C06): under EVERY fault policy — any failures of open, flock, read, write,
   truncate, close, one-shot or persistent — a call that returns has released its lock and
   closed its descriptor ("released by that call", on the error paths too); descriptors are a
   balanced resource; the policy semantics extends the position-plan semantics of LockedFile.v. *)
From Coq Require Import List NArith Arith Bool Lia.
From Coq.Strings Require Import Byte.
From GI Require Import Gen.LockedFileConsts LockedFile.LockedFile LockedFile.LockBasics
  LockedFile.LockProofs.
From GI Require Import LockedFile.Policy.
Import ListNotations.

Arguments os_step : simpl never.

(* ------------------------------------------------------------------ history counters *)

Lemma opens_cons o r h :
  opens ((o, r) :: h) = if is_open_ok (o, r) then S (opens h) else opens h.
Proof. unfold opens. cbn [filter]. destruct (is_open_ok (o, r)); reflexivity. Qed.

Lemma closes_cons o r h :
  closes ((o, r) :: h) = if is_close (o, r) then S (closes h) else closes h.
Proof. unfold closes. cbn [filter]. destruct (is_close (o, r)); reflexivity. Qed.

Lemma io_not_open o r : is_io o = true -> is_open_ok (o, r) = false /\ is_close (o, r) = false.
Proof. destruct o; try discriminate; auto. Qed.

(* ------------------------------------------------------------------ os_step_f, operation by operation *)

Lemma osf_mark i c m flt e s : os_step_f i c (OMark m) flt e s = Some (ROk, s).
Proof. destruct flt; reflexivity. Qed.

Lemma osf_io i c o flt e s : is_io o = true -> os_step_f i c o flt e s = os_step i c o flt e s.
Proof. intros H. destruct flt, o; try discriminate H; reflexivity. Qed.

Lemma os_step_nonio_flt i c o flt e s :
  is_io o = false -> os_step i c o flt e s = os_step i c o FNone e s.
Proof. intros H. destruct o; try discriminate H; reflexivity. Qed.

Lemma os_flock_frame i c how flt e s r s' :
  os_step i c (OFlock how) flt e s = Some (r, s') ->
  fds s' = fds s /\ refs s' = refs s /\ files s' = files s /\ (r = REintr -> e = true).
Proof.
  intros H. unfold os_step in H. os_inv H; simpl; repeat split; auto; discriminate.
Qed.

Lemma osf_flock_frame i c how flt e s r s' :
  os_step_f i c (OFlock how) flt e s = Some (r, s') ->
  fds s' = fds s /\ refs s' = refs s /\ files s' = files s /\ (r = REintr -> e = true).
Proof.
  destruct flt; simpl; intros H; try (injection H as <- <-; repeat split; auto; discriminate);
  now apply os_flock_frame in H.
Qed.

Lemma osf_flock_closed i c how flt e s :
  fds s c = None -> os_step_f i c (OFlock how) flt e s = Some (RErr, s).
Proof.
  intros Hc. destruct flt; try reflexivity. simpl. unfold os_step. now rewrite Hc.
Qed.

Lemma osf_close_open i c flt e s :
  isopen (fds s c) = true -> refs s c = 0 ->
  exists r s', os_step_f i c OClose flt e s = Some (r, s') /\
    files s' = files s /\ fds s' c = None /\ locked c (ltab s' i) = None /\ refs s' = refs s.
Proof.
  intros Ho Hr.
  assert (Hc : forall flt0, os_step i c OClose flt0 e s =
            Some (ROk, {| files := files s; fds := upd (fds s) c None; refs := refs s;
                          ltab := upd (ltab s) i (drop c (ltab s i)) |})).
  { intros flt0. rewrite (os_close i c s e flt0 Ho), Hr. reflexivity. }
  destruct flt; simpl; rewrite Hc; do 2 eexists; (split; [reflexivity|]); simpl;
    rewrite upd_same, locked_upd_drop; auto.
Qed.

Lemma osf_open i c fl flt e s r s' :
  os_step_f i c (OOpen fl) flt e s = Some (r, s') -> fds s c = None ->
  (r = ROk /\ isopen (fds s' c) = true /\ refs s' = refs s) \/ (r = RErr /\ s' = s).
Proof.
  intros H Hc. destruct flt; simpl in H; try (injection H as <- <-; now right).
  pose proof (os_step_refs _ _ _ _ _ _ _ _ H) as Hr.
  apply os_open_result in H; [|now rewrite Hc].
  destruct H as [[-> [Ho _]]|[-> ->]]; [left|right]; auto.
Qed.

(* ------------------------------------------------------------------ "every path releases" as a predicate on programs *)

Section Release.
Variables (i c : nat).

Definition closed_ok (s : os) : Prop := fds s c = None /\ locked c (ltab s i) = None.

(* [good o p]: started with its descriptor open (o = true) or closed and unlocked (o = false),
   whatever the policy does, if p finishes then the descriptor is closed, the lock is gone, and
   opens and closes balance *)
Definition good (o : bool) (p : prog) : Prop :=
  forall pol h s, refs s c = 0 ->
    (if o then isopen (fds s c) = true else closed_ok s) ->
    match run_pol i c p pol h s with
    | (h', Finished _, s') =>
        closed_ok s' /\ refs s' c = 0 /\
        opens h' + closes h + (if o then 1 else 0) = closes h' + opens h
    | (_, Blocked, _) => True
    end.

Lemma good_ret x : good false (Ret x).
Proof. intros pol h s Hr Hs. simpl. repeat split; try apply Hs; auto; lia. Qed.

Lemma good_close k : good false k -> good true (Do OClose (fun _ => k)).
Proof.
  intros Hk pol h s Hr Ho. simpl in Ho. cbn [run_pol].
  destruct (osf_close_open i c (pol h OClose (content_of (files s i)) (fds s c)) false s Ho Hr)
    as [r [s' [-> [_ [Hf [Hl Hrf]]]]]].
  assert (Hr' : refs s' c = 0) by now rewrite Hrf.
  specialize (Hk pol ((OClose, r) :: h) s' Hr' (conj Hf Hl)).
  destruct (run_pol i c k pol ((OClose, r) :: h) s') as [[h' [x|]] s'']; [|exact I].
  destruct Hk as [Hc [Hr'' Hb]]. rewrite opens_cons, closes_cons in Hb. simpl in Hb.
  repeat split; try apply Hc; auto; lia.
Qed.

Lemma good_mark o m k : good o (k ROk) -> good o (Do (OMark m) k).
Proof.
  intros Hk pol h s Hr Hs. cbn [run_pol]. rewrite osf_mark.
  specialize (Hk pol ((OMark m, ROk) :: h) s Hr Hs).
  destruct (run_pol i c (k ROk) pol ((OMark m, ROk) :: h) s) as [[h' [x|]] s'']; [|exact I].
  rewrite opens_cons, closes_cons in Hk. exact Hk.
Qed.

Lemma good_io_open o k :
  is_io o = true -> (forall r, good true (k r)) -> good true (Do o k).
Proof.
  intros Hio Hk pol h s Hr Ho. simpl in Ho. cbn [run_pol]. rewrite (osf_io _ _ _ _ _ _ Hio).
  destruct (os_io i c o s false (pol h o (content_of (files s i)) (fds s c)) Hio Ho)
    as [r [s' [E [Ho' _]]]].
  rewrite E. pose proof (os_step_refs _ _ _ _ _ _ _ _ E) as Hrf.
  assert (Hr' : refs s' c = 0) by now rewrite Hrf.
  specialize (Hk r pol ((o, r) :: h) s' Hr' Ho').
  destruct (run_pol i c (k r) pol ((o, r) :: h) s') as [[h' [x|]] s'']; [|exact I].
  rewrite opens_cons, closes_cons in Hk.
  destruct (io_not_open o r Hio) as [E1 E2]. rewrite E1, E2 in Hk. exact Hk.
Qed.

(* flock on an open descriptor: granted, refused, failed or blocked — the descriptor stays *)
Lemma good_flock_open how k :
  (forall r, good true (k r)) ->
  good true (Do (OFlock how) k) /\ good true (Retry (OFlock how) k).
Proof.
  intros Hk. split; intros pol h s Hr Ho; simpl in Ho; cbn [run_pol];
  destruct (os_step_f i c (OFlock how) (pol h (OFlock how) (content_of (files s i)) (fds s c)) false s)
    as [[r s']|] eqn:E; try exact I;
  destruct (osf_flock_frame _ _ _ _ _ _ _ _ E) as [Hf [Hrf [_ Hei]]];
  (assert (Hr' : refs s' c = 0) by now rewrite Hrf);
  (assert (Ho' : isopen (fds s' c) = true) by now rewrite Hf);
  pose proof (Hk r pol ((OFlock how, r) :: h) s' Hr' Ho') as Hg;
  rewrite opens_cons, closes_cons in Hg; simpl in Hg.
  - exact Hg.
  - destruct r; try exact Hg. exact I.
Qed.

(* flock on a closed descriptor fails and changes nothing *)
Lemma good_flock_closed how k : good false (k RErr) -> good false (Do (OFlock how) k).
Proof.
  intros Hk pol h s Hr Hs. cbn [run_pol]. rewrite (osf_flock_closed i c how _ false s (proj1 Hs)).
  specialize (Hk pol ((OFlock how, RErr) :: h) s Hr Hs).
  rewrite opens_cons, closes_cons in Hk. exact Hk.
Qed.

Lemma good_open fl k : good true (k ROk) -> good false (k RErr) -> good false (Do (OOpen fl) k).
Proof.
  intros Hok Herr pol h s Hr Hs. cbn [run_pol].
  destruct (os_step_f i c (OOpen fl) (pol h (OOpen fl) (content_of (files s i)) (fds s c)) false s)
    as [[r s']|] eqn:E; [|exact I].
  destruct (osf_open _ _ _ _ _ _ _ _ E (proj1 Hs)) as [[-> [Ho Hrf]]|[-> ->]].
  - assert (Hr' : refs s' c = 0) by now rewrite Hrf.
    specialize (Hok pol ((OOpen fl, ROk) :: h) s' Hr' Ho).
    destruct (run_pol i c (k ROk) pol ((OOpen fl, ROk) :: h) s') as [[h' [x|]] s'']; [|exact I].
    rewrite opens_cons, closes_cons in Hok. simpl in Hok.
    destruct Hok as [Hc [Hr'' Hb]]. repeat split; try apply Hc; auto; lia.
  - specialize (Herr pol ((OOpen fl, RErr) :: h) s Hr Hs).
    rewrite opens_cons, closes_cons in Herr. exact Herr.
Qed.

(* closeFile and the error path of openFile, in either order of unlock and close *)
Lemma good_close_prog k : good false k -> good true (close_prog k).
Proof.
  intros Hk. unfold close_prog. destruct closefile_unlock_first.
  - apply (good_flock_open filelock_unlock_arg (fun _ => Do OClose (fun _ => k))).
    intros _. now apply good_close.
  - apply good_close. now apply good_flock_closed.
Qed.

Lemma good_trunc_fail_prog k : good false k -> good true (trunc_fail_prog k).
Proof.
  intros Hk. unfold trunc_fail_prog. destruct truncate_failure_unlocks_first.
  - apply (good_flock_open filelock_unlock_arg (fun _ => Do OClose (fun _ => k))).
    intros _. now apply good_close.
  - apply good_close. now apply good_flock_closed.
Qed.

Lemma good_body b : io_only b -> good true (bind b close_part).
Proof.
  induction 1 as [x|o k Hio _ IH].
  - simpl. unfold close_part. apply good_mark. apply good_close_prog. apply good_ret.
  - simpl. now apply good_io_open.
Qed.

Lemma good_after_open b : io_only b -> good true (after_open b).
Proof. intros Hb. unfold after_open. apply good_mark. now apply good_body. Qed.

Lemma good_lock_stage fl k :
  good true (k true) -> good false (k false) -> good true (lock_stage fl k).
Proof.
  intros Ht Hf. unfold lock_stage, flock_step.
  assert (Hk : forall r, good true (match r with ROk => k true | _ => Do OClose (fun _ => k false) end)).
  { intros []; auto; now apply good_close. }
  destruct lock_retries_eintr; now apply good_flock_open.
Qed.

Lemma good_trunc_stage fl k :
  good true (k true) -> good false (k false) -> good true (trunc_stage fl k).
Proof.
  intros Ht Hf. unfold trunc_stage. destruct (has_flag fl truncate_cond_mask); [|exact Ht].
  apply good_io_open; [reflexivity|]. intros []; auto; now apply good_trunc_fail_prog.
Qed.

Lemma good_client fl b : io_only b -> good false (client_prog fl b).
Proof.
  intros Hb. unfold client_prog, open_file_prog.
  pose proof (good_after_open b Hb) as Ha. pose proof (good_ret ResErr) as He.
  apply good_open; [|exact He].
  destruct truncate_after_lock.
  - apply good_lock_stage; [|exact He]. now apply good_trunc_stage.
  - apply good_trunc_stage; [|exact He]. now apply good_lock_stage.
Qed.

End Release.

(* ------------------------------------------------------------------ the theorems *)

(* every locking call OpenFile(fl); body; Close with an I/O-only body, from any OS state in
   which the caller has no descriptor yet (others may hold locks: the call may block), under
   any policy: if it returns, the caller holds no descriptor and no lock on the file *)
Theorem released_on_every_path i c fl b pol h s :
  io_only b -> fds s c = None -> locked c (ltab s i) = None -> refs s c = 0 ->
  match run_pol i c (client_prog fl b) pol h s with
  | (h', Finished _, s') =>
      fds s' c = None /\ (forall k, holds c k (ltab s' i) = false) /\
      opens h' + closes h = closes h' + opens h
  | (_, Blocked, _) => True
  end.
Proof.
  intros Hb Hf Hl Hr.
  pose proof (good_client i c fl b Hb pol h s Hr (conj Hf Hl)) as H.
  destruct (run_pol i c (client_prog fl b) pol h s) as [[h' [x|]] s']; [|exact I].
  destruct H as [[Hc Hlk] [_ Hbal]]. repeat split; auto.
  - intros k. now apply locked_None_holds.
  - lia.
Qed.

Lemma io_only_copy_body chunks rerr : io_only (copy_body chunks rerr).
Proof.
  induction chunks as [|d rest IH]; simpl; [constructor|].
  apply io_only_write. intros []; auto; constructor.
Qed.

(* every API call of the library: Read, Write (any data, any content reader), Transform (any
   function), Create/Edit/Open/OpenFile followed by I/O and Close, Mutex.Lock + unlock *)
Theorem api_released_on_every_path i c (cl : call) pol s :
  wf_call cl -> fds s c = None -> locked c (ltab s i) = None -> refs s c = 0 ->
  match run_pol i c (prog_of_call cl) pol [] s with
  | (h', Finished _, s') =>
      fds s' c = None /\ (forall k, holds c k (ltab s' i) = false) /\
      opens h' = closes h'
  | (_, Blocked, _) => True
  end.
Proof.
  intros Hw Hf Hl Hr.
  pose proof (released_on_every_path i c (flags_of_call cl) (body_of_call cl) pol [] s Hw Hf Hl Hr) as H.
  unfold prog_of_call.
  destruct (run_pol i c (client_prog (flags_of_call cl) (body_of_call cl)) pol [] s) as [[h' [x|]] s'];
    [|exact I].
  destruct H as [H1 [H2 H3]]. change (closes []) with 0 in H3.
  change (opens []) with 0 in H3. repeat split; auto; lia.
Qed.

Lemma wf_writer_call chunks rerr : wf_call (writer_call chunks rerr).
Proof. apply io_only_copy_body. Qed.


(* descriptors are a balanced resource: a finished call has closed what it opened *)
Theorem fd_balanced i c (cl : call) pol s :
  wf_call cl -> fds s c = None -> locked c (ltab s i) = None -> refs s c = 0 ->
  match run_pol i c (prog_of_call cl) pol [] s with
  | (h', Finished _, s') => opens h' = closes h' /\ fds s' c = None
  | (_, Blocked, _) => True
  end.
Proof.
  intros Hw Hf Hl Hr.
  pose proof (api_released_on_every_path i c cl pol s Hw Hf Hl Hr) as H.
  destruct (run_pol i c (prog_of_call cl) pol [] s) as [[h' [x|]] s']; [|exact I].
  destruct H as [H1 [_ H3]]. auto.
Qed.

(* non-vacuity of the hypotheses: a fresh OS, Transform with a function that fails *)
Example released_hyps_ex :
  wf_call (CTransform (fun _ => None)) /\ wf_call CMutex /\ wf_call (writer_call [[x61]] true) /\
  fds (os_with (Some [x61])) 0 = None /\ locked 0 (ltab (os_with (Some [x61])) 0) = None /\
  refs (os_with (Some [x61])) 0 = 0.
Proof.
  repeat split; try reflexivity.
  - apply io_only_transform.
  - constructor.
  - apply wf_writer_call.
Qed.

Example writes_always_fail_ex :
  writes_always_fail
    (class_pol (fun k => match k with KWrite => {| cs_first := 1; cs_all := true |} | _ => cs_never end)).
Proof. intros h off d b fd. reflexivity. Qed.

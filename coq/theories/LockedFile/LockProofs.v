(* C06: the locking protocol of lockedfile yields exclusion for every schedule, given the
   assumed flock semantics of the OS model. *)
From Coq Require Import List NArith Arith Bool Lia.
From Coq.Strings Require Import Byte.
From GI Require Import Gen.LockedFileConsts LockedFile.LockedFile LockedFile.LockBasics.
Import ListNotations.

(* ------------------------------------------------------------------ lock mode from flags *)

Lemma write_flags_exclusive flags :
  In (N.land flags lock_switch_mask) [sys_O_WRONLY; sys_O_RDWR] ->
  lock_mode_of_flags flags = Some LEx.
Proof.
  intros Hin. unfold lock_mode_of_flags, lock_arg_of_flags.
  replace (existsb (N.eqb (N.land flags lock_switch_mask)) lock_switch_cases) with true.
  - reflexivity.
  - symmetry. apply existsb_exists. exists (N.land flags lock_switch_mask).
    split; [exact Hin|apply N.eqb_refl].
Qed.

Lemma rdonly_shared flags :
  ~ In (N.land flags lock_switch_mask) [sys_O_WRONLY; sys_O_RDWR] ->
  lock_mode_of_flags flags = Some LSh.
Proof.
  intros Hnin. unfold lock_mode_of_flags, lock_arg_of_flags.
  replace (existsb (N.eqb (N.land flags lock_switch_mask)) lock_switch_cases) with false.
  - reflexivity.
  - symmetry. apply not_true_is_false. intros He. apply existsb_exists in He.
    destruct He as [x [Hin He]]. apply N.eqb_eq in He. subst x. now apply Hnin.
Qed.

(* the access mode the kernel sees is the value the switch looks at *)
Lemma accmode_switch flags :
  accmode (strip flags openfile_strip_mask) = N.land flags lock_switch_mask.
Proof. unfold accmode. apply strip_keeps_disjoint. reflexivity. Qed.

(* a shared-locking call gets a descriptor the kernel does not let it write through *)
Lemma shared_not_writable flags :
  lock_mode_of_flags flags = Some LSh -> acc_writable (accmode (strip flags openfile_strip_mask)) = false.
Proof.
  intros Hm. rewrite accmode_switch. unfold acc_writable.
  destruct (N.eqb_spec (N.land flags lock_switch_mask) sys_O_WRONLY) as [E|_];
  [|destruct (N.eqb_spec (N.land flags lock_switch_mask) sys_O_RDWR) as [E|_]]; try reflexivity;
  rewrite write_flags_exclusive in Hm by (rewrite E; simpl; auto); discriminate.
Qed.

Lemma api_lock_modes :
  lock_mode_of_flags create_flags = Some LEx /\
  lock_mode_of_flags edit_flags = Some LEx /\
  lock_mode_of_flags write_flags = Some LEx /\
  lock_mode_of_flags mutex_flags = Some LEx /\
  lock_mode_of_flags open_flags = Some LSh.
Proof. repeat split; reflexivity. Qed.

Lemma call_lock_modes d t b :
  lock_mode_of_flags (flags_of_call (CWrite d)) = Some LEx /\
  lock_mode_of_flags (flags_of_call (CTransform t)) = Some LEx /\
  lock_mode_of_flags (flags_of_call (CCreate b)) = Some LEx /\
  lock_mode_of_flags (flags_of_call (CEdit b)) = Some LEx /\
  lock_mode_of_flags (flags_of_call CMutex) = Some LEx /\
  lock_mode_of_flags (flags_of_call CRead) = Some LSh /\
  lock_mode_of_flags (flags_of_call (COpen b)) = Some LSh.
Proof. repeat split; reflexivity. Qed.

Lemma mutex_is_exclusive : lock_mode_of_flags (flags_of_call CMutex) = Some LEx.
Proof. reflexivity. Qed.

(* ------------------------------------------------------------------ library bodies are pure I/O *)

Lemma io_only_pwrite off d k : (forall x, io_only (k x)) -> io_only (pwrite_prog off d k).
Proof. intros Hk. destruct d; simpl; [apply Hk|now constructor]. Qed.

Lemma io_only_write d k : (forall x, io_only (k x)) -> io_only (write_prog d k).
Proof. intros Hk. destruct d; simpl; [apply Hk|now constructor]. Qed.

Lemma io_only_read : io_only read_body.
Proof. constructor; [reflexivity|]. intros []; constructor. Qed.

Lemma io_only_write_body d : io_only (write_body d).
Proof. apply io_only_write. intros []; constructor. Qed.

Lemma io_only_rollback old : io_only (rollback old).
Proof.
  apply io_only_pwrite. intros []; try constructor; try reflexivity. intros; constructor.
Qed.

Lemma io_only_transform_main old new : io_only (transform_main old new).
Proof.
  unfold transform_main. destruct (_ <=? _).
  - apply io_only_pwrite. intros []; try apply io_only_rollback. constructor.
  - apply io_only_pwrite. intros []; try apply io_only_rollback.
    constructor; [reflexivity|]. intros []; try apply io_only_rollback. constructor.
Qed.

Lemma io_only_transform t : io_only (transform_body t).
Proof.
  constructor; [reflexivity|]. intros []; try constructor.
  destruct (t b) as [new|]; [|constructor].
  unfold transform_write. destruct (_ <? _); [|apply io_only_transform_main].
  apply io_only_pwrite. intros []; try apply io_only_transform_main;
    (constructor; [reflexivity|intros; constructor]).
Qed.

Definition wf_call (c : call) : Prop := io_only (body_of_call c).
Definition wf_cfg (cfg : nat -> client) : Prop := forall c, wf_call (c_call (cfg c)).

Lemma wf_library_calls d t :
  wf_call CRead /\ wf_call (CWrite d) /\ wf_call (CTransform t) /\ wf_call CMutex.
Proof.
  repeat split; red; simpl.
  - apply io_only_read.
  - apply io_only_write_body.
  - apply io_only_transform.
  - constructor.
Qed.

(* ------------------------------------------------------------------ what os_step does for the acting client *)

Definition isopen (f : option fdesc) : bool := match f with Some _ => true | None => false end.

Lemma os_open_result i c fl s r s' eintr flt :
  os_step i c (OOpen fl) flt eintr s = Some (r, s') -> isopen (fds s c) = false ->
  (r = ROk /\ isopen (fds s' c) = true /\ ltab s' = ltab s /\
   fds s' c = Some {| fd_acc := accmode fl; fd_off := 0 |}) \/
  (r = RErr /\ s' = s).
Proof.
  intros H Hc. unfold os_step in H. destruct (fds s c); [discriminate|].
  os_inv H; simpl; rewrite ?upd_same; auto.
Qed.

Lemma os_flock_req i c how k s eintr flt :
  flock_req_of how = FReq k -> isopen (fds s c) = true ->
  os_step i c (OFlock how) flt eintr s =
    if can_grant k c (ltab s i)
    then Some (ROk, {| files := files s; fds := fds s; refs := refs s;
                       ltab := upd (ltab s) i ((c, k) :: drop c (ltab s i)) |})
    else if eintr then Some (REintr, s) else None.
Proof.
  intros Hr Ho. unfold os_step. destruct (fds s c); [|discriminate]. now rewrite Hr.
Qed.

Lemma os_flock_unlock i c s eintr flt :
  isopen (fds s c) = true ->
  os_step i c (OFlock filelock_unlock_arg) flt eintr s =
    Some (ROk, {| files := files s; fds := fds s; refs := refs s;
                  ltab := upd (ltab s) i (drop c (ltab s i)) |}).
Proof. intros Ho. unfold os_step. destruct (fds s c); [reflexivity|discriminate]. Qed.

Lemma os_close i c s eintr flt :
  isopen (fds s c) = true ->
  os_step i c OClose flt eintr s =
    Some (ROk, {| files := files s; fds := upd (fds s) c None; refs := refs s;
                  ltab := if Nat.eqb (refs s c) 0
                          then upd (ltab s) i (drop c (ltab s i)) else ltab s |}).
Proof. intros Ho. unfold os_step. destruct (fds s c); [reflexivity|discriminate]. Qed.

Lemma os_mark i c m s eintr flt : os_step i c (OMark m) flt eintr s = Some (ROk, s).
Proof. reflexivity. Qed.

Lemma os_io i c o s eintr flt :
  is_io o = true -> isopen (fds s c) = true ->
  exists r s', os_step i c o flt eintr s = Some (r, s') /\
               isopen (fds s' c) = true /\ ltab s' = ltab s.
Proof.
  intros Hio Ho. unfold os_step. destruct (fds s c) as [fd|]; [|discriminate].
  destruct o; try discriminate Hio;
  match goal with |- context [io_step ?o ?f ?b ?d] => destruct (io_step o f b d) as [[r b'] fd'] end;
  (do 2 eexists; split; [reflexivity|]; simpl; rewrite upd_same; auto).
Qed.

(* ------------------------------------------------------------------ phases of a client *)

Section Phase.
Variables (fl : N) (b : prog).

Definition k0 : bool -> prog := fun ok => if ok then after_open b else Ret ResErr.
Definition klock : bool -> prog := fun ok => if ok then trunc_stage fl k0 else Ret ResErr.

(* remaining program / descriptor open? / entry in the flock table of its inode / status *)
Inductive phase : prog -> bool -> option lkind -> cstatus -> Prop :=
| ph_start : phase (client_prog fl b) false None SIdle
| ph_lock : phase (lock_stage fl klock) true None SIdle
| ph_trunc m : lock_mode_of_flags fl = Some m -> phase (trunc_stage fl k0) true (Some m) SIdle
| ph_truncfail m : lock_mode_of_flags fl = Some m ->
    phase (trunc_fail_prog (Ret ResErr)) true (Some m) SIdle
| ph_ret m : lock_mode_of_flags fl = Some m -> phase (after_open b) true (Some m) SIdle
| ph_cs m b' : lock_mode_of_flags fl = Some m -> io_only b' ->
    phase (bind b' close_part) true (Some m) SInCS
| ph_closing m x : lock_mode_of_flags fl = Some m ->
    phase (close_prog (Ret x)) true (Some m) SClosing
| ph_close x st : st <> SInCS -> phase (Do OClose (fun _ => Ret x)) true None st
| ph_done x st : st <> SInCS -> phase (Ret x) false None st.

End Phase.

Definition cphase (cfg : nat -> client) (s : state) (c : nat) : Prop :=
  phase (flags_of_call (c_call (cfg c))) (body_of_call (c_call (cfg c)))
        (progs s c) (isopen (fds (st_os s) c))
        (locked c (ltab (st_os s) (c_ino (cfg c)))) (status s c).

Lemma locked_upd_grant c k (lt : nat -> list (nat * lkind)) i :
  locked c (upd lt i ((c, k) :: drop c (lt i)) i) = Some k.
Proof. rewrite upd_same. apply locked_cons_same. Qed.

Lemma locked_upd_drop c (lt : nat -> list (nat * lkind)) i :
  locked c (upd lt i (drop c (lt i)) i) = None.
Proof. rewrite upd_same. apply locked_drop_same. Qed.

Lemma phase_step cfg s c eintr :
  io_only (body_of_call (c_call (cfg c))) ->
  cphase cfg s c -> cphase cfg (run_client cfg c eintr s) c.
Proof.
  intros Hio H. unfold cphase in *.
  set (fl := flags_of_call (c_call (cfg c))) in *.
  set (b := body_of_call (c_call (cfg c))) in *.
  set (i := c_ino (cfg c)) in *.
  destruct (lock_mode_total fl) as [m [Hm Hreq]].
  unfold run_client. fold i.
  inversion H as [Hp Ho Hl Hs | Hp Ho Hl Hs | m' Hm' Hp Ho Hl Hs | m' Hm' Hp Ho Hl Hs
                 | m' Hm' Hp Ho Hl Hs | m' b' Hm' Hb' Hp Ho Hl Hs | m' x Hm' Hp Ho Hl Hs
                 | x st Hst Hp Ho Hl Hs | x st Hst Hp Ho Hl Hs]; symmetry in Ho; try rewrite <- Hp.
  - (* start: openat *)
    unfold client_prog, open_file_prog.
    destruct (os_step i c (OOpen _) FNone eintr (st_os s)) as [[r o2]|] eqn:Hos.
    + destruct (os_open_result _ _ _ _ _ _ _ _ Hos Ho) as [[-> [Ho2 [Hlt _]]]|[-> ->]]; simpl;
        rewrite ?upd_same.
      * rewrite Ho2, Hlt, <- Hl, <- Hs. apply ph_lock.
      * rewrite Ho, <- Hl, <- Hs. apply (ph_done _ _ ResErr). discriminate.
    + simpl. rewrite <- Hp, Ho, <- Hl, <- Hs. apply ph_start.
  - (* flock *)
    unfold lock_stage, flock_step. simpl.
    rewrite (os_flock_req _ _ _ m _ _ _ Hreq Ho).
    destruct (can_grant m c _).
    + simpl. rewrite upd_same, Ho, locked_upd_grant, <- Hs. now apply ph_trunc.
    + destruct eintr; simpl.
      * rewrite upd_same, Ho, <- Hl, <- Hs. apply ph_lock.
      * rewrite <- ?Hp, Ho, <- Hl, <- Hs. apply ph_lock.
  - (* ftruncate (or nothing) *)
    unfold trunc_stage. destruct (has_flag fl truncate_cond_mask).
    + destruct (os_io i c (OFtruncate (N.to_nat truncate_size)) (st_os s) eintr FNone eq_refl Ho)
        as [r [o2 [Hos [Ho2 Hlt]]]].
      rewrite Hos. simpl. rewrite upd_same, Ho2, Hlt, <- Hl, <- Hs.
      destruct r; try (now apply ph_truncfail). now apply ph_ret.
    + (* k0 true = after_open b: the mark *)
      simpl. rewrite upd_same, Ho, <- Hl.
      apply (ph_cs _ _ m' b Hm' Hio).
  - (* failed truncate: unlock *)
    unfold trunc_fail_prog. simpl. rewrite (os_flock_unlock _ _ _ _ _ Ho). simpl.
    rewrite upd_same, Ho, locked_upd_drop, <- Hs. apply ph_close. discriminate.
  - (* the locking call returns *)
    simpl. rewrite upd_same, Ho, <- Hl. apply (ph_cs _ _ m' b Hm' Hio).
  - (* critical section *)
    destruct Hb' as [x|o k Hoio Hk]; simpl.
    + rewrite upd_same, Ho, <- Hl. now apply ph_closing.
    + destruct (os_io i c o (st_os s) eintr FNone Hoio Ho) as [r [o2 [Hos [Ho2 Hlt]]]].
      rewrite Hos.
      assert (Hst : status_after o (status s c) = SInCS)
        by (rewrite <- Hs; destruct o; try discriminate Hoio; reflexivity).
      destruct r; simpl; rewrite upd_same, Ho2, Hlt, <- Hl, Hst; now apply ph_cs.
  - (* Close: unlock *)
    unfold close_prog. simpl. rewrite (os_flock_unlock _ _ _ _ _ Ho). simpl.
    rewrite upd_same, Ho, locked_upd_drop, <- Hs. apply ph_close. discriminate.
  - (* close *)
    rewrite (os_close _ _ _ _ _ Ho). simpl. rewrite !upd_same.
    assert (Hl2 : locked c ((if Nat.eqb (refs (st_os s) c) 0
                   then upd (ltab (st_os s)) i (drop c (ltab (st_os s) i))
                   else ltab (st_os s)) i) = None).
    { destruct (Nat.eqb _ 0); [apply locked_upd_drop|now symmetry]. }
    rewrite Hl2. now apply ph_done.
  - (* done *)
    simpl. rewrite Ho, <- Hl. now apply ph_done.
Qed.

(* C06: the locking protocol of lockedfile yields exclusion for every schedule, given the
   assumed flock semantics of the OS model. *)
From Coq Require Import List NArith Arith Bool Lia.
From Coq.Strings Require Import Byte.
From GI Require Import Gen.LockedFileConsts LockedFile.LockedFile LockedFile.LockBasics.
Import ListNotations.

(* ------------------------------------------------------------------ lock mode from flags *)

Lemma write_flags_exclusive flags :
  In (N.land flags lock_switch_mask) [sys_O_WRONLY; sys_O_RDWR] ->
  lock_mode_of_flags flags = Some LEx.
Proof.
  intros Hin. unfold lock_mode_of_flags, lock_arg_of_flags.
  replace (existsb (N.eqb (N.land flags lock_switch_mask)) lock_switch_cases) with true.
  - reflexivity.
  - symmetry. apply existsb_exists. exists (N.land flags lock_switch_mask).
    split; [exact Hin|apply N.eqb_refl].
Qed.

Lemma rdonly_shared flags :
  ~ In (N.land flags lock_switch_mask) [sys_O_WRONLY; sys_O_RDWR] ->
  lock_mode_of_flags flags = Some LSh.
Proof.
  intros Hnin. unfold lock_mode_of_flags, lock_arg_of_flags.
  replace (existsb (N.eqb (N.land flags lock_switch_mask)) lock_switch_cases) with false.
  - reflexivity.
  - symmetry. apply not_true_is_false. intros He. apply existsb_exists in He.
    destruct He as [x [Hin He]]. apply N.eqb_eq in He. subst x. now apply Hnin.
Qed.

(* the access mode the kernel sees is the value the switch looks at *)
Lemma accmode_switch flags :
  accmode (strip flags openfile_strip_mask) = N.land flags lock_switch_mask.
Proof. unfold accmode. apply strip_keeps_disjoint. reflexivity. Qed.

(* a shared-locking call gets a descriptor the kernel does not let it write through *)
Lemma shared_not_writable flags :
  lock_mode_of_flags flags = Some LSh -> acc_writable (accmode (strip flags openfile_strip_mask)) = false.
Proof.
  intros Hm. rewrite accmode_switch. unfold acc_writable.
  destruct (N.eqb_spec (N.land flags lock_switch_mask) sys_O_WRONLY) as [E|_];
  [|destruct (N.eqb_spec (N.land flags lock_switch_mask) sys_O_RDWR) as [E|_]]; try reflexivity;
  rewrite write_flags_exclusive in Hm by (rewrite E; simpl; auto); discriminate.
Qed.

Lemma api_lock_modes :
  lock_mode_of_flags create_flags = Some LEx /\
  lock_mode_of_flags edit_flags = Some LEx /\
  lock_mode_of_flags write_flags = Some LEx /\
  lock_mode_of_flags mutex_flags = Some LEx /\
  lock_mode_of_flags open_flags = Some LSh.
Proof. repeat split; reflexivity. Qed.

Lemma call_lock_modes d t b :
  lock_mode_of_flags (flags_of_call (CWrite d)) = Some LEx /\
  lock_mode_of_flags (flags_of_call (CTransform t)) = Some LEx /\
  lock_mode_of_flags (flags_of_call (CCreate b)) = Some LEx /\
  lock_mode_of_flags (flags_of_call (CEdit b)) = Some LEx /\
  lock_mode_of_flags (flags_of_call CMutex) = Some LEx /\
  lock_mode_of_flags (flags_of_call CRead) = Some LSh /\
  lock_mode_of_flags (flags_of_call (COpen b)) = Some LSh.
Proof. repeat split; reflexivity. Qed.

Lemma mutex_is_exclusive : lock_mode_of_flags (flags_of_call CMutex) = Some LEx.
Proof. reflexivity. Qed.

(* ------------------------------------------------------------------ library bodies are pure I/O *)

Lemma io_only_pwrite off d k : (forall x, io_only (k x)) -> io_only (pwrite_prog off d k).
Proof. intros Hk. destruct d; simpl; [apply Hk|now constructor]. Qed.

Lemma io_only_write d k : (forall x, io_only (k x)) -> io_only (write_prog d k).
Proof. intros Hk. destruct d; simpl; [apply Hk|now constructor]. Qed.

Lemma io_only_read : io_only read_body.
Proof. constructor; [reflexivity|]. intros []; constructor. Qed.

Lemma io_only_write_body d : io_only (write_body d).
Proof. apply io_only_write. intros []; constructor. Qed.

Lemma io_only_rollback old : io_only (rollback old).
Proof.
  apply io_only_pwrite. intros []; try constructor; try reflexivity. intros; constructor.
Qed.

Lemma io_only_transform_main old new : io_only (transform_main old new).
Proof.
  unfold transform_main. destruct (_ <=? _).
  - apply io_only_pwrite. intros []; try apply io_only_rollback. constructor.
  - apply io_only_pwrite. intros []; try apply io_only_rollback.
    constructor; [reflexivity|]. intros []; try apply io_only_rollback. constructor.
Qed.

Lemma io_only_transform t : io_only (transform_body t).
Proof.
  constructor; [reflexivity|]. intros []; try constructor.
  destruct (t b) as [new|]; [|constructor].
  unfold transform_write. destruct (_ <? _); [|apply io_only_transform_main].
  apply io_only_pwrite. intros []; try apply io_only_transform_main;
    (constructor; [reflexivity|intros; constructor]).
Qed.

Definition wf_call (c : call) : Prop := io_only (body_of_call c).
Definition wf_cfg (cfg : nat -> client) : Prop := forall c, wf_call (c_call (cfg c)).

Lemma wf_library_calls d t :
  wf_call CRead /\ wf_call (CWrite d) /\ wf_call (CTransform t) /\ wf_call CMutex.
Proof.
  repeat split; red; simpl.
  - apply io_only_read.
  - apply io_only_write_body.
  - apply io_only_transform.
  - constructor.
Qed.

(* ------------------------------------------------------------------ what os_step does for the acting client *)

Definition isopen (f : option fdesc) : bool := match f with Some _ => true | None => false end.

Lemma os_open_result i c fl s r s' eintr flt :
  os_step i c (OOpen fl) flt eintr s = Some (r, s') -> isopen (fds s c) = false ->
  (r = ROk /\ isopen (fds s' c) = true /\ ltab s' = ltab s /\
   fds s' c = Some {| fd_acc := accmode fl; fd_off := 0 |}) \/
  (r = RErr /\ s' = s).
Proof.
  intros H Hc. unfold os_step in H. destruct (fds s c); [discriminate|].
  os_inv H; simpl; rewrite ?upd_same; auto.
Qed.

Definition lockable (f : option fdesc) : bool :=
  match f with Some fd => acc_readable (fd_acc fd) || acc_writable (fd_acc fd) | None => false end.

Lemma os_flock_req i c how k s eintr flt :
  flock_req_of how = FReq k -> isopen (fds s c) = true ->
  os_step i c (OFlock how) flt eintr s =
    if negb (lockable (fds s c)) then Some (RErr, s)
    else if can_grant k c (ltab s i)
    then Some (ROk, {| files := files s; fds := fds s; refs := refs s;
                       ltab := upd (ltab s) i ((c, k) :: drop c (ltab s i)) |})
    else if eintr then Some (REintr, s) else None.
Proof.
  intros Hr Ho. unfold os_step. destruct (fds s c); [|discriminate]. now rewrite Hr.
Qed.

Lemma os_flock_unlock i c s eintr flt :
  isopen (fds s c) = true ->
  os_step i c (OFlock filelock_unlock_arg) flt eintr s =
    Some (ROk, {| files := files s; fds := fds s; refs := refs s;
                  ltab := upd (ltab s) i (drop c (ltab s i)) |}).
Proof. intros Ho. unfold os_step. destruct (fds s c); [reflexivity|discriminate]. Qed.

Lemma os_close i c s eintr flt :
  isopen (fds s c) = true ->
  os_step i c OClose flt eintr s =
    Some (ROk, {| files := files s; fds := upd (fds s) c None; refs := refs s;
                  ltab := if Nat.eqb (refs s c) 0
                          then upd (ltab s) i (drop c (ltab s i)) else ltab s |}).
Proof. intros Ho. unfold os_step. destruct (fds s c); [reflexivity|discriminate]. Qed.

Lemma os_mark i c m s eintr flt : os_step i c (OMark m) flt eintr s = Some (ROk, s).
Proof. reflexivity. Qed.

Lemma os_io i c o s eintr flt :
  is_io o = true -> isopen (fds s c) = true ->
  exists r s', os_step i c o flt eintr s = Some (r, s') /\
               isopen (fds s' c) = true /\ ltab s' = ltab s.
Proof.
  intros Hio Ho. unfold os_step. destruct (fds s c) as [fd|]; [|discriminate].
  destruct o; try discriminate Hio;
  match goal with |- context [io_step ?o ?f ?b ?d] => destruct (io_step o f b d) as [[r b'] fd'] end;
  (do 2 eexists; split; [reflexivity|]; simpl; rewrite upd_same; auto).
Qed.

(* ------------------------------------------------------------------ phases of a client *)

Section Phase.
Variables (fl : N) (b : prog).

Definition k0 : bool -> prog := fun ok => if ok then after_open b else Ret ResErr.
Definition klock : bool -> prog := fun ok => if ok then trunc_stage fl k0 else Ret ResErr.

(* remaining program / descriptor open? / entry in the flock table of its inode / status *)
Inductive phase : prog -> bool -> option lkind -> cstatus -> Prop :=
| ph_start : phase (client_prog fl b) false None SIdle
| ph_lock : phase (lock_stage fl klock) true None SIdle
| ph_trunc m : lock_mode_of_flags fl = Some m -> phase (trunc_stage fl k0) true (Some m) SIdle
| ph_truncfail m : lock_mode_of_flags fl = Some m ->
    phase (trunc_fail_prog (Ret ResErr)) true (Some m) SIdle
| ph_ret m : lock_mode_of_flags fl = Some m -> phase (after_open b) true (Some m) SIdle
| ph_cs m b' : lock_mode_of_flags fl = Some m -> io_only b' ->
    phase (bind b' close_part) true (Some m) SInCS
| ph_closing m x : lock_mode_of_flags fl = Some m ->
    phase (close_prog (Ret x)) true (Some m) SClosing
| ph_close x st : st <> SInCS -> phase (Do OClose (fun _ => Ret x)) true None st
| ph_done x st : st <> SInCS -> phase (Ret x) false None st.

End Phase.

Definition cphase (cfg : nat -> client) (s : state) (c : nat) : Prop :=
  phase (flags_of_call (c_call (cfg c))) (body_of_call (c_call (cfg c)))
        (progs s c) (isopen (fds (st_os s) c))
        (locked c (ltab (st_os s) (c_ino (cfg c)))) (status s c).

Lemma locked_upd_grant c k (lt : nat -> list (nat * lkind)) i :
  locked c (upd lt i ((c, k) :: drop c (lt i)) i) = Some k.
Proof. rewrite upd_same. apply locked_cons_same. Qed.

Lemma locked_upd_drop c (lt : nat -> list (nat * lkind)) i :
  locked c (upd lt i (drop c (lt i)) i) = None.
Proof. rewrite upd_same. apply locked_drop_same. Qed.

Arguments os_step : simpl never.

Lemma phase_step cfg s c eintr :
  io_only (body_of_call (c_call (cfg c))) ->
  cphase cfg s c -> cphase cfg (run_client cfg c eintr s) c.
Proof.
  intros Hio H. unfold cphase in *.
  set (fl := flags_of_call (c_call (cfg c))) in *.
  set (b := body_of_call (c_call (cfg c))) in *.
  set (i := c_ino (cfg c)) in *.
  destruct (lock_mode_total fl) as [m [Hm Hreq]].
  unfold run_client. fold i.
  inversion H as [Hp Ho Hl Hs | Hp Ho Hl Hs | m' Hm' Hp Ho Hl Hs | m' Hm' Hp Ho Hl Hs
                 | m' Hm' Hp Ho Hl Hs | m' b' Hm' Hb' Hp Ho Hl Hs | m' x Hm' Hp Ho Hl Hs
                 | x st Hst Hp Ho Hl Hs | x st Hst Hp Ho Hl Hs]; symmetry in Ho; try rewrite <- Hp.
  - (* start: openat *)
    unfold client_prog, open_file_prog.
    destruct (os_step i c (OOpen _) FNone eintr (st_os s)) as [[r o2]|] eqn:Hos.
    + destruct (os_open_result _ _ _ _ _ _ _ _ Hos Ho) as [[-> [Ho2 [Hlt _]]]|[-> ->]]; simpl;
        rewrite ?upd_same.
      * rewrite Ho2, Hlt, <- Hl, <- Hs. apply ph_lock.
      * rewrite Ho, <- Hl, <- Hs. apply (ph_done _ _ ResErr). discriminate.
    + simpl. rewrite <- Hp, Ho, <- Hl, <- Hs. apply ph_start.
  - (* flock *)
    unfold lock_stage, flock_step. simpl.
    rewrite (os_flock_req _ _ _ m _ _ _ Hreq Ho).
    destruct (negb (lockable _)).
    { simpl. rewrite !upd_same, Ho, <- Hl, <- Hs. apply ph_close. discriminate. }
    destruct (can_grant m c _).
    + simpl. rewrite !upd_same, Ho, locked_cons_same, <- Hs. now apply ph_trunc.
    + destruct eintr; simpl.
      * rewrite !upd_same, Ho, <- Hl, <- Hs. apply ph_lock.
      * rewrite <- ?Hp, Ho, <- Hl, <- Hs. apply ph_lock.
  - (* ftruncate (or nothing) *)
    unfold trunc_stage. destruct (has_flag fl truncate_cond_mask).
    + destruct (os_io i c (OFtruncate (N.to_nat truncate_size)) (st_os s) eintr FNone eq_refl Ho)
        as [r [o2 [Hos [Ho2 Hlt]]]].
      rewrite Hos. simpl. rewrite !upd_same, Ho2, Hlt, <- Hl, <- Hs.
      destruct r; try (now apply ph_truncfail). now apply ph_ret.
    + (* k0 true = after_open b: the mark *)
      simpl. rewrite !upd_same, Ho, <- Hl.
      apply (ph_cs _ _ m' b Hm' Hio).
  - (* failed truncate: unlock *)
    unfold trunc_fail_prog. simpl. rewrite (os_flock_unlock _ _ _ _ _ Ho). simpl.
    rewrite !upd_same, Ho, locked_drop_same, <- Hs. apply ph_close. discriminate.
  - (* the locking call returns *)
    simpl. rewrite !upd_same, Ho, <- Hl. apply (ph_cs _ _ m' b Hm' Hio).
  - (* critical section *)
    destruct Hb' as [x|o k Hoio Hk]; simpl.
    + rewrite !upd_same, Ho, <- Hl. now apply ph_closing.
    + destruct (os_io i c o (st_os s) eintr FNone Hoio Ho) as [r [o2 [Hos [Ho2 Hlt]]]].
      rewrite Hos.
      assert (Hst : status_after o (status s c) = SInCS)
        by (rewrite <- Hs; destruct o; try discriminate Hoio; reflexivity).
      destruct r; simpl; rewrite !upd_same, Ho2, Hlt, <- Hl, Hst; now apply ph_cs.
  - (* Close: unlock *)
    unfold close_prog. simpl. rewrite (os_flock_unlock _ _ _ _ _ Ho). simpl.
    rewrite !upd_same, Ho, locked_drop_same, <- Hs. apply ph_close. discriminate.
  - (* close *)
    rewrite (os_close _ _ _ _ _ Ho). simpl. rewrite !upd_same.
    assert (Hl2 : locked c ((if Nat.eqb (refs (st_os s) c) 0
                   then upd (ltab (st_os s)) i (drop c (ltab (st_os s) i))
                   else ltab (st_os s)) i) = None).
    { destruct (Nat.eqb _ 0); [apply locked_upd_drop|now symmetry]. }
    rewrite Hl2. now apply ph_done.
  - (* done *)
    simpl. rewrite <- Hp, Ho, <- Hl. now apply ph_done.
Qed.

(* ------------------------------------------------------------------ the invariant *)

Record inv06 (cfg : nat -> client) (s : state) : Prop := {
  i_tab : forall i, ltab_ok (ltab (st_os s) i);
  i_phase : forall c, cphase cfg s c;
  i_own : forall c i, i <> c_ino (cfg c) -> locked c (ltab (st_os s) i) = None
}.

(* a step of client c: the OS is untouched or changed by one os_step of c on its inode *)
Lemma run_client_os cfg c eintr s :
  st_os (run_client cfg c eintr s) = st_os s \/
  exists o r, os_step (c_ino (cfg c)) c o FNone eintr (st_os s)
              = Some (r, st_os (run_client cfg c eintr s)).
Proof.
  unfold run_client. destruct (progs s c) as [x|o k|o k]; [now left| |];
  destruct (os_step (c_ino (cfg c)) c o FNone eintr (st_os s)) as [[r o2]|] eqn:Hos; try now left.
  - right. exists o, r. exact Hos.
  - right. exists o, r. destruct r; exact Hos.
Qed.

Lemma run_client_other cfg c eintr s d :
  d <> c ->
  progs (run_client cfg c eintr s) d = progs s d /\
  status (run_client cfg c eintr s) d = status s d.
Proof.
  intros Hd. unfold run_client. destruct (progs s c) as [x|o k|o k]; [now split| |];
  destruct (os_step (c_ino (cfg c)) c o FNone eintr (st_os s)) as [[r o2]|]; try now split.
  - simpl. now rewrite !upd_other.
  - destruct r; simpl; now rewrite !upd_other.
Qed.

Lemma inv06_run_client cfg c eintr s :
  wf_cfg cfg -> inv06 cfg s -> inv06 cfg (run_client cfg c eintr s).
Proof.
  intros Hwf [Htab Hph Hown].
  pose proof (phase_step cfg s c eintr (Hwf c) (Hph c)) as Hc.
  destruct (run_client_os cfg c eintr s) as [E|[o [r Hos]]].
  - (* OS unchanged *)
    split; try (rewrite E; assumption).
    intros d. destruct (Nat.eq_dec d c) as [->|Hd]; [exact Hc|].
    unfold cphase. destruct (run_client_other cfg c eintr s d Hd) as [-> ->]. rewrite E. apply Hph.
  - set (s' := run_client cfg c eintr s) in *. set (i := c_ino (cfg c)) in *.
    split.
    + intros j. destruct (Nat.eq_dec j i) as [->|Hj].
      * eapply os_step_ltab_ok; [exact Hos|apply Htab].
      * rewrite (os_step_ltab_other_inode _ _ _ _ _ _ _ _ j Hos Hj). apply Htab.
    + intros d. destruct (Nat.eq_dec d c) as [->|Hd]; [exact Hc|].
      unfold cphase. fold s'. destruct (run_client_other cfg c eintr s d Hd) as [Ep Es].
      fold s' in Ep, Es. rewrite Ep, Es, (os_step_fds_other _ _ _ _ _ _ _ _ d Hos Hd).
      replace (locked d (ltab (st_os s') (c_ino (cfg d))))
        with (locked d (ltab (st_os s) (c_ino (cfg d)))); [apply Hph|].
      destruct (Nat.eq_dec (c_ino (cfg d)) i) as [->|Hj].
      * symmetry. eapply os_step_locked_other; eassumption.
      * now rewrite (os_step_ltab_other_inode _ _ _ _ _ _ _ _ _ Hos Hj).
    + intros d j Hj. destruct (Nat.eq_dec j i) as [->|Hji].
      * destruct (Nat.eq_dec d c) as [->|Hd]; [contradiction|].
        rewrite (os_step_locked_other _ _ _ _ _ _ _ _ d Hos Hd). now apply Hown.
      * rewrite (os_step_ltab_other_inode _ _ _ _ _ _ _ _ j Hos Hji). now apply Hown.
Qed.

Lemma phase_closed_unlocked fl b p l st : phase fl b p false l st -> l = None.
Proof. intros H. inversion H; reflexivity. Qed.

Lemma inv06_exec cfg s e : wf_cfg cfg -> inv06 cfg s -> inv06 cfg (exec cfg s e).
Proof.
  intros Hwf Hinv. destruct e as [c|c|c|c]; simpl.
  - now apply inv06_run_client.
  - now apply inv06_run_client.
  - (* a child inherits the descriptor: only the reference count changes *)
    destruct Hinv as [Htab Hph Hown].
    assert (E : forall d, fds (os_dup c (st_os s)) d = fds (st_os s) d /\
                          ltab (os_dup c (st_os s)) = ltab (st_os s)).
    { intros d. unfold os_dup. destruct (fds (st_os s) c); simpl; auto. }
    split; simpl.
    + intros i. rewrite (proj2 (E 0)). apply Htab.
    + intros d. unfold cphase. simpl. rewrite (proj1 (E d)), (proj2 (E d)). apply Hph.
    + intros d i Hi. rewrite (proj2 (E d)). now apply Hown.
  - (* an inherited copy goes away: may drop the entry of a closed description *)
    destruct Hinv as [Htab Hph Hown].
    set (i := c_ino (cfg c)).
    assert (Ef : forall d, fds (os_dupclose i c (st_os s)) d = fds (st_os s) d).
    { intros d. unfold os_dupclose. destruct (refs (st_os s) c); reflexivity. }
    assert (El : ltab (os_dupclose i c (st_os s)) = ltab (st_os s) \/
                 (fds (st_os s) c = None /\
                  ltab (os_dupclose i c (st_os s)) = upd (ltab (st_os s)) i (drop c (ltab (st_os s) i)))).
    { unfold os_dupclose. destruct (refs (st_os s) c) as [|[|n]]; simpl; auto.
      destruct (fds (st_os s) c); auto. }
    destruct El as [El|[Hc El]].
    + split; simpl.
      * intros j. rewrite El. apply Htab.
      * intros d. unfold cphase. simpl. rewrite Ef, El. apply Hph.
      * intros d j Hj. rewrite El. now apply Hown.
    + assert (Hcl : locked c (ltab (st_os s) i) = None).
      { pose proof (Hph c) as H. unfold cphase in H. rewrite Hc in H. simpl in H.
        eapply phase_closed_unlocked. exact H. }
      assert (Hsame : forall d j, locked d (ltab (os_dupclose i c (st_os s)) j)
                                  = locked d (ltab (st_os s) j)).
      { intros d j. rewrite El. destruct (Nat.eq_dec j i) as [->|Hj].
        - rewrite upd_same. destruct (Nat.eq_dec d c) as [->|Hd].
          + now rewrite locked_drop_same.
          + now apply locked_drop_other.
        - now rewrite upd_other. }
      split; simpl.
      * intros j. rewrite El. destruct (Nat.eq_dec j i) as [->|Hj].
        -- rewrite upd_same. apply ltab_ok_drop, Htab.
        -- rewrite upd_other by assumption. apply Htab.
      * intros d. unfold cphase. simpl. rewrite Ef, Hsame. apply Hph.
      * intros d j Hj. rewrite Hsame. now apply Hown.
Qed.

Lemma inv06_init cfg f : inv06 cfg (init_state cfg f).
Proof.
  split; simpl.
  - intros i. apply ltab_ok_nil.
  - intros c. unfold cphase. simpl. apply ph_start.
  - reflexivity.
Qed.

Lemma inv06_run cfg s sched : wf_cfg cfg -> inv06 cfg s -> inv06 cfg (run cfg s sched).
Proof.
  intros Hwf. revert s. unfold run. induction sched as [|e sched IH]; simpl; intros s Hs; [exact Hs|].
  apply IH. now apply inv06_exec.
Qed.

Lemma inv06_reachable cfg f sched : wf_cfg cfg -> inv06 cfg (run cfg (init_state cfg f) sched).
Proof. intros Hwf. apply inv06_run; [exact Hwf|apply inv06_init]. Qed.

(* ------------------------------------------------------------------ the theorems of C06 *)

Definition reachable (cfg : nat -> client) (f : nat -> option bytes) (s : state) : Prop :=
  exists sched, s = run cfg (init_state cfg f) sched.

Lemma inv06_of_reachable cfg f s : wf_cfg cfg -> reachable cfg f s -> inv06 cfg s.
Proof. intros Hwf [sched ->]. now apply inv06_reachable. Qed.

Lemma phase_cs_locked fl b p o l : phase fl b p o l SInCS -> exists m, lock_mode_of_flags fl = Some m /\ l = Some m.
Proof.
  intros H. inversion H; subst; try congruence; eauto.
Qed.

(* held from the return of the locking call until Close is called *)
Theorem held_until_close cfg f s c :
  wf_cfg cfg -> reachable cfg f s -> in_cs s c ->
  exists m, mode_of cfg c = Some m /\ holds_lock cfg s c m.
Proof.
  intros Hwf Hr Hcs. pose proof (inv06_of_reachable _ _ _ Hwf Hr) as [Htab Hph _].
  specialize (Hph c). unfold cphase in Hph. red in Hcs. rewrite Hcs in Hph.
  destruct (phase_cs_locked _ _ _ _ _ Hph) as [m [Hm Hl]].
  exists m. split; [exact Hm|]. unfold holds_lock.
  apply holds_locked; [apply Htab|exact Hl].
Qed.

(* two clients inside their critical sections on one inode are both readers *)
Theorem exclusion cfg f s c d :
  wf_cfg cfg -> reachable cfg f s ->
  c <> d -> c_ino (cfg c) = c_ino (cfg d) -> in_cs s c -> in_cs s d ->
  mode_of cfg c = Some LSh /\ mode_of cfg d = Some LSh.
Proof.
  intros Hwf Hr Hcd Hino Hc Hd.
  pose proof (inv06_of_reachable _ _ _ Hwf Hr) as [Htab _ _].
  destruct (held_until_close cfg f s c Hwf Hr Hc) as [mc [Hmc Hhc]].
  destruct (held_until_close cfg f s d Hwf Hr Hd) as [md [Hmd Hhd]].
  unfold holds_lock in *. rewrite <- Hino in Hhd.
  set (l := ltab (st_os s) (c_ino (cfg c))) in *.
  destruct (Htab (c_ino (cfg c))) as [Hnd Hex]. fold l in Hnd, Hex.
  apply (holds_locked _ _ _ Hnd) in Hhc. apply (holds_locked _ _ _ Hnd) in Hhd.
  apply locked_In in Hhc. apply locked_In in Hhd.
  rewrite Hmc, Hmd.
  destruct mc, md; auto; exfalso; apply Hcd;
    first [eapply Hex; eassumption | symmetry; eapply Hex; eassumption].
Qed.

Corollary writer_excludes_all cfg f s c d :
  wf_cfg cfg -> reachable cfg f s ->
  c <> d -> c_ino (cfg c) = c_ino (cfg d) ->
  mode_of cfg c = Some LEx -> in_cs s c -> ~ in_cs s d.
Proof.
  intros Hwf Hr Hcd Hino Hm Hc Hd.
  destruct (exclusion cfg f s c d Hwf Hr Hcd Hino Hc Hd) as [E _]. congruence.
Qed.

Lemma phase_mark_or_flock_locked fl b p o l st :
  phase fl b p o l st ->
  match p with Do (OMark MReturned) _ | Do (OFlock _) _ => True | _ => False end ->
  exists m, lock_mode_of_flags fl = Some m /\ l = Some m.
Proof.
  destruct 1; eauto; unfold client_prog, open_file_prog, lock_stage, flock_step; simpl; contradiction.
Qed.

(* the lock is also in the table before the call returns and until the unlock step of Close *)
Theorem held_from_before_return_to_unlock cfg f s c :
  wf_cfg cfg -> reachable cfg f s ->
  (progs s c = after_open (body_of_call (c_call (cfg c))) \/ in_cs s c \/
   exists x, progs s c = close_prog (Ret x)) ->
  exists m, mode_of cfg c = Some m /\ holds_lock cfg s c m.
Proof.
  intros Hwf Hr Hcase. pose proof (inv06_of_reachable _ _ _ Hwf Hr) as [Htab Hph _].
  destruct Hcase as [Hp|[Hcs|[x Hp]]]; [| now apply (held_until_close cfg f) |];
  specialize (Hph c); unfold cphase in Hph;
  (destruct (phase_mark_or_flock_locked _ _ _ _ _ _ Hph) as [m [Hm Hl]]; [rewrite Hp; exact I|]);
  exists m; (split; [exact Hm|]);
  unfold holds_lock; apply holds_locked; try apply Htab; exact Hl.
Qed.

Lemma locked_None_holds c k l : locked c l = None -> holds c k l = false.
Proof.
  intros Hl. apply not_true_is_false. intros Hh. unfold holds in Hh.
  apply existsb_exists in Hh. destruct Hh as [[a k'] [Hin He]]. simpl in He.
  apply andb_true_iff in He. destruct He as [Ha _]. apply Nat.eqb_eq in Ha. subst a.
  eapply locked_None_not_In; eassumption.
Qed.

(* ... and released by Close: a call that has returned holds nothing anywhere, whatever
   descriptors child processes inherited in the meantime *)
Theorem released_by_close cfg f s c r :
  wf_cfg cfg -> reachable cfg f s -> returned s c r ->
  forall i k, holds c k (ltab (st_os s) i) = false.
Proof.
  intros Hwf Hr Hret i k. pose proof (inv06_of_reachable _ _ _ Hwf Hr) as [_ Hph Hown].
  apply locked_None_holds. destruct (Nat.eq_dec i (c_ino (cfg c))) as [->|Hi]; [|now apply Hown].
  specialize (Hph c). unfold cphase in Hph. red in Hret. rewrite Hret in Hph.
  assert (forall fl b p o l st, phase fl b p o l st -> is_ret p = true -> l = None) as Hgen.
  { destruct 1; try reflexivity; unfold client_prog, open_file_prog, lock_stage, flock_step,
      trunc_fail_prog, after_open, close_prog; simpl; try discriminate.
    - unfold trunc_stage. destruct (has_flag _ _); simpl; discriminate.
    - destruct H0; simpl; discriminate. }
  eapply Hgen; [exact Hph|reflexivity].
Qed.

Definition first_op (p : prog) : option op :=
  match p with Ret _ => None | Do o _ | Retry o _ => Some o end.

Lemma phase_io_locked fl b p o l st :
  phase fl b p o l st ->
  (exists x, first_op p = Some x /\ is_io x = true) ->
  exists m, lock_mode_of_flags fl = Some m /\ l = Some m.
Proof.
  destruct 1; eauto; unfold client_prog, open_file_prog, lock_stage, flock_step; simpl;
    intros [y [Hy Hio]]; try discriminate Hy; injection Hy as <-; discriminate Hio.
Qed.

(* every read, write or truncate of the file happens while the client's lock is in the table;
   in particular the ftruncate that implements O_TRUNC comes after the successful flock *)
Theorem io_under_lock cfg f s c o :
  wf_cfg cfg -> reachable cfg f s ->
  first_op (progs s c) = Some o -> is_io o = true ->
  exists m, mode_of cfg c = Some m /\ holds_lock cfg s c m.
Proof.
  intros Hwf Hr Hop Hio. pose proof (inv06_of_reachable _ _ _ Hwf Hr) as [Htab Hph _].
  specialize (Hph c). unfold cphase in Hph.
  destruct (phase_io_locked _ _ _ _ _ _ Hph) as [m [Hm Hl]]; [eauto|].
  exists m. split; [exact Hm|]. unfold holds_lock. apply holds_locked; [apply Htab|exact Hl].
Qed.

Lemma phase_open_no_trunc fl b p o l st fl' :
  phase fl b p o l st -> first_op p = Some (OOpen fl') -> has_flag fl' sys_O_TRUNC = false.
Proof.
  destruct 1; unfold client_prog, open_file_prog, lock_stage, flock_step, trunc_fail_prog,
    after_open, close_prog; simpl; try discriminate.
  - intros [= <-]. apply strip_has_flag. discriminate.
  - unfold trunc_stage. destruct (has_flag _ _); simpl; discriminate.
  - destruct H0 as [x|o' k Hio _]; simpl; [discriminate|].
    intros [= ->]. discriminate Hio.
Qed.

(* no open of any call carries O_TRUNC, whatever flags the caller passed *)
Theorem open_never_truncates cfg f s c fl' :
  wf_cfg cfg -> reachable cfg f s ->
  first_op (progs s c) = Some (OOpen fl') -> has_flag fl' sys_O_TRUNC = false.
Proof.
  intros Hwf Hr Hop. pose proof (inv06_of_reachable _ _ _ Hwf Hr) as [_ Hph _].
  eapply phase_open_no_trunc; [apply (Hph c)|exact Hop].
Qed.

Theorem no_truncate_before_lock cfg f s c :
  wf_cfg cfg -> reachable cfg f s ->
  (forall fl', first_op (progs s c) = Some (OOpen fl') -> has_flag fl' sys_O_TRUNC = false) /\
  (forall n, first_op (progs s c) = Some (OFtruncate n) ->
             exists m, mode_of cfg c = Some m /\ holds_lock cfg s c m).
Proof.
  intros Hwf Hr. split.
  - intros fl'. now apply (open_never_truncates cfg f).
  - intros n Hop. now apply (io_under_lock cfg f s c (OFtruncate n)).
Qed.

(* the static form: the flags openFile hands to the kernel, for every caller flag word *)
Theorem open_flags_stripped flags :
  has_flag (strip flags openfile_strip_mask) sys_O_TRUNC = false /\
  accmode (strip flags openfile_strip_mask) = accmode flags.
Proof.
  split; [apply strip_has_flag; discriminate|].
  unfold accmode. apply strip_keeps_disjoint. reflexivity.
Qed.

(* ------------------------------------------------------------------ examples (non-vacuity) *)

Definition ex_cfg (c : nat) : client :=
  match c with
  | 0 => {| c_ino := 0; c_call := CWrite [x61; x62; x63] |}
  | 1 => {| c_ino := 0; c_call := CRead |}
  | 2 => {| c_ino := 0; c_call := CRead |}
  | 3 => {| c_ino := 0; c_call := CTransform (fun b => Some (b ++ [x7a])) |}
  | _ => {| c_ino := 1; c_call := CMutex |}
  end.

Example ex_cfg_wf : wf_cfg ex_cfg.
Proof.
  intros c. unfold ex_cfg, wf_call. destruct c as [|[|[|[|c]]]]; cbn [c_call body_of_call].
  - apply io_only_write_body.
  - apply io_only_read.
  - apply io_only_read.
  - apply io_only_transform.
  - constructor.
Qed.

Definition ex_init := init_state ex_cfg (fun _ => Some [x30]).
Definition runs (c n : nat) : list event := repeat (EvRun c) n.

(* a two-writer schedule: the Write is inside its critical section, the Transform has opened
   the file and is blocked on flock (even when interrupted), the readers too *)
Example ex_writer_in_cs :
  let s := run ex_cfg ex_init (runs 0 4 ++ runs 3 3 ++ [EvEintr 3] ++ runs 1 3 ++ [EvDup 0]) in
  status s 0 = SInCS /\ status s 3 = SIdle /\ status s 1 = SIdle /\
  ltab (st_os s) 0 = [(0, LEx)] /\ isopen (fds (st_os s) 3) = true.
Proof. vm_compute. repeat split. Qed.

(* two readers share the lock; the writer waits *)
Example ex_readers_share :
  let s := run ex_cfg ex_init (runs 1 3 ++ runs 2 3 ++ runs 0 5) in
  status s 1 = SInCS /\ status s 2 = SInCS /\ status s 0 = SIdle /\
  ltab (st_os s) 0 = [(2, LSh); (1, LSh)].
Proof. vm_compute. repeat split. Qed.

(* everybody finishes; the child that inherited the writer's descriptor exits last: the lock
   was nevertheless released by the explicit unlock of Close *)
Example ex_all_done :
  let s := run ex_cfg ex_init
             (runs 0 4 ++ [EvDup 0] ++ runs 0 4 ++ runs 3 9 ++ runs 1 7 ++ runs 2 7 ++ [EvDupClose 0]) in
  map (fun c => is_ret (progs s c)) [0; 1; 2; 3] = [true; true; true; true] /\
  ltab (st_os s) 0 = [] /\ files (st_os s) 0 = Some [x61; x62; x63; x7a] /\
  progs s 1 = Ret (ResData [x61; x62; x63; x7a]).
Proof. vm_compute. repeat split. Qed.

(* C07 (faults), part 2: a fault that hits an executed operation forces an error return
   (Transform and Write), and what a failed Write leaves behind. *)
From Coq Require Import List NArith Arith Bool Lia.
From Coq.Strings Require Import Byte.
From GI Require Import Gen.LockedFileConsts LockedFile.LockedFile LockedFile.LockBasics
  LockedFile.LockProofs LockedFile.TransformProofs LockedFile.TransformCall LockedFile.LinBasics
  LockedFile.LinProofs.
Import ListNotations.

(* number of operations a body executes *)
Fixpoint body_steps (p : prog) (plan : nat -> fault) (n : nat) (b : bytes) (fd : fdesc) : nat :=
  match p with
  | Ret _ => 0
  | Do o k | Retry o k =>
      match io_step o (plan n) b fd with
      | (r, b', fd') => S (body_steps (k r) plan (S n) b' fd')
      end
  end.

Definition result_of (x : result * bytes * fdesc) : result := fst (fst x).

(* whatever happens, the program reports an error *)
Definition always_err (p : prog) : Prop :=
  forall plan n X fd, result_of (run_body p plan n X fd) = ResErr.

(* every operation's failure leads to an error return *)
Inductive strict : prog -> Prop :=
| strict_ret r : strict (Ret r)
| strict_do o k : is_io o = true -> always_err (k RErr) -> (forall r, strict (k r)) -> strict (Do o k).

Definition rw (fd : fdesc) : Prop :=
  acc_writable (fd_acc fd) = true /\ acc_readable (fd_acc fd) = true.

Lemma io_step_fault o flt X fd :
  is_io o = true -> rw fd -> flt <> FNone -> fst (fst (io_step o flt X fd)) = RErr.
Proof.
  intros Hio [Hw Hr] Hf. destruct o; try discriminate Hio; simpl; rewrite ?Hw, ?Hr;
    destruct flt; try reflexivity; now elim Hf.
Qed.

Lemma io_step_rw o flt X fd : rw fd -> rw (snd (io_step o flt X fd)).
Proof.
  intros H. unfold rw.
  destruct H as [Hw Hr].
  assert (E : fd_acc (snd (io_step o flt X fd)) = fd_acc fd).
  { destruct o; simpl; try reflexivity; rewrite ?Hw, ?Hr; destruct flt; reflexivity. }
  rewrite E. auto.
Qed.

Lemma strict_fault p : strict p -> forall plan n X fd k,
  rw fd -> n <= k < n + body_steps p plan n X fd -> plan k <> FNone ->
  result_of (run_body p plan n X fd) = ResErr.
Proof.
  induction 1 as [r|o k0 Hio Herr Hk IH]; intros plan n X fd k Hrw Hk' Hf; simpl in *; [lia|].
  destruct (Nat.eq_dec k n) as [->|Hne].
  - pose proof (io_step_fault o (plan n) X fd Hio Hrw Hf) as E.
    destruct (io_step o (plan n) X fd) as [[r b'] fd']. simpl in E. subst r. apply Herr.
  - pose proof (io_step_rw o (plan n) X fd Hrw) as Hrw'.
    destruct (io_step o (plan n) X fd) as [[r b'] fd']. simpl in Hrw'.
    apply (IH r plan (S n) b' fd' k Hrw'); [lia|exact Hf].
Qed.

(* ------------------------------------------------------------------ the library's bodies are strict *)

Lemma always_err_ret : always_err (Ret ResErr).
Proof. intros plan n X fd. reflexivity. Qed.

Lemma always_err_do o k : (forall r, always_err (k r)) -> always_err (Do o k).
Proof.
  intros H plan n X fd. unfold result_of. simpl.
  destruct (io_step o (plan n) X fd) as [[r b'] fd']. apply H.
Qed.

Lemma always_err_pwrite off d k : (forall r, always_err (k r)) -> always_err (pwrite_prog off d k).
Proof. intros H. destruct d; simpl; [apply H|now apply always_err_do]. Qed.

Lemma always_err_rollback old : always_err (rollback old).
Proof.
  apply always_err_pwrite. intros []; try apply always_err_ret.
  apply always_err_do. intros _. apply always_err_ret.
Qed.

Lemma strict_pwrite off d k :
  always_err (k RErr) -> (forall r, strict (k r)) -> strict (pwrite_prog off d k).
Proof. intros He Hs. destruct d; simpl; [apply Hs|now constructor]. Qed.

Lemma strict_of_always_err_leaf : strict (Ret ResErr).
Proof. constructor. Qed.

Lemma strict_rollback old : strict (rollback old).
Proof.
  apply strict_pwrite; [apply always_err_ret|].
  intros []; try constructor; try reflexivity; try apply always_err_ret. intros; constructor.
Qed.

Lemma strict_transform_main old new : strict (transform_main old new).
Proof.
  unfold transform_main. destruct (_ <=? _).
  - apply strict_pwrite; [apply always_err_rollback|].
    intros []; try apply strict_rollback. constructor.
  - apply strict_pwrite; [apply always_err_rollback|].
    intros []; try apply strict_rollback.
    constructor; [reflexivity|apply always_err_rollback|].
    intros []; try apply strict_rollback. constructor.
Qed.

Lemma strict_transform t : strict (transform_body t).
Proof.
  constructor; [reflexivity|apply always_err_ret|].
  intros []; try constructor. destruct (t b) as [new|]; [|constructor].
  unfold transform_write. destruct (_ <? _); [|apply strict_transform_main].
  apply strict_pwrite.
  - apply always_err_do. intros _. apply always_err_ret.
  - intros []; try apply strict_transform_main;
      (constructor; [reflexivity|apply always_err_ret|intros; constructor]).
Qed.

Lemma strict_write d : strict (write_body d).
Proof.
  unfold write_body, write_prog. destruct d; [constructor|].
  constructor; [reflexivity|apply always_err_ret|]. intros []; constructor.
Qed.

(* a fault among the operations Transform executes makes it return an error *)
Theorem transform_fault_errs t old plan fd k :
  acc_writable (fd_acc fd) = true -> acc_readable (fd_acc fd) = true ->
  k < body_steps (transform_body t) plan 0 old fd -> plan k <> FNone ->
  result_of (run_body (transform_body t) plan 0 old fd) = ResErr.
Proof.
  intros Hw Hr Hk Hf. apply (strict_fault _ (strict_transform t) plan 0 old fd k); [split; auto|lia|exact Hf].
Qed.

Theorem write_fault_errs d plan X fd k :
  acc_writable (fd_acc fd) = true -> acc_readable (fd_acc fd) = true ->
  k < body_steps (write_body d) plan 0 X fd -> plan k <> FNone ->
  result_of (run_body (write_body d) plan 0 X fd) = ResErr.
Proof.
  intros Hw Hr Hk Hf. apply (strict_fault _ (strict_write d) plan 0 X fd k); [split; auto|lia|exact Hf].
Qed.

(* ------------------------------------------------------------------ a whole write-locking call, alone, under faults *)

Arguments os_step : simpl never.

Lemma os_open_existing i c fl s flt e b0 :
  files s i = Some b0 -> fds s c = None ->
  has_flag fl sys_O_CREATE && has_flag fl sys_O_EXCL = false -> has_flag fl sys_O_TRUNC = false ->
  os_step i c (OOpen fl) flt e s =
  Some (ROk, {| files := files s; fds := upd (fds s) c (Some {| fd_acc := accmode fl; fd_off := 0 |});
                refs := refs s; ltab := ltab s |}).
Proof. intros Hf Hc Hx Ht. unfold os_step. now rewrite Hc, Hf, Hx, Ht. Qed.

Lemma exclusive_req fl : lock_mode_of_flags fl = Some LEx -> flock_req_of (lock_arg_of_flags fl) = FReq LEx.
Proof.
  unfold lock_mode_of_flags. destruct (flock_req_of (lock_arg_of_flags fl)); try discriminate.
  now intros [= ->].
Qed.

(* what the file holds / what the caller gets after a write-locking call with body b on an
   existing file holding old, operation number j of the run suffering plan j:
     0 openat, 1 flock, [2 ftruncate when the flags carry O_TRUNC,] mark, body ..., unlock, close *)
Theorem excl_call_faulty fl b old plan :
  io_only b -> lock_mode_of_flags fl = Some LEx ->
  has_flag (strip fl openfile_strip_mask) sys_O_CREATE && has_flag (strip fl openfile_strip_mask) sys_O_EXCL = false ->
  match run_seq 0 0 (client_prog fl b) plan 0 (os_with (Some old)) with
  | (_, out, s') =>
      ltab s' 0 = [] /\ fds s' 0 = None /\
      if has_flag fl truncate_cond_mask then
        match plan 2 with
        | FNone => match run_body b plan 4 (start_contents fl old) (fresh_fd fl) with
                   | (r, X', _) => out = Finished r /\ content_of (files s' 0) = X' end
        | _ => out = Finished ResErr /\ content_of (files s' 0) = old
        end
      else match run_body b plan 3 old (fresh_fd fl) with
           | (r, X', _) => out = Finished r /\ content_of (files s' 0) = X' end
  end.
Proof.
  intros Hio Hm Hx.
  pose proof (exclusive_writable fl Hm) as Hw. pose proof (exclusive_req fl Hm) as Hreq.
  unfold client_prog, open_file_prog. cbn [run_seq].
  rewrite (os_open_existing 0 0 _ (os_with (Some old)) (plan 0) false old eq_refl eq_refl Hx)
    by (apply strip_has_flag; discriminate).
  cbv iota beta. change truncate_after_lock with true. cbv iota.
  unfold lock_stage, flock_step. change lock_retries_eintr with true. cbv iota. cbn [run_seq].
  change {| fd_acc := accmode (strip fl openfile_strip_mask); fd_off := 0 |} with (fresh_fd fl).
  set (s1 := {| files := files (os_with (Some old));
                fds := upd (fds (os_with (Some old))) 0 (Some (fresh_fd fl));
                refs := refs (os_with (Some old)); ltab := ltab (os_with (Some old)) |}).
  assert (Ho1 : isopen (fds s1 0) = true) by reflexivity.
  rewrite (os_flock_req 0 0 _ LEx s1 false (plan 1) Hreq Ho1).
  assert (Hlk : lockable (fds s1 0) = true).
  { unfold lockable. change (fds s1 0) with (Some (fresh_fd fl)). cbv iota beta.
    change (fd_acc (fresh_fd fl)) with (accmode (strip fl openfile_strip_mask)).
    rewrite Hw. apply orb_true_r. }
  rewrite Hlk. cbn [negb]. cbv iota. change (can_grant LEx 0 (ltab s1 0)) with true. cbv iota beta.
  set (s2 := {| files := files s1; fds := fds s1; refs := refs s1;
                ltab := upd (ltab s1) 0 ((0, LEx) :: drop 0 (ltab s1 0)) |}).
  assert (Hfd2 : fds s2 0 = Some (fresh_fd fl)) by reflexivity.
  assert (Hlt2 : ltab s2 0 = [(0, LEx)]) by reflexivity.
  unfold trunc_stage. destruct (has_flag fl truncate_cond_mask) eqn:Ht.
  - cbn [run_seq]. rewrite (os_io_flt 0 0 (OFtruncate (N.to_nat truncate_size)) s2 false (plan 2) (fresh_fd fl) eq_refl Hfd2).
    change (content_of (files s2 0)) with old. rewrite (io_ftruncate (fresh_fd fl) Hw).
    destruct (plan 2) eqn:Ep.
    + (* truncated: the body runs on the truncated file *)
      set (s3 := {| files := upd (files s2) 0 (Some (resize (N.to_nat truncate_size) old));
                    fds := upd (fds s2) 0 (Some (fresh_fd fl)); refs := refs s2; ltab := ltab s2 |}).
      unfold after_open. cbn [run_seq]. rewrite ?os_mark.
      change (os_step 0 0 (OMark MReturned) (plan 3) false s3) with (Some (ROk, s3)). cbv iota beta.
      pose proof (run_seq_cs 0 0 LEx b Hio plan 4 s3 (fresh_fd fl) eq_refl eq_refl eq_refl) as H.
      change (content_of (files s3 0)) with (resize (N.to_nat truncate_size) old) in H.
      unfold start_contents. rewrite Ht.
      destruct (run_seq 0 0 (bind b close_part) plan 4 s3) as [[tr out] s'].
      destruct (run_body b plan 4 _ (fresh_fd fl)) as [[r X'] fd'].
      destruct H as [-> [HX [Hl Hf]]]. auto.
    + (* the truncate failed: unlock, close, error; nothing was changed *)
      unfold trunc_fail_prog. change truncate_failure_unlocks_first with true. cbv iota. cbn [run_seq].
      set (s3 := {| files := upd (files s2) 0 (Some old); fds := upd (fds s2) 0 (Some (fresh_fd fl));
                    refs := refs s2; ltab := ltab s2 |}).
      assert (Ho3 : isopen (fds s3 0) = true) by reflexivity.
      rewrite (os_flock_unlock 0 0 s3 false (plan 3) Ho3). cbv iota beta. cbn [run_seq].
      set (s4 := {| files := files s3; fds := fds s3; refs := refs s3;
                    ltab := upd (ltab s3) 0 (drop 0 (ltab s3 0)) |}).
      assert (Ho4 : isopen (fds s4 0) = true) by reflexivity.
      rewrite (os_close 0 0 s4 false (plan 4) Ho4). cbv iota beta. cbn [run_seq]. simpl. auto.
    + unfold trunc_fail_prog. change truncate_failure_unlocks_first with true. cbv iota. cbn [run_seq].
      set (s3 := {| files := upd (files s2) 0 (Some old); fds := upd (fds s2) 0 (Some (fresh_fd fl));
                    refs := refs s2; ltab := ltab s2 |}).
      assert (Ho3 : isopen (fds s3 0) = true) by reflexivity.
      rewrite (os_flock_unlock 0 0 s3 false (plan 3) Ho3). cbv iota beta. cbn [run_seq].
      set (s4 := {| files := files s3; fds := fds s3; refs := refs s3;
                    ltab := upd (ltab s3) 0 (drop 0 (ltab s3 0)) |}).
      assert (Ho4 : isopen (fds s4 0) = true) by reflexivity.
      rewrite (os_close 0 0 s4 false (plan 4) Ho4). cbv iota beta. cbn [run_seq]. simpl. auto.
  - unfold after_open. cbn [run_seq]. rewrite ?os_mark.
    change (os_step 0 0 (OMark MReturned) (plan 2) false s2) with (Some (ROk, s2)). cbv iota beta.
    pose proof (run_seq_cs 0 0 LEx b Hio plan 3 s2 (fresh_fd fl) Hfd2 Hlt2 eq_refl) as H.
    change (content_of (files s2 0)) with old in H.
    destruct (run_seq 0 0 (bind b close_part) plan 3 s2) as [[tr out] s'].
    destruct (run_body b plan 3 old (fresh_fd fl)) as [[r X'] fd'].
    destruct H as [-> [HX [Hl Hf]]]. auto.
Qed.

(* ------------------------------------------------------------------ Write (and Create + write) under faults *)

(* the body of Write on the freshly truncated file *)
Lemma write_body_on_empty d plan n fd :
  acc_writable (fd_acc fd) = true -> fd_off fd = 0 ->
  match run_body (write_body d) plan n [] fd with
  | (r, X', _) => (r = ResOk /\ X' = d) \/ (r = ResErr /\ exists m, X' = firstn m d)
  end.
Proof.
  intros Hw Hoff. unfold write_body, write_prog. destruct d as [|x d'] eqn:Ed.
  - simpl. left. auto.
  - rewrite <- Ed. cbn [run_body]. simpl io_step. rewrite Hw, Hoff.
    destruct (plan n); simpl.
    + left. split; [reflexivity|]. rewrite write_at_0. destruct (length d); simpl; apply app_nil_r.
    + right. split; [reflexivity|]. exists 0. reflexivity.
    + right. split; [reflexivity|]. exists n0. rewrite write_at_0.
      destruct (length (firstn n0 d)); simpl; apply app_nil_r.
Qed.

Definition trunc_write_outcome (old d : bytes) (out : outcome) (X : bytes) : Prop :=
  (out = Finished ResOk /\ X = d) \/
  (out = Finished ResErr /\ (X = old \/ exists m, X = firstn m d)).

(* Write: success leaves exactly the new content; a failure leaves the old content (the
   truncate failed) or a prefix of the new content, possibly empty (the write failed) — never
   a mixture of old and new, but NOT necessarily the old content: only Transform rolls back *)
Theorem write_call_faulty d old plan :
  match run_seq 0 0 (prog_of_call (CWrite d)) plan 0 (os_with (Some old)) with
  | (_, out, s') =>
      ltab s' 0 = [] /\ fds s' 0 = None /\ trunc_write_outcome old d out (content_of (files s' 0))
  end.
Proof.
  pose proof (excl_call_faulty write_flags (write_body d) old plan (io_only_write_body d)
                eq_refl eq_refl) as H.
  unfold prog_of_call. cbn [flags_of_call body_of_call].
  destruct (run_seq 0 0 (client_prog write_flags (write_body d)) plan 0 (os_with (Some old)))
    as [[tr out] s'].
  destruct H as [Hl [Hf H]]. split; [exact Hl|]. split; [exact Hf|].
  change (has_flag write_flags truncate_cond_mask) with true in H. cbv iota in H.
  destruct (plan 2).
  - change (start_contents write_flags old) with (@nil byte) in H.
    pose proof (write_body_on_empty d plan 4 (fresh_fd write_flags) eq_refl eq_refl) as Hb.
    destruct (run_body (write_body d) plan 4 [] (fresh_fd write_flags)) as [[r X'] fd'].
    destruct H as [-> ->]. destruct Hb as [[-> ->]|[-> Hm]]; [left|right]; auto.
  - right. destruct H as [-> ->]. auto.
  - right. destruct H as [-> ->]. auto.
Qed.

Theorem create_write_call_faulty d old plan :
  match run_seq 0 0 (prog_of_call (CCreate (write_body d))) plan 0 (os_with (Some old)) with
  | (_, out, s') =>
      ltab s' 0 = [] /\ fds s' 0 = None /\ trunc_write_outcome old d out (content_of (files s' 0))
  end.
Proof.
  pose proof (excl_call_faulty create_flags (write_body d) old plan (io_only_write_body d)
                eq_refl eq_refl) as H.
  unfold prog_of_call. cbn [flags_of_call body_of_call].
  destruct (run_seq 0 0 (client_prog create_flags (write_body d)) plan 0 (os_with (Some old)))
    as [[tr out] s'].
  destruct H as [Hl [Hf H]]. split; [exact Hl|]. split; [exact Hf|].
  change (has_flag create_flags truncate_cond_mask) with true in H. cbv iota in H.
  destruct (plan 2).
  - change (start_contents create_flags old) with (@nil byte) in H.
    pose proof (write_body_on_empty d plan 4 (fresh_fd create_flags) eq_refl eq_refl) as Hb.
    destruct (run_body (write_body d) plan 4 [] (fresh_fd create_flags)) as [[r X'] fd'].
    destruct H as [-> ->]. destruct Hb as [[-> ->]|[-> Hm]]; [left|right]; auto.
  - right. destruct H as [-> ->]. auto.
  - right. destruct H as [-> ->]. auto.
Qed.

(* Edit with any I/O body: no truncation, the file ends as the body left it *)
Theorem edit_call_faulty b old plan :
  io_only b ->
  match run_seq 0 0 (prog_of_call (CEdit b)) plan 0 (os_with (Some old)),
        run_body b plan 3 old (fresh_fd edit_flags) with
  | (_, out, s'), (r, X', _) =>
      ltab s' 0 = [] /\ fds s' 0 = None /\ out = Finished r /\ content_of (files s' 0) = X'
  end.
Proof.
  intros Hio.
  pose proof (excl_call_faulty edit_flags b old plan Hio eq_refl eq_refl) as H.
  unfold prog_of_call. cbn [flags_of_call body_of_call].
  destruct (run_seq 0 0 (client_prog edit_flags b) plan 0 (os_with (Some old))) as [[tr out] s'].
  change (has_flag edit_flags truncate_cond_mask) with false in H. cbv iota in H.
  destruct (run_body b plan 3 old (fresh_fd edit_flags)) as [[r X'] fd'].
  destruct H as [Hl [Hf [Ho HX]]]. auto.
Qed.

(* Write has no rollback: a single failing write loses the old content *)
Example write_has_no_rollback :
  exists old d plan, single_fault plan /\
    match run_seq 0 0 (prog_of_call (CWrite d)) plan 0 (os_with (Some old)) with
    | (_, out, s') => out = Finished ResErr /\ content_of (files s' 0) <> old
    end.
Proof.
  exists [x61; x62; x63], [x78; x79], (fault_at 4 FFail). split; [apply single_fault_at|].
  vm_compute. split; [reflexivity|discriminate].
Qed.

(* lockedfile (C07): the translated Transform of Gen/LockedFileSrc.v run on the operating system
   of the model's FAULTY BODY SEMANTICS (LockedFile.run_body): open, flock and close succeed and
   change nothing; file I/O acts on the contents b of the one file through the descriptor fd as
   LockedFile.io_step says, the n-th I/O operation of the call suffering the fault [plan n]
   (a failing write may have stored any prefix of its data).  By SrcFacts.Transform_eq the
   translated function run on it is run_body of the model's transform_body, so the single-fault
   atomicity theorem is a theorem about what the SOURCE does on that operating system. *)
From Coq Require Import List NArith ZArith Bool Lia.
From Coq.Strings Require Import Byte.
From GI Require Import Lib.Bytes Lib.GoSem Lib.GoSemWorld.
From GI Require Import Gen.LockedFileConsts LockedFile.LockedFile LockedFile.LockedFileA.
From GI Require Import LockedFile.Policy.
From GI Require LockedFile.LockProofs LockedFile.TransformProofs.
From GI Require Import LockedFile.SrcLib Gen.LockedFileSrc LockedFile.SrcFacts LockedFile.SrcModel.
Import ListNotations.
Import GoNotations.
Local Open Scope go_scope.

Section Body.
Variable plan : nat -> fault.

Definition bworld : Type := (bytes * fdesc * nat)%type.

Definition bstep (o : op) (w : bworld) : bworld * LockedFile.res :=
  match w with
  | (b, fd, n) => match io_step o (plan n) b fd with (r, b', fd') => ((b', fd', S n), r) end
  end.

Definition body_ops : os_ops := {|
  World := bworld; Handle := unit; FileInfo := unit; nil_handle := tt; nil_fileinfo := tt;
  h_fd := fun _ => 0%Z; h_name := fun _ => []; fi_mode := fun _ => 0%Z; fm_is_regular := fun _ => true;
  os_open := fun w _ _ _ => (w, tt, WNil);
  sys_flock := fun w _ _ => (w, WNil);
  os_ftruncate := fun w _ n => match bstep (OFtruncate (Z.to_nat n)) w with (w', r) => (w', merr r) end;
  os_fstat := fun _ _ => (tt, WNil);
  os_close := fun w _ => (w, WNil);
  os_read_all := fun w _ =>
    match bstep OReadAll w with (w', r) => (w', match r with RData b => b | _ => [] end, merr r) end;
  os_pwrite := fun w _ d off =>
    match bstep (OPWrite (Z.to_nat off) d) w with (w', r) => (w', 0%Z, merr r) end;
  os_write := fun w _ d => match bstep (OWrite d) w with (w', r) => (w', 0%Z, merr r) end
|}.

Lemma body_unlock_no_eintr : unlock_no_eintr body_ops.
Proof. intros w fd. reflexivity. Qed.
Lemma body_stat_static : stat_static body_ops (a_regular default_attr).
Proof. intros w f. reflexivity. Qed.

(* an I/O operation of the translated code on this OS is the model's io_step *)
Lemma do_op_body : forall path perm o b fd n, is_io o = true ->
  match io_step o (plan n) b fd with
  | (r, b', fd') => exists e, do_op body_ops path perm o tt (b, fd, n) = ((b', fd', S n), tt, r, e)
  end.
Proof.
  intros path perm o b fd n Hio.
  destruct (io_step o (plan n) b fd) as [[r b'] fd'] eqn:E.
  pose proof (io_step_class _ _ _ _ _ _ _ Hio E) as Hc.
  destruct o; try discriminate;
    cbn [do_op body_ops os_ftruncate os_read_all os_pwrite os_write]; rewrite ?Nat2Z.id;
    unfold bstep; rewrite E; cbn in Hc.
  - destruct Hc as [Hc|Hc]; subst r; eexists; reflexivity.
  - destruct Hc as [[x Hc]|Hc]; subst r; eexists; reflexivity.
  - destruct Hc as [Hc|Hc]; subst r; eexists; reflexivity.
  - destruct Hc as [Hc|Hc]; subst r; eexists; reflexivity.
Qed.

(* an I/O-only program on this OS is run_body *)
Theorem run_body_ops : forall path perm fuel p, io_only p -> forall b fd n H E,
  match run_body p plan n b fd with
  | (r, b', fd') =>
      exists n' H' E', run_prog body_ops path perm fuel p tt (b, fd, n) H E = Ok ((b', fd', n'), tt, H', E', r)
  end.
Proof.
  intros path perm fuel p Hp. induction Hp as [r|o k Ho Hk IH]; intros b fd n H E.
  - cbn. eauto.
  - cbn [run_body run_prog]. pose proof (do_op_body path perm o b fd n Ho) as Hd.
    destruct (io_step o (plan n) b fd) as [[r b'] fd']. destruct Hd as [e Hd]. rewrite Hd.
    apply IH.
Qed.

(* Transform on this OS: open and lock succeed at once, the body is run_body of the model's
   transform_body from operation 0, unlock and close follow *)
Theorem transform_on_body_ops : forall t old fd fuel name, (1 <= fuel)%nat ->
  match run_body (transform_body (model_t t)) plan 0 old fd with
  | (r, b', fd') =>
      exists n' e, lf_Transform body_ops fuel (old, fd, 0) name t = Ok ((b', fd', n'), e) /\ result_of_err e = r
  end.
Proof.
  intros t old fd fuel name Hfuel.
  pose proof (Transform_eq body_ops body_unlock_no_eintr default_attr body_stat_static fuel (old, fd, 0) name t tt [] Hfuel) as Heq.
  unfold prog_of_call_a, client_prog_a in Heq. rewrite run_open_k in Heq by exact body_stat_static.
  cbn [flags_of_call body_of_call] in Heq.
  (* openFile on this OS *)
  assert (Hopen : run_prog body_ops name 438 fuel (open_only_a default_attr edit_flags) tt (old, fd, 0) [] WNil =
                  Ok ((old, fd, 0), tt,
                      [(OFlock (lock_arg_of_flags edit_flags), ROk); (OOpen (strip edit_flags openfile_strip_mask), ROk)],
                      WNil, ResOk)).
  { unfold open_only_a, open_file_prog_a, lock_stage, flock_step. change lock_retries_eintr with true.
    change truncate_after_lock with true. cbn [run_prog do_op body_ops os_open].
    destruct fuel as [|fu]; [lia|]. reflexivity. }
  rewrite Hopen in Heq. cbn [GoSem.bind result_is_ok] in Heq. unfold after_open in Heq. cbn [run_prog do_op] in Heq.
  rewrite run_bind in Heq.
  match type of Heq with context [run_prog body_ops ?a1 ?a2 ?a3 (transform_body ?tt) ?f0 ?w0 ?h0 ?e0] =>
    pose proof (run_body_ops a1 a2 a3 (transform_body tt) (LockProofs.io_only_transform _) old fd 0 h0 e0) as Hb end.
  destruct (run_body (transform_body (model_t t)) plan 0 old fd) as [[r b'] fd'].
  destruct Hb as (n' & H' & E' & Hb). rewrite Hb in Heq. cbn [GoSem.bind] in Heq.
  unfold close_part, close_prog in Heq. change closefile_unlock_first with true in Heq.
  cbn [run_prog do_op body_ops sys_flock os_close GoSem.bind run_out] in Heq.
  destruct (lf_Transform body_ops fuel (old, fd, 0) name t) as [[w' e]| |]; cbn in Heq; try discriminate.
  injection Heq as Hw He. subst w'. exists n', e. split; [reflexivity|exact He].
Qed.

End Body.

(* a single faulty I/O operation anywhere in the call (a failing write may have stored any prefix):
   the source's Transform is all-or-nothing *)
Theorem source_transform_fault_atomic : forall (t : bytes -> bytes * werr) old plan fd fuel name, (1 <= fuel)%nat ->
  acc_writable (fd_acc fd) = true -> acc_readable (fd_acc fd) = true -> fd_off fd = 0 ->
  TransformProofs.single_fault plan ->
  match lf_Transform (body_ops plan) fuel (old, fd, 0) name t with
  | Ok ((b', _, _), e) =>
      (werr_is_nil e = true /\ model_t t old = Some b') \/
      (werr_is_nil e = false /\ b' = old /\ (model_t t old = None \/ exists j, plan j <> FNone))
  | _ => False
  end.
Proof.
  intros t old plan fd fuel name Hfuel Hw Hr Ho Hsf.
  pose proof (TransformProofs.transform_fault_atomic (model_t t) old plan fd Hw Hr Ho Hsf) as Hm.
  pose proof (transform_on_body_ops plan t old fd fuel name Hfuel) as Hs.
  destruct (run_body (transform_body (model_t t)) plan 0 old fd) as [[r b'] fd'].
  destruct Hs as (n' & e & -> & He). unfold result_of_err in He.
  destruct (werr_is_nil e); subst r.
  - destruct Hm as [[_ Hm]|[Hm _]]; [left; auto|discriminate].
  - destruct Hm as [[Hm _]|[_ Hm]]; [discriminate|right; auto].
Qed.

(* Extension of the lockedfile model with static inode attributes as seen by a client:
   file kind (regular or not: ftruncate fails with EINVAL on FIFOs and character devices) and
   the access the client's credentials have (open fails with EACCES otherwise).
   DEFINITIONS ONLY.  With the default attributes everything here coincides with LockedFile.v
   (proved in LockProofsA.v), so that model is the special case "regular file, access allowed". *)
From Coq Require Import List NArith Arith Bool.
From Coq.Strings Require Import Byte.
From GI Require Import Gen.LockedFileConsts LockedFile.LockedFile.
Import ListNotations.

Record attr := {
  a_regular : bool;      (* regular file (or a symlink to one) *)
  a_can_read : bool;     (* the caller may open it for reading *)
  a_can_write : bool     (* ... for writing *)
}.

Definition default_attr : attr := {| a_regular := true; a_can_read := true; a_can_write := true |}.

(* kernel: may_open.  Checked against an existing file only: creating a new file is governed by
   the directory, which is not modelled. *)
Definition open_denied (a : attr) (flags : N) : bool :=
  let acc := accmode flags in
  (negb (a_can_read a) && acc_readable acc) ||
  (negb (a_can_write a) && (acc_writable acc || has_flag flags sys_O_TRUNC)) ||
  (N.eqb acc sys_O_ACCMODE && negb (a_can_read a && a_can_write a)).

Definition os_step_a (a : attr) (i c : nat) (o : op) (flt : fault) (eintr : bool) (s : os)
  : option (res * os) :=
  match o with
  | OOpen flags =>
      match files s i with
      | Some _ => if open_denied a flags then Some (RErr, s) else os_step i c o flt eintr s
      | None => os_step i c o flt eintr s
      end
  | OFtruncate _ =>
      if a_regular a then os_step i c o flt eintr s
      else Some (RErr, s)                       (* EINVAL *)
  | _ => os_step i c o flt eintr s
  end.

(* openFile's Truncate step: a failure is an error only for regular files (the is-regular test
   is made on the descriptor with fstat, which changes nothing); otherwise it is ignored and the
   file is returned, still locked — provided the source releases the lock only inside that test *)
Definition trunc_stage_a (a : attr) (flags : N) (k : bool -> prog) : prog :=
  if has_flag flags truncate_cond_mask
  then Do (OFtruncate (N.to_nat truncate_size))
          (fun r => match r with
                    | ROk => k true
                    | _ => if a_regular a then trunc_fail_prog (k false)
                           else if truncate_unlock_inside_regular_check then k true
                           else Do (OFlock filelock_unlock_arg) (fun _ => k true)
                    end)
  else k true.

Definition open_file_prog_a (a : attr) (flags : N) (k : bool -> prog) : prog :=
  Do (OOpen (strip flags openfile_strip_mask))
     (fun r => match r with
               | ROk =>
                   if truncate_after_lock
                   then lock_stage flags (fun ok => if ok then trunc_stage_a a flags k else k false)
                   else trunc_stage_a a flags (fun ok => if ok then lock_stage flags k else k false)
               | _ => k false
               end).

Definition client_prog_a (a : attr) (flags : N) (body : prog) : prog :=
  open_file_prog_a a flags (fun ok => if ok then after_open body else Ret ResErr).

Definition prog_of_call_a (a : attr) (c : call) : prog :=
  client_prog_a a (flags_of_call c) (body_of_call c).

(* a client together with the attributes of its file as it sees them *)
Record client_a := { ca_ino : nat; ca_call : call; ca_attr : attr }.

Definition plain (c : client_a) : client := {| c_ino := ca_ino c; c_call := ca_call c |}.

Definition init_state_a (cfg : nat -> client_a) (f : nat -> option bytes) : state :=
  {| st_os := {| files := f; fds := fun _ => None; refs := fun _ => 0; ltab := fun _ => [] |};
     progs := fun c => prog_of_call_a (ca_attr (cfg c)) (ca_call (cfg c));
     status := fun _ => SIdle;
     reg := fun i => content_of (f i);
     lin := fun _ => [];
     now := 0;
     t_inv := fun _ => None;
     t_resp := fun _ => None |}.

Definition run_client_a (cfg : nat -> client_a) (c : nat) (eintr : bool) (s : state) : state :=
  let i := ca_ino (cfg c) in
  let a := ca_attr (cfg c) in
  match progs s c with
  | Ret _ => tick s
  | Do o k =>
      match os_step_a a i c o FNone eintr (st_os s) with
      | None => tick s
      | Some (r, o2) => advance i c o (k r) o2 s
      end
  | Retry o k =>
      match os_step_a a i c o FNone eintr (st_os s) with
      | None => tick s
      | Some (REintr, o2) => advance i c o (Retry o k) o2 s
      | Some (r, o2) => advance i c o (k r) o2 s
      end
  end.

Definition exec_a (cfg : nat -> client_a) (s : state) (e : event) : state :=
  match e with
  | EvRun c => run_client_a cfg c false s
  | EvEintr c => run_client_a cfg c true s
  | EvDup c => exec (fun c => plain (cfg c)) s (EvDup c)
  | EvDupClose c => exec (fun c => plain (cfg c)) s (EvDupClose c)
  end.

Definition run_a (cfg : nat -> client_a) (s : state) (sched : list event) : state :=
  fold_left (exec_a cfg) sched s.

(* one client alone, with attributes *)
Fixpoint run_seq_a (a : attr) (i c : nat) (p : prog) (plan : nat -> fault) (n : nat) (s : os)
  : list (op * res) * outcome * os :=
  match p with
  | Ret r => ([], Finished r, s)
  | Do o k =>
      match os_step_a a i c o (plan n) false s with
      | None => ([], Blocked, s)
      | Some (r, s') =>
          match run_seq_a a i c (k r) plan (S n) s' with
          | (tr, out, s'') => ((o, r) :: tr, out, s'')
          end
      end
  | Retry o k =>
      match os_step_a a i c o (plan n) false s with
      | None | Some (REintr, _) => ([], Blocked, s)
      | Some (r, s') =>
          match run_seq_a a i c (k r) plan (S n) s' with
          | (tr, out, s'') => ((o, r) :: tr, out, s'')
          end
      end
  end.

Definition mode_of_a (cfg : nat -> client_a) (c : nat) : option lkind :=
  lock_mode_of_flags (flags_of_call (ca_call (cfg c))).
Definition holds_lock_a (cfg : nat -> client_a) (s : state) (c : nat) (k : lkind) : Prop :=
  holds c k (ltab (st_os s) (ca_ino (cfg c))) = true.

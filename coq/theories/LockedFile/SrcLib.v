(* lockedfile (C06, C07): the vocabulary of Gen/LockedFileSrc.v -- lockedfile's API and its flock
   back end translated from the Go source by harness/go2coq in world mode -- and the interpreter
   that runs the hand-written program terms of LockedFile.v over the same abstract operations.
   DEFINITIONS ONLY.

   [os_ops] is the record of UNINTERPRETED operating-system / library operations the translated
   functions call, on an abstract [World].  Nothing is assumed of them: every theorem of
   LockedFile/SrcFacts.v holds for every value of this record.  Each field is the denotation the
   table (harness/cmd/genconsts/gen_lockedfile_src.go) gives to one Go call:

     os_open w name flag perm       os.OpenFile(name, flag, perm)             (handle, error)
     sys_flock w fd how             syscall.Flock(fd, how)                    error
     os_ftruncate w f n             f.Truncate(n)                             error
     os_fstat w f                   f.Stat() -- a QUERY: the world is not changed (fs.FileInfo, error)
     os_close w f                   f.Close()    (os.File)                    error
     os_read_all w f                io.ReadAll(f)                             ([]byte, error)
     os_pwrite w f b off            f.WriteAt(b, off) with len(b) > 0         (int, error)
     os_write w f b                 f.Write(b) with len(b) > 0                (int, error)
     h_fd f, h_name f               f.Fd(), f.Name(): functions of the handle
     fi_mode fi, fm_is_regular m    fi.Mode(), m.IsRegular(): functions of their receiver

   Composite library calls, defined from the operations (what the table claims of the library,
   validated by the strace comparison of the C06/C07 runner, which sees exactly these calls):
     file_write_at  os.File.WriteAt issues no system call for an empty slice
     io_copy        io.Copy(f, r): one f.Write per non-empty chunk the reader delivers; a failing
                    write ends the copy with its error; otherwise the reader's own error (nil at
                    EOF) is the result.  A reader is the list of chunks it delivers and the error
                    it ends with (the model's Policy.copy_body / writer_call view of io.Copy). *)
From Coq Require Import List NArith ZArith Bool.
From Coq.Strings Require Import Byte.
From GI Require Import Lib.Bytes Lib.GoSem Lib.GoSemWorld.
From GI Require Import Gen.LockedFileConsts LockedFile.LockedFile.
Import ListNotations.

Record os_ops : Type := {
  World : Type;
  Handle : Type;                       (* *os.File (and filelock.File, the interface holding one) *)
  FileInfo : Type;                     (* fs.FileInfo *)
  nil_handle : Handle;                 (* the nil pointer of that type *)
  nil_fileinfo : FileInfo;
  h_fd : Handle -> Z;
  h_name : Handle -> bytes;
  fi_mode : FileInfo -> Z;
  fm_is_regular : Z -> bool;
  os_open : World -> bytes -> Z -> Z -> World * Handle * werr;
  sys_flock : World -> Z -> Z -> World * werr;
  os_ftruncate : World -> Handle -> Z -> World * werr;
  os_fstat : World -> Handle -> FileInfo * werr;
  os_close : World -> Handle -> World * werr;
  os_read_all : World -> Handle -> World * bytes * werr;
  os_pwrite : World -> Handle -> bytes -> Z -> World * Z * werr;
  os_write : World -> Handle -> bytes -> World * Z * werr
}.

(* syscall.EINTR, fs.ErrClosed *)
Definition werr_EINTR : werr := WVal [x73; x79; x73; x63; x61; x6c; x6c; x2e; x45; x49; x4e; x54; x52].
Definition werr_ErrClosed : werr :=
  WVal [x69; x6f; x2f; x66; x73; x2e; x45; x72; x72; x43; x6c; x6f; x73; x65; x64].

(* an io.Reader: the chunks it delivers, the error it ends with (WNil: io.EOF) *)
Definition reader : Type := (list bytes * werr)%type.

Section Ops.
Variable O : os_ops.

(* f.WriteAt(b, off) *)
Definition file_write_at (w : World O) (f : Handle O) (b : bytes) (off : Z) : World O * Z * werr :=
  match b with
  | [] => (w, 0%Z, WNil)
  | _ => os_pwrite O w f b off
  end.

(* io.Copy(f, r) *)
Fixpoint copy_chunks (w : World O) (f : Handle O) (chunks : list bytes) (rerr : werr) (n : Z)
  : World O * Z * werr :=
  match chunks with
  | [] => (w, n, rerr)
  | d :: rest =>
      match d with
      | [] => copy_chunks w f rest rerr n
      | _ =>
          match os_write O w f d with
          | (w', k, e) =>
              if werr_is_nil e then copy_chunks w' f rest rerr (n + k)%Z else (w', (n + k)%Z, e)
          end
      end
  end.
Definition io_copy (w : World O) (f : Handle O) (r : reader) : World O * Z * werr :=
  copy_chunks w f (fst r) (snd r) 0%Z.

End Ops.

(* ------------------------------------------------------------------ *)
(* the interpreter of the model's program terms over the abstract operations.

   A program of LockedFile.v acts on ONE file through ONE descriptor: its operations carry
   neither the path nor the handle.  [run_prog] supplies them: [path] and [perm] are the
   arguments of the API call, the handle is the one the program's OOpen returned (before that:
   whatever the caller hands in -- a program that starts with OOpen never uses it).
   The operations are performed in the order the program prescribes, each exactly once, except
   [Retry o k], which repeats [o] while it reports EINTR -- at most [fuel] times, the bound the
   translated functions hand to their loops; [OutOfFuel] when that does not suffice.  The ghost
   marks change nothing.  Besides the result, the run hands back
   - the history: the operations with their results as the model sees them, newest first (an
     operation repeated by Retry appears once, with its final result), so that a statement
     about "the operations the source performs" is a statement about this list;
   - the error value of the FIRST operation that reported an error (WNil if none did) -- the
     value the Go functions hand to their callers; for flock it is wrapped as filelock.lock
     wraps it ([lock_err]). *)

(* lockType.String: the Op of the PathError filelock.lock makes *)
Definition lock_op_name (how : Z) : bytes :=
  if (how =? Z.of_N sys_LOCK_SH)%Z then [x52; x4c; x6f; x63; x6b]            (* "RLock" *)
  else if (how =? Z.of_N sys_LOCK_EX)%Z then [x4c; x6f; x63; x6b]            (* "Lock" *)
  else [x55; x6e; x6c; x6f; x63; x6b].                                       (* "Unlock" *)

Section Run.
Variable OS : os_ops.
Variable path : bytes.
Variable perm : Z.

Definition mres : Type := LockedFile.res.
Definition history : Type := list (op * mres).

(* the error filelock.lock returns when flock reported e *)
Definition lock_err (how : Z) (f : Handle OS) (e : werr) : werr :=
  if werr_is_nil e then WNil
  else WMade [x69; x6f; x2f; x66; x73; x2e; x50; x61; x74; x68; x45; x72; x72; x6f; x72]
             [lock_op_name how; h_name OS f] e.

(* how the model sees the error an operation reports *)
Definition res_of_err (e : werr) : mres := if werr_is_nil e then ROk else RErr.
Definition res_of_flock (e : werr) : mres :=
  if werr_eqb e werr_EINTR then REintr else if werr_is_nil e then ROk else RErr.

(* one operation on handle f in world w: the world and the handle afterwards, the result as the
   model sees it, the error value as the Go caller sees it *)
Definition do_op (o : op) (f : Handle OS) (w : World OS) : World OS * Handle OS * mres * werr :=
  match o with
  | OOpen flags =>
      match os_open OS w path (Z.of_N flags) perm with
      | (w', f', e) => (w', f', res_of_err e, e)
      end
  | OFlock how =>
      match sys_flock OS w (h_fd OS f) (Z.of_N how) with
      | (w', e) => (w', f, res_of_flock e, lock_err (Z.of_N how) f e)
      end
  | OFtruncate n =>
      match os_ftruncate OS w f (Z.of_nat n) with
      | (w', e) => (w', f, res_of_err e, e)
      end
  | OReadAll =>
      match os_read_all OS w f with
      | (w', b, e) => (w', f, if werr_is_nil e then RData b else RErr, e)
      end
  | OPWrite off d =>
      match os_pwrite OS w f d (Z.of_nat off) with
      | (w', _, e) => (w', f, res_of_err e, e)
      end
  | OWrite d =>
      match os_write OS w f d with
      | (w', _, e) => (w', f, res_of_err e, e)
      end
  | OClose =>
      match os_close OS w f with
      | (w', e) => (w', f, res_of_err e, e)
      end
  | OMark _ => (w, f, ROk, WNil)
  end.

(* for { r = o; if r != EINTR { break } } *)
Fixpoint retry_op (n : nat) (o : op) (f : Handle OS) (w : World OS)
  : GoSem.res (World OS * Handle OS * mres * werr) :=
  match n with
  | O => OutOfFuel
  | S n' =>
      match do_op o f w with
      | (w', f', REintr, _) => retry_op n' o f' w'
      | x => Ok x
      end
  end.

(* the first error stays *)
Definition first_err (e e' : werr) : werr := if werr_is_nil e then e' else e.

Fixpoint run_prog (fuel : nat) (p : prog) (f : Handle OS) (w : World OS) (h : history) (e : werr)
  : GoSem.res (World OS * Handle OS * history * werr * result) :=
  match p with
  | Ret r => Ok (w, f, h, e, r)
  | Do o k =>
      match do_op o f w with
      | (w', f', r, e') => run_prog fuel (k r) f' w' ((o, r) :: h) (first_err e e')
      end
  | Retry o k =>
      match retry_op fuel o f w with
      | Ok (w', f', r, e') => run_prog fuel (k r) f' w' ((o, r) :: h) (first_err e e')
      | Panic => Panic
      | OutOfFuel => OutOfFuel
      end
  end.

(* what fstat says of the handle in this world: the stat failed, or the file is regular *)
Definition stat_regular (w : World OS) (f : Handle OS) : bool :=
  match os_fstat OS w f with
  | (fi, e) => negb (werr_is_nil e) || fm_is_regular OS (fi_mode OS fi)
  end.

End Run.

(* two facts of the operating system that the hand-written model builds in and that the
   equalities of SrcFacts.v therefore need as premises (everything else is arbitrary):
   - flock(LOCK_UN) never reports EINTR (flock(2): EINTR only "while waiting to acquire a lock").
     The source sends the unlock through the same retry loop as the lock requests; the model's
     close_prog performs it once;
   - what fstat says about "regular file or not" is the static attribute [a] of the model
     LockedFileA.v (the plain model LockedFile.v: always regular). *)
Definition unlock_no_eintr (OS : os_ops) : Prop :=
  forall w fd, werr_eqb (snd (sys_flock OS w fd (Z.of_N filelock_unlock_arg))) werr_EINTR = false.
Definition stat_static (OS : os_ops) (regular : bool) : Prop :=
  forall w f, stat_regular OS w f = regular.

(* ------------------------------------------------------------------ *)
(* projections: what of a translated function's outcome the model speaks about *)

(* an error result: nil or not *)
Definition result_of_err (e : werr) : result := if werr_is_nil e then ResOk else ResErr.
(* ([]byte, error) *)
Definition result_of_data (b : bytes) (e : werr) : result := if werr_is_nil e then ResData b else ResErr.
Definition result_is_ok (r : result) : bool := match r with ResOk => true | _ => false end.

(* the function handed to Transform as the model sees it *)
Definition model_t (t : bytes -> bytes * werr) : bytes -> option bytes :=
  fun old => match t old with (new, e) => if werr_is_nil e then Some new else None end.

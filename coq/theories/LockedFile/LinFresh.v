(* lockedfile (C07): files that do not exist yet.  The schedule theorems of LinTheorems.v hold for
   every initial file system, the empty one included; here the instances the property text is
   about when it says "without losing concurrent updates" for the calls that CREATE the file. *)
From Coq Require Import List NArith Arith Bool.
From Coq.Strings Require Import Byte.
From GI Require Import Gen.LockedFileConsts LockedFile.LockedFile LockedFile.LockBasics LockedFile.LockProofs
  LockedFile.LinBasics LockedFile.LinProofs LockedFile.LinTheorems.
Import ListNotations.

(* Transform opens with Edit's flags: it creates the file and never truncates it — whoever comes
   second finds what the first one published *)
Lemma transform_creates_without_truncating t b :
  has_flag (flags_of_call (CTransform t)) sys_O_CREATE = true /\
  has_flag (flags_of_call (CTransform t)) sys_O_TRUNC = false /\
  has_flag (flags_of_call (CTransform t)) truncate_cond_mask = false /\
  start_contents (flags_of_call (CTransform t)) b = b.
Proof. repeat split; reflexivity. Qed.

(* any number of Transforms by g, in any number of processes, racing on a file that does not
   exist when they start: the completed ones compose, from the empty contents *)
Lemma no_lost_update_new_file cfg f s i g cs :
  wf_cfg cfg -> reachable cfg f s -> f i = None ->
  (forall c, c_ino (cfg c) = i ->
     c_call (cfg c) = CRead \/ c_call (cfg c) = CTransform (fun b => Some (g b))) ->
  NoDup cs ->
  (forall c, In c cs -> c_ino (cfg c) = i /\ c_call (cfg c) = CTransform (fun b => Some (g b)) /\
                        returned s c ResOk) ->
  (forall c, c_ino (cfg c) = i -> c_call (cfg c) = CTransform (fun b => Some (g b)) ->
             ~ In c cs -> t_inv s c = None) ->
  reg s i = Nat.iter (length cs) g [].
Proof.
  intros Hwf Hr Hf Hc Hnd Hin Hout.
  rewrite (no_lost_update_exact cfg f s i g cs Hwf Hr Hc Hnd Hin Hout), Hf. reflexivity.
Qed.

(* non-vacuity: two Transform clients on the absent inode 0, run to completion one after the other *)
Definition fresh_cfg (c : nat) : client :=
  {| c_ino := 0; c_call := CTransform (fun b => Some (x2b :: b)) |}.
Definition fresh_sched : list event := repeat (EvRun 0) 12 ++ repeat (EvRun 1) 12.
Example fresh_two_transforms :
  let s := run fresh_cfg (init_state fresh_cfg (fun _ => None)) fresh_sched in
  returned s 0 ResOk /\ returned s 1 ResOk /\ reg s 0 = [x2b; x2b] /\
  content_of (files (st_os s) 0) = [x2b; x2b].
Proof. vm_compute. repeat split; reflexivity. Qed.

(* C07 (schedules): the theorems — register invariant, linearisability, read_complete,
   no_stale_read, no_lost_update — and examples. *)
From Coq Require Import List NArith Arith Bool Lia Sorted Permutation.
From Coq.Strings Require Import Byte.
From GI Require Import Gen.LockedFileConsts LockedFile.LockedFile LockedFile.LockBasics
  LockedFile.LockProofs LockedFile.TransformProofs LockedFile.LinBasics LockedFile.LinProofs.
Import ListNotations.

Definition flags_of (cfg : nat -> client) (c : nat) : N := flags_of_call (c_call (cfg c)).
Definition body_of (cfg : nat -> client) (c : nat) : prog := body_of_call (c_call (cfg c)).

(* whenever nobody holds the exclusive lock, the file holds the register's value *)
Theorem register_invariant cfg f s i :
  wf_cfg cfg -> reachable cfg f s ->
  (forall c, holds c LEx (ltab (st_os s) i) = false) ->
  content_of (files (st_os s) i) = reg s i.
Proof.
  intros Hwf Hr Hno. pose proof (inv07_of_reachable _ _ _ Hwf Hr) as Hinv.
  apply (j_reg _ _ _ Hinv). intros c Hl.
  apply (holds_locked _ _ _ (nodup_of_ok _ (i_tab _ _ (j_06 _ _ _ Hinv) i))) in Hl.
  rewrite Hno in Hl. discriminate.
Qed.

(* a completed call, seen from outside *)
Record completed (cfg : nat -> client) (s : state) (c : nat) (x : result) (t0 t1 : nat) : Prop := {
  cp_ret : returned s c x;
  cp_inv : t_inv s c = Some t0;
  cp_resp : t_resp s c = Some t1
}.

(* the log of one inode is a linearisation: a legal register history from the initial
   contents to the current register, strictly ordered in time, every entry being the
   sequential specification of its call (a read-locker leaves the register alone) *)
Definition log_is_linearization (cfg : nat -> client) (f : nat -> option bytes) (s : state) (i : nat) : Prop :=
  legal (content_of (f i)) (lin s i) (reg s i) /\
  StronglySorted newer (lin s i) /\
  forall e, In e (lin s i) -> entry_ok cfg i e.

Theorem linearizable cfg f s :
  wf_cfg cfg -> reachable cfg f s ->
  (forall i, log_is_linearization cfg f s i) /\
  (forall c x, returned s c x ->
     (* the call failed before it held the lock ... *)
     (status s c = SIdle /\ x = ResErr) \/
     (* ... or it has a linearisation point inside [invocation, response] at which its result
        and its effect are its sequential specification *)
     (status s c = SClosing /\
      exists e t0 t1, In e (lin s (c_ino (cfg c))) /\ le_client e = c /\
        (x, le_after e) = call_spec (flags_of cfg c) (body_of cfg c) (le_before e) /\
        t_inv s c = Some t0 /\ t_resp s c = Some t1 /\ t0 <= le_time e <= t1)).
Proof.
  intros Hwf Hr. pose proof (inv07_of_reachable _ _ _ Hwf Hr) as Hinv.
  pose proof (invT_of_reachable _ _ _ Hwf Hr) as HT.
  split.
  - intros i. split; [apply (j_legal _ _ _ Hinv)|]. split; [apply (t_sorted _ HT)|].
    intros e. apply (j_ent _ _ _ Hinv).
  - intros c x Hret. pose proof (j_ph _ _ _ Hinv c) as Hp. unfold cph7 in Hp.
    red in Hret. rewrite Hret in Hp.
    assert (Hcases : (status s c = SIdle /\ x = ResErr) \/
                     (status s c = SClosing /\
                      done_entry (flags_of cfg c) (body_of cfg c) c x (lin s (c_ino (cfg c))))).
    { remember (Ret x) as p eqn:Ep. unfold flags_of, body_of.
      destruct Hp; try discriminate Ep;
        try (unfold client_prog, open_file_prog, lock_stage, flock_step, trunc_fail_prog,
               after_open, close_prog in Ep; simpl in Ep; discriminate Ep).
      - unfold trunc_stage in Ep. destruct (has_flag _ _); discriminate Ep.
      - destruct H0; simpl in Ep; discriminate Ep.
      - injection Ep as <-. left. auto.
      - injection Ep as <-. right. auto. }
    destruct Hcases as [H|[Hst [e [Hin [Hc Hspec]]]]]; [left; exact H|right].
    split; [exact Hst|].
    destruct (t_entry_inv _ HT _ _ Hin) as [t0 [Ht0 Hle0]]. rewrite Hc in Ht0.
    destruct (t_ret_resp _ HT c) as [t1 Ht1]; [now rewrite Hret|].
    exists e, t0, t1. repeat split; auto.
    apply (t_entry_resp _ HT _ e t1 Hin). now rewrite Hc.
Qed.

(* real time: a call that returned before another was invoked linearises before it *)
Theorem real_time_order cfg f s i e1 e2 t1 t2 :
  wf_cfg cfg -> reachable cfg f s ->
  In e1 (lin s i) -> In e2 (lin s i) ->
  t_resp s (le_client e1) = Some t1 -> t_inv s (le_client e2) = Some t2 -> t1 < t2 ->
  le_time e1 < le_time e2.
Proof.
  intros Hwf Hr H1 H2 Hr1 Hi2 Hlt. pose proof (invT_of_reachable _ _ _ Hwf Hr) as HT.
  pose proof (t_entry_resp _ HT _ _ _ H1 Hr1).
  destruct (t_entry_inv _ HT _ _ H2) as [t0 [E Hle]]. rewrite Hi2 in E. injection E as <-. lia.
Qed.

(* ------------------------------------------------------------------ sequential specifications of the three calls *)

Lemma spec_read r : call_spec open_flags read_body r = (ResData r, r).
Proof. reflexivity. Qed.

Lemma spec_write d r : call_spec write_flags (write_body d) r = (ResOk, d).
Proof.
  rewrite call_spec_eq. unfold write_body, write_prog, outcome2.
  destruct d as [|x d]; [reflexivity|].
  cbn [run_body]. change (start_contents write_flags r) with (resize 0 r).
  unfold resize. simpl firstn. simpl Nat.sub. simpl zeros. simpl app.
  simpl. rewrite app_nil_r. reflexivity.
Qed.

Lemma spec_transform t r new :
  t r = Some new -> call_spec edit_flags (transform_body t) r = (ResOk, new).
Proof.
  intros Ht. rewrite call_spec_eq. change (start_contents edit_flags r) with r.
  pose proof (transform_ok t r new (fresh_fd edit_flags) eq_refl eq_refl eq_refl Ht) as H.
  unfold outcome2. destruct (run_body _ _ _ _ _) as [[x y] z]. destruct H as [-> ->]. reflexivity.
Qed.

Lemma spec_transform_fails t r :
  t r = None -> call_spec edit_flags (transform_body t) r = (ResErr, r).
Proof.
  intros Ht. rewrite call_spec_eq. change (start_contents edit_flags r) with r.
  pose proof (transform_t_fails t r (fresh_fd edit_flags) no_faults eq_refl eq_refl eq_refl
                single_fault_no_faults Ht) as H.
  unfold outcome2. destruct (run_body _ _ _ _ _) as [[x y] z]. destruct H as [-> ->]. reflexivity.
Qed.

(* ------------------------------------------------------------------ where register values come from *)

Definition is_writer (cfg : nat -> client) (e : lentry) : Prop := mode_of cfg (le_client e) = Some LEx.

Lemma legal_cur_source cfg i r0 l rc :
  legal r0 l rc -> (forall e, In e l -> entry_ok cfg i e) ->
  rc = r0 \/ exists e, In e l /\ is_writer cfg e /\ le_after e = rc.
Proof.
  induction 1 as [|e l Hl IH]; intros Hok; [now left|].
  destruct (Hok e (or_introl eq_refl)) as [_ [[Hm Ha]|[Hm Ha]]].
  - rewrite Ha. destruct IH as [E|[e' [Hin [Hw He]]]].
    + intros e' Hin. apply Hok. now right.
    + now left.
    + right. exists e'. split; [now right|]. auto.
  - right. exists e. split; [now left|]. split; [exact Hm|reflexivity].
Qed.

(* the value an entry starts from is the initial contents or what an earlier writer published *)
Lemma legal_before_source cfg i r0 l rc e :
  legal r0 l rc -> StronglySorted newer l -> (forall e, In e l -> entry_ok cfg i e) -> In e l ->
  le_before e = r0 \/
  exists e', In e' l /\ is_writer cfg e' /\ le_time e' < le_time e /\ le_after e' = le_before e.
Proof.
  induction 1 as [|e0 l Hl IH]; intros Hs Hok Hin; [destruct Hin|].
  inversion Hs as [|? ? Hs' Hall]; subst.
  destruct Hin as [<-|Hin].
  - destruct (legal_cur_source cfg i r0 l (le_before e0) Hl) as [E|[e' [Hin' [Hw He]]]].
    + intros e' Hin'. apply Hok. now right.
    + now left.
    + right. exists e'. split; [now right|]. split; [exact Hw|]. split; [|exact He].
      rewrite Forall_forall in Hall. apply (Hall e' Hin').
  - destruct IH as [E|[e' [Hin' H]]]; auto.
    + intros e' Hin'. apply Hok. now right.
    + right. exists e'. split; [now right|exact H].
Qed.

(* ------------------------------------------------------------------ corollaries *)

(* a Read returns exactly the complete contents of the register at its linearisation point:
   the initial contents or what one earlier write-locking call left at its unlock — never
   something empty, truncated or mixed *)
Theorem read_complete cfg f s c v :
  wf_cfg cfg -> reachable cfg f s ->
  c_call (cfg c) = CRead -> returned s c (ResData v) ->
  let i := c_ino (cfg c) in
  exists e, In e (lin s i) /\ le_client e = c /\ le_before e = v /\ le_after e = v /\
    (v = content_of (f i) \/
     exists w, In w (lin s i) /\ is_writer cfg w /\ le_time w < le_time e /\ le_after w = v /\
       snd (call_spec (flags_of cfg (le_client w)) (body_of cfg (le_client w)) (le_before w)) = v).
Proof.
  intros Hwf Hr Hcall Hret i.
  destruct (linearizable cfg f s Hwf Hr) as [Hlog Hcalls].
  destruct (Hcalls c _ Hret) as [[_ E]|[_ [e [t0 [t1 [Hin [Hc [Hspec _]]]]]]]]; [discriminate E|].
  unfold flags_of, body_of in Hspec. rewrite Hcall in Hspec. simpl in Hspec.
  rewrite spec_read in Hspec. injection Hspec as Hv Ha. fold i in Hin.
  exists e. repeat split; auto; try congruence.
  destruct (Hlog i) as [Hleg [Hs Hok]].
  destruct (legal_before_source cfg i _ _ _ e Hleg Hs Hok Hin) as [E|[w [Hinw [Hw [Hlt Haw]]]]].
  - left. congruence.
  - right. exists w. repeat split; auto; try congruence.
    destruct (Hok w Hinw) as [_ [[Hm _]|[_ Hsp]]]; [red in Hw; congruence|].
    unfold flags_of, body_of. congruence.
Qed.

(* a Read never returns a value older than one whose write had finished before it began:
   such a writer linearises before the Read, so the Read's value is the register after it or
   after a later writer *)
Theorem no_stale_read cfg f s c v w tw tc :
  wf_cfg cfg -> reachable cfg f s ->
  c_call (cfg c) = CRead -> returned s c (ResData v) ->
  In w (lin s (c_ino (cfg c))) -> is_writer cfg w ->
  t_resp s (le_client w) = Some tw -> t_inv s c = Some tc -> tw < tc ->
  exists e, In e (lin s (c_ino (cfg c))) /\ le_client e = c /\ le_before e = v /\
            le_time w < le_time e.
Proof.
  intros Hwf Hr Hcall Hret Hinw Hw Htw Htc Hlt.
  destruct (read_complete cfg f s c v Hwf Hr Hcall Hret) as [e [Hin [Hc [Hb _]]]].
  exists e. repeat split; auto.
  eapply (real_time_order cfg f s _ w e tw tc); eauto. now rewrite Hc.
Qed.

Theorem write_effect cfg f s c d :
  wf_cfg cfg -> reachable cfg f s ->
  c_call (cfg c) = CWrite d -> returned s c ResOk ->
  exists e, In e (lin s (c_ino (cfg c))) /\ le_client e = c /\ le_after e = d.
Proof.
  intros Hwf Hr Hcall Hret.
  destruct (linearizable cfg f s Hwf Hr) as [_ Hcalls].
  destruct (Hcalls c _ Hret) as [[_ E]|[_ [e [t0 [t1 [Hin [Hc [Hspec _]]]]]]]]; [discriminate E|].
  unfold flags_of, body_of in Hspec. rewrite Hcall in Hspec. simpl in Hspec.
  rewrite spec_write in Hspec. injection Hspec as Ha. exists e. auto.
Qed.

Theorem transform_effect cfg f s c t x :
  wf_cfg cfg -> reachable cfg f s ->
  c_call (cfg c) = CTransform t -> returned s c x -> status s c = SClosing ->
  exists e, In e (lin s (c_ino (cfg c))) /\ le_client e = c /\
    match t (le_before e) with
    | Some new => x = ResOk /\ le_after e = new
    | None => x = ResErr /\ le_after e = le_before e
    end.
Proof.
  intros Hwf Hr Hcall Hret Hst.
  destruct (linearizable cfg f s Hwf Hr) as [_ Hcalls].
  destruct (Hcalls c _ Hret) as [[E _]|[_ [e [t0 [t1 [Hin [Hc [Hspec _]]]]]]]]; [congruence|].
  unfold flags_of, body_of in Hspec. rewrite Hcall in Hspec. simpl in Hspec.
  exists e. repeat split; auto.
  destruct (t (le_before e)) as [new|] eqn:Et.
  - rewrite (spec_transform _ _ _ Et) in Hspec. injection Hspec as -> ->. auto.
  - rewrite (spec_transform_fails _ _ Et) in Hspec. injection Hspec as -> ->. auto.
Qed.

(* ------------------------------------------------------------------ no lost update *)

Definition writer_b (cfg : nat -> client) (e : lentry) : bool :=
  match mode_of cfg (le_client e) with Some LEx => true | _ => false end.
Definition writers (cfg : nat -> client) (l : list lentry) : nat := length (filter (writer_b cfg) l).

(* only Reads and Transforms by g on the inode: the register is g^n of the initial contents,
   n = number of Transform calls that have passed their unlock — none is lost *)
Theorem no_lost_update cfg f s i g :
  wf_cfg cfg -> reachable cfg f s ->
  (forall c, c_ino (cfg c) = i ->
     c_call (cfg c) = CRead \/ c_call (cfg c) = CTransform (fun b => Some (g b))) ->
  reg s i = Nat.iter (writers cfg (lin s i)) g (content_of (f i)).
Proof.
  intros Hwf Hr Hcalls.
  destruct (linearizable cfg f s Hwf Hr) as [Hlog _]. destruct (Hlog i) as [Hleg [_ Hok]].
  revert Hok. generalize (reg s i) (lin s i) Hleg. clear Hleg Hlog.
  induction 1 as [|e l Hl IH]; intros Hok; [reflexivity|].
  assert (IH' : le_before e = Nat.iter (writers cfg l) g (content_of (f i))).
  { apply IH. intros e' Hin. apply Hok. now right. }
  destruct (Hok e (or_introl eq_refl)) as [Hino [[Hm Ha]|[Hm Ha]]];
    unfold writers; simpl; unfold writer_b at 1; rewrite Hm.
  - rewrite Ha. exact IH'.
  - simpl. fold (writers cfg l). rewrite <- IH', <- Ha.
    destruct (Hcalls _ Hino) as [Hc|Hc]; unfold mode_of in Hm; rewrite Hc in *.
    + discriminate Hm.
    + simpl. now rewrite (spec_transform _ _ (g (le_before e))).
Qed.

(* and when nobody holds the exclusive lock that is what the file holds *)
Corollary no_lost_update_contents cfg f s i g :
  wf_cfg cfg -> reachable cfg f s ->
  (forall c, c_ino (cfg c) = i ->
     c_call (cfg c) = CRead \/ c_call (cfg c) = CTransform (fun b => Some (g b))) ->
  (forall c, holds c LEx (ltab (st_os s) i) = false) ->
  content_of (files (st_os s) i) = Nat.iter (writers cfg (lin s i)) g (content_of (f i)).
Proof.
  intros Hwf Hr Hcalls Hno. rewrite (register_invariant cfg f s i Hwf Hr Hno).
  now apply no_lost_update.
Qed.

(* ------------------------------------------------------------------ examples (non-vacuity) *)

Definition bump (b : bytes) : bytes := b ++ [x2b].
Definition ex7_cfg (c : nat) : client :=
  match c with
  | 0 | 1 | 2 => {| c_ino := 0; c_call := CTransform (fun b => Some (bump b)) |}
  | _ => {| c_ino := 0; c_call := CRead |}
  end.

Example ex7_wf : wf_cfg ex7_cfg.
Proof.
  intros c. unfold ex7_cfg, wf_call. destruct c as [|[|[|c]]]; cbn [c_call body_of_call];
    try apply io_only_transform; apply io_only_read.
Qed.

(* three transformers and a reader, interleaved (the reader and the second and third
   transformer all open the file while the first holds the lock): nothing is lost, the reader
   sees a complete intermediate value *)
Example ex7_three_transforms :
  let s := run ex7_cfg (init_state ex7_cfg (fun _ => Some [x30]))
             (runs 0 4 ++ runs 1 1 ++ runs 2 1 ++ runs 3 1 ++ [EvEintr 1; EvRun 2; EvRun 3] ++
              runs 0 5 ++ runs 3 2 ++ runs 1 2 ++ runs 3 5 ++ runs 1 9 ++ runs 2 9) in
  files (st_os s) 0 = Some [x30; x2b; x2b; x2b] /\
  progs s 3 = Ret (ResData [x30; x2b]) /\
  map le_client (lin s 0) = [2; 1; 3; 0] /\
  writers ex7_cfg (lin s 0) = 3 /\ reg s 0 = [x30; x2b; x2b; x2b].
Proof. vm_compute. repeat split. Qed.

(* ------------------------------------------------------------------ one log entry per client *)

Lemma cnt_zero_notin c L : (forall e, In e L -> le_client e <> c) -> cnt c L = 0.
Proof.
  induction L as [|e L IH]; intros H; [reflexivity|].
  rewrite cnt_cons_other; [apply IH|apply H; now left]. intros e' Hin. apply H. now right.
Qed.

Theorem one_entry_per_client cfg f s c i :
  wf_cfg cfg -> reachable cfg f s ->
  cnt c (lin s i) <= 1 /\ (i <> c_ino (cfg c) -> cnt c (lin s i) = 0).
Proof.
  intros Hwf Hr. pose proof (inv07_of_reachable _ _ _ Hwf Hr) as Hinv.
  assert (Hother : i <> c_ino (cfg c) -> cnt c (lin s i) = 0).
  { intros Hi. apply cnt_zero_notin. intros e Hin Hc.
    destruct (j_ent _ _ _ Hinv i e Hin) as [Hino _]. rewrite Hc in Hino. congruence. }
  split; [|exact Hother].
  destruct (Nat.eq_dec i (c_ino (cfg c))) as [->|Hi]; [|rewrite (Hother Hi); lia].
  pose proof (j_ph _ _ _ Hinv c) as Hp. unfold cph7 in Hp.
  destruct Hp; try lia; try (destruct m; simpl in *; lia).
Qed.

(* a call that went through Close has exactly one *)
Theorem completed_call_one_entry cfg f s c x :
  wf_cfg cfg -> reachable cfg f s -> returned s c x -> status s c = SClosing ->
  cnt c (lin s (c_ino (cfg c))) = 1.
Proof.
  intros Hwf Hr Hret Hst. pose proof (inv07_of_reachable _ _ _ Hwf Hr) as Hinv.
  pose proof (j_ph _ _ _ Hinv c) as Hp. unfold cph7 in Hp. red in Hret.
  rewrite Hret, Hst in Hp. remember (Ret x) as p eqn:Ep. remember SClosing as st eqn:Es.
  destruct Hp; try discriminate Es; try assumption;
    unfold close_prog in Ep; simpl in Ep; discriminate Ep.
Qed.

Lemma cnt_In c L e : In e L -> le_client e = c -> 1 <= cnt c L.
Proof.
  induction L as [|e' L IH]; intros Hin Hc; [destruct Hin|].
  destruct Hin as [->|Hin].
  - unfold cnt. simpl. rewrite Hc, Nat.eqb_refl. simpl. lia.
  - specialize (IH Hin Hc). unfold cnt in *. simpl. destruct (Nat.eqb _ _); simpl; lia.
Qed.

Lemma entries_distinct_of_cnt L : (forall c, cnt c L <= 1) -> NoDup (map le_client L).
Proof.
  induction L as [|e L IH]; intros H; [constructor|].
  simpl. constructor.
  - intros Hin. apply in_map_iff in Hin. destruct Hin as [e' [Hc Hin]].
    pose proof (cnt_In (le_client e) L e' Hin Hc) as H1.
    specialize (H (le_client e)). unfold cnt in H, H1. simpl in H.
    rewrite Nat.eqb_refl in H. simpl in H. lia.
  - apply IH. intros c. specialize (H c). unfold cnt in *. simpl in H.
    destruct (Nat.eqb _ _); simpl in H; lia.
Qed.

Theorem entries_distinct cfg f s i :
  wf_cfg cfg -> reachable cfg f s -> NoDup (map le_client (lin s i)).
Proof.
  intros Hwf Hr. apply entries_distinct_of_cnt. intros c.
  apply (one_entry_per_client cfg f s c i Hwf Hr).
Qed.

Lemma NoDup_map_filter {A B} (g : A -> B) (p : A -> bool) l :
  NoDup (map g l) -> NoDup (map g (filter p l)).
Proof.
  induction l as [|a l IH]; simpl; intros H; [constructor|].
  inversion H as [|? ? Hni Hnd]; subst. destruct (p a); simpl; [|now apply IH].
  constructor; [|now apply IH]. intros Hin. apply Hni.
  apply in_map_iff in Hin. destruct Hin as [a' [E Hin]]. apply filter_In in Hin.
  apply in_map_iff. exists a'. tauto.
Qed.

(* exactly: when cs lists (once each) the Transform-by-g calls on the inode that have been
   started, and all of them have returned without error, the register is g^|cs| of the initial
   contents *)
Theorem no_lost_update_exact cfg f s i g cs :
  wf_cfg cfg -> reachable cfg f s ->
  (forall c, c_ino (cfg c) = i ->
     c_call (cfg c) = CRead \/ c_call (cfg c) = CTransform (fun b => Some (g b))) ->
  NoDup cs ->
  (forall c, In c cs -> c_ino (cfg c) = i /\ c_call (cfg c) = CTransform (fun b => Some (g b)) /\
                        returned s c ResOk) ->
  (forall c, c_ino (cfg c) = i -> c_call (cfg c) = CTransform (fun b => Some (g b)) ->
             ~ In c cs -> t_inv s c = None) ->
  reg s i = Nat.iter (length cs) g (content_of (f i)).
Proof.
  intros Hwf Hr Hcalls Hnd Hcs Hrest.
  rewrite (no_lost_update cfg f s i g Hwf Hr Hcalls). f_equal.
  destruct (linearizable cfg f s Hwf Hr) as [Hlog Hdone]. destruct (Hlog i) as [_ [_ Hok]].
  pose proof (invT_of_reachable _ _ _ Hwf Hr) as HT.
  unfold writers. rewrite <- (map_length le_client).
  apply Permutation_length. apply NoDup_Permutation.
  - apply NoDup_map_filter. now apply (entries_distinct cfg f s i).
  - exact Hnd.
  - intros c. split.
    + intros Hin. apply in_map_iff in Hin. destruct Hin as [e [Hc Hin]].
      apply filter_In in Hin. destruct Hin as [Hin Hw].
      destruct (Hok e Hin) as [Hino _]. rewrite Hc in Hino.
      unfold writer_b in Hw. rewrite Hc in Hw.
      destruct (Hcalls c Hino) as [Hcall|Hcall].
      * unfold mode_of in Hw. rewrite Hcall in Hw. discriminate Hw.
      * destruct (in_dec Nat.eq_dec c cs) as [Hi|Hni]; [exact Hi|exfalso].
        specialize (Hrest c Hino Hcall Hni).
        destruct (t_entry_inv _ HT _ _ Hin) as [t0 [Ht0 _]]. rewrite Hc in Ht0. congruence.
    + intros Hin. destruct (Hcs c Hin) as [Hino [Hcall Hret]].
      destruct (Hdone c _ Hret) as [[_ E]|[_ [e [t0 [t1 [Hine [Hc _]]]]]]]; [discriminate E|].
      rewrite Hino in Hine. apply in_map_iff. exists e. split; [exact Hc|].
      apply filter_In. split; [exact Hine|]. unfold writer_b, mode_of. rewrite Hc, Hcall. reflexivity.
Qed.

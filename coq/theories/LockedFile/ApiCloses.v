(* lockedfile (C06): the structure of the source the model's programs rely on — every
   convenience function closes the File it acquired before anything can return (constants
   regenerated from the AST of lockedfile.go / mutex.go on every run). *)
From Coq Require Import List NArith.
From GI Require Import Gen.LockedFileConsts.

Lemma api_closes_on_every_path :
  read_closes_on_every_path = true /\ write_closes_on_every_path = true /\
  transform_closes_on_every_path = true /\ mutex_unlock_closes = true.
Proof. repeat split; reflexivity. Qed.


(* lockedfile (C06, C07): the functions of Gen/LockedFileSrc.v -- translated from the Go source on
   every run -- are, for EVERY record of operating-system operations, every world and every
   argument, the hand-written program terms of LockedFile.v run by SrcLib.run_prog: the same
   operations in the same order with the same arguments, the same control flow on every result,
   the same returned value.  Proof scripts mention no generated hypothesis or bound-variable name. *)
From Coq Require Import List NArith ZArith Bool Lia.
From Coq.Strings Require Import Byte.
From GI Require Import Lib.Bytes Lib.GoSem Lib.GoSemWorld.
From GI Require Import Gen.LockedFileConsts LockedFile.LockedFile LockedFile.LockedFileA.
From GI Require Import LockedFile.Policy.
From GI Require Import LockedFile.SrcLib Gen.LockedFileSrc.
Import ListNotations.
Import GoNotations.
Local Open Scope go_scope.

(* ------------------------------------------------------------------ flags: N (model) and Z (source) *)

Lemma of_N_land : forall a b, Z.land (Z.of_N a) (Z.of_N b) = Z.of_N (N.land a b).
Proof. destruct a, b; reflexivity. Qed.
Lemma of_N_ldiff : forall a b, Z.ldiff (Z.of_N a) (Z.of_N b) = Z.of_N (N.ldiff a b).
Proof. destruct a, b; reflexivity. Qed.
Lemma of_N_eqb : forall a b, (Z.of_N a =? Z.of_N b)%Z = N.eqb a b.
Proof.
  intros a b. destruct (N.eqb_spec a b) as [->|Hne].
  - apply Z.eqb_refl.
  - apply Z.eqb_neq. intro H. apply Hne. now apply N2Z.inj.
Qed.

Section Facts.
Variable OS : os_ops.

(* ------------------------------------------------------------------ filelock: lock, Lock, RLock, Unlock *)

(* the loop of filelock.lock: flock until the result is not EINTR *)
Fixpoint flock_retry (n : nat) (f : Handle OS) (how : Z) (w : World OS) : GoSem.res (World OS * werr) :=
  match n with
  | O => OutOfFuel
  | S n' =>
      match sys_flock OS w (h_fd OS f) how with
      | (w', e) => if werr_eqb e werr_EINTR then flock_retry n' f how w' else Ok (w', e)
      end
  end.

Lemma lock_loop_eq : forall (L : Type) fuel n f how w e0,
  fl_lock_loop1 OS (L := L) fuel n f how w e0 = (x <- flock_retry n f how w ;; Ok (Normal x)).
Proof.
  intros L fuel n. induction n as [|n IH]; intros f how w e0; [reflexivity|].
  cbn [fl_lock_loop1 flock_retry].
  destruct (sys_flock OS w (h_fd OS f) how) as [w' e].
  destruct (werr_eqb e werr_EINTR); cbn; [apply IH|reflexivity].
Qed.

Lemma lockType_String_ok : forall how, fl_lockType_String how = Ok (lock_op_name how).
Proof.
  intro how. unfold lock_op_name, fl_lockType_String.
  change (Z.of_N sys_LOCK_SH) with 1%Z. change (Z.of_N sys_LOCK_EX) with 2%Z.
  destruct (how =? 1)%Z; [reflexivity|]. destruct (how =? 2)%Z; reflexivity.
Qed.

Lemma lock_err_nil : forall how f e, werr_is_nil (lock_err OS how f e) = werr_is_nil e.
Proof. intros how f e. unfold lock_err. destruct (werr_is_nil e) eqn:H; reflexivity. Qed.

Theorem lock_eq : forall fuel w f how,
  fl_lock OS fuel w f how =
  (x <- flock_retry fuel f how w ;; Ok (fst x, lock_err OS how f (snd x))).
Proof.
  intros fuel w f how. unfold fl_lock. rewrite lock_loop_eq.
  destruct (flock_retry fuel f how w) as [[w' e]| |]; cbn; try reflexivity.
  unfold lock_err. destruct (werr_is_nil e); cbn; [reflexivity|].
  rewrite lockType_String_ok. reflexivity.
Qed.

Lemma Lock_eq : forall fuel w f,
  fl_Lock OS fuel w f =
  (x <- flock_retry fuel f (Z.of_N filelock_lock_arg) w ;; Ok (fst x, lock_err OS (Z.of_N filelock_lock_arg) f (snd x))).
Proof.
  intros. unfold fl_Lock. rewrite lock_eq.
  destruct (flock_retry _ _ _ _) as [[w' e]| |]; reflexivity.
Qed.
Lemma RLock_eq : forall fuel w f,
  fl_RLock OS fuel w f =
  (x <- flock_retry fuel f (Z.of_N filelock_rlock_arg) w ;; Ok (fst x, lock_err OS (Z.of_N filelock_rlock_arg) f (snd x))).
Proof.
  intros. unfold fl_RLock. rewrite lock_eq.
  destruct (flock_retry _ _ _ _) as [[w' e]| |]; reflexivity.
Qed.
Lemma Unlock_eq : forall fuel w f,
  fl_Unlock OS fuel w f =
  (x <- flock_retry fuel f (Z.of_N filelock_unlock_arg) w ;; Ok (fst x, lock_err OS (Z.of_N filelock_unlock_arg) f (snd x))).
Proof.
  intros. unfold fl_Unlock, fl_unlock. rewrite lock_eq.
  destruct (flock_retry _ _ _ _) as [[w' e]| |]; reflexivity.
Qed.

(* the model's Retry of a flock is that loop *)
Lemma retry_flock : forall path perm n how f w,
  retry_op OS path perm n (OFlock how) f w =
  (x <- flock_retry n f (Z.of_N how) w ;;
   Ok (fst x, f, res_of_err (snd x), lock_err OS (Z.of_N how) f (snd x))).
Proof.
  intros path perm n how. induction n as [|n IH]; intros f w; [reflexivity|].
  cbn [retry_op flock_retry do_op].
  destruct (sys_flock OS w (h_fd OS f) (Z.of_N how)) as [w' e].
  unfold res_of_flock. destruct (werr_eqb e werr_EINTR); [apply IH|].
  cbn. unfold res_of_err. destruct (werr_is_nil e); reflexivity.
Qed.

(* an unlock is performed once: flock(LOCK_UN) does not report EINTR *)
Lemma unlock_once : forall fuel f w, unlock_no_eintr OS -> (1 <= fuel)%nat ->
  flock_retry fuel f (Z.of_N filelock_unlock_arg) w = Ok (sys_flock OS w (h_fd OS f) (Z.of_N filelock_unlock_arg)).
Proof.
  intros fuel f w Hun Hfuel. destruct fuel as [|n]; [lia|]. cbn [flock_retry].
  specialize (Hun w (h_fd OS f)).
  destruct (sys_flock OS w (h_fd OS f) (Z.of_N filelock_unlock_arg)) as [w' e]. cbn in Hun. now rewrite Hun.
Qed.
Lemma do_unlock : forall path perm f w, unlock_no_eintr OS ->
  do_op OS path perm (OFlock filelock_unlock_arg) f w =
  (fst (sys_flock OS w (h_fd OS f) (Z.of_N filelock_unlock_arg)), f,
   res_of_err (snd (sys_flock OS w (h_fd OS f) (Z.of_N filelock_unlock_arg))),
   lock_err OS (Z.of_N filelock_unlock_arg) f (snd (sys_flock OS w (h_fd OS f) (Z.of_N filelock_unlock_arg)))).
Proof.
  intros path perm f w Hun. cbn [do_op]. specialize (Hun w (h_fd OS f)).
  destruct (sys_flock OS w (h_fd OS f) (Z.of_N filelock_unlock_arg)) as [w' e]. cbn in *.
  unfold res_of_flock. now rewrite Hun.
Qed.

(* ------------------------------------------------------------------ tactics *)

Ltac break_step :=
  match goal with
  | |- context [match do_op ?a ?b ?c ?d ?e ?f with _ => _ end] =>
      destruct (do_op a b c d e f) as [[[? ?] ?] ?]
  | |- context [match retry_op ?a ?b ?c ?d ?e ?f ?g with _ => _ end] =>
      destruct (retry_op a b c d e f g) as [[[[? ?] ?] ?]| |]
  | |- context [match flock_retry ?a ?b ?c ?d with _ => _ end] =>
      destruct (flock_retry a b c d) as [[? ?]| |]
  | |- context [match ?x with ROk => _ | _ => _ end] => destruct x
  | |- context [if ?c then _ else _] => destruct c
  end.

Ltac fin :=
  cbn; unfold first_err, res_of_err, result_of_err, result_of_data; cbn;
  repeat (first [rewrite lock_err_nil | match goal with H : werr_is_nil _ = _ |- _ => rewrite H end]; cbn);
  try reflexivity.

(* ------------------------------------------------------------------ closeFile, (File).Close *)

Notation UN := (Z.of_N filelock_unlock_arg).

(* the two calls of closeFile on handle f in world w *)
Definition cl_w1 (f : Handle OS) (w : World OS) : World OS := fst (sys_flock OS w (h_fd OS f) UN).
Definition cl_e1 (f : Handle OS) (w : World OS) : werr := snd (sys_flock OS w (h_fd OS f) UN).
Definition cl_w2 (f : Handle OS) (w : World OS) : World OS := fst (os_close OS (cl_w1 f w) f).
Definition cl_e2 (f : Handle OS) (w : World OS) : werr := snd (os_close OS (cl_w1 f w) f).
(* the error closeFile returns: the unlock's, else the close's *)
Definition cl_err (f : Handle OS) (w : World OS) : werr :=
  first_err (lock_err OS UN f (cl_e1 f w)) (cl_e2 f w).

Hypothesis Hun : unlock_no_eintr OS.

Theorem closeFile_eq : forall fuel w f, (1 <= fuel)%nat ->
  lf_closeFile OS fuel w f = Ok (cl_w2 f w, cl_err f w).
Proof.
  intros fuel w f Hfuel. unfold lf_closeFile. rewrite Unlock_eq, unlock_once by assumption.
  unfold cl_err, cl_w2, cl_e2, cl_w1, cl_e1, first_err.
  destruct (sys_flock OS w (h_fd OS f) UN) as [w1 e1]. cbn [fst snd GoSem.bind].
  destruct (os_close OS w1 f) as [w2 e2]. cbn [fst snd GoSem.bind].
  destruct (werr_is_nil (lock_err OS UN f e1)); reflexivity.
Qed.

(* the model's close_prog performs exactly these two calls *)
Theorem run_close : forall path perm fuel k f w h e,
  run_prog OS path perm fuel (close_prog k) f w h e =
  run_prog OS path perm fuel k f (cl_w2 f w)
    ((OClose, res_of_err (cl_e2 f w)) :: (OFlock filelock_unlock_arg, res_of_err (cl_e1 f w)) :: h)
    (first_err (first_err e (lock_err OS UN f (cl_e1 f w))) (cl_e2 f w)).
Proof.
  intros. unfold close_prog. change closefile_unlock_first with true. cbn [run_prog].
  rewrite do_unlock by assumption. cbn [do_op].
  unfold cl_w2, cl_e2, cl_w1, cl_e1.
  destruct (os_close OS (fst (sys_flock OS w (h_fd OS f) UN)) f) as [w2 e2]. reflexivity.
Qed.

(* a File as OpenFile makes it *)
Definition file_of (f : Handle OS) (closed : bool) : lf_File OS := lf_mk_File OS (lf_mk_osFile OS f) closed.

Theorem File_Close_eq : forall fuel w f, (1 <= fuel)%nat ->
  lf_File_Close OS fuel w (file_of f false) = Ok (cl_w2 f w, file_of f true, cl_err f w).
Proof.
  intros fuel w f Hfuel. unfold lf_File_Close, file_of. cbn.
  rewrite closeFile_eq by assumption. reflexivity.
Qed.

(* a second Close performs no operation and reports fs.ErrClosed *)
Theorem File_Close_closed : forall fuel w f,
  exists e, lf_File_Close OS fuel w (file_of f true) = Ok (w, file_of f true, e) /\ werr_is_nil e = false.
Proof. intros. eexists. split; reflexivity. Qed.

(* ------------------------------------------------------------------ openFile *)

Lemma strip_eq : forall flags,
  Z.ldiff (Z.of_N flags) (Z.of_N openfile_strip_mask) = Z.of_N (strip flags openfile_strip_mask).
Proof. intro. apply of_N_ldiff. Qed.
Lemma switch_eq : forall flags,
  (((Z.land (Z.of_N flags) (Z.of_N lock_switch_mask) =? 1) || (Z.land (Z.of_N flags) (Z.of_N lock_switch_mask) =? 2))%Z)%bool =
  existsb (N.eqb (N.land flags lock_switch_mask)) lock_switch_cases.
Proof.
  intro. rewrite of_N_land. change 1%Z with (Z.of_N 1). change 2%Z with (Z.of_N 2).
  rewrite !of_N_eqb. cbn. now rewrite orb_false_r.
Qed.
Lemma trunc_cond_eq : forall flags,
  (Z.land (Z.of_N flags) (Z.of_N truncate_cond_mask) =? Z.of_N truncate_cond_mask)%Z = has_flag flags truncate_cond_mask.
Proof. intro. rewrite of_N_land, of_N_eqb. reflexivity. Qed.

Variable a : attr.
Hypothesis Hstat : stat_static OS (a_regular a).

(* openFile alone: the model's program that ends when openFile returns *)
Definition open_only_a (flags : N) : prog :=
  open_file_prog_a a flags (fun ok => Ret (if ok then ResOk else ResErr)).

(* what openFile hands back, read off the run of that program *)
Definition open_out (x : World OS * Handle OS * history * werr * result) : World OS * Handle OS * werr :=
  match x with
  | (w', f', _, e', r) => (w', if result_is_ok r then f' else nil_handle OS, if result_is_ok r then WNil else e')
  end.

Theorem openFile_eq : forall fuel w name flags perm f0 h, (1 <= fuel)%nat ->
  lf_openFile OS fuel w name (Z.of_N flags) perm =
  (x <- run_prog OS name perm fuel (open_only_a flags) f0 w h WNil ;; Ok (open_out x)).
Proof.
  intros fuel w name flags perm f0 h Hfuel.
  unfold lf_openFile.
  change 512%Z with (Z.of_N openfile_strip_mask) at 1. rewrite strip_eq.
  change 3%Z with (Z.of_N lock_switch_mask). rewrite switch_eq.
  change 512%Z with (Z.of_N truncate_cond_mask). rewrite trunc_cond_eq.
  unfold open_only_a, open_file_prog_a, lock_stage, trunc_stage_a, trunc_fail_prog, flock_step, lock_arg_of_flags.
  change truncate_after_lock with true. change lock_retries_eintr with true.
  change truncate_failure_unlocks_first with true. change truncate_unlock_inside_regular_check with true.
  change lock_case_calls_lock with true. change lock_default_calls_rlock with true.
  cbn [run_prog do_op].
  destruct (os_open OS w name (Z.of_N (strip flags openfile_strip_mask)) perm) as [[w1 f1] e1].
  unfold res_of_err, first_err. destruct (werr_is_nil e1) eqn:He1; cbn [negb werr_is_nil]; [|cbn; reflexivity].
  rewrite Lock_eq, RLock_eq.
  destruct (existsb (N.eqb (N.land flags lock_switch_mask)) lock_switch_cases);
    cbn [run_prog]; rewrite retry_flock.
  all: match goal with |- context [flock_retry ?a ?b ?c ?d] => destruct (flock_retry a b c d) as [[w2 e2]| |] end;
    cbn [GoSem.bind fst snd run_prog]; try reflexivity.
  all: rewrite lock_err_nil; unfold res_of_err; destruct (werr_is_nil e2) eqn:He2; cbn [negb].
  all: unfold first_err; rewrite He1.
  all: try solve [cbn [run_prog do_op]; destruct (os_close OS w2 f1) as [w3 e3]; fin].
  all: destruct (has_flag flags truncate_cond_mask); cbn [run_prog do_op GoSem.bindT]; try solve [fin].
  all: change (Z.of_nat (N.to_nat truncate_size)) with 0%Z;
    destruct (os_ftruncate OS w2 f1 0) as [w3 e3]; unfold res_of_err;
    destruct (werr_is_nil e3) eqn:He3; cbn [negb GoSem.bindO GoSem.bindT run_prog]; try solve [fin].
  all: pose proof (Hstat w3 f1) as Hs; unfold stat_regular in Hs;
    destruct (os_fstat OS w3 f1) as [fi se]; cbv beta iota; rewrite Hs; destruct (a_regular a);
    cbn [GoSem.bindO GoSem.bindT run_prog]; try solve [fin].
  all: rewrite Unlock_eq, unlock_once, do_unlock by assumption;
    destruct (sys_flock OS w3 (h_fd OS f1) UN) as [w4 e4]; cbn [fst snd GoSem.bind do_op];
    destruct (os_close OS w4 f1) as [w5 e5]; fin.
Qed.

(* ------------------------------------------------------------------ programs that go on after openFile *)

Theorem run_bind : forall path perm fuel p g f w h e,
  run_prog OS path perm fuel (LockedFile.bind p g) f w h e =
  (x <- run_prog OS path perm fuel p f w h e ;;
   match x with (w', f', h', e', r) => run_prog OS path perm fuel (g r) f' w' h' e' end).
Proof.
  intros path perm fuel p g. induction p as [r|o k IH|o k IH]; intros f w h e; cbn [LockedFile.bind run_prog].
  - reflexivity.
  - destruct (do_op OS path perm o f w) as [[[w' f'] r] e']. apply IH.
  - destruct (retry_op OS path perm fuel o f w) as [[[[w' f'] r] e']| |]; cbn; [apply IH|reflexivity|reflexivity].
Qed.

(* the model's open_file_prog with any continuation: openFile, then the continuation *)
Theorem run_open_k : forall path perm fuel flags k f0 w h e,
  run_prog OS path perm fuel (open_file_prog_a a flags k) f0 w h e =
  (x <- run_prog OS path perm fuel (open_only_a flags) f0 w h e ;;
   match x with (w', f', h', e', r) => run_prog OS path perm fuel (k (result_is_ok r)) f' w' h' e' end).
Proof.
  intros. unfold open_only_a, open_file_prog_a, lock_stage, trunc_stage_a, trunc_fail_prog, flock_step.
  change truncate_after_lock with true. change lock_retries_eintr with true.
  change truncate_failure_unlocks_first with true. change truncate_unlock_inside_regular_check with true.
  cbn [run_prog].
  repeat (break_step; cbn [run_prog GoSem.bind result_is_ok]; try reflexivity).
Qed.

(* when openFile fails, an operation has reported an error *)
Lemma res_of_err_ok : forall e, res_of_err e = ROk -> werr_is_nil e = true.
Proof. intros e. unfold res_of_err. destruct (werr_is_nil e); [reflexivity|discriminate]. Qed.

Theorem open_only_fail : forall path perm fuel flags f0 w h w' f' h' e' r,
  run_prog OS path perm fuel (open_only_a flags) f0 w h WNil = Ok (w', f', h', e', r) ->
  result_is_ok r = false -> werr_is_nil e' = false.
Proof.
  intros path perm fuel flags f0 w h w' f' h' e' r.
  unfold open_only_a, open_file_prog_a, lock_stage, trunc_stage_a, trunc_fail_prog, flock_step.
  change truncate_after_lock with true. change lock_retries_eintr with true.
  change truncate_failure_unlocks_first with true. change truncate_unlock_inside_regular_check with true.
  cbn [run_prog do_op].
  destruct (os_open OS w path (Z.of_N (strip flags openfile_strip_mask)) perm) as [[w1 f1] e1].
  unfold res_of_err at 1. destruct (werr_is_nil e1) eqn:He1; cbn [run_prog].
  2:{ intros H _. inversion H; subst. fin. }
  rewrite retry_flock.
  destruct (flock_retry fuel f1 (Z.of_N (lock_arg_of_flags flags)) w1) as [[w2 e2]| |]; cbn [GoSem.bind fst snd]; try discriminate.
  unfold res_of_err at 1. destruct (werr_is_nil e2) eqn:He2; cbn [run_prog do_op].
  2:{ destruct (os_close OS w2 f1) as [w3 e3]. intros H _. inversion H; subst. fin. }
  destruct (has_flag flags truncate_cond_mask); cbn [run_prog do_op].
  2:{ intros H Hr. inversion H; subst. discriminate. }
  destruct (os_ftruncate OS w2 f1 (Z.of_nat (N.to_nat truncate_size))) as [w3 e3].
  unfold res_of_err at 1. destruct (werr_is_nil e3) eqn:He3; cbn [run_prog].
  { intros H Hr. inversion H; subst. discriminate. }
  destruct (a_regular a); cbn [run_prog].
  2:{ intros H Hr. inversion H; subst. discriminate. }
  destruct (do_op OS path perm (OFlock filelock_unlock_arg) f1 w3) as [[[w4 f4] r4] e4].
  destruct (do_op OS path perm OClose f4 w4) as [[[w5 f5] r5] e5].
  intros H _. inversion H; subst. fin.
Qed.

(* the operations openFile performs, in the order it performs them: no open carries O_TRUNC, and a
   truncation comes only after the lock request of openFile's switch has been granted *)
Fixpoint hist_ok (lockarg : N) (locked : bool) (chrono : history) : bool :=
  match chrono with
  | [] => true
  | (OOpen fl, _) :: rest => negb (has_flag fl sys_O_TRUNC) && hist_ok lockarg locked rest
  | (OFlock how, ROk) :: rest => hist_ok lockarg (locked || N.eqb how lockarg) rest
  | (OFtruncate _, _) :: rest => locked && hist_ok lockarg locked rest
  | _ :: rest => hist_ok lockarg locked rest
  end.

Lemma strip_no_trunc : forall flags, has_flag (strip flags openfile_strip_mask) sys_O_TRUNC = false.
Proof.
  intro flags. unfold has_flag, strip. apply N.eqb_neq. intro H.
  assert (Hb : N.testbit (N.land (N.ldiff flags openfile_strip_mask) sys_O_TRUNC) 9 = N.testbit sys_O_TRUNC 9) by now rewrite H.
  rewrite N.land_spec, N.ldiff_spec in Hb. cbn in Hb. rewrite andb_false_r in Hb. discriminate.
Qed.

Theorem open_hist_ok : forall path perm fuel flags f0 w w' f' h' e' r,
  run_prog OS path perm fuel (open_only_a flags) f0 w [] WNil = Ok (w', f', h', e', r) ->
  hist_ok (lock_arg_of_flags flags) false (rev h') = true.
Proof.
  intros path perm fuel flags f0 w w' f' h' e' r.
  unfold open_only_a, open_file_prog_a, lock_stage, trunc_stage_a, trunc_fail_prog, flock_step.
  change truncate_after_lock with true. change lock_retries_eintr with true.
  change truncate_failure_unlocks_first with true. change truncate_unlock_inside_regular_check with true.
  cbn [run_prog].
  repeat (break_step; cbn [run_prog]); intro H; inversion H; subst; cbn [rev app hist_ok];
    rewrite ?strip_no_trunc, ?N.eqb_refl; cbn [negb andb orb];
    repeat match goal with |- context [match ?x with ROk => _ | _ => _ end] => destruct x end; reflexivity.
Qed.

(* ------------------------------------------------------------------ OpenFile, Open, Create, Edit *)

(* what OpenFile hands back, read off the run of the model's program *)
Definition OpenFile_out (x : World OS * Handle OS * history * werr * result)
  : World OS * option (lf_File OS) * werr :=
  match x with
  | (w', f', _, e', r) =>
      (w', if result_is_ok r then Some (file_of f' false) else None, if result_is_ok r then WNil else e')
  end.

Theorem OpenFile_eq : forall fuel w name flags perm f0 h, (1 <= fuel)%nat ->
  lf_OpenFile OS fuel w name (Z.of_N flags) perm =
  (x <- run_prog OS name perm fuel (open_only_a flags) f0 w h WNil ;; Ok (OpenFile_out x)).
Proof.
  intros fuel w name flags perm f0 h Hfuel. unfold lf_OpenFile.
  rewrite (openFile_eq fuel w name flags perm f0 h Hfuel).
  destruct (run_prog OS name perm fuel (open_only_a flags) f0 w h WNil) as [[[[[w' f'] h'] e'] r]| |] eqn:Hrun;
    cbn [GoSem.bind open_out OpenFile_out]; try reflexivity.
  destruct (result_is_ok r) eqn:Hr; cbn; [reflexivity|].
  rewrite (open_only_fail _ _ _ _ _ _ _ _ _ _ _ _ Hrun Hr). reflexivity.
Qed.

Theorem Open_eq : forall fuel w name f0 h, (1 <= fuel)%nat ->
  lf_Open OS fuel w name =
  (x <- run_prog OS name 0 fuel (open_only_a open_flags) f0 w h WNil ;; Ok (OpenFile_out x)).
Proof.
  intros. unfold lf_Open. change 0%Z with (Z.of_N open_flags) at 1. rewrite (OpenFile_eq fuel w name open_flags 0 f0 h) by assumption.
  destruct (run_prog _ _ _ _ _ _ _ _ _) as [[[[[w' f'] h'] e'] r]| |]; reflexivity.
Qed.
Theorem Create_eq : forall fuel w name f0 h, (1 <= fuel)%nat ->
  lf_Create OS fuel w name =
  (x <- run_prog OS name 438 fuel (open_only_a create_flags) f0 w h WNil ;; Ok (OpenFile_out x)).
Proof.
  intros. unfold lf_Create. change 578%Z with (Z.of_N create_flags). rewrite (OpenFile_eq fuel w name create_flags 438 f0 h) by assumption.
  destruct (run_prog _ _ _ _ _ _ _ _ _) as [[[[[w' f'] h'] e'] r]| |]; reflexivity.
Qed.
Theorem Edit_eq : forall fuel w name f0 h, (1 <= fuel)%nat ->
  lf_Edit OS fuel w name =
  (x <- run_prog OS name 438 fuel (open_only_a edit_flags) f0 w h WNil ;; Ok (OpenFile_out x)).
Proof.
  intros. unfold lf_Edit. change 66%Z with (Z.of_N edit_flags). rewrite (OpenFile_eq fuel w name edit_flags 438 f0 h) by assumption.
  destruct (run_prog _ _ _ _ _ _ _ _ _) as [[[[[w' f'] h'] e'] r]| |]; reflexivity.
Qed.

(* ------------------------------------------------------------------ history and first error do not steer a run *)

Definition run_wfr (x : World OS * Handle OS * history * werr * result) : World OS * Handle OS * result :=
  match x with (w', f', _, _, r) => (w', f', r) end.

Theorem run_irrel : forall path perm fuel p f w h e h2 e2,
  (x <- run_prog OS path perm fuel p f w h e ;; Ok (run_wfr x)) =
  (x <- run_prog OS path perm fuel p f w h2 e2 ;; Ok (run_wfr x)).
Proof.
  intros path perm fuel p. induction p as [r|o k IH|o k IH]; intros f w h e h2 e2; cbn [run_prog].
  - reflexivity.
  - destruct (do_op OS path perm o f w) as [[[w' f'] r] e']. apply IH.
  - destruct (retry_op OS path perm fuel o f w) as [[[[w' f'] r] e']| |]; [apply IH|reflexivity|reflexivity].
Qed.

(* what the model speaks about: the world afterwards and the result *)
Definition run_out (x : World OS * Handle OS * history * werr * result) : World OS * result :=
  match x with (w', _, _, _, r) => (w', r) end.

Theorem run_irrel_out : forall path perm fuel p f w h e h2 e2,
  (x <- run_prog OS path perm fuel p f w h e ;; Ok (run_out x)) =
  (x <- run_prog OS path perm fuel p f w h2 e2 ;; Ok (run_out x)).
Proof.
  intros path perm fuel p. induction p as [r|o k IH|o k IH]; intros f w h e h2 e2; cbn [run_prog].
  - reflexivity.
  - destruct (do_op OS path perm o f w) as [[[w' f'] r] e']. apply IH.
  - destruct (retry_op OS path perm fuel o f w) as [[[[w' f'] r] e']| |]; [apply IH|reflexivity|reflexivity].
Qed.

(* p; g  seen from outside: run p, then g on its result *)
Theorem run_bind_res : forall path perm fuel p g f w h e,
  (x <- run_prog OS path perm fuel (LockedFile.bind p g) f w h e ;; Ok (run_out x)) =
  (y <- (x <- run_prog OS path perm fuel p f w h e ;; Ok (run_wfr x)) ;;
   match y with (w', f', r) => x <- run_prog OS path perm fuel (g r) f' w' [] WNil ;; Ok (run_out x) end).
Proof.
  intros. rewrite run_bind.
  destruct (run_prog OS path perm fuel p f w h e) as [[[[[w' f'] h'] e'] r]| |]; cbn [GoSem.bind run_wfr]; try reflexivity.
  apply run_irrel_out.
Qed.

Theorem run_bind_out : forall path perm fuel p g f w h e,
  (x <- run_prog OS path perm fuel (LockedFile.bind p g) f w h e ;; Ok (run_wfr x)) =
  (y <- (x <- run_prog OS path perm fuel p f w h e ;; Ok (run_wfr x)) ;;
   match y with (w', f', r) => x <- run_prog OS path perm fuel (g r) f' w' [] WNil ;; Ok (run_wfr x) end).
Proof.
  intros. rewrite run_bind.
  destruct (run_prog OS path perm fuel p f w h e) as [[[[[w' f'] h'] e'] r]| |]; cbn [GoSem.bind run_wfr]; try reflexivity.
  apply run_irrel.
Qed.

(* ------------------------------------------------------------------ Read *)

Theorem Read_eq : forall fuel w name f0 h, (1 <= fuel)%nat ->
  (x <- lf_Read OS fuel w name ;; match x with (w', b, e) => Ok (w', result_of_data b e) end) =
  (x <- run_prog OS name 0 fuel (prog_of_call_a a CRead) f0 w h WNil ;; Ok (run_out x)).
Proof.
  intros fuel w name f0 h Hfuel. unfold lf_Read. rewrite (Open_eq fuel w name f0 h Hfuel).
  unfold prog_of_call_a, client_prog_a. rewrite run_open_k. cbn [flags_of_call body_of_call].
  destruct (run_prog OS name 0 fuel (open_only_a open_flags) f0 w h WNil) as [[[[[w1 f1] h1] e1] r1]| |] eqn:Hrun;
    cbn [GoSem.bind OpenFile_out]; try reflexivity.
  destruct (result_is_ok r1) eqn:Hr1.
  - cbn [werr_is_nil negb go_deref GoSem.bind file_of lf_File_osFile lf_osFile_File].
    unfold after_open. cbn [run_prog do_op]. rewrite run_bind. unfold read_body. cbn [run_prog do_op].
    destruct (os_read_all OS w1 f1) as [[w2 b] e2]. cbn [GoSem.bind].
    fold (file_of f1 false). rewrite File_Close_eq by assumption.
    unfold close_part. cbn [run_prog do_op]. 
    destruct (werr_is_nil e2) eqn:He2; cbn [run_prog GoSem.bind]; rewrite run_close; cbn; unfold result_of_data; rewrite He2; reflexivity.
  - rewrite (open_only_fail _ _ _ _ _ _ _ _ _ _ _ _ Hrun Hr1). cbn.
    unfold result_of_data. rewrite (open_only_fail _ _ _ _ _ _ _ _ _ _ _ _ Hrun Hr1). reflexivity.
Qed.

(* ------------------------------------------------------------------ Write *)

(* Write hands back the error of Close when the copy itself succeeded: the model's close_part
   with that result (same operations; LockedFile.close_part returns x itself, and
   Policy.write_outcome makes this correction afterwards from the history) *)
Definition close_result (x : result) (r1 r2 : mres) : result :=
  match x with
  | ResOk => match r1 with ROk => match r2 with ROk => ResOk | _ => ResErr end | _ => ResErr end
  | _ => x
  end.
Definition close_part_w (x : result) : prog :=
  Do (OMark MCloseCalled) (fun _ =>
    Do (OFlock filelock_unlock_arg) (fun r1 => Do OClose (fun r2 => Ret (close_result x r1 r2)))).
Definition write_prog_a (chunks : list bytes) (rerr : bool) : prog :=
  open_file_prog_a a write_flags (fun ok =>
    if ok then Do (OMark MReturned) (fun _ => LockedFile.bind (Policy.copy_body chunks rerr) close_part_w)
    else Ret ResErr).

(* close_part_w performs the operations of close_part *)
Theorem close_part_w_ops : forall path perm fuel x f w h e,
  run_prog OS path perm fuel (close_part_w x) f w h e =
  (y <- run_prog OS path perm fuel (close_part x) f w h e ;;
   match y with (w', f', h', e', _) =>
     Ok (w', f', h', e', close_result x (res_of_err (cl_e1 f w)) (res_of_err (cl_e2 f w))) end).
Proof.
  intros. unfold close_part_w, close_part, close_prog. change closefile_unlock_first with true.
  cbn [run_prog]. change (do_op OS path perm (OMark MCloseCalled) f w) with (w, f, ROk, WNil).
  cbn [run_prog]. rewrite do_unlock by assumption. cbn [do_op].
  unfold cl_e2, cl_w1, cl_e1.
  destruct (os_close OS (fst (sys_flock OS w (h_fd OS f) UN)) f) as [w2 e2]. reflexivity.
Qed.

(* io.Copy(f, content) is the model's copy_body *)
Theorem copy_run : forall path perm fuel chunks rerr n f w h e,
  (x <- run_prog OS path perm fuel (Policy.copy_body chunks (negb (werr_is_nil rerr))) f w h e ;; Ok (run_wfr x)) =
  match copy_chunks OS w f chunks rerr n with
  | (w', _, ec) => Ok (w', f, result_of_err ec)
  end.
Proof.
  intros path perm fuel chunks rerr. induction chunks as [|d rest IH]; intros n f w h e.
  - cbn. unfold result_of_err. destruct (werr_is_nil rerr); reflexivity.
  - cbn [Policy.copy_body copy_chunks]. unfold write_prog. destruct d as [|c d'].
    + apply IH.
    + cbn [run_prog do_op]. destruct (os_write OS w f (c :: d')) as [[w' k] ew].
      unfold res_of_err. destruct (werr_is_nil ew) eqn:Hew.
      * apply IH.
      * cbn. unfold result_of_err. now rewrite Hew.
Qed.

Theorem Write_eq : forall fuel w name chunks rerr perm f0 h, (1 <= fuel)%nat ->
  (x <- lf_Write OS fuel w name (chunks, rerr) perm ;; match x with (w', e) => Ok (w', result_of_err e) end) =
  (x <- run_prog OS name perm fuel (write_prog_a chunks (negb (werr_is_nil rerr))) f0 w h WNil ;; Ok (run_out x)).
Proof.
  intros fuel w name chunks rerr perm f0 h Hfuel. unfold lf_Write.
  change 577%Z with (Z.of_N write_flags). rewrite (OpenFile_eq fuel w name write_flags perm f0 h Hfuel).
  unfold write_prog_a. rewrite run_open_k.
  destruct (run_prog OS name perm fuel (open_only_a write_flags) f0 w h WNil) as [[[[[w1 f1] h1] e1] r1]| |] eqn:Hrun;
    cbn [GoSem.bind OpenFile_out]; try reflexivity.
  destruct (result_is_ok r1) eqn:Hr1.
  - cbn [werr_is_nil negb go_deref GoSem.bind file_of lf_File_osFile lf_osFile_File run_prog do_op].
    rewrite run_bind_res, (copy_run name perm fuel chunks rerr 0%Z).
    unfold io_copy. cbn [fst snd].
    destruct (copy_chunks OS w1 f1 chunks rerr 0) as [[w2 n2] ec]. cbn [GoSem.bind].
    fold (file_of f1 false). rewrite File_Close_eq by assumption.
    rewrite close_part_w_ops. unfold close_part. cbn [run_prog do_op]. rewrite run_close. cbn [run_prog GoSem.bind run_out].
    unfold result_of_err, close_result, cl_err.
    destruct (werr_is_nil ec) eqn:Hec; destruct (werr_is_nil (cl_e1 f1 w2)) eqn:H1;
      destruct (werr_is_nil (cl_e2 f1 w2)) eqn:H2; fin.
  - rewrite (open_only_fail _ _ _ _ _ _ _ _ _ _ _ _ Hrun Hr1). cbn.
    unfold result_of_err. rewrite (open_only_fail _ _ _ _ _ _ _ _ _ _ _ _ Hrun Hr1). reflexivity.
Qed.

(* the program of Write performs the operations of the model's writer_call: same worlds *)
Theorem write_prog_world : forall path perm fuel chunks rerr f0 w h e,
  (x <- run_prog OS path perm fuel (write_prog_a chunks rerr) f0 w h e ;; Ok (fst (run_out x))) =
  (x <- run_prog OS path perm fuel (prog_of_call_a a (Policy.writer_call chunks rerr)) f0 w h e ;; Ok (fst (run_out x))).
Proof.
  intros. unfold write_prog_a, Policy.writer_call, prog_of_call_a, client_prog_a. cbn [flags_of_call body_of_call].
  rewrite !run_open_k.
  destruct (run_prog OS path perm fuel (open_only_a write_flags) f0 w h e) as [[[[[w1 f1] h1] e1] r1]| |];
    cbn [GoSem.bind]; try reflexivity.
  destruct (result_is_ok r1); [|reflexivity].
  unfold after_open. cbn [run_prog do_op]. rewrite !run_bind.
  match goal with |- context [run_prog OS path perm fuel (Policy.copy_body chunks rerr) ?a1 ?a2 ?a3 ?a4] =>
    destruct (run_prog OS path perm fuel (Policy.copy_body chunks rerr) a1 a2 a3 a4) as [[[[[w2 f2] h2] e2] r2]| |] end;
    cbn [GoSem.bind]; try reflexivity.
  cbv beta iota. rewrite close_part_w_ops.
  destruct (run_prog OS path perm fuel (close_part r2) f2 w2 h2 e2) as [[[[[w3 f3] h3] e3] r3]| |]; reflexivity.
Qed.

(* ------------------------------------------------------------------ Transform *)

(* stepping a run seen from outside *)
Lemma ret_wfr : forall path perm fuel r f w h e,
  (x <- run_prog OS path perm fuel (Ret r) f w h e ;; Ok (run_wfr x)) = Ok (w, f, r).
Proof. reflexivity. Qed.
Lemma do_wfr : forall path perm fuel o k f w h e,
  (x <- run_prog OS path perm fuel (Do o k) f w h e ;; Ok (run_wfr x)) =
  match do_op OS path perm o f w with
  | (w', f', r, _) => x <- run_prog OS path perm fuel (k r) f' w' [] WNil ;; Ok (run_wfr x)
  end.
Proof.
  intros. cbn [run_prog]. destruct (do_op OS path perm o f w) as [[[w' f'] r] e']. apply run_irrel.
Qed.
Lemma pwrite_wfr : forall path perm fuel off d k f w h e,
  (x <- run_prog OS path perm fuel (pwrite_prog off d k) f w h e ;; Ok (run_wfr x)) =
  match file_write_at OS w f d (Z.of_nat off) with
  | (w', _, ew) => x <- run_prog OS path perm fuel (k (res_of_err ew)) f w' [] WNil ;; Ok (run_wfr x)
  end.
Proof.
  intros. unfold pwrite_prog, file_write_at. destruct d as [|c d'].
  - apply run_irrel.
  - cbn [run_prog do_op]. destruct (os_pwrite OS w f (c :: d') (Z.of_nat off)) as [[w' n] ew]. apply run_irrel.
Qed.

Lemma len_gtb : forall x y : bytes, (len x >? len y)%Z = (length y <? length x)%nat.
Proof.
  intros. unfold len. rewrite Z.gtb_ltb.
  destruct (Nat.ltb_spec (length y) (length x)); [apply Z.ltb_lt|apply Z.ltb_ge]; lia.
Qed.
Lemma len_geb : forall x y : bytes, (len x >=? len y)%Z = (length y <=? length x)%nat.
Proof.
  intros. unfold len. rewrite Z.geb_leb.
  destruct (Nat.leb_spec (length y) (length x)); [apply Z.leb_le|apply Z.leb_gt]; lia.
Qed.
Lemma slice_tail : forall x y : bytes, (length x <= length y)%nat ->
  go_slice y (len x) (len y) = Ok (skipn (length x) y).
Proof.
  intros x y Hle. unfold go_slice, slice_z, len.
  replace ((0 <=? Z.of_nat (length x)) && (Z.of_nat (length x) <=? Z.of_nat (length y)) &&
           (Z.of_nat (length y) <=? Z.of_nat (length y)))%Z with true.
  2:{ symmetry. rewrite !andb_true_iff, !Z.leb_le. lia. }
  rewrite !Nat2Z.id. rewrite firstn_all2; [reflexivity|]. rewrite skipn_length. lia.
Qed.
Lemma slice_head : forall x y : bytes, (length x <= length y)%nat ->
  go_slice y 0 (len x) = Ok (firstn (length x) y).
Proof.
  intros x y Hle. unfold go_slice, slice_z, len.
  replace ((0 <=? 0) && (0 <=? Z.of_nat (length x)) && (Z.of_nat (length x) <=? Z.of_nat (length y)))%Z with true.
  2:{ symmetry. rewrite !andb_true_iff, !Z.leb_le. lia. }
  rewrite Nat2Z.id. cbn. now rewrite Nat.sub_0_r.
Qed.

Ltac tstep := first
  [ rewrite pwrite_wfr
  | rewrite do_wfr; cbn [do_op]
  | rewrite ret_wfr
  | match goal with |- context [werr_is_nil ?e] => is_var e; destruct (werr_is_nil e) eqn:? end
  | match goal with |- context [file_write_at OS ?w ?f ?d ?o] => destruct (file_write_at OS w f d o) as [[? ?] ?] end
  | match goal with |- context [os_ftruncate OS ?w ?f ?n] => destruct (os_ftruncate OS w f n) as [? ?] end ];
  unfold res_of_err;
  repeat match goal with H : werr_is_nil _ = _ |- _ => rewrite H end;
  cbn [GoSem.bind GoSem.bindT negb fst snd werr_is_nil Z.of_nat].

Lemma bind_assoc : forall (A B C : Type) (m : GoSem.res A) (k : A -> GoSem.res B) (g : B -> GoSem.res C),
  (x <- (y <- m ;; k y) ;; g x) = (y <- m ;; x <- k y ;; g x).
Proof. intros. destruct m; reflexivity. Qed.
Lemma bind_map : forall (A B C : Type) (m : GoSem.res A) (m' : GoSem.res B) (g : A -> B) (K : A -> GoSem.res C) (K' : B -> GoSem.res C),
  (x <- m ;; Ok (g x)) = m' -> (forall x, K x = K' (g x)) -> (x <- m ;; K x) = (y <- m' ;; K' y).
Proof. intros A B C m m' g K K' H1 H2. rewrite <- H1. destruct m; cbn; auto. Qed.

Theorem Transform_eq : forall fuel w name t f0 h, (1 <= fuel)%nat ->
  (x <- lf_Transform OS fuel w name t ;; match x with (w', e) => Ok (w', result_of_err e) end) =
  (x <- run_prog OS name 438 fuel (prog_of_call_a a (CTransform (model_t t))) f0 w h WNil ;; Ok (run_out x)).
Proof.
  intros fuel w name t f0 h Hfuel. unfold lf_Transform. rewrite (Edit_eq fuel w name f0 h Hfuel).
  unfold prog_of_call_a, client_prog_a. rewrite run_open_k. cbn [flags_of_call body_of_call].
  destruct (run_prog OS name 438 fuel (open_only_a edit_flags) f0 w h WNil) as [[[[[w1 f1] h1] e1] r1]| |] eqn:Hrun;
    cbn [GoSem.bind OpenFile_out]; try reflexivity.
  destruct (result_is_ok r1) eqn:Hr1.
  2:{ rewrite (open_only_fail _ _ _ _ _ _ _ _ _ _ _ _ Hrun Hr1). cbn.
      unfold result_of_err. rewrite (open_only_fail _ _ _ _ _ _ _ _ _ _ _ _ Hrun Hr1). reflexivity. }
  cbn [werr_is_nil negb go_deref GoSem.bind file_of lf_File_osFile lf_osFile_File].
  unfold after_open. cbn [run_prog do_op]. rewrite run_bind_res.
  unfold transform_body. rewrite do_wfr. cbn [do_op].
  destruct (os_read_all OS w1 f1) as [[w2 old] er].
  rewrite bind_assoc.
  apply (bind_map _ _ _ _ _ (fun x : World OS * werr => (fst x, f1, result_of_err (snd x)))).
  2:{ intros [wk ek]. cbn [fst snd]. rewrite File_Close_eq by assumption. unfold close_part.
      cbn [run_prog do_op GoSem.bind]. rewrite run_close. reflexivity. }
  destruct (werr_is_nil er) eqn:Her; cbn [negb]; [|fin].
  unfold model_t. destruct (t old) as [new et]. destruct (werr_is_nil et) eqn:Het; cbn [negb]; [|fin].
  unfold transform_write. rewrite len_gtb, len_geb.
  (* the part after the first write (transform_main with the deferred rollback), from any world *)
  match goal with |- context [bindT _ ?K] =>
    assert (Hmain : forall w0, (x <- K w0 ;; Ok (fst x, f1, result_of_err (snd x))) =
                               (x <- run_prog OS name 438 fuel (transform_main old new) f1 w0 [] WNil ;; Ok (run_wfr x)))
  end.
  { intro w0. unfold transform_main, rollback.
    destruct (Nat.leb_spec (length old) (length new)) as [Hle|Hgt].
    - rewrite slice_head by assumption. unfold len. cbn [GoSem.bind].
      repeat tstep; fin.
    - unfold len. repeat tstep; fin. }
  destruct (Nat.ltb_spec (length old) (length new)) as [Hlt|Hge]; cbn [GoSem.bindT].
  - rewrite slice_tail by lia. unfold len in *. cbn [GoSem.bind].
    rewrite pwrite_wfr.
    destruct (file_write_at OS w2 f1 (skipn (length old) new) (Z.of_nat (length old))) as [[w3 n3] e3].
    unfold res_of_err. destruct (werr_is_nil e3) eqn:He3; cbn [negb GoSem.bindT].
    + apply Hmain.
    + repeat tstep; fin.
  - apply Hmain.
Qed.

(* ------------------------------------------------------------------ Mutex.Lock and the unlock function *)

(* unlock, err := mu.Lock(); if err == nil { unlock() } *)
Definition mutex_cycle (fuel : nat) (w : World OS) (mu : lf_Mutex) : GoSem.res (World OS * lf_Mutex * result) :=
  x <- lf_Mutex_Lock OS fuel w mu ;;
  match x with
  | (w1, mu1, Some captured, _) =>
      y <- lf_Mutex_Lock_lit OS fuel w1 mu1 captured ;;
      match y with (w2, mu2, _) => Ok (w2, mu2, ResOk) end
  | (w1, mu1, None, _) => Ok (w1, mu1, ResErr)
  end.

Theorem Mutex_Lock_empty_path : forall fuel w mu,
  lf_Mutex_Path mu = [] -> lf_Mutex_Lock OS fuel w mu = Panic.
Proof. intros fuel w mu H. unfold lf_Mutex_Lock. rewrite H. reflexivity. Qed.

Theorem Mutex_eq : forall fuel w mu f0 h, (1 <= fuel)%nat ->
  lf_Mutex_Path mu <> [] -> lf_Mutex_mu mu = false ->
  mutex_cycle fuel w mu =
  (x <- run_prog OS (lf_Mutex_Path mu) 438 fuel (prog_of_call_a a CMutex) f0 w h WNil ;;
   match x with (w', _, _, _, r) => Ok (w', mu, r) end).
Proof.
  intros fuel w mu f0 h Hfuel Hpath Hmu. unfold mutex_cycle, lf_Mutex_Lock.
  destruct mu as [path locked]. cbn [lf_Mutex_Path lf_Mutex_mu] in *. subst locked.
  destruct path as [|c path']; [congruence|]. cbn [bytes_eqb].
  replace (bytes_eqb (c :: path') []) with false by (destruct c; reflexivity).
  change 66%Z with (Z.of_N mutex_flags). rewrite (OpenFile_eq fuel w (c :: path') mutex_flags 438 f0 h Hfuel).
  unfold prog_of_call_a, client_prog_a. rewrite run_open_k. cbn [flags_of_call body_of_call].
  destruct (run_prog OS (c :: path') 438 fuel (open_only_a mutex_flags) f0 w h WNil) as [[[[[w1 f1] h1] e1] r1]| |] eqn:Hrun;
    cbn [GoSem.bind OpenFile_out]; try reflexivity.
  destruct (result_is_ok r1) eqn:Hr1.
  - cbn [werr_is_nil negb go_sync_Lock GoSem.bind]. unfold lf_Mutex_Lock_lit.
    cbn [lf_Mutex_mu lf_Mutex_Path go_sync_Unlock GoSem.bind go_deref].
    rewrite File_Close_eq by assumption. cbn [GoSem.bind].
    unfold after_open, close_part. cbn [run_prog do_op LockedFile.bind]. rewrite run_close. reflexivity.
  - rewrite (open_only_fail _ _ _ _ _ _ _ _ _ _ _ _ Hrun Hr1). reflexivity.
Qed.

End Facts.

(* lockedfile (C06, C07): theorems about the model's program terms, restated on the TRANSLATED
   SOURCE (Gen/LockedFileSrc.v) run on the model's operating system (SrcModel.model_ops), through
   the equalities of SrcFacts.v.  [pol'] is any fault policy over the history of the operations the
   call has really made (the ghost marks of the model are not operations). *)
From Coq Require Import List NArith ZArith Bool Lia.
From Coq.Strings Require Import Byte.
From GI Require Import Lib.Bytes Lib.GoSem Lib.GoSemWorld.
From GI Require Import Gen.LockedFileConsts LockedFile.LockedFile LockedFile.LockedFileA LockedFile.LockBasics
  LockedFile.LockProofs LockedFile.Policy LockedFile.PolicyProofs LockedFile.PolicyCall.
From GI Require Import LockedFile.SrcLib Gen.LockedFileSrc LockedFile.SrcFacts LockedFile.SrcModel.
Import ListNotations.
Import GoNotations.
Local Open Scope go_scope.

Lemma bind_ok_inv : forall (A B : Type) (m : GoSem.res A) (g : A -> B) (y : B),
  (x <- m ;; Ok (g x)) = Ok y -> exists x, m = Ok x /\ g x = y.
Proof. intros A B m g y. destruct m; cbn; intro H; inversion H; eauto. Qed.
Lemma bind_oof_inv : forall (A B : Type) (m : GoSem.res A) (g : A -> B),
  (x <- m ;; Ok (g x)) = OutOfFuel -> m = OutOfFuel.
Proof. intros A B m g. destruct m; cbn; intro H; inversion H; reflexivity. Qed.

Section OnModel.
Variables i c : nat.
Variable pol' : policy.

Notation MOS := (model_ops i c pol').
Notation pol := (fun h : Policy.history => pol' (strip_marks h)).

(* what a call of the API leaves behind on the model OS, for any result type *)
Definition released (s' : os) : Prop :=
  fds s' c = None /\ forall k, holds c k (ltab s' i) = false.

(* the common part: a translated function whose world afterwards is that of [run_prog] of an API
   call's program *)
Lemma call_released : forall (A : Type) (m : GoSem.res A) (projw : A -> mworld) cl path perm fuel s,
  io_only (body_of_call cl) -> (1 <= fuel)%nat ->
  fds s c = None -> locked c (ltab s i) = None -> refs s c = 0 ->
  (x <- m ;; Ok (projw x)) =
  (x <- run_prog MOS path perm fuel (prog_of_call_a default_attr cl) tt (s, []) [] WNil ;; Ok (fst (mrun_out x))) ->
  match m with
  | Ok x => released (fst (projw x))
  | OutOfFuel => True
  | Panic => False
  end.
Proof.
  intros A m projw cl path perm fuel s Hio Hfuel Hf Hl Hr Heq.
  pose proof (api_released_on_every_path i c cl pol s Hio Hf Hl Hr) as Hrel.
  pose proof (api_run i c pol' pol (fun _ _ _ _ => eq_refl) cl path perm fuel s Hio Hfuel) as Hrun.
  destruct (run_pol i c (prog_of_call cl) pol [] s) as [[hf [r|]] sf].
  - apply bind_ok_inv in Hrun. destruct Hrun as (y & Hy & Hyr). rewrite Hy in Heq. cbn [GoSem.bind] in Heq.
    apply bind_ok_inv in Heq. destruct Heq as (x & -> & Hx). cbv beta in Hx, Hyr. rewrite Hx, Hyr. cbn.
    destruct Hrel as (H1 & H2 & _). split; assumption.
  - apply bind_oof_inv in Hrun. rewrite Hrun in Heq. apply bind_oof_inv in Heq. rewrite Heq. exact I.
Qed.

(* from an equality of SrcFacts.v (world and result) to the equality of the worlds *)
Lemma eq_world : forall (A B : Type) (m : GoSem.res A) (m' : GoSem.res B) (K : A -> GoSem.res (mworld * result))
    (projw : A -> mworld) (g : B -> mworld * result),
  (forall x, exists r, K x = Ok (projw x, r)) ->
  (x <- m ;; K x) = (x <- m' ;; Ok (g x)) ->
  (x <- m ;; Ok (projw x)) = (x <- m' ;; Ok (fst (g x))).
Proof.
  intros A B m m' K projw g HK H. destruct m as [x| |]; destruct m' as [y| |]; cbn in *; try discriminate; try reflexivity.
  - destruct (HK x) as [r Hr]. rewrite Hr in H. injection H as H1. rewrite <- H1. reflexivity.
  - destruct (HK x) as [r Hr]. rewrite Hr in H. discriminate.
  - destruct (HK x) as [r Hr]. rewrite Hr in H. discriminate.
Qed.

(* Read, Write (any content reader), Transform (any function), Mutex.Lock + unlock: if the call
   returns, the caller holds no descriptor and no lock on the file -- under EVERY fault policy,
   whoever else holds locks *)
Theorem source_read_released : forall s fuel name, (1 <= fuel)%nat ->
  fds s c = None -> locked c (ltab s i) = None -> refs s c = 0 ->
  match lf_Read MOS fuel (s, []) name with
  | Ok (w', _, _) => released (fst w')
  | OutOfFuel => True
  | Panic => False
  end.
Proof.
  intros s fuel name Hfuel Hf Hl Hr.
  pose proof (call_released _ (lf_Read MOS fuel (s, []) name) (fun x => fst (fst x))
                CRead name 0%Z fuel s io_only_read Hfuel Hf Hl Hr) as H.
  lapply H.
  - destruct (lf_Read MOS fuel (s, []) name) as [[[w' b] e]| |]; auto.
  - eapply eq_world; [|exact (Read_eq MOS (model_unlock_no_eintr i c pol') default_attr (model_stat_static i c pol') fuel (s, []) name tt [] Hfuel)].
    intros [[w' b] e]. eexists. reflexivity.
Qed.

Theorem source_transform_released : forall s fuel name t, (1 <= fuel)%nat ->
  fds s c = None -> locked c (ltab s i) = None -> refs s c = 0 ->
  match lf_Transform MOS fuel (s, []) name t with
  | Ok (w', _) => released (fst w')
  | OutOfFuel => True
  | Panic => False
  end.
Proof.
  intros s fuel name t Hfuel Hf Hl Hr.
  pose proof (call_released _ (lf_Transform MOS fuel (s, []) name t) (fun x => fst x)
                (CTransform (model_t t)) name 438%Z fuel s (io_only_transform _) Hfuel Hf Hl Hr) as H.
  lapply H.
  - destruct (lf_Transform MOS fuel (s, []) name t) as [[w' e]| |]; auto.
  - eapply eq_world; [|exact (Transform_eq MOS (model_unlock_no_eintr i c pol') default_attr (model_stat_static i c pol') fuel (s, []) name t tt [] Hfuel)].
    intros [w' e]. eexists. reflexivity.
Qed.

Theorem source_write_released : forall s fuel name content perm, (1 <= fuel)%nat ->
  fds s c = None -> locked c (ltab s i) = None -> refs s c = 0 ->
  match lf_Write MOS fuel (s, []) name content perm with
  | Ok (w', _) => released (fst w')
  | OutOfFuel => True
  | Panic => False
  end.
Proof.
  intros s fuel name [chunks rerr] perm Hfuel Hf Hl Hr.
  pose proof (call_released _ (lf_Write MOS fuel (s, []) name (chunks, rerr) perm) (fun x => fst x)
                (writer_call chunks (negb (werr_is_nil rerr))) name perm fuel s (io_only_copy_body _ _) Hfuel Hf Hl Hr) as H.
  lapply H.
  - destruct (lf_Write MOS fuel (s, []) name (chunks, rerr) perm) as [[w' e]| |]; auto.
  - rewrite <- (write_prog_world MOS (model_unlock_no_eintr i c pol') default_attr (model_stat_static i c pol')).
    eapply eq_world; [|exact (Write_eq MOS (model_unlock_no_eintr i c pol') default_attr (model_stat_static i c pol') fuel (s, []) name chunks rerr perm tt [] Hfuel)].
    intros [w' e]. eexists. reflexivity.
Qed.

Theorem source_mutex_released : forall s fuel mu, (1 <= fuel)%nat ->
  lf_Mutex_Path mu <> [] -> lf_Mutex_mu mu = false ->
  fds s c = None -> locked c (ltab s i) = None -> refs s c = 0 ->
  match mutex_cycle MOS fuel (s, []) mu with
  | Ok (w', mu', _) => released (fst w') /\ mu' = mu
  | OutOfFuel => True
  | Panic => False
  end.
Proof.
  intros s fuel mu Hfuel Hp Hm Hf Hl Hr.
  pose proof (Mutex_eq MOS (model_unlock_no_eintr i c pol') default_attr (model_stat_static i c pol') fuel (s, []) mu tt [] Hfuel Hp Hm) as Heq.
  pose proof (call_released _ (mutex_cycle MOS fuel (s, []) mu) (fun x => fst (fst x))
                CMutex (lf_Mutex_Path mu) 438%Z fuel s (io_ret _) Hfuel Hf Hl Hr) as H.
  lapply H.
  - rewrite Heq.
    destruct (run_prog MOS (lf_Mutex_Path mu) 438 fuel (prog_of_call_a default_attr CMutex) tt (s, []) [] WNil)
      as [[[[[w' f'] h'] e'] r]| |]; cbn; auto.
  - rewrite Heq.
    destruct (run_prog MOS (lf_Mutex_Path mu) 438 fuel (prog_of_call_a default_attr CMutex) tt (s, []) [] WNil)
      as [[[[[w' f'] h'] e'] r]| |]; reflexivity.
Qed.

End OnModel.

(* ------------------------------------------------------------------ C07: Transform on the model OS *)

(* a translated function that is [run_prog] of an API call's program: its outcome is that of the
   policy run *)
Lemma call_outcome : forall i c pol' pol (A : Type) (m : GoSem.res A) (K : A -> GoSem.res (mworld * result))
    cl path perm fuel s,
  (forall h o b fd, pol h o b fd = pol' (strip_marks h) o b fd) ->
  io_only (body_of_call cl) -> (1 <= fuel)%nat ->
  (forall x, exists y, K x = Ok y) ->
  (x <- m ;; K x) =
  (x <- run_prog (model_ops i c pol') path perm fuel (prog_of_call_a default_attr cl) tt (s, []) [] WNil ;; Ok (mrun_out x)) ->
  match run_pol i c (prog_of_call cl) pol [] s with
  | (hf, Finished r, sf) => exists x, m = Ok x /\ K x = Ok ((sf, strip_marks hf), r)
  | (_, Blocked, _) => m = OutOfFuel
  end.
Proof.
  intros i c pol' pol A m K cl path perm fuel s Hpol Hio Hfuel HK Heq.
  pose proof (api_run i c pol' pol Hpol cl path perm fuel s Hio Hfuel) as Hrun.
  destruct (run_pol i c (prog_of_call cl) pol [] s) as [[hf [r|]] sf]; rewrite Hrun in Heq.
  - destruct m as [x| |]; cbn in Heq; try discriminate. eauto.
  - destruct m as [x| |]; cbn in Heq; try discriminate; [|reflexivity].
    destruct (HK x) as [y Hy]. rewrite Hy in Heq. discriminate.
Qed.

Definition contents (w : mworld) : bytes := content_of (files (fst w) 0).

(* a size limit L (RLIMIT_FSIZE, a quota), every write storing what fits and then failing, the
   rollback's writes too: the source's Transform is all-or-nothing, and has released everything *)
Theorem source_transform_limit_atomic : forall t old L fuel name, (1 <= fuel)%nat ->
  match lf_Transform (model_ops 0 0 (limit_pol L)) fuel (os_with (Some old), []) name t with
  | Ok (w', e) =>
      fds (fst w') 0 = None /\ (forall k, holds 0 k (ltab (fst w') 0) = false) /\
      ((werr_is_nil e = true /\ model_t t old = Some (contents w')) \/
       (werr_is_nil e = false /\ contents w' = old))
  | _ => False
  end.
Proof.
  intros t old L fuel name Hfuel.
  pose proof (transform_call_limit_atomic (model_t t) old L) as Hm.
  pose proof (call_outcome 0 0 (limit_pol L) (limit_pol L) _ (lf_Transform (model_ops 0 0 (limit_pol L)) fuel (os_with (Some old), []) name t)
                (fun x => match x with (w', e) => Ok (w', result_of_err e) end) (CTransform (model_t t)) name 438%Z fuel (os_with (Some old)) (fun _ _ _ _ => eq_refl) (io_only_transform _) Hfuel
                ltac:(intros [? ?]; eexists; reflexivity)
                (Transform_eq _ (model_unlock_no_eintr 0 0 _) default_attr (model_stat_static 0 0 _) fuel _ name t tt [] Hfuel)) as Ho.
  destruct (run_pol 0 0 (prog_of_call (CTransform (model_t t))) (limit_pol L) [] (os_with (Some old))) as [[hf out] sf].
  destruct Hm as (H1 & H2 & H3).
  destruct out as [r|]; [|destruct H3 as [[H3 _]|[H3 _]]; discriminate].
  destruct Ho as ([w' e] & -> & Hk). injection Hk as Hw He. subst w'. unfold contents. cbn [fst].
  split; [exact H1|]. split; [exact H2|].
  unfold result_of_err in He. destruct (werr_is_nil e); subst r.
  - destruct H3 as [[_ H3]|[H3 _]]; [left; auto|discriminate].
  - destruct H3 as [[H3 _]|[_ H3]]; [discriminate|right; auto].
Qed.

(* no faults: for every result of the function, the empty one included, Transform returns nil
   and the file holds the result *)
Theorem source_transform_publishes : forall t old new fuel name, (1 <= fuel)%nat ->
  model_t t old = Some new ->
  match lf_Transform (model_ops 0 0 no_fault_pol) fuel (os_with (Some old), []) name t with
  | Ok (w', e) =>
      werr_is_nil e = true /\ contents w' = new /\
      fds (fst w') 0 = None /\ (forall k, holds 0 k (ltab (fst w') 0) = false)
  | _ => False
  end.
Proof.
  intros t old new fuel name Hfuel Ht.
  pose proof (transform_call_publishes (model_t t) old new Ht) as Hm.
  pose proof (call_outcome 0 0 no_fault_pol no_fault_pol _ (lf_Transform (model_ops 0 0 no_fault_pol) fuel (os_with (Some old), []) name t)
                (fun x => match x with (w', e) => Ok (w', result_of_err e) end) (CTransform (model_t t)) name 438%Z fuel (os_with (Some old)) (fun _ _ _ _ => eq_refl) (io_only_transform _) Hfuel
                ltac:(intros [? ?]; eexists; reflexivity)
                (Transform_eq _ (model_unlock_no_eintr 0 0 _) default_attr (model_stat_static 0 0 _) fuel _ name t tt [] Hfuel)) as Ho.
  destruct (run_pol 0 0 (prog_of_call (CTransform (model_t t))) no_fault_pol [] (os_with (Some old))) as [[hf out] sf].
  destruct Hm as (H1 & H2 & H3 & H4). subst out.
  destruct Ho as ([w' e] & -> & Hk). injection Hk as Hw He. subst w'. unfold contents. cbn [fst].
  unfold result_of_err in He. destruct (werr_is_nil e); [|discriminate]. auto.
Qed.

(* ANY policy that faults file I/O only: an error return never loses bytes -- the file is at
   least as long as before and the old bytes beyond the new length are intact *)
Theorem source_transform_err_keeps_old_tail : forall pol' t old fuel name, (1 <= fuel)%nat ->
  io_faults_only pol' ->
  match lf_Transform (model_ops 0 0 pol') fuel (os_with (Some old), []) name t with
  | Ok (w', e) =>
      werr_is_nil e = false ->
      length old <= length (contents w') /\
      forall new, model_t t old = Some new ->
        forall j, length new <= j -> j < length old -> nth j (contents w') x00 = nth j old x00
  | _ => True
  end.
Proof.
  intros pol' t old fuel name Hfuel Hio.
  set (pol := fun h : Policy.history => pol' (strip_marks h)).
  assert (Hio' : io_faults_only pol) by (intros h o b fd Ho; apply Hio, Ho).
  pose proof (transform_call_err_keeps_old_tail (model_t t) old pol Hio') as Hm.
  pose proof (call_outcome 0 0 pol' pol _ (lf_Transform (model_ops 0 0 pol') fuel (os_with (Some old), []) name t)
                (fun x => match x with (w', e) => Ok (w', result_of_err e) end) (CTransform (model_t t)) name 438%Z fuel (os_with (Some old)) (fun _ _ _ _ => eq_refl) (io_only_transform _) Hfuel
                ltac:(intros [? ?]; eexists; reflexivity)
                (Transform_eq _ (model_unlock_no_eintr 0 0 _) default_attr (model_stat_static 0 0 _) fuel _ name t tt [] Hfuel)) as Ho.
  destruct (run_pol 0 0 (prog_of_call (CTransform (model_t t))) pol [] (os_with (Some old))) as [[hf out] sf].
  destruct out as [r|].
  - destruct Ho as ([w' e] & -> & Hk). injection Hk as Hw He. subst w'. unfold contents. cbn [fst].
    intro Hne. unfold result_of_err in He. rewrite Hne in He. subst r. exact Hm.
  - rewrite Ho. exact I.
Qed.

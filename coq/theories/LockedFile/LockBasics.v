(* Basic facts about the lockedfile OS model: flags, maps, the flock table, frame properties
   of os_step. *)
From Coq Require Import List NArith Arith Bool Lia.
From Coq.Strings Require Import Byte.
From GI Require Import Gen.LockedFileConsts LockedFile.LockedFile.
Import ListNotations.

(* ------------------------------------------------------------------ maps *)

Lemma upd_same {A} (m : nat -> A) c v : upd m c v c = v.
Proof. unfold upd. now rewrite Nat.eqb_refl. Qed.

Lemma upd_other {A} (m : nat -> A) c d v : d <> c -> upd m c v d = m d.
Proof. intros Hd. unfold upd. destruct (Nat.eqb_spec d c); [contradiction|reflexivity]. Qed.

(* ------------------------------------------------------------------ flags *)

Lemma land_ldiff_same a m : N.land (N.ldiff a m) m = 0%N.
Proof.
  apply N.bits_inj. intros n.
  rewrite N.land_spec, N.ldiff_spec, N.bits_0.
  destruct (N.testbit a n), (N.testbit m n); reflexivity.
Qed.

Lemma strip_has_flag flags m : m <> 0%N -> has_flag (strip flags m) m = false.
Proof.
  intros Hm. unfold has_flag, strip. rewrite land_ldiff_same.
  apply N.eqb_neq. congruence.
Qed.

Lemma strip_keeps_disjoint flags m x :
  N.land x m = 0%N -> N.land (strip flags m) x = N.land flags x.
Proof.
  intros Hx. unfold strip. apply N.bits_inj. intros n.
  rewrite !N.land_spec, N.ldiff_spec.
  assert (Hb : N.testbit (N.land x m) n = false) by (rewrite Hx; apply N.bits_0).
  rewrite N.land_spec in Hb.
  destruct (N.testbit flags n), (N.testbit m n), (N.testbit x n); simpl in *; congruence.
Qed.

Lemma lock_arg_cases flags :
  lock_arg_of_flags flags = filelock_lock_arg \/ lock_arg_of_flags flags = filelock_rlock_arg.
Proof.
  unfold lock_arg_of_flags.
  destruct (existsb _ _); [left|right]; reflexivity.
Qed.

Lemma lock_mode_total flags :
  exists k, lock_mode_of_flags flags = Some k /\ flock_req_of (lock_arg_of_flags flags) = FReq k.
Proof.
  unfold lock_mode_of_flags.
  destruct (lock_arg_cases flags) as [H|H]; rewrite H.
  - exists LEx. split; reflexivity.
  - exists LSh. split; reflexivity.
Qed.

(* ------------------------------------------------------------------ flock table *)

Definition locked (c : nat) (l : list (nat * lkind)) : option lkind :=
  match find (fun h => Nat.eqb (fst h) c) l with Some h => Some (snd h) | None => None end.

Definition ltab_ok (l : list (nat * lkind)) : Prop :=
  NoDup (map fst l) /\ forall c d k, In (c, LEx) l -> In (d, k) l -> d = c.

Lemma locked_nil c : locked c [] = None.
Proof. reflexivity. Qed.

Lemma locked_cons_same c k l : locked c ((c, k) :: l) = Some k.
Proof. unfold locked. simpl. now rewrite Nat.eqb_refl. Qed.

Lemma locked_cons_other c d k l : d <> c -> locked d ((c, k) :: l) = locked d l.
Proof.
  intros Hd. unfold locked. simpl.
  destruct (Nat.eqb_spec c d); [congruence|reflexivity].
Qed.

Lemma locked_drop_same c l : locked c (drop c l) = None.
Proof.
  unfold locked, drop. induction l as [|[a k] l IH]; simpl; [reflexivity|].
  destruct (Nat.eqb_spec a c); simpl; [exact IH|].
  destruct (Nat.eqb_spec a c); [contradiction|exact IH].
Qed.

Lemma locked_drop_other c d l : d <> c -> locked d (drop c l) = locked d l.
Proof.
  intros Hd. unfold locked, drop. induction l as [|[a k] l IH]; simpl; [reflexivity|].
  destruct (Nat.eqb_spec a c) as [->|Hac]; simpl.
  - destruct (Nat.eqb_spec c d); [congruence|exact IH].
  - destruct (Nat.eqb_spec a d); [reflexivity|exact IH].
Qed.

Lemma locked_In c k l : locked c l = Some k -> In (c, k) l.
Proof.
  unfold locked. destruct (find _ l) as [[a k']|] eqn:Hf; [|discriminate].
  intros [= <-]. apply find_some in Hf. destruct Hf as [Hin He]. simpl in He.
  apply Nat.eqb_eq in He. now subst a.
Qed.

Lemma In_locked c k l : NoDup (map fst l) -> In (c, k) l -> locked c l = Some k.
Proof.
  unfold locked. induction l as [|[a k'] l IH]; simpl; [tauto|].
  intros Hnd [Hin|Hin].
  - injection Hin as -> ->. now rewrite Nat.eqb_refl.
  - inversion Hnd as [|? ? Hni Hnd']; subst.
    destruct (Nat.eqb_spec a c) as [->|Hac].
    + exfalso. apply Hni. change c with (fst (c, k)). now apply in_map.
    + now apply IH.
Qed.

Lemma locked_None_not_In c k l : locked c l = None -> ~ In (c, k) l.
Proof.
  unfold locked. destruct (find _ l) eqn:Hf; [discriminate|]. intros _ Hin.
  apply (find_none _ _ Hf) in Hin. simpl in Hin. now rewrite Nat.eqb_refl in Hin.
Qed.

Lemma holds_locked c k l : NoDup (map fst l) -> (holds c k l = true <-> locked c l = Some k).
Proof.
  intros Hnd. unfold holds. rewrite existsb_exists. split.
  - intros [[a k'] [Hin He]]. simpl in He. apply andb_true_iff in He. destruct He as [Ha Hk].
    apply Nat.eqb_eq in Ha. subst a.
    assert (k' = k) by (destruct k', k; simpl in Hk; congruence). subst k'.
    now apply In_locked.
  - intros Hl. exists (c, k). split; [now apply locked_In|]. simpl.
    rewrite Nat.eqb_refl. destruct k; reflexivity.
Qed.

Lemma drop_In d k c l : In (d, k) (drop c l) <-> In (d, k) l /\ d <> c.
Proof.
  unfold drop. rewrite filter_In. simpl. rewrite negb_true_iff, Nat.eqb_neq. tauto.
Qed.

Lemma drop_NoDup c l : NoDup (map fst l) -> NoDup (map fst (drop c l)).
Proof.
  unfold drop. induction l as [|[a k] l IH]; simpl; intros Hnd; [constructor|].
  inversion Hnd as [|? ? Hni Hnd']; subst.
  destruct (Nat.eqb a c); simpl; [now apply IH|].
  constructor; [|now apply IH].
  intros Hin. apply Hni. apply in_map_iff in Hin. destruct Hin as [[a' k'] [He Hin]].
  apply filter_In in Hin. destruct Hin as [Hin _]. simpl in He. subst a'.
  change a with (fst (a, k')). now apply in_map.
Qed.

Lemma drop_fst_notin c l : ~ In c (map fst (drop c l)).
Proof.
  intros Hin. apply in_map_iff in Hin. destruct Hin as [[a k] [He Hin]].
  simpl in He. subst a. apply drop_In in Hin. tauto.
Qed.

Lemma ltab_ok_nil : ltab_ok [].
Proof. split; [constructor|intros c d k []]. Qed.

Lemma ltab_ok_drop c l : ltab_ok l -> ltab_ok (drop c l).
Proof.
  intros [Hnd Hex]. split; [now apply drop_NoDup|].
  intros a d k Ha Hd. apply drop_In in Ha. apply drop_In in Hd.
  now apply (Hex a d k).
Qed.

Lemma ltab_ok_grant k c l :
  ltab_ok l -> can_grant k c l = true -> ltab_ok ((c, k) :: drop c l).
Proof.
  intros Hok Hg. pose proof (ltab_ok_drop c l Hok) as [Hnd Hex].
  split.
  - simpl. constructor; [apply drop_fst_notin|exact Hnd].
  - intros a d k' Ha Hd. simpl in Ha, Hd.
    destruct k; simpl in Hg.
    + (* shared: nobody else is exclusive *)
      unfold others_shared in Hg. rewrite forallb_forall in Hg.
      destruct Ha as [Ha|Ha]; [discriminate|].
      apply drop_In in Ha. destruct Ha as [Ha Hac].
      specialize (Hg _ Ha). simpl in Hg. apply orb_true_iff in Hg.
      destruct Hg as [Hg|Hg]; [apply Nat.eqb_eq in Hg; contradiction|discriminate].
    + (* exclusive: nobody else at all *)
      unfold others_none in Hg. rewrite forallb_forall in Hg.
      assert (Hall : forall x kx, In (x, kx) (drop c l) -> False).
      { intros x kx Hx. apply drop_In in Hx. destruct Hx as [Hx Hxc].
        specialize (Hg _ Hx). simpl in Hg. apply Nat.eqb_eq in Hg. contradiction. }
      destruct Ha as [Ha|Ha]; [|exfalso; eapply Hall; eassumption].
      injection Ha as <-.
      destruct Hd as [Hd|Hd]; [now injection Hd|exfalso; eapply Hall; eassumption].
Qed.

(* ------------------------------------------------------------------ frame of os_step *)

Ltac os_inv H :=
  repeat match type of H with
  | context [match ?x with _ => _ end] => destruct x eqn:?
  end; try discriminate H; inversion H; subst; clear H.

Lemma os_step_fds_other i c o flt e s r s' d :
  os_step i c o flt e s = Some (r, s') -> d <> c -> fds s' d = fds s d.
Proof.
  intros H Hd. unfold os_step in H.
  destruct o; os_inv H; simpl; try reflexivity; now rewrite upd_other.
Qed.

Lemma os_step_refs i c o flt e s r s' :
  os_step i c o flt e s = Some (r, s') -> refs s' = refs s.
Proof.
  intros H. unfold os_step in H. destruct o; os_inv H; reflexivity.
Qed.

Lemma os_step_ltab_other_inode i c o flt e s r s' j :
  os_step i c o flt e s = Some (r, s') -> j <> i -> ltab s' j = ltab s j.
Proof.
  intros H Hj. unfold os_step in H.
  destruct o; os_inv H; simpl; try reflexivity; now rewrite upd_other.
Qed.

Lemma os_step_files_other_inode i c o flt e s r s' j :
  os_step i c o flt e s = Some (r, s') -> j <> i -> files s' j = files s j.
Proof.
  intros H Hj. unfold os_step in H.
  destruct o; os_inv H; simpl; try reflexivity; now rewrite upd_other.
Qed.

(* the table of inode i afterwards is the old one, the old one without c, or c granted *)
Lemma os_step_ltab_shape i c o flt e s r s' :
  os_step i c o flt e s = Some (r, s') ->
  ltab s' i = ltab s i \/ ltab s' i = drop c (ltab s i) \/
  exists k, can_grant k c (ltab s i) = true /\ ltab s' i = (c, k) :: drop c (ltab s i).
Proof.
  intros H. unfold os_step in H.
  destruct o; os_inv H; simpl; rewrite ?upd_same; auto.
  right. right. eexists. split; [eassumption|reflexivity].
Qed.

Lemma os_step_locked_other i c o flt e s r s' d :
  os_step i c o flt e s = Some (r, s') -> d <> c ->
  locked d (ltab s' i) = locked d (ltab s i).
Proof.
  intros H Hd. destruct (os_step_ltab_shape _ _ _ _ _ _ _ _ H) as [E|[E|[k [_ E]]]]; rewrite E.
  - reflexivity.
  - now apply locked_drop_other.
  - rewrite locked_cons_other by assumption. now apply locked_drop_other.
Qed.

Lemma os_step_ltab_ok i c o flt e s r s' :
  os_step i c o flt e s = Some (r, s') -> ltab_ok (ltab s i) -> ltab_ok (ltab s' i).
Proof.
  intros H Hok. destruct (os_step_ltab_shape _ _ _ _ _ _ _ _ H) as [E|[E|[k [Hg E]]]]; rewrite E.
  - exact Hok.
  - now apply ltab_ok_drop.
  - now apply ltab_ok_grant.
Qed.

(* C17 — the time windows of the timed automaton (TsTimed.v), for every timed run: the waiter's side
   (returns-by) and commands that finish early. *)
From Coq Require Import List Bool ZArith Lia.
From GI Require Import Lib.Bytes Gen.TsBatchConsts TsDeadline.TsDeadline TsDeadline.TsDeadlineFacts TsDeadline.TsTimed TsDeadline.TsTimedFacts.
Import ListNotations.
Local Open Scope Z_scope.

(* ---- control facts every timed state inherits from the interleaving system *)
Lemma ctl par s : treach par s ->
  (upr (us s) = PRun -> uw (us s) = WWait) /\
  (uw (us s) = WWait -> upr (us s) <> PReaped) /\
  (uw (us s) <> WWait -> upr (us s) = PReaped) /\
  (uh (us s) = HDone -> w_done (uw (us s)) = true) /\
  (w_done (uw (us s)) = true -> uh (us s) = HDone) /\
  (uh (us s) = HSendNil -> upr (us s) = PReaped) /\
  (uh (us s) = HSendErr -> kd_pos (pu par) = true -> ukil (us s) = true) /\
  (uh (us s) = HSel2 -> kd_pos (pu par) = true).
Proof.
  intro R. pose proof (reachable_good _ _ (treach_untimed par s R)) as H. split_good H.
  apply eqb_prop in G3, G11.
  destruct (us s) as [w h pr cx tm ir kl se sn rc]. cbn [uw uh upr uctx utm uintr ukil usigerr usent urecv] in *.
  repeat split; intros; subst; cbn in *;
    try (destruct w; cbn in *; congruence);
    try (destruct h; cbn in *; congruence);
    try (destruct pr; destruct w; cbn in *; congruence).
  all: try (destruct (kd_pos (pu par)); cbn in *; try congruence).
  all: try (apply andb_true_iff in G12; destruct G12; assumption).
  all: try (destruct pr; congruence).
Qed.

Lemma ob_killexit par s tk : upr (us s) = PRun -> ukil (us s) = true -> at_kill s = Some tk -> In (tk + psig par) (obligations par s).
Proof. intros H1 H2 H3. ob_tac. Qed.
Lemma ob_wait par s te : uw (us s) = WWait -> upr (us s) = PZombie -> at_exit s = Some te -> In (te + psig par) (obligations par s).
Proof. intros H1 H2 H3. ob_tac. Qed.
Lemma ob_rdv par s tw : uw (us s) = WRecv -> send_ready (uh (us s)) = true -> at_wrecv s = Some tw ->
  In (Z.max tw (at_h s) + psig par) (obligations par s).
Proof. intros H1 H2 H3. ob_tac. Qed.
Lemma ob_self par s : self_exit (pu par) = true -> upr (us s) = PRun -> In (pE par + psig par) (obligations par s).
Proof. intros H1 H2. ob_tac. Qed.

(* ---- with a deadline and a positive kill delay nothing lasts: X = pC + pK *)
Record tinv2 (par : tpar) (s : tstate) : Prop := {
  q_run : upr (us s) = PRun -> now s <= pC par + pK par + 8 * psig par;
  q_texit : at_exit s <> None -> oz (at_exit s) <= pC par + pK par + 8 * psig par /\ oz (at_exit s) <= now s;
  q_zomb : upr (us s) = PZombie -> at_exit s <> None /\ now s <= oz (at_exit s) + psig par;
  q_twr : at_wrecv s <> None -> oz (at_wrecv s) <= pC par + pK par + 9 * psig par /\ oz (at_wrecv s) <= now s;
  q_th0 : uh (us s) = HSel1 -> at_h s = 0;
  q_th : uh (us s) <> HDone -> at_h s <= pC par + pK par + 7 * psig par;
  q_herr : uh (us s) = HSendErr -> at_kill s <> None /\ at_h s = oz (at_kill s);
  q_recv : uw (us s) = WRecv -> at_wrecv s <> None /\ now s <= pC par + pK par + 10 * psig par
}.

Lemma tinv2_init par : wf_tpar par -> 0 < pK par -> tinv2 par tinit.
Proof.
  intros (H1 & H2 & H3 & H4 & H5) HK.
  constructor; cbn [tinit uinit us now at_h at_ctx at_exit at_wrecv at_sig at_arm at_fire at_kill at_ret uw uh upr uctx utm uintr ukil usigerr oz];
    intros; try discriminate; try congruence; repeat split; try reflexivity; try lia.
Qed.

Lemma tinv2_delay par s d :
  wf_tpar par -> has_ctx (pu par) = true -> kd_pos (pu par) = true ->
  treach par s -> tinv par s -> tinv2 par s -> can_delay par s d = true -> tinv2 par (advance s d).
Proof.
  intros (W1 & W2 & W3 & W4 & W5a & W5b) Hc Hk R I Q Hd.
  assert (D0 : 0 <= d) by (unfold can_delay in Hd; apply andb_true_iff in Hd as [Hd _]; now apply Z.leb_le).
  pose proof (fun dl => can_delay_bound par s d dl Hd) as OB.
  pose proof (W5a Hk) as HK.
  destruct (ctl par s R) as (C1 & C2 & C3 & C4 & C5 & C6 & C7 & C8).
  destruct I as [Inow I0 I1 Isel1 Isig Itsig Iafter Itarm Itm0 Itm1 Itm2 Isel2 Ihk Ipre Itk].
  destruct Q as [Qrun Qtexit Qzomb Qtwr Qth0 Qth Qherr Qrecv].
  constructor; cbn [advance us now at_h at_ctx at_exit at_wrecv at_sig at_arm at_fire at_kill at_ret].
  - (* still running: the helper's chain forces the kill *)
    intro Ep. pose proof (C1 Ep) as Ew.
    destruct (uh (us s)) eqn:Eh.
    + destruct (uctx (us s)) eqn:Ec.
      * destruct (I1 eq_refl) as (A & B & C). destruct (OB _ (ob_sel1 par s _ Eh Ec (oz_some _ A))). lia.
      * destruct (OB _ (ob_ctx par s Hc Ec)). lia.
    + destruct (Isig eq_refl). destruct (OB _ (ob_hsig par s Eh)). lia.
    + rewrite (C6 eq_refl) in Ep. discriminate.
    + destruct (Iafter eq_refl). destruct (OB _ (ob_hafter par s Eh)). lia.
    + destruct (Isel2 eq_refl) as (A & B). destruct (utm (us s)) eqn:Et; [contradiction| |].
      * destruct (Itm1 eq_refl) as (P & _ & _). destruct (Itarm P) as (P1 & P2 & P3).
        destruct (OB _ (ob_arm par s _ Et (oz_some _ P))). lia.
      * destruct (Itm2 eq_refl) as (P & F & P4 & P5). destruct (Itarm P) as (P1 & P2 & P3).
        destruct (OB _ (ob_sel2 par s _ Eh Et (oz_some _ F))). lia.
    + destruct (Ihk eq_refl) as (A & B & C). destruct (Itm2 A) as (P & F & P4 & P5). destruct (Itarm P) as (P1 & P2 & P3).
      destruct (OB _ (ob_hkill par s Eh)). lia.
    + destruct (Qherr eq_refl) as (A & B). destruct (Itk A) as (T1 & T2).
      destruct (OB _ (ob_killexit par s _ Ep (C7 eq_refl Hk) (oz_some _ A))). lia.
    + rewrite Ew in C4. specialize (C4 eq_refl). discriminate.
  - intro E. destruct (Qtexit E). lia.
  - intro E. destruct (Qzomb E) as (A & B). split; [exact A|].
    assert (Ew : uw (us s) = WWait).
    { destruct (uw (us s)) eqn:Ew; try reflexivity; rewrite (C3 ltac:(discriminate)) in E; discriminate. }
    destruct (OB _ (ob_wait par s _ Ew E (oz_some _ A))). lia.
  - intro E. destruct (Qtwr E). lia.
  - exact Qth0.
  - exact Qth.
  - exact Qherr.
  - intro E. destruct (Qrecv E) as (A & B). split; [exact A|]. destruct (Qtwr A) as (T1 & T2).
    assert (Hh : uh (us s) <> HDone).
    { intro Eh. specialize (C4 Eh). rewrite E in C4. discriminate. }
    pose proof (Qth Hh) as Th.
    destruct (send_ready (uh (us s))) eqn:Es.
    + destruct (OB _ (ob_rdv par s _ E Es (oz_some _ A))). lia.
    + destruct (uh (us s)) eqn:Eh; try discriminate.
      * destruct (OB _ (ob_hsig par s Eh)). lia.
      * destruct (OB _ (ob_hafter par s Eh)). lia.
      * destruct (OB _ (ob_hkill par s Eh)). lia.
      * contradiction.
Qed.

Lemma tinv2_disc par l s s' :
  wf_tpar par -> has_ctx (pu par) = true -> kd_pos (pu par) = true ->
  treach par s -> tinv par s -> tinv2 par s -> tdisc par l s = Some s' -> tinv2 par s'.
Proof.
  intros (W1 & W2 & W3 & W4 & W5a & W5b) Hc Hk R I Q E.
  pose proof (W5a Hk) as HK.
  destruct (ctl par s R) as (C1 & C2 & C3 & C4 & C5 & C6 & C7 & C8).
  unfold tdisc in E.
  destruct (time_guard par l s) eqn:Eg; [|discriminate].
  destruct (ustep (pu par) l (us s)) as [u'|] eqn:Eu; [|discriminate]. injection E as <-.
  destruct I as [Inow I0 I1 Isel1 Isig Itsig Iafter Itarm Itm0 Itm1 Itm2 Isel2 Ihk Ipre Itk].
  destruct Q as [Qrun Qtexit Qzomb Qtwr Qth0 Qth Qherr Qrecv].
  destruct s as [u n th tc te tw ts ta tf tk tr]. cbn [us now at_h at_ctx at_exit at_wrecv at_sig at_arm at_fire at_kill at_ret] in *.
  destruct u as [w h pr cx tm ir kl se sn rc]. cbn [uw uh upr uctx utm uintr ukil usigerr usent urecv] in *.
  destruct l; cbn [time_guard us now at_h at_ctx at_exit at_wrecv at_sig at_arm at_fire at_kill at_ret] in Eg; inv_ustep Eu;
    cbn [uw uh upr uctx utm uintr ukil usigerr usent urecv] in *;
    repeat match type of Eg with context [match ?x with _ => _ end] => destruct x eqn:? end; try discriminate; try congruence;
    repeat match goal with H : _ && _ = true |- _ => apply andb_true_iff in H; destruct H end;
    repeat match goal with H : negb _ = true |- _ => apply negb_true_iff in H end;
    repeat match goal with H : (_ <=? _) = true |- _ => apply Z.leb_le in H end;
    subst; cbn iota in Ipre; try (match type of Ipre with _ = TNone => subst end);
    cbn [stamp set_w set_h set_pr set_tm is_after_sig is_armed uw uh upr uctx utm uintr ukil usigerr usent urecv];
    constructor; cbn [us now at_h at_ctx at_exit at_wrecv at_sig at_arm at_fire at_kill at_ret uw uh upr uctx utm uintr ukil usigerr usent urecv oz set_w set_h set_pr set_tm is_armed is_after_sig];
    try solve [fin].
  all: try solve [destruct pr; try discriminate; fin].
Qed.

Lemma tinv2_reach par s : wf_tpar par -> has_ctx (pu par) = true -> kd_pos (pu par) = true ->
  treach par s -> tinv2 par s.
Proof.
  intros W Hc Hk R. induction R as [|m s s' R IH E].
  - apply tinv2_init; [exact W|]. destruct W as (_ & _ & _ & _ & W5 & _). now apply W5.
  - pose proof (tinv_reach par s W R) as I. destruct m as [l|d]; cbn [tstep] in E.
    + eapply tinv2_disc; eauto.
    + destruct (can_delay par s d) eqn:Ed; [|discriminate]. injection E as <-. now apply tinv2_delay.
Qed.

(* ------------------------------------------------------------------ the windows, for every timed run *)

(* the interrupt is sent between the expiry of the context and three slacks later *)
Lemma ta_interrupt_window par s ts : wf_tpar par -> treach par s -> at_sig s = Some ts ->
  pC par <= ts <= pC par + 3 * psig par.
Proof.
  intros W R E. destruct (tinv_reach par s W R) as [_ _ _ _ _ Itsig _ _ _ _ _ _ _ _ _].
  rewrite E in Itsig. destruct (Itsig ltac:(discriminate)) as [A _]. exact A.
Qed.

(* the kill is sent killDelay after the context expired, at most seven slacks late *)
Lemma ta_kill_window par s tk : wf_tpar par -> treach par s -> at_kill s = Some tk ->
  pC par + pK par <= tk <= pC par + pK par + 7 * psig par.
Proof.
  intros W R E. destruct (tinv_reach par s W R) as [_ _ _ _ _ _ _ _ _ _ _ _ _ _ Itk].
  rewrite E in Itk. destruct (Itk ltac:(discriminate)) as [A _]. exact A.
Qed.

(* with a deadline and a positive kill delay waitOrStop cannot stay unfinished: as long as the waiter has
   not returned, the clock is at most ten slacks past the kill time *)
Lemma ta_returns_by par s : wf_tpar par -> has_ctx (pu par) = true -> kd_pos (pu par) = true ->
  treach par s -> w_done (uw (us s)) = false -> now s <= pC par + pK par + 10 * psig par.
Proof.
  intros W Hc Hk R Hw. destruct (tinv2_reach par s W Hc Hk R) as [Qrun Qtexit Qzomb Qtwr Qth0 Qth Qherr Qrecv].
  destruct (ctl par s R) as (C1 & C2 & C3 & C4 & C5 & C6 & C7 & C8).
  destruct W as (W1 & _).
  destruct (uw (us s)) eqn:Ew; try discriminate.
  - destruct (upr (us s)) eqn:Ep.
    + specialize (Qrun eq_refl). lia.
    + destruct (Qzomb eq_refl) as (A & B). destruct (Qtexit A). lia.
    + now contradiction (C2 eq_refl).
  - destruct (Qrecv eq_refl). lia.
Qed.

(* and when it has returned, it did so by then *)
Lemma ta_return_time par s r : wf_tpar par -> has_ctx (pu par) = true -> kd_pos (pu par) = true ->
  treach par s -> at_ret s = Some r -> r <= pC par + pK par + 10 * psig par.
Proof.
  intros W Hc Hk R. revert r. induction R as [|m s s' R IH E]; intros r Hr; [discriminate|].
  destruct m as [l|d]; cbn [tstep] in E.
  - unfold tdisc in E. destruct (time_guard par l s); [|discriminate].
    destruct (ustep (pu par) l (us s)) as [u'|] eqn:Eu; [|discriminate]. injection E as <-.
    destruct l; cbn [stamp at_ret] in Hr; try (now apply IH).
    injection Hr as <-. cbn [stamp now].
    apply (ta_returns_by par s W Hc Hk R).
    unfold ustep in Eu. destruct (uw (us s)); try discriminate. reflexivity.
  - destruct (can_delay par s d); [|discriminate]. injection E as <-. now apply IH.
Qed.

(* ---- a command that exits by itself early enough is not affected by the deadline *)
Definition early (par : tpar) : Prop :=
  self_exit (pu par) = true /\ (has_ctx (pu par) = true -> pE par + 3 * psig par < pC par).

Record tinv3 (par : tpar) (s : tstate) : Prop := {
  e_nd : w_done (uw (us s)) = false ->
         uh (us s) = HSel1 /\ uctx (us s) = false /\ now s <= pE par + 3 * psig par /\
         uintr (us s) = false /\ usigerr (us s) = false /\ ukil (us s) = false /\ at_sig s = None /\ at_kill s = None;
  e_run : upr (us s) = PRun -> now s <= pE par + psig par;
  e_tex : at_exit s <> None -> pE par <= oz (at_exit s) <= pE par + psig par /\ oz (at_exit s) <= now s;
  e_zomb : upr (us s) = PZombie -> at_exit s <> None /\ now s <= oz (at_exit s) + psig par;
  e_twr : at_wrecv s <> None -> pE par <= oz (at_wrecv s) <= pE par + 2 * psig par /\ oz (at_wrecv s) <= now s;
  e_recv : uw (us s) = WRecv -> at_wrecv s <> None /\ now s <= oz (at_wrecv s) + psig par;
  e_th0 : uh (us s) = HSel1 -> at_h s = 0;
  e_done : w_done (uw (us s)) = true ->
           uw (us s) = WDoneWait /\ uintr (us s) = false /\ usigerr (us s) = false /\ ukil (us s) = false /\
           at_sig s = None /\ at_kill s = None /\ at_ret s <> None /\ pE par <= oz (at_ret s) <= pE par + 3 * psig par
}.

Lemma tinv3_init par : wf_tpar par -> tinv3 par tinit.
Proof.
  intros (H1 & H2 & H3 & H4 & H5).
  constructor; cbn [tinit uinit us now at_h at_ctx at_exit at_wrecv at_sig at_arm at_fire at_kill at_ret uw uh upr uctx utm uintr ukil usigerr oz w_done];
    intros; try discriminate; try congruence; repeat split; try reflexivity; try lia.
Qed.

Lemma tinv3_delay par s d :
  wf_tpar par -> early par -> treach par s -> tinv3 par s -> can_delay par s d = true -> tinv3 par (advance s d).
Proof.
  intros (W1 & W2 & W3 & W4 & W5a & W5b) (Hs & He) R Q Hd.
  assert (D0 : 0 <= d) by (unfold can_delay in Hd; apply andb_true_iff in Hd as [Hd _]; now apply Z.leb_le).
  pose proof (fun dl => can_delay_bound par s d dl Hd) as OB.
  destruct (ctl par s R) as (C1 & C2 & C3 & C4 & C5 & C6 & C7 & C8).
  destruct Q as [End Erun Etex Ezomb Etwr Erecv Eth0 Edone].
  assert (RUN : upr (us s) = PRun -> now s + d <= pE par + psig par).
  { intro Ep. destruct (OB _ (ob_self par s Hs Ep)). lia. }
  assert (ZOMB : upr (us s) = PZombie -> now s + d <= oz (at_exit s) + psig par).
  { intro Ep. destruct (Ezomb Ep) as (A & B).
    assert (Ew : uw (us s) = WWait).
    { destruct (uw (us s)) eqn:Ew; try reflexivity; rewrite (C3 ltac:(discriminate)) in Ep; discriminate. }
    destruct (OB _ (ob_wait par s _ Ew Ep (oz_some _ A))). lia. }
  assert (RECV : uw (us s) = WRecv -> now s + d <= oz (at_wrecv s) + psig par).
  { intro Ew. destruct (Erecv Ew) as (A & B). destruct (Etwr A) as (T1 & T2).
    assert (Hnd : w_done (uw (us s)) = false) by (rewrite Ew; reflexivity).
    destruct (End Hnd) as (Eh & _). pose proof (Eth0 Eh) as T0.
    assert (Sr : send_ready (uh (us s)) = true) by (rewrite Eh; reflexivity).
    destruct (OB _ (ob_rdv par s _ Ew Sr (oz_some _ A))). lia. }
  constructor; cbn [advance us now at_h at_ctx at_exit at_wrecv at_sig at_arm at_fire at_kill at_ret].
  - intro Hnd. destruct (End Hnd) as (A1 & A2 & A3 & A4). repeat split; try tauto.
    destruct (uw (us s)) eqn:Ew; try discriminate.
    + destruct (upr (us s)) eqn:Ep.
      * specialize (RUN eq_refl). lia.
      * specialize (ZOMB eq_refl). destruct (Ezomb eq_refl) as (B1 & _). destruct (Etex B1). lia.
      * now contradiction (C2 eq_refl).
    + specialize (RECV eq_refl). destruct (Erecv eq_refl) as (B1 & _). destruct (Etwr B1). lia.
  - exact RUN.
  - intro E. destruct (Etex E). lia.
  - intro E. destruct (Ezomb E). split; [assumption|]. now apply ZOMB.
  - intro E. destruct (Etwr E). lia.
  - intro E. destruct (Erecv E). split; [assumption|]. now apply RECV.
  - exact Eth0.
  - exact Edone.
Qed.

Lemma tinv3_disc par l s s' :
  wf_tpar par -> early par -> treach par s -> tinv3 par s -> tdisc par l s = Some s' -> tinv3 par s'.
Proof.
  intros (W1 & W2 & W3 & W4 & W5a & W5b) (Hs & He) R Q E.
  destruct (ctl par s R) as (C1 & C2 & C3 & C4 & C5 & C6 & C7 & C8).
  unfold tdisc in E.
  destruct (time_guard par l s) eqn:Eg; [|discriminate].
  destruct (ustep (pu par) l (us s)) as [u'|] eqn:Eu; [|discriminate]. injection E as <-.
  destruct Q as [End Erun Etex Ezomb Etwr Erecv Eth0 Edone].
  destruct s as [u n th tc te tw ts ta tf tk tr]. cbn [us now at_h at_ctx at_exit at_wrecv at_sig at_arm at_fire at_kill at_ret] in *.
  destruct u as [w h pr cx tm ir kl se sn rc]. cbn [uw uh upr uctx utm uintr ukil usigerr usent urecv] in *.
  destruct l; cbn [time_guard us now at_h at_ctx at_exit at_wrecv at_sig at_arm at_fire at_kill at_ret] in Eg; inv_ustep Eu;
    cbn [uw uh upr uctx utm uintr ukil usigerr usent urecv] in *;
    repeat match type of Eg with context [match ?x with _ => _ end] => destruct x eqn:? end; try discriminate; try congruence;
    repeat match goal with H : _ && _ = true |- _ => apply andb_true_iff in H; destruct H end;
    repeat match goal with H : negb _ = true |- _ => apply negb_true_iff in H end;
    repeat match goal with H : (_ <=? _) = true |- _ => apply Z.leb_le in H end;
    subst; cbn [w_done] in *;
    cbn [stamp set_w set_h set_pr set_tm is_after_sig is_armed uw uh upr uctx utm uintr ukil usigerr usent urecv];
    constructor; cbn [us now at_h at_ctx at_exit at_wrecv at_sig at_arm at_fire at_kill at_ret uw uh upr uctx utm uintr ukil usigerr usent urecv oz set_w set_h set_pr set_tm is_armed is_after_sig w_done];
    try solve [fin].
  all: try solve [destruct pr; try discriminate; pose proof (C1 eq_refl); subst; cbn [w_done] in *; fin].
Qed.

Lemma tinv3_reach par s : wf_tpar par -> early par -> treach par s -> tinv3 par s.
Proof.
  intros W He R. induction R as [|m s s' R IH E]; [now apply tinv3_init|].
  destruct m as [l|d]; cbn [tstep] in E.
  - eapply tinv3_disc; eauto.
  - destruct (can_delay par s d) eqn:Ed; [|discriminate]. injection E as <-. now apply tinv3_delay.
Qed.

(* a command that exits by itself at pE, more than three slacks before the context expires: in every
   timed run no signal is ever sent, the result is Wait's own, and waitOrStop returns within three
   slacks of the exit *)
Lemma ta_early_unaffected par s : wf_tpar par -> early par -> treach par s ->
  uintr (us s) = false /\ usigerr (us s) = false /\ ukil (us s) = false /\ at_sig s = None /\ at_kill s = None /\
  (w_done (uw (us s)) = false -> now s <= pE par + 3 * psig par) /\
  (w_done (uw (us s)) = true ->
   uw (us s) = WDoneWait /\ exists r, at_ret s = Some r /\ pE par <= r <= pE par + 3 * psig par).
Proof.
  intros W He R. destruct (tinv3_reach par s W He R) as [End Erun Etex Ezomb Etwr Erecv Eth0 Edone].
  destruct (w_done (uw (us s))) eqn:Ew.
  - destruct (Edone eq_refl) as (A1 & A2 & A3 & A4 & A5 & A6 & A7 & A8).
    split; [exact A2|]. split; [exact A3|]. split; [exact A4|]. split; [exact A5|]. split; [exact A6|].
    split; [discriminate|]. intros _. split; [exact A1|].
    exists (oz (at_ret s)). split; [now apply oz_some | exact A8].
  - destruct (End eq_refl) as (A1 & A2 & A3 & A4 & A5 & A6 & A7 & A8).
    split; [exact A4|]. split; [exact A5|]. split; [exact A6|]. split; [exact A7|]. split; [exact A8|].
    split; [intros _; exact A3 | discriminate].
Qed.


(* ------------------------------------------------------------------ under RunT *)

Lemma fg_tpar_wf u now_ eps D e d sg :
  0 <= sg -> 0 <= ctx_deadline now_ eps D -> 0 <= e -> 0 <= d -> kd_pos u = true -> wf_tpar (fg_tpar u now_ eps D e d sg).
Proof.
  intros H1 H2 H3 H4 H5. unfold wf_tpar, fg_tpar. cbn [psig pC pE pD pK pu].
  split; [exact H1|]. split; [exact H2|]. split; [exact H3|]. split; [exact H4|]. split; [|intros _; exact H5].
  intros _. rewrite fg_kill_delay_grace. pose proof (grace_ge_min (D - now_)). assert (0 < min_grace) by reflexivity. lia.
Qed.

(* a foreground command under RunT: the interrupt is sent grace_reserve grace periods before the
   deadline (three slacks late at most), the kill one grace period later (seven slacks late at most),
   and waitOrStop has returned ten slacks after that at the latest: in every timed run *)
Lemma ta_runt_windows u now_ eps D e d sg s :
  0 <= sg -> 0 <= ctx_deadline now_ eps D -> 0 <= e -> 0 <= d -> has_ctx u = true -> kd_pos u = true ->
  treach (fg_tpar u now_ eps D e d sg) s ->
  let g := grace (D - now_) in
  (forall ts, at_sig s = Some ts -> D + eps - grace_reserve * g <= ts <= D + eps - grace_reserve * g + 3 * sg) /\
  (forall tk, at_kill s = Some tk -> D + eps - (grace_reserve - 1) * g <= tk <= D + eps - (grace_reserve - 1) * g + 7 * sg) /\
  (forall r, at_ret s = Some r -> r <= D + eps - (grace_reserve - 1) * g + 10 * sg).
Proof.
  intros H1 H2 H3 H4 Hc Hk R g. pose proof (fg_tpar_wf u now_ eps D e d sg H1 H2 H3 H4 Hk) as W.
  destruct (grace_arith now_ eps D) as [A _]. fold g in A.
  split; [|split].
  - intros ts E. pose proof (ta_interrupt_window _ _ _ W R E) as X. cbn [fg_tpar pC psig] in X. lia.
  - intros tk E. pose proof (ta_kill_window _ _ _ W R E) as X. cbn [fg_tpar pC pK psig] in X.
    rewrite fg_kill_delay_grace in X. fold g in X. lia.
  - intros r E. pose proof (ta_return_time _ _ _ W Hc Hk R E) as X. cbn [fg_tpar pC pK psig] in X.
    rewrite fg_kill_delay_grace in X. fold g in X. lia.
Qed.

(* a concrete timed run: deadline of the context 800 ms, killDelay 100 ms, the process ignores the
   interrupt, slack 10 ms, every step as late as allowed *)
Example ta_run_example :
  let par := {| pu := {| has_ctx := true; kd_pos := true; self_exit := false; int_exit := false; sig_fails := false |};
                pC := 800; pK := 100; pE := 0; pD := 0; psig := 10 |} in
  wf_tpar par /\
  exists s, texec par [MDelay 810; MDisc LCtxFire; MDelay 10; MDisc LSelCtx; MDelay 10; MDisc LSignal; MDelay 10; MDisc LArm;
                       MDelay 110; MDisc LTimerFire; MDelay 10; MDisc LSelTimer; MDelay 10; MDisc LKill; MDelay 10;
                       MDisc LKillExit; MDelay 10; MDisc LWaitRet; MDelay 10; MDisc LRendezvous] tinit = Some s
            /\ at_sig s = Some 830 /\ at_kill s = Some 970 /\ at_ret s = Some 1000 /\ uw (us s) = WDoneCtx.
Proof.
  split; [unfold wf_tpar; cbn; repeat split; intros; try lia; reflexivity|].
  eexists. split; [vm_compute; reflexivity|]. repeat split.
Qed.

Lemma texec_reach par ms : forall s s', treach par s -> texec par ms s = Some s' -> treach par s'.
Proof.
  induction ms as [|m ms IH]; intros s s' R E; cbn [texec] in E.
  - now injection E as <-.
  - destruct (tstep par m s) as [s1|] eqn:E1; [|discriminate]. eapply IH; [|exact E]. eapply tr_step; eauto.
Qed.

(* one more slack and the run above is impossible: the obligation refuses the delay *)
Example ta_delay_refused :
  let par := {| pu := {| has_ctx := true; kd_pos := true; self_exit := false; int_exit := false; sig_fails := false |};
                pC := 800; pK := 100; pE := 0; pD := 0; psig := 10 |} in
  texec par [MDelay 811] tinit = None /\ texec par [MDelay 700; MDisc LCtxFire] tinit = None.
Proof. split; vm_compute; reflexivity. Qed.

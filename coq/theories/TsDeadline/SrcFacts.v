(* C17 -- the translated pure segments of testscript's deadline handling (Gen/TsDeadlineSrc.v,
   regenerated from testscript/testscript.go and cmd.go on every run by harness/go2coq) are
   equal to the hand-written model TsDeadline/TsDeadline.v.

   What is translated (table: harness/cmd/genconsts/gen_tsdeadline_src.go):
     src_RunT_init            the declaration  var (ctx = context.Background(); gracePeriod = 100 ms; cancel)
     src_RunT_has_deadline    the condition  !p.Deadline.IsZero()
     src_RunT_deadline        timeout := time.Until(p.Deadline)  (its value is the parameter in_1),
                              gp := timeout / 20, the floor, timeout -= 2 * gracePeriod
     src_RunT_ctx_args        the arguments of context.WithTimeout
     src_RunT_no_scripts      the condition  refCount == 0 && !(p.TestWork || *testWork)
     src_RunT_script          ts := &TestScript{..., ctxt: ctx, gracePeriod: gracePeriod, ...}
     src_TestScript_exec_wait_args, src_TestScript_cmdExec_bg_wait_args
                              the arguments of the two waitOrStop calls
     src_TestScript_cmdExec_success / _failed / _failure
                              the conditions and the Fatalf decisions at the end of cmdExec
   None of them has a loop: there is no fuel.  The proofs unfold the generated definitions by
   name only and never mention a generated bound variable.

   time.Duration is int64: the translated arithmetic wraps (Lib/GoSemInt64.v), the model's is
   over Z.  They agree for every int64 value of time.Until except the lowest
   grace_reserve * min_grace (200 ms worth of nanoseconds), where Go's subtraction wraps around
   to a time-out of about +292 years: stated both ways below. *)
From Coq Require Import List Bool ZArith Lia.
From Coq.Strings Require Import Byte.
From GI Require Import Lib.Bytes Lib.GoSem Lib.GoSemSeg Lib.GoSemState Lib.GoSemInt64 Lib.GoSemInt64Facts Lib.GoSemFail.
From GI Require Import Gen.TsBatchConsts TsDeadline.TsDeadline TsDeadline.TsDeadlineFacts TsDeadline.SrcLib Gen.TsDeadlineSrc.
Import ListNotations.
Local Open Scope Z_scope.

(* ------------------------------------------------------------------ the declaration *)

Lemma src_init_eq :
  src_RunT_init = Ok (Normal (CtxBackground, min_grace, CancelNil)).
Proof. reflexivity. Qed.

(* ------------------------------------------------------------------ the arithmetic *)

(* the values time.Until can have for which the model's arithmetic is Go's *)
Definition until_ok (until : Z) : Prop := - i64_two63 + grace_reserve * min_grace <= until < i64_two63.

Lemma quot20_bounds until : is_i64 until -> - i64_two63 <= Z.quot until 20 * 20 /\ Z.quot until 20 * 20 < i64_two63 /\
  (0 <= until -> 0 <= Z.quot until 20 /\ Z.quot until 20 * 20 <= until) /\
  (until <= 0 -> Z.quot until 20 <= 0 /\ until <= Z.quot until 20 * 20).
Proof.
  intros H. unfold is_i64, i64_two63 in *.
  pose proof (Z.quot_rem' until 20) as E.
  destruct (Z_le_gt_dec 0 until) as [P|N].
  - pose proof (Z.rem_bound_pos until 20 P ltac:(lia)). lia.
  - pose proof (Z.rem_bound_pos (- until) 20 ltac:(lia) ltac:(lia)) as R.
    rewrite Z.rem_opp_l in R by lia. lia.
Qed.

(* the grace period: for EVERY int64 value of time.Until *)
Lemma src_deadline_grace until : is_i64 until ->
  exists t, src_RunT_deadline min_grace until = Ok (Normal (grace until, t)).
Proof.
  intros H. unfold src_RunT_deadline.
  rewrite go_i64_quo_pos by (exact H || lia). cbn [bind].
  unfold grace, grace_divisor.
  destruct (Z.quot until 20 >? min_grace); cbn [bind]; eexists; reflexivity.
Qed.

Lemma grace_is_i64 until : is_i64 until -> 0 < grace until /\ 2 * grace until < i64_two63 /\
  (0 <= until -> 2 * grace until <= until \/ grace until = min_grace).
Proof.
  intros H. destruct (quot20_bounds until H) as (A & B & C & D).
  unfold grace, grace_divisor, min_grace. unfold is_i64, i64_two63 in *.
  destruct (Z.gtb_spec (Z.quot until 20) 100000000); lia.
Qed.

(* the time-out handed to context.WithTimeout: the model's, unless the subtraction wraps *)
Theorem src_deadline_eq until : until_ok until ->
  src_RunT_deadline min_grace until = Ok (Normal (grace until, ctx_timeout until)).
Proof.
  intros H. assert (Hi : is_i64 until) by (unfold until_ok, is_i64, grace_reserve, min_grace, i64_two63 in *; lia).
  unfold src_RunT_deadline.
  rewrite go_i64_quo_pos by (exact Hi || lia). cbn [bind].
  pose proof (grace_is_i64 until Hi) as (G0 & G1 & G2).
  assert (E : (if Z.quot until 20 >? min_grace then Z.quot until 20 else min_grace) = grace until) by reflexivity.
  assert (S : forall g, g = grace until ->
             go_i64_sub until (go_i64_mul 2 g) = ctx_timeout until).
  { intros g ->. unfold go_i64_sub, go_i64_mul, ctx_timeout, grace_reserve.
    rewrite (go_wrap64_id (2 * grace until)) by (unfold is_i64, i64_two63 in *; lia).
    apply go_wrap64_id. unfold until_ok, is_i64, grace_reserve, min_grace, i64_two63 in *.
    destruct (Z_le_gt_dec 0 until) as [P|N].
    - destruct (G2 P) as [L|L]; lia.
    - assert (grace until = 100000000).
      { destruct (quot20_bounds until Hi) as (_ & _ & _ & D). unfold grace, grace_divisor, min_grace.
        destruct (Z.gtb_spec (Z.quot until 20) 100000000); lia. }
      lia. }
  destruct (Z.quot until 20 >? min_grace) eqn:C; cbn [bind]; rewrite S by (rewrite <- E; reflexivity);
    rewrite <- E; reflexivity.
Qed.

(* ... and when it wraps: time.Until saturates at the lowest int64 for a deadline more than
   about 292 years in the past; the context then gets a time-out of about +292 years *)
Theorem src_deadline_wraps until : - i64_two63 <= until < - i64_two63 + grace_reserve * min_grace ->
  src_RunT_deadline min_grace until = Ok (Normal (min_grace, ctx_timeout until + i64_two64)).
Proof.
  intros H. assert (Hi : is_i64 until) by (unfold is_i64, grace_reserve, min_grace, i64_two63 in *; lia).
  unfold src_RunT_deadline.
  rewrite go_i64_quo_pos by (exact Hi || lia). cbn [bind].
  destruct (quot20_bounds until Hi) as (_ & _ & _ & D).
  assert (C : (Z.quot until 20 >? min_grace) = false).
  { unfold min_grace, grace_reserve, i64_two63 in *. destruct (Z.gtb_spec (Z.quot until 20) 100000000); [lia|reflexivity]. }
  rewrite C. cbn [bind].
  assert (G : grace until = min_grace) by (unfold grace, grace_divisor; rewrite C; reflexivity).
  unfold go_i64_sub, go_i64_mul, ctx_timeout. rewrite G.
  rewrite (go_wrap64_id (2 * min_grace)) by (unfold is_i64, min_grace, i64_two63; lia).
  rewrite go_wrap64_low by (unfold grace_reserve, min_grace, i64_two63, i64_two64 in *; lia).
  reflexivity.
Qed.

Example src_deadline_examples :
  (* 3 s away: grace 150 ms, time-out 2.7 s; 400 ms away: 100 ms / 200 ms; 1 s ago: 100 ms / -1.2 s;
     the lowest int64: the time-out wraps to 2^63 - 200 ms *)
  src_RunT_deadline min_grace 3000000000 = Ok (Normal (150000000, 2700000000)) /\
  src_RunT_deadline min_grace 400000000 = Ok (Normal (100000000, 200000000)) /\
  src_RunT_deadline min_grace (-1000000000) = Ok (Normal (100000000, -1200000000)) /\
  src_RunT_deadline min_grace (- i64_two63) = Ok (Normal (100000000, i64_two63 - 200000000)) /\
  until_ok 3000000000 /\ until_ok (-1000000000) /\ until_ok (i64_two63 - 1).
Proof. vm_compute. repeat split; intro; discriminate. Qed.

(* ------------------------------------------------------------------ RunT: from Params to the context *)

(* what RunT hands to context.WithTimeout, by the translated segments in the order of the source:
   the declaration, the test of Params.Deadline, the arithmetic, the arguments.  None: no
   context with a time-out is made (ctx stays context.Background()).  [until] is the value of
   time.Until(p.Deadline). *)
Definition src_runt_context (p : ts_params) (until : Z) : GoSem.res (option (go_ctx * Z) * Z)%type :=
  bind src_RunT_init (fun o0 =>
  match o0 with
  | Normal (ctx, gp, _) =>
      bind (src_RunT_has_deadline p) (fun has =>
      if has then
        bind (src_RunT_deadline gp until) (fun o1 =>
        match o1 with
        | Normal (gp', timeout) => bind (src_RunT_ctx_args ctx timeout) (fun a => Ok (Some a, gp'))
        | _ => Panic
        end)
      else Ok (None, gp))
  | _ => Panic
  end).

Theorem src_runt_context_eq p until : until_ok until ->
  src_runt_context p until =
    Ok (if go_time_IsZero (p_Deadline p) then (None, min_grace)
        else (Some (CtxBackground, ctx_timeout until), grace until)).
Proof.
  intros H. unfold src_runt_context. rewrite src_init_eq. cbn [bind].
  unfold src_RunT_has_deadline. cbn [bind].
  destruct (go_time_IsZero (p_Deadline p)); cbn [negb]; [reflexivity|].
  rewrite (src_deadline_eq until H). cbn [bind]. reflexivity.
Qed.

(* "two grace periods before the deadline", on the translated segments: with a deadline set, the
   time-out RunT hands to context.WithTimeout plus grace_reserve grace periods is the time that
   was left, and the grace period is at least min_grace and at least the 20th part of it *)
Theorem src_two_grace_periods p until : until_ok until -> go_time_IsZero (p_Deadline p) = false ->
  exists g t, src_runt_context p until = Ok (Some (CtxBackground, t), g) /\
              (t + grace_reserve * g = until) /\ g >= min_grace /\ g >= Z.quot until grace_divisor.
Proof.
  intros H Z0. rewrite (src_runt_context_eq p until H), Z0.
  exists (grace until), (ctx_timeout until). split; [reflexivity|].
  split; [unfold ctx_timeout; lia|]. split; [apply grace_ge_min | apply grace_ge_share].
Qed.

(* the script's record gets exactly these two values *)
Lemma src_script_eq ctx gp :
  src_RunT_script ctx gp = Ok (Normal {| d_ctxt := ctx; d_gracePeriod := gp |}).
Proof. reflexivity. Qed.

(* ------------------------------------------------------------------ the waitOrStop calls *)

Lemma src_exec_wait_args_eq ts cmd :
  src_TestScript_exec_wait_args ts cmd = Ok (d_ctxt ts, cmd, d_gracePeriod ts).
Proof. reflexivity. Qed.

Lemma src_bg_wait_args_eq ts cmd :
  src_TestScript_cmdExec_bg_wait_args ts cmd = Ok (d_ctxt ts, cmd, bg_kill_delay).
Proof. reflexivity. Qed.

(* a foreground command of a script made by RunT is waited for with RunT's context and the
   model's kill delay *)
Theorem src_fg_kill_delay_eq ctx until cmd ts :
  src_RunT_script ctx (grace until) = Ok (Normal ts) ->
  src_TestScript_exec_wait_args ts cmd = Ok (ctx, cmd, fg_kill_delay until).
Proof.
  intros E. rewrite src_script_eq in E. injection E as <-.
  rewrite src_exec_wait_args_eq. cbn [d_ctxt d_gracePeriod]. rewrite <- (fg_kill_delay_grace until). reflexivity.
Qed.

(* ------------------------------------------------------------------ the early clean-up of RunT *)

Lemma src_no_scripts_eq p n tw :
  src_RunT_no_scripts p n tw = Ok ((n =? 0) && negb (p_TestWork p || tw)).
Proof. reflexivity. Qed.

(* RunT's own os.Remove / cancel() run only when there is no script at all *)
Theorem src_no_scripts_requires_empty p n tw :
  src_RunT_no_scripts p n tw = Ok true -> n = 0.
Proof.
  rewrite src_no_scripts_eq. intros E. injection E as E.
  apply andb_true_iff in E. destruct E as [E _]. apply Z.eqb_eq in E. exact E.
Qed.

(* ------------------------------------------------------------------ cmdExec's report *)

Definition unexpected_success_msg : bytes :=
  [x75; x6e; x65; x78; x70; x65; x63; x74; x65; x64; x20; x63; x6f; x6d; x6d; x61; x6e; x64; x20; x73; x75; x63; x63; x65; x73; x73].
Definition unexpected_failure_msg : bytes :=
  [x75; x6e; x65; x78; x70; x65; x63; x74; x65; x64; x20; x63; x6f; x6d; x6d; x61; x6e; x64; x20; x66; x61; x69; x6c; x75; x72; x65].

(* the tail of cmdExec for a foreground command, by the translated segments in the order of
   the source:  if err == nil && neg { Fatalf(success) };  if err != nil { ...; the failure
   decision }.  [expired] is the value of ts.ctxt.Err() != nil.  (The Fatalf of the first
   condition is named by the selector of the segment; its message is not part of a condition.) *)
Definition src_cmd_exec_tail (ts : ts_drecv) (err expired neg : bool) : GoSem.res (exitm unit) :=
  bind (src_TestScript_cmdExec_success neg err) (fun s =>
  if s then Ok (FailedM unexpected_success_msg)
  else
    bind (src_TestScript_cmdExec_failed err) (fun f =>
    if f then
      bind (src_TestScript_cmdExec_failure ts neg expired) (fun o =>
      match o with
      | Return x => Ok x
      | Normal _ => Ok (DoneM tt)
      | _ => Panic
      end)
    else Ok (DoneM tt))).

Definition verdict_of_exit (x : exitm unit) : option exec_verdict :=
  match x with
  | DoneM _ => Some XOk
  | FailedM m =>
      if bytes_eqb m timed_out_message then Some (XTimedOut m)
      else if bytes_eqb m unexpected_failure_msg then Some XUnexpectedFailure
      else if bytes_eqb m unexpected_success_msg then Some XUnexpectedSuccess
      else None
  end.

Theorem src_cmd_exec_tail_eq ts err expired neg :
  exists x, src_cmd_exec_tail ts err expired neg = Ok x /\
            verdict_of_exit x = Some (cmd_exec_verdict err expired neg).
Proof.
  unfold src_cmd_exec_tail, src_TestScript_cmdExec_success, src_TestScript_cmdExec_failed,
    src_TestScript_cmdExec_failure, cmd_exec_verdict.
  destruct err, expired, neg; cbn [bind negb andb]; eexists; (split; [reflexivity|]); vm_compute; reflexivity.
Qed.

(* an exec that failed while the context had expired is reported with the timed-out message *)
Theorem src_cmd_exec_timed_out ts neg :
  src_cmd_exec_tail ts true true neg = Ok (FailedM timed_out_message).
Proof. destruct neg; reflexivity. Qed.

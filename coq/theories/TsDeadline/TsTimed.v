(* C17 — waitOrStop as a timed automaton: definitions only.

   The control part is the interleaving system of TsDeadline.v (ustate / ustep), unchanged.  The
   timed state adds a clock and the times at which things happened.  Two kinds of transition:

   - a discrete step: a label of the interleaving system, allowed when that system allows it and,
     for the events of the environment, not before their time (the context is not done before its
     deadline, the process does not exit by itself before its time, the timer does not fire before
     killDelay has passed since it was armed, ...);
   - a delay: the clock advances by d >= 0, allowed as long as no pending obligation is overdue.
     Every enabled step has to be taken within the slack sigma of the moment it became possible
     (the context and the timer are seen at most sigma late, a goroutine that can move does so
     within sigma, a rendezvous on errc happens within sigma of both sides being ready, ...).

   A run is any sequence of such transitions from the initial state: every interleaving and every
   timing the slack permits. *)
From Coq Require Import List Bool ZArith Lia.
From GI Require Import Lib.Bytes Gen.TsBatchConsts TsDeadline.TsDeadline.
Import ListNotations.
Local Open Scope Z_scope.

Record tpar := {
  pu : uparams;
  pC : Z;      (* deadline of the context (meaningful when has_ctx) *)
  pK : Z;      (* killDelay *)
  pE : Z;      (* when the process exits by itself (meaningful when self_exit) *)
  pD : Z;      (* how long after a delivered interrupt it exits (meaningful when int_exit) *)
  psig : Z     (* the slack *)
}.

Record tstate := {
  us : ustate;
  now : Z;
  at_h : Z;               (* when the helper entered its present location *)
  at_ctx : option Z;      (* when the context was seen done *)
  at_exit : option Z;     (* when the process exited *)
  at_wrecv : option Z;    (* when cmd.Wait returned and the waiter got to <-errc *)
  at_sig : option Z;      (* when Signal(interrupt) was called on a process not yet reaped *)
  at_arm : option Z;      (* when the kill timer was armed *)
  at_fire : option Z;     (* when the helper's select saw timer.C *)
  at_kill : option Z;     (* when Kill was called *)
  at_ret : option Z       (* when the value was passed on errc: waitOrStop returns *)
}.

Definition tinit : tstate :=
  {| us := uinit; now := 0; at_h := 0; at_ctx := None; at_exit := None; at_wrecv := None; at_sig := None;
     at_arm := None; at_fire := None; at_kill := None; at_ret := None |}.

(* the earliest moment an event of the environment may happen *)
Definition time_guard (par : tpar) (l : ulabel) (s : tstate) : bool :=
  match l with
  | LCtxFire => pC par <=? now s
  | LSelfExit => pE par <=? now s
  | LIntExit => match at_sig s with Some ts => ts + pD par <=? now s | None => false end
  | LKillExit => match at_kill s with Some tk => tk <=? now s | None => false end
  | LTimerFire => match at_arm s with Some ta => ta + pK par <=? now s | None => false end
  | _ => true
  end.

Definition is_armed (x : tmr) : bool := match x with TArmed => true | _ => false end.
Definition is_after_sig (x : hpc) : bool := match x with HAfterSig => true | _ => false end.

(* the times a discrete step records *)
Definition stamp (l : ulabel) (s : tstate) (u' : ustate) : tstate :=
  let n := now s in
  match l with
  | LCtxFire =>
      {| us := u'; now := n; at_h := at_h s; at_ctx := Some n; at_exit := at_exit s; at_wrecv := at_wrecv s; at_sig := at_sig s;
         at_arm := at_arm s; at_fire := at_fire s; at_kill := at_kill s; at_ret := at_ret s |}
  | LSelfExit | LIntExit | LKillExit =>
      {| us := u'; now := n; at_h := at_h s; at_ctx := at_ctx s; at_exit := Some n; at_wrecv := at_wrecv s; at_sig := at_sig s;
         at_arm := at_arm s; at_fire := at_fire s; at_kill := at_kill s; at_ret := at_ret s |}
  | LTimerFire =>
      {| us := u'; now := n; at_h := at_h s; at_ctx := at_ctx s; at_exit := at_exit s; at_wrecv := at_wrecv s; at_sig := at_sig s;
         at_arm := at_arm s; at_fire := Some n; at_kill := at_kill s; at_ret := at_ret s |}
  | LWaitRet =>
      {| us := u'; now := n; at_h := at_h s; at_ctx := at_ctx s; at_exit := at_exit s; at_wrecv := Some n; at_sig := at_sig s;
         at_arm := at_arm s; at_fire := at_fire s; at_kill := at_kill s; at_ret := at_ret s |}
  | LRendezvous =>
      {| us := u'; now := n; at_h := n; at_ctx := at_ctx s; at_exit := at_exit s; at_wrecv := at_wrecv s; at_sig := at_sig s;
         at_arm := at_arm s; at_fire := at_fire s; at_kill := at_kill s; at_ret := Some n |}
  | LSelCtx | LSelTimer =>
      {| us := u'; now := n; at_h := n; at_ctx := at_ctx s; at_exit := at_exit s; at_wrecv := at_wrecv s; at_sig := at_sig s;
         at_arm := at_arm s; at_fire := at_fire s; at_kill := at_kill s; at_ret := at_ret s |}
  | LSignal =>
      {| us := u'; now := n; at_h := n; at_ctx := at_ctx s; at_exit := at_exit s; at_wrecv := at_wrecv s;
         at_sig := if is_after_sig (uh u') then Some n else at_sig s;
         at_arm := at_arm s; at_fire := at_fire s; at_kill := at_kill s; at_ret := at_ret s |}
  | LArm =>
      {| us := u'; now := n; at_h := n; at_ctx := at_ctx s; at_exit := at_exit s; at_wrecv := at_wrecv s; at_sig := at_sig s;
         at_arm := if is_armed (utm u') then Some n else at_arm s; at_fire := at_fire s; at_kill := at_kill s; at_ret := at_ret s |}
  | LKill =>
      {| us := u'; now := n; at_h := n; at_ctx := at_ctx s; at_exit := at_exit s; at_wrecv := at_wrecv s; at_sig := at_sig s;
         at_arm := at_arm s; at_fire := at_fire s; at_kill := Some n; at_ret := at_ret s |}
  end.

Definition tdisc (par : tpar) (l : ulabel) (s : tstate) : option tstate :=
  if time_guard par l s
  then match ustep (pu par) l (us s) with Some u' => Some (stamp l s u') | None => None end
  else None.

Definition send_ready (x : hpc) : bool :=
  match x with HSel1 | HSendNil | HSel2 | HSendErr => true | _ => false end.

Definition opt_list (o : option Z) (f : Z -> Z) : list Z := match o with Some x => [f x] | None => [] end.

(* the moments by which something that is pending has to have happened *)
Definition obligations (par : tpar) (s : tstate) : list Z :=
  let u := us s in let p := pu par in let sg := psig par in
  (if has_ctx p && negb (uctx u) then [pC par + sg] else []) ++
  (if self_exit p && is_prun (upr u) then [pE par + sg] else []) ++
  (if int_exit p && is_prun (upr u) && uintr u then opt_list (at_sig s) (fun ts => ts + pD par + sg) else []) ++
  (if is_prun (upr u) && ukil u then opt_list (at_kill s) (fun tk => tk + sg) else []) ++
  (if is_armed (utm u) then opt_list (at_arm s) (fun ta => ta + pK par + sg) else []) ++
  (match uw u, upr u with WWait, PZombie => opt_list (at_exit s) (fun te => te + sg) | _, _ => [] end) ++
  (match uh u with HSig | HAfterSig | HKill => [at_h s + sg] | _ => [] end) ++
  (match uh u with HSel1 => if uctx u then opt_list (at_ctx s) (fun tc => tc + sg) else [] | _ => [] end) ++
  (match uh u, utm u with HSel2, TFired => opt_list (at_fire s) (fun tf => tf + sg) | _, _ => [] end) ++
  (match uw u with
   | WRecv => if send_ready (uh u) then opt_list (at_wrecv s) (fun tw => Z.max tw (at_h s) + sg) else []
   | _ => []
   end).

Definition can_delay (par : tpar) (s : tstate) (d : Z) : bool :=
  (0 <=? d) && forallb (fun dl => now s + d <=? dl) (obligations par s).

Definition advance (s : tstate) (d : Z) : tstate :=
  {| us := us s; now := now s + d; at_h := at_h s; at_ctx := at_ctx s; at_exit := at_exit s; at_wrecv := at_wrecv s;
     at_sig := at_sig s; at_arm := at_arm s; at_fire := at_fire s; at_kill := at_kill s; at_ret := at_ret s |}.

Inductive tmove := MDisc (l : ulabel) | MDelay (d : Z).

Definition tstep (par : tpar) (m : tmove) (s : tstate) : option tstate :=
  match m with
  | MDisc l => tdisc par l s
  | MDelay d => if can_delay par s d then Some (advance s d) else None
  end.

Fixpoint texec (par : tpar) (ms : list tmove) (s : tstate) : option tstate :=
  match ms with
  | [] => Some s
  | m :: r => match tstep par m s with Some s' => texec par r s' | None => None end
  end.

(* the parameters make sense: non-negative times, killDelay > 0 exactly when kd_pos *)
Definition wf_tpar (par : tpar) : Prop :=
  0 <= psig par /\ 0 <= pC par /\ 0 <= pE par /\ 0 <= pD par /\
  (kd_pos (pu par) = true <-> 0 < pK par).

(* a foreground command under RunT: the constants of TsDeadline.v *)
Definition fg_tpar (u : uparams) (now_ eps D e d sg : Z) : tpar :=
  {| pu := u; pC := ctx_deadline now_ eps D; pK := fg_kill_delay (D - now_); pE := e; pD := d; psig := sg |}.

(* C17 — facts about scripts that start late (TsLate.v). *)
From Coq Require Import List Bool ZArith Lia.
From GI Require Import Lib.Bytes Gen.TsBatchConsts TsDeadline.TsDeadline TsDeadline.TsDeadlineFacts TsDeadline.TsLate.
Import ListNotations.
Local Open Scope Z_scope.

(* the context of a script is RunT's: when it expires does not depend on when the script starts *)
Lemma script_ctx_is_runts now eps D t0 : script_ctx_deadline now eps D t0 = ctx_deadline now eps D.
Proof. reflexivity. Qed.

(* a command started before the context expires is, for waitOrStop, exactly the command of the RunT
   call: every statement about fg_params (interrupt two grace periods before the deadline, kill one
   grace period later, return times, verdicts) holds for it whenever its script started *)
Lemma late_script_same_params now eps D t0 e i :
  t0 <= ctx_deadline now eps D -> fg_params_at now eps D t0 e i = fg_params now eps D e i.
Proof.
  intro H. unfold fg_params_at, fg_params_at_gen, started_at, fg_params. cbn [tC tK tE tI option_map].
  rewrite script_ctx_is_runts. now rewrite Z.max_r.
Qed.

Lemma late_script_interrupt_time sigma now eps D t0 i o :
  bounded sigma o -> t0 <= ctx_deadline now eps D ->
  exists ti, t_int (wos (fg_params_at now eps D t0 None i) o) = Some ti /\ int_ok (wos (fg_params_at now eps D t0 None i) o) = true /\
             D + eps - grace_reserve * grace (D - now) <= ti <= D + eps - grace_reserve * grace (D - now) + 2 * sigma.
Proof. intros B H. rewrite (late_script_same_params _ _ _ _ _ _ H). now apply runt_interrupt_time. Qed.

(* a command started after the context has expired is interrupted as soon as it runs (two slacks), and
   killed one grace period after that if it ignores the interrupt *)
Lemma started_after_expiry sigma now eps D t0 i o :
  bounded sigma o -> ctx_deadline now eps D <= t0 ->
  exists ti, t_int (wos (fg_params_at now eps D t0 None i) o) = Some ti /\ int_ok (wos (fg_params_at now eps D t0 None i) o) = true /\
             t0 <= ti <= t0 + 2 * sigma.
Proof.
  intros B H.
  apply (blocked_interrupted sigma (fg_params_at now eps D t0 None i) o t0 B eq_refl).
  unfold fg_params_at, fg_params_at_gen, started_at. cbn [tC option_map]. rewrite script_ctx_is_runts. now rewrite Z.max_l.
Qed.

Lemma started_after_expiry_kill sigma now eps D t0 o :
  bounded sigma o -> ctx_deadline now eps D <= t0 ->
  exists tk, t_kill (wos (fg_params_at now eps D t0 None None) o) = Some tk /\
             t0 + grace (D - now) <= tk <= t0 + grace (D - now) + 5 * sigma.
Proof.
  intros B H. pose proof (grace_ge_min (D - now)) as G.
  destruct (kill_escalation sigma (fg_params_at now eps D t0 None None) o t0 B eq_refl eq_refl) as (tk & T & L & _).
  - unfold fg_params_at, fg_params_at_gen, started_at. cbn [tC option_map]. rewrite script_ctx_is_runts. now rewrite Z.max_l.
  - unfold fg_params_at, fg_params_at_gen, started_at. cbn [tK]. rewrite fg_kill_delay_grace.
    assert (0 < min_grace) by reflexivity. lia.
  - exists tk. split; [exact T|]. unfold fg_params_at, fg_params_at_gen, started_at in L. cbn [tK] in L.
    rewrite fg_kill_delay_grace in L. exact L.
Qed.

(* With a context per subtest, counted from the start of the subtest, it is false: a script that
   starts late and blocks is interrupted later than two grace periods before the deadline - here after
   the deadline itself. *)
Lemma context_per_subtest_refuted :
  exists now eps D t0 o,
    now <= t0 /\ t0 <= ctx_deadline now eps D /\ bounded 0 o /\
    exists ti, t_int (wos (fg_params_at_gen false now eps D t0 None None) o) = Some ti /\ D < ti.
Proof.
  exists 0, 0, 1000000000, 400000000,
    {| dw := 0; dc := 0; ds := 0; da := 0; dt := 0; dk := 0; dr := 0; tie1 := true; tie2 := true; tie3 := true |}.
  split; [lia|]. split; [vm_compute; discriminate|]. split; [unfold bounded; cbn; lia|].
  eexists. split; [vm_compute; reflexivity | reflexivity].
Qed.

Example late_script_example :
  (* RunT at 0, deadline 1.5 s away (grace 100 ms, context expires at 1.3 s): a command started at 0.4 s
     and one started at 1.35 s, both ignoring the interrupt, all delays 10 ms *)
  let o := {| dw := 10000000; dc := 10000000; ds := 10000000; da := 10000000; dt := 10000000; dk := 10000000; dr := 10000000; tie1 := true; tie2 := true; tie3 := true |} in
  (t_int (wos (fg_params_at 0 0 1500000000 400000000 None None) o), t_kill (wos (fg_params_at 0 0 1500000000 400000000 None None) o))
  = (Some 1320000000, Some 1450000000)
  /\ (t_int (wos (fg_params_at 0 0 1500000000 1350000000 None None) o), t_kill (wos (fg_params_at 0 0 1500000000 1350000000 None None) o))
  = (Some 1370000000, Some 1500000000).
Proof. vm_compute. split; reflexivity. Qed.

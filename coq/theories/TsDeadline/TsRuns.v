(* C17 — several RunT calls made by one process, and the last lines of waitOrStop with the exit
   status of the command: definitions only.

   1. A process may call RunT (or Run) many times, each call with its own Params.Deadline or with
      none.  What one call computes — grace period, expiry of its context — must not depend on the
      calls made before it.  In the source the grace period is a variable of RunT's own body; the
      model also has the other reading, in which it is package-level state that a call scales up in
      place and the next call starts from (the change seeded as C17-r4m1).  Which of the two the
      source has is a generated constant (grace_period_is_local).

   2. waitOrStop ends with
        waitErr := cmd.Wait()
        if interruptErr := <-errc; interruptErr != nil { return interruptErr }
        return waitErr
      The helper goroutine's value wins whenever it is not nil, whatever cmd.Wait returned: a
      command that was blocked until the context expired and then exits with status 0 on the
      interrupt has timed out all the same.  The model also has the reading in which the
      interrupt error is returned only if Wait failed too (seeded as C17-r4m2); the generated
      constant interrupt_error_wins says which one the source has.

   Anchors: testscript/testscript.go RunT, waitOrStop; testscript/cmd.go cmdExec. *)
From Coq Require Import List Bool ZArith Lia.
From Coq.Strings Require Import Byte.
From GI Require Import Lib.Bytes Gen.TsBatchConsts TsDeadline.TsDeadline.
Import ListNotations.
Local Open Scope Z_scope.

(* ------------------------------------------------------------------ 1. histories of RunT calls *)

(* what the package keeps between two calls (nothing, in the source as it is) *)
Record pstate := { kept_grace : Z }.
Definition pstate0 : pstate := {| kept_grace := min_grace |}.

Record call := {
  c_now : Z;                 (* when time.Until(p.Deadline) is read *)
  c_eps : Z;                 (* context.WithTimeout is called this much later *)
  c_deadline : option Z      (* Params.Deadline; None: not set *)
}.

Record call_result := {
  r_grace : Z;               (* ts.gracePeriod of the scripts of this call *)
  r_ctx : option Z           (* when the context of this call expires; None: never *)
}.

(* one call.  [local]: gracePeriod is declared in RunT's body and starts at min_grace every time;
   otherwise it is the package's variable, raised in place. *)
Definition run_call (local : bool) (st : pstate) (c : call) : pstate * call_result :=
  let g0 := if local then min_grace else kept_grace st in
  match c_deadline c with
  | None => (st, {| r_grace := g0; r_ctx := None |})
  | Some D =>
      let until := D - c_now c in
      let gp := Z.quot until grace_divisor in
      let g := if Z.gtb gp g0 then gp else g0 in
      (if local then st else {| kept_grace := g |},
       {| r_grace := g; r_ctx := Some (c_now c + c_eps c + (until - grace_reserve * g)) |})
  end.

Fixpoint run_calls (local : bool) (st : pstate) (cs : list call) : list call_result :=
  match cs with
  | [] => []
  | c :: r => let '(st', res) := run_call local st c in res :: run_calls local st' r
  end.

(* the call made by a fresh process *)
Definition single_call (c : call) : call_result := snd (run_call true pstate0 c).

(* the source as it is *)
Definition run_calls_now := run_calls grace_period_is_local pstate0.

(* the parameters of a foreground command of a script of the call with result r *)
Definition call_params (r : call_result) (e i : option Z) : tparams :=
  {| tC := r_ctx r; tK := (if fg_kill_delay_is_grace then r_grace r else bg_kill_delay); tE := e; tI := i |}.

(* ------------------------------------------------------------------ 2. the return value of waitOrStop *)

Inductive werr :=
  | WNil            (* nil *)
  | WExitErr        (* cmd.Wait's *exec.ExitError: non-zero status, or ended by a signal *)
  | WCtxErr         (* ctx.Err() *)
  | WSignalErr.     (* the error of Process.Signal *)

Definition is_nil_err (e : werr) : bool := match e with WNil => true | _ => false end.

(* [wins]: `if interruptErr != nil { return interruptErr }`;
   otherwise `if interruptErr != nil && waitErr != nil { return interruptErr }` *)
Definition wos_return (wins : bool) (interrupt_err wait_err : werr) : werr :=
  if is_nil_err interrupt_err then wait_err
  else if wins then interrupt_err
  else if is_nil_err wait_err then WNil else interrupt_err.

(* cmdExec with the exit status made explicit: wait_ok = the command's own status is 0 *)
Definition fg_exec_gen (wins : bool) (p : tparams) (o : oracle) (wait_ok neg : bool) : option exec_verdict :=
  let r := wos p o in
  match t_ret r with
  | None => None
  | Some tr =>
      let ie := match res r with RCtx => WCtxErr | _ => WNil end in
      let we := if wait_ok then WNil else WExitErr in
      let err := negb (is_nil_err (wos_return wins ie we)) in
      let expired := match tC p with Some c => c <=? tr | None => false end in
      Some (cmd_exec_verdict err expired neg)
  end.

(* C17 — lemmas about the deadline model of TsDeadline.v. *)
From Coq Require Import List Bool ZArith Lia.
From Coq.Strings Require Import Byte.
From GI Require Import Lib.Bytes Gen.TsBatchConsts TsDeadline.TsDeadline.
Import ListNotations.

(* ------------------------------------------------------------------ 1. arithmetic *)
Section Arith.
Local Open Scope Z_scope.

Lemma grace_ge_min until : grace until >= min_grace.
Proof. unfold grace. cbv zeta. destruct (Z.gtb_spec (Z.quot until grace_divisor) min_grace); lia. Qed.

Lemma grace_ge_share until : grace until >= Z.quot until grace_divisor.
Proof. unfold grace. cbv zeta. destruct (Z.gtb_spec (Z.quot until grace_divisor) min_grace); lia. Qed.

Lemma grace_cases until :
  grace until = min_grace \/ grace until = Z.quot until grace_divisor.
Proof. unfold grace. cbv zeta. destruct (Z.quot until grace_divisor >? min_grace); auto. Qed.

(* the context expires grace_reserve grace periods before the deadline (eps later when
   WithTimeout is called eps after time.Until), and the grace period is at least min_grace *)
Lemma grace_arith now eps D :
  ctx_deadline now eps D + grace_reserve * grace (D - now) = D + eps /\ grace (D - now) >= min_grace.
Proof. split; [unfold ctx_deadline, ctx_timeout; lia | apply grace_ge_min]. Qed.

Example grace_arith_example :
  (* a deadline 3 s away: grace 150 ms, context expires at 2.7 s; 400 ms away: grace 100 ms, context at 200 ms *)
  grace 3000000000 = 150000000 /\ ctx_deadline 0 0 3000000000 = 2700000000 /\
  grace 400000000 = 100000000 /\ ctx_deadline 0 0 400000000 = 200000000.
Proof. vm_compute. repeat split. Qed.
End Arith.

(* ------------------------------------------------------------------ 2. every interleaving *)

Inductive reachable (p : uparams) : ustate -> Prop :=
  | r_init : reachable p uinit
  | r_step : forall s l s', reachable p s -> ustep p l s = Some s' -> reachable p s'.

Lemma wpc_n_inj a b : wpc_n a = wpc_n b -> a = b.
Proof. destruct a, b; cbn; congruence. Qed.
Lemma hpc_n_inj a b : hpc_n a = hpc_n b -> a = b.
Proof. destruct a, b; cbn; congruence. Qed.
Lemma pst_n_inj a b : pst_n a = pst_n b -> a = b.
Proof. destruct a, b; cbn; congruence. Qed.
Lemma tmr_n_inj a b : tmr_n a = tmr_n b -> a = b.
Proof. destruct a, b; cbn; congruence. Qed.

Lemma ustate_eqb_eq a b : ustate_eqb a b = true -> a = b.
Proof.
  unfold ustate_eqb. rewrite !andb_true_iff. intros (((((((((H1 & H2) & H3) & H4) & H5) & H6) & H7) & H7') & H8) & H9).
  apply Nat.eqb_eq in H1, H2, H3, H5, H8, H9. apply eqb_prop in H4, H6, H7, H7'.
  apply wpc_n_inj in H1. apply hpc_n_inj in H2. apply pst_n_inj in H3. apply tmr_n_inj in H5.
  destruct a, b. cbn in *. congruence.
Qed.

Lemma umem_in s l : umem s l = true -> In s l.
Proof.
  unfold umem. intro H. apply existsb_exists in H as (x & Hx & E). apply ustate_eqb_eq in E. now subst.
Qed.

Lemma in_all_labels l : In l all_labels.
Proof. destruct l; cbn; tauto. Qed.

Lemma in_succs p l s s' : ustep p l s = Some s' -> In s' (succs p s).
Proof.
  intro H. unfold succs. apply in_flat_map. exists l. split; [apply in_all_labels|]. rewrite H. now left.
Qed.

Lemma closed_sound p r : closed p r = true -> forall s, reachable p s -> In s r.
Proof.
  unfold closed. intro H. apply andb_true_iff in H as [H0 H1]. rewrite forallb_forall in H1.
  intros s R. induction R as [|s l s' R IH E].
  - now apply umem_in.
  - specialize (H1 s IH). rewrite forallb_forall in H1. apply umem_in. apply H1. eapply in_succs; eauto.
Qed.

Lemma closed_reach p : closed p (reach p) = true.
Proof. destruct p as [[] [] [] [] []]; vm_compute; reflexivity. Qed.

Lemma good_reach p : forallb (ugood p) (reach p) = true.
Proof. destruct p as [[] [] [] [] []]; vm_compute; reflexivity. Qed.

(* all interleavings of waiter, helper, process, context and timer, for every kind of process
   and kill delay: every reachable state is good *)
Lemma reachable_good p s : reachable p s -> ugood p s = true.
Proof.
  intro R. pose proof (closed_sound p (reach p) (closed_reach p) s R) as Hin.
  pose proof (good_reach p) as G. rewrite forallb_forall in G. now apply G.
Qed.

Ltac split_good H :=
  unfold ugood in H; rewrite !andb_true_iff in H;
  destruct H as (((((((((((G1 & G2) & G3) & G4) & G5) & G6) & G7) & G8) & G9) & G10) & G11) & G12).

(* exactly one value is sent and received; both threads finish together, when it has been passed *)
Lemma one_value p s : reachable p s ->
  usent s = urecv s /\ usent s <= 1 /\
  (w_done (uw s) = true <-> h_done (uh s) = true) /\ (h_done (uh s) = true <-> usent s = 1).
Proof.
  intro R. pose proof (reachable_good p s R) as H. split_good H.
  apply Nat.eqb_eq in G1. apply Nat.leb_le in G2. apply eqb_prop in G3, G4.
  repeat split; try assumption; try (rewrite G3; tauto); try (rewrite <- G3; tauto).
  - rewrite G4. apply Nat.eqb_eq.
  - intro E. rewrite G4. now apply Nat.eqb_eq.
Qed.

(* no deadlock: once the process has exited, either both threads have finished or one of them
   can take a step that waits for nothing *)
Lemma no_deadlock p s : reachable p s -> upr s <> PRun ->
  (w_done (uw s) = true /\ h_done (uh s) = true) \/
  exists l s', In l unconditional_labels /\ ustep p l s = Some s'.
Proof.
  intros R Hp. pose proof (reachable_good p s R) as H. split_good H.
  apply orb_true_iff in G5 as [G5|G5].
  - apply orb_true_iff in G5 as [G5|G5].
    + destruct (upr s); cbn in G5; try discriminate. contradiction.
    + left. now apply andb_true_iff.
  - right. apply existsb_exists in G5 as (l & Hl & E). unfold enabled in E.
    destruct (ustep p l s) as [s'|] eqn:Es; [|discriminate]. eauto.
Qed.

(* and there are finitely many such steps: every thread step lowers the rank (at most 9), the
   environment never raises it *)
Lemma thread_steps_bounded p s l s' : reachable p s -> ustep p l s = Some s' ->
  if is_thread_label l then rank s' < rank s else rank s' = rank s.
Proof.
  intros R E. pose proof (reachable_good p s R) as H. split_good H.
  rewrite forallb_forall in G6. specialize (G6 l (in_all_labels l)). rewrite E in G6.
  destruct (is_thread_label l); [now apply Nat.ltb_lt | now apply Nat.eqb_eq].
Qed.

Lemma rank_le_9 s : rank s <= 9.
Proof. unfold rank. destruct (uw s), (uh s); lia. Qed.

(* attribution: waitOrStop returns Wait's own result exactly when no signal was sent (the select sent
   nil, or Signal answered os.ErrProcessDone because Wait had already reaped the process); it returns
   the context's error when Signal(interrupt) returned nil, and also when Signal failed but the waiter
   took the value from the second select; after a failed Signal the final send carries Signal's error *)
Lemma attribution p s : reachable p s ->
  (uw s = WDoneCtx -> (uintr s = true \/ usigerr s = true) /\ uctx s = true) /\
  (uw s = WDoneWait -> uintr s = false /\ usigerr s = false) /\
  (uw s = WDoneSig -> usigerr s = true /\ uctx s = true) /\
  (sig_fails p = false -> usigerr s = false).
Proof.
  intro R. pose proof (reachable_good p s R) as H. split_good H.
  split; [|split; [|split]].
  - intro E. rewrite E in G7. apply andb_true_iff in G7 as [G7a G7b]. split; [now apply orb_true_iff | exact G7b].
  - intro E. rewrite E in G7. apply andb_true_iff in G7 as [G7a G7b]. split; now apply negb_true_iff.
  - intro E. rewrite E in G7. now apply andb_true_iff in G7.
  - intro Hf. destruct (usigerr s) eqn:E; [|reflexivity]. rewrite orb_true_r in G9. cbn in G9.
    rewrite !andb_true_iff in G9. destruct G9 as (_ & G9). rewrite Hf in G9. discriminate.
Qed.

Lemma kill_only_after_interrupt p s : reachable p s -> ukil s = true ->
  kd_pos p = true /\ (uintr s = true \/ usigerr s = true) /\ utm s = TFired.
Proof.
  intros R E. pose proof (reachable_good p s R) as H. split_good H. rewrite E in G8. cbn in G8.
  apply andb_true_iff in G8 as [G8 G8c]. apply andb_true_iff in G8 as [G8a G8b].
  split; [assumption|]. split; [now apply orb_true_iff|]. destruct (utm s); congruence.
Qed.

Lemma no_signal_before_ctx p s : reachable p s -> (uintr s = true \/ usigerr s = true) ->
  uctx s = true /\ has_ctx p = true.
Proof.
  intros R E. pose proof (reachable_good p s R) as H. split_good H.
  assert (X : (uintr s || usigerr s) = true) by (now apply orb_true_iff). rewrite X in G9. cbn in G9.
  rewrite !andb_true_iff in G9. tauto.
Qed.

Example reachable_example :
  (* a process that ignores the interrupt: context fires, signal, timer, kill, exit, both return *)
  uexec {| has_ctx := true; kd_pos := true; self_exit := false; int_exit := false; sig_fails := false |}
        [LCtxFire; LSelCtx; LSignal; LArm; LTimerFire; LSelTimer; LKill; LKillExit; LWaitRet; LRendezvous] uinit
  = Some {| uw := WDoneCtx; uh := HDone; upr := PReaped; uctx := true; utm := TFired; uintr := true; ukil := true; usigerr := false; usent := 1; urecv := 1 |}.
Proof. reflexivity. Qed.

Example signal_error_example :
  (* Signal fails (say EPERM): no interrupt is delivered, the timer still runs, Kill is sent, and the
     error returned is Signal's *)
  uexec {| has_ctx := true; kd_pos := true; self_exit := false; int_exit := false; sig_fails := true |}
        [LCtxFire; LSelCtx; LSignal; LArm; LTimerFire; LSelTimer; LKill; LKillExit; LWaitRet; LRendezvous] uinit
  = Some {| uw := WDoneSig; uh := HDone; upr := PReaped; uctx := true; utm := TFired; uintr := false; ukil := true; usigerr := true; usent := 1; urecv := 1 |}.
Proof. reflexivity. Qed.

Lemma uexec_reachable p ls : forall s s', reachable p s -> uexec p ls s = Some s' -> reachable p s'.
Proof.
  induction ls as [|l ls IH]; intros s s' R E; cbn [uexec] in E.
  - now injection E as <-.
  - destruct (ustep p l s) as [s1|] eqn:E1; [|discriminate]. eapply IH; [|exact E]. eapply r_step; eauto.
Qed.

(* ------------------------------------------------------------------ 3. timed runs *)
Section Timed.
Local Open Scope Z_scope.

Ltac zb :=
  repeat match goal with
         | H : (_ <? _) = true |- _ => apply Z.ltb_lt in H
         | H : (_ <? _) = false |- _ => apply Z.ltb_ge in H
         | H : (_ <=? _) = true |- _ => apply Z.leb_le in H
         | H : (_ <=? _) = false |- _ => apply Z.leb_gt in H
         end.

Ltac proj := cbn [res t_ret t_int t_kill int_ok t_exit trace].

Ltac split_ifs :=
  repeat match goal with
         | |- context [if ?b then _ else _] => destruct b eqn:?
         end.

(* a command that finishes more than one slack before the context expires is not affected:
   Wait's own result, no signal, returns within two slacks of its exit *)
Lemma early_unaffected sigma p o ee :
  bounded sigma o -> tE p = Some ee ->
  match tC p with Some c => ee + sigma < c | None => True end ->
  res (wos p o) = RWait /\ t_int (wos p o) = None /\ t_kill (wos p o) = None /\
  exists r, t_ret (wos p o) = Some r /\ ee <= r <= ee + 2 * sigma.
Proof.
  intros (Bw & Bc & Bs & Ba & Bt & Bk & Br) HE HC. unfold wos. rewrite HE. cbn [option_map].
  destruct (tC p) as [c|]; cbn [option_map decide_first]; cbn in HC.
  - destruct (ee + dw o <? c + dc o) eqn:E1; [|zb; exfalso; lia].
    proj. split; [reflexivity|]. split; [reflexivity|]. split; [reflexivity|]. eexists. split; [reflexivity | ]. lia.
  - proj. split; [reflexivity|]. split; [reflexivity|]. split; [reflexivity|]. eexists. split; [reflexivity | lia].
Qed.

(* a command that blocks is interrupted within two slacks of the expiry of the context *)
Lemma blocked_interrupted sigma p o c :
  bounded sigma o -> tE p = None -> tC p = Some c ->
  exists ti, t_int (wos p o) = Some ti /\ int_ok (wos p o) = true /\ c <= ti <= c + 2 * sigma.
Proof.
  intros (Bw & Bc & Bs & Ba & Bt & Bk & Br) HE HC. unfold wos. rewrite HE, HC. cbn [option_map decide_first min_opt].
  exists (c + dc o + ds o). split_ifs; repeat match goal with |- context [match ?x with _ => _ end] => destruct x end;
    proj; (split; [reflexivity|]); (split; [reflexivity|]); lia.
Qed.

(* a command that ignores the interrupt is killed killDelay after the context expired, at most
   five slacks late *)
Lemma kill_escalation sigma p o c :
  bounded sigma o -> tE p = None -> tI p = None -> tC p = Some c -> 0 < tK p ->
  exists tk, t_kill (wos p o) = Some tk /\ c + tK p <= tk <= c + tK p + 5 * sigma /\
             t_exit (wos p o) = Some tk /\ res (wos p o) = RCtx.
Proof.
  intros (Bw & Bc & Bs & Ba & Bt & Bk & Br) HE HI HC HK. unfold wos. rewrite HE, HI, HC. cbn [option_map decide_first min_opt].
  destruct (tK p <=? 0) eqn:E; [zb; exfalso; lia|]. proj.
  eexists. split; [reflexivity|]. split; [lia|]. split; reflexivity.
Qed.

(* with a deadline and a positive kill delay waitOrStop always returns, no later than seven
   slacks after the later of the command's own exit and the kill time *)
Lemma returns_by sigma p o c :
  bounded sigma o -> tC p = Some c -> 0 < tK p -> 0 <= sigma ->
  exists r, t_ret (wos p o) = Some r /\
            r <= Z.max (match tE p with Some ee => ee | None => c + tK p end) (c + tK p) + 7 * sigma.
Proof.
  intros (Bw & Bc & Bs & Ba & Bt & Bk & Br) HC HK Hs. unfold wos. rewrite HC.
  destruct (tK p <=? 0) eqn:EK; [zb; exfalso; lia|].
  destruct (tE p) as [ee|]; destruct (tI p) as [d|]; cbn [option_map decide_first min_opt];
    split_ifs; zb; cbn [t_ret]; eexists; (split; [reflexivity|]); lia.
Qed.

(* a command that exits d after the interrupt, with d + slack < killDelay, is not killed *)
Lemma cooperative_not_killed sigma p o c d :
  bounded sigma o -> tE p = None -> tI p = Some d -> tC p = Some c -> 0 <= d -> d + sigma < tK p ->
  t_kill (wos p o) = None /\ res (wos p o) = RCtx /\
  exists r, t_ret (wos p o) = Some r /\ r <= c + d + 4 * sigma.
Proof.
  intros (Bw & Bc & Bs & Ba & Bt & Bk & Br) HE HI HC Hd HK. unfold wos. rewrite HE, HI, HC. cbn [option_map decide_first min_opt].
  destruct (tK p <=? 0) eqn:EK; [zb; exfalso; lia|].
  destruct (c + dc o + ds o + d + dw o <? c + dc o + ds o + da o + tK p + dt o) eqn:E1; [|zb; exfalso; lia].
  proj. split; [reflexivity|]. split; [reflexivity|]. eexists. split; [reflexivity | lia].
Qed.

(* the timed run agrees with the interleaving system on attribution *)
Lemma attribution_timed p o : res (wos p o) = RCtx <-> (int_ok (wos p o) = true /\ t_ret (wos p o) <> None).
Proof.
  unfold wos.
  repeat match goal with
         | |- context [match ?x with _ => _ end] => destruct x eqn:?
         end; cbn; split; try tauto; try discriminate; try (intros [? ?]; congruence); try (intros _; split; congruence).
Qed.
End Timed.

Section T2.
Local Open Scope Z_scope.

(* ---- every timed run is one of the interleavings of the finite system, with the same result *)

Definition exit_ok (u : uparams) (l : ulabel) : bool :=
  match l with LSelfExit => self_exit u | LIntExit => int_exit u | _ => false end.

Definition done_ctx : ustate -> Prop := fun s => uw s = WDoneCtx /\ uh s = HDone.
Definition done_wait : ustate -> Prop := fun s => uw s = WDoneWait /\ uh s = HDone.

Lemma path_early u : self_exit u = true ->
  exists s, uexec u [LSelfExit; LWaitRet; LRendezvous] uinit = Some s /\ done_wait s.
Proof. intro H. cbn. rewrite H. cbn. eexists. split; [reflexivity|]. now split. Qed.

Lemma path_reaped u : self_exit u = true -> has_ctx u = true ->
  exists s, uexec u [LSelfExit; LWaitRet; LCtxFire; LSelCtx; LSignal; LRendezvous] uinit = Some s /\ done_wait s.
Proof. intros H1 H2. cbn. rewrite H1. cbn. rewrite H2. cbn. eexists. split; [reflexivity|]. now split. Qed.

Lemma path_nokill u l : has_ctx u = true -> sig_fails u = false -> exit_ok u l = true ->
  exists s, uexec u ([LCtxFire; LSelCtx; LSignal; LArm] ++ [l; LWaitRet; LRendezvous]) uinit = Some s /\ done_ctx s.
Proof.
  intros H1 Hs H2. destruct u as [hc kp se ie sf]. cbn in H1, Hs. subst hc sf.
  destruct l; cbn in H2; try discriminate; subst; destruct kp; cbn; eexists; (split; [reflexivity|]); now split.
Qed.

Lemma path_kill u l : has_ctx u = true -> sig_fails u = false -> kd_pos u = true -> (exit_ok u l = true \/ l = LKillExit) ->
  exists s, uexec u ([LCtxFire; LSelCtx; LSignal; LArm] ++ [LTimerFire; LSelTimer; LKill; l; LWaitRet; LRendezvous]) uinit = Some s /\ done_ctx s.
Proof.
  intros H1 Hs H2 H3. destruct u as [hc kp se ie sf]. cbn in H1, Hs, H2. subst hc kp sf.
  destruct H3 as [H3| ->]; [destruct l; cbn in H3; try discriminate; subst|]; cbn; eexists; (split; [reflexivity|]); now split.
Qed.

Lemma exit_label_ok p x :
  (tE p <> None \/ tI p <> None) -> (tE p = None -> True) ->
  (match tE p with Some ee => ee <=? x | None => false end = true \/ tI p <> None) ->
  exit_ok (uparams_of p) (exit_label (tE p) x LIntExit) = true.
Proof.
  intros _ _ H. unfold exit_label, uparams_of. destruct (tE p) as [ee|] eqn:E.
  - destruct (ee <=? x) eqn:L; cbn; [reflexivity|]. destruct H as [H|H]; [discriminate|]. now destruct (tI p).
  - cbn. destruct H as [H|H]; [discriminate|]. now destruct (tI p).
Qed.

Lemma min_opt_some a b x : min_opt a b = Some x ->
  (match a with Some ee => ee <=? x | None => false end = true) \/ b <> None.
Proof.
  destruct a as [ee|], b as [y|]; cbn; intro H; try discriminate; injection H as <-.
  - destruct (Z.leb_spec ee (Z.min ee y)); [now left | right; discriminate].
  - left. apply Z.leb_refl.
  - right. discriminate.
Qed.

Lemma decide_first_FA a b t x : decide_first a b t = FA x -> a <> None.
Proof. destruct a; [discriminate|]. destruct b; discriminate. Qed.
Lemma decide_first_FB a b t x : decide_first a b t = FB x -> b <> None.
Proof. destruct b; [discriminate|]. destruct a; discriminate. Qed.

Lemma wos_trace_valid p o : res (wos p o) <> RNever ->
  exists s, uexec (uparams_of p) (trace (wos p o)) uinit = Some s /\
            uw s = (match res (wos p o) with RCtx => WDoneCtx | _ => WDoneWait end) /\ uh s = HDone.
Proof.
  unfold wos.
  destruct (decide_first (option_map (fun x => x + dw o) (tE p)) (option_map (fun c => c + dc o) (tC p)) (tie1 o)) as [|tw|c1] eqn:D1;
    cbn [res trace]; intro H.
  - congruence.
  - apply decide_first_FA in D1.
    assert (SE : self_exit (uparams_of p) = true) by (cbn; destruct (tE p); [reflexivity | now contradiction D1]).
    destruct (path_early _ SE) as (s & E & W & Hh). eauto.
  - apply decide_first_FB in D1.
    assert (HC : has_ctx (uparams_of p) = true) by (cbn; destruct (tC p); [reflexivity | now contradiction D1]).
    set (ti := c1 + ds o) in *.
    destruct (match option_map (fun x => x + dw o) (tE p) with
              | Some tw => if tw <? ti then true else if ti <? tw then false else tie2 o
              | None => false end) eqn:RP.
    + assert (SE : self_exit (uparams_of p) = true) by (cbn; destruct (tE p); [reflexivity | discriminate]).
      cbn [res trace] in *. destruct (path_reaped _ SE HC) as (s & E & W & Hh). eauto.
    + set (ex1 := min_opt (tE p) (option_map (fun d => ti + d) (tI p))) in *.
      assert (EX : forall x, ex1 = Some x -> exit_ok (uparams_of p) (exit_label (tE p) x LIntExit) = true).
      { intros x Hx. apply exit_label_ok; [| trivial |].
        - unfold ex1 in Hx. destruct (tE p); [left; discriminate|]. destruct (tI p); [right; discriminate | discriminate].
        - apply min_opt_some in Hx. destruct Hx as [Hx|Hx]; [now left | right]. destruct (tI p); [discriminate | now contradiction Hx]. }
      destruct (tK p <=? 0) eqn:EK.
      * destruct ex1 as [x|] eqn:Ex1; cbn [option_map res trace] in *; [|congruence].
        destruct (path_nokill _ _ HC eq_refl (EX x eq_refl)) as (s & E & W & Hh). eauto.
      * assert (KP : kd_pos (uparams_of p) = true) by (cbn; apply Z.ltb_lt; apply Z.leb_gt in EK; lia).
        destruct (decide_first (option_map (fun x => x + dw o) ex1) (Some (ti + da o + tK p + dt o)) (tie3 o)) as [|tw|tf] eqn:D2;
          cbn [res trace] in *.
        -- destruct ex1 as [x|] eqn:Ex1.
           ++ destruct (x <=? ti + da o + tK p + dt o + dk o).
              ** destruct (path_kill _ _ HC eq_refl KP (or_introl (EX x eq_refl))) as (s & E & W & Hh). eauto.
              ** destruct (path_kill _ LKillExit HC eq_refl KP (or_intror eq_refl)) as (s & E & W & Hh). eauto.
           ++ destruct (path_kill _ LKillExit HC eq_refl KP (or_intror eq_refl)) as (s & E & W & Hh). eauto.
        -- apply decide_first_FA in D2. destruct ex1 as [x|] eqn:Ex1; [|now contradiction D2].
           destruct (path_nokill _ _ HC eq_refl (EX x eq_refl)) as (s & E & W & Hh). eauto.
        -- destruct ex1 as [x|] eqn:Ex1.
           ++ destruct (x <=? ti + da o + tK p + dt o + dk o).
              ** destruct (path_kill _ _ HC eq_refl KP (or_introl (EX x eq_refl))) as (s & E & W & Hh). eauto.
              ** destruct (path_kill _ LKillExit HC eq_refl KP (or_intror eq_refl)) as (s & E & W & Hh). eauto.
           ++ destruct (path_kill _ LKillExit HC eq_refl KP (or_intror eq_refl)) as (s & E & W & Hh). eauto.
Qed.
End T2.

Section T3.
Local Open Scope Z_scope.
Ltac zb :=
  repeat match goal with
         | H : (_ <? _) = true |- _ => apply Z.ltb_lt in H
         | H : (_ <? _) = false |- _ => apply Z.ltb_ge in H
         | H : (_ <=? _) = true |- _ => apply Z.leb_le in H
         | H : (_ <=? _) = false |- _ => apply Z.leb_gt in H
         end.
Ltac proj := cbn [res t_ret t_int t_kill int_ok t_exit trace].

(* ------------------------------------------------------------------ 4. the report *)

Lemma timed_out_rule neg : cmd_exec_verdict true true neg = XTimedOut timed_out_message.
Proof. reflexivity. Qed.

Lemma not_timed_out_rule err neg : cmd_exec_verdict err false neg <> XTimedOut timed_out_message.
Proof. destruct err, neg; discriminate. Qed.

Lemma blocked_result sigma p o c :
  bounded sigma o -> tE p = None -> tC p = Some c -> 0 < tK p ->
  match tI p with Some d => 0 <= d | None => True end ->
  res (wos p o) = RCtx /\ exists r, t_ret (wos p o) = Some r /\ c <= r.
Proof.
  intros (Bw & Bc & Bs & Ba & Bt & Bk & Br) HE HC HK HI. unfold wos. rewrite HE, HC.
  cbn [option_map decide_first min_opt].
  destruct (tK p <=? 0) eqn:EK; [zb; exfalso; lia|].
  destruct (tI p) as [d|]; cbn [option_map decide_first min_opt].
  - destruct (c + dc o + ds o + d + dw o <? c + dc o + ds o + da o + tK p + dt o) eqn:E1; proj.
    + split; [reflexivity|]. eexists. split; [reflexivity | lia].
    + destruct (c + dc o + ds o + da o + tK p + dt o <? c + dc o + ds o + d + dw o) eqn:E2; [|destruct (tie3 o)]; proj;
        (split; [reflexivity|]); eexists; (split; [reflexivity|]); lia.
  - proj. split; [reflexivity|]. eexists. split; [reflexivity | lia].
Qed.

(* a foreground command that never exits by itself, under a deadline: exec fails with the
   timed-out message, whether or not the line was negated *)
Lemma blocked_reports_timed_out sigma p o c wait_ok neg :
  bounded sigma o -> tE p = None -> tC p = Some c -> 0 < tK p ->
  match tI p with Some d => 0 <= d | None => True end ->
  fg_exec p o wait_ok neg = Some (XTimedOut timed_out_message).
Proof.
  intros B HE HC HK HI. destruct (blocked_result sigma p o c B HE HC HK HI) as (R & r & T & L).
  unfold fg_exec. rewrite T, R, HC. apply Z.leb_le in L. rewrite L. reflexivity.
Qed.

(* whenever exec reports a failure after the context has expired, it is the timed-out one *)
Lemma timed_out_report p o wait_ok neg v :
  fg_exec p o wait_ok neg = Some v ->
  (match res (wos p o) with RCtx => true | _ => negb wait_ok end) = true ->
  (exists c r, tC p = Some c /\ t_ret (wos p o) = Some r /\ c <= r) ->
  v = XTimedOut timed_out_message.
Proof.
  unfold fg_exec. intros H E (c & r & HC & T & L). rewrite T, HC, E in H. apply Z.leb_le in L. rewrite L in H.
  injection H as <-. reflexivity.
Qed.

(* ------------------------------------------------------------------ RunT + waitOrStop *)

Lemma fg_kill_delay_grace until : fg_kill_delay until = grace until.
Proof. reflexivity. Qed.

(* what the property says in words: two grace periods are reserved, the kill delay of a
   foreground command is one grace period, background commands are never killed by waitOrStop *)
Lemma two_grace_periods_reserved : grace_reserve = 2 /\ (forall until, fg_kill_delay until = grace until) /\ bg_kill_delay <= 0.
Proof. split; [reflexivity|]. split; [intro; reflexivity|]. discriminate. Qed.

(* A blocked foreground command is interrupted grace_reserve grace periods before the deadline. *)
Lemma runt_interrupt_time sigma now eps D i o :
  bounded sigma o ->
  exists ti, t_int (wos (fg_params now eps D None i) o) = Some ti /\ int_ok (wos (fg_params now eps D None i) o) = true /\
             D + eps - grace_reserve * grace (D - now) <= ti <= D + eps - grace_reserve * grace (D - now) + 2 * sigma.
Proof.
  intro B. destruct (blocked_interrupted sigma (fg_params now eps D None i) o (ctx_deadline now eps D) B eq_refl eq_refl) as (ti & T & K & L).
  exists ti. split; [exact T|]. split; [exact K|]. destruct (grace_arith now eps D) as [A _]. lia.
Qed.

(* One that ignores the interrupt is killed one grace period later. *)
Lemma runt_kill_time sigma now eps D o :
  bounded sigma o ->
  exists tk, t_kill (wos (fg_params now eps D None None) o) = Some tk /\
             D + eps - (grace_reserve - 1) * grace (D - now) <= tk <= D + eps - (grace_reserve - 1) * grace (D - now) + 5 * sigma /\
             t_exit (wos (fg_params now eps D None None) o) = Some tk.
Proof.
  intro B. pose proof (grace_ge_min (D - now)) as G.
  assert (HK : 0 < tK (fg_params now eps D None None)).
  { cbn [tK fg_params]. rewrite fg_kill_delay_grace. assert (0 < min_grace) by reflexivity. lia. }
  destruct (kill_escalation sigma (fg_params now eps D None None) o (ctx_deadline now eps D) B eq_refl eq_refl eq_refl HK) as (tk & T & L & X & _).
  exists tk. split; [exact T|]. split; [|exact X]. cbn [tK fg_params] in L. rewrite fg_kill_delay_grace in L.
  destruct (grace_arith now eps D) as [A _]. lia.
Qed.

(* Every foreground command has returned seven slacks after the later of its own exit and the
   kill time, which is (grace_reserve - 1) grace periods before the deadline. *)
Lemma runt_returns_by sigma now eps D e i o :
  bounded sigma o -> 0 <= sigma ->
  exists r, t_ret (wos (fg_params now eps D e i) o) = Some r /\
            r <= (match e with
                  | Some ee => Z.max ee (D + eps - (grace_reserve - 1) * grace (D - now))
                  | None => D + eps - (grace_reserve - 1) * grace (D - now)
                  end) + 7 * sigma.
Proof.
  intros B Hs. pose proof (grace_ge_min (D - now)) as G.
  assert (HK : 0 < tK (fg_params now eps D e i)).
  { cbn [tK fg_params]. rewrite fg_kill_delay_grace. assert (0 < min_grace) by reflexivity. lia. }
  destruct (returns_by sigma (fg_params now eps D e i) o (ctx_deadline now eps D) B eq_refl HK Hs) as (r & T & L).
  exists r. split; [exact T|]. cbn [tK tE fg_params] in L. rewrite fg_kill_delay_grace in L.
  destruct (grace_arith now eps D) as [A _]. destruct e; lia.
Qed.

(* and therefore by the deadline, when the slack is small against the grace period *)
Lemma runt_done_by_deadline sigma now eps D e i o :
  bounded sigma o -> 0 <= sigma -> 2 <= grace_reserve -> eps + 7 * sigma <= min_grace ->
  exists r, t_ret (wos (fg_params now eps D e i) o) = Some r /\
            r <= Z.max (match e with Some ee => ee + 7 * sigma | None => D end) D.
Proof.
  intros B Hs Hr He. destruct (runt_returns_by sigma now eps D e i o B Hs) as (r & T & L).
  exists r. split; [exact T|]. pose proof (grace_ge_min (D - now)) as G.
  assert (P : 0 < min_grace) by reflexivity.
  assert ((grace_reserve - 1) * grace (D - now) >= grace (D - now)).
  { generalize dependent (grace (D - now)). generalize dependent grace_reserve. intros. nia. }
  destruct e; lia.
Qed.

(* A command that finishes more than a slack before the context expires is unaffected. *)
Lemma runt_early_unaffected sigma now eps D ee i o :
  bounded sigma o -> 0 <= eps -> ee + sigma < D - grace_reserve * grace (D - now) ->
  res (wos (fg_params now eps D (Some ee) i) o) = RWait /\ t_int (wos (fg_params now eps D (Some ee) i) o) = None /\
  t_kill (wos (fg_params now eps D (Some ee) i) o) = None /\
  exists r, t_ret (wos (fg_params now eps D (Some ee) i) o) = Some r /\ ee <= r <= ee + 2 * sigma.
Proof.
  intros B He H. apply (early_unaffected sigma (fg_params now eps D (Some ee) i) o ee B eq_refl).
  cbn [tC fg_params]. destruct (grace_arith now eps D) as [A _]. lia.
Qed.

Lemma runt_blocked_timed_out sigma now eps D i o wait_ok neg :
  bounded sigma o -> match i with Some d => 0 <= d | None => True end ->
  fg_exec (fg_params now eps D None i) o wait_ok neg = Some (XTimedOut timed_out_message).
Proof.
  intros B Hi. pose proof (grace_ge_min (D - now)) as G.
  apply (blocked_reports_timed_out sigma (fg_params now eps D None i) o (ctx_deadline now eps D) wait_ok neg B eq_refl eq_refl); [|exact Hi].
  cbn [tK fg_params]. rewrite fg_kill_delay_grace. assert (0 < min_grace) by reflexivity. lia.
Qed.

Example oracle_example : bounded 1000000 {| dw := 1000; dc := 0; ds := 1000000; da := 5; dt := 7; dk := 0; dr := 10; tie1 := true; tie2 := false; tie3 := true |}.
Proof. unfold bounded. cbn. lia. Qed.

Example wos_example :
  (* deadline 1 s away, the command ignores the interrupt: interrupted at 0.8 s, killed at 0.9 s *)
  let r := wos (fg_params 0 0 1000000000 None None) {| dw := 0; dc := 0; ds := 0; da := 0; dt := 0; dk := 0; dr := 0; tie1 := true; tie2 := true; tie3 := true |} in
  t_int r = Some 800000000 /\ t_kill r = Some 900000000 /\ t_ret r = Some 900000000 /\ res r = RCtx.
Proof. vm_compute. repeat split. Qed.
End T3.

(* C17 — lemmas about the deadline model of TsDeadline.v. *)
From Coq Require Import List Bool ZArith Lia.
From Coq.Strings Require Import Byte.
From GI Require Import Lib.Bytes Gen.TsBatchConsts TsDeadline.TsDeadline.
Import ListNotations.

(* ------------------------------------------------------------------ 1. arithmetic *)
Section Arith.
Local Open Scope Z_scope.

Lemma grace_ge_min until : grace until >= min_grace.
Proof. unfold grace. cbv zeta. destruct (Z.gtb_spec (Z.quot until grace_divisor) min_grace); lia. Qed.

Lemma grace_ge_share until : grace until >= Z.quot until grace_divisor.
Proof. unfold grace. cbv zeta. destruct (Z.gtb_spec (Z.quot until grace_divisor) min_grace); lia. Qed.

Lemma grace_cases until :
  grace until = min_grace \/ grace until = Z.quot until grace_divisor.
Proof. unfold grace. cbv zeta. destruct (Z.quot until grace_divisor >? min_grace); auto. Qed.

(* the context expires grace_reserve grace periods before the deadline (eps later when
   WithTimeout is called eps after time.Until), and the grace period is at least min_grace *)
Lemma grace_arith now eps D :
  ctx_deadline now eps D + grace_reserve * grace (D - now) = D + eps /\ grace (D - now) >= min_grace.
Proof. split; [unfold ctx_deadline, ctx_timeout; lia | apply grace_ge_min]. Qed.

Example grace_arith_example :
  (* a deadline 3 s away: grace 150 ms, context expires at 2.7 s; 400 ms away: grace 100 ms, context at 200 ms *)
  grace 3000000000 = 150000000 /\ ctx_deadline 0 0 3000000000 = 2700000000 /\
  grace 400000000 = 100000000 /\ ctx_deadline 0 0 400000000 = 200000000.
Proof. vm_compute. repeat split. Qed.
End Arith.

(* ------------------------------------------------------------------ 2. every interleaving *)

Inductive reachable (p : uparams) : ustate -> Prop :=
  | r_init : reachable p uinit
  | r_step : forall s l s', reachable p s -> ustep p l s = Some s' -> reachable p s'.

Lemma wpc_n_inj a b : wpc_n a = wpc_n b -> a = b.
Proof. destruct a, b; cbn; congruence. Qed.
Lemma hpc_n_inj a b : hpc_n a = hpc_n b -> a = b.
Proof. destruct a, b; cbn; congruence. Qed.
Lemma pst_n_inj a b : pst_n a = pst_n b -> a = b.
Proof. destruct a, b; cbn; congruence. Qed.
Lemma tmr_n_inj a b : tmr_n a = tmr_n b -> a = b.
Proof. destruct a, b; cbn; congruence. Qed.

Lemma ustate_eqb_eq a b : ustate_eqb a b = true -> a = b.
Proof.
  unfold ustate_eqb. rewrite !andb_true_iff. intros ((((((((H1 & H2) & H3) & H4) & H5) & H6) & H7) & H8) & H9).
  apply Nat.eqb_eq in H1, H2, H3, H5, H8, H9. apply eqb_prop in H4, H6, H7.
  apply wpc_n_inj in H1. apply hpc_n_inj in H2. apply pst_n_inj in H3. apply tmr_n_inj in H5.
  destruct a, b. cbn in *. congruence.
Qed.

Lemma umem_in s l : umem s l = true -> In s l.
Proof.
  unfold umem. intro H. apply existsb_exists in H as (x & Hx & E). apply ustate_eqb_eq in E. now subst.
Qed.

Lemma in_all_labels l : In l all_labels.
Proof. destruct l; cbn; tauto. Qed.

Lemma in_succs p l s s' : ustep p l s = Some s' -> In s' (succs p s).
Proof.
  intro H. unfold succs. apply in_flat_map. exists l. split; [apply in_all_labels|]. rewrite H. now left.
Qed.

Lemma closed_sound p r : closed p r = true -> forall s, reachable p s -> In s r.
Proof.
  unfold closed. intro H. apply andb_true_iff in H as [H0 H1]. rewrite forallb_forall in H1.
  intros s R. induction R as [|s l s' R IH E].
  - now apply umem_in.
  - specialize (H1 s IH). rewrite forallb_forall in H1. apply umem_in. apply H1. eapply in_succs; eauto.
Qed.

Lemma closed_reach p : closed p (reach p) = true.
Proof. destruct p as [[] [] [] []]; vm_compute; reflexivity. Qed.

Lemma good_reach p : forallb (ugood p) (reach p) = true.
Proof. destruct p as [[] [] [] []]; vm_compute; reflexivity. Qed.

(* all interleavings of waiter, helper, process, context and timer, for every kind of process
   and kill delay: every reachable state is good *)
Lemma reachable_good p s : reachable p s -> ugood p s = true.
Proof.
  intro R. pose proof (closed_sound p (reach p) (closed_reach p) s R) as Hin.
  pose proof (good_reach p) as G. rewrite forallb_forall in G. now apply G.
Qed.

Ltac split_good H :=
  unfold ugood in H; rewrite !andb_true_iff in H;
  destruct H as ((((((((((G1 & G2) & G3) & G4) & G5) & G6) & G7) & G8) & G9) & G10) & G11).

(* exactly one value is sent and received; both threads finish together, when it has been passed *)
Lemma one_value p s : reachable p s ->
  usent s = urecv s /\ usent s <= 1 /\
  (w_done (uw s) = true <-> h_done (uh s) = true) /\ (h_done (uh s) = true <-> usent s = 1).
Proof.
  intro R. pose proof (reachable_good p s R) as H. split_good H.
  apply Nat.eqb_eq in G1. apply Nat.leb_le in G2. apply eqb_prop in G3, G4.
  repeat split; try assumption; try (rewrite G3; tauto); try (rewrite <- G3; tauto).
  - rewrite G4. apply Nat.eqb_eq.
  - intro E. rewrite G4. now apply Nat.eqb_eq.
Qed.

(* no deadlock: once the process has exited, either both threads have finished or one of them
   can take a step that waits for nothing *)
Lemma no_deadlock p s : reachable p s -> upr s <> PRun ->
  (w_done (uw s) = true /\ h_done (uh s) = true) \/
  exists l s', In l unconditional_labels /\ ustep p l s = Some s'.
Proof.
  intros R Hp. pose proof (reachable_good p s R) as H. split_good H.
  apply orb_true_iff in G5 as [G5|G5].
  - apply orb_true_iff in G5 as [G5|G5].
    + destruct (upr s); cbn in G5; try discriminate. contradiction.
    + left. now apply andb_true_iff.
  - right. apply existsb_exists in G5 as (l & Hl & E). unfold enabled in E.
    destruct (ustep p l s) as [s'|] eqn:Es; [|discriminate]. eauto.
Qed.

(* and there are finitely many such steps: every thread step lowers the rank (at most 9), the
   environment never raises it *)
Lemma thread_steps_bounded p s l s' : reachable p s -> ustep p l s = Some s' ->
  if is_thread_label l then rank s' < rank s else rank s' = rank s.
Proof.
  intros R E. pose proof (reachable_good p s R) as H. split_good H.
  rewrite forallb_forall in G6. specialize (G6 l (in_all_labels l)). rewrite E in G6.
  destruct (is_thread_label l); [now apply Nat.ltb_lt | now apply Nat.eqb_eq].
Qed.

Lemma rank_le_9 s : rank s <= 9.
Proof. unfold rank. destruct (uw s), (uh s); lia. Qed.

(* attribution: waitOrStop returns the context's error exactly when Signal(interrupt) returned
   nil, i.e. the interrupt path was taken and Wait had not yet reaped the process; otherwise it
   returns Wait's own result *)
Lemma attribution p s : reachable p s ->
  (uw s = WDoneCtx -> uintr s = true /\ uctx s = true) /\ (uw s = WDoneWait -> uintr s = false).
Proof.
  intro R. pose proof (reachable_good p s R) as H. split_good H. split; intro E; rewrite E in G7.
  - now apply andb_true_iff.
  - now apply negb_true_iff.
Qed.

Lemma kill_only_after_interrupt p s : reachable p s -> ukil s = true ->
  kd_pos p = true /\ uintr s = true /\ utm s = TFired.
Proof.
  intros R E. pose proof (reachable_good p s R) as H. split_good H. rewrite E in G8. cbn in G8.
  apply andb_true_iff in G8 as [G8 G8c]. apply andb_true_iff in G8 as [G8a G8b].
  repeat split; try assumption. destruct (utm s); congruence.
Qed.

Lemma no_signal_before_ctx p s : reachable p s -> uintr s = true -> uctx s = true /\ has_ctx p = true.
Proof.
  intros R E. pose proof (reachable_good p s R) as H. split_good H. rewrite E in G9. cbn in G9. now apply andb_true_iff.
Qed.

Example reachable_example :
  (* a process that ignores the interrupt: context fires, signal, timer, kill, exit, both return *)
  uexec {| has_ctx := true; kd_pos := true; self_exit := false; int_exit := false |}
        [LCtxFire; LSelCtx; LSignal; LArm; LTimerFire; LSelTimer; LKill; LKillExit; LWaitRet; LRendezvous] uinit
  = Some {| uw := WDoneCtx; uh := HDone; upr := PReaped; uctx := true; utm := TFired; uintr := true; ukil := true; usent := 1; urecv := 1 |}.
Proof. reflexivity. Qed.

Lemma uexec_reachable p ls : forall s s', reachable p s -> uexec p ls s = Some s' -> reachable p s'.
Proof.
  induction ls as [|l ls IH]; intros s s' R E; cbn [uexec] in E.
  - now injection E as <-.
  - destruct (ustep p l s) as [s1|] eqn:E1; [|discriminate]. eapply IH; [|exact E]. eapply r_step; eauto.
Qed.

(* C17 — model of testscript's deadline handling: definitions only.

   1. RunT's arithmetic on the deadline (grace period, deadline of the context), integer
      nanoseconds, with the constants generated from the source.
   2. waitOrStop as an interleaving system: the waiting goroutine, the helper goroutine with its
      two selects, the process, the context and the kill timer.  Finite; every interleaving.
   3. waitOrStop as a timed run: the same control flow with times in Z, where every step may be
      late by a delay supplied by an oracle (the theorems quantify over all oracles bounded by a
      slack sigma); it also yields the sequence of labels of system 2 it went through.
   4. the tail of cmdExec that turns the error into a failure message.

   Anchors: testscript/testscript.go RunT (gracePeriod, timeout, context.WithTimeout),
   waitOrStop, exec;  testscript/cmd.go cmdExec. *)
From Coq Require Import List Bool ZArith Lia.
From Coq.Strings Require Import Byte.
From GI Require Import Lib.Bytes Gen.TsBatchConsts.
Import ListNotations.
Local Open Scope Z_scope.

(* ------------------------------------------------------------------ 1. arithmetic of RunT *)

(* gracePeriod: min_grace, raised to timeout / grace_divisor when that is larger (Go's integer
   division truncates toward zero: Z.quot) *)
Definition grace (until : Z) : Z :=
  let gp := Z.quot until grace_divisor in
  if Z.gtb gp min_grace then gp else min_grace.

(* timeout -= grace_reserve * gracePeriod *)
Definition ctx_timeout (until : Z) : Z := until - grace_reserve * grace until.

(* time.Until(p.Deadline) is read at [now]; context.WithTimeout is called [eps] later *)
Definition ctx_deadline (now eps D : Z) : Z := now + eps + ctx_timeout (D - now).

(* the kill delay exec hands to waitOrStop *)
Definition fg_kill_delay (until : Z) : Z := if fg_kill_delay_is_grace then grace until else bg_kill_delay.

(* ------------------------------------------------------------------ 2. interleavings of waitOrStop *)

Inductive wpc := WWait | WRecv | WDoneWait | WDoneCtx | WDoneSig.
(* WWait: in cmd.Wait;  WRecv: blocked on <-errc;  WDoneWait: returned Wait's own result;
   WDoneCtx: returned the interrupt error (ctx.Err());  WDoneSig: returned the error of
   Process.Signal (an error other than os.ErrProcessDone) *)
Inductive hpc := HSel1 | HSig | HSendNil | HAfterSig | HSel2 | HKill | HSendErr | HDone.
(* HSel1: select { errc <- nil; <-ctx.Done() };  HSig: about to call Signal;  HSendNil: errc <- nil
   after ErrProcessDone;  HAfterSig: the killDelay test;  HSel2: select { errc <- ctx.Err(); <-timer.C };
   HKill: about to call Kill;  HSendErr: the final errc <- err *)
Inductive pst := PRun | PZombie | PReaped.
Inductive tmr := TNone | TArmed | TFired.

Record ustate := {
  uw : wpc; uh : hpc; upr : pst;
  uctx : bool;        (* the context is done *)
  utm : tmr;
  uintr : bool;       (* Signal(interrupt) returned nil *)
  ukil : bool;        (* Kill was called *)
  usigerr : bool;     (* Signal(interrupt) returned an error other than os.ErrProcessDone *)
  usent : nat; urecv : nat
}.

Record uparams := {
  has_ctx : bool;     (* a deadline was set (otherwise ctx.Done() never fires) *)
  kd_pos : bool;      (* killDelay > 0 *)
  self_exit : bool;   (* the process may exit by itself *)
  int_exit : bool;    (* the process exits some time after the interrupt *)
  sig_fails : bool    (* Process.Signal fails with an error other than os.ErrProcessDone *)
}.

Inductive ulabel :=
  | LCtxFire | LSelfExit | LIntExit | LKillExit | LTimerFire   (* environment *)
  | LWaitRet                                                   (* waiter: cmd.Wait returns *)
  | LRendezvous                                                (* a send on errc meets the receive *)
  | LSelCtx | LSignal | LArm | LSelTimer | LKill.              (* helper *)

Definition all_labels : list ulabel :=
  [LCtxFire; LSelfExit; LIntExit; LKillExit; LTimerFire; LWaitRet; LRendezvous; LSelCtx; LSignal; LArm; LSelTimer; LKill].
Definition thread_labels : list ulabel := [LWaitRet; LRendezvous; LSelCtx; LSignal; LArm; LSelTimer; LKill].
(* the thread steps that need no event of the environment once the process has exited *)
Definition unconditional_labels : list ulabel := [LWaitRet; LRendezvous; LSignal; LArm; LKill].

Definition uinit : ustate :=
  {| uw := WWait; uh := HSel1; upr := PRun; uctx := false; utm := TNone; uintr := false; ukil := false; usigerr := false; usent := 0; urecv := 0 |}.

Definition set_w (s : ustate) (x : wpc) := {| uw := x; uh := uh s; upr := upr s; uctx := uctx s; utm := utm s; uintr := uintr s; ukil := ukil s; usigerr := usigerr s; usent := usent s; urecv := urecv s |}.
Definition set_h (s : ustate) (x : hpc) := {| uw := uw s; uh := x; upr := upr s; uctx := uctx s; utm := utm s; uintr := uintr s; ukil := ukil s; usigerr := usigerr s; usent := usent s; urecv := urecv s |}.
Definition set_pr (s : ustate) (x : pst) := {| uw := uw s; uh := uh s; upr := x; uctx := uctx s; utm := utm s; uintr := uintr s; ukil := ukil s; usigerr := usigerr s; usent := usent s; urecv := urecv s |}.
Definition set_tm (s : ustate) (x : tmr) := {| uw := uw s; uh := uh s; upr := upr s; uctx := uctx s; utm := x; uintr := uintr s; ukil := ukil s; usigerr := usigerr s; usent := usent s; urecv := urecv s |}.

Definition is_prun (x : pst) := match x with PRun => true | _ => false end.

Definition ustep (p : uparams) (l : ulabel) (s : ustate) : option ustate :=
  match l with
  | LCtxFire =>
      if has_ctx p && negb (uctx s)
      then Some {| uw := uw s; uh := uh s; upr := upr s; uctx := true; utm := utm s; uintr := uintr s; ukil := ukil s; usigerr := usigerr s; usent := usent s; urecv := urecv s |}
      else None
  | LSelfExit => if is_prun (upr s) && self_exit p then Some (set_pr s PZombie) else None
  | LIntExit => if is_prun (upr s) && uintr s && int_exit p then Some (set_pr s PZombie) else None
  | LKillExit => if is_prun (upr s) && ukil s then Some (set_pr s PZombie) else None
  | LTimerFire => match utm s with TArmed => Some (set_tm s TFired) | _ => None end
  | LWaitRet =>
      match uw s, upr s with
      | WWait, PZombie => Some (set_pr (set_w s WRecv) PReaped)
      | _, _ => None
      end
  | LRendezvous =>
      match uw s with
      | WRecv =>
          match uh s with
          | HSel1 | HSendNil =>
              Some {| uw := WDoneWait; uh := HDone; upr := upr s; uctx := uctx s; utm := utm s; uintr := uintr s; ukil := ukil s; usigerr := usigerr s; usent := S (usent s); urecv := S (urecv s) |}
          | HSendErr =>
              (* errc <- err: ctx.Err() when Signal succeeded, Signal's own error otherwise *)
              Some {| uw := if usigerr s then WDoneSig else WDoneCtx; uh := HDone; upr := upr s; uctx := uctx s; utm := utm s; uintr := uintr s; ukil := ukil s; usigerr := usigerr s; usent := S (usent s); urecv := S (urecv s) |}
          | HSel2 =>
              (* case errc <- ctx.Err() *)
              Some {| uw := WDoneCtx; uh := HDone; upr := upr s; uctx := uctx s; utm := utm s; uintr := uintr s; ukil := ukil s; usigerr := usigerr s; usent := S (usent s); urecv := S (urecv s) |}
          | _ => None
          end
      | _ => None
      end
  | LSelCtx => match uh s with HSel1 => if uctx s then Some (set_h s HSig) else None | _ => None end
  | LSignal =>
      match uh s with
      | HSig =>
          match upr s with
          | PReaped => Some (set_h s HSendNil)       (* os.ErrProcessDone *)
          | _ =>
              if sig_fails p
              then Some {| uw := uw s; uh := HAfterSig; upr := upr s; uctx := uctx s; utm := utm s; uintr := uintr s; ukil := ukil s; usigerr := true; usent := usent s; urecv := urecv s |}
              else Some {| uw := uw s; uh := HAfterSig; upr := upr s; uctx := uctx s; utm := utm s; uintr := true; ukil := ukil s; usigerr := usigerr s; usent := usent s; urecv := urecv s |}
          end
      | _ => None
      end
  | LArm =>
      match uh s with
      | HAfterSig => if kd_pos p then Some (set_tm (set_h s HSel2) TArmed) else Some (set_h s HSendErr)
      | _ => None
      end
  | LSelTimer => match uh s, utm s with HSel2, TFired => Some (set_h s HKill) | _, _ => None end
  | LKill =>
      match uh s with
      | HKill => Some {| uw := uw s; uh := HSendErr; upr := upr s; uctx := uctx s; utm := utm s; uintr := uintr s; ukil := true; usigerr := usigerr s; usent := usent s; urecv := urecv s |}
      | _ => None
      end
  end.

Fixpoint uexec (p : uparams) (ls : list ulabel) (s : ustate) : option ustate :=
  match ls with
  | [] => Some s
  | l :: r => match ustep p l s with Some s' => uexec p r s' | None => None end
  end.

(* ---- equality and exploration of the reachable set *)

Definition wpc_n (x : wpc) : nat := match x with WWait => 0 | WRecv => 1 | WDoneWait => 2 | WDoneCtx => 3 | WDoneSig => 4 end.
Definition hpc_n (x : hpc) : nat := match x with HSel1 => 0 | HSig => 1 | HSendNil => 2 | HAfterSig => 3 | HSel2 => 4 | HKill => 5 | HSendErr => 6 | HDone => 7 end.
Definition pst_n (x : pst) : nat := match x with PRun => 0 | PZombie => 1 | PReaped => 2 end.
Definition tmr_n (x : tmr) : nat := match x with TNone => 0 | TArmed => 1 | TFired => 2 end.

Definition ustate_eqb (a b : ustate) : bool :=
  Nat.eqb (wpc_n (uw a)) (wpc_n (uw b)) && Nat.eqb (hpc_n (uh a)) (hpc_n (uh b)) && Nat.eqb (pst_n (upr a)) (pst_n (upr b))
  && Bool.eqb (uctx a) (uctx b) && Nat.eqb (tmr_n (utm a)) (tmr_n (utm b)) && Bool.eqb (uintr a) (uintr b)
  && Bool.eqb (ukil a) (ukil b) && Bool.eqb (usigerr a) (usigerr b) && Nat.eqb (usent a) (usent b) && Nat.eqb (urecv a) (urecv b).

Definition umem (s : ustate) (l : list ustate) : bool := existsb (ustate_eqb s) l.

Definition succs (p : uparams) (s : ustate) : list ustate :=
  flat_map (fun l => match ustep p l s with Some s' => [s'] | None => [] end) all_labels.

Fixpoint add_new (cands seen : list ustate) : list ustate * list ustate :=   (* (new ones, seen') *)
  match cands with
  | [] => ([], seen)
  | c :: r => if umem c seen then add_new r seen
              else let '(n, s') := add_new r (c :: seen) in (c :: n, s')
  end.

Fixpoint explore (p : uparams) (fuel : nat) (frontier seen : list ustate) : list ustate :=
  match fuel with
  | O => seen
  | S f =>
      match frontier with
      | [] => seen
      | _ => let '(n, seen') := add_new (flat_map (succs p) frontier) seen in explore p f n seen'
      end
  end.

Definition reach (p : uparams) : list ustate := explore p 64 [uinit] [uinit].

Definition closed (p : uparams) (r : list ustate) : bool :=
  umem uinit r && forallb (fun s => forallb (fun s' => umem s' r) (succs p s)) r.

(* ---- what must hold in every reachable state *)

Definition w_done (x : wpc) : bool := match x with WDoneWait | WDoneCtx | WDoneSig => true | _ => false end.
Definition h_done (x : hpc) : bool := match x with HDone => true | _ => false end.
Definition enabled (p : uparams) (l : ulabel) (s : ustate) : bool := match ustep p l s with Some _ => true | None => false end.

(* thread steps still to come *)
Definition rank (s : ustate) : nat :=
  (match uw s with WWait => 2 | WRecv => 1 | _ => 0 end) +
  (match uh s with HSel1 => 7 | HSig => 6 | HSendNil => 1 | HAfterSig => 5 | HSel2 => 4 | HKill => 3 | HSendErr => 1 | HDone => 0 end).

Definition is_thread_label (l : ulabel) : bool :=
  match l with LWaitRet | LRendezvous | LSelCtx | LSignal | LArm | LSelTimer | LKill => true | _ => false end.

Definition ugood (p : uparams) (s : ustate) : bool :=
  (* exactly one value: never more than one sent, sent = received *)
  Nat.eqb (usent s) (urecv s) && Nat.leb (usent s) 1
  (* both threads finish together, exactly when the value has been passed *)
  && Bool.eqb (w_done (uw s)) (h_done (uh s)) && Bool.eqb (h_done (uh s)) (Nat.eqb (usent s) 1)
  (* no deadlock: once the process has exited, unless both are finished some thread can move
     without waiting for the context or the timer *)
  && (is_prun (upr s) || (w_done (uw s) && h_done (uh s)) || existsb (fun l => enabled p l s) unconditional_labels)
  (* thread steps are finitely many: each lowers the rank, nothing raises it *)
  && forallb (fun l => match ustep p l s with
                       | Some s' => if is_thread_label l then Nat.ltb (rank s') (rank s) else Nat.eqb (rank s') (rank s)
                       | None => true
                       end) all_labels
  (* attribution: the context error is returned exactly when Signal(interrupt) succeeded *)
  && (match uw s with
      | WDoneCtx => (uintr s || usigerr s) && uctx s
      | WDoneWait => negb (uintr s) && negb (usigerr s)
      | WDoneSig => usigerr s && uctx s
      | _ => true
      end)
  (* the kill is sent only after an attempted interrupt and the expiry of the timer, with killDelay > 0 *)
  && (negb (ukil s) || (kd_pos p && (uintr s || usigerr s) && match utm s with TFired => true | _ => false end))
  (* no signal before the context is done; none at all without a deadline; never both outcomes *)
  && (negb (uintr s || usigerr s) || (uctx s && has_ctx p && negb (uintr s && usigerr s) && Bool.eqb (usigerr s) (sig_fails p)))
  && (match uh s with HSel1 | HDone => true | _ => uctx s end)
  (* reaped exactly when Wait has returned *)
  && Bool.eqb (match upr s with PReaped => true | _ => false end) (negb (match uw s with WWait => true | _ => false end))
  (* where the helper is tells what it has done: nil is sent after ErrProcessDone only, the final send
     follows the Kill when killDelay > 0, the timer is not armed before the killDelay test *)
  && (match uh s with
      | HSendNil => match upr s with PReaped => true | _ => false end
      | HSendErr => if kd_pos p then ukil s else negb (ukil s)
      | HSel1 | HSig | HAfterSig => match utm s with TNone => negb (ukil s) | _ => false end
      | HSel2 | HKill => negb (ukil s) && kd_pos p
      | HDone => true
      end).

Definition all_params : list uparams :=
  flat_map (fun a => flat_map (fun b => flat_map (fun c => flat_map (fun d => map (fun e =>
    {| has_ctx := a; kd_pos := b; self_exit := c; int_exit := d; sig_fails := e |})
    [false; true]) [false; true]) [false; true]) [false; true]) [false; true].

(* ------------------------------------------------------------------ 3. timed runs of waitOrStop *)

Record tparams := {
  tC : option Z;       (* when the context expires; None: no deadline *)
  tK : Z;              (* killDelay *)
  tE : option Z;       (* when the process exits by itself; None: it blocks forever *)
  tI : option Z        (* how long after the interrupt it exits; None: it ignores the interrupt *)
}.

(* how late each step is; the theorems bound every field by the slack *)
Record oracle := {
  dw : Z;   (* exit of the process -> cmd.Wait has returned and the waiter is at <-errc *)
  dc : Z;   (* expiry of the context -> the helper's select sees ctx.Done() *)
  ds : Z;   (* -> Signal(interrupt) delivered *)
  da : Z;   (* -> timer armed *)
  dt : Z;   (* expiry of the timer -> the helper's select sees timer.C *)
  dk : Z;   (* -> Kill delivered *)
  dr : Z;   (* value received -> waitOrStop has returned *)
  tie1 : bool; tie2 : bool; tie3 : bool   (* who wins when two events coincide *)
}.

Inductive tres := RWait | RCtx | RNever.

Record tout := {
  res : tres;
  t_ret : option Z;     (* when waitOrStop returns *)
  t_int : option Z;     (* when Signal(interrupt) was called *)
  int_ok : bool;        (* ... and returned nil *)
  t_kill : option Z;
  t_exit : option Z;    (* when the process exited *)
  trace : list ulabel
}.

Inductive first := FNone | FA (t : Z) | FB (t : Z).
Definition decide_first (a b : option Z) (tie : bool) : first :=
  match a, b with
  | None, None => FNone
  | Some x, None => FA x
  | None, Some y => FB y
  | Some x, Some y => if x <? y then FA x else if y <? x then FB y else if tie then FA x else FB y
  end.

Definition min_opt (a b : option Z) : option Z :=
  match a, b with
  | None, o | o, None => o
  | Some x, Some y => Some (Z.min x y)
  end.

Definition exit_label (e : option Z) (x : Z) (dflt : ulabel) : ulabel :=
  match e with Some ee => if ee <=? x then LSelfExit else dflt | None => dflt end.

Definition wos (p : tparams) (o : oracle) : tout :=
  let tw0 := option_map (fun x => x + dw o) (tE p) in
  let cf := option_map (fun c => c + dc o) (tC p) in
  match decide_first tw0 cf (tie1 o) with
  | FNone =>
      {| res := RNever; t_ret := None; t_int := None; int_ok := false; t_kill := None; t_exit := None; trace := [] |}
  | FA tw =>
      (* Wait returned first: the select sends nil *)
      {| res := RWait; t_ret := Some (tw + dr o); t_int := None; int_ok := false; t_kill := None; t_exit := tE p;
         trace := [LSelfExit; LWaitRet; LRendezvous] |}
  | FB c1 =>
      let ti := c1 + ds o in
      let reaped := match tw0 with Some tw => if tw <? ti then true else if ti <? tw then false else tie2 o | None => false end in
      if reaped then
        (* os.ErrProcessDone: errc <- nil *)
        {| res := RWait; t_ret := Some (ti + dr o); t_int := Some ti; int_ok := false; t_kill := None; t_exit := tE p;
           trace := [LSelfExit; LWaitRet; LCtxFire; LSelCtx; LSignal; LRendezvous] |}
      else
        let ex1 := min_opt (tE p) (option_map (fun d => ti + d) (tI p)) in
        let tw1 := option_map (fun x => x + dw o) ex1 in
        let pre := [LCtxFire; LSelCtx; LSignal; LArm] in
        if tK p <=? 0 then
          match ex1, tw1 with
          | Some x, Some tw =>
              {| res := RCtx; t_ret := Some (Z.max (ti + da o) tw + dr o); t_int := Some ti; int_ok := true; t_kill := None; t_exit := ex1;
                 trace := pre ++ [exit_label (tE p) x LIntExit; LWaitRet; LRendezvous] |}
          | _, _ =>
              {| res := RNever; t_ret := None; t_int := Some ti; int_ok := true; t_kill := None; t_exit := None; trace := pre |}
          end
        else
          let tf := ti + da o + tK p + dt o in
          match decide_first tw1 (Some tf) (tie3 o) with
          | FA tw =>
              {| res := RCtx; t_ret := Some (tw + dr o); t_int := Some ti; int_ok := true; t_kill := None; t_exit := ex1;
                 trace := pre ++ [match ex1 with Some x => exit_label (tE p) x LIntExit | None => LIntExit end; LWaitRet; LRendezvous] |}
          | _ =>
              let tk := tf + dk o in
              let ex2 := match ex1 with Some x => Z.min x tk | None => tk end in
              {| res := RCtx; t_ret := Some (Z.max tk (ex2 + dw o) + dr o); t_int := Some ti; int_ok := true; t_kill := Some tk; t_exit := Some ex2;
                 trace := pre ++ [LTimerFire; LSelTimer; LKill;
                                  match ex1 with Some x => if x <=? tk then exit_label (tE p) x LIntExit else LKillExit | None => LKillExit end;
                                  LWaitRet; LRendezvous] |}
          end
  end.

Definition is_some {A} (o : option A) : bool := match o with Some _ => true | None => false end.
Definition uparams_of (p : tparams) : uparams :=
  {| has_ctx := is_some (tC p); kd_pos := 0 <? tK p; self_exit := is_some (tE p); int_exit := is_some (tI p); sig_fails := false |}.

Definition bounded (sigma : Z) (o : oracle) : Prop :=
  0 <= dw o <= sigma /\ 0 <= dc o <= sigma /\ 0 <= ds o <= sigma /\ 0 <= da o <= sigma /\
  0 <= dt o <= sigma /\ 0 <= dk o <= sigma /\ 0 <= dr o <= sigma.

(* a foreground command of a script run by RunT at [now] with Params.Deadline = D *)
Definition fg_params (now eps D : Z) (e i : option Z) : tparams :=
  {| tC := Some (ctx_deadline now eps D); tK := fg_kill_delay (D - now); tE := e; tI := i |}.

(* ------------------------------------------------------------------ 4. cmdExec's report *)

Inductive exec_verdict :=
  | XOk
  | XUnexpectedSuccess
  | XUnexpectedFailure
  | XTimedOut (msg : bytes).

(* if err != nil { if ts.ctxt.Err() != nil { Fatalf(timed out) } else if !neg { Fatalf(...) } }
   and, before that, if err == nil && neg { Fatalf("unexpected command success") } *)
Definition cmd_exec_verdict (err ctx_expired neg : bool) : exec_verdict :=
  if err then (if ctx_expired then XTimedOut timed_out_message else if neg then XOk else XUnexpectedFailure)
  else if neg then XUnexpectedSuccess else XOk.

(* a foreground exec: the error is waitOrStop's result (Wait's own status when RWait); the context
   is seen expired when it fired no later than the return *)
Definition fg_exec (p : tparams) (o : oracle) (wait_ok neg : bool) : option exec_verdict :=
  let r := wos p o in
  match t_ret r with
  | None => None
  | Some tr =>
      let err := match res r with RCtx => true | _ => negb wait_ok end in
      let expired := match tC p with Some c => c <=? tr | None => false end in
      Some (cmd_exec_verdict err expired neg)
  end.

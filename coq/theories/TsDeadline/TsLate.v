(* C17 — scripts that start long after the RunT call, and the life of the shared context:
   definitions only.

   RunT creates one context for all its scripts, before it starts any of them: the moment it expires
   is a function of the RunT call (now, Deadline) and not of the moment a script happens to start
   (sequential T, -parallel 1, a slow script in front).  A foreground command that is started at t0 is
   watched by waitOrStop from t0 on; it cannot be interrupted before that.

   Anchors: testscript/testscript.go RunT (context.WithTimeout before the loop over the files; the
   cancel() calls: in the subtest that brings refCount to 0, and in RunT itself only when there is no
   script). *)
From Coq Require Import List Bool ZArith Lia.
From GI Require Import Lib.Bytes Gen.TsBatchConsts TsDeadline.TsDeadline.
Import ListNotations.
Local Open Scope Z_scope.

(* the deadline of the context a script started at t0 runs under: RunT's (created once), or - the
   other way of writing it - one per subtest, counted from the start of the subtest *)
Definition script_ctx_deadline_gen (once : bool) (now eps D t0 : Z) : Z :=
  if once then ctx_deadline now eps D else t0 + eps + ctx_timeout (D - now).
Definition script_ctx_deadline : Z -> Z -> Z -> Z -> Z := script_ctx_deadline_gen ctx_created_once_in_runt.

(* waitOrStop called at t0: the helper goroutine cannot see the context done before it exists *)
Definition started_at (t0 : Z) (p : tparams) : tparams :=
  {| tC := option_map (Z.max t0) (tC p); tK := tK p; tE := tE p; tI := tI p |}.

(* a foreground command of a script of a RunT call made at [now] with Params.Deadline = D, the command
   being started at t0 *)
Definition fg_params_at_gen (once : bool) (now eps D t0 : Z) (e i : option Z) : tparams :=
  started_at t0 {| tC := Some (script_ctx_deadline_gen once now eps D t0); tK := fg_kill_delay (D - now); tE := e; tI := i |}.
Definition fg_params_at := fg_params_at_gen ctx_created_once_in_runt.

(* C17 — lemmas about TsRuns.v: RunT calls of one process do not influence each other (for the
   source as it is: the grace period is a local of RunT); a package-level grace period is refuted;
   the value of the helper goroutine wins whatever the exit status of the command. *)
From Coq Require Import List Bool ZArith Lia.
From Coq.Strings Require Import Byte.
From GI Require Import Lib.Bytes Gen.TsBatchConsts TsDeadline.TsDeadline TsDeadline.TsDeadlineFacts TsDeadline.TsRuns.
Import ListNotations.
Local Open Scope Z_scope.

(* ------------------------------------------------------------------ 1. histories *)

Lemma run_call_local st c : run_call true st c = (st, single_call c).
Proof. unfold single_call, run_call. destruct (c_deadline c); reflexivity. Qed.

(* a call of a fresh process is the RunT of TsDeadline.v *)
Lemma single_call_is_runt c D : c_deadline c = Some D ->
  r_grace (single_call c) = grace (D - c_now c) /\
  r_ctx (single_call c) = Some (ctx_deadline (c_now c) (c_eps c) D).
Proof. intro H. unfold single_call, run_call. rewrite H. cbn [snd r_grace r_ctx]. split; reflexivity. Qed.

Lemma single_call_no_deadline c : c_deadline c = None ->
  single_call c = {| r_grace := min_grace; r_ctx := None |}.
Proof. intro H. unfold single_call, run_call. now rewrite H. Qed.

Lemma run_calls_local cs : forall st, run_calls true st cs = map single_call cs.
Proof. induction cs as [|c cs IH]; intro st; [reflexivity|]. cbn [run_calls map]. rewrite run_call_local. now rewrite IH. Qed.

(* the source as it is: every call of every history computes what a fresh process would *)
Lemma runs_independent_list cs : run_calls_now cs = map single_call cs.
Proof. unfold run_calls_now. apply run_calls_local. Qed.

Lemma runs_independent cs k c : nth_error cs k = Some c -> nth_error (run_calls_now cs) k = Some (single_call c).
Proof. intro H. rewrite runs_independent_list. now apply map_nth_error. Qed.

(* a concrete history: an hour away, then none, then five seconds away, one second apart *)
Definition ex_history : list call :=
  [ {| c_now := 0; c_eps := 0; c_deadline := Some 3600000000000 |};
    {| c_now := 1000000000; c_eps := 0; c_deadline := None |};
    {| c_now := 2000000000; c_eps := 0; c_deadline := Some 7000000000 |} ].

Example runs_independent_example :
  run_calls_now ex_history =
  [ {| r_grace := 180000000000; r_ctx := Some 3240000000000 |};
    {| r_grace := 100000000; r_ctx := None |};
    {| r_grace := 250000000; r_ctx := Some 6500000000 |} ].
Proof. reflexivity. Qed.

(* with the grace period kept by the package the third call's context is born expired (it "expires"
   353 s before the call is made), whereas a fresh process gives it 4.5 s *)
Lemma kept_grace_refuted :
  exists cs k c r, nth_error cs k = Some c /\ nth_error (run_calls false pstate0 cs) k = Some r /\
    r <> single_call c /\
    (exists x, r_ctx r = Some x /\ x < c_now c) /\ (exists y, r_ctx (single_call c) = Some y /\ c_now c < y).
Proof.
  exists ex_history, 2%nat, {| c_now := 2000000000; c_eps := 0; c_deadline := Some 7000000000 |},
         {| r_grace := 180000000000; r_ctx := Some (-353000000000) |}.
  split; [reflexivity|]. split; [reflexivity|]. split; [discriminate|].
  split; [exists (-353000000000); split; [reflexivity|reflexivity] | exists 6500000000; split; reflexivity].
Qed.

(* the parameters of a command of a call with a deadline are RunT's *)
Lemma call_params_single c D e i : c_deadline c = Some D ->
  call_params (single_call c) e i = fg_params (c_now c) (c_eps c) D e i.
Proof.
  intro H. destruct (single_call_is_runt c D H) as [G C]. unfold call_params, fg_params, fg_kill_delay.
  now rewrite G, C.
Qed.

(* "Scripts that finish earlier are unaffected by the deadline" in any history: a command of call k
   that exits more than a slack before that call's own context expires is never signalled and
   returns Wait's own result — whatever calls came before *)
Lemma early_unaffected_in_any_history sigma cs k c D ee i o r :
  nth_error cs k = Some c -> c_deadline c = Some D -> nth_error (run_calls_now cs) k = Some r ->
  bounded sigma o -> 0 <= c_eps c -> ee + sigma < D - grace_reserve * grace (D - c_now c) ->
  res (wos (call_params r (Some ee) i) o) = RWait /\ t_int (wos (call_params r (Some ee) i) o) = None /\
  t_kill (wos (call_params r (Some ee) i) o) = None.
Proof.
  intros Hc HD Hr B He H. rewrite (runs_independent cs k c Hc) in Hr. injection Hr as <-.
  rewrite (call_params_single c D _ _ HD).
  destruct (runt_early_unaffected sigma (c_now c) (c_eps c) D ee i o B He H) as (A1 & A2 & A3 & _). now repeat split.
Qed.

(* a call without a deadline: nothing is ever signalled *)
Lemma no_deadline_never_signals cs k c ee i o r :
  nth_error cs k = Some c -> c_deadline c = None -> nth_error (run_calls_now cs) k = Some r ->
  res (wos (call_params r (Some ee) i) o) = RWait /\ t_int (wos (call_params r (Some ee) i) o) = None /\
  t_kill (wos (call_params r (Some ee) i) o) = None.
Proof.
  intros Hc HD Hr. rewrite (runs_independent cs k c Hc) in Hr. injection Hr as <-.
  rewrite (single_call_no_deadline c HD). unfold wos, call_params. cbn. now repeat split.
Qed.

Example early_in_history_example :
  (* the third call of ex_history: a command that exits 0.3 s after the call was made *)
  exists r, nth_error (run_calls_now ex_history) 2 = Some r /\
    2300000000 + 1000000 < 7000000000 - grace_reserve * grace (7000000000 - 2000000000).
Proof. eexists. split; [reflexivity|]. vm_compute. reflexivity. Qed.

(* ------------------------------------------------------------------ 2. the exit status plays no part *)

Lemma no_interrupt_returns_wait wins w : wos_return wins WNil w = w.
Proof. reflexivity. Qed.

Lemma interrupt_wins_any_status ie w : ie <> WNil -> wos_return interrupt_error_wins ie w = ie.
Proof. intro H. destruct ie; [congruence| | |]; reflexivity. Qed.

Lemma attribution_ignores_exit_status ie w1 w2 : ie <> WNil ->
  wos_return interrupt_error_wins ie w1 = wos_return interrupt_error_wins ie w2.
Proof. intro H. now rewrite !interrupt_wins_any_status. Qed.

Lemma attribution_status_free ie w1 w2 : ie <> WNil ->
  wos_return interrupt_error_wins ie w1 = ie /\
  wos_return interrupt_error_wins ie w1 = wos_return interrupt_error_wins ie w2.
Proof. intro H. split; [now apply interrupt_wins_any_status | now apply attribution_ignores_exit_status]. Qed.

(* `interruptErr != nil && waitErr != nil`: the interrupt of a command that then exits 0 is lost *)
Lemma conditional_attribution_refuted : exists ie, ie <> WNil /\ wos_return false ie WNil = WNil.
Proof. exists WCtxErr. split; [discriminate|reflexivity]. Qed.

(* cmdExec with the exit status explicit is the cmdExec of TsDeadline.v, for the source as it is *)
Lemma fg_exec_gen_now p o wait_ok neg : fg_exec_gen interrupt_error_wins p o wait_ok neg = fg_exec p o wait_ok neg.
Proof.
  unfold fg_exec_gen, fg_exec. destruct (t_ret (wos p o)); [|reflexivity].
  destruct (res (wos p o)), wait_ok; reflexivity.
Qed.

Lemma status_independent p o w1 w2 neg : res (wos p o) = RCtx ->
  fg_exec_gen interrupt_error_wins p o w1 neg = fg_exec_gen interrupt_error_wins p o w2 neg.
Proof.
  intro H. unfold fg_exec_gen. rewrite H. destruct (t_ret (wos p o)); [|reflexivity]. now destruct w1, w2.
Qed.

(* a command blocked until the context expired is reported as timed out whatever status it exits
   with once interrupted (0 included) *)
Lemma blocked_timed_out_any_status sigma now eps D i o wait_ok neg :
  bounded sigma o -> match i with Some d => 0 <= d | None => True end ->
  fg_exec_gen interrupt_error_wins (fg_params now eps D None i) o wait_ok neg = Some (XTimedOut timed_out_message).
Proof. intros B Hi. rewrite fg_exec_gen_now. now apply (runt_blocked_timed_out sigma). Qed.

Definition zero_oracle : oracle :=
  {| dw := 0; dc := 0; ds := 0; da := 0; dt := 0; dk := 0; dr := 0; tie1 := true; tie2 := true; tie3 := true |}.

(* with the conditional attribution such a command that exits 0 on the interrupt is a success *)
Lemma success_on_interrupt_refuted :
  exists now eps D i o, bounded 0 o /\
    fg_exec_gen false (fg_params now eps D None (Some i)) o true false = Some XOk /\
    fg_exec_gen interrupt_error_wins (fg_params now eps D None (Some i)) o true false = Some (XTimedOut timed_out_message).
Proof.
  exists 0, 0, 1000000000, 0, zero_oracle. split; [unfold bounded; cbn; lia|]. split; vm_compute; reflexivity.
Qed.

(* The types and library calls of the pure segments of testscript's deadline handling for the
   translation Gen/TsDeadlineSrc.v (table: harness/cmd/genconsts/gen_tsdeadline_src.go).
   Definitions only.

   Nothing here computes: the segments do int64 arithmetic (Lib/GoSemInt64.v) and pass values
   on.  The types say what a value of the Go type is taken to be:
   - time.Time (only Params.Deadline, only asked IsZero): seconds since January 1, year 1 and
     nanoseconds within the second, without monotonic reading (Go 1.23 time.go: IsZero is
     t.sec() == 0 && t.nsec() == 0);
   - context.Context: a context is context.Background() or something else the segments only
     pass on; context.CancelFunc: nil or not;
   - *exec.Cmd: passed on only. *)
From Coq Require Import ZArith Bool.
From GI Require Import Lib.Bytes.
Local Open Scope Z_scope.

Record go_time := mkGoTime { gt_sec : Z; gt_nsec : Z }.
Definition go_time_IsZero (t : go_time) : bool := (gt_sec t =? 0) && (gt_nsec t =? 0).

Inductive go_ctx := CtxBackground | CtxOther (id : Z).
Definition go_ctx_Background : go_ctx := CtxBackground.

Inductive go_cancel := CancelNil | CancelFn (id : Z).
Definition go_cancel_nil : go_cancel := CancelNil.

(* type Params struct { ...; TestWork bool; ...; Deadline time.Time } *)
Record ts_params := { p_TestWork : bool; p_Deadline : go_time }.

(* type TestScript struct { ...; ctxt context.Context; gracePeriod time.Duration } *)
Record ts_drecv := { d_ctxt : go_ctx; d_gracePeriod : Z }.

(* exec.Cmd: no field is read *)
Record go_cmd := { cmd_id : Z }.

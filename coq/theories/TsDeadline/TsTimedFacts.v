(* C17 — lemmas about the timed automaton of TsTimed.v: every timed run (every interleaving, every
   timing within the slack) satisfies the time windows. *)
From Coq Require Import List Bool ZArith Lia.
From GI Require Import Lib.Bytes Gen.TsBatchConsts TsDeadline.TsDeadline TsDeadline.TsDeadlineFacts TsDeadline.TsTimed.
Import ListNotations.
Local Open Scope Z_scope.

Inductive treach (par : tpar) : tstate -> Prop :=
  | tr_init : treach par tinit
  | tr_step : forall m s s', treach par s -> tstep par m s = Some s' -> treach par s'.

(* the control part of a timed run is a run of the interleaving system: everything proved about all
   interleavings holds for all timed runs *)
Lemma treach_untimed par s : treach par s -> reachable (pu par) (us s).
Proof.
  induction 1 as [|m s s' R IH E]; [apply r_init|].
  destruct m as [l|d]; cbn [tstep] in E.
  - unfold tdisc in E. destruct (time_guard par l s); [|discriminate].
    destruct (ustep (pu par) l (us s)) as [u'|] eqn:Eu; [|discriminate]. injection E as <-.
    assert (X : us (stamp l s u') = u') by (destruct l; reflexivity). rewrite X. eapply r_step; eauto.
  - destruct (can_delay par s d); [|discriminate]. injection E as <-. exact IH.
Qed.

(* ---- what a delay may assume *)
Lemma can_delay_bound par s d dl :
  can_delay par s d = true -> In dl (obligations par s) -> 0 <= d /\ now s + d <= dl.
Proof.
  unfold can_delay. intros H Hin. apply andb_true_iff in H as [H0 H1]. apply Z.leb_le in H0.
  rewrite forallb_forall in H1. specialize (H1 dl Hin). apply Z.leb_le in H1. now split.
Qed.

Definition oz (o : option Z) : Z := match o with Some x => x | None => 0 end.

Record tinv (par : tpar) (s : tstate) : Prop := {
  i_now : 0 <= now s /\ at_h s <= now s;
  i_ctx0 : uctx (us s) = false -> at_ctx s = None /\ (has_ctx (pu par) = true -> now s <= pC par + psig par);
  i_ctx1 : uctx (us s) = true -> at_ctx s <> None /\ pC par <= oz (at_ctx s) <= pC par + psig par /\ oz (at_ctx s) <= now s;
  i_sel1 : uh (us s) = HSel1 -> uctx (us s) = true -> now s <= oz (at_ctx s) + psig par;
  i_sig : uh (us s) = HSig -> pC par <= at_h s <= pC par + 2 * psig par /\ now s <= at_h s + psig par;
  i_tsig : at_sig s <> None -> pC par <= oz (at_sig s) <= pC par + 3 * psig par /\ oz (at_sig s) <= now s;
  i_after : uh (us s) = HAfterSig -> pC par <= at_h s <= pC par + 3 * psig par /\ now s <= at_h s + psig par;
  i_tarm : at_arm s <> None -> pC par <= oz (at_arm s) <= pC par + 4 * psig par /\ oz (at_arm s) <= now s /\ 0 < pK par;
  i_tm0 : utm (us s) = TNone -> at_arm s = None /\ at_fire s = None;
  i_tm1 : utm (us s) = TArmed -> at_arm s <> None /\ at_fire s = None /\ now s <= oz (at_arm s) + pK par + psig par;
  i_tm2 : utm (us s) = TFired -> at_arm s <> None /\ at_fire s <> None /\
          oz (at_arm s) + pK par <= oz (at_fire s) <= oz (at_arm s) + pK par + psig par /\ oz (at_fire s) <= now s;
  i_sel2 : uh (us s) = HSel2 -> utm (us s) <> TNone /\ (utm (us s) = TFired -> now s <= oz (at_fire s) + psig par);
  i_hkill : uh (us s) = HKill -> utm (us s) = TFired /\ oz (at_fire s) <= at_h s <= oz (at_fire s) + psig par /\ now s <= at_h s + psig par;
  i_pre : match uh (us s) with HSel1 | HSig | HSendNil | HAfterSig => utm (us s) = TNone | _ => True end;
  i_tkill : at_kill s <> None -> pC par + pK par <= oz (at_kill s) <= pC par + pK par + 7 * psig par /\ oz (at_kill s) <= now s
}.

Lemma tinv_init par : wf_tpar par -> tinv par tinit.
Proof.
  intros (H1 & H2 & H3 & H4 & H5).
  constructor; cbn; intros; try discriminate; try congruence; repeat split; intros; try reflexivity; try congruence; try lia.
Qed.

(* ---- which obligations are pending *)
Ltac ob_tac := unfold obligations, opt_list; cbn zeta; rewrite !in_app_iff; 
  repeat match goal with H : _ = _ |- _ => rewrite H end; cbn; tauto.

Lemma ob_ctx par s : has_ctx (pu par) = true -> uctx (us s) = false -> In (pC par + psig par) (obligations par s).
Proof. intros H1 H2. ob_tac. Qed.
Lemma ob_sel1 par s tc : uh (us s) = HSel1 -> uctx (us s) = true -> at_ctx s = Some tc -> In (tc + psig par) (obligations par s).
Proof. intros H1 H2 H3. ob_tac. Qed.
Lemma ob_hsig par s : uh (us s) = HSig -> In (at_h s + psig par) (obligations par s).
Proof. intros H1. ob_tac. Qed.
Lemma ob_hafter par s : uh (us s) = HAfterSig -> In (at_h s + psig par) (obligations par s).
Proof. intros H1. ob_tac. Qed.
Lemma ob_hkill par s : uh (us s) = HKill -> In (at_h s + psig par) (obligations par s).
Proof. intros H1. ob_tac. Qed.
Lemma ob_arm par s ta : utm (us s) = TArmed -> at_arm s = Some ta -> In (ta + pK par + psig par) (obligations par s).
Proof. intros H1 H2. ob_tac. Qed.
Lemma ob_sel2 par s tf : uh (us s) = HSel2 -> utm (us s) = TFired -> at_fire s = Some tf -> In (tf + psig par) (obligations par s).
Proof. intros H1 H2 H3. ob_tac. Qed.

Lemma oz_some o : o <> None -> o = Some (oz o).
Proof. destruct o; [reflexivity | congruence]. Qed.

Lemma tinv_delay par s d : tinv par s -> can_delay par s d = true -> tinv par (advance s d).
Proof.
  intros I Hd.
  assert (D0 : 0 <= d) by (unfold can_delay in Hd; apply andb_true_iff in Hd as [Hd _]; now apply Z.leb_le).
  pose proof (fun dl => can_delay_bound par s d dl Hd) as OB.
  destruct I as [Inow I0 I1 Isel1 Isig Itsig Iafter Itarm Itm0 Itm1 Itm2 Isel2 Ihk Ipre Itk].
  constructor; cbn [advance us now at_h at_ctx at_exit at_wrecv at_sig at_arm at_fire at_kill at_ret].
  - lia.
  - intro E. destruct (I0 E) as [A B]. split; [exact A|]. intro Hc. destruct (OB _ (ob_ctx par s Hc E)). lia.
  - intro E. destruct (I1 E) as (A & B & C). repeat split; try assumption; lia.
  - intros E1 E2. destruct (I1 E2) as (A & B & C). destruct (OB _ (ob_sel1 par s _ E1 E2 (oz_some _ A))). lia.
  - intro E. destruct (Isig E) as (A & B). destruct (OB _ (ob_hsig par s E)). lia.
  - intro E. destruct (Itsig E). lia.
  - intro E. destruct (Iafter E) as (A & B). destruct (OB _ (ob_hafter par s E)). lia.
  - intro E. destruct (Itarm E) as (A & B & C). lia.
  - exact Itm0.
  - intro E. destruct (Itm1 E) as (A & B & C). destruct (OB _ (ob_arm par s _ E (oz_some _ A))). repeat split; try assumption; lia.
  - intro E. destruct (Itm2 E) as (A & B & C & D). repeat split; try assumption; lia.
  - intro E. destruct (Isel2 E) as (A & B). split; [exact A|]. intro E2. destruct (Itm2 E2) as (_ & F & _).
    destruct (OB _ (ob_sel2 par s _ E E2 (oz_some _ F))). lia.
  - intro E. destruct (Ihk E) as (A & B & C). destruct (OB _ (ob_hkill par s E)). repeat split; try assumption; lia.
  - exact Ipre.
  - intro E. destruct (Itk E). lia.
Qed.

Ltac inv_ustep Eu :=
  unfold ustep in Eu;
  repeat match type of Eu with
         | context [match ?x with _ => _ end] => destruct x eqn:?
         | context [if ?b then _ else _] => destruct b eqn:?
         end; try discriminate; injection Eu as <-.

Ltac use_hyps :=
  repeat match goal with
         | H : ?a = ?a -> _ |- _ => specialize (H eq_refl)
         | H : ?P -> _, E : ?P |- _ => specialize (H E)
         | H : Some _ <> None -> _ |- _ => specialize (H ltac:(discriminate))
         | H : None <> None -> _ |- _ => clear H
         | H : ?a = ?b -> _ |- _ => (assert (a <> b) by discriminate); clear H
         | H : _ /\ _ |- _ => destruct H
         end.

Ltac fin := intros; use_hyps; repeat (split; intros); use_hyps; try discriminate; try congruence; try assumption;
  try reflexivity; try (intro; discriminate); try lia.

Lemma tinv_disc par l s s' : wf_tpar par -> tinv par s -> tdisc par l s = Some s' -> tinv par s'.
Proof.
  intros (W1 & W2 & W3 & W4 & W5a & W5b) I E. unfold tdisc in E.
  destruct (time_guard par l s) eqn:Eg; [|discriminate].
  destruct (ustep (pu par) l (us s)) as [u'|] eqn:Eu; [|discriminate]. injection E as <-.
  destruct I as [Inow I0 I1 Isel1 Isig Itsig Iafter Itarm Itm0 Itm1 Itm2 Isel2 Ihk Ipre Itk].
  destruct s as [u n th tc te tw ts ta tf tk tr]. cbn [us now at_h at_ctx at_exit at_wrecv at_sig at_arm at_fire at_kill at_ret] in *.
  destruct u as [w h pr cx tm ir kl se sn rc]. cbn [uw uh upr uctx utm uintr ukil usigerr usent urecv] in *.
  destruct l; cbn [time_guard us now at_h at_ctx at_exit at_wrecv at_sig at_arm at_fire at_kill at_ret] in Eg; inv_ustep Eu;
    cbn [uw uh upr uctx utm uintr ukil usigerr usent urecv] in *;
    repeat match type of Eg with context [match ?x with _ => _ end] => destruct x eqn:? end; try discriminate;
    repeat match goal with H : _ && _ = true |- _ => apply andb_true_iff in H; destruct H end;
    repeat match goal with H : negb _ = true |- _ => apply negb_true_iff in H end;
    repeat match goal with H : (_ <=? _) = true |- _ => apply Z.leb_le in H end;
    subst; cbn iota in Ipre; try (match type of Ipre with _ = TNone => subst end);
    cbn [stamp set_w set_h set_pr set_tm is_after_sig is_armed uw uh upr uctx utm uintr ukil usigerr usent urecv];
    constructor; cbn [us now at_h at_ctx at_exit at_wrecv at_sig at_arm at_fire at_kill at_ret uw uh upr uctx utm uintr ukil usigerr usent urecv oz set_w set_h set_pr set_tm is_armed is_after_sig];
    try solve [fin].
  all: try solve [destruct ta; [|discriminate]; cbn [oz] in *; apply Z.leb_le in Eg; fin].
  all: try solve [destruct h; cbn iota in *; try exact I; discriminate].
  all: try solve [destruct h; cbn iota in *; try exact I; subst; discriminate].
Qed.

Lemma tinv_reach par s : wf_tpar par -> treach par s -> tinv par s.
Proof.
  intros W R. induction R as [|m s s' R IH E]; [now apply tinv_init|].
  destruct m as [l|d]; cbn [tstep] in E.
  - eapply tinv_disc; eauto.
  - destruct (can_delay par s d) eqn:Ed; [|discriminate]. injection E as <-. now apply tinv_delay.
Qed.

(* C08 — diff: the output is a correct, well-formed unified diff.
   This file contains only the property theorems, each closed by [exact] of a lemma
   proved elsewhere, with Print Assumptions beneath it. *)
From Coq Require Import List.
From Coq.Strings Require Import Byte.
From GI Require Import Lib.Bytes Gen.DiffConsts Diff.Diff Diff.DiffSpec Diff.DiffBase Diff.DiffProofs
  Diff.TgsProofs Diff.DiffParse Diff.ParseProofs Diff.CtxFacts Diff.BytesFacts Diff.DiffFacts
  Diff.CoverFacts Gen.DiffSrc Diff.SrcFacts Diff.SrcFactsDiff Diff.SrcTheorems.
From GI Require Lib.GoSem.
Import ListNotations.

Theorem C08_diff_nil_iff : forall oldName old newName new,
  diff oldName old newName new = Ok [] <-> old = new.
Proof. exact diff_nil_iff. Qed.
Print Assumptions C08_diff_nil_iff.

Theorem C08_diff_no_panic : forall x y, exists hs, diff_hunks x y = Ok hs.
Proof. exact diff_no_panic. Qed.
Print Assumptions C08_diff_no_panic.

Theorem C08_diff_total : forall oldName old newName new,
  exists out, diff oldName old newName new = Ok out.
Proof. exact diff_total. Qed.
Print Assumptions C08_diff_total.

Theorem C08_hunks_wf : forall x y hs, diff_hunks x y = Ok hs -> hunks_wf x y hs.
Proof. exact hunks_wf_thm. Qed.
Print Assumptions C08_hunks_wf.

Theorem C08_patch_correct : forall x y hs, diff_hunks x y = Ok hs -> apply_hunks x hs = Some y.
Proof. exact patch_correct. Qed.
Print Assumptions C08_patch_correct.

Theorem C08_patch_reverse : forall x y hs,
  diff_hunks x y = Ok hs -> apply_hunks y (swap_hunks hs) = Some x.
Proof. exact patch_reverse. Qed.
Print Assumptions C08_patch_reverse.

Theorem C08_patch_texts : forall old new hs,
  diff_hunks (lines old) (lines new) = Ok hs ->
  apply_hunks (lines old) hs = Some (lines new) /\
  apply_hunks (lines new) (swap_hunks hs) = Some (lines old) /\
  (forall t, apply_hunks (lines old) hs = Some (lines t) -> t = new) /\
  (forall t, apply_hunks (lines new) (swap_hunks hs) = Some (lines t) -> t = old).
Proof. exact patch_texts. Qed.
Print Assumptions C08_patch_texts.

Theorem C08_lines_inj : forall a b, lines a = lines b -> a = b.
Proof. exact lines_inj. Qed.
Print Assumptions C08_lines_inj.

Theorem C08_diff_hunks_nonempty : forall old new,
  diff_hunks (lines old) (lines new) = Ok [] -> old = new.
Proof. exact diff_hunks_nonempty. Qed.
Print Assumptions C08_diff_hunks_nonempty.

Theorem C08_tgs_sound : forall x y, tgs_sound_on x y.
Proof. exact tgs_sound. Qed.
Print Assumptions C08_tgs_sound.

(* ---- second wave: the tie to the source text, the context rule, the bytes, the consumer ---- *)

Theorem C08_lines_go_eq : forall d, lines_go d = Ok (lines d).
Proof. exact lines_go_eq. Qed.
Print Assumptions C08_lines_go_eq.

Theorem C08_render_header_shape : forall oldName newName,
  render_header oldName newName =
  [x64; x69; x66; x66; x20] ++ oldName ++ [x20] ++ newName ++ [x0a] ++
  [x2d; x2d; x2d; x20] ++ oldName ++ [x0a] ++
  [x2b; x2b; x2b; x20] ++ newName ++ [x0a].
Proof. exact render_header_shape. Qed.
Print Assumptions C08_render_header_shape.

Theorem C08_render_hunk_shape : forall h,
  render_hunk h =
  [x40; x40; x20; x2d] ++ dec (sx h) ++ [x2c] ++ dec (cx h) ++
  [x20; x2b] ++ dec (sy h) ++ [x2c] ++ dec (cy h) ++ [x20; x40; x40; x0a] ++
  concat (map (fun tl => tag_byte (fst tl) :: snd tl) (body h)).
Proof. exact render_hunk_shape. Qed.
Print Assumptions C08_render_hunk_shape.

Theorem C08_hunk_ctx : forall x y hs, diff_hunks x y = Ok hs -> Forall (hunk_ctx_ok x y) hs.
Proof. exact hunks_ctx. Qed.
Print Assumptions C08_hunk_ctx.

Theorem C08_hunk_has_change : forall x y hs h,
  diff_hunks x y = Ok hs -> In h hs -> has_change (body h) = true.
Proof. exact hunk_has_change. Qed.
Print Assumptions C08_hunk_has_change.

Theorem C08_zero_count_side : forall x y hs h,
  diff_hunks x y = Ok hs -> In h hs ->
  (cx h = 0 -> x = [] /\ sx h = 0) /\ (cy h = 0 -> y = [] /\ sy h = 0).
Proof. exact zero_count_side. Qed.
Print Assumptions C08_zero_count_side.

Theorem C08_hunks_separated : forall x y hs l1 h1 h2 l2,
  diff_hunks x y = Ok hs -> hs = l1 ++ h1 :: h2 :: l2 ->
  exists lead1 inners1 inners2 trail2 p1 q1 p2 q2,
    runs (body h1) = lead1 :: inners1 ++ [ctxC] /\
    runs (body h2) = ctxC :: inners2 ++ [trail2] /\
    hunk_at x y h1 p1 q1 /\ hunk_at x y h2 p2 q2 /\
    p1 + cx h1 <= p2 /\ q1 + cy h1 <= q2 /\
    p2 - (p1 + cx h1) = q2 - (q1 + cy h1) /\
    sub x (p1 + cx h1) p2 = sub y (q1 + cy h1) q2.
Proof. exact hunks_separated. Qed.
Print Assumptions C08_hunks_separated.

Theorem C08_parse_render : forall oldName newName hs, Forall hunk_ok hs ->
  parse_render oldName newName (render oldName newName hs) = Some hs.
Proof. exact parse_render_render. Qed.
Print Assumptions C08_parse_render.

Theorem C08_render_inj : forall oldName newName hs hs', Forall hunk_ok hs -> Forall hunk_ok hs' ->
  render oldName newName hs = render oldName newName hs' -> hs = hs'.
Proof. exact render_inj. Qed.
Print Assumptions C08_render_inj.

Theorem C08_diff_bytes_parse : forall oldName old newName new out,
  diff oldName old newName new = Ok out -> old <> new ->
  exists hs, diff_hunks (lines old) (lines new) = Ok hs /\ out = render oldName newName hs /\
             parse_render oldName newName out = Some hs.
Proof. exact diff_bytes_parse. Qed.
Print Assumptions C08_diff_bytes_parse.

Theorem C08_bytes_patch : forall oldName old newName new out,
  diff oldName old newName new = Ok out ->
  patch_bytes oldName newName out (lines old) = Some (lines new) /\
  unpatch_bytes oldName newName out (lines new) = Some (lines old).
Proof. exact bytes_patch. Qed.
Print Assumptions C08_bytes_patch.

Theorem C08_cmp_logged_diff_patches : forall (expand : bytes -> bytes) env name1 name2 text1 data2 d,
  do_cmp expand false env name1 name2 text1 data2 = CmpFail d ->
  text1 <> cmp_compared expand env data2 /\ d <> [] /\
  patch_bytes name1 name2 d (lines text1) = Some (lines (cmp_compared expand env data2)) /\
  unpatch_bytes name1 name2 d (lines (cmp_compared expand env data2)) = Some (lines text1).
Proof. exact cmp_logged_diff_patches. Qed.
Print Assumptions C08_cmp_logged_diff_patches.

Theorem C08_cmp_fails_iff : forall (expand : bytes -> bytes) env name1 name2 text1 data2,
  (exists d, do_cmp expand false env name1 name2 text1 data2 = CmpFail d) <->
  text1 <> cmp_compared expand env data2.
Proof. exact cmp_fails_iff. Qed.
Print Assumptions C08_cmp_fails_iff.

Theorem C08_source_shapes :
  lines_sep = [NL] /\
  diff_fprintf_args =
  [ [ [x6f;x6c;x64;x4e;x61;x6d;x65]; [x6e;x65;x77;x4e;x61;x6d;x65] ];
    [ [x6f;x6c;x64;x4e;x61;x6d;x65] ];
    [ [x6e;x65;x77;x4e;x61;x6d;x65] ];
    [ [x63;x68;x75;x6e;x6b;x2e;x78]; [x63;x6f;x75;x6e;x74;x2e;x78];
      [x63;x68;x75;x6e;x6b;x2e;x79]; [x63;x6f;x75;x6e;x74;x2e;x79] ] ] /\
  cmp_diff_args =
  [ [x6e;x61;x6d;x65;x31]; [x5b;x5d;x62;x79;x74;x65;x28;x74;x65;x78;x74;x31;x29];
    [x6e;x61;x6d;x65;x32]; [x5b;x5d;x62;x79;x74;x65;x28;x74;x65;x78;x74;x32;x29] ].
Proof. exact (conj lines_sep_shape (conj diff_fprintf_args_shape cmp_diff_args_shape)). Qed.
Print Assumptions C08_source_shapes.

(* ---- third wave: direct readings of the property sentence.  The model is over immutable lists:
   WHERE the two texts live (views of one buffer, spare capacity, reuse of the returned storage by
   later or concurrent calls) is a run-time dimension exercised by the runner only. ---- *)

Theorem C08_hunks_cover_changes : forall x y hs, diff_hunks x y = Ok hs ->
  exists gaps, length gaps = S (length hs) /\
               x = weave gaps (old_sides hs) /\ y = weave gaps (new_sides hs).
Proof. exact hunks_cover_changes. Qed.
Print Assumptions C08_hunks_cover_changes.

Theorem C08_outside_hunks_equal : forall x y hs i, diff_hunks x y = Ok hs ->
  i < length x -> ~ in_old_range hs i ->
  exists j, j < length y /\ nth_error y j = nth_error x i /\ ~ in_new_range hs j.
Proof. exact outside_hunks_equal. Qed.
Print Assumptions C08_outside_hunks_equal.

Theorem C08_diff_bytes_shape : forall oldName old newName new out,
  diff oldName old newName new = Ok out -> old <> new ->
  exists hs, diff_hunks (lines old) (lines new) = Ok hs /\ hs <> [] /\
    out = [x64; x69; x66; x66; x20] ++ oldName ++ [x20] ++ newName ++ [x0a] ++
          [x2d; x2d; x2d; x20] ++ oldName ++ [x0a] ++
          [x2b; x2b; x2b; x20] ++ newName ++ [x0a] ++
          concat (map render_hunk hs).
Proof. exact diff_bytes_shape. Qed.
Print Assumptions C08_diff_bytes_shape.

Theorem C08_text_patch : forall oldName old newName new out,
  diff oldName old newName new = Ok out ->
  patch_text oldName newName out old = Some new /\
  unpatch_text oldName newName out new = Some old.
Proof. exact text_patch. Qed.
Print Assumptions C08_text_patch.

Theorem C08_rediff_is_not_reverse : exists x y hs hs',
  diff_hunks x y = Ok hs /\ diff_hunks y x = Ok hs' /\ removed hs' <> added hs.
Proof. exact rediff_is_not_reverse. Qed.
Print Assumptions C08_rediff_is_not_reverse.

Theorem C08_cmp_logged_diff_text : forall (expand : bytes -> bytes) env name1 name2 text1 data2 d,
  do_cmp expand false env name1 name2 text1 data2 = CmpFail d ->
  patch_text name1 name2 d text1 = Some (cmp_compared expand env data2) /\
  unpatch_text name1 name2 d (cmp_compared expand env data2) = Some text1.
Proof. exact cmp_logged_diff_text. Qed.
Print Assumptions C08_cmp_logged_diff_text.

(* ---- fourth wave: the SOURCE as translated.  Gen/DiffSrc.v is diff/diff.go (lines, tgs, Diff)
   translated to Gallina by harness/go2coq on every run; src_lines / src_tgs / src_Diff are the
   generated functions (Go ints as Z with Go's bound checks, map[string]int as an association
   list, bytes.Buffer as the bytes written, the four Fprintf formats as the source has them).
   [fuel] is the iteration bound of the translated loops; GoSem.Ok / Panic / OutOfFuel are the
   results of the translation's semantics (Lib/GoSem.v). ---- *)

Theorem C08_source_lines : forall d, src_lines d = GoSem.Ok (lines d).
Proof. exact src_lines_eq. Qed.
Print Assumptions C08_source_lines.

Theorem C08_source_tgs : forall fuel x y, length x + 1 <= fuel ->
  exists ms, tgs x y = Ok ms /\ src_tgs fuel x y = GoSem.Ok (map zp ms).
Proof. exact src_tgs_total. Qed.
Print Assumptions C08_source_tgs.

Theorem C08_source_diff_eq : forall fuel oldName old newName new, length old + 1 <= fuel ->
  src_Diff fuel oldName old newName new = res_conv id (diff oldName old newName new).
Proof. exact src_Diff_eq. Qed.
Print Assumptions C08_source_diff_eq.

Theorem C08_source_total : forall fuel oldName old newName new, length old + 1 <= fuel ->
  exists out, src_Diff fuel oldName old newName new = GoSem.Ok out.
Proof. exact src_Diff_total. Qed.
Print Assumptions C08_source_total.

Theorem C08_source_nil_iff : forall fuel oldName old newName new, length old + 1 <= fuel ->
  (src_Diff fuel oldName old newName new = GoSem.Ok [] <-> old = new).
Proof. exact source_diff_nil_iff. Qed.
Print Assumptions C08_source_nil_iff.

Theorem C08_source_hunks : forall fuel oldName old newName new, length old + 1 <= fuel -> old <> new ->
  exists hs, src_Diff fuel oldName old newName new = GoSem.Ok (render oldName newName hs) /\ hs <> [] /\
    hunks_wf (lines old) (lines new) hs /\
    apply_hunks (lines old) hs = Some (lines new) /\
    apply_hunks (lines new) (swap_hunks hs) = Some (lines old).
Proof. exact source_diff_hunks. Qed.
Print Assumptions C08_source_hunks.

Theorem C08_source_bytes_patch : forall fuel oldName old newName new out,
  length old + 1 <= fuel -> src_Diff fuel oldName old newName new = GoSem.Ok out ->
  patch_bytes oldName newName out (lines old) = Some (lines new) /\
  unpatch_bytes oldName newName out (lines new) = Some (lines old).
Proof. exact source_bytes_patch. Qed.
Print Assumptions C08_source_bytes_patch.

Theorem C08_source_text_patch : forall fuel oldName old newName new out,
  length old + 1 <= fuel -> src_Diff fuel oldName old newName new = GoSem.Ok out ->
  patch_text oldName newName out old = Some new /\
  unpatch_text oldName newName out new = Some old.
Proof. exact source_text_patch. Qed.
Print Assumptions C08_source_text_patch.

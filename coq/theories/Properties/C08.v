(* C08 — diff: the output is a correct, well-formed unified diff.
   This file contains only the property theorems, each closed by [exact] of a lemma
   proved elsewhere, with Print Assumptions beneath it. *)
From Coq Require Import List.
From Coq.Strings Require Import Byte.
From GI Require Import Lib.Bytes Gen.DiffConsts Diff.Diff Diff.DiffSpec Diff.DiffBase Diff.DiffProofs
  Diff.TgsProofs Diff.DiffFacts.
Import ListNotations.

Theorem C08_diff_nil_iff : forall oldName old newName new,
  diff oldName old newName new = Ok [] <-> old = new.
Proof. exact diff_nil_iff. Qed.
Print Assumptions C08_diff_nil_iff.

Theorem C08_diff_no_panic : forall x y, exists hs, diff_hunks x y = Ok hs.
Proof. exact diff_no_panic. Qed.
Print Assumptions C08_diff_no_panic.

Theorem C08_diff_total : forall oldName old newName new,
  exists out, diff oldName old newName new = Ok out.
Proof. exact diff_total. Qed.
Print Assumptions C08_diff_total.

Theorem C08_hunks_wf : forall x y hs, diff_hunks x y = Ok hs -> hunks_wf x y hs.
Proof. exact hunks_wf_thm. Qed.
Print Assumptions C08_hunks_wf.

Theorem C08_patch_correct : forall x y hs, diff_hunks x y = Ok hs -> apply_hunks x hs = Some y.
Proof. exact patch_correct. Qed.
Print Assumptions C08_patch_correct.

Theorem C08_patch_reverse : forall x y hs,
  diff_hunks x y = Ok hs -> apply_hunks y (swap_hunks hs) = Some x.
Proof. exact patch_reverse. Qed.
Print Assumptions C08_patch_reverse.

Theorem C08_patch_texts : forall old new hs,
  diff_hunks (lines old) (lines new) = Ok hs ->
  apply_hunks (lines old) hs = Some (lines new) /\
  apply_hunks (lines new) (swap_hunks hs) = Some (lines old) /\
  (forall t, apply_hunks (lines old) hs = Some (lines t) -> t = new) /\
  (forall t, apply_hunks (lines new) (swap_hunks hs) = Some (lines t) -> t = old).
Proof. exact patch_texts. Qed.
Print Assumptions C08_patch_texts.

Theorem C08_lines_inj : forall a b, lines a = lines b -> a = b.
Proof. exact lines_inj. Qed.
Print Assumptions C08_lines_inj.

Theorem C08_diff_hunks_nonempty : forall old new,
  diff_hunks (lines old) (lines new) = Ok [] -> old = new.
Proof. exact diff_hunks_nonempty. Qed.
Print Assumptions C08_diff_hunks_nonempty.

Theorem C08_tgs_sound : forall x y, tgs_sound_on x y.
Proof. exact tgs_sound. Qed.
Print Assumptions C08_tgs_sound.

(* C13 — cache Trim removes only stale entries and only when a trim is due.
   This file contains only the property theorems, each closed by [exact] of a lemma proved in
   CacheTrim/CacheTrimFacts.v, with Print Assumptions beneath it.  Times are Z nanoseconds
   since the Unix epoch; [clock_ok] is a clock between 1970 and 2262, [ns_ok] an mtime that
   time.Unix converts without wrapping, [dir_ok] the latter for every file of the 256
   subdirectories.  The intervals are the names regenerated from cache.go. *)
From Coq Require Import List Bool ZArith Sorted.
From Coq.Strings Require Import Byte.
From GI Require Import Lib.Bytes Gen.CacheTrimConsts CacheTrim.CacheTrim CacheTrim.CacheTrimTimeFacts
  CacheTrim.CacheTrimFacts.
Import ListNotations.
Local Open Scope Z_scope.

(* the three intervals are the ones the property names: five days, one hour, one day *)
Theorem C13_intervals_as_stated :
  trim_limit = 5 * 24 * 3600 * nano /\ mtime_interval = 3600 * nano /\ trim_interval = 24 * 3600 * nano.
Proof. exact intervals_as_stated. Qed.
Print Assumptions C13_intervals_as_stated.

(* the expressions in used / Trim / trimSubdir / fileName are the named intervals and suffixes *)
Theorem C13_code_constants :
  used_threshold = mtime_interval /\ window_upper = trim_interval /\
  window_lower = - mtime_interval /\ cutoff_offset = - trim_limit - mtime_interval /\
  0 < mtime_interval /\ 0 < trim_interval /\ 0 < trim_limit /\
  trim_subdir_count = open_subdir_count /\ 0 <= trim_subdir_count /\
  parse_base = 10 /\ parse_bits = 64.
Proof. exact consts_rel. Qed.
Print Assumptions C13_code_constants.

Theorem C13_entry_names : forall h,
  is_entry_name (h ++ index_suffix) = true /\ is_entry_name (h ++ data_suffix) = true /\
  put_index_suffix = index_suffix /\ put_data_suffix = data_suffix.
Proof. exact entry_names. Qed.
Print Assumptions C13_entry_names.

(* package time as the code uses it is integer arithmetic: now.Sub(x) is the clamped difference
   (for every int64 second count in trim.txt, wrapped or not) *)
Theorem C13_window_test_exact : forall now t, clock_ok now -> i64 t ->
  let d := time_sub (time_of_ns now) (time_unix t 0) in
  (d <? window_upper) && (d >? window_lower) =
  (now - t * nano <? window_upper) && (now - t * nano >? window_lower).
Proof. exact window_char. Qed.
Print Assumptions C13_window_test_exact.

(* every record is of one of the two kinds *)
Theorem C13_record_dichotomy : forall now record,
  record_in_window now record \/ record_stale now record.
Proof. exact record_dichotomy. Qed.
Print Assumptions C13_record_dichotomy.

(* a parsable last-trim second t with -mtimeInterval < now - t*10^9 < trimInterval: nothing changes *)
Theorem C13_trim_skips : forall now c, clock_ok now ->
  record_in_window now (trimtxt c) -> trim now c = c.
Proof. exact trim_skips. Qed.
Print Assumptions C13_trim_skips.

(* missing / corrupt / a day old / an hour ahead: the scan runs and the record becomes now's second,
   which ParseInt(TrimSpace(.)) reads back *)
Theorem C13_trim_runs_otherwise : forall now c, clock_ok now -> record_stale now (trimtxt c) ->
  trim now c = trimmed now c /\
  parse_int (trim_space (decimal (now / nano))) = Some (now / nano).
Proof. exact trim_runs_otherwise. Qed.
Print Assumptions C13_trim_runs_otherwise.

(* after a trim that ran, a second one within (a day minus the truncated second) does nothing *)
Theorem C13_trim_then_skips : forall now now' c, clock_ok now -> clock_ok now' ->
  record_stale now (trimtxt c) -> now <= now' -> now' - now < trim_interval - nano ->
  trim now' (trim now c) = trim now c.
Proof. exact trim_then_skips. Qed.
Print Assumptions C13_trim_then_skips.

(* used refreshes iff the mtime is at least mtimeInterval old; afterwards mtime >= u - mtimeInterval *)
Theorem C13_used_keeps : forall u o, clock_ok u -> ns_ok (omtime o) -> stat_ok (okind_of o) = true ->
  let o' := used_obj u o in
  omtime o' = (if u - omtime o <? mtime_interval then omtime o else u) /\
  u - mtime_interval <= omtime o' /\ omtime o <= omtime o' /\
  oname o' = oname o /\ odata o' = odata o /\ okind_of o' = okind_of o.
Proof. exact used_keeps. Qed.
Print Assumptions C13_used_keeps.

(* the invariant, over every history of stores, lookups and trims with a monotone clock *)
Theorem C13_lastuse_invariant : forall c h, dir_ok c ->
  Forall (fun e => clock_ok (etime e)) h ->
  StronglySorted (fun a b => etime a <= etime b) h ->
  forall e i n o, In e h -> uses e i n ->
  In o (subdir i (run true c h)) -> oname o = n -> okind_of o = KFile ->
  etime e - mtime_interval <= omtime o.
Proof. exact lastuse_invariant. Qed.
Print Assumptions C13_lastuse_invariant.

(* under that invariant, what was used within trimLimit survives *)
Theorem C13_trim_keeps_recent : forall now c i o lastuse, clock_ok now -> ns_ok (omtime o) ->
  In o (subdir i c) ->
  lastuse - mtime_interval <= omtime o ->
  now - trim_limit <= lastuse ->
  In o (subdir i (trim now c)).
Proof. exact trim_keeps_recent. Qed.
Print Assumptions C13_trim_keeps_recent.

(* when the scan runs, every regular file with an entry name and mtime < now - trimLimit - mtimeInterval goes *)
Theorem C13_trim_removes_stale : forall now c i o, clock_ok now -> record_stale now (trimtxt c) ->
  (i < Z.to_nat trim_subdir_count)%nat -> ns_ok (omtime o) ->
  is_entry_name (oname o) = true -> okind_of o = KFile ->
  omtime o < now - trim_limit - mtime_interval ->
  ~ In o (subdir i (trim now c)).
Proof. exact trim_removes_stale. Qed.
Print Assumptions C13_trim_removes_stale.

(* nothing outside the 256 subdirectories changes (trim.txt aside); inside them nothing is added or
   modified, and names without the -a / -d suffix stay, in order *)
Theorem C13_trim_only_entries : forall now c,
  rootobjs (trim now c) = rootobjs c /\
  length (subdirs (trim now c)) = length (subdirs c) /\
  forall i,
    (forall o, In o (subdir i (trim now c)) -> In o (subdir i c)) /\
    filter non_entry (subdir i (trim now c)) = filter non_entry (subdir i c) /\
    (forall o, In o (subdir i c) ->
       is_entry_name (oname o) = false \/ stat_ok (okind_of o) = false \/ remove_ok (okind_of o) = false ->
       In o (subdir i (trim now c))) /\
    ((Z.to_nat trim_subdir_count <= i)%nat -> subdir i (trim now c) = subdir i c).
Proof. exact trim_only_entries. Qed.
Print Assumptions C13_trim_only_entries.

(* after a lookup at time u both files are still there, refreshed, and survive any trim at now <= u + trimLimit *)
Theorem C13_lookup_refreshes : forall c u now ia na id nd, dir_ok c -> clock_ok u -> clock_ok now ->
  now <= u + trim_limit ->
  let c' := lookup u ia na id nd c in
  forall i n, (i = ia /\ n = na) \/ (i = id /\ n = nd) ->
  (forall o, In o (subdir i c) -> oname o = n ->
     exists o', In o' (subdir i c') /\ oname o' = n /\ odata o' = odata o /\ okind_of o' = okind_of o) /\
  (forall o', In o' (subdir i c') -> oname o' = n -> stat_ok (okind_of o') = true ->
     u - mtime_interval <= omtime o' /\ In o' (subdir i (trim now c'))).
Proof. exact lookup_refreshes. Qed.
Print Assumptions C13_lookup_refreshes.

(* histories (repaired Put): a file used at time u is still there after any further stores, lookups
   and trims whose times lie in [u, u + trimLimit] *)
Theorem C13_history_survives : forall c pre e post i n, dir_ok c ->
  Forall (fun e' => clock_ok (etime e')) (pre ++ e :: post) -> uses e i n ->
  (exists o, In o (subdir i (run true c (pre ++ [e]))) /\ oname o = n /\ okind_of o = KFile) ->
  Forall (fun e' => etime e <= etime e' <= etime e + trim_limit) post ->
  exists o, In o (subdir i (run true c (pre ++ e :: post))) /\ oname o = n /\ okind_of o = KFile.
Proof. exact history_survives. Qed.
Print Assumptions C13_history_survives.

(* the code before the repair of copyFile: only when the use is not a re-store of an existing output *)
Theorem C13_history_survives_unrepaired_partial : forall c pre e post i n, dir_ok c ->
  Forall (fun e' => clock_ok (etime e')) (pre ++ e :: post) -> uses e i n ->
  store_refreshes (run false c pre) e i n ->
  (exists o, In o (subdir i (run false c (pre ++ [e]))) /\ oname o = n /\ okind_of o = KFile) ->
  Forall (fun e' => etime e <= etime e' <= etime e + trim_limit) post ->
  exists o, In o (subdir i (run false c (pre ++ e :: post))) /\ oname o = n /\ okind_of o = KFile.
Proof. exact history_survives_asis_partial. Qed.
Print Assumptions C13_history_survives_unrepaired_partial.

(* ... and without that restriction the statement is false for the unrepaired store *)
Theorem C13_unrepaired_store_refuted : exists c pre e post i n,
  dir_ok c /\ Forall (fun e' => clock_ok (etime e')) (pre ++ e :: post) /\ uses e i n /\
  (exists o, In o (subdir i (run false c (pre ++ [e]))) /\ oname o = n /\ okind_of o = KFile) /\
  Forall (fun e' => etime e <= etime e' <= etime e + trim_limit) post /\
  ~ (exists o, In o (subdir i (run false c (pre ++ e :: post))) /\ oname o = n /\ okind_of o = KFile).
Proof. exact store_asis_refuted. Qed.
Print Assumptions C13_unrepaired_store_refuted.

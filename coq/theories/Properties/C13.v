(* C13 — cache Trim removes only stale entries and only when a trim is due.
   This file contains only the property theorems, each closed by [exact] of a lemma proved in
   CacheTrim/CacheTrimFacts.v, with Print Assumptions beneath it.  Times are Z nanoseconds
   since the Unix epoch; [clock_ok] is a clock between 1970 and 2262, [ns_ok] an mtime that
   time.Unix converts without wrapping, [dir_ok] the latter for every file of the 256
   subdirectories; [read_record c] is what lockedfile.Read(trim.txt) yields (None when the file
   is missing or, [trimblocked], a directory).  The intervals are the names regenerated from
   cache.go. *)
From Coq Require Import List Bool ZArith Sorted.
From Coq.Strings Require Import Byte.
From GI Require Import Lib.Bytes Gen.CacheTrimConsts CacheTrim.CacheTrim CacheTrim.CacheTrimTimeFacts
  CacheTrim.CacheTrimFacts CacheTrim.CacheTrimConc CacheTrim.CacheTrimConcFacts.
Import ListNotations.
Local Open Scope Z_scope.

(* the three intervals are the ones the property names: five days, one hour, one day *)
Theorem C13_intervals_as_stated :
  trim_limit = 5 * 24 * 3600 * nano /\ mtime_interval = 3600 * nano /\ trim_interval = 24 * 3600 * nano.
Proof. exact intervals_as_stated. Qed.
Print Assumptions C13_intervals_as_stated.

(* the expressions in used / Trim / trimSubdir / fileName are the named intervals and suffixes *)
Theorem C13_code_constants :
  used_threshold = mtime_interval /\ window_upper = trim_interval /\
  window_lower = - mtime_interval /\ cutoff_offset = - trim_limit - mtime_interval /\
  0 < mtime_interval /\ 0 < trim_interval /\ 0 < trim_limit /\
  trim_subdir_count = open_subdir_count /\ 0 <= trim_subdir_count /\
  parse_base = 10 /\ parse_bits = 64.
Proof. exact consts_rel. Qed.
Print Assumptions C13_code_constants.

Theorem C13_entry_names : forall h,
  is_entry_name (h ++ index_suffix) = true /\ is_entry_name (h ++ data_suffix) = true /\
  put_index_suffix = index_suffix /\ put_data_suffix = data_suffix.
Proof. exact entry_names. Qed.
Print Assumptions C13_entry_names.

(* package time as the code uses it is integer arithmetic: now.Sub(x) is the clamped difference
   (for every int64 second count in trim.txt, wrapped or not) *)
Theorem C13_window_test_exact : forall now t, clock_ok now -> i64 t ->
  let d := time_sub (time_of_ns now) (time_unix t 0) in
  (d <? window_upper) && (d >? window_lower) =
  (now - t * nano <? window_upper) && (now - t * nano >? window_lower).
Proof. exact window_char. Qed.
Print Assumptions C13_window_test_exact.

(* every record is of one of the two kinds *)
Theorem C13_record_dichotomy : forall now record,
  record_in_window now record \/ record_stale now record.
Proof. exact record_dichotomy. Qed.
Print Assumptions C13_record_dichotomy.

(* a parsable last-trim second t with -mtimeInterval < now - t*10^9 < trimInterval: nothing changes,
   nil is returned *)
Theorem C13_trim_skips : forall now c, clock_ok now ->
  record_in_window now (read_record c) -> trim now c = c /\ trim_err now c = false.
Proof. exact trim_skips. Qed.
Print Assumptions C13_trim_skips.

(* missing / unreadable / corrupt / a day old / an hour ahead: the scan runs over every
   subdirectory that can be opened; the record becomes now's second, which
   ParseInt(TrimSpace(.)) reads back — unless trim.txt cannot be written: then it stays as it
   was and that error is the only one Trim returns *)
Theorem C13_trim_runs_otherwise : forall now c, clock_ok now -> record_stale now (read_record c) ->
  trim now c = trimmed now c /\ trim_err now c = trimblocked c /\
  parse_int (trim_space (decimal (now / nano))) = Some (now / nano).
Proof. exact trim_runs_otherwise. Qed.
Print Assumptions C13_trim_runs_otherwise.

(* after a trim that ran, a second one within (a day minus the truncated second) does nothing *)
Theorem C13_trim_then_skips : forall now now' c, clock_ok now -> clock_ok now' ->
  record_stale now (read_record c) -> trimblocked c = false ->
  now <= now' -> now' - now < trim_interval - nano ->
  trim now' (trim now c) = trim now c.
Proof. exact trim_then_skips. Qed.
Print Assumptions C13_trim_then_skips.

(* used refreshes iff the mtime is at least mtimeInterval old; afterwards mtime >= u - mtimeInterval *)
Theorem C13_used_keeps : forall u o, clock_ok u -> ns_ok (omtime o) -> stat_ok (okind_of o) = true ->
  let o' := used_obj u o in
  omtime o' = (if u - omtime o <? mtime_interval then omtime o else u) /\
  u - mtime_interval <= omtime o' /\ omtime o <= omtime o' /\
  oname o' = oname o /\ odata o' = odata o /\ okind_of o' = okind_of o.
Proof. exact used_keeps. Qed.
Print Assumptions C13_used_keeps.

(* the invariant, over every history of stores, lookups and trims with a monotone clock *)
Theorem C13_lastuse_invariant : forall c h, dir_ok c ->
  Forall ev_ok h ->
  StronglySorted (fun a b => etime a <= etime b) h ->
  forall e i n o, In e h -> uses e i n ->
  In o (subdir i (run true c h)) -> oname o = n -> okind_of o = KFile ->
  etime e - mtime_interval <= omtime o.
Proof. exact lastuse_invariant. Qed.
Print Assumptions C13_lastuse_invariant.

(* under that invariant, what was used within trimLimit survives *)
Theorem C13_trim_keeps_recent : forall now c i o lastuse, clock_ok now -> ns_ok (omtime o) ->
  In o (subdir i c) ->
  lastuse - mtime_interval <= omtime o ->
  now - trim_limit <= lastuse ->
  In o (subdir i (trim now c)).
Proof. exact trim_keeps_recent. Qed.
Print Assumptions C13_trim_keeps_recent.

(* when the scan runs, every regular file with an entry name and mtime < now - trimLimit - mtimeInterval goes *)
Theorem C13_trim_removes_stale : forall now c i o, clock_ok now -> record_stale now (read_record c) ->
  (i < Z.to_nat trim_subdir_count)%nat -> ns_ok (omtime o) ->
  is_entry_name (oname o) = true -> okind_of o = KFile ->
  omtime o < now - trim_limit - mtime_interval ->
  ~ In o (subdir i (trim now c)).
Proof. exact trim_removes_stale. Qed.
Print Assumptions C13_trim_removes_stale.

(* nothing outside the 256 subdirectories changes (trim.txt aside); inside them nothing is added or
   modified, and names without the -a / -d suffix stay, in order *)
Theorem C13_trim_only_entries : forall now c,
  rootobjs (trim now c) = rootobjs c /\
  length (subdirs (trim now c)) = length (subdirs c) /\
  forall i,
    (forall o, In o (subdir i (trim now c)) -> In o (subdir i c)) /\
    filter non_entry (subdir i (trim now c)) = filter non_entry (subdir i c) /\
    (forall o, In o (subdir i c) ->
       is_entry_name (oname o) = false \/ stat_ok (okind_of o) = false \/ remove_ok (okind_of o) = false ->
       In o (subdir i (trim now c))) /\
    ((Z.to_nat trim_subdir_count <= i)%nat -> subdir i (trim now c) = subdir i c).
Proof. exact trim_only_entries. Qed.
Print Assumptions C13_trim_only_entries.

(* an interrupted Trim (killed anywhere, any order of processing): whatever subset of the
   removals was carried out, keep-recent and only-entries hold, only stale entries are gone,
   and the record is unchanged, so the next Trim runs *)
Theorem C13_trim_partial_safe : forall done now c, clock_ok now ->
  rootobjs (trim_partial done now c) = rootobjs c /\
  trimtxt (trim_partial done now c) = trimtxt c /\
  trimblocked (trim_partial done now c) = trimblocked c /\
  (forall now', trim_due now' (read_record (trim_partial done now c)) = trim_due now' (read_record c)) /\
  forall i,
    (forall o, In o (subdir i (trim_partial done now c)) -> In o (subdir i c)) /\
    filter non_entry (subdir i (trim_partial done now c)) = filter non_entry (subdir i c) /\
    (forall o lastuse, In o (subdir i c) -> ns_ok (omtime o) ->
       lastuse - mtime_interval <= omtime o -> now - trim_limit <= lastuse ->
       In o (subdir i (trim_partial done now c))) /\
    (forall o, In o (subdir i c) -> ns_ok (omtime o) -> ~ In o (subdir i (trim_partial done now c)) ->
       is_entry_name (oname o) = true /\ omtime o < now - trim_limit - mtime_interval).
Proof. exact trim_partial_safe. Qed.
Print Assumptions C13_trim_partial_safe.

(* the same after any number k of completed subdirectories *)
Theorem C13_trim_prefix_safe : forall k now c, clock_ok now ->
  rootobjs (trim_prefix k now c) = rootobjs c /\
  trimtxt (trim_prefix k now c) = trimtxt c /\
  trimblocked (trim_prefix k now c) = trimblocked c /\
  (forall now', trim_due now' (read_record (trim_prefix k now c)) = trim_due now' (read_record c)) /\
  forall i,
    (forall o, In o (subdir i (trim_prefix k now c)) -> In o (subdir i c)) /\
    filter non_entry (subdir i (trim_prefix k now c)) = filter non_entry (subdir i c) /\
    (forall o lastuse, In o (subdir i c) -> ns_ok (omtime o) ->
       lastuse - mtime_interval <= omtime o -> now - trim_limit <= lastuse ->
       In o (subdir i (trim_prefix k now c))) /\
    (forall o, In o (subdir i c) -> ns_ok (omtime o) -> ~ In o (subdir i (trim_prefix k now c)) ->
       is_entry_name (oname o) = true /\ omtime o < now - trim_limit - mtime_interval).
Proof. exact trim_prefix_safe. Qed.
Print Assumptions C13_trim_prefix_safe.

Theorem C13_trim_prefix_is_prefix : forall k now c i,
  subdir i (trim_prefix k now c) =
  if trim_due now (read_record c) && Nat.ltb i (Nat.min k (Z.to_nat trim_subdir_count))
  then trim_subdir (trim_cutoff now) (subdir i c) else subdir i c.
Proof. exact subdir_trim_prefix. Qed.
Print Assumptions C13_trim_prefix_is_prefix.

(* the next due Trim, at the same or a later time, leaves what it would have left without the interruption *)
Theorem C13_trim_resume : forall done now now' c, clock_ok now -> clock_ok now' -> now <= now' ->
  trim_due now' (read_record c) = true ->
  trim now' (trim_partial done now c) = trim now' c.
Proof. exact trim_resume. Qed.
Print Assumptions C13_trim_resume.

(* which files each public lookup refreshes: Get the index file only *)
Theorem C13_api_get_touches : forall u ia na c,
  (forall i, subdir i (api_get u ia na c) = map (touch u ia na i) (subdir i c)) /\
  rootobjs (api_get u ia na c) = rootobjs c /\ trimtxt (api_get u ia na c) = trimtxt c.
Proof. exact api_get_touches. Qed.
Print Assumptions C13_api_get_touches.

(* OutputFile the data file only *)
Theorem C13_api_output_file_touches : forall u id nd c,
  (forall i, subdir i (api_output_file u id nd c) = map (touch u id nd i) (subdir i c)) /\
  rootobjs (api_output_file u id nd c) = rootobjs c /\ trimtxt (api_output_file u id nd c) = trimtxt c.
Proof. exact api_output_file_touches. Qed.
Print Assumptions C13_api_output_file_touches.

(* GetFile and GetBytes both *)
Theorem C13_api_lookup_touches : forall u ia na id nd c,
  (forall i, subdir i (lookup u ia na id nd c) = map (touch u id nd i) (map (touch u ia na i) (subdir i c))) /\
  rootobjs (lookup u ia na id nd c) = rootobjs c /\ trimtxt (lookup u ia na id nd c) = trimtxt c.
Proof. exact api_lookup_touches. Qed.
Print Assumptions C13_api_lookup_touches.

(* after Get at time u the index file survives any trim at now <= u + trimLimit *)
Theorem C13_get_refreshes_index : forall c u now ia na, dir_ok c -> clock_ok u -> clock_ok now ->
  now <= u + trim_limit ->
  forall o', In o' (subdir ia (api_get u ia na c)) -> oname o' = na -> stat_ok (okind_of o') = true ->
  u - mtime_interval <= omtime o' /\ In o' (subdir ia (trim now (api_get u ia na c))).
Proof. exact get_refreshes_index. Qed.
Print Assumptions C13_get_refreshes_index.

(* ... but not the data file: Get alone does not protect the output (its documented contract) *)
Theorem C13_get_only_data_not_protected : exists c u now ia na id nd,
  dir_ok c /\ clock_ok u /\ clock_ok now /\ u <= now <= u + trim_limit /\
  has_file na (subdir ia c) = true /\ has_file nd (subdir id c) = true /\
  let c' := trim now (api_get u ia na c) in
  has_file na (subdir ia c') = true /\ has_file nd (subdir id c') = false.
Proof. exact get_only_data_not_protected. Qed.
Print Assumptions C13_get_only_data_not_protected.

(* after a lookup at time u both files are still there, refreshed, and survive any trim at now <= u + trimLimit *)
Theorem C13_lookup_refreshes : forall c u now ia na id nd, dir_ok c -> clock_ok u -> clock_ok now ->
  now <= u + trim_limit ->
  let c' := lookup u ia na id nd c in
  forall i n, (i = ia /\ n = na) \/ (i = id /\ n = nd) ->
  (forall o, In o (subdir i c) -> oname o = n ->
     exists o', In o' (subdir i c') /\ oname o' = n /\ odata o' = odata o /\ okind_of o' = okind_of o) /\
  (forall o', In o' (subdir i c') -> oname o' = n -> stat_ok (okind_of o') = true ->
     u - mtime_interval <= omtime o' /\ In o' (subdir i (trim now c'))).
Proof. exact lookup_refreshes. Qed.
Print Assumptions C13_lookup_refreshes.

(* histories (repaired Put): a file used at time u is still there after any further stores, lookups
   and trims whose times lie in [u, u + trimLimit] *)
Theorem C13_history_survives : forall c pre e post i n, dir_ok c ->
  Forall ev_ok (pre ++ e :: post) -> uses e i n ->
  (exists o, In o (subdir i (run true c (pre ++ [e]))) /\ oname o = n /\ okind_of o = KFile) ->
  Forall (fun e' => etime e <= etime e' <= etime e + trim_limit) post ->
  exists o, In o (subdir i (run true c (pre ++ e :: post))) /\ oname o = n /\ okind_of o = KFile.
Proof. exact history_survives. Qed.
Print Assumptions C13_history_survives.

(* the code before the repair of copyFile: only when the use is not a re-store of an existing output *)
Theorem C13_history_survives_unrepaired_partial : forall c pre e post i n, dir_ok c ->
  Forall ev_ok (pre ++ e :: post) -> uses e i n ->
  store_refreshes (run false c pre) e i n ->
  (exists o, In o (subdir i (run false c (pre ++ [e]))) /\ oname o = n /\ okind_of o = KFile) ->
  Forall (fun e' => etime e <= etime e' <= etime e + trim_limit) post ->
  exists o, In o (subdir i (run false c (pre ++ e :: post))) /\ oname o = n /\ okind_of o = KFile.
Proof. exact history_survives_asis_partial. Qed.
Print Assumptions C13_history_survives_unrepaired_partial.

(* ... and without that restriction the statement is false for the unrepaired store *)
Theorem C13_unrepaired_store_refuted : exists c pre e post i n,
  dir_ok c /\ Forall ev_ok (pre ++ e :: post) /\ uses e i n /\
  (exists o, In o (subdir i (run false c (pre ++ [e]))) /\ oname o = n /\ okind_of o = KFile) /\
  Forall (fun e' => etime e <= etime e' <= etime e + trim_limit) post /\
  ~ (exists o, In o (subdir i (run false c (pre ++ e :: post))) /\ oname o = n /\ okind_of o = KFile).
Proof. exact store_asis_refuted. Qed.
Print Assumptions C13_unrepaired_store_refuted.

(* the executable form of the history statement (with the property's five days) is true of the
   model on every directory and history; the runner evaluates it on every scenario *)
Theorem C13_holds_on_true : forall c h, dir_ok c -> Forall ev_ok h ->
  c13_holds_on c h = true.
Proof. exact c13_holds_on_true. Qed.
Print Assumptions C13_holds_on_true.

(* Trim concurrent with a lookup in another process (one file, interleaved at Stat / Remove /
   Chtimes / read): a file that is young or was refreshed before the trimming process looks at
   it survives every interleaving *)
Theorem C13_conc_fresh_survives : forall data now u sched s o, clock_ok now -> clock_ok u ->
  now <= u + trim_limit ->
  cfile s = Some o -> ns_ok (omtime o) -> u - mtime_interval <= omtime o ->
  ctp s = TIdle ->
  exists o', cfile (c_run data (trim_cutoff now) u sched s) = Some o' /\
             oname o' = oname o /\ odata o' = odata o /\ okind_of o' = okind_of o /\
             u - mtime_interval <= omtime o'.
Proof. exact conc_fresh_survives. Qed.
Print Assumptions C13_conc_fresh_survives.

(* in particular an entry whose lookup completed before the trim reached it *)
Theorem C13_conc_lookup_before_trim : forall data now u o sched, clock_ok now -> clock_ok u ->
  now <= u + trim_limit -> ns_ok (omtime o) -> okind_of o = KFile ->
  let s1 := c_run data (trim_cutoff now) u lookup_alone (c_init o) in
  clp s1 = LDone true /\
  exists o', cfile (c_run data (trim_cutoff now) u sched s1) = Some o' /\
             oname o' = oname o /\ odata o' = odata o /\ okind_of o' = KFile /\
             u - mtime_interval <= omtime o'.
Proof. exact conc_lookup_before_trim. Qed.
Print Assumptions C13_conc_lookup_before_trim.

(* no interleaving removes a file that the trimming process did not see stale *)
Theorem C13_conc_removed_only_if_seen_stale : forall data cutoff u sched s o,
  cfile s = Some o -> ctp s = TIdle -> trim_removes cutoff o = false ->
  trim_removes cutoff (set_mtime u o) = false ->
  cfile (c_run data cutoff u sched s) <> None.
Proof. exact conc_removed_only_if_seen_stale. Qed.
Print Assumptions C13_conc_removed_only_if_seen_stale.

(* a lookup that overlaps the trim may lose: Stat by the trim, the whole (successful,
   refreshing) lookup, then the Remove *)
Theorem C13_conc_overlap_removed :
  let s := c_run false (trim_cutoff ex_c_now) ex_c_now [true; false; false; false; false; true] (c_init ex_c_old) in
  clp s = LDone true /\ cfile s = None.
Proof. exact conc_overlap_removed. Qed.
Print Assumptions C13_conc_overlap_removed.

(* ... or win *)
Theorem C13_conc_overlap_survives :
  let s := c_run false (trim_cutoff ex_c_now) ex_c_now [false; false; false; true; false; true] (c_init ex_c_old) in
  clp s = LDone true /\ cfile s = Some (set_mtime ex_c_now ex_c_old).
Proof. exact conc_overlap_survives. Qed.
Print Assumptions C13_conc_overlap_survives.

(* and GetBytes (used, then read) can refresh the data file and still miss *)
Theorem C13_conc_overlap_data_miss :
  let s := c_run true (trim_cutoff ex_c_now) ex_c_now [true; false; false; true; false] (c_init ex_c_oldd) in
  clp s = LDone false /\ cfile s = None.
Proof. exact conc_overlap_data_miss. Qed.
Print Assumptions C13_conc_overlap_data_miss.

(* ---- on the source as translated: Gen/CacheSrc.v is made from cache/cache.go by harness/go2coq on
   every run; CacheTrim/SrcFacts.v proves the segments of used / Trim / trimSubdir equal to the
   tests of the model above *)
From GI Require Import Lib.GoSem Lib.GoSemSeg.
From GI Require Cache.SrcLib Gen.CacheSrc CacheTrim.SrcFacts TxtarWrite.Path.
Import SrcLib CacheSrc SrcFacts.

(* the body of  if data, err := lockedfile.Read(trim.txt); err == nil { ... }  of Trim as translated
   (ParseInt(TrimSpace(data)), time.Unix(t, 0), now.Sub, the two comparisons): it returns nil iff
   the model's trim_due is false *)
Theorem C13_source_due_eq : forall now data,
  src_Cache_Trim_due (time_of_ns now) data = Ok (if trim_due now (Some data) then Normal tt else Return false).
Proof. exact src_Trim_due_eq. Qed.
Print Assumptions C13_source_due_eq.

(* window exactness of the source's arithmetic: a parsable record t stops the scan iff
   -mtimeInterval < now - t*10^9 < trimInterval, for every int64 t *)
Theorem C13_source_window_exact : forall now data t, clock_ok now -> parse_int (trim_space data) = Some t ->
  src_Cache_Trim_due (time_of_ns now) data =
    Ok (if (now - t * nano <? trim_interval) && (now - t * nano >? - mtime_interval) then Return false else Normal tt).
Proof. exact src_Trim_window_exact. Qed.
Print Assumptions C13_source_window_exact.

Theorem C13_source_due_window : forall now data, clock_ok now ->
  (src_Cache_Trim_due (time_of_ns now) data = Ok (Return false) <-> record_in_window now (Some data)) /\
  (src_Cache_Trim_due (time_of_ns now) data = Ok (Normal tt) <-> record_stale now (Some data)).
Proof. exact src_Trim_due_window. Qed.
Print Assumptions C13_source_due_window.

(* a record that does not parse never stops the scan *)
Theorem C13_source_corrupt_runs : forall now data, parse_int (trim_space data) = None ->
  src_Cache_Trim_due (time_of_ns now) data = Ok (Normal tt).
Proof. exact src_Trim_corrupt. Qed.
Print Assumptions C13_source_corrupt_runs.

(* cutoff := now.Add(-trimLimit - mtimeInterval) as translated is the model's cutoff, the instant
   now - trimLimit - mtimeInterval *)
Theorem C13_source_cutoff_eq : forall now,
  src_Cache_Trim_cutoff (time_of_ns now) = Ok (Normal (trim_cutoff now)).
Proof. exact src_Trim_cutoff_eq. Qed.
Print Assumptions C13_source_cutoff_eq.

Theorem C13_source_cutoff_exact : forall now, clock_ok now ->
  src_Cache_Trim_cutoff (time_of_ns now) = Ok (Normal (time_of_ns (now - trim_limit - mtime_interval))).
Proof. exact src_Trim_cutoff_exact. Qed.
Print Assumptions C13_source_cutoff_exact.

(* trimSubdir as translated: only names ending in -a / -d are looked at, and the file found by Stat
   is removed iff its mtime is before the cutoff; together: the model's trim_removes *)
Theorem C13_source_candidate_eq : forall subdir name,
  src_Cache_trimSubdir_candidate subdir name =
    Ok (if is_entry_name name then Normal (Path.join subdir name) else Continue tt).
Proof. exact src_trimSubdir_candidate_eq. Qed.
Print Assumptions C13_source_candidate_eq.

Theorem C13_source_stale_exact : forall now mtime, clock_ok now -> ns_ok mtime ->
  src_Cache_trimSubdir_stale (trim_cutoff now) (time_of_ns mtime) false =
    Ok (mtime <? now - trim_limit - mtime_interval).
Proof. exact src_trimSubdir_stale_exact. Qed.
Print Assumptions C13_source_stale_exact.

Theorem C13_source_trim_removes : forall cutoff o,
  trim_removes cutoff o =
    match src_Cache_trimSubdir_candidate [] (oname o),
          src_Cache_trimSubdir_stale cutoff (time_of_ns (omtime o)) (negb (stat_ok (okind_of o))) with
    | Ok (Normal _), Ok true => remove_ok (okind_of o)
    | _, _ => false
    end.
Proof. exact trim_removes_src. Qed.
Print Assumptions C13_source_trim_removes.

(* used as translated leaves the mtime alone iff Stat succeeded and the file is less than
   mtimeInterval old; the model's used_obj is Stat, this test, Chtimes *)
Theorem C13_source_used_exact : forall u m, clock_ok u -> ns_ok m ->
  src_Cache_used_fresh (time_of_ns m) false (time_of_ns u) =
    Ok (if u - m <? mtime_interval then Return tt else Normal tt).
Proof. exact src_used_fresh_exact. Qed.
Print Assumptions C13_source_used_exact.

Theorem C13_source_used_obj : forall now o,
  used_obj now o =
    match src_Cache_used_fresh (time_of_ns (omtime o)) (negb (stat_ok (okind_of o))) (time_of_ns now) with
    | Ok (Return _) => o
    | _ => if stat_ok (okind_of o) then set_mtime now o else o
    end.
Proof. exact used_obj_src. Qed.
Print Assumptions C13_source_used_obj.

(* C18 — imports.ReadImports returns exactly the file's imports and a safe prefix.
   This file contains only the property theorems, each closed by [exact] of a lemma
   proved in Imports/ReadFacts.v, with Print Assumptions beneath it. *)
From Coq Require Import List Bool.
From Coq.Strings Require Import Byte.
From GI Require Import Lib.Bytes Imports.Read.
Import ListNotations.
From GI Require Import Imports.ReadFacts.

(* for every byte string the model of ReadImports returns normally: neither the
   "import reader looping" panic nor fuel exhaustion is reachable *)
Theorem C18_read_total : forall report input,
  exists imports out e, read_imports report input = ROk imports out e.
Proof. exact read_total. Qed.
Print Assumptions C18_read_total.

(* the bytes returned are a prefix of the input, an optional leading byte-order mark aside *)
Theorem C18_output_is_prefix : forall report input imports out e,
  read_imports report input = ROk imports out e ->
  (exists tl, strip_bom input = out ++ tl)
  /\ (input = strip_bom input \/ input = bom ++ strip_bom input).
Proof. exact output_is_prefix. Qed.
Print Assumptions C18_output_is_prefix.

(* a syntax error that is not reported: the whole input (BOM aside) and a nil error, with the
   same imports -- or the NUL error when the bytes consumed afterwards contain a NUL *)
Theorem C18_no_report_whole : forall input imports out,
  read_imports true input = ROk imports out ESyntax ->
  read_imports false input = ROk imports (strip_bom input) ENone
  \/ exists out', read_imports false input = ROk imports out' ENUL.
Proof. exact no_report_whole. Qed.
Print Assumptions C18_no_report_whole.

(* C18 — imports.ReadImports returns exactly the file's imports and a safe prefix.
   This file contains only the property theorems, each closed by [exact] of a lemma
   proved in Imports/ReadFacts.v, with Print Assumptions beneath it. *)
From Coq Require Import List Bool.
From Coq.Strings Require Import Byte.
From GI Require Import Lib.Bytes Imports.Read.
Import ListNotations.
From GI Require Import Imports.ReadFacts.

(* for every byte string the model of ReadImports returns normally: neither the
   "import reader looping" panic nor fuel exhaustion is reachable *)
Theorem C18_read_total : forall report input,
  exists imports out e, read_imports report input = ROk imports out e.
Proof. exact read_total. Qed.
Print Assumptions C18_read_total.

(* the bytes returned are a prefix of the input, an optional leading byte-order mark aside *)
Theorem C18_output_is_prefix : forall report input imports out e,
  read_imports report input = ROk imports out e ->
  (exists tl, strip_bom input = out ++ tl)
  /\ (input = strip_bom input \/ input = bom ++ strip_bom input).
Proof. exact output_is_prefix. Qed.
Print Assumptions C18_output_is_prefix.

(* a syntax error that is not reported: the whole input (BOM aside) and a nil error, with the
   same imports -- or the NUL error when the bytes consumed afterwards contain a NUL *)
Theorem C18_no_report_whole : forall input imports out,
  read_imports true input = ROk imports out ESyntax ->
  read_imports false input = ROk imports (strip_bom input) ENone
  \/ exists out', read_imports false input = ROk imports out' ENUL.
Proof. exact no_report_whole. Qed.
Print Assumptions C18_no_report_whole.
From GI Require Import Imports.ReadGrammar Imports.ReadComplete.

(* completeness on the grammar G of import sections (ReadGrammar.v): optional BOM; trivia =
   blanks, newlines, semicolons, // and /* */ comments; `package` name; any number of import
   declarations, single or grouped, specs plain / named / . / _ (an identifier), raw or
   interpreted path literals with escapes; followed by the end of the input or by a byte
   that is neither trivia nor 'i'.  The imports are the path literals in order, the returned
   bytes are the rendering of the section without the BOM, the error is nil. *)
Theorem C18_read_imports_complete : forall report g rest,
  wf_section g rest = true ->
  read_imports report (render g ++ rest) = ROk (paths g) (render_body g) ENone.
Proof. exact read_imports_complete. Qed.
Print Assumptions C18_read_imports_complete.

(* the returned prefix is itself a member of G (the same section without its BOM, followed by
   nothing) and reading it again yields the same imports and the same bytes *)
Theorem C18_prefix_reparses : forall report g rest,
  wf_section g rest = true ->
  render (without_bom g) ++ [] = render_body g
  /\ read_imports report (render_body g) = ROk (paths g) (render_body g) ENone.
Proof. exact prefix_reparses. Qed.
Print Assumptions C18_prefix_reparses.
From Coq Require Import Sorting.Sorted.
From GI Require Import Gen.ImportsConsts Imports.Build Imports.Scan Imports.ScanFacts.

(* ---- the consumers of ReadImports: imports.ScanDir / ScanFiles (scan.go) *)

(* neither can panic, whatever the directory contains *)
Theorem C18_scan_total : forall tags entries,
  scan_dir tags entries <> SPanic /\ scan_files tags entries <> SPanic.
Proof. exact scan_total. Qed.
Print Assumptions C18_scan_total.

(* a directory whose considered entries are G-files: exactly the sorted sets of the unquoted
   import paths of the selected files, tests apart; ErrNoGo when none is selected *)
Theorem C18_scan_dir_complete : forall tags entries gs,
  filter (considered tags) entries = map g_entry gs -> Forall gfile_ok gs ->
  scan_dir tags entries = spec_scan tags false gs.
Proof. exact scan_dir_complete. Qed.
Print Assumptions C18_scan_dir_complete.

Theorem C18_scan_files_complete : forall tags gs, Forall gfile_ok gs ->
  scan_files tags (map g_entry gs) = spec_scan tags true gs.
Proof. exact scan_files_complete. Qed.
Print Assumptions C18_scan_files_complete.

(* what "sorted set" means: strictly increasing in the byte-wise order, same elements *)
Theorem C18_scan_result_sorted_set : forall l,
  StronglySorted bytes_lt (set_of l) /\ (forall y, In y (set_of l) <-> In y l).
Proof. exact set_of_spec. Qed.
Print Assumptions C18_scan_result_sorted_set.

(* files that are read without error and excluded by import "C" or +build contribute nothing *)
Theorem C18_scan_frame : forall tags explicit f lits data l1 l2 imps tests num,
  read_imports false (e_data f) = ROk lits data ENone ->
  (needs_cgo lits && negb (tags cgo_tag) && negb (tags star) = true
   \/ (explicit = false /\ should_build data tags = Some false)) ->
  scan_loop tags explicit (l1 ++ f :: l2) imps tests num = scan_loop tags explicit (l1 ++ l2) imps tests num.
Proof. exact scan_frame_files. Qed.
Print Assumptions C18_scan_frame.

(* a leading byte-order mark in any file changes nothing *)
Theorem C18_scan_bom : forall tags f l1 l2, has_prefix bom (e_data f) = false ->
  scan_dir tags (l1 ++ with_bom f :: l2) = scan_dir tags (l1 ++ f :: l2)
  /\ scan_files tags (l1 ++ with_bom f :: l2) = scan_files tags (l1 ++ f :: l2).
Proof. exact scan_bom. Qed.
Print Assumptions C18_scan_bom.

(* C18 — imports.ReadImports returns exactly the file's imports and a safe prefix.
   This file contains only the property theorems, each closed by [exact] of a lemma
   proved in Imports/ReadFacts.v, with Print Assumptions beneath it. *)
From Coq Require Import List Bool.
From Coq.Strings Require Import Byte.
From GI Require Import Lib.Bytes Imports.Read.
Import ListNotations.
From GI Require Import Imports.ReadFacts.

(* for every byte string the model of ReadImports returns normally: neither the
   "import reader looping" panic nor fuel exhaustion is reachable *)
Theorem C18_read_total : forall report input,
  exists imports out e, read_imports report input = ROk imports out e.
Proof. exact read_total. Qed.
Print Assumptions C18_read_total.

(* the bytes returned are a prefix of the input, an optional leading byte-order mark aside *)
Theorem C18_output_is_prefix : forall report input imports out e,
  read_imports report input = ROk imports out e ->
  (exists tl, strip_bom input = out ++ tl)
  /\ (input = strip_bom input \/ input = bom ++ strip_bom input).
Proof. exact output_is_prefix. Qed.
Print Assumptions C18_output_is_prefix.

(* a syntax error that is not reported: the whole input (BOM aside) and a nil error, with the
   same imports -- or the NUL error when the bytes consumed afterwards contain a NUL *)
Theorem C18_no_report_whole : forall input imports out,
  read_imports true input = ROk imports out ESyntax ->
  read_imports false input = ROk imports (strip_bom input) ENone
  \/ exists out', read_imports false input = ROk imports out' ENUL.
Proof. exact no_report_whole. Qed.
Print Assumptions C18_no_report_whole.
From GI Require Import Imports.ReadGrammar Imports.ReadComplete.

(* completeness on the grammar G of import sections (ReadGrammar.v): optional BOM; trivia =
   blanks, newlines, semicolons, // and /* */ comments; `package` name; any number of import
   declarations, single or grouped, specs plain / named / . / _ (an identifier), raw or
   interpreted path literals with escapes; followed by the end of the input or by a byte
   that is neither trivia nor 'i'.  The imports are the path literals in order, the returned
   bytes are the rendering of the section without the BOM, the error is nil. *)
Theorem C18_read_imports_complete : forall report g rest,
  wf_section g rest = true ->
  read_imports report (render g ++ rest) = ROk (paths g) (render_body g) ENone.
Proof. exact read_imports_complete. Qed.
Print Assumptions C18_read_imports_complete.

(* the returned prefix is itself a member of G (the same section without its BOM, followed by
   nothing) and reading it again yields the same imports and the same bytes *)
Theorem C18_prefix_reparses : forall report g rest,
  wf_section g rest = true ->
  render (without_bom g) ++ [] = render_body g
  /\ read_imports report (render_body g) = ROk (paths g) (render_body g) ENone.
Proof. exact prefix_reparses. Qed.
Print Assumptions C18_prefix_reparses.

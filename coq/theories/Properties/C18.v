(* C18 — imports.ReadImports returns exactly the file's imports and a safe prefix.
   This file contains only the property theorems, each closed by [exact] of a lemma
   proved in Imports/ReadFacts.v, with Print Assumptions beneath it. *)
From Coq Require Import List Bool.
From Coq.Strings Require Import Byte.
From GI Require Import Lib.Bytes Imports.Read.
Import ListNotations.

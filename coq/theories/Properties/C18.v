(* C18 — imports.ReadImports returns exactly the file's imports and a safe prefix.
   This file contains only the property theorems, each closed by [exact] of a lemma
   proved in Imports/ReadFacts.v, with Print Assumptions beneath it. *)
From Coq Require Import List Bool.
From Coq.Strings Require Import Byte.
From GI Require Import Lib.Bytes Imports.Read.
Import ListNotations.
From GI Require Import Imports.ReadFacts.

(* for every byte string the model of ReadImports returns normally: neither the
   "import reader looping" panic nor fuel exhaustion is reachable *)
Theorem C18_read_total : forall report input,
  exists imports out e, read_imports report input = ROk imports out e.
Proof. exact read_total. Qed.
Print Assumptions C18_read_total.

(* the bytes returned are a prefix of the input, an optional leading byte-order mark aside *)
Theorem C18_output_is_prefix : forall report input imports out e,
  read_imports report input = ROk imports out e ->
  (exists tl, strip_bom input = out ++ tl)
  /\ (input = strip_bom input \/ input = bom ++ strip_bom input).
Proof. exact output_is_prefix. Qed.
Print Assumptions C18_output_is_prefix.

(* a syntax error that is not reported: the whole input (BOM aside) and a nil error, with the
   same imports -- or the NUL error when the bytes consumed afterwards contain a NUL *)
Theorem C18_no_report_whole : forall input imports out,
  read_imports true input = ROk imports out ESyntax ->
  read_imports false input = ROk imports (strip_bom input) ENone
  \/ exists out', read_imports false input = ROk imports out' ENUL.
Proof. exact no_report_whole. Qed.
Print Assumptions C18_no_report_whole.

(* the flag decides what happens to a syntax error and nothing else: a result without a syntax
   error (nil, or the NUL error) is the same imports, bytes and error in both modes *)
Theorem C18_report_flag_only_on_syntax_error : forall input imports out e,
  read_imports true input = ROk imports out e -> e <> ESyntax ->
  read_imports false input = ROk imports out e.
Proof. exact report_flag_only_on_syntax_error. Qed.
Print Assumptions C18_report_flag_only_on_syntax_error.

(* when syntax errors are not requested none is returned, whatever the bytes: the error is nil
   or the NUL error (any kind of syntax error -- newline or end of input in a path literal,
   unterminated comment, stray byte, bad keyword -- is the one value ESyntax in the model) *)
Theorem C18_no_report_no_syntax_error : forall input imports out e,
  read_imports false input = ROk imports out e -> e <> ESyntax.
Proof. exact no_report_no_syntax_error. Qed.
Print Assumptions C18_no_report_no_syntax_error.

(* both modes find the same imports *)
Theorem C18_report_flag_same_imports : forall input i1 o1 e1 i0 o0 e0,
  read_imports true input = ROk i1 o1 e1 -> read_imports false input = ROk i0 o0 e0 -> i1 = i0.
Proof. exact report_flag_same_imports. Qed.
Print Assumptions C18_report_flag_same_imports.
From GI Require Import Imports.ReadGrammar Imports.ReadComplete.

(* completeness on the grammar G of import sections (ReadGrammar.v): optional BOM; trivia =
   blanks, newlines, semicolons, // and /* */ comments; `package` name; any number of import
   declarations, single or grouped, specs plain / named / . / _ (an identifier), raw or
   interpreted path literals with escapes; followed by the end of the input or by a byte
   that is neither trivia nor 'i'.  The imports are the path literals in order, the returned
   bytes are the rendering of the section without the BOM, the error is nil. *)
Theorem C18_read_imports_complete : forall report g rest,
  wf_section g rest = true ->
  read_imports report (render g ++ rest) = ROk (paths g) (render_body g) ENone.
Proof. exact read_imports_complete. Qed.
Print Assumptions C18_read_imports_complete.

(* the returned prefix is itself a member of G (the same section without its BOM, followed by
   nothing) and reading it again yields the same imports and the same bytes *)
Theorem C18_prefix_reparses : forall report g rest,
  wf_section g rest = true ->
  render (without_bom g) ++ [] = render_body g
  /\ read_imports report (render_body g) = ROk (paths g) (render_body g) ENone.
Proof. exact prefix_reparses. Qed.
Print Assumptions C18_prefix_reparses.
From Coq Require Import Sorting.Sorted.
From GI Require Import Gen.ImportsConsts Imports.Build Imports.Scan Imports.ScanFacts.

(* ---- the consumers of ReadImports: imports.ScanDir / ScanFiles (scan.go) *)

(* neither can panic, whatever the directory contains *)
Theorem C18_scan_total : forall tags entries,
  scan_dir tags entries <> SPanic /\ scan_files tags entries <> SPanic.
Proof. exact scan_total. Qed.
Print Assumptions C18_scan_total.

(* a directory whose considered entries are G-files: exactly the sorted sets of the unquoted
   import paths of the selected files, tests apart; ErrNoGo when none is selected *)
Theorem C18_scan_dir_complete : forall tags entries gs,
  filter (considered tags) entries = map g_entry gs -> Forall gfile_ok gs ->
  scan_dir tags entries = spec_scan tags false gs.
Proof. exact scan_dir_complete. Qed.
Print Assumptions C18_scan_dir_complete.

Theorem C18_scan_files_complete : forall tags gs, Forall gfile_ok gs ->
  scan_files tags (map g_entry gs) = spec_scan tags true gs.
Proof. exact scan_files_complete. Qed.
Print Assumptions C18_scan_files_complete.

(* what "sorted set" means: strictly increasing in the byte-wise order, same elements *)
Theorem C18_scan_result_sorted_set : forall l,
  StronglySorted bytes_lt (set_of l) /\ (forall y, In y (set_of l) <-> In y l).
Proof. exact set_of_spec. Qed.
Print Assumptions C18_scan_result_sorted_set.

(* files that are read without error and excluded by import "C" or +build contribute nothing *)
Theorem C18_scan_frame : forall tags explicit f lits data l1 l2 imps tests num,
  read_imports false (e_data f) = ROk lits data ENone ->
  (needs_cgo lits && negb (tags cgo_tag) && negb (tags star) = true
   \/ (explicit = false /\ should_build data tags = Some false)) ->
  scan_loop tags explicit (l1 ++ f :: l2) imps tests num = scan_loop tags explicit (l1 ++ l2) imps tests num.
Proof. exact scan_frame_files. Qed.
Print Assumptions C18_scan_frame.

(* a leading byte-order mark in any file changes nothing *)
Theorem C18_scan_bom : forall tags f l1 l2, has_prefix bom (e_data f) = false ->
  scan_dir tags (l1 ++ with_bom f :: l2) = scan_dir tags (l1 ++ f :: l2)
  /\ scan_files tags (l1 ++ with_bom f :: l2) = scan_files tags (l1 ++ f :: l2).
Proof. exact scan_bom. Qed.
Print Assumptions C18_scan_bom.
From Coq Require Import Arith ZArith.
From GI Require Import Lib.GoSem Lib.GoSemIO Imports.ReadSrcLib Gen.ImportsReadSrc Imports.ReadSrcFacts Imports.ReadSrcComplete.

(* ---- imports/read.go AS TRANSLATED by harness/go2coq on every run (Gen/ImportsReadSrc.v): the
   io.Reader is the list of the bytes it delivers, *imports is [Some l] (or None for nil), an
   error is nil or the value of errSyntax / errNUL ([err_of]); [abs s] is the importReader of
   the source as a function of the model's state *)

(* the methods of the reader compute what the model's functions compute, for every state of
   the reader and every bound fuel >= F on the iterations of each loop, where F is a bound
   within which the model's run from that state neither reaches the "looping" panic nor runs
   out of its own fuel (for ReadImports such an F is given below, so this is not a restriction) *)
Theorem C18_source_methods :
  (forall c, src_isIdent c = Ok (is_ident c))
  /\ (forall s, src_importReader_syntaxError (abs s) = Ok (abs (syntax_error s)))
  /\ (forall s, src_importReader_readByte (abs s) = Ok (abs (snd (read_byte s)), fst (read_byte s)))
  /\ (forall F fuel skip s, F <= fuel -> fail (snd (peek_byte F skip s)) = FNone ->
        src_importReader_peekByte fuel (abs s) skip = Ok (abs (snd (peek_byte F skip s)), fst (peek_byte F skip s)))
  /\ (forall F fuel skip s, F <= fuel -> fail (snd (next_byte F skip s)) = FNone ->
        src_importReader_nextByte fuel (abs s) skip = Ok (abs (snd (next_byte F skip s)), fst (next_byte F skip s)))
  /\ (forall F fuel kw s, F <= fuel -> fail (read_keyword F kw s) = FNone ->
        src_importReader_readKeyword fuel (abs s) kw = Ok (abs (read_keyword F kw s)))
  /\ (forall F fuel s, F <= fuel -> fail (read_ident F s) = FNone ->
        src_importReader_readIdent fuel (abs s) = Ok (abs (read_ident F s)))
  /\ (forall F fuel keep l0 s, F <= fuel -> pkwf s -> fail (read_string F true s) = FNone ->
        src_importReader_readString fuel (abs s) (absI keep l0 s) =
        Ok (abs (read_string F true s), absI keep l0 (read_string F true s)))
  /\ (forall F fuel keep l0 s, F <= fuel -> pkwf s -> fail (read_import F s) = FNone ->
        src_importReader_readImport fuel (abs s) (absI keep l0 s) =
        Ok (abs (read_import F s), absI keep l0 (read_import F s)))
  /\ (forall data, src_newImportReader data = Ok (abs (init_st (strip_bom data)))).
Proof. exact src_methods_eq. Qed.
Print Assumptions C18_source_methods.

(* ReadImports as translated returns Ok of exactly what the model returns, for every input, both
   values of reportSyntaxError, every *imports (what was in it stays in front; nil stays nil)
   and every bound fuel >= 2 * len(data) + 8 on the iterations of each loop *)
Theorem C18_source_ReadImports_is_model : forall fuel data report o, 2 * length data + 8 <= fuel ->
  exists found out e,
    read_imports report data = ROk found out e /\
    src_ReadImports fuel data report o = Ok (imports_after o found, out, err_of e).
Proof. exact src_ReadImports_model. Qed.
Print Assumptions C18_source_ReadImports_is_model.

(* totality on the source: on arbitrary bytes the translated ReadImports returns -- no "import
   reader looping" panic, no slice expression out of range, no nil dereference of *imports,
   no loop beyond 2 * len(data) + 8 iterations *)
Theorem C18_source_total : forall fuel data report o, 2 * length data + 8 <= fuel ->
  exists o' out e, src_ReadImports fuel data report o = Ok (o', out, e).
Proof. exact src_ReadImports_total. Qed.
Print Assumptions C18_source_total.

(* the bytes it returns are a prefix of the input, an optional leading byte-order mark aside *)
Theorem C18_source_output_is_prefix : forall fuel data report o o' out e, 2 * length data + 8 <= fuel ->
  src_ReadImports fuel data report o = Ok (o', out, e) ->
  (exists tl, strip_bom data = out ++ tl) /\ (data = strip_bom data \/ data = bom ++ strip_bom data).
Proof. exact src_ReadImports_prefix. Qed.
Print Assumptions C18_source_output_is_prefix.

(* completeness on the grammar G, directly on the translated ReadImports: the path literals in
   order appended to *imports, the rendering of the section without the BOM, a nil error *)
Theorem C18_source_complete : forall fuel report g rest o, wf_section g rest = true ->
  2 * length (render g ++ rest) + 8 <= fuel ->
  src_ReadImports fuel (render g ++ rest) report o = Ok (imports_after o (paths g), render_body g, ErrNil).
Proof. exact src_ReadImports_complete. Qed.
Print Assumptions C18_source_complete.

(* C04 — testscript runs are isolated from each other and leave nothing behind.
   Only the property theorems, each closed by [exact] of a lemma of TsBatch/TsBatchFacts.v, with
   Print Assumptions beneath.  [run cfg progs (init progs) sched] is the state of a batch of
   scripts [progs] after the interleaving [sched] (a list of script indices, one atomic step of
   that script each); every statement is for all batches and all schedules. *)
From Coq Require Import List Bool Arith.
From Coq.Strings Require Import Byte.
From GI Require Import Lib.Bytes Gen.TsBatchConsts TsBatch.TsBatch TsBatch.TsBatchFacts TsBatch.TsCleanup TsBatch.TsCleanupFacts.
Import ListNotations.

(* The environment a script starts with is setup()'s list: the documented names (generated from
   the source), the pass-through variables that are set, "exe" - filtered by Setup's allow-list if it
   has one - then Setup's additions; without a filter it is exactly that list; every name in it is a
   documented one (on the allow-list) or one of Setup's; and it is the same for every host environment
   that agrees on the variables setup() reads. *)
Theorem C04_env_from_scratch : forall cfg progs sched s p ss e t o,
  nth_error progs s = Some p -> nth_error (scripts (run cfg progs (init progs) sched)) s = Some ss ->
  In (EvSetup e t o) (obs ss) ->
  e = setup_env (hostenv cfg) s (setup_keep p) (setup_adds p)
  /\ (setup_keep p = None ->
      map fst e = map fst setup_env_head ++ passthrough_present (hostenv cfg) ++ map fst setup_env_tail ++ map fst (setup_adds p))
  /\ (forall k, In k (map fst e) ->
        (In k (map fst setup_env_head ++ passthrough_present (hostenv cfg) ++ map fst setup_env_tail)
         /\ match setup_keep p with Some l => name_in l k = true | None => True end)
        \/ In k (map fst (setup_adds p)))
  /\ (forall h', (forall n, In n host_reads -> host_get h' n = host_get (hostenv cfg) n) ->
                 setup_env h' s (setup_keep p) (setup_adds p) = e).
Proof. exact env_from_scratch. Qed.
Print Assumptions C04_env_from_scratch.

(* A host variable setup() does not read is invisible, whatever its value and whatever Setup filters. *)
Theorem C04_other_host_variables_invisible : forall h s keep adds k v,
  ~ In k host_reads -> setup_env ((k, v) :: h) s keep adds = setup_env h s keep adds.
Proof. exact setup_env_ignores_other_var. Qed.
Print Assumptions C04_other_host_variables_invisible.

(* A Setup that keeps nothing (an allow-list without a match, Env.Vars = nil) leaves exactly what it adds. *)
Theorem C04_setup_that_keeps_nothing : forall h s adds, setup_env h s (Some []) adds = adds.
Proof. exact setup_env_keep_nothing. Qed.
Print Assumptions C04_setup_that_keeps_nothing.

(* What a program started by the script sees - provided exec and execBackground pass
   append(ts.env, "PWD="+ts.cd), which is what the generated constant says about the source now: the
   script's own list followed by PWD.  The list is never empty (os/exec never substitutes the
   environment of the test process), PWD is the directory the program runs in whatever the script set
   PWD to, every other name has the script's value. *)
Theorem C04_child_env_from_scratch : forall cfg s cd e,
  pwd_appended cfg = exec_env_appends_pwd ->
  child_env cfg s cd e = e ++ [(PWD, VWork s cd)]
  /\ child_env cfg s cd e <> []
  /\ env_get (child_env cfg s cd e) PWD = Some (VWork s cd)
  /\ (forall k, bytes_eqb PWD k = false -> env_get (child_env cfg s cd e) k = env_get e k).
Proof. exact child_env_scratch. Qed.
Print Assumptions C04_child_env_from_scratch.

(* That is what a probe (a foreground exec) records. *)
Theorem C04_probe_sees_child_env : forall cfg s c ss,
  pwd_appended cfg = exec_env_appends_pwd ->
  exec_action cfg s c ss AProbe
  = (c, add_obs ss [EvProbe (cwd ss) (senv ss ++ [(PWD, VWork s (cwd ss))]) (tr ss)], OCont).
Proof. exact probe_outcome. Qed.
Print Assumptions C04_probe_sees_child_env.

(* Right after setup the names a program can see are documented ones (on Setup's allow-list), Setup's
   own, and PWD: no other variable of the host, whatever Setup filters - nothing at all included. *)
Theorem C04_child_env_names_after_setup : forall cfg s p k,
  pwd_appended cfg = exec_env_appends_pwd ->
  In k (map fst (child_env cfg s [] (setup_env (hostenv cfg) s (setup_keep p) (setup_adds p)))) ->
  (In k (documented_names (hostenv cfg)) /\ match setup_keep p with Some l => name_in l k = true | None => True end)
  \/ In k (map fst (setup_adds p)) \/ k = PWD.
Proof. exact child_env_names_after_setup. Qed.
Print Assumptions C04_child_env_names_after_setup.

(* With ts.env handed over as it is, it is false: a Setup that keeps nothing makes every program
   inherit the environment of the test process. *)
Theorem C04_child_env_without_pwd_refuted :
  exists cfg p s canary v,
    pwd_appended cfg = false /\ ~ In canary host_reads /\
    env_get (child_env cfg s [] (setup_env (hostenv cfg) s (setup_keep p) (setup_adds p))) canary = Some (VLit v)
    /\ v <> [].
Proof. exact child_env_without_pwd_refuted. Qed.
Print Assumptions C04_child_env_without_pwd_refuted.

(* $WORK after setup holds exactly the archive's files (the last entry of a name wins; an entry named
   $WORK/p is the file p), the directories leading to them, and .tmp; nothing is unpacked outside
   and no entry name leaves the work directory — provided setup() expands the entry names with the
   initial environment and refuses names that are not below $WORK, which is what the generated
   constants say about the source now. *)
Theorem C04_workdir_exact : forall cfg progs sched s p ss e t o,
  names_see_env cfg = entry_names_see_env -> names_contained cfg = entry_names_contained ->
  nth_error progs s = Some p -> nth_error (scripts (run cfg progs (init progs) sched)) s = Some ss ->
  In (EvSetup e t o) (obs ss) ->
  o = [] /\ esc_index p = None /\ forall q, tree_get t q = expected_node (archive p) q.
Proof. exact workdir_exact. Qed.
Print Assumptions C04_workdir_exact.

(* A script whose archive has an entry name that leaves the work directory (../x, /abs/x, $HOME/x)
   fails in setup: no Setup event, nothing written outside, the exit path of a setup failure. *)
Theorem C04_escaping_entry_name_fails_setup : forall cfg p s c,
  names_contained cfg = entry_names_contained -> esc_index p <> None ->
  exists t, snd (fst (sstep cfg p s c sstate0))
            = {| ph := Ending VSetupFail SDefers; cwd := []; senv := []; tr := t; wpresent := true;
                 dstack := []; bgl := []; failedf := false; obs := [] |}.
Proof. exact escaping_name_fails_setup. Qed.
Print Assumptions C04_escaping_entry_name_fails_setup.

(* With such names written where they say (the code before the repair) it is false. *)
Theorem C04_uncontained_entry_names_refuted :
  exists cfg p ss e t o,
    names_contained cfg = false /\ names_see_env cfg = true /\
    snd (fst (sstep cfg p 0 [] sstate0)) = ss /\ In (EvSetup e t o) (obs ss) /\ o <> [].
Proof. exact uncontained_names_refuted. Qed.
Print Assumptions C04_uncontained_entry_names_refuted.

(* With the entry names expanded while the environment is still empty (the code before the repair)
   it is false: a file named $WORK/f lands outside the work directory. *)
Theorem C04_unexpanded_entry_names_refuted :
  exists cfg p ss e t o,
    names_see_env cfg = false /\
    snd (fst (sstep cfg p 0 [] sstate0)) = ss /\ In (EvSetup e t o) (obs ss) /\
    o <> [] /\ exists q, tree_get t q <> expected_node (archive p) q.
Proof. exact unexpanded_names_refuted. Qed.
Print Assumptions C04_unexpanded_entry_names_refuted.

(* Frame: a step of script s changes no other script's component ... *)
Theorem C04_frame : forall cfg progs st s s',
  s <> s' -> nth_error (scripts (step cfg progs st s)) s' = nth_error (scripts st) s'.
Proof. exact step_frame. Qed.
Print Assumptions C04_frame.

(* ... and touches root, reference count and cancel only when it is the step that finishes s. *)
Theorem C04_frame_shared : forall cfg progs st s,
  let st' := step cfg progs st s in
  (forall ss ss', nth_error (scripts st) s = Some ss -> nth_error (scripts st') s = Some ss' ->
                  is_done ss' = is_done ss) ->
  retain cfg = false ->
  root_present (sh st') = root_present (sh st) /\ refcount (sh st') = refcount (sh st)
  /\ cancelled (sh st') = cancelled (sh st) /\ root_removals (sh st') = root_removals (sh st).
Proof. exact step_shared_frame. Qed.
Print Assumptions C04_frame_shared.

(* Under every schedule each script is, after its k-th own step, in exactly the state it is in
   after k steps run alone (verdict, cwd, environment, files, deferred functions, background
   processes, everything observed) — provided the key of execCache is the one the source has now
   and it mentions PATH. *)
Theorem C04_interleaving_irrelevant : forall cfg progs sched s p,
  key_by_path cfg = exec_cache_key_has_path ->
  (forall s p, nth_error progs s = Some p -> wf_script s p) ->
  nth_error progs s = Some p ->
  nth_error (scripts (run cfg progs (init progs) sched)) s
  = Some (snd (alone cfg p s (count_occ Nat.eq_dec sched s))).
Proof. exact interleaving_irrelevant_gen. Qed.
Print Assumptions C04_interleaving_irrelevant.

(* For scripts without [exec:...] conditions the same holds whatever the key of the cache. *)
Theorem C04_interleaving_irrelevant_without_exec_conditions : forall cfg progs sched s p,
  nth_error progs s = Some p -> script_uses_cond p = false ->
  nth_error (scripts (run cfg progs (init progs) sched)) s
  = Some (snd (alone cfg p s (count_occ Nat.eq_dec sched s))).
Proof. exact interleaving_irrelevant_nocond. Qed.
Print Assumptions C04_interleaving_irrelevant_without_exec_conditions.

(* With the cache keyed by program name only (the code before the repair) it is false: two
   scripts, two schedules, different verdicts. *)
Theorem C04_program_only_key_refuted :
  exists cfg progs sched1 sched2 s,
    key_by_path cfg = false /\ (forall s p, nth_error progs s = Some p -> wf_script s p) /\
    (forall s', s' < length progs -> option_map is_done (nth_error (scripts (run cfg progs (init progs) sched1)) s') = Some true
                                     /\ option_map is_done (nth_error (scripts (run cfg progs (init progs) sched2)) s') = Some true) /\
    verdict_of (run cfg progs (init progs) sched1) s <> verdict_of (run cfg progs (init progs) sched2) s.
Proof. exact prog_only_key_refuted. Qed.
Print Assumptions C04_program_only_key_refuted.

(* On every exit path (any verdict v: pass, fail, skip, stop, setup failure, panic) the deferred
   functions have run in reverse registration order, each exactly once, also when one panics. *)
Theorem C04_defers_lifo_all_paths : forall cfg progs sched s p ss v,
  nth_error progs s = Some p -> nth_error (scripts (run cfg progs (init progs) sched)) s = Some ss ->
  ph ss = Done v ->
  defer_runs (obs ss) = rev (defer_regs (obs ss)) /\ dstack ss = [].
Proof. exact defers_lifo_all_paths. Qed.
Print Assumptions C04_defers_lifo_all_paths.

(* On every exit path the background list ends empty and every command started is gone (it was
   interrupted, or is of the kind that exits by itself) and has been waited for. *)
Theorem C04_no_bg_left : forall cfg progs sched s p ss v,
  nth_error progs s = Some p -> nth_error (scripts (run cfg progs (init progs) sched)) s = Some ss ->
  ph ss = Done v ->
  bgl ss = [] /\ forall h, In h (bg_started (obs ss)) -> In h (bg_gone (obs ss)) /\ In h (bg_waited (obs ss)).
Proof. exact no_bg_left. Qed.
Print Assumptions C04_no_bg_left.

(* Deferred functions that do not return (they panic, or fail / skip the test through its T; for
   ts.Fatalf see below) change
   the verdict only: a failure is never lost - a run that failed, or one of whose deferred functions
   calls FailNow / Fatal, ends as a failure or a panic whatever the other functions do - and
   functions that all return leave the verdict alone.  (That they all run, in reverse order, and that
   every background command is still interrupted and waited for, is the two theorems above: they hold
   for every script, these kinds of function and T.Skip / T.FailNow called by custom commands included.) *)
Theorem C04_deferred_functions_cannot_hide_failure : forall d v,
  (v = VFail \/ v = VSetupFail \/ exists x, In x d /\ defer_end x = DFailNow) ->
  is_failure (defers_verdict d v) = true.
Proof. exact defers_verdict_keeps_failure. Qed.
Print Assumptions C04_deferred_functions_cannot_hide_failure.

Theorem C04_returning_deferred_functions_keep_verdict : forall d v,
  (forall x, In x d -> defer_end x = DRet) -> defers_verdict d v = v.
Proof. exact defers_verdict_all_return. Qed.
Print Assumptions C04_returning_deferred_functions_keep_verdict.

(* The step of run() that runs the deferred functions: whatever they do, each of them runs, most
   recent first, the stack is emptied and nothing else of the script changes - environment, files,
   background commands (dealt with next, as on every path); only the verdict depends on how they end. *)
Theorem C04_deferred_functions_step : forall cfg p s c ss v,
  ph ss = Ending v SDefers ->
  sstep cfg p s c ss
  = (c, set_ph (set_dstack (add_obs ss (map (fun d => EvDeferRun (fst d)) (dstack ss))) []) (Ending (defers_verdict (dstack ss) v) SBgClean), NoEffect).
Proof. exact sstep_defers. Qed.
Print Assumptions C04_deferred_functions_step.

(* A deferred function that ends with ts.Fatalf / ts.Check(err) fails the run and changes nothing else:
   run() catches the failNow panic when the chain is through (generated constant
   deferred_failnow_caught) and calls t.FailNow().  With functions that return or end that way, at least
   one of the latter, the step is the one above with the verdict of a failed run - whatever the verdict
   was going to be - so the functions have all run in reverse order and the script goes on to the same
   clean-up as after a failing line (C04_no_bg_left, C04_refcount_root). *)
Theorem C04_fatalf_in_deferred_function_fails_the_run : forall cfg p s c ss v,
  ph ss = Ending v SDefers ->
  (forall x, In x (dstack ss) -> defer_end x = DRet \/ defer_end x = DFatalf) ->
  (exists x, In x (dstack ss) /\ defer_end x = DFatalf) ->
  sstep cfg p s c ss
  = (c, set_ph (set_dstack (add_obs ss (map (fun d => EvDeferRun (fst d)) (dstack ss))) []) (Ending (failed_verdict v) SBgClean), NoEffect).
Proof. exact fatalf_in_deferred_fails_the_run. Qed.
Print Assumptions C04_fatalf_in_deferred_function_fails_the_run.

(* Without the catch (the code before the repair) it is false: the failNow panic escapes RunT. *)
Theorem C04_uncaught_fatalf_refuted :
  exists d v, (forall x, In x d -> defer_end x = DRet \/ defer_end x = DFatalf) /\ v = VPass /\
    defers_verdict_gen false d v = VPanic /\ defers_verdict_gen true d v = VFail.
Proof. exact uncaught_fatalf_refuted. Qed.
Print Assumptions C04_uncaught_fatalf_refuted.

(* A custom command that ends the run through the T it got from Env.T() (Skip, FailNow, Fatal) sends
   the script straight to its deferred functions, background commands untouched; the end of run()
   deals with them as on every other exit path (C04_no_bg_left). *)
Theorem C04_run_ended_through_t : forall cfg p s c ss pc a,
  ph ss = Running pc -> nth_error (body p) pc = Some a -> (a = ATSkip \/ a = ATFail) ->
  sstep cfg p s c ss = (c, set_ph ss (Ending (match a with ATSkip => VSkip | _ => VFail end) SDefers), NoEffect).
Proof. exact ended_through_t. Qed.
Print Assumptions C04_run_ended_through_t.

(* Without retention: the count is the number of unfinished scripts; the root is there (never
   removed, context not cancelled) while a script is unfinished, and has been removed exactly once,
   and the context cancelled, when all are finished; a finished script's work directory is gone. *)
Theorem C04_refcount_root : forall cfg progs sched,
  retain cfg = false -> progs <> [] ->
  let st := run cfg progs (init progs) sched in
  refcount (sh st) = not_done_count (scripts st)
  /\ (all_done st = false -> root_present (sh st) = true /\ root_removals (sh st) = 0 /\ cancelled (sh st) = false)
  /\ (all_done st = true -> root_present (sh st) = false /\ root_removals (sh st) = 1 /\ cancelled (sh st) = has_cancel cfg)
  /\ (forall s ss, nth_error (scripts st) s = Some ss -> is_done ss = true -> wpresent ss = false /\ tr ss = []).
Proof. exact refcount_root. Qed.
Print Assumptions C04_refcount_root.

(* RunT called without any script (Params.Files non-nil and empty) removes the root at once — what
   the source does now according to the generated constant; refuted for the code before. *)
Theorem C04_empty_batch_leaves_nothing : forall cfg,
  empty_cleans cfg = empty_batch_removes_root -> retain cfg = false ->
  root_present (sh (start cfg [])) = false /\ root_removals (sh (start cfg [])) = 1
  /\ cancelled (sh (start cfg [])) = has_cancel cfg.
Proof. exact empty_batch_leaves_nothing. Qed.
Print Assumptions C04_empty_batch_leaves_nothing.

Theorem C04_empty_batch_refuted :
  exists cfg, empty_cleans cfg = false /\ retain cfg = false /\ root_present (sh (start cfg [])) = true.
Proof. exact empty_batch_refuted. Qed.
Print Assumptions C04_empty_batch_refuted.

(* With retention (TestWork, -testwork, WorkdirRoot) nothing is removed. *)
Theorem C04_retention_keeps_everything : forall cfg progs sched,
  retain cfg = true ->
  let st := run cfg progs (init progs) sched in
  root_present (sh st) = true /\ root_removals (sh st) = 0 /\ cancelled (sh st) = false
  /\ (forall s ss, nth_error (scripts st) s = Some ss -> ph ss <> NotStarted ->
                   wpresent ss = true /\ work_removed (obs ss) = []).
Proof. exact retention_keeps_everything. Qed.
Print Assumptions C04_retention_keeps_everything.

(* removeAll (chmod pass, then RemoveAll) removes every tree, read-only directories included. *)
Theorem C04_remove_all_removes_everything : forall root t, remove_all root t = [].
Proof. exact remove_all_empty. Qed.
Print Assumptions C04_remove_all_removes_everything.

(* No exit path gets stuck: a script that has been scheduled steps_bound times is finished — or it sits
   in a bare `wait` for a background command that is still running and that nothing has signalled,
   which is for ever, in the code as in the model. *)
Theorem C04_every_script_finishes : forall cfg progs sched s p,
  nth_error progs s = Some p -> steps_bound p <= count_occ Nat.eq_dec sched s ->
  exists ss, nth_error (scripts (run cfg progs (init progs) sched)) s = Some ss /\ (is_done ss = true \/ ph ss = Stuck).
Proof. exact every_script_finishes. Qed.
Print Assumptions C04_every_script_finishes.

Theorem C04_every_script_without_bare_wait_finishes : forall cfg progs sched s p,
  nth_error progs s = Some p -> script_has_wait p = false -> steps_bound p <= count_occ Nat.eq_dec sched s ->
  exists ss, nth_error (scripts (run cfg progs (init progs) sched)) s = Some ss /\ is_done ss = true.
Proof. exact every_script_without_bare_wait_finishes. Qed.
Print Assumptions C04_every_script_without_bare_wait_finishes.

(* A foreground exec of a bare name is decided by the script's own PATH; with PATH replaced by a
   directory below $WORK no program of the host can be run, whatever the host has installed. *)
Theorem C04_exec_uses_script_path : forall cfg s c ss neg prog,
  exec_action cfg s c ss (AExec neg prog)
  = (c, ss, if Bool.eqb (look cfg s (tr ss) (path_value (senv ss)) prog) neg then OFail else OCont).
Proof. exact exec_outcome. Qed.
Print Assumptions C04_exec_uses_script_path.

Theorem C04_narrowed_path_hides_host_programs : forall cfg cfg' s t sub prog,
  look cfg s t (VOwnPath s sub None) prog = is_exec t (sub ++ [prog]) /\
  look cfg s t (VOwnPath s sub None) prog = look cfg' s t (VOwnPath s sub None) prog.
Proof. exact narrowed_path_hides_host. Qed.
Print Assumptions C04_narrowed_path_hides_host_programs.

(* ---- the whole file system (TsCleanup.v): a table of absolute paths with permission bits and symbolic
   links whose targets may be anywhere (a file of the host, a sibling's work directory, nowhere, a
   loop).  [remove_all_now root mine fs dir] is removeAll(dir) as the source has it now (the generated
   constant says whether the chmod pass is for directories only), run by root or by the owner of the
   paths below [mine]. *)

(* Cleaning up a work directory (and `rm`) changes nothing outside it: not the mode, content or
   existence of any path that is not at or below the directory — whatever the tree holds. *)
Theorem C04_cleanup_touches_only_workdir : forall root mine fs dir p,
  path_prefix dir p = false -> gget (remove_all_now root mine fs dir) p = gget fs p.
Proof. exact cleanup_touches_only_workdir. Qed.
Print Assumptions C04_cleanup_touches_only_workdir.

(* The same for the two-pass algorithm itself, whenever the mode is changed for directories only ... *)
Theorem C04_chmod_of_directories_only_is_contained : forall root mine fs dir p,
  path_prefix dir p = false -> gget (remove_all_at true root mine fs dir) p = gget fs p.
Proof. exact remove_all_frame. Qed.
Print Assumptions C04_chmod_of_directories_only_is_contained.

(* ... and false when os.Chmod is applied to every entry: it follows a link out of the directory. *)
Theorem C04_chmod_of_every_entry_refuted :
  exists root mine fs dir p,
    path_prefix dir p = false /\ gget (remove_all_at false root mine fs dir) p <> gget fs p.
Proof. exact chmod_every_entry_refuted. Qed.
Print Assumptions C04_chmod_of_every_entry_refuted.

(* Everything at or below the directory is gone afterwards: for root whatever the modes, for the
   owner provided the directory that holds it is writable (read-only directories inside are dealt
   with by the chmod pass). *)
Theorem C04_cleanup_removes_everything_as_root : forall dirs_only mine fs dir p,
  path_prefix dir p = true -> gget (remove_all_at dirs_only true mine fs dir) p = None.
Proof. exact remove_all_removes_root. Qed.
Print Assumptions C04_cleanup_removes_everything_as_root.

Theorem C04_cleanup_removes_everything_as_owner : forall mine fs dir p,
  dir <> [] -> (forall q, path_prefix dir q = true -> can_chmod false mine q = true) ->
  g_unremovable false fs dir = false ->
  path_prefix dir p = true -> gget (remove_all_at true false mine fs dir) p = None.
Proof. exact remove_all_removes_owner. Qed.
Print Assumptions C04_cleanup_removes_everything_as_owner.

(* ---- links and `rm` in the per-script tree of the batch model *)

(* `rm q`, whether it succeeds or fails, changes nothing that is not at or below q ... *)
Theorem C04_rm_touches_only_its_argument : forall root t q p,
  path_prefix q p = false -> tree_get (rm_tree (rm_path root t q)) p = tree_get t p.
Proof. exact rm_frame. Qed.
Print Assumptions C04_rm_touches_only_its_argument.

(* ... and when it succeeds on something that exists nothing is left at or below q. *)
Theorem C04_rm_removes_the_subtree : forall root t q t' n p,
  rm_path root t q = RmOk t' -> tree_get t q = Some n -> path_prefix q p = true -> tree_get t' p = None.
Proof. exact rm_ok_removes. Qed.
Print Assumptions C04_rm_removes_the_subtree.

(* `symlink q -> target` adds the link and nothing else. *)
Theorem C04_symlink_adds_only_the_link : forall root t q tg t',
  symlink_at root t q tg = Some t' ->
  tree_get t q = None /\ forall p, tree_get t' p = if path_eqb q p then Some (Link tg) else tree_get t p.
Proof. exact symlink_exact. Qed.
Print Assumptions C04_symlink_adds_only_the_link.

From GI Require Lib.GoSem Lib.GoSemState TsBatch.SrcLib TsBatch.Names Gen.TsBatchSrc TsBatch.SrcFacts.

(* ---- the source itself: the statements of RunT that name a script (from filepath.Base(file) to
   names[name] = true), translated on every run by harness/go2coq (Gen/TsBatchSrc.v), are the
   model TsBatch/Names.v (TsBatch/SrcFacts.v).  [l] is the map names (newest binding first),
   [Names.cand prefix i] the i-th candidate: prefix, prefix#1, prefix#2, ... *)

(* With fuel for (bindings of the map) + 2 tests the translated segment never panics and never
   runs out of fuel: it records and returns the first candidate that is not in the map. *)
Theorem C04_source_name_is_first_free_candidate : forall fuel l file, length l + 2 <= fuel ->
  exists i, i <= length l + 1 /\
    TsBatchSrc.src_RunT_name fuel (Some l) file =
      GoSem.Ok (GoSem.Normal (Some ((Names.cand (Names.script_prefix file) i, true) :: l),
                              Names.cand (Names.script_prefix file) i)) /\
    Names.taken l (Names.cand (Names.script_prefix file) i) = false /\
    forall i', i' < i -> Names.taken l (Names.cand (Names.script_prefix file) i') = true.
Proof. exact TsBatch.SrcFacts.src_name_total. Qed.
Print Assumptions C04_source_name_is_first_free_candidate.

(* The names of a batch (the translated segment for each file in turn, the map handed on) are
   the model's. *)
Theorem C04_source_batch_names : forall fuel files l, length l + length files + 1 <= fuel ->
  TsBatch.SrcFacts.src_batch_names fuel (Some l) files = GoSem.Ok (Names.assign l files).
Proof. exact TsBatch.SrcFacts.src_batch_names_eq. Qed.
Print Assumptions C04_source_batch_names.

(* "Distinct scripts get distinct work directories" starts here: whatever the files are called
   (a/foo.txt, b/foo.txtar, c/foo#1.txt ...), the names one RunT call gives its scripts -- the
   subtest names and the script-<name> directories -- are pairwise distinct. *)
Theorem C04_source_names_distinct : forall fuel files, length files + 1 <= fuel ->
  exists names, TsBatch.SrcFacts.src_batch_names fuel (Some []) files = GoSem.Ok names /\
                length names = length files /\ NoDup names.
Proof. exact TsBatch.SrcFacts.src_batch_names_distinct. Qed.
Print Assumptions C04_source_names_distinct.

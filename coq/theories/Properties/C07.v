(* C07 — lockedfile contents change atomically: Read/Write/Transform linearise; Transform
   rolls back.  Only the property theorems, each closed by [exact] of a lemma proved in
   LockedFile/TransformProofs.v and LockedFile/LinProofs.v, with Print Assumptions beneath. *)
From Coq Require Import List NArith Bool Arith Sorted.
From Coq.Strings Require Import Byte.
From GI Require Import Gen.LockedFileConsts LockedFile.LockedFile LockedFile.LockBasics
  LockedFile.LockProofs LockedFile.TransformProofs LockedFile.TransformCall
  LockedFile.LinBasics LockedFile.LinProofs LockedFile.LinTheorems LockedFile.FaultProofs.
From GI Require Import LockedFile.Policy LockedFile.PolicyProofs LockedFile.PolicyTransform LockedFile.PolicyCall.
From GI Require Import LockedFile.LinFresh.
Import ListNotations.

(* ---- faults: every plan with at most one faulty operation (a failing write may have
   written any prefix), all old / new, all length relations *)
Theorem C07_transform_fault_atomic : forall t old plan fd,
  acc_writable (fd_acc fd) = true -> acc_readable (fd_acc fd) = true -> fd_off fd = 0 ->
  single_fault plan ->
  match run_body (transform_body t) plan 0 old fd with
  | (r, b', _) =>
      (r = ResOk /\ t old = Some b') \/
      (r = ResErr /\ b' = old /\ (t old = None \/ exists j, plan j <> FNone))
  end.
Proof. exact transform_fault_atomic. Qed.
Print Assumptions C07_transform_fault_atomic.

Theorem C07_transform_fault_atomic_at : forall t old k f,
  match run_body (transform_body t) (fault_at k f) 0 old (fresh_fd edit_flags) with
  | (r, b', _) => (r = ResOk /\ t old = Some b') \/ (r = ResErr /\ b' = old)
  end.
Proof. exact transform_fault_atomic_at. Qed.
Print Assumptions C07_transform_fault_atomic_at.

Theorem C07_transform_ok : forall t old new fd,
  acc_writable (fd_acc fd) = true -> acc_readable (fd_acc fd) = true -> fd_off fd = 0 ->
  t old = Some new ->
  match run_body (transform_body t) no_faults 0 old fd with
  | (r, b', _) => r = ResOk /\ b' = new
  end.
Proof. exact transform_ok. Qed.
Print Assumptions C07_transform_ok.

Theorem C07_transform_t_fails : forall t old fd plan,
  acc_writable (fd_acc fd) = true -> acc_readable (fd_acc fd) = true -> fd_off fd = 0 ->
  single_fault plan -> t old = None ->
  match run_body (transform_body t) plan 0 old fd with
  | (r, b', _) => r = ResErr /\ b' = old
  end.
Proof. exact transform_t_fails. Qed.
Print Assumptions C07_transform_t_fails.

(* the whole call (open, flock, body, unlock, close) alone on the OS model *)
Theorem C07_transform_call_fault_atomic : forall t old plan,
  single_fault plan ->
  match run_seq 0 0 (prog_of_call (CTransform t)) plan 0 (os_with (Some old)) with
  | (_, out, s') =>
      ltab s' 0 = [] /\ fds s' 0 = None /\
      ((out = Finished ResOk /\ t old = Some (content_of (files s' 0))) \/
       (out = Finished ResErr /\ content_of (files s' 0) = old))
  end.
Proof. exact transform_call_fault_atomic. Qed.
Print Assumptions C07_transform_call_fault_atomic.

(* a fault among the operations actually executed forces an error return *)
Theorem C07_transform_fault_errs : forall t old plan fd k,
  acc_writable (fd_acc fd) = true -> acc_readable (fd_acc fd) = true ->
  k < body_steps (transform_body t) plan 0 old fd -> plan k <> FNone ->
  result_of (run_body (transform_body t) plan 0 old fd) = ResErr.
Proof. exact transform_fault_errs. Qed.
Print Assumptions C07_transform_fault_errs.

Theorem C07_write_fault_errs : forall d plan X fd k,
  acc_writable (fd_acc fd) = true -> acc_readable (fd_acc fd) = true ->
  k < body_steps (write_body d) plan 0 X fd -> plan k <> FNone ->
  result_of (run_body (write_body d) plan 0 X fd) = ResErr.
Proof. exact write_fault_errs. Qed.
Print Assumptions C07_write_fault_errs.

(* any write-locking call on an existing file, alone, operation j suffering plan j (any plan):
   what it returns and leaves is its body run on the contents after the post-lock truncation;
   a failed truncation leaves the old contents; the lock is always released *)
Theorem C07_excl_call_faulty : forall fl b old plan,
  io_only b -> lock_mode_of_flags fl = Some LEx ->
  has_flag (strip fl openfile_strip_mask) sys_O_CREATE && has_flag (strip fl openfile_strip_mask) sys_O_EXCL = false ->
  match run_seq 0 0 (client_prog fl b) plan 0 (os_with (Some old)) with
  | (_, out, s') =>
      ltab s' 0 = [] /\ fds s' 0 = None /\
      if has_flag fl truncate_cond_mask then
        match plan 2 with
        | FNone => match run_body b plan 4 (start_contents fl old) (fresh_fd fl) with
                   | (r, X', _) => out = Finished r /\ content_of (files s' 0) = X' end
        | _ => out = Finished ResErr /\ content_of (files s' 0) = old
        end
      else match run_body b plan 3 old (fresh_fd fl) with
           | (r, X', _) => out = Finished r /\ content_of (files s' 0) = X' end
  end.
Proof. exact excl_call_faulty. Qed.
Print Assumptions C07_excl_call_faulty.

(* Write promises no rollback: success = exactly the new content; failure = the old content
   or a (possibly empty) prefix of the new content, never a mixture *)
Theorem C07_write_call_faulty : forall d old plan,
  match run_seq 0 0 (prog_of_call (CWrite d)) plan 0 (os_with (Some old)) with
  | (_, out, s') =>
      ltab s' 0 = [] /\ fds s' 0 = None /\
      ((out = Finished ResOk /\ content_of (files s' 0) = d) \/
       (out = Finished ResErr /\
        (content_of (files s' 0) = old \/ exists m, content_of (files s' 0) = firstn m d)))
  end.
Proof. exact write_call_faulty. Qed.
Print Assumptions C07_write_call_faulty.

Theorem C07_create_write_call_faulty : forall d old plan,
  match run_seq 0 0 (prog_of_call (CCreate (write_body d))) plan 0 (os_with (Some old)) with
  | (_, out, s') =>
      ltab s' 0 = [] /\ fds s' 0 = None /\
      ((out = Finished ResOk /\ content_of (files s' 0) = d) \/
       (out = Finished ResErr /\
        (content_of (files s' 0) = old \/ exists m, content_of (files s' 0) = firstn m d)))
  end.
Proof. exact create_write_call_faulty. Qed.
Print Assumptions C07_create_write_call_faulty.

Theorem C07_edit_call_faulty : forall b old plan,
  io_only b ->
  match run_seq 0 0 (prog_of_call (CEdit b)) plan 0 (os_with (Some old)),
        run_body b plan 3 old (fresh_fd edit_flags) with
  | (_, out, s'), (r, X', _) =>
      ltab s' 0 = [] /\ fds s' 0 = None /\ out = Finished r /\ content_of (files s' 0) = X'
  end.
Proof. exact edit_call_faulty. Qed.
Print Assumptions C07_edit_call_faulty.

Theorem C07_write_has_no_rollback :
  exists old d plan, single_fault plan /\
    match run_seq 0 0 (prog_of_call (CWrite d)) plan 0 (os_with (Some old)) with
    | (_, out, s') => out = Finished ResErr /\ content_of (files s' 0) <> old
    end.
Proof. exact write_has_no_rollback. Qed.
Print Assumptions C07_write_has_no_rollback.

(* ---- schedules: every interleaving of any number of clients (LinProofs / LinTheorems) *)

Theorem C07_register_invariant : forall cfg f s i,
  wf_cfg cfg -> reachable cfg f s ->
  (forall c, holds c LEx (ltab (st_os s) i) = false) ->
  content_of (files (st_os s) i) = reg s i.
Proof. exact register_invariant. Qed.
Print Assumptions C07_register_invariant.

Theorem C07_linearizable : forall cfg f s,
  wf_cfg cfg -> reachable cfg f s ->
  (forall i, legal (content_of (f i)) (lin s i) (reg s i) /\
             StronglySorted newer (lin s i) /\
             forall e, In e (lin s i) -> entry_ok cfg i e) /\
  (forall c x, returned s c x ->
     (status s c = SIdle /\ x = ResErr) \/
     (status s c = SClosing /\
      exists e t0 t1, In e (lin s (c_ino (cfg c))) /\ le_client e = c /\
        (x, le_after e) = call_spec (flags_of cfg c) (body_of cfg c) (le_before e) /\
        t_inv s c = Some t0 /\ t_resp s c = Some t1 /\ t0 <= le_time e <= t1)).
Proof. exact linearizable. Qed.
Print Assumptions C07_linearizable.

Theorem C07_real_time_order : forall cfg f s i e1 e2 t1 t2,
  wf_cfg cfg -> reachable cfg f s ->
  In e1 (lin s i) -> In e2 (lin s i) ->
  t_resp s (le_client e1) = Some t1 -> t_inv s (le_client e2) = Some t2 -> t1 < t2 ->
  le_time e1 < le_time e2.
Proof. exact real_time_order. Qed.
Print Assumptions C07_real_time_order.

Theorem C07_read_complete : forall cfg f s c v,
  wf_cfg cfg -> reachable cfg f s ->
  c_call (cfg c) = CRead -> returned s c (ResData v) ->
  let i := c_ino (cfg c) in
  exists e, In e (lin s i) /\ le_client e = c /\ le_before e = v /\ le_after e = v /\
    (v = content_of (f i) \/
     exists w, In w (lin s i) /\ is_writer cfg w /\ le_time w < le_time e /\ le_after w = v /\
       snd (call_spec (flags_of cfg (le_client w)) (body_of cfg (le_client w)) (le_before w)) = v).
Proof. exact read_complete. Qed.
Print Assumptions C07_read_complete.

Theorem C07_no_stale_read : forall cfg f s c v w tw tc,
  wf_cfg cfg -> reachable cfg f s ->
  c_call (cfg c) = CRead -> returned s c (ResData v) ->
  In w (lin s (c_ino (cfg c))) -> is_writer cfg w ->
  t_resp s (le_client w) = Some tw -> t_inv s c = Some tc -> tw < tc ->
  exists e, In e (lin s (c_ino (cfg c))) /\ le_client e = c /\ le_before e = v /\
            le_time w < le_time e.
Proof. exact no_stale_read. Qed.
Print Assumptions C07_no_stale_read.

Theorem C07_write_effect : forall cfg f s c d,
  wf_cfg cfg -> reachable cfg f s ->
  c_call (cfg c) = CWrite d -> returned s c ResOk ->
  exists e, In e (lin s (c_ino (cfg c))) /\ le_client e = c /\ le_after e = d.
Proof. exact write_effect. Qed.
Print Assumptions C07_write_effect.

Theorem C07_transform_effect : forall cfg f s c t x,
  wf_cfg cfg -> reachable cfg f s ->
  c_call (cfg c) = CTransform t -> returned s c x -> status s c = SClosing ->
  exists e, In e (lin s (c_ino (cfg c))) /\ le_client e = c /\
    match t (le_before e) with
    | Some new => x = ResOk /\ le_after e = new
    | None => x = ResErr /\ le_after e = le_before e
    end.
Proof. exact transform_effect. Qed.
Print Assumptions C07_transform_effect.

Theorem C07_no_lost_update : forall cfg f s i g,
  wf_cfg cfg -> reachable cfg f s ->
  (forall c, c_ino (cfg c) = i ->
     c_call (cfg c) = CRead \/ c_call (cfg c) = CTransform (fun b => Some (g b))) ->
  reg s i = Nat.iter (writers cfg (lin s i)) g (content_of (f i)).
Proof. exact no_lost_update. Qed.
Print Assumptions C07_no_lost_update.

Theorem C07_no_lost_update_contents : forall cfg f s i g,
  wf_cfg cfg -> reachable cfg f s ->
  (forall c, c_ino (cfg c) = i ->
     c_call (cfg c) = CRead \/ c_call (cfg c) = CTransform (fun b => Some (g b))) ->
  (forall c, holds c LEx (ltab (st_os s) i) = false) ->
  content_of (files (st_os s) i) = Nat.iter (writers cfg (lin s i)) g (content_of (f i)).
Proof. exact no_lost_update_contents. Qed.
Print Assumptions C07_no_lost_update_contents.

(* each client contributes at most one entry to the log, a completed call exactly one *)
Theorem C07_one_entry_per_client : forall cfg f s c i,
  wf_cfg cfg -> reachable cfg f s ->
  cnt c (lin s i) <= 1 /\ (i <> c_ino (cfg c) -> cnt c (lin s i) = 0).
Proof. exact one_entry_per_client. Qed.
Print Assumptions C07_one_entry_per_client.

Theorem C07_completed_call_one_entry : forall cfg f s c x,
  wf_cfg cfg -> reachable cfg f s -> returned s c x -> status s c = SClosing ->
  cnt c (lin s (c_ino (cfg c))) = 1.
Proof. exact completed_call_one_entry. Qed.
Print Assumptions C07_completed_call_one_entry.

Theorem C07_no_lost_update_exact : forall cfg f s i g cs,
  wf_cfg cfg -> reachable cfg f s ->
  (forall c, c_ino (cfg c) = i ->
     c_call (cfg c) = CRead \/ c_call (cfg c) = CTransform (fun b => Some (g b))) ->
  NoDup cs ->
  (forall c, In c cs -> c_ino (cfg c) = i /\ c_call (cfg c) = CTransform (fun b => Some (g b)) /\
                        returned s c ResOk) ->
  (forall c, c_ino (cfg c) = i -> c_call (cfg c) = CTransform (fun b => Some (g b)) ->
             ~ In c cs -> t_inv s c = None) ->
  reg s i = Nat.iter (length cs) g (content_of (f i)).
Proof. exact no_lost_update_exact. Qed.
Print Assumptions C07_no_lost_update_exact.

(* ---- persistent faults (Policy.v: the fault of each operation is chosen by a policy that sees
   the whole history).  The property text asks for "any SINGLE write step" — the theorems above.
   Beyond that the code guarantees the following, and not more. *)

(* a size limit L (RLIMIT_FSIZE, a quota): every write stores what fits below L and then fails,
   the rollback's writes too — all-or-nothing for every L and every length relation *)
Theorem C07_transform_limit_atomic : forall t old L h fd,
  rwfd fd ->
  match run_body_pol (transform_body t) (limit_pol L) h old fd with
  | (r, X, _) => (r = ResOk /\ t old = Some X) \/ (r = ResErr /\ X = old)
  end.
Proof. exact transform_limit_atomic. Qed.
Print Assumptions C07_transform_limit_atomic.

Theorem C07_transform_call_limit_atomic : forall t old L,
  match run_pol 0 0 (prog_of_call (CTransform t)) (limit_pol L) [] (os_with (Some old)) with
  | (_, out, s') =>
      fds s' 0 = None /\ (forall k, holds 0 k (ltab s' 0) = false) /\
      ((out = Finished ResOk /\ t old = Some (content_of (files s' 0))) \/
       (out = Finished ResErr /\ content_of (files s' 0) = old))
  end.
Proof. exact transform_call_limit_atomic. Qed.
Print Assumptions C07_transform_call_limit_atomic.

(* every write fails outright, the truncations do whatever they like: all-or-nothing *)
Theorem C07_transform_no_write_atomic : forall t old pol h fd,
  rwfd fd -> writes_always_fail pol ->
  match run_body_pol (transform_body t) pol h old fd with
  | (r, X, _) => (r = ResOk /\ t old = Some X) \/ (r = ResErr /\ X = old)
  end.
Proof. exact transform_no_write_atomic. Qed.
Print Assumptions C07_transform_no_write_atomic.

(* ANY policy: an error return never loses bytes — the file is at least as long as before and the
   old bytes beyond the new length are intact (write first, truncate last) *)
Theorem C07_transform_err_keeps_old_tail : forall t old pol h fd,
  rwfd fd ->
  match run_body_pol (transform_body t) pol h old fd with
  | (ResErr, X, _) =>
      length old <= length X /\
      forall new, t old = Some new ->
        forall i, length new <= i -> i < length old -> nth i X x00 = nth i old x00
  | _ => True
  end.
Proof. exact transform_err_keeps_old_tail. Qed.
Print Assumptions C07_transform_err_keeps_old_tail.

Theorem C07_transform_call_err_keeps_old_tail : forall t old pol,
  io_faults_only pol ->
  match run_pol 0 0 (prog_of_call (CTransform t)) pol [] (os_with (Some old)) with
  | (_, Finished ResErr, s') =>
      let X := content_of (files s' 0) in
      length old <= length X /\
      forall new, t old = Some new ->
        forall j, length new <= j -> j < length old -> nth j X x00 = nth j old x00
  | _ => True
  end.
Proof. exact transform_call_err_keeps_old_tail. Qed.
Print Assumptions C07_transform_call_err_keeps_old_tail.

(* but all-or-nothing does NOT hold under arbitrary persistent faults: the tail of a growing
   Transform is written, then every write fails — the file is left as old ++ tail of new *)
Theorem C07_transform_persistent_not_atomic :
  exists t old pol, rwfd (fresh_fd edit_flags) /\
    match run_body_pol (transform_body t) pol [] old (fresh_fd edit_flags) with
    | (r, X, _) => r = ResErr /\ X <> old /\ t old <> Some X /\ X = old ++ [x7a; x77]
    end.
Proof. exact transform_persistent_not_atomic. Qed.
Print Assumptions C07_transform_persistent_not_atomic.

(* "applies its function to the latest contents and publishes the result": for EVERY result value
   (the empty one included) a fault-free Transform returns nil and the file holds it *)
Theorem C07_transform_publishes_any_result : forall t old new h fd,
  rwfd fd -> t old = Some new ->
  match run_body_pol (transform_body t) no_fault_pol h old fd with
  | (r, X, _) => r = ResOk /\ X = new
  end.
Proof. exact transform_publishes_any_result. Qed.
Print Assumptions C07_transform_publishes_any_result.

Theorem C07_transform_call_publishes : forall t old new,
  t old = Some new ->
  match run_pol 0 0 (prog_of_call (CTransform t)) no_fault_pol [] (os_with (Some old)) with
  | (_, out, s') =>
      out = Finished ResOk /\ content_of (files s' 0) = new /\
      fds s' 0 = None /\ (forall k, holds 0 k (ltab s' 0) = false)
  end.
Proof. exact transform_call_publishes. Qed.
Print Assumptions C07_transform_call_publishes.

(* Write with any content reader, any I/O policy: nil => exactly what the reader delivered and the
   reader did not fail; error => the old contents or a prefix of what the reader delivered *)
Theorem C07_writer_call_faulty : forall chunks rerr old pol,
  io_faults_only pol ->
  match run_pol 0 0 (prog_of_call (writer_call chunks rerr)) pol [] (os_with (Some old)) with
  | (_, out, s') =>
      fds s' 0 = None /\ (forall k, holds 0 k (ltab s' 0) = false) /\
      ((out = Finished ResOk /\ rerr = false /\ content_of (files s' 0) = concat chunks) \/
       (out = Finished ResErr /\
        (content_of (files s' 0) = old \/ exists m, content_of (files s' 0) = firstn m (concat chunks))))
  end.
Proof. exact writer_call_faulty. Qed.
Print Assumptions C07_writer_call_faulty.

(* the policy semantics gives the position plans of the theorems above as a special case *)
Theorem C07_policies_extend_plans : forall p plan h b fd,
  run_body_pol p (pol_of_plan plan) h b fd = run_body p plan (length h) b fd.
Proof. exact run_body_pol_plan. Qed.
Print Assumptions C07_policies_extend_plans.

(* ---- files that do not exist yet (LinFresh.v): instances of the schedule theorems for the calls
   that create the file *)

(* Transform opens with Edit's flags: it creates, and it never truncates *)
Theorem C07_transform_creates_without_truncating : forall t b,
  has_flag (flags_of_call (CTransform t)) sys_O_CREATE = true /\
  has_flag (flags_of_call (CTransform t)) sys_O_TRUNC = false /\
  has_flag (flags_of_call (CTransform t)) truncate_cond_mask = false /\
  start_contents (flags_of_call (CTransform t)) b = b.
Proof. exact transform_creates_without_truncating. Qed.
Print Assumptions C07_transform_creates_without_truncating.

(* Transforms racing on a file that does not exist when they start lose nothing *)
Theorem C07_no_lost_update_new_file : forall cfg f s i g cs,
  wf_cfg cfg -> reachable cfg f s -> f i = None ->
  (forall c, c_ino (cfg c) = i ->
     c_call (cfg c) = CRead \/ c_call (cfg c) = CTransform (fun b => Some (g b))) ->
  NoDup cs ->
  (forall c, In c cs -> c_ino (cfg c) = i /\ c_call (cfg c) = CTransform (fun b => Some (g b)) /\
                        returned s c ResOk) ->
  (forall c, c_ino (cfg c) = i -> c_call (cfg c) = CTransform (fun b => Some (g b)) ->
             ~ In c cs -> t_inv s c = None) ->
  reg s i = Nat.iter (length cs) g [].
Proof. exact no_lost_update_new_file. Qed.
Print Assumptions C07_no_lost_update_new_file.

(* ------------------------------------------------------------------------------------------------
   The SOURCE, translated (see the same heading in C06.v): Read, Write and Transform of
   Gen/LockedFileSrc.v -- Go's lockedfile.go translated on every run over an abstract operating
   system -- are the program terms the theorems above speak about, for every operating system
   (record os_ops), every world, every argument, every fuel >= 1. *)
From Coq Require Import ZArith.
From GI Require Import Lib.GoSem Lib.GoSemWorld.
From GI Require Import LockedFile.LockedFileA LockedFile.Policy LockedFile.PolicyCall.
From GI Require Import LockedFile.SrcLib Gen.LockedFileSrc LockedFile.SrcFacts LockedFile.SrcModel LockedFile.SrcTheorems.
Import GoNotations.
Local Open Scope go_scope.

Theorem C07_source_Read : forall OS : os_ops, unlock_no_eintr OS ->
  forall a : attr, stat_static OS (a_regular a) ->
  forall fuel w name f0 h, 1 <= fuel ->
  (x <- lf_Read OS fuel w name ;; match x with (w', b, e) => Ok (w', result_of_data b e) end) =
  (x <- run_prog OS name 0 fuel (prog_of_call_a a CRead) f0 w h WNil ;; Ok (run_out OS x)).
Proof. exact Read_eq. Qed.
Print Assumptions C07_source_Read.

(* Write with any content reader (the chunks it delivers, the error it ends with): the program
   of the model's writer_call with the close part that hands back the error of Close when the
   copy succeeded (SrcFacts.close_part_w; same operations as close_part: next theorems) *)
Theorem C07_source_Write : forall OS : os_ops, unlock_no_eintr OS ->
  forall a : attr, stat_static OS (a_regular a) ->
  forall fuel w name chunks rerr perm f0 h, 1 <= fuel ->
  (x <- lf_Write OS fuel w name (chunks, rerr) perm ;; match x with (w', e) => Ok (w', result_of_err e) end) =
  (x <- run_prog OS name perm fuel (write_prog_a a chunks (negb (werr_is_nil rerr))) f0 w h WNil ;; Ok (run_out OS x)).
Proof. exact Write_eq. Qed.
Print Assumptions C07_source_Write.

Theorem C07_source_Write_ops_are_writer_call : forall OS : os_ops, unlock_no_eintr OS ->
  forall a : attr, stat_static OS (a_regular a) ->
  forall path perm fuel chunks rerr f0 w h e,
  (x <- run_prog OS path perm fuel (write_prog_a a chunks rerr) f0 w h e ;; Ok (fst (run_out OS x))) =
  (x <- run_prog OS path perm fuel (prog_of_call_a a (writer_call chunks rerr)) f0 w h e ;; Ok (fst (run_out OS x))).
Proof. exact write_prog_world. Qed.
Print Assumptions C07_source_Write_ops_are_writer_call.

Theorem C07_source_Write_close_part : forall OS : os_ops, unlock_no_eintr OS ->
  forall path perm fuel x f w h e,
  run_prog OS path perm fuel (close_part_w x) f w h e =
  (y <- run_prog OS path perm fuel (close_part x) f w h e ;;
   match y with (w', f', h', e', _) =>
     Ok (w', f', h', e', close_result x (res_of_err (cl_e1 OS f w)) (res_of_err (cl_e2 OS f w))) end).
Proof. exact close_part_w_ops. Qed.
Print Assumptions C07_source_Write_close_part.

(* Transform with any function t (model_t t: the same function as the model sees it) *)
Theorem C07_source_Transform : forall OS : os_ops, unlock_no_eintr OS ->
  forall a : attr, stat_static OS (a_regular a) ->
  forall fuel w name (t : bytes -> bytes * werr) f0 h, 1 <= fuel ->
  (x <- lf_Transform OS fuel w name t ;; match x with (w', e) => Ok (w', result_of_err e) end) =
  (x <- run_prog OS name 438 fuel (prog_of_call_a a (CTransform (model_t t))) f0 w h WNil ;; Ok (run_out OS x)).
Proof. exact Transform_eq. Qed.
Print Assumptions C07_source_Transform.

(* the translated Transform run on the MODEL's operating system (SrcModel.model_ops: the OS of
   LockedFile.v under a fault policy), alone on a file holding old *)

(* a size limit L, every write storing what fits and then failing, the rollback's writes too:
   all-or-nothing, everything released *)
Theorem C07_source_transform_limit_atomic : forall (t : bytes -> bytes * werr) old L fuel name, 1 <= fuel ->
  match lf_Transform (model_ops 0 0 (limit_pol L)) fuel (os_with (Some old), []) name t with
  | Ok (w', e) =>
      fds (fst w') 0 = None /\ (forall k, holds 0 k (ltab (fst w') 0) = false) /\
      ((werr_is_nil e = true /\ model_t t old = Some (contents w')) \/
       (werr_is_nil e = false /\ contents w' = old))
  | _ => False
  end.
Proof. exact source_transform_limit_atomic. Qed.
Print Assumptions C07_source_transform_limit_atomic.

(* no faults: Transform returns nil and the file holds the function's result, whatever it is *)
Theorem C07_source_transform_publishes : forall (t : bytes -> bytes * werr) old new fuel name, 1 <= fuel ->
  model_t t old = Some new ->
  match lf_Transform (model_ops 0 0 no_fault_pol) fuel (os_with (Some old), []) name t with
  | Ok (w', e) =>
      werr_is_nil e = true /\ contents w' = new /\
      fds (fst w') 0 = None /\ (forall k, holds 0 k (ltab (fst w') 0) = false)
  | _ => False
  end.
Proof. exact source_transform_publishes. Qed.
Print Assumptions C07_source_transform_publishes.

(* ANY policy that faults file I/O only: an error return never loses bytes *)
Theorem C07_source_transform_err_keeps_old_tail : forall pol' (t : bytes -> bytes * werr) old fuel name, 1 <= fuel ->
  io_faults_only pol' ->
  match lf_Transform (model_ops 0 0 pol') fuel (os_with (Some old), []) name t with
  | Ok (w', e) =>
      werr_is_nil e = false ->
      length old <= length (contents w') /\
      forall new, model_t t old = Some new ->
        forall j, length new <= j -> j < length old -> nth j (contents w') x00 = nth j old x00
  | _ => True
  end.
Proof. exact source_transform_err_keeps_old_tail. Qed.
Print Assumptions C07_source_transform_err_keeps_old_tail.

(* the translated Transform run on the operating system of the model's faulty body semantics
   (SrcBody.body_ops plan: open, flock and close succeed; file I/O as LockedFile.io_step, the n-th
   I/O operation of the call suffering plan n): with a SINGLE faulty operation anywhere -- a failing
   write may have stored any prefix of its data -- the source's Transform is all-or-nothing *)
From GI Require Import LockedFile.SrcBody.

Theorem C07_source_transform_fault_atomic : forall (t : bytes -> bytes * werr) old plan fd fuel name, 1 <= fuel ->
  acc_writable (fd_acc fd) = true -> acc_readable (fd_acc fd) = true -> fd_off fd = 0 ->
  single_fault plan ->
  match lf_Transform (body_ops plan) fuel (old, fd, 0) name t with
  | Ok ((b', _, _), e) =>
      (werr_is_nil e = true /\ model_t t old = Some b') \/
      (werr_is_nil e = false /\ b' = old /\ (model_t t old = None \/ exists j, plan j <> FNone))
  | _ => False
  end.
Proof. exact source_transform_fault_atomic. Qed.
Print Assumptions C07_source_transform_fault_atomic.

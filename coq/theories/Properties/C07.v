(* C07 — lockedfile contents change atomically: Read/Write/Transform linearise; Transform
   rolls back.  Only the property theorems, each closed by [exact] of a lemma proved in
   LockedFile/TransformProofs.v and LockedFile/LinProofs.v, with Print Assumptions beneath. *)
From Coq Require Import List NArith.
From Coq.Strings Require Import Byte.
From GI Require Import Gen.LockedFileConsts LockedFile.LockedFile LockedFile.LockBasics
  LockedFile.LockProofs LockedFile.TransformProofs.
Import ListNotations.

(* ---- faults: every plan with at most one faulty operation (a failing write may have
   written any prefix), all old / new, all length relations *)
Theorem C07_transform_fault_atomic : forall t old plan fd,
  acc_writable (fd_acc fd) = true -> acc_readable (fd_acc fd) = true -> fd_off fd = 0 ->
  single_fault plan ->
  match run_body (transform_body t) plan 0 old fd with
  | (r, b', _) =>
      (r = ResOk /\ t old = Some b') \/
      (r = ResErr /\ b' = old /\ (t old = None \/ exists j, plan j <> FNone))
  end.
Proof. exact transform_fault_atomic. Qed.
Print Assumptions C07_transform_fault_atomic.

Theorem C07_transform_fault_atomic_at : forall t old k f,
  match run_body (transform_body t) (fault_at k f) 0 old (fresh_fd edit_flags) with
  | (r, b', _) => (r = ResOk /\ t old = Some b') \/ (r = ResErr /\ b' = old)
  end.
Proof. exact transform_fault_atomic_at. Qed.
Print Assumptions C07_transform_fault_atomic_at.

Theorem C07_transform_ok : forall t old new fd,
  acc_writable (fd_acc fd) = true -> acc_readable (fd_acc fd) = true -> fd_off fd = 0 ->
  t old = Some new ->
  match run_body (transform_body t) no_faults 0 old fd with
  | (r, b', _) => r = ResOk /\ b' = new
  end.
Proof. exact transform_ok. Qed.
Print Assumptions C07_transform_ok.

Theorem C07_transform_t_fails : forall t old fd plan,
  acc_writable (fd_acc fd) = true -> acc_readable (fd_acc fd) = true -> fd_off fd = 0 ->
  single_fault plan -> t old = None ->
  match run_body (transform_body t) plan 0 old fd with
  | (r, b', _) => r = ResErr /\ b' = old
  end.
Proof. exact transform_t_fails. Qed.
Print Assumptions C07_transform_t_fails.

(* C19 — imports.ShouldBuild and MatchFile implement Go's build-constraint rules.
   This file contains only the property theorems, each closed by [exact] of a lemma
   proved in Imports/BuildFacts.v, with Print Assumptions beneath it. *)
From Coq Require Import List Bool.
From Coq.Strings Require Import Byte.
From GI Require Import Lib.Bytes Gen.ImportsConsts Imports.Build Imports.BuildFacts.
Import ListNotations.

Theorem C19_should_build_spec : forall content tags,
  should_build content tags = Some (spec_should_build content tags).
Proof. exact should_build_spec. Qed.
Print Assumptions C19_should_build_spec.

Theorem C19_match_file_spec : forall name tags,
  match_file name tags = false <-> rejected name tags.
Proof. exact match_file_spec. Qed.
Print Assumptions C19_match_file_spec.

Theorem C19_star_accepts_all_but_ignore : forall tags,
  tags star = true ->
  (forall name, match_file name tags = true) /\
  (forall content,
     should_build content tags =
     Some (forallb (fun l => match build_options l with
                             | Some opts => existsb (fun o => forallb (star_term_ok tags) (split_on COMMA o)) opts
                             | None => true
                             end) (header content))).
Proof. exact star_accepts_all_but_ignore. Qed.
Print Assumptions C19_star_accepts_all_but_ignore.
From GI Require Import Imports.Read Imports.Scan Imports.ScanFacts.

(* ---- the consumer of MatchFile: which directory entries imports.ScanDir looks at *)
Theorem C19_scan_considers : forall tags f,
  considered tags f = true <->
  e_regular f = true /\ has_prefix skip_prefix (e_name f) = false
  /\ has_suffix go_suffix (e_name f) = true /\ ~ rejected (e_name f) tags.
Proof. exact considered_spec. Qed.
Print Assumptions C19_scan_considers.

(* an entry that is not considered contributes nothing, whatever it contains *)
Theorem C19_scan_frame_dir : forall tags f l1 l2, considered tags f = false ->
  scan_dir tags (l1 ++ f :: l2) = scan_dir tags (l1 ++ l2).
Proof. exact scan_frame_dir. Qed.
Print Assumptions C19_scan_frame_dir.
From GI Require Import Imports.SpaceTables Imports.SpaceFacts.

(* ---- bytes.TrimSpace / strings.Fields as used by the model, at rune level (white-space runes =
   the 25 code points unicode.IsSpace accepts, [space_runes]) *)

(* the model's front and back byte tables recognise exactly the UTF-8 encodings of those runes *)
Theorem C19_space_tables : forall d n,
  (space_at_front d n <-> (space_prefix d = n /\ n <> 0))
  /\ (space_at_back d n <-> (space_suffix_rev' d = n /\ n <> 0)).
Proof. intros d n. split; [apply space_prefix_spec|apply space_suffix_spec]. Qed.
Print Assumptions C19_space_tables.

(* TrimSpace: a run of white-space runes is removed at each end; the rest neither starts nor ends
   with one *)
Theorem C19_trim_space_rune_level : forall d,
  exists l t, d = l ++ trim_space d ++ t /\ spaces_only l /\ spaces_only t
              /\ (forall n, ~ space_at_front (trim_space d) n)
              /\ (forall n, ~ space_at_back (rev (trim_space d)) n).
Proof. exact trim_space_spec. Qed.
Print Assumptions C19_trim_space_rune_level.

(* Fields: white-space runes and the maximal white-space-free runs, in order *)
Theorem C19_fields_rune_level : forall d, fsplit d (fields d).
Proof. exact fields_spec. Qed.
Print Assumptions C19_fields_rune_level.
From Coq Require Import ZArith.
From GI Require Import Lib.GoSem Lib.GoSemExt Lib.GoSemExtFacts Imports.BuildGen Imports.TagRunes Imports.SrcFacts Gen.ImportsSrc.

(* ---- the Go source itself: Gen/ImportsSrc.v is imports/build.go (matchTag, matchTags,
   ShouldBuild, MatchFile) translated to Gallina by harness/go2coq on every run; the
   statements below are about those translated functions, for every input.
   [fuel] bounds loop iterations and recursion depth; Panic = a Go run-time panic. *)

(* ShouldBuild, every content and tag set: Ok of the specification read with Go's own
   rune-level tag test (range over the string, unicode.IsLetter / IsDigit from the
   toolchain's tables); hence no panic and no exhausted bound *)
Theorem C19_source_should_build_unicode : forall fuel content tags,
  length content + 2 <= fuel ->
  src_ShouldBuild fuel content tags = Ok (spec_should_build_g unicode_tag_chars content tags).
Proof. exact src_ShouldBuild_unicode. Qed.
Print Assumptions C19_source_should_build_unicode.

Theorem C19_source_should_build_total : forall fuel content tags,
  length content + 2 <= fuel ->
  src_ShouldBuild fuel content tags <> Panic /\ src_ShouldBuild fuel content tags <> OutOfFuel.
Proof. exact src_ShouldBuild_total. Qed.
Print Assumptions C19_source_should_build_total.

(* Go's tag test and the model's [tag_chars] agree wherever every byte is below 0xC9 (every
   rune below U+0240; the model's table ends at U+024F) *)
Theorem C19_source_tag_test_agrees : forall name,
  below_c9 name -> unicode_tag_chars name = tag_chars name.
Proof. exact unicode_tag_chars_below_c9. Qed.
Print Assumptions C19_source_tag_test_agrees.

(* on that domain the translated ShouldBuild is the hand-written model, failure value included,
   and C19_should_build_spec holds of the translated function *)
Theorem C19_source_should_build_eq : forall fuel content tags,
  below_c9 content -> length content + 2 <= fuel ->
  src_ShouldBuild fuel content tags = opt_res (should_build content tags).
Proof. exact src_ShouldBuild_eq. Qed.
Print Assumptions C19_source_should_build_eq.

Theorem C19_source_should_build_spec : forall fuel content tags,
  below_c9 content -> length content + 2 <= fuel ->
  src_ShouldBuild fuel content tags = Ok (spec_should_build content tags).
Proof. exact src_ShouldBuild_spec. Qed.
Print Assumptions C19_source_should_build_spec.

(* matchTag and matchTags (a recursive function: fuel bounds the depth) *)
Theorem C19_source_match_tag_eq : forall name tags want,
  src_matchTag name tags want = Ok (match_tag_g unicode_tag_chars name tags want)
  /\ (below_c9 name -> src_matchTag name tags want = Ok (match_tag name tags want)).
Proof. exact src_matchTag_both. Qed.
Print Assumptions C19_source_match_tag_eq.

Theorem C19_source_match_tags_eq : forall fuel name tags,
  length name + 1 <= fuel ->
  src_matchTags fuel name tags = Ok (option_ok_g unicode_tag_chars tags name)
  /\ (below_c9 name -> src_matchTags fuel name tags = Ok (match_tags name tags)).
Proof. exact src_matchTags_both. Qed.
Print Assumptions C19_source_match_tags_eq.

(* MatchFile, every name and tag set, no restriction (the tag test is only asked about names of
   the regenerated OS / architecture lists): the model, hence the suffix rule *)
Theorem C19_source_match_file_eq : forall name tags,
  src_MatchFile name tags = Ok (match_file name tags).
Proof. exact src_MatchFile_eq. Qed.
Print Assumptions C19_source_match_file_eq.

Theorem C19_source_match_file_spec : forall name tags,
  src_MatchFile name tags = Ok false <-> rejected name tags.
Proof. exact src_MatchFile_spec. Qed.
Print Assumptions C19_source_match_file_spec.

Theorem C19_source_star : forall tags, tags star = true ->
  (forall name, src_MatchFile name tags = Ok true) /\
  (forall fuel content, below_c9 content -> length content + 2 <= fuel ->
     src_ShouldBuild fuel content tags =
     Ok (forallb (fun l => match build_options l with
                           | Some opts => existsb (fun o => forallb (star_term_ok tags) (split_on COMMA o)) opts
                           | None => true
                           end) (header content))).
Proof. exact src_star. Qed.
Print Assumptions C19_source_star.

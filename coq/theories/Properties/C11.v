(* C11 — concurrent cache users never observe corrupt or foreign data.
   Only the property theorems, each closed by [exact] of a lemma proved in Cache/CacheConcFacts.v.
   H: the hash; U: the contents; PS id d tm: "some Put of the system (or of whatever built the
   initial store) stores d under id with timestamp tm". *)
From Coq Require Import List ZArith.
From Coq.Strings Require Import Byte.
From GI Require Import Lib.Bytes Gen.CacheConsts Cache.CacheEntry Cache.Cache Cache.CacheSeqFacts
  Cache.CacheFault Cache.CacheFaultFacts Cache.CacheConc Cache.CacheConcFacts Cache.CacheReent Cache.CacheReentFacts Cache.CacheReentConcFacts.
Import ListNotations.

(* for all clients, all call lists (Puts of PS, lookups), all schedules, all torn views *)
Theorem C11_conc_I1 : forall H U PS, C11_hyps H U PS ->
  forall callss fs0 sched,
  Jc H U PS (init_sys fs0) -> Forall (Forall (call_ok PS)) callss ->
  let s := snd (conc_run H callss fs0 sched) in
  I1 H U (sfiles s) /\ (forall id c, sfiles s (IdxP id) = Some c -> good_idx H PS (sfiles s) id c).
Proof. exact conc_I1_hyps. Qed.
Print Assumptions C11_conc_I1.

Theorem C11_quiescent_all_readable : forall H U PS, C11_hyps H U PS ->
  forall callss fs0 sched,
  Jc H U PS (init_sys fs0) -> Forall (Forall (call_ok PS)) callss ->
  let st := conc_run H callss fs0 sched in
  finished (fst st) = true ->
  forall calls id chunks tm, In calls callss -> In (CPut id chunks tm) calls ->
  exists d tm', PS id d tm' /\
    get_bytes H (sfiles (snd st)) id = Found d (H d) (Z.of_nat (length d)) tm' /\
    get_file (sfiles (snd st)) id = Found (DatP (H d)) (H d) (Z.of_nat (length d)) tm'.
Proof. exact quiescent_all_readable_hyps. Qed.
Print Assumptions C11_quiescent_all_readable.

Theorem C11_stored_id_readable_in_every_state : forall H U PS, C11_hyps H U PS ->
  forall callss fs0 sched id,
  Jc H U PS (init_sys fs0) -> Forall (Forall (call_ok PS)) callss ->
  idx_nonempty id (init_sys fs0) ->
  let s := snd (conc_run H callss fs0 sched) in
  exists d tm', PS id d tm' /\
    get_bytes H (sfiles s) id = Found d (H d) (Z.of_nat (length d)) tm' /\
    get_file (sfiles s) id = Found (DatP (H d)) (H d) (Z.of_nat (length d)) tm'.
Proof. exact restore_invisible_partial_hyps. Qed.
Print Assumptions C11_stored_id_readable_in_every_state.

Theorem C11_lookup_in_every_state_is_some_put : forall H U PS, C11_hyps H U PS ->
  forall callss fs0 sched id d out size tm,
  Jc H U PS (init_sys fs0) -> Forall (Forall (call_ok PS)) callss ->
  let s := snd (conc_run H callss fs0 sched) in
  get_bytes H (sfiles s) id = Found d out size tm ->
  exists tm', PS id d tm' /\ out = H d /\ size = Z.of_nat (length d).
Proof. exact lookup_is_some_put_partial_hyps. Qed.
Print Assumptions C11_lookup_in_every_state_is_some_put.

(* every completed Put has succeeded (no Put fails or misses because of the others) *)
Theorem C11_puts_succeed : forall H U PS, C11_hyps H U PS ->
  forall callss fs0 sched,
  Jc H U PS (init_sys fs0) -> Forall (Forall (call_ok PS)) callss ->
  sinv (Jc H U PS) (Gc H U PS) (post H) (call_ok PS) callss (conc_run H callss fs0 sched).
Proof. exact conc_sound_hyps. Qed.
Print Assumptions C11_puts_succeed.

(* a GetBytes that is itself interleaved, operation by operation, with any writers and served
   torn views returns only bytes that a Put stored for that very id, with matching hash *)
Theorem C11_lookup_is_some_put : forall H U PS, C11_hyps H U PS -> lookup_hyps H U ->
  forall callss fs0 sched,
  Jc H U PS (init_sys fs0) -> Forall (Forall (call_ok PS)) callss ->
  forall i calls cl k id d out size tm,
  nth_error callss i = Some calls -> nth_error (fst (conc_run H callss fs0 sched)) i = Some cl ->
  nth_error calls k = Some (CGetBytes id) -> nth_error (results cl) k = Some (XBytes (Found d out size tm)) ->
  out = H d /\ exists tm', PS id d tm'.
Proof. exact lookup_is_some_put_hyps. Qed.
Print Assumptions C11_lookup_is_some_put.

(* restore_invisible: an id stored beforehand whose Puts all carry the same content d0 (with
   19-digit timestamps): every GetBytes and every GetFile of it, interleaved operation by
   operation with any writers and served torn views of the entry being rewritten, finds d0 *)
Theorem C11_restore_invisible : forall H U PS, C11_hyps H U PS ->
  forall rid d0, (forall d tm, PS rid d tm -> d = d0 /\ (10 ^ 18 <= tm < 2 * 10 ^ 18)%Z) -> U d0 ->
  forall callss fs0 sched,
  Jc H U PS (init_sys fs0) -> Forall (Forall (call_ok PS)) callss ->
  idx_nonempty rid (init_sys fs0) ->
  forall i calls cl k r,
  nth_error callss i = Some calls -> nth_error (fst (conc_run H callss fs0 sched)) i = Some cl ->
  nth_error (results cl) k = Some r ->
  (nth_error calls k = Some (CGetBytes rid) -> exists l, r = XBytes l /\ found_bytes H d0 l) /\
  (nth_error calls k = Some (CGetFile rid) -> exists l, r = XFile l /\ found_file H d0 l).
Proof. exact restore_invisible_hyps. Qed.
Print Assumptions C11_restore_invisible.

(* what GetFile guarantees under concurrency: the named file holds exactly a content some Put
   stored for that very id, the reported OutputID is its hash and the reported size its length,
   and the file keeps holding it *)
Theorem C11_get_file_conc : forall H U PS, C11_hyps H U PS -> no_hybrid H U ->
  forall callss fs0 sched,
  Jc H U PS (init_sys fs0) -> Forall (Forall (call_ok PS)) callss ->
  forall i calls cl k id l,
  nth_error callss i = Some calls -> nth_error (fst (conc_run H callss fs0 sched)) i = Some cl ->
  nth_error calls k = Some (CGetFile id) -> nth_error (results cl) k = Some (XFile l) ->
  file_post H PS id l (snd (conc_run H callss fs0 sched)).
Proof. exact get_file_conc_hyps. Qed.
Print Assumptions C11_get_file_conc.

(* a Put whose source is an in-memory reader handed over at ANY position (partly consumed, or left at
   its end by an earlier Put: a reused reader) is, in the interleaved semantics, the Put of the whole
   data: Put rewinds before each pass (regenerated flags).  Every theorem above therefore covers
   re-stores from readers that are not at their start. *)
Theorem C11_put_from_positioned_source : forall (H : bytes -> bytes) id cut s tm,
  concat (cut (ms_data s)) = ms_data s ->
  call_prog H (CPutR id (reader_of_memsrc s cut) tm) = call_prog H (CPut id (cut (ms_data s)) tm).
Proof. exact call_put_positioned. Qed.
Print Assumptions C11_put_from_positioned_source.

(* a call made by the SOURCE READER of a Put while that Put is in progress (Cache/CacheReent.v: before
   the n-th write to the output file, or in the hash pass before the first operation) is a run of the
   interleaved semantics above: two clients, the Put and the inner call, under a schedule with untorn
   views that ends with both finished, the same files and the same two results.  Every theorem of
   this file therefore covers lookups (and Puts) issued from inside a Put. *)
Theorem C11_call_inside_put_is_a_schedule : forall (H : bytes -> bytes) id chunks tm c n fs fs' r b,
  put_cb H id chunks tm c (CbWrite n) fs = (fs', r, Some b) ->
  exists sched, untorn sched /\
    let st := run_conc H sched ([start H [CPut id chunks tm]; start H [c]], init_sys fs) in
    finished (fst st) = true /\ sfiles (snd st) = fs' /\ map results (fst st) = [[XPut r]; [b]].
Proof. exact put_cb_is_a_schedule. Qed.
Print Assumptions C11_call_inside_put_is_a_schedule.

Theorem C11_call_before_put_is_a_schedule : forall (H : bytes -> bytes) id chunks tm c fs fs' r b,
  put_cb H id chunks tm c CbBefore fs = (fs', r, Some b) ->
  exists sched, untorn sched /\
    let st := run_conc H sched ([start H [CPut id chunks tm]; start H [c]], init_sys fs) in
    finished (fst st) = true /\ sfiles (snd st) = fs' /\ map results (fst st) = [[XPut r]; [b]].
Proof. exact put_cb_before_is_a_schedule. Qed.
Print Assumptions C11_call_before_put_is_a_schedule.

(* ------------------------------------------------------------------ *)
(* The programs whose interleavings the theorems above quantify over are what the source does:
   Cache.Get / GetBytes and Cache.putIndexEntry, WHOLE functions translated in world mode
   (Gen/CacheWorldSrc.v: every operating-system call an uninterpreted operation on an abstract
   world), equal run_prog of get_prog / get_bytes_prog / put_index_body for every world and every
   behaviour of the operations (premises: SrcWorld.read_contract, always_fresh). *)
From GI Require Import Lib.GoSemWorld Lib.GoSemWorldVal Cache.SrcLib Cache.SrcWorld Gen.CacheWorldSrc Cache.SrcWorldFacts Cache.SrcWorldGet.

Theorem C11_source_world_get : forall (OS : os_ops), read_contract OS -> always_fresh OS ->
  forall fuel (w : World OS) (c : cw_Cache) (id : bytes) h o,
  length id = 32%nat -> (21 <= fuel)%nat ->
  match run_prog OS (cw_Cache_dir c) (get_prog id) (w, h, o) with
  | (st, r) =>
      exists entry err,
        cw_Cache_Get OS false fuel w c id = GoSem.Ok (st_world OS st, c, entry, err) /\ get_rel r entry err
        /\ match r with Some (out, _, _) => length out = 32%nat | None => True end
  end.
Proof. exact cw_Get_eq. Qed.
Print Assumptions C11_source_world_get.

Theorem C11_source_world_get_bytes : forall (OS : os_ops) (H : bytes -> bytes), read_contract OS -> always_fresh OS ->
  forall fuel (w : World OS) (c : cw_Cache) (id : bytes) h o,
  length id = 32%nat -> (21 <= fuel)%nat ->
  match run_prog OS (cw_Cache_dir c) (get_bytes_prog H id) (w, h, o) with
  | (st, r) =>
      exists data entry err,
        cw_Cache_GetBytes OS H false fuel w c id = GoSem.Ok (st_world OS st, c, data, entry, err)
        /\ get_bytes_rel r data entry err
  end.
Proof. exact cw_GetBytes_eq. Qed.
Print Assumptions C11_source_world_get_bytes.

Theorem C11_source_world_put_index_entry :
  forall (OS : os_ops) (rh : bytes -> bytes) fuel (w : World OS) (c : cw_Cache) (id out : bytes) (size : Z)
         (allow : bool) (h : Handle OS) (o : bool),
  id <> [] -> (0 <= size)%Z ->
  let tm := go_time_UnixNano (op_time_now OS w) in
  match run_prog OS (cw_Cache_dir c) (put_index_body id out (Z.to_nat size) tm) (w, h, o) with
  | (st, ok) =>
      exists err,
        cw_Cache_putIndexEntry OS false rh fuel w c id out size allow = GoSem.Ok (st_world OS st, c, err)
        /\ werr_is_nil err = ok
  end.
Proof. exact cw_putIndexEntry_eq. Qed.
Print Assumptions C11_source_world_put_index_entry.

(* C05 — cache returns exactly what was stored, or not-found, never other bytes.
   Only the property theorems, each closed by [exact] of a lemma proved in Cache/…Facts.v. *)
From Coq Require Import List ZArith.
From Coq.Strings Require Import Byte.
From GI Require Import Lib.Bytes Gen.CacheConsts Cache.CacheEntry Cache.CacheEntryFacts Cache.Cache Cache.CacheSeqFacts
  Cache.CacheFault Cache.CacheHolds Cache.CacheHoldsFacts Cache.CacheFd Cache.CacheFdFacts Cache.CacheHash Cache.CacheHashFacts.
Import ListNotations.

Theorem C05_entry_roundtrip : forall id out size tm,
  length id = hash_size_n -> length out = hash_size_n ->
  (0 <= size < int64_lim)%Z -> (0 <= tm < int64_lim)%Z ->
  parse_entry (encode_entry id out size tm) id = Some (out, size, tm).
Proof. exact entry_roundtrip. Qed.
Print Assumptions C05_entry_roundtrip.

Theorem C05_parse_entry_strict : forall e id out size tm,
  parse_entry e id = Some (out, size, tm) -> entry_wf e id out size tm.
Proof. exact parse_entry_strict. Qed.
Print Assumptions C05_parse_entry_strict.

Theorem C05_get_bytes_sound : forall (H : bytes -> bytes) fs id,
  match get_bytes H fs id with
  | NotFound => True
  | Found d out size tm => H d = out /\ get fs id = Some (out, size, tm)
  end.
Proof. exact get_bytes_sound. Qed.
Print Assumptions C05_get_bytes_sound.

Theorem C05_get_file_sound : forall fs id,
  match get_file fs id with
  | NotFound => True
  | Found p out size tm =>
      p = DatP out /\ get fs id = Some (out, size, tm) /\
      exists c, fst (run_seq (get_file_prog id) fs) p = Some c /\ Z.of_nat (length c) = size
  end.
Proof. exact get_file_sound. Qed.
Print Assumptions C05_get_file_sound.

Theorem C05_lookups_pure : forall (H : bytes -> bytes) fs id,
  fst (run_seq (get_prog id) fs) = fs /\ fst (run_seq (get_file_prog id) fs) = fs /\
  fst (run_seq (get_bytes_prog H id) fs) = fs.
Proof. exact lookups_pure. Qed.
Print Assumptions C05_lookups_pure.

Theorem C05_put_get : forall (H : bytes -> bytes),
  (forall x, length (H x) = hash_size_n) ->
  forall chunks fs id tm,
  let d := concat chunks in
  length id = hash_size_n ->
  (0 <= tm < int64_lim)%Z -> (Z.of_nat (length d) < int64_lim)%Z ->
  (forall c, fs (DatP (H d)) = Some c -> H c = H d -> c = d) ->
  exists fs',
    put H fs id (honest_reader chunks) tm = (fs', PutOk (H d) (length d)) /\
    get_bytes H fs' id = Found d (H d) (Z.of_nat (length d)) tm /\
    get_file fs' id = Found (DatP (H d)) (H d) (Z.of_nat (length d)) tm /\
    fs' (DatP (H d)) = Some d.
Proof. exact put_get. Qed.
Print Assumptions C05_put_get.

Theorem C05_lookup_frame : forall (H : bytes -> bytes) fs id id' rd tm,
  id' <> id ->
  (forall out size tm0, get fs id = Some (out, size, tm0) -> out <> H (rd_pass1 rd)) ->
  let fs' := fst (put H fs id' rd tm) in
  get fs' id = get fs id /\ get_bytes H fs' id = get_bytes H fs id /\ get_file fs' id = get_file fs id.
Proof. exact lookup_frame. Qed.
Print Assumptions C05_lookup_frame.

Theorem C05_history_sound : forall (H : bytes -> bytes) ops fs n id,
  let s := history_run H (firstn n ops) fs in bytes_ok H s id /\ file_ok s id.
Proof. exact history_sound. Qed.
Print Assumptions C05_history_sound.

Theorem C05_put_get_persists : forall (H : bytes -> bytes) ops fs id d out size tm,
  get_bytes H fs id = Found d out size tm ->
  Forall (harmless H id out) ops ->
  let fs' := history_run H ops fs in
  get_bytes H fs' id = Found d out size tm /\ get_file fs' id = get_file fs id.
Proof. exact put_get_persists. Qed.
Print Assumptions C05_put_get_persists.

Theorem C05_path_name_inj : forall p q, path_name p = path_name q -> p = q.
Proof. exact path_name_inj. Qed.
Print Assumptions C05_path_name_inj.

(* the executable forms the runner evaluates on every case *)
Theorem C05_holds_on_true : forall (H : bytes -> bytes) fs ids, c05_holds_on H fs ids = true.
Proof. exact c05_holds_on_true. Qed.
Print Assumptions C05_holds_on_true.

Theorem C05_put_holds_on_true : forall (H : bytes -> bytes),
  (forall x, length (H x) = hash_size_n) ->
  forall chunks fs id tm,
  let d := concat chunks in
  length id = hash_size_n ->
  (0 <= tm < int64_lim)%Z -> (Z.of_nat (length d) < int64_lim)%Z ->
  (forall c, fs (DatP (H d)) = Some c -> H c = H d -> c = d) ->
  c05_put_holds_on H fs id chunks tm = true.
Proof. exact c05_put_holds_on_true. Qed.
Print Assumptions C05_put_holds_on_true.

(* descriptors: whatever the files hold and whatever its operations answer, a lookup that returns has
   closed every file it opened -- lookups cannot use up the descriptors later lookups need *)
Theorem C05_lookups_fd_balanced : forall (H : bytes -> bytes) id b fs,
  (fd_leak b (get_prog id) fs = Some 0%nat \/ fd_leak b (get_prog id) fs = None) /\
  (fd_leak b (get_file_prog id) fs = Some 0%nat \/ fd_leak b (get_file_prog id) fs = None) /\
  (fd_leak b (get_bytes_prog H id) fs = Some 0%nat \/ fd_leak b (get_bytes_prog H id) fs = None).
Proof. exact lookups_fd_balanced. Qed.
Print Assumptions C05_lookups_fd_balanced.

(* every program of the API closes what it opens whatever results its operations deliver *)
Theorem C05_api_closes_all : forall (H : bytes -> bytes) id rd chunks tm out,
  closes_all [] (put_prog H id rd tm) /\ closes_all [] (put_bytes_prog H id chunks tm) /\
  closes_all [] (get_prog id) /\ closes_all [] (get_file_prog id) /\ closes_all [] (get_bytes_prog H id) /\
  closes_all [] (output_file_prog out).
Proof.
  intros H id rd chunks tm out.
  exact (conj (closes_put H id rd tm) (conj (closes_put_bytes H id chunks tm) (conj (closes_get id)
    (conj (closes_get_file id) (conj (closes_get_bytes H id) (closes_output_file out)))))).
Qed.
Print Assumptions C05_api_closes_all.

(* PutBytes then lookups: PutBytes is Put from an in-memory source *)
Theorem C05_put_bytes_get : forall (H : bytes -> bytes),
  (forall x, length (H x) = hash_size_n) ->
  forall chunks fs id tm,
  let d := concat chunks in
  length id = hash_size_n ->
  (0 <= tm < int64_lim)%Z -> (Z.of_nat (length d) < int64_lim)%Z ->
  (forall c, fs (DatP (H d)) = Some c -> H c = H d -> c = d) ->
  exists fs',
    run_seq (put_bytes_prog H id chunks tm) fs = (fs', PutOk (H d) (length d)) /\
    get_bytes H fs' id = Found d (H d) (Z.of_nat (length d)) tm /\
    get_file fs' id = Found (DatP (H d)) (H d) (Z.of_nat (length d)) tm /\
    fs' (DatP (H d)) = Some d.
Proof. exact put_get. Qed.
Print Assumptions C05_put_bytes_get.

(* ---- cache/hash.go: however the data is cut into Write calls, Hash.Sum is SHA-256 of the whole *)
Theorem C05_hash_sum_chunks : forall (H : bytes -> bytes) chunks,
  hash_sum H (fold_left hash_write chunks new_hash) = H (concat chunks).
Proof. exact hash_sum_chunks. Qed.
Print Assumptions C05_hash_sum_chunks.

(* Subkey is unambiguous: ids have a fixed length, so what is hashed determines parent and description *)
Theorem C05_subkey_inj : forall (H : bytes -> bytes) (U : bytes -> Prop),
  (forall a b, U a -> U b -> H a = H b -> a = b) ->
  forall p d p' d', length p = length p' ->
  U (subkey_preimage p d) -> U (subkey_preimage p' d') ->
  subkey H p d = subkey H p' d' -> p = p' /\ d = d'.
Proof. exact subkey_inj. Qed.
Print Assumptions C05_subkey_inj.

(* FileHash: a name not yet known is hashed from the disk; a failure is not remembered; once a name
   has a sum (computed, or set by SetFileHash) FileHash answers it whatever the disk holds by then *)
Theorem C05_file_hash_fresh : forall (H : bytes -> bytes) t disk name c,
  fh_lookup t name = None -> disk name = Some c ->
  file_hash H t disk name = (set_file_hash t name (H c), Some (H c)).
Proof. exact file_hash_fresh. Qed.
Print Assumptions C05_file_hash_fresh.

Theorem C05_file_hash_failure_not_remembered : forall (H : bytes -> bytes) t disk name,
  fh_lookup t name = None -> disk name = None -> file_hash H t disk name = (t, None).
Proof. exact file_hash_failure_not_remembered. Qed.
Print Assumptions C05_file_hash_failure_not_remembered.

Theorem C05_file_hash_twice : forall (H : bytes -> bytes) t disk disk' name t1 s,
  file_hash H t disk name = (t1, Some s) -> file_hash H t1 disk' name = (t1, Some s).
Proof. exact file_hash_twice. Qed.
Print Assumptions C05_file_hash_twice.

Theorem C05_set_then_file_hash : forall (H : bytes -> bytes) t disk name s,
  file_hash H (set_file_hash t name s) disk name = (set_file_hash t name s, Some s).
Proof. exact set_then_file_hash. Qed.
Print Assumptions C05_set_then_file_hash.

From GI Require Import Cache.CacheConc Cache.CacheReent Cache.CacheReentFacts.

(* ---- a lookup made by the source reader of a Put, while that Put is in progress (CacheReent.v): the
   Reads of the hash pass precede every file operation, the n-th Read of the copy pass precedes the
   n-th write to the output file.  Lookups leave the files alone, so the Put is not disturbed ... *)
Theorem C05_lookup_inside_put_transparent : forall (H : bytes -> bytes) id chunks tm c w fs,
  is_lookup c = true ->
  fst (put_cb H id chunks tm c w fs) = put H fs id (honest_reader chunks) tm.
Proof. exact put_cb_transparent. Qed.
Print Assumptions C05_lookup_inside_put_transparent.

(* ... it succeeds on an arbitrarily damaged store and is followed by exact lookups, whichever lookup
   its source made at whichever point ... *)
Theorem C05_lookup_inside_put_get : forall (H : bytes -> bytes),
  (forall x, length (H x) = hash_size_n) ->
  forall chunks fs id tm c w,
  let d := concat chunks in
  is_lookup c = true ->
  length id = hash_size_n ->
  (0 <= tm < int64_lim)%Z -> (Z.of_nat (length d) < int64_lim)%Z ->
  (forall c0, fs (DatP (H d)) = Some c0 -> H c0 = H d -> c0 = d) ->
  exists fs',
    fst (put_cb H id chunks tm c w fs) = (fs', PutOk (H d) (length d)) /\
    get_bytes H fs' id = Found d (H d) (Z.of_nat (length d)) tm /\
    get_file fs' id = Found (DatP (H d)) (H d) (Z.of_nat (length d)) tm /\
    fs' (DatP (H d)) = Some d.
Proof. exact put_cb_get. Qed.
Print Assumptions C05_lookup_inside_put_get.

(* ... and what the inner lookup is told is sound whatever the Put has written so far: bytes hash to
   the reported OutputID, a named file has the reported size *)
Theorem C05_lookup_inside_put_sound : forall (H : bytes -> bytes) id chunks tm c w fs b,
  is_lookup c = true ->
  snd (put_cb H id chunks tm c w fs) = Some b ->
  match b with
  | XBytes (Found d out _ _) => H d = out
  | XFile (Found p out size _) => p = DatP out /\ exists (fs1 : files) (c0 : bytes), fs1 p = Some c0 /\ Z.of_nat (length c0) = size
  | _ => True
  end.
Proof. exact put_cb_inner_sound. Qed.
Print Assumptions C05_lookup_inside_put_sound.

(* ---- the source as data plus position: Put rewinds before each pass (regenerated flags put_order_ok,
   copy_commit_ok), so a source handed over at ANY position stores the whole data ... *)
Theorem C05_put_from_any_position : forall (H : bytes -> bytes),
  (forall x, length (H x) = hash_size_n) ->
  forall cut s fs id tm,
  let d := ms_data s in
  concat (cut d) = d ->
  length id = hash_size_n ->
  (0 <= tm < int64_lim)%Z -> (Z.of_nat (length d) < int64_lim)%Z ->
  (forall c0, fs (DatP (H d)) = Some c0 -> H c0 = H d -> c0 = d) ->
  exists fs',
    put_src H fs id s cut tm = (fs', PutOk (H d) (length d)) /\
    get_bytes H fs' id = Found d (H d) (Z.of_nat (length d)) tm /\
    get_file fs' id = Found (DatP (H d)) (H d) (Z.of_nat (length d)) tm /\
    fs' (DatP (H d)) = Some d.
Proof. exact put_src_get. Qed.
Print Assumptions C05_put_from_any_position.

(* ... and the reader a Put has used, left at its end, given to Put again (any id): the whole data again *)
Theorem C05_put_reader_reuse : forall (H : bytes -> bytes),
  (forall x, length (H x) = hash_size_n) ->
  forall cut s fs id tm id' tm',
  let d := ms_data s in
  concat (cut d) = d ->
  length id = hash_size_n -> length id' = hash_size_n ->
  (0 <= tm < int64_lim)%Z -> (0 <= tm' < int64_lim)%Z -> (Z.of_nat (length d) < int64_lim)%Z ->
  (forall c0, fs (DatP (H d)) = Some c0 -> H c0 = H d -> c0 = d) ->
  exists fs' fs'',
    put_src H fs id s cut tm = (fs', PutOk (H d) (length d)) /\
    put_src H fs' id' (ms_after_put s) cut tm' = (fs'', PutOk (H d) (length d)) /\
    get_bytes H fs'' id' = Found d (H d) (Z.of_nat (length d)) tm' /\
    get_file fs'' id' = Found (DatP (H d)) (H d) (Z.of_nat (length d)) tm'.
Proof. exact put_src_reuse. Qed.
Print Assumptions C05_put_reader_reuse.

(* ---- histories that contain such Puts: inner lookups and source positions leave no trace in the
   files -- the history ends in the state of the same history with plain Puts of the whole data, so
   C05_history_sound and C05_put_get_persists cover them; in particular the lookups are sound after
   every prefix *)
Theorem C05_history_with_inner_lookups_erases : forall (H : bytes -> bytes) ops fs,
  Forall xhop_ok ops -> xhistory_run H ops fs = history_run H (map xerase ops) fs.
Proof. exact xhistory_erase. Qed.
Print Assumptions C05_history_with_inner_lookups_erases.

Theorem C05_history_with_inner_lookups_sound : forall (H : bytes -> bytes) ops fs n id,
  Forall xhop_ok ops ->
  let s := xhistory_run H (firstn n ops) fs in bytes_ok H s id /\ file_ok s id.
Proof. exact xhistory_sound. Qed.
Print Assumptions C05_history_with_inner_lookups_sound.

(* ---- on the source as translated: Gen/CacheSrc.v is made from cache/cache.go by harness/go2coq on
   every run; Cache/SrcFacts.v proves its segments equal to the codec above *)
From GI Require Import Lib.GoSem Lib.GoSemSeg Cache.SrcLib Gen.CacheSrc Cache.SrcFacts.
From GI Require CacheTrim.CacheTrim TxtarWrite.Path.

(* the statements of get between io.ReadFull and c.used, run on the buffer e ++ tail (e = the
   entrySize bytes read) with any bound >= 21 on the two padding loops: never Panic, never
   OutOfFuel; return missing(...) iff parse_entry e id = None, else hand on parse_entry's fields *)
Theorem C05_source_get_parse_eq : forall fuel id err e tail,
  length e = entry_size_n -> (21 <= fuel)%nat ->
  src_Cache_get_parse fuel id err (e ++ tail) =
  Ok match parse_entry e id with
     | None => Return (mkEntry (go_zero_array HashSize) 0 go_time_zero, true)
     | Some (out, size, tm) => Normal (false, skipn (entry_size_n - 1) e ++ tail, out, size, tm)
     end.
Proof. exact src_get_parse_eq. Qed.
Print Assumptions C05_source_get_parse_eq.

(* C05_entry_roundtrip on the translated code: what the translated fmt.Sprintf of putIndexEntry
   writes for (id, out, size, clock) is accepted by the translated parser of get for the same id,
   with exactly out, size and the clock's UnixNano *)
Theorem C05_source_entry_roundtrip : forall fuel id out size now err e tail,
  length id = hash_size_n -> length out = hash_size_n ->
  (0 <= size < int64_lim)%Z -> (0 <= go_time_UnixNano now < int64_lim)%Z -> (21 <= fuel)%nat ->
  src_Cache_putIndexEntry_entry id out size now = Ok (Normal e) ->
  src_Cache_get_parse fuel id err (e ++ tail) =
    Ok (Normal (false, [NL] ++ tail, out, size, go_time_UnixNano now)).
Proof. exact src_entry_roundtrip. Qed.
Print Assumptions C05_source_entry_roundtrip.

(* C05_parse_entry_strict on the translated code: what the translated parser lets through is a
   well-formed entry for this id *)
Theorem C05_source_parse_entry_strict : forall fuel id err e tail b r out size tm,
  length e = entry_size_n -> (21 <= fuel)%nat ->
  src_Cache_get_parse fuel id err (e ++ tail) = Ok (Normal (b, r, out, size, tm)) ->
  entry_wf e id out size tm /\ b = false /\ r = skipn (entry_size_n - 1) e ++ tail.
Proof. exact src_get_parse_strict. Qed.
Print Assumptions C05_source_parse_entry_strict.

(* ... and it rejects everything the model's parse_entry rejects *)
Theorem C05_source_parse_entry_rejects : forall fuel id err e tail,
  length e = entry_size_n -> (21 <= fuel)%nat -> parse_entry e id = None ->
  src_Cache_get_parse fuel id err (e ++ tail) =
    Ok (Return (mkEntry (go_zero_array HashSize) 0 go_time_zero, true)).
Proof. exact src_get_parse_rejects. Qed.
Print Assumptions C05_source_parse_entry_rejects.

(* the fmt.Sprintf of putIndexEntry as translated is the model's encode_entry *)
Theorem C05_source_put_entry_eq : forall id out size now,
  src_Cache_putIndexEntry_entry id out size now = Ok (Normal (encode_entry id out size (go_time_UnixNano now))).
Proof. exact src_put_entry_eq. Qed.
Print Assumptions C05_source_put_entry_eq.

(* the final return of get as translated: the decoded fields and time.Unix(0, tm) *)
Theorem C05_source_get_result : forall buf size tm, (0 <= tm < int64_lim)%Z ->
  src_Cache_get_result buf size tm = Ok (Return (mkEntry buf size (CacheTrim.time_of_ns tm), false)).
Proof. exact src_get_result_eq. Qed.
Print Assumptions C05_source_get_result.

(* fileName as translated: Join(dir, two hex digits of id[0], hex(id) ++ "-" ++ key); the last
   element is the model's path_name *)
Theorem C05_source_file_name : forall c b0 idr key,
  src_Cache_fileName_body c (b0 :: idr) key =
    Ok (Return (Path.join (Path.join (cache_dir c) (hex [b0])) (hex (b0 :: idr) ++ name_sep ++ key))).
Proof. exact src_fileName_eq. Qed.
Print Assumptions C05_source_file_name.

(* ------------------------------------------------------------------ *)
(* WHOLE FUNCTIONS of cache/cache.go translated in world mode (Gen/CacheWorldSrc.v: every
   operating-system call an uninterpreted operation of the record SrcWorld.os_ops on an abstract
   world), proved equal -- for every world and every behaviour of the operations -- to running the
   model's program terms with SrcWorld.run_prog over the same operations. *)
From GI Require Import Lib.GoSemWorld Lib.GoSemWorldVal Cache.SrcWorld Gen.CacheWorldSrc Cache.SrcWorldFacts.

(* Cache.fileName as translated is run_prog's file_name for the index entry ("a") and the output
   file ("d") of an id *)
Theorem C05_source_world_file_name : forall (c : cw_Cache) (id : bytes), id <> [] ->
  cw_Cache_fileName c id [x61] = GoSem.Ok (c, file_name (cw_Cache_dir c) (IdxP id)) /\
  cw_Cache_fileName c id [x64] = GoSem.Ok (c, file_name (cw_Cache_dir c) (DatP id)).
Proof. exact (fun c id Hne => conj (cw_fileName_idx c id Hne) (cw_fileName_dat c id Hne)). Qed.
Print Assumptions C05_source_world_file_name.

(* Cache.used as translated performs exactly the operations of the model's used_prog (Stat; Chtimes
   with two clock reads when Stat failed) when files are fresh: the world afterwards is the
   world run_prog reaches *)
Theorem C05_source_world_used : forall (OS : os_ops), always_fresh OS ->
  forall (w : World OS) (c : cw_Cache) (p : path),
  cw_Cache_used OS w c (file_name (cw_Cache_dir c) p) = GoSem.Ok (used_w OS (cw_Cache_dir c) p w, c).
Proof. exact cw_used_eq. Qed.
Print Assumptions C05_source_world_used.

(* ... where used_w is the world after used_prog, whatever follows it *)
Theorem C05_source_world_used_prog : forall (OS : os_ops) (A : Type) dir p (k : prog A) w h o,
  run_prog OS dir (used_prog p k) (w, h, o) = run_prog OS dir k (used_w OS dir p w, h, o).
Proof. exact run_used. Qed.
Print Assumptions C05_source_world_used_prog.

(* Cache.OutputFile as translated = run_prog of output_file_prog *)
Theorem C05_source_world_output_file : forall (OS : os_ops), always_fresh OS ->
  forall (w : World OS) (c : cw_Cache) (out : bytes) h o, out <> [] ->
  cw_Cache_OutputFile OS w c out =
  match run_prog OS (cw_Cache_dir c) (output_file_prog out) (w, h, o) with
  | (st, p) => GoSem.Ok (st_world OS st, c, file_name (cw_Cache_dir c) p)
  end.
Proof. exact cw_OutputFile_eq. Qed.
Print Assumptions C05_source_world_output_file.

(* Cache.get / Get as translated (verify mode off) = run_prog of the model's get_prog: Open; the
   Read calls of io.ReadFull; on a well-formed entry for this id the refresh (used) and then the
   deferred Close; otherwise Close alone; no Close after a failed Open.  A hit hands back the
   decoded entry (output id of 32 bytes), a miss the zero Entry and an entryNotFoundError.
   Premises: the contract of os.File.Read and fresh modification times (SrcWorld.v). *)
From GI Require Import Cache.SrcWorldGet.
Theorem C05_source_world_get : forall (OS : os_ops), read_contract OS -> always_fresh OS ->
  forall fuel (w : World OS) (c : cw_Cache) (id : bytes) h o,
  length id = 32%nat -> (21 <= fuel)%nat ->
  match run_prog OS (cw_Cache_dir c) (get_prog id) (w, h, o) with
  | (st, r) =>
      exists entry err,
        cw_Cache_Get OS false fuel w c id = GoSem.Ok (st_world OS st, c, entry, err) /\ get_rel r entry err
        /\ match r with Some (out, _, _) => length out = 32%nat | None => True end
  end.
Proof. exact cw_Get_eq. Qed.
Print Assumptions C05_source_world_get.

(* Cache.GetFile as translated = run_prog of get_file_prog *)
Theorem C05_source_world_get_file : forall (OS : os_ops), read_contract OS -> always_fresh OS ->
  forall fuel (w : World OS) (c : cw_Cache) (id : bytes) h o,
  size_nonneg OS -> length id = 32%nat -> (21 <= fuel)%nat ->
  match run_prog OS (cw_Cache_dir c) (get_file_prog id) (w, h, o) with
  | (st, r) =>
      exists file entry err,
        cw_Cache_GetFile OS false fuel w c id = GoSem.Ok (st_world OS st, c, file, entry, err)
        /\ get_file_rel (cw_Cache_dir c) r file entry err
  end.
Proof. exact cw_GetFile_eq. Qed.
Print Assumptions C05_source_world_get_file.

(* Cache.GetBytes as translated = run_prog of get_bytes_prog (H is sha256.Sum256) *)
Theorem C05_source_world_get_bytes : forall (OS : os_ops) (H : bytes -> bytes), read_contract OS -> always_fresh OS ->
  forall fuel (w : World OS) (c : cw_Cache) (id : bytes) h o,
  length id = 32%nat -> (21 <= fuel)%nat ->
  match run_prog OS (cw_Cache_dir c) (get_bytes_prog H id) (w, h, o) with
  | (st, r) =>
      exists data entry err,
        cw_Cache_GetBytes OS H false fuel w c id = GoSem.Ok (st_world OS st, c, data, entry, err)
        /\ get_bytes_rel r data entry err
  end.
Proof. exact cw_GetBytes_eq. Qed.
Print Assumptions C05_source_world_get_bytes.

(* C05_get_bytes_sound on the translated GetBytes, for every behaviour of the operating system
   within the two contracts: bytes handed back with a nil error hash to the output id handed back
   with them *)
Theorem C05_source_world_get_bytes_sound : forall (OS : os_ops) (H : bytes -> bytes), read_contract OS -> always_fresh OS ->
  forall fuel (w : World OS) (c : cw_Cache) (id : bytes) w' c' data entry err,
  length id = 32%nat -> (21 <= fuel)%nat ->
  cw_Cache_GetBytes OS H false fuel w c id = GoSem.Ok (w', c', data, entry, err) ->
  werr_is_nil err = true -> H data = cw_Entry_OutputID entry.
Proof. exact cw_GetBytes_sound. Qed.
Print Assumptions C05_source_world_get_bytes_sound.

(* C10 — par.Cache computes each key once and publishes the result safely.
   This file contains only the property theorems, each closed by [exact] of a lemma proved in
   Par/ParCacheBase.v / Par/ParCacheProofs.v / Par/ParExamples.v, with Print Assumptions beneath it.
   [creachable fval deps crash progs s]: s is reached from the empty cache by some interleaving of the
   threads running [progs] (lists of Do(k)/Get(k) calls), one synchronisation operation or plain
   access per step; f_k calls Do on the keys [deps k] (nested Do) and then returns [fval k] (None = nil) -- or, when
   [crash k] = true, does not return at all (it panics or calls runtime.Goexit).  Keys are natural numbers compared
   by equality; there is no bound on how many of them are in use.  Every theorem is for all [crash] unless it
   assumes (forall k, crash k = false). *)
From Coq Require Import List Arith.
From GI Require Import Gen.ParConsts Par.ParWork Par.ParCache Par.ParCacheBase Par.ParCacheProofs Par.ParExamples.
Import ListNotations.

Theorem C10_done_flag_constants : Nat.eqb 0 cache_done_test = true /\ Nat.eqb cache_done_value cache_done_test = false.
Proof. exact (conj done_zero_is_not_done done_value_is_done). Qed.
Print Assumptions C10_done_flag_constants.

Theorem C10_do_unlock_not_deferred : cache_do_deferred = 0.
Proof. exact do_unlock_not_deferred. Qed.
Print Assumptions C10_do_unlock_not_deferred.

Theorem C10_f_once_per_key : forall (fval : nat -> option nat) (deps : nat -> list nat) (crash : nat -> bool) (progs : list (list call))
    (s : cstate) (k : nat),
  creachable fval deps crash progs s -> fbegins (ents s k) <= 1 /\ fends (ents s k) <= fbegins (ents s k).
Proof. exact f_once_per_key. Qed.
Print Assumptions C10_f_once_per_key.

Theorem C10_f_exactly_once_at_end : forall (fval : nat -> option nat) (deps : nat -> list nat) (crash : nat -> bool)
    (progs : list (list call)) (s : cstate),
  (forall k : nat, crash k = false) -> creachable fval deps crash progs s -> all_idle s = true ->
  forall (p : list call) (k : nat), In p progs -> In (CDo k) p ->
  fbegins (ents s k) = 1 /\ fends (ents s k) = 1 /\ result (ents s k) = fval k.
Proof. exact f_exactly_once_at_end. Qed.
Print Assumptions C10_f_exactly_once_at_end.

Theorem C10_do_returns_f_value : forall (fval : nat -> option nat) (deps : nat -> list nat) (crash : nat -> bool) (progs : list (list call))
    (s : cstate) (t : nat) (th : thr) (k : nat) (v : option nat),
  creachable fval deps crash progs s -> nth_error (thrs s) t = Some th -> In (CDo k, v) (rets th) ->
  v = fval k /\ fbegins (ents s k) = 1 /\ fends (ents s k) = 1 /\ result (ents s k) = fval k.
Proof. exact do_returns_f_value. Qed.
Print Assumptions C10_do_returns_f_value.

Theorem C10_nested_do_returns_f_value : forall (fval : nat -> option nat) (deps : nat -> list nat) (crash : nat -> bool)
    (progs : list (list call)) (s : cstate) (t : nat) (th : thr) (k : nat) (v : option nat),
  creachable fval deps crash progs s -> nth_error (thrs s) t = Some th -> In (k, v) (nrets th) ->
  v = fval k /\ fbegins (ents s k) = 1 /\ fends (ents s k) = 1 /\ result (ents s k) = fval k.
Proof. exact nested_do_returns_f_value. Qed.
Print Assumptions C10_nested_do_returns_f_value.

Theorem C10_done_implies_deps_done : forall (fval : nat -> option nat) (deps : nat -> list nat) (crash : nat -> bool)
    (progs : list (list call)) (s : cstate) (k d : nat),
  creachable fval deps crash progs s -> isd (ents s k) = true -> In d (deps k) ->
  isd (ents s d) = true /\ fends (ents s d) = 1 /\ result (ents s d) = fval d.
Proof. exact done_implies_deps_done. Qed.
Print Assumptions C10_done_implies_deps_done.

Theorem C10_do_after_f : forall (fval : nat -> option nat) (deps : nat -> list nat) (crash : nat -> bool) (progs : list (list call))
    (s : cstate) (t : nat) (th : thr) (k : nat),
  creachable fval deps crash progs s -> nth_error (thrs s) t = Some th -> tpc th = DRead k ->
  fends (ents s k) = 1 /\ result (ents s k) = fval k /\ C (is_inf k) (thrs s) = 0.
Proof. exact do_after_f. Qed.
Print Assumptions C10_do_after_f.

Theorem C10_get_nonblocking : forall (fval : nat -> option nat) (deps : nat -> list nat) (crash : nat -> bool) (s : cstate) (t : nat) (th : thr),
  nth_error (thrs s) t = Some th -> in_get (tpc th) = true -> exists s' : cstate, cstep fval deps crash s t = Some s'.
Proof. exact get_nonblocking. Qed.
Print Assumptions C10_get_nonblocking.

Theorem C10_get_nil_or_value : forall (fval : nat -> option nat) (deps : nat -> list nat) (crash : nat -> bool) (progs : list (list call))
    (s : cstate) (t : nat) (th : thr) (k : nat) (v : option nat),
  creachable fval deps crash progs s -> nth_error (thrs s) t = Some th -> In (CGet k, v) (rets th) ->
  v = None \/ v = fval k /\ fends (ents s k) = 1.
Proof. exact get_nil_or_value. Qed.
Print Assumptions C10_get_nil_or_value.

Theorem C10_get_after_done : forall (fval : nat -> option nat) (deps : nat -> list nat) (crash : nat -> bool) (progs : list (list call))
    (s : cstate) (t : nat) (th : thr) (k : nat),
  creachable fval deps crash progs s -> isd (ents s k) = true -> nth_error (thrs s) t = Some th ->
  (tpc th = GLoad k ->
     cstep fval deps crash s t = Some (mkC (set_nth t (goto th (GLoad1 k)) (thrs s)) (ents s) (plain s))) /\
  (tpc th = GLoad1 k ->
     cstep fval deps crash s t = Some (mkC (set_nth t (goto th (GRead k)) (thrs s)) (ents s) (plain s))) /\
  (tpc th = GRead k ->
     cstep fval deps crash s t = Some (mkC (set_nth t (ret th (CGet k) (fval k)) (thrs s)) (ents s) ((t, k, false) :: plain s))).
Proof. exact get_after_done. Qed.
Print Assumptions C10_get_after_done.

Theorem C10_done_stable : forall (fval : nat -> option nat) (deps : nat -> list nat) (crash : nat -> bool) (progs : list (list call))
    (s : cstate) (t : nat) (s' : cstate) (k : nat),
  creachable fval deps crash progs s -> cstep fval deps crash s t = Some s' -> isd (ents s k) = true -> isd (ents s' k) = true.
Proof. exact done_stable. Qed.
Print Assumptions C10_done_stable.

Theorem C10_race_free : forall (fval : nat -> option nat) (deps : nat -> list nat) (crash : nat -> bool) (progs : list (list call)) (s : cstate),
  creachable fval deps crash progs s ->
  (forall (a b : nat) (tha thb : thr) (k : nat), a <> b ->
     nth_error (thrs s) a = Some tha -> nth_error (thrs s) b = Some thb ->
     plain_write k (tpc tha) = true -> plain_write k (tpc thb) = false /\ plain_read k (tpc thb) = false) /\
  wf_plain (plain s).
Proof. exact race_free. Qed.
Print Assumptions C10_race_free.

Theorem C10_no_deadlock : forall (fval : nat -> option nat) (deps : nat -> list nat) (crash : nat -> bool) (progs : list (list call))
    (L : nat -> nat), (forall k d : nat, In d (deps k) -> L d < L k) -> (forall k : nat, crash k = false) ->
  forall s : cstate, creachable fval deps crash progs s ->
  all_idle s = true \/ (exists (t : nat) (s' : cstate), cstep fval deps crash s t = Some s').
Proof. exact cache_no_deadlock. Qed.
Print Assumptions C10_no_deadlock.

Theorem C10_self_dependency_deadlocks_refuted :
  exists (deps : nat -> list nat) (progs : list (list call)) (s : cstate),
    creachable ex_fval deps ex_nocrash progs s /\ all_idle s = false /\ forall t, cstep ex_fval deps ex_nocrash s t = None.
Proof. exact self_dependency_deadlocks_refuted. Qed.
Print Assumptions C10_self_dependency_deadlocks_refuted.

Theorem C10_step_decreases : forall (fval : nat -> option nat) (deps : nat -> list nat) (crash : nat -> bool) (kc : nat -> nat),
  (forall k : nat, 13 + nested deps kc k 0 <= kc k) ->
  forall (s : cstate) (t : nat) (s' : cstate), cstep fval deps crash s t = Some s' -> psi deps kc s' < psi deps kc s.
Proof. exact psi_decreases. Qed.
Print Assumptions C10_step_decreases.

Theorem C10_schedules_finite : forall (fval : nat -> option nat) (deps : nat -> list nat) (crash : nat -> bool) (L : nat -> nat),
  (forall k d : nat, In d (deps k) -> L d < L k) ->
  forall (sch : list nat) (s s' : cstate), crun fval deps crash sch s = Some s' ->
  length sch + psi deps (kcL deps L) s' <= psi deps (kcL deps L) s.
Proof. exact cache_terminates_acyclic. Qed.
Print Assumptions C10_schedules_finite.

Theorem C10_do_terminates : forall (fval : nat -> option nat) (deps : nat -> list nat) (crash : nat -> bool) (progs : list (list call))
    (L : nat -> nat), (forall k d : nat, In d (deps k) -> L d < L k) -> (forall k : nat, crash k = false) ->
  forall s : cstate, creachable fval deps crash progs s ->
  exists (sch : list nat) (s' : cstate),
    crun fval deps crash sch s = Some s' /\ all_idle s' = true /\ length sch <= psi deps (kcL deps L) s.
Proof. exact cache_can_finish. Qed.
Print Assumptions C10_do_terminates.

Theorem C10_distinct_keys_independent : forall (fval : nat -> option nat) (deps : nat -> list nat) (crash : nat -> bool)
    (s : cstate) (t : nat) (th : thr) (s' : cstate) (k : nat),
  nth_error (thrs s) t = Some th -> cstep fval deps crash s t = Some s' ->
  pckey (tpc th) <> Some k -> (forall j : nat, ~ In (k, j) (stack th)) -> ents s' k = ents s k.
Proof. exact distinct_keys_independent. Qed.
Print Assumptions C10_distinct_keys_independent.

Theorem C10_entries_never_removed : forall (fval : nat -> option nat) (deps : nat -> list nat) (crash : nat -> bool)
    (progs : list (list call)) (s : cstate) (t : nat) (s' : cstate) (k : nat),
  creachable fval deps crash progs s -> cstep fval deps crash s t = Some s' ->
  (present (ents s k) = true -> present (ents s' k) = true) /\
  (isd (ents s k) = true -> isd (ents s' k) = true /\ result (ents s' k) = result (ents s k) /\
                           fbegins (ents s' k) = 1 /\ fends (ents s' k) = 1).
Proof. exact entries_never_removed. Qed.
Print Assumptions C10_entries_never_removed.

Theorem C10_crashed_entry : forall (fval : nat -> option nat) (deps : nat -> list nat) (crash : nat -> bool)
    (progs : list (list call)) (s : cstate) (k : nat),
  creachable fval deps crash progs s -> 0 < orph (ents s k) ->
  orph (ents s k) = 1 /\ fbegins (ents s k) = 1 /\ fends (ents s k) = 0 /\ locked (ents s k) = true /\
  isd (ents s k) = false /\ C (holds k) (thrs s) = 0 /\ F k (thrs s) = 0 /\ C (is_call k) (thrs s) = 0.
Proof. exact crashed_entry. Qed.
Print Assumptions C10_crashed_entry.

Theorem C10_f_crash_never_reinvoked : forall (fval : nat -> option nat) (deps : nat -> list nat) (crash : nat -> bool)
    (progs : list (list call)) (s : cstate) (k : nat),
  creachable fval deps crash progs s -> 0 < orph (ents s k) ->
  forall (sch : list nat) (s' : cstate), crun fval deps crash sch s = Some s' ->
  fbegins (ents s' k) = 1 /\ fends (ents s' k) = 0 /\ isd (ents s' k) = false /\ locked (ents s' k) = true /\
  C (is_call k) (thrs s') = 0.
Proof. exact f_crash_never_reinvoked. Qed.
Print Assumptions C10_f_crash_never_reinvoked.

Theorem C10_crashed_do_blocks_get_nil : forall (fval : nat -> option nat) (deps : nat -> list nat) (crash : nat -> bool)
    (progs : list (list call)) (s : cstate) (t : nat) (th : thr) (k : nat),
  creachable fval deps crash progs s -> 0 < orph (ents s k) -> nth_error (thrs s) t = Some th ->
  (tpc th = DLock k -> cstep fval deps crash s t = None) /\
  (tpc th = GLoad1 k ->
     cstep fval deps crash s t = Some (mkC (set_nth t (ret th (CGet k) None) (thrs s)) (ents s) (plain s))).
Proof. exact crashed_do_blocks_get_nil. Qed.
Print Assumptions C10_crashed_do_blocks_get_nil.

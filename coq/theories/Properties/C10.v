(* C10 — par.Cache computes each key once and publishes the result safely.
   This file contains only the property theorems, each closed by [exact] of a lemma proved in
   Par/ParCacheProofs.v, with Print Assumptions beneath it.  [creachable fval progs s]: s is
   reached from the empty cache by some interleaving of the threads running [progs] (lists of
   Do(k)/Get(k) calls), one synchronisation operation per step; [fval k] is what f_k returns. *)
From Coq Require Import List Arith.
From GI Require Import Gen.ParConsts Par.ParWork Par.ParCache Par.ParCacheProofs.
Import ListNotations.

Theorem C10_done_flag_constants : Nat.eqb 0 cache_done_test = true /\ Nat.eqb cache_done_value cache_done_test = false.
Proof. exact (conj done_zero_is_not_done done_value_is_done). Qed.
Print Assumptions C10_done_flag_constants.

Theorem C10_f_once_per_key : forall (fval : nat -> nat) (progs : list (list call)) (s : cstate) (k : nat),
  creachable fval progs s -> fbegins (ents s k) <= 1 /\ fends (ents s k) <= fbegins (ents s k).
Proof. exact f_once_per_key. Qed.
Print Assumptions C10_f_once_per_key.

Theorem C10_f_exactly_once_at_end : forall (fval : nat -> nat) (progs : list (list call)) (s : cstate),
  creachable fval progs s -> all_idle s = true ->
  forall (p : list call) (k : nat), In p progs -> In (CDo k) p ->
  fbegins (ents s k) = 1 /\ fends (ents s k) = 1 /\ result (ents s k) = Some (fval k).
Proof. exact f_exactly_once_at_end. Qed.
Print Assumptions C10_f_exactly_once_at_end.

Theorem C10_do_returns_f_value : forall (fval : nat -> nat) (progs : list (list call)) (s : cstate)
    (t : nat) (th : thr) (k : nat) (v : option nat),
  creachable fval progs s -> nth_error (thrs s) t = Some th -> In (CDo k, v) (rets th) ->
  v = Some (fval k) /\ fbegins (ents s k) = 1 /\ fends (ents s k) = 1 /\ result (ents s k) = Some (fval k).
Proof. exact do_returns_f_value. Qed.
Print Assumptions C10_do_returns_f_value.

Theorem C10_do_after_f : forall (fval : nat -> nat) (progs : list (list call)) (s : cstate)
    (t : nat) (th : thr) (k : nat),
  creachable fval progs s -> nth_error (thrs s) t = Some th -> tpc th = DRead k ->
  fends (ents s k) = 1 /\ result (ents s k) = Some (fval k) /\ C (is_inf k) (thrs s) = 0.
Proof. exact do_after_f. Qed.
Print Assumptions C10_do_after_f.

Theorem C10_get_nonblocking : forall (fval : nat -> nat) (s : cstate) (t : nat) (th : thr),
  nth_error (thrs s) t = Some th -> in_get (tpc th) = true -> exists s' : cstate, cstep fval s t = Some s'.
Proof. exact get_nonblocking. Qed.
Print Assumptions C10_get_nonblocking.

Theorem C10_get_nil_or_value : forall (fval : nat -> nat) (progs : list (list call)) (s : cstate)
    (t : nat) (th : thr) (k : nat) (v : option nat),
  creachable fval progs s -> nth_error (thrs s) t = Some th -> In (CGet k, v) (rets th) ->
  v = None \/ v = Some (fval k) /\ fends (ents s k) = 1.
Proof. exact get_nil_or_value. Qed.
Print Assumptions C10_get_nil_or_value.

Theorem C10_race_free : forall (fval : nat -> nat) (progs : list (list call)) (s : cstate),
  creachable fval progs s ->
  (forall (a b : nat) (tha thb : thr) (k : nat), a <> b ->
     nth_error (thrs s) a = Some tha -> nth_error (thrs s) b = Some thb ->
     plain_write k (tpc tha) = true -> plain_write k (tpc thb) = false /\ plain_read k (tpc thb) = false) /\
  wf_plain (plain s).
Proof. exact race_free. Qed.
Print Assumptions C10_race_free.

Theorem C10_no_deadlock : forall (fval : nat -> nat) (progs : list (list call)) (s : cstate),
  creachable fval progs s -> all_idle s = true \/ (exists (t : nat) (s' : cstate), cstep fval s t = Some s').
Proof. exact cache_no_deadlock. Qed.
Print Assumptions C10_no_deadlock.

Theorem C10_step_decreases : forall (fval : nat -> nat) (s : cstate) (t : nat) (s' : cstate),
  cstep fval s t = Some s' -> psi s' < psi s.
Proof. exact psi_decreases. Qed.
Print Assumptions C10_step_decreases.

Theorem C10_schedules_finite : forall (fval : nat -> nat) (sch : list nat) (s s' : cstate),
  crun fval sch s = Some s' -> length sch + psi s' <= psi s.
Proof. exact cache_terminates. Qed.
Print Assumptions C10_schedules_finite.

Theorem C10_do_terminates : forall (fval : nat -> nat) (progs : list (list call)) (s : cstate),
  creachable fval progs s ->
  exists (sch : list nat) (s' : cstate), crun fval sch s = Some s' /\ all_idle s' = true /\ length sch <= psi s.
Proof. exact cache_can_finish. Qed.
Print Assumptions C10_do_terminates.

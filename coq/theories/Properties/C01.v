(* C01 — testscript verdict.  This file contains only the property theorems, each closed by
   [exact] of a lemma proved in TsRun/TsRunFacts.v, with Print Assumptions beneath it. *)
From Coq Require Import List Bool Arith NArith.
From Coq.Strings Require Import Byte.
From GI Require Import Lib.Bytes Gen.TsRunConsts Txtar.Txtar TsRun.TsFs TsRun.TsState TsRun.TsCmds TsRun.TsRun TsRun.TsRunFacts.
Import ListNotations.

Theorem C01_cli_exit_iff : forall cfg batch,
  cli_exit cfg batch = 0%N <->
  forall j, In j batch -> forall n, r_verdict (run_file cfg (j_work j) (j_env j) (j_file j)) <> Fail n.
Proof. exact cli_exit_iff. Qed.
Print Assumptions C01_cli_exit_iff.

(* C01 — testscript verdict: a script passes iff every executed line meets its demand.
   This file contains only the property theorems, each closed by [exact] of a lemma proved
   in TsRun/TsRunFacts.v, with Print Assumptions beneath it.  The interpreter is TsRun/TsRun.v
   (run_line, run_lines, run_script, cli_exit); the declarative reading of "meets its demand"
   is TsRun/TsSpec.v (demand_met, skip_met, unmet, lines_met, all_met, exec_all). *)
From Coq Require Import List Bool Arith NArith Permutation.
From Coq.Strings Require Import Byte.
From GI Require Import Lib.Bytes Gen.TsRunConsts Txtar.Txtar
  TsRun.TsFs TsRun.TsRegex TsRun.TsRegexFacts TsRun.TsState TsRun.TsCmds TsRun.TsRun TsRun.TsSpec TsRun.TsRunFacts
  TsRun.TsUpdate TsRun.TsRerun TsRun.TsRerunFacts TsRun.TsNamesFacts TsRun.TsLineFacts TsRun.TsUnpackFacts.
Import ListNotations.

(* one line: the interpreter returns normally exactly when the declarative demand is met *)
Theorem C01_line_done_iff : forall cfg st line st',
  run_line cfg st line = Done st' <-> demand_met cfg st line st'.
Proof. exact line_done_iff. Qed.
Print Assumptions C01_line_done_iff.

Theorem C01_line_failed_iff : forall cfg st line,
  (exists st', run_line cfg st line = Failed st') <-> unmet cfg st line.
Proof. exact line_failed_iff. Qed.
Print Assumptions C01_line_failed_iff.

(* verdict_pass_iff, for every script text, every initial state, every Params *)
Theorem C01_verdict_pass_iff : forall cfg text st0,
  r_verdict (run_script cfg text st0) = Pass
  <-> exists stF, all_met cfg (script_lines text) 0 false st0 stF.
Proof. exact verdict_pass_iff. Qed.
Print Assumptions C01_verdict_pass_iff.

Theorem C01_run_pass_iff : forall cfg text st0 stF,
  run_script cfg text st0 = {| r_verdict := Pass; r_final := stF; r_fail_lines := [] |}
  <-> all_met cfg (script_lines text) 0 false st0 stF.
Proof. exact run_pass_iff. Qed.
Print Assumptions C01_run_pass_iff.

(* verdict_fail_first *)
Theorem C01_verdict_fail_first : forall cfg text st0 n stF,
  c_continue cfg = false ->
  (run_script cfg text st0 = {| r_verdict := Fail n; r_final := stF; r_fail_lines := [n] |}
   <-> exists pre l post st1,
         script_lines text = pre ++ l :: post /\ n = S (length pre)
         /\ lines_met cfg pre 0 false st0 st1 /\ is_comment l = false
         /\ unmet cfg (at_line n false st1) l
         /\ stF = line_effects cfg (at_line n false st1) l).
Proof. exact verdict_fail_first. Qed.
Print Assumptions C01_verdict_fail_first.

Theorem C01_fail_line_logged : forall cfg text st0 n,
  c_continue cfg = false ->
  r_verdict (run_script cfg text st0) = Fail n -> r_fail_lines (run_script cfg text st0) = [n].
Proof. exact fail_line_logged. Qed.
Print Assumptions C01_fail_line_logged.

Theorem C01_later_lines_irrelevant : forall cfg pre l post post' n st st1,
  c_continue cfg = false ->
  lines_met cfg pre n false st st1 -> is_comment l = false ->
  unmet cfg (at_line (S (n + length pre)) false st1) l ->
  run_lines cfg (pre ++ l :: post) n false st = run_lines cfg (pre ++ l :: post') n false st.
Proof. exact later_lines_irrelevant. Qed.
Print Assumptions C01_later_lines_irrelevant.

(* continue_runs_all *)
Theorem C01_continue_iff : forall cfg ls n f st k stF U,
  c_continue cfg = true ->
  (run_lines cfg ls n f st = (k, stF, U) <-> exec_all cfg ls n f st k stF U).
Proof. exact continue_iff. Qed.
Print Assumptions C01_continue_iff.

Theorem C01_continue_runs_all : forall cfg text st0,
  c_continue cfg = true ->
  exists k stF U,
    exec_all cfg (script_lines text) 0 false st0 k stF U
    /\ run_script cfg text st0 = {| r_verdict := mk_verdict k U; r_final := stF; r_fail_lines := U |}
    /\ ((exists n, r_verdict (run_script cfg text st0) = Fail n) <-> U <> [])
    /\ (U <> [] -> r_verdict (run_script cfg text st0) = Fail (hd 0 U)).
Proof. exact continue_runs_all. Qed.
Print Assumptions C01_continue_runs_all.

Theorem C01_stop_passes : forall cfg pre l post st0 st1 st2,
  lines_met cfg pre 0 false st0 st1 -> is_comment l = false ->
  demand_met cfg (at_line (S (length pre)) false st1) l st2 -> s_stopped st2 = true ->
  run_lines cfg (pre ++ l :: post) 0 false st0 = (EPass, end_bg st2, []).
Proof. exact stop_passes. Qed.
Print Assumptions C01_stop_passes.

Theorem C01_stop_cmd_stops : forall cfg args st,
  length args <= 1 ->
  cmd_sem cfg (CBuiltin [x73; x74; x6f; x70]) false args st = Done (set_stopped st true).
Proof. exact stop_cmd_stops. Qed.
Print Assumptions C01_stop_cmd_stops.

Theorem C01_skip_skips : forall cfg pre l post st0 st1 st2,
  lines_met cfg pre 0 false st0 st1 -> is_comment l = false ->
  skip_met cfg (at_line (S (length pre)) false st1) l st2 ->
  run_lines cfg (pre ++ l :: post) 0 false st0 = (ESkip, st2, []).
Proof. exact skip_skips. Qed.
Print Assumptions C01_skip_skips.

Theorem C01_skip_after_failure_fails : forall cfg pre l post n st st1 st2,
  lines_met cfg pre n true st st1 -> is_comment l = false ->
  skip_met cfg (at_line (S (n + length pre)) true st1) l st2 ->
  run_lines cfg (pre ++ l :: post) n true st = (EFail, st2, []).
Proof. exact skip_after_failure_fails. Qed.
Print Assumptions C01_skip_after_failure_fails.

Theorem C01_skip_cmd_skips : forall cfg args st,
  length args <= 1 -> s_bg st = [] ->
  cmd_sem cfg (CBuiltin [x73; x6b; x69; x70]) false args st
  = SkipNow (set_bg (set_outerr (set_bg st []) [] []) []).
Proof. exact skip_cmd_skips. Qed.
Print Assumptions C01_skip_cmd_skips.

Theorem C01_guard_false_noop : forall cfg st line words,
  tokenise (s_env st) line = Some words -> guards_block cfg st words ->
  run_line cfg st line = Done st.
Proof. exact guard_false_noop. Qed.
Print Assumptions C01_guard_false_noop.

Theorem C01_neg_flips_exec : forall cfg args st s,
  fg_args args -> exec_times_out cfg args st = false ->
  (cmd_exec cfg true args st = Done s <-> cmd_exec cfg false args st = Failed s)
  /\ (cmd_exec cfg true args st = Failed s <-> cmd_exec cfg false args st = Done s).
Proof. exact neg_flips_exec. Qed.
Print Assumptions C01_neg_flips_exec.

(* "with a leading ! it fails in the way that command defines": being stopped by testscript
   because the deadline of the run is reached is not the command failing *)
Theorem C01_neg_does_not_excuse_timeout : forall cfg args st,
  fg_args args -> exec_times_out cfg args st = true ->
  exists s, forall neg, cmd_exec cfg neg args st = Failed s.
Proof. exact neg_does_not_excuse_timeout. Qed.
Print Assumptions C01_neg_does_not_excuse_timeout.

Theorem C01_no_deadline_no_timeout : forall cfg args st,
  c_deadline cfg = false -> c_cancelled cfg = false -> exec_times_out cfg args st = false.
Proof. exact no_deadline_no_timeout. Qed.
Print Assumptions C01_no_deadline_no_timeout.

Theorem C01_timeout_line_unmet : forall cfg st line neg args,
  reaches cfg st line neg (CBuiltin exec_name) args -> fg_args args ->
  exec_times_out cfg args st = true -> unmet cfg st line.
Proof. exact timeout_line_unmet. Qed.
Print Assumptions C01_timeout_line_unmet.

Theorem C01_timeout_fails_run : forall cfg text st0 pre l post st1 neg args,
  c_continue cfg = false ->
  script_lines text = pre ++ l :: post -> lines_met cfg pre 0 false st0 st1 -> is_comment l = false ->
  reaches cfg (at_line (S (length pre)) false st1) l neg (CBuiltin exec_name) args -> fg_args args ->
  exec_times_out cfg args (at_line (S (length pre)) false st1) = true ->
  r_verdict (run_script cfg text st0) = Fail (S (length pre))
  /\ r_fail_lines (run_script cfg text st0) = [S (length pre)].
Proof. exact timeout_fails_run. Qed.
Print Assumptions C01_timeout_fails_run.

Theorem C01_wait_timeout_fails : forall cfg st,
  wait_times_out cfg (s_bg st) = true -> cmd_wait cfg [] st = Failed (timed_out_state cfg st).
Proof. exact wait_timeout_fails. Qed.
Print Assumptions C01_wait_timeout_fails.

Theorem C01_wait_named_timeout_fails : forall cfg st n bg,
  find_bg (s_bg st) n = Some bg -> c_deadline cfg = true -> running_sleeper bg = true ->
  cmd_wait cfg [n] st = Failed (timed_out_state cfg st).
Proof. exact wait_named_timeout_fails. Qed.
Print Assumptions C01_wait_named_timeout_fails.

(* several scripts in one RunT call (refCount protocol of the shared context): the verdict of
   a script is the verdict of that script run alone, whatever stands around it, in any order *)
Theorem C01_verdict_independent_of_batch : forall cfg jobs,
  c_cancelled cfg = false -> runT_seq cfg jobs = batch_verdicts cfg jobs.
Proof. exact verdict_independent_of_batch. Qed.
Print Assumptions C01_verdict_independent_of_batch.

Theorem C01_verdict_independent_of_batch_nth : forall cfg pre j post,
  c_cancelled cfg = false ->
  nth_error (runT_seq cfg (pre ++ j :: post)) (length pre)
  = Some (r_verdict (run_file cfg (j_work j) (j_env j) (j_file j))).
Proof. exact verdict_independent_of_batch_nth. Qed.
Print Assumptions C01_verdict_independent_of_batch_nth.

Theorem C01_verdict_independent_of_order : forall cfg jobs jobs',
  c_cancelled cfg = false -> Permutation jobs jobs' ->
  Permutation (runT_seq cfg jobs) (runT_seq cfg jobs').
Proof. exact verdict_independent_of_order. Qed.
Print Assumptions C01_verdict_independent_of_order.

Theorem C01_unknown_cmd_fails : forall cfg st line words cw neg name args,
  tokenise (s_env st) line = Some words -> guards_pass cfg st words cw ->
  split_neg cw = Some (neg, name, args) -> lookup_cmd cfg name = None ->
  run_line cfg st line = Failed st.
Proof. exact unknown_cmd_fails. Qed.
Print Assumptions C01_unknown_cmd_fails.

Theorem C01_neg_unsupported_fails : forall cfg st line name args,
  In name neg_rejecting_cmds ->
  reaches cfg st line true (CBuiltin name) args ->
  run_line cfg st line = Failed st.
Proof. exact neg_unsupported_fails. Qed.
Print Assumptions C01_neg_unsupported_fails.

Theorem C01_cli_exit_iff : forall cfg batch,
  cli_exit cfg batch = 0%N <->
  forall j, In j batch -> forall n, r_verdict (run_file cfg (j_work j) (j_env j) (j_file j)) <> Fail n.
Proof. exact cli_exit_iff. Qed.
Print Assumptions C01_cli_exit_iff.

(* Params.RequireExplicitExec *)
Theorem C01_explicit_exec_required : forall cfg st line neg name args,
  c_explicit_exec cfg = true -> In name (c_main_cmds cfg) ->
  reaches cfg st line neg (CMain name) args ->
  run_line cfg st line = Failed st.
Proof. exact explicit_exec_required. Qed.
Print Assumptions C01_explicit_exec_required.

Theorem C01_explicit_exec_not_required : forall cfg name neg args st,
  c_explicit_exec cfg = false ->
  cmd_sem cfg (CMain name) neg args st = cmd_exec cfg neg (name :: args) st.
Proof. exact explicit_exec_not_required. Qed.
Print Assumptions C01_explicit_exec_not_required.

(* Params.RequireUniqueNames *)
Theorem C01_unique_names_step : forall st work name data r t1,
  let p := mkabs st (expand (s_env st) name) in
  mkdir_all (s_fs st) (dir p) 511 = (t1, true) ->
  lstat t1 p <> None ->
  snd (unpack true work ((name, data) :: r) st) = false.
Proof. exact unique_names_step. Qed.
Print Assumptions C01_unique_names_step.

(* archive entry names: expanded with the initial variables, unpacked at and registered under the
   expanded location, refused when that location is outside the work directory *)
Theorem C01_unpack_step : forall st work (u : bool) name data r t1 t2,
  let p := mkabs st (expand (s_env st) name) in
  beneath work p = true ->
  mkdir_all (s_fs st) (dir p) 511 = (t1, true) ->
  (if u then write_file_excl t1 p data 438 else write_file t1 p data 438) = Some t2 ->
  unpack u work ((name, data) :: r) st
  = unpack u work r (set_fs (set_files st (assoc_set (s_files st) (clean p) name)) t2).
Proof. exact unpack_step. Qed.
Print Assumptions C01_unpack_step.

Theorem C01_work_named_entry : forall st work (u : bool) q data r t1 t2,
  let name := work_ref ++ [SLASH] ++ q in
  let p := getenv (s_env st) work_key ++ [SLASH] ++ q in
  no_dollar q = true ->
  is_abs (getenv (s_env st) work_key) = true ->
  beneath work p = true ->
  mkdir_all (s_fs st) (dir p) 511 = (t1, true) ->
  (if u then write_file_excl t1 p data 438 else write_file t1 p data 438) = Some t2 ->
  exists st', unpack u work ((name, data) :: r) st = unpack u work r st'
    /\ s_fs st' = t2 /\ assoc_get (s_files st') (clean p) = Some name.
Proof. exact work_named_entry. Qed.
Print Assumptions C01_work_named_entry.

Theorem C01_escaping_name_fails_setup : forall cfg work env a pre name data post t st,
  files a = pre ++ (name, data) :: post ->
  mkdir_all [] (work ++ [x2f; x2e; x74; x6d; x70]) 511 = (t, true) ->
  unpack (c_unique cfg) work pre (empty_state env work t) = (st, true) ->
  beneath work (location work env name) = false ->
  setup cfg work env a = (st, false)
  /\ r_verdict (run_archive cfg work env a) = Fail 0
  /\ r_fail_lines (run_archive cfg work env a) = [0].
Proof. exact escaping_name_fails_setup. Qed.
Print Assumptions C01_escaping_name_fails_setup.

(* ... and for the whole archive: two entries unpacked at the same location, wherever they stand and
   however they are spelled, fail setup (the tree only grows while setup runs: what was created stays) *)
Theorem C01_unique_names_whole_archive : forall cfg work env a pre n1 d1 mid n2 d2 post,
  c_unique cfg = true ->
  files a = pre ++ (n1, d1) :: mid ++ (n2, d2) :: post ->
  location work env n1 = location work env n2 ->
  snd (setup cfg work env a) = false
  /\ r_verdict (run_archive cfg work env a) = Fail 0 /\ r_fail_lines (run_archive cfg work env a) = [0].
Proof. exact unique_names_whole_archive. Qed.
Print Assumptions C01_unique_names_whole_archive.

Theorem C01_setup_failure_is_fail_0 : forall cfg work env a st,
  setup cfg work env a = (st, false) ->
  r_verdict (run_archive cfg work env a) = Fail 0 /\ r_fail_lines (run_archive cfg work env a) = [0].
Proof. exact setup_failure_is_fail_0. Qed.
Print Assumptions C01_setup_failure_is_fail_0.

(* the regular-expression fragment of stdout / stderr / grep: the matcher against the
   declarative reading [ms] (TsRun/TsRegex.v, TsRun/TsRegexFacts.v) *)
Theorem C01_regex_matcher_sound : forall ps prev rest n,
  m_seq ps prev rest = Some n ->
  n <= length rest /\ ms ps prev (firstn n rest) (skipn n rest).
Proof. exact m_seq_sound. Qed.
Print Assumptions C01_regex_matcher_sound.

Theorem C01_regex_matcher_complete : forall ps prev w after,
  ms ps prev w after -> exists n, m_seq ps prev (w ++ after) = Some n.
Proof. exact m_seq_complete. Qed.
Print Assumptions C01_regex_matcher_complete.

Theorem C01_regex_has_match_iff : forall re text,
  re_has_match re text = true <-> re_matches_in re text.
Proof. exact re_has_match_iff. Qed.
Print Assumptions C01_regex_has_match_iff.

Theorem C01_regex_count_zero_iff : forall re text,
  re_count re text = 0%N <-> re_has_match re text = false.
Proof. exact re_count_zero_iff. Qed.
Print Assumptions C01_regex_count_zero_iff.

(* Params.Cmds never replaces a command of the standard set *)
Theorem C01_builtin_shadows_custom : forall cfg name k,
  In name script_cmd_names -> ~ In name (c_main_cmds cfg) ->
  assoc_kind (c_cmds cfg) name = Some k ->
  lookup_cmd cfg name = Some (CBuiltin name).
Proof. exact builtin_shadows_custom. Qed.
Print Assumptions C01_builtin_shadows_custom.

Theorem C01_custom_reached_iff : forall cfg name k,
  lookup_cmd cfg name = Some (CCustom k) <->
  ~ In name (c_main_cmds cfg) /\ ~ In name script_cmd_names /\ assoc_kind (c_cmds cfg) name = Some k.
Proof. exact custom_reached_iff. Qed.
Print Assumptions C01_custom_reached_iff.

(* the built-in conditions: GOOS / GOARCH names, unix, go1.N (name lists and goVersionRegex regenerated) *)
Theorem C01_cond_goos : forall cfg st c,
  In c known_os_names -> cond_eval cfg st c = CondVal (bytes_eqb c (c_goos cfg)).
Proof. exact cond_goos. Qed.
Print Assumptions C01_cond_goos.

Theorem C01_cond_goos_unique : forall cfg st c1 c2,
  In c1 known_os_names -> In c2 known_os_names ->
  cond_eval cfg st c1 = CondVal true -> cond_eval cfg st c2 = CondVal true -> c1 = c2.
Proof. exact cond_goos_unique. Qed.
Print Assumptions C01_cond_goos_unique.

Theorem C01_cond_unix : forall cfg st,
  cond_eval cfg st unix_name = CondVal (mem_bytes (c_goos cfg) unix_os_names).
Proof. exact cond_unix. Qed.
Print Assumptions C01_cond_unix.

Theorem C01_cond_goarch : forall cfg st c,
  In c known_arch_names -> cond_eval cfg st c = CondVal (bytes_eqb c (c_goarch cfg)).
Proof. exact cond_goarch. Qed.
Print Assumptions C01_cond_goarch.

Theorem C01_cond_go_version : forall cfg st c v,
  go_version c = Some v -> cond_eval cfg st c = CondVal (release_tag_holds (c_go_minor cfg) v).
Proof. exact cond_go_version. Qed.
Print Assumptions C01_cond_go_version.

(* for EVERY N >= 1: the guard [go1.N] (N in decimal) holds exactly up to the toolchain's minor version *)
Theorem C01_cond_go1_every_minor : forall cfg st n,
  (1 <= n)%N -> cond_eval cfg st (go1_prefix ++ dec n) = CondVal (N.leb n (c_go_minor cfg)).
Proof. exact cond_go1_every_minor. Qed.
Print Assumptions C01_cond_go1_every_minor.

Theorem C01_release_tag_spec : forall m major minor,
  release_tag_holds m (major, minor) = true <-> major = 1%N /\ (1 <= minor <= m)%N.
Proof. exact release_tag_spec. Qed.
Print Assumptions C01_release_tag_spec.

Theorem C01_release_tags_downward : forall m a b,
  release_tag_holds m (1%N, a) = true -> (1 <= b)%N -> (b <= a)%N -> release_tag_holds m (1%N, b) = true.
Proof. exact release_tags_downward. Qed.
Print Assumptions C01_release_tags_downward.

Theorem C01_guard_runs_iff : forall cfg st (want : bool) c b w rest,
  guard_of w = Some (want, c) -> rest <> [] -> cond_eval cfg st c = CondVal b ->
  run_guards cfg st (w :: rest) = (if Bool.eqb b want then run_guards cfg st rest else Done st).
Proof. exact guard_runs_iff. Qed.
Print Assumptions C01_guard_runs_iff.

Theorem C01_go_version_regex_current :
  go_version_regex = [x5e; x67; x6f; x28; x5b; x31; x2d; x39; x5d; x5b; x30; x2d; x39; x5d; x2a; x29; x5c; x2e;
                      x28; x5b; x31; x2d; x39; x5d; x5b; x30; x2d; x39; x5d; x2a; x29; x24].
Proof. exact go_version_regex_current. Qed.
Print Assumptions C01_go_version_regex_current.

(* exists / ! exists: every operand counts, whatever its position *)
Theorem C01_not_exists_iff : forall st f fs,
  bytes_eqb f readonly_flag = false ->
  cmd_exists true (f :: fs) st = Done st <-> forall g, In g (f :: fs) -> stat (s_fs st) (mkabs st g) = None.
Proof. exact not_exists_iff. Qed.
Print Assumptions C01_not_exists_iff.

Theorem C01_exists_iff : forall st f fs,
  bytes_eqb f readonly_flag = false ->
  cmd_exists false (f :: fs) st = Done st <-> forall g, In g (f :: fs) -> stat (s_fs st) (mkabs st g) <> None.
Proof. exact exists_iff. Qed.
Print Assumptions C01_exists_iff.

Theorem C01_exists_state : forall neg args st, outcome_state (cmd_exists neg args st) = st.
Proof. exact exists_state. Qed.
Print Assumptions C01_exists_state.

(* a program that cannot be started: the line fails (or meets "!"); started with a path, it is "the
   next exec command" all the same: the pending standard input is consumed, the old output is gone *)
Theorem C01_exec_cannot_start : forall cfg neg prog rest st,
  bg_spec (last (prog :: rest) []) = None -> can_start cfg st prog = false ->
  cmd_exec cfg neg (prog :: rest) st
  = (if neg then Done (start_failed_state cfg st prog) else Failed (start_failed_state cfg st prog)).
Proof. exact exec_cannot_start. Qed.
Print Assumptions C01_exec_cannot_start.

Theorem C01_start_failure_consumes_stdin : forall cfg st prog,
  has_slash prog = true ->
  let st' := start_failed_state cfg st prog in
  s_in st' = [] /\ s_out st' = [] /\ s_err st' = [] /\ s_fs st' = s_fs st /\ s_env st' = s_env st /\ s_cd st' = s_cd st /\ s_bg st' = s_bg st.
Proof. exact start_failure_consumes_stdin. Qed.
Print Assumptions C01_start_failure_consumes_stdin.

Theorem C01_lookup_failure_keeps_stdin : forall cfg st prog,
  is_bare prog = true -> prog_found cfg st prog = false ->
  s_in (start_failed_state cfg st prog) = s_in st /\ s_out (start_failed_state cfg st prog) = [].
Proof. exact lookup_failure_keeps_stdin. Qed.
Print Assumptions C01_lookup_failure_keeps_stdin.

From GI Require Lib.GoSem Lib.GoSemFail TsRun.SrcLib Gen.TsRunSrc TsRun.SrcFacts.

(* ---- the source itself: the pure segments of runLine up to the command lookup -- the words and
   the blank-line test; the loop over the [cond] prefixes and the ! prefix -- translated on every
   run by harness/go2coq (Gen/TsRunSrc.v), are the model (TsRun/SrcFacts.v).  ts.parse and
   ts.condition are oracles carried by the receiver [ts]; [parse_agrees st ts] / [cond_agrees cfg st ts]:
   they answer as the model's tokenise / cond_eval compute (a Fatalf or an error where the model
   has no value).  [guards_view] / [line_view] / [view_outcome]: the model's run_guards / run_line
   read as "fail, skip the line, or run these command words with this negation". *)

(* The view is the model: run_guards is view_outcome of guards_view. *)
Theorem C01_source_view_is_run_guards : forall cfg st words,
  run_guards cfg st words = TsRun.SrcFacts.view_outcome cfg st (TsRun.SrcFacts.guards_view cfg st words).
Proof. exact TsRun.SrcFacts.run_guards_view. Qed.
Print Assumptions C01_source_view_is_run_guards.

(* The translated guard loop and ! test: with fuel for one iteration per word, never a panic,
   never out of fuel, and the decision is the model's. *)
Theorem C01_source_guards : forall cfg st ts, TsRun.SrcFacts.cond_agrees cfg st ts ->
  forall fuel words, words <> [] -> length words + 1 <= fuel ->
  exists o, TsRunSrc.src_TestScript_runLine_guards fuel ts words = GoSem.Ok o /\
            TsRun.SrcFacts.view_of_guards o = Some (TsRun.SrcFacts.guards_view cfg st words).
Proof. exact TsRun.SrcFacts.src_guards_eq. Qed.
Print Assumptions C01_source_guards.

(* runLine from the tokenizer to the command lookup, by the translated segments in source order:
   for every line it decides what the model's run_line decides. *)
Theorem C01_source_run_line_prefix : forall cfg st ts,
  TsRun.SrcFacts.parse_agrees st ts -> TsRun.SrcFacts.cond_agrees cfg st ts ->
  forall fuel line,
  (forall ws, tokenise (s_env st) line = Some ws -> length ws + 1 <= fuel) ->
  exists o, TsRun.SrcFacts.src_run_line_prefix ts fuel line = GoSem.Ok o /\
            TsRun.SrcFacts.view_of_guards o = Some (TsRun.SrcFacts.line_view cfg st line) /\
            run_line cfg st line = TsRun.SrcFacts.view_outcome cfg st (TsRun.SrcFacts.line_view cfg st line).
Proof. exact TsRun.SrcFacts.src_run_line_prefix_eq. Qed.
Print Assumptions C01_source_run_line_prefix.
